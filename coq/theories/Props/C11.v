(* C11 — partial coverage and opacity interpolate between 'not drawn' and 'fully drawn'. *)
From Coq Require Import ZArith List.
From TS Require Import Base.F32 Base.U16 Gen.LowpGen Model.Pixel Proofs.LowpProofs Proofs.CoverageProofs.
Local Open Scope Z_scope.

(* non-pre-scaled modes end with lerp(dst, blended, coverage): channel by channel the result is
   between the previous value and the fully drawn value ... *)
Theorem C11_lerp_between :
  forall from to t, 0 <= from <= 255 -> 0 <= to <= 255 -> 0 <= t <= 255 ->
  Z.min from to <= lowp_lerp from to t <= Z.max from to.
Proof. exact lerp_between. Qed.
Check C11_lerp_between :
  forall from to t, 0 <= from <= 255 -> 0 <= to <= 255 -> 0 <= t <= 255 ->
  Z.min from to <= lowp_lerp from to t <= Z.max from to.

(* ... zero coverage changes nothing, full coverage is exactly the fully drawn value ... *)
Theorem C11_lerp_zero : forall from to, 0 <= from <= 255 -> 0 <= to <= 255 -> lowp_lerp from to 0 = from.
Proof. exact lerp_zero. Qed.
Theorem C11_lerp_full : forall from to, 0 <= from <= 255 -> 0 <= to <= 255 -> lowp_lerp from to 255 = to.
Proof. exact lerp_full. Qed.

(* ... and it moves monotonically with the coverage, towards the fully drawn value *)
Theorem C11_lerp_mono :
  forall from to t t', 0 <= from <= 255 -> 0 <= to <= 255 -> 0 <= t <= t' -> t' <= 255 ->
  (from <= to -> lowp_lerp from to t <= lowp_lerp from to t') /\
  (to <= from -> lowp_lerp from to t' <= lowp_lerp from to t).
Proof. exact lerp_mono. Qed.

Theorem C11_lerp_close :
  forall from to t, 0 <= from <= 255 -> 0 <= to <= 255 -> 0 <= t <= 255 ->
  -255 <= 255 * lowp_lerp from to t - (from * (255 - t) + to * t) <= 255.
Proof. exact lerp_close. Qed.

(* pre-scaled modes scale the source by the coverage first: monotone, 0 at coverage 0, identity at 255 *)
Theorem C11_prescale :
  forall v c c', 0 <= v <= 255 -> 0 <= c <= c' -> c' <= 255 ->
  lowp_div255 (u16mul v c) <= lowp_div255 (u16mul v c') /\
  lowp_div255 (u16mul v 0) = 0 /\ lowp_div255 (u16mul v 255) = v.
Proof.
  intros v c c' Hv Hc Hc'. split; [apply scale_mono; auto|]. split; [apply scale0_zero; auto | apply scale255_id; auto].
Qed.

(* the coverage byte the blitter converts to f32 (alpha * (1/255)) comes back as the same byte *)
Theorem C11_from_float_exact : forall a, 0 <= a <= 255 -> lowp_from_float (F32.mul (F32.of_Z a) inv255) = a.
Proof. exact from_float_exact. Qed.
