(* C02 / C06 (shared): the fixed-point helpers of src/fixed_point.rs and src/math.rs, as regenerated from the source on every
   check (Gen/FixedGen.v), are the helpers the hand-written edge and hairline models are built from, and compute the
   mathematical floor / ceiling / rounding / quotient they are named after.  An edit of the source that changes one of them
   breaks a theorem here, before any correspondence case is run. *)
From Coq Require Import ZArith Bool.
From TS Require Import Base.F32 Base.Checked Gen.FixedGen Model.Edge Model.Hairline Proofs.FixedMatch.
Local Open Scope Z_scope.

(* the generated functions ARE the model's helpers (on i32 values) *)
Theorem FX_generated_helpers_are_the_models :
  (forall v s, FixedGen.left_shift v s = Edge.left_shift v s) /\
  (forall n, FixedGen.fdot6_round n = Edge.fdot6_round n) /\
  (forall n, FixedGen.fdot6_to_fdot16 n = Edge.fdot6_to_fdot16 n) /\
  (forall x, FixedGen.fdot16_round_to_i32 x = Edge.fdot16_round_to_i32 x) /\
  (forall a b, I32 a -> I32 b -> FixedGen.fdot16_div a b = Edge.fdot16_div a b) /\
  (forall a b, I32 a -> I32 b -> FixedGen.fdot6_div a b = Edge.fdot6_div a b) /\
  (forall a b, I32 a -> I32 b -> FixedGen.fdot16_mul a b = Some (Edge.fdot16_mul a b)) /\
  (forall v, FixedGen.fdot6_from_f32 v = Hairline.fdot6_from_f32 v).
Proof.
  split; [exact left_shift_eq|]. split; [exact fdot6_round_eq|]. split; [exact fdot6_to_fdot16_eq|].
  split; [exact fdot16_round_to_i32_eq|]. split; [exact fdot16_div_eq|]. split; [exact fdot6_div_eq|].
  split; [exact fdot16_mul_eq | exact fdot6_from_f32_eq].
Qed.

(* the slope of an edge: for EVERY pair of FDot6 deltas, whichever of the two code paths is taken, the truncated quotient
   (a * 65536) / b clamped to i32 ((-32768, -1) overflows the 32-bit division: a panic in a checked build) *)
Theorem FX_fdot6_div_spec :
  forall a b, I32 a -> I32 b -> b <> 0 -> ~ (a = -32768 /\ b = -1) ->
  FixedGen.fdot6_div a b = Some (Z.max (-2147483648) (Z.min (Z.quot (a * 65536) b) 2147483647)).
Proof. exact fdot6_div_spec. Qed.

(* the anti-aliased hairline's fast division: exact on 16-bit numerators, refused (debug assertion) on all others *)
Theorem FX_fast_div_spec :
  forall a b, I32 a -> I32 b -> b <> 0 -> -32768 <= a <= 32767 -> ~ (a = -32768 /\ b = -1) ->
  FixedGen.fdot16_fast_div a b = Some (Z.quot (a * 65536) b).
Proof. exact fdot16_fast_div_spec. Qed.
Theorem FX_fast_div_guard :
  forall a b, I32 a -> ~ (-32768 <= a <= 32767) -> FixedGen.fdot16_fast_div a b = None.
Proof. exact fdot16_fast_div_guard. Qed.

(* floor / ceiling / rounding of the two formats *)
Theorem FX_rounding_specs :
  (forall n, FixedGen.fdot6_floor n = n / 64) /\
  (forall n, I32 n -> n + 63 <= 2147483647 -> FixedGen.fdot6_ceil n = Some ((n + 63) / 64)) /\
  (forall n, I32 n -> n + 32 <= 2147483647 -> FixedGen.fdot6_round n = Some ((n + 32) / 64)) /\
  (forall x, FixedGen.fdot16_floor_to_i32 x = x / 65536) /\
  (forall x, I32 x -> x + 65536 <= 2147483647 -> FixedGen.fdot16_ceil_to_i32 x = Some ((x + 65535) / 65536)).
Proof.
  split; [exact fdot6_floor_spec|]. split; [exact fdot6_ceil_spec|]. split; [exact fdot6_round_spec|].
  split; [exact fdot16_floor_spec | exact fdot16_ceil_spec].
Qed.

(* color::premultiply_u8 as written in src/color.rs is the function the C12 / C17 value theorems are about, and cannot
   overflow on bytes *)
Theorem FX_premultiply_u8_is_the_model :
  forall c a, 0 <= c <= 255 -> 0 <= a <= 255 -> FixedGen.premultiply_u8 c a = Some (TS.Model.Pixel.premultiply_u8 c a).
Proof. exact premultiply_u8_eq. Qed.

(* non-vacuity: a 512-px run over 64 px of height has slope 8.0; the first value beyond the fast path takes the 64-bit path *)
Example FX_example :
  FixedGen.fdot6_div 32768 4096 = Some 524288 /\ FixedGen.fdot6_div 32767 4096 = Some 524272 /\
  FixedGen.fdot16_fast_div 32768 4096 = None /\ FixedGen.fixed_gen_ok = true.
Proof. vm_compute. repeat split. Qed.
