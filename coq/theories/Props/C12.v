(* C12 — pixmaps stay validly premultiplied through any sequence of draws (low-precision pipeline:
   full theorem; high precision: ideal + correspondence, see DESIGN.md). *)
From Coq Require Import ZArith List String Lia.
Import ListNotations.
From TS Require Import Base.F32 Base.U16 Gen.LowpGen Spec.BlendSpec Model.Pixel
  Proofs.LowpProofs Proofs.LowpStages Proofs.RunnerProofs Proofs.SourcePremul Proofs.SourcePremulDefs.
Local Open Scope Z_scope.

(* THE property for lowp: from premultiplied pixels, any finite sequence of draws — any stage
   program (so every blend mode of the generated table, with or without clip mask, coverage,
   aa-mask), any span, any mask contents — leaves premultiplied pixels. *)
Theorem C12_history_premul :
  forall ds pxs out,
  Forall px_premul pxs -> Forall draw_ok ds ->
  fold_left apply_draw ds (Some pxs) = Some out -> Forall px_premul out.
Proof. exact history_premul. Qed.
Check C12_history_premul :
  forall ds pxs out,
  Forall px_premul pxs -> Forall draw_ok ds ->
  fold_left apply_draw ds (Some pxs) = Some out -> Forall px_premul out.

(* one lane, one program *)
Theorem C12_lowp_lane_premul :
  forall uni cov prog i,
  px_premul uni -> 0 <= lowp_from_float cov <= 255 -> lin_ok i ->
  px_premul (lane_out (fun i => run_lane (fun st => lowp_stage st uni cov) prog i (mklst 0 0 0 0 0 0 0 0) None) i).
Proof. exact lowp_lane_premul. Qed.

(* every closure of the generated table keeps colour <= alpha <= 255 (this is also what keeps
   the u16 lanes from overflowing on the selected path) *)
Theorem C12_blend_table_ok :
  Forall (fun e => mode_ok (fst (snd e)) (snd (snd e))) lowp_blend_table.
Proof. exact blend_table_ok. Qed.

(* the source a solid paint injects is premultiplied for every 8-bit colour (complete finite check) *)
Theorem C12_source_premul :
  forall c a, 0 <= c <= 255 -> 0 <= a <= 255 -> 0 <= chan_u16 c a <= alpha_u16 a /\ alpha_u16 a <= 255.
Proof. exact source_channel_premul. Qed.

(* any invariant of single pixels lifts from the lane function to rows (used for highp too) *)
Theorem C12_row_invariant :
  forall (P : px -> Prop) f hm w x0 len row out,
  (w > 0)%nat -> (forall i, P (in_dst i) -> P (lane_out f i)) ->
  Forall (fun i => P (in_dst i)) row -> run_row f hm w x0 len row = Some out -> Forall P out.
Proof. exact run_row_invariant. Qed.

Example C12_nonvacuous :
  px_premul (mkpx 10 20 30 40) /\ draw_ok (mkdraw (mkpx 100 0 50 200) F32.zero ["UniformColor"; "SourceOverRgba"]%string false 0 1 [(255, 0)]) /\
  fold_left apply_draw [mkdraw (mkpx 100 0 50 200) F32.zero ["UniformColor"; "SourceOverRgba"]%string false 0 1 [(255, 0)]]
     (Some [mkpx 10 20 30 40]) = Some [mkpx 103 5 57 209].
Proof.
  split; [unfold px_premul, premul; simpl; lia|]. split.
  - unfold draw_ok. split; [unfold px_premul, premul; simpl; lia|].
    split; [vm_compute; split; discriminate|]. repeat constructor; simpl; lia.
  - vm_compute. reflexivity.
Qed.
