(* C16 — Pattern and draw_pixmap sample the source image at the mapped position.
   Theorems: the gather index of the bit-exact model addresses a source pixel for EVERY coordinate pair (NaN,
   infinities, negative, huge) and every source size up to 16384 x 16384; over Q: bilinear samples stay in the
   hull of the four sampled values and reproduce constants, the bicubic weights sum to one, clamp_0 + clamp_a
   leave a valid premultiplied colour, the tiling functions stay inside the image.  For a whole-pixel translation
   (draw_pixmap at integer offsets, Pad) the bit-exact binary32 chain seed_shader -> transform -> gather reads
   exactly the source pixel at the mapped position (C16_nearest_translate_exact).  For other transforms the
   source pixel is tied by the f64 oracle (DESIGN.md, C16 partial). *)
From Coq Require Import ZArith QArith Qabs List.
From TS Require Import Base.F32 Model.WideBackends Model.Sampler Model.Nearest Proofs.SamplerProofs Proofs.SamplerIdeal Proofs.NearestCopy Proofs.NearestRepeat Proofs.NearestReflect.
Import ListNotations.

Theorem C16_gather_ix_in_bounds :
  forall x y w h, (1 <= w <= 16384)%Z -> (1 <= h <= 16384)%Z -> (0 <= gather_ix x y w h < w * h)%Z.
Proof. exact gather_ix_in_bounds. Qed.
Check C16_gather_ix_in_bounds :
  forall x y w h, (1 <= w <= 16384)%Z -> (1 <= h <= 16384)%Z -> (0 <= gather_ix x y w h < w * h)%Z.

Theorem C16_bilerp_in_hull :
  forall fx fy s00 s10 s01 s11 lo hi,
  0 <= fx <= 1 -> 0 <= fy <= 1 ->
  lo <= s00 <= hi -> lo <= s10 <= hi -> lo <= s01 <= hi -> lo <= s11 <= hi ->
  lo <= bilerp fx fy s00 s10 s01 s11 <= hi.
Proof. exact bilerp_in_hull. Qed.
Theorem C16_bilerp_constant : forall fx fy c, bilerp fx fy c c c c == c.
Proof. exact bilerp_constant. Qed.

Theorem C16_bicubic_weights_sum :
  forall f, bicubic_far (1 - f) + bicubic_near (1 - f) + bicubic_near f + bicubic_far f == 1.
Proof. exact bicubic_weights_sum. Qed.
Theorem C16_bicubic_far_negative : bicubic_far (1 # 2) < 0.
Proof. exact bicubic_far_negative. Qed.

Theorem C16_clamps_premultiplied :
  forall c a,
  let a' := clamp_a_alpha (clamp_0 a) in let c' := clamp_a_color (clamp_0 c) (clamp_0 a) in
  0 <= c' /\ c' <= a' /\ a' <= 1.
Proof. exact clamps_premultiplied. Qed.
Theorem C16_clamp_a_pinned_refuted :
  exists c a, clamp_a_alpha (clamp_0 a) < clamp_a_color_pinned (clamp_0 c) (clamp_0 a).
Proof. exact clamp_a_pinned_refuted. Qed.

Theorem C16_exclusive_repeat_range :
  forall v limit, 0 < limit -> 0 <= exclusive_repeat v limit /\ exclusive_repeat v limit < limit.
Proof. exact exclusive_repeat_range. Qed.
Theorem C16_exclusive_reflect_range :
  forall v limit, 0 < limit -> 0 <= exclusive_reflect v limit /\ exclusive_reflect v limit <= limit.
Proof. exact exclusive_reflect_range. Qed.

(* draw_pixmap / Pattern(Pad, Nearest) with a whole-pixel translation (tx, ty): destination pixel (dx + lane, dy),
   walked by the pipeline as lane [lane] of the batch starting at dx, whose mapped position lies on the w x h source,
   reads source pixel (dx + lane - tx, dy - ty) -- on every backend, bit-exact binary32 arithmetic included *)
Theorem C16_nearest_translate_exact :
  forall b w h tx ty dx lane dy,
  (1 <= w <= 16384 -> 1 <= h <= 16384 -> Z.abs tx < 2097152 -> Z.abs ty < 2097152 ->
   0 <= dx < 2097152 -> 0 <= lane <= 7 -> 0 <= dy < 2097152 ->
   0 <= dx + lane - tx < w -> 0 <= dy - ty < h ->
   nearest_ix b 0 w h (F32.of_Z tx) (F32.of_Z ty) dx lane dy = (dy - ty) * w + (dx + lane - tx))%Z.
Proof. exact nearest_translate_exact. Qed.
(* "pad clamps": the same for EVERY destination pixel -- outside the source rectangle the pixel read is the nearest edge pixel *)
Theorem C16_nearest_translate_pad :
  forall b w h tx ty dx lane dy,
  (1 <= w <= 16384 -> 1 <= h <= 16384 -> Z.abs tx < 2097152 -> Z.abs ty < 2097152 ->
   0 <= dx < 2097152 -> 0 <= lane <= 7 -> 0 <= dy < 2097152 ->
   nearest_ix b 0 w h (F32.of_Z tx) (F32.of_Z ty) dx lane dy =
     Z.max 0 (Z.min (dy - ty) (h - 1)) * w + Z.max 0 (Z.min (dx + lane - tx) (w - 1)))%Z.
Proof. exact nearest_translate_pad. Qed.
(* "repeat wraps": under SpreadMode::Repeat every destination pixel reads source pixel ((c - tx) mod w, (r - ty) mod h);
   the rounded reciprocal 1/w of the tiling stage cannot move a pixel centre across a tile boundary below 10^6 *)
Theorem C16_nearest_translate_repeat :
  forall b w h tx ty dx lane dy,
  (1 <= w <= 16384 -> 1 <= h <= 16384 -> Z.abs tx < 1000000 -> Z.abs ty < 1000000 ->
   0 <= dx < 1000000 -> 0 <= lane <= 7 -> 0 <= dy < 1000000 ->
   nearest_ix b 2 w h (F32.of_Z tx) (F32.of_Z ty) dx lane dy = ((dy - ty) mod h) * w + ((dx + lane - tx) mod w))%Z.
Proof. exact nearest_translate_repeat. Qed.
(* "reflect mirrors": under SpreadMode::Reflect the pixel read is (refl (c - tx) w, refl (r - ty) h),
   refl i n = let j := i mod 2n in if j < n then j else 2n - 1 - j *)
Theorem C16_nearest_translate_reflect :
  forall b w h tx ty dx lane dy,
  (1 <= w <= 16384 -> 1 <= h <= 16384 -> Z.abs tx < 990000 -> Z.abs ty < 990000 ->
   0 <= dx < 990000 -> 0 <= lane <= 7 -> 0 <= dy < 990000 ->
   nearest_ix b 1 w h (F32.of_Z tx) (F32.of_Z ty) dx lane dy =
     (let j := (dy - ty) mod (2 * h) in if j <? h then j else 2 * h - 1 - j) * w +
     (let j := (dx + lane - tx) mod (2 * w) in if j <? w then j else 2 * w - 1 - j))%Z.
Proof. exact nearest_translate_reflect. Qed.
Example C16_nearest_reflect_example : nearest_ix SSE2 1 5 3 (F32.of_Z 7) (F32.of_Z 1) 40 2 40 = 14%Z.
Proof. vm_compute. reflexivity. Qed.
Example C16_nearest_repeat_example : nearest_ix SSE2 2 5 3 (F32.of_Z 7) (F32.of_Z 1) 40 2 40 = 0%Z.
Proof. vm_compute. reflexivity. Qed.
Example C16_nearest_pad_example : nearest_ix SSE2 0 5 3 (F32.of_Z 7) (F32.of_Z 1) 0 2 40 = 10%Z.
Proof. vm_compute. reflexivity. Qed.
(* non-vacuity: the hypotheses hold for w=5, h=3, tx=7, ty=1, dx=8, lane=2, dy=2, and the model evaluates to (2-1)*5 + 3 *)
Example C16_nearest_example : nearest_ix SSE2 0 5 3 (F32.of_Z 7) (F32.of_Z 1) 8 2 2 = 8%Z.
Proof. vm_compute. reflexivity. Qed.

(* non-vacuity: a NaN x and an out-of-range y on a 5 x 3 image address pixel (0, 2) *)
Example C16_example : gather_ix F32.nan (F32.of_Z 1000000) 5 3 = 10%Z.
Proof. vm_compute. reflexivity. Qed.
