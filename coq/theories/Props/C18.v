(* C18 — transforms compose, invert and apply consistently across the API. *)
From Coq Require Import ZArith QArith.
From TS Require Import Base.F32 Model.Rect Model.Transform Model.TransformQ Proofs.TransformProofs.

(* bit-exact: whatever the matrix (incl. NaN / inf / zero scale), Some means every entry of the result
   AND of the argument is finite *)
Theorem C18_invert_some_finite : forall t t', invert t = Some t' -> ts_is_finite t' = true /\ ts_is_finite t = true.
Proof. exact invert_some_finite. Qed.
Check C18_invert_some_finite : forall t t', invert t = Some t' -> ts_is_finite t' = true /\ ts_is_finite t = true.

(* the pinned scale/translate route returned Some(non-finite) for a zero scale (finding, fixed) *)
Theorem C18_invert_pinned_refuted :
  match invert_pinned zero_scale with Some t' => ts_is_finite t' = false | None => False end.
Proof. exact invert_pinned_refuted. Qed.
Theorem C18_invert_zero_scale_none : invert zero_scale = None.
Proof. exact invert_zero_scale_none. Qed.

(* ideal algebra of the formulas the code evaluates *)
Theorem C18_concat_is_composition : forall a b p, peq (mapq (concatq a b) p) (mapq a (mapq b p)).
Proof. exact concat_is_composition. Qed.
Theorem C18_concat_fast_path_agrees :
  forall a b, (qkx a == 0 -> qky a == 0 -> qkx b == 0 -> qky b == 0 ->
  forall p, peq (mapq (concatq_fast a b) p) (mapq (concatq a b) p))%Q.
Proof. exact concat_fast_path_agrees. Qed.
Theorem C18_pre_post_concat_order :
  forall t o p, peq (mapq (concatq t o) p) (mapq t (mapq o p)) /\ peq (mapq (concatq o t) p) (mapq o (mapq t p)).
Proof. exact pre_post_concat_order. Qed.
Theorem C18_invert_correct :
  forall t p, (~ detq t == 0)%Q -> peq (mapq (invq t) (mapq t p)) p /\ peq (mapq t (mapq (invq t) p)) p.
Proof. exact invert_correct. Qed.
Theorem C18_invert_fast_correct :
  forall t p, (qkx t == 0 -> qky t == 0 -> ~ qsx t == 0 -> ~ qsy t == 0 -> peq (mapq (invq_fast t) (mapq t p)) p)%Q.
Proof. exact invert_fast_correct. Qed.
(* a singular matrix collapses two different points: None is the only right answer *)
Theorem C18_singular_not_injective :
  forall t, (detq t == 0)%Q -> exists p q, ~ peq p q /\ peq (mapq t p) (mapq t q).
Proof. exact singular_not_injective. Qed.
