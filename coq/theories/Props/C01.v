(* C01 — every drawing and path operation returns: no panic, no abort, no hang.
   In safe Rust a panic is what an out-of-bounds access or an unchecked arithmetic step looks like; the theorems
   below are the in-bounds / no-overflow / termination statements of the modelled cores, collected from the
   properties that own the models (each is re-stated here and closed by the proof of the owning file).  The float
   geometry code between these cores is searched by the API fuzzer, not proved (DESIGN.md, C01 partial). *)
From Coq Require Import ZArith List.
From TS Require Import Base.F32 Model.IntRect Model.Hairline Model.Sampler Model.Dash Model.Tiler Proofs.TilerProofs
  Proofs.IntRectProofs Proofs.HairlineProofs Proofs.SamplerProofs Proofs.DashProofs Proofs.DashTermination.
Import ListNotations.
Local Open Scope Z_scope.

(* pixel addressing: Pixmap::pixel computes an index iff the coordinates are inside, and then it is y * w + x *)
Theorem C01_pixel_index_in_bounds :
  forall w h x y,
  1 <= w -> 1 <= h -> 4 * w <= i32_max -> w * h <= u32_max -> 0 <= x <= u32_max -> 0 <= y <= u32_max ->
  (forall i, pixel_index w h x y = Some i <-> (x < w /\ y < h /\ i = y * w + x)).
Proof. exact pixel_index_spec. Qed.

(* integer rectangles: right() and bottom() of a valid IntRect never overflow an i32 *)
Theorem C01_intrect_right_bottom_no_overflow :
  forall r, ir_valid r -> i32_min <= ir_right r <= i32_max /\ i32_min <= ir_bottom r <= i32_max.
Proof. exact right_bottom_in_range. Qed.

(* aliased hairlines: every 1-pixel blit is inside the pixmap for any slope, fractions and end points the
   float clipper can deliver *)
Theorem C01_hairline_blits_in_clip :
  forall x0 y0 x1 y1 W H bl x y,
  0 <= x0 <= 64 * W -> 0 <= x1 <= 64 * W -> 0 <= y0 <= 64 * H -> 0 <= y1 <= 64 * H ->
  hair_line_fd6 x0 y0 x1 y1 (65536 * W) (65536 * H) = Some bl -> In (x, y) bl ->
  0 <= x < W /\ 0 <= y < H.
Proof. exact hair_blits_in_clip. Qed.

(* pattern sampling: the gather index addresses a source pixel for every coordinate pair, NaN and infinities included *)
Theorem C01_gather_ix_in_bounds :
  forall x y w h, 1 <= w <= 16384 -> 1 <= h <= 16384 -> 0 <= gather_ix x y w h < w * h.
Proof. exact gather_ix_in_bounds. Qed.

(* tiling: a target larger than 8191 pixels is split into tiles each at most 8191 x 8191 and inside the target, and every
   pixel of the target lies in exactly one of them (so every scan conversion stays inside the fixed-point range and no
   pixel is drawn twice) *)
Theorem C01_tiles_bounded :
  forall w h t, 1 <= w -> 1 <= h -> In t (tiles w h) ->
  let '(tx, ty, tw, th) := t in
  0 <= tx /\ 0 <= ty /\ 1 <= tw <= 8191 /\ 1 <= th <= 8191 /\ tx + tw <= w /\ ty + th <= h.
Proof. exact tiles_bounded. Qed.
Theorem C01_tiles_partition :
  forall w h x y, 1 <= w -> 1 <= h -> 0 <= x < w -> 0 <= y < h ->
  exists l1 t l2, tiles w h = l1 ++ t :: l2 /\ inside t x y /\ (forall t', In t' (l1 ++ l2) -> ~ inside t' x y).
Proof. exact tiles_partition. Qed.

(* dashing: the dash loop ends for every pattern, phase and contour length (no hang): any fuel above
   n * (L / sum + 4) suffices, and the implementation's loop is this loop *)
Theorem C01_dash_contour_terminates :
  forall fuel arr off L closed b,
  nonneg arr -> 0 < zsum arr -> 0 <= off < zsum arr -> 0 <= L ->
  Z.of_nat (length arr) * (L / zsum arr + 4) < Z.pos fuel ->
  let '(fl, fi) := z_find_first arr off in
  z_dash_contour fuel arr fl fi L closed b <> None.
Proof. exact dash_contour_terminates. Qed.
Check C01_dash_contour_terminates :
  forall fuel arr off L closed b,
  nonneg arr -> 0 < zsum arr -> 0 <= off < zsum arr -> 0 <= L ->
  Z.of_nat (length arr) * (L / zsum arr + 4) < Z.pos fuel ->
  let '(fl, fi) := z_find_first arr off in
  z_dash_contour fuel arr fl fi L closed b <> None.

(* non-vacuity: the pattern 3 on / 2 off at phase 1 on a contour of length 1000 ends well within 1200 steps *)
Example C01_dash_example :
  match z_dash_contour 1200 [3; 2] 2 0 1000 false true with Some ps => length ps = 201%nat | None => False end.
Proof. vm_compute. reflexivity. Qed.

(* ---- the edge set-up of the scan converter -------------------------------------------------------------------------------- *)
(* LineEdge::new (Model/Edge.v, bit-exact through the line_edge suite, overflow-checked semantics: None = a panic) returns for
   every pair of points whose coordinates are finite and within +-2^(14 - shift) px: +-16384 px for aliased fills, +-4096 px at
   the supersampling shift 2.  No i32 overflow, no division by zero, and the debug assertions of fdot6::to_fdot16 hold because the
   first abscissa lies between the two end abscissae. *)
From Coq Require Import Reals Bool Lra.
From Flocq Require Import Core.Zaux Core.Raux Core.Defs IEEE754.BinarySingleNaN.
From TS Require Import Model.Rect Model.PathBuilder Model.Edge Model.CurveEdge Model.CurveFill Proofs.RectPoints Proofs.WalkProofs
  Proofs.QuadMono Proofs.EdgeNoPanic.
Theorem C01_line_edge_new_no_panic :
  forall p0 p1 shift, 0 <= shift <= 8 ->
  px_ok shift (px p0) -> px_ok shift (py p0) -> px_ok shift (px p1) -> px_ok shift (py p1) ->
  line_edge_new p0 p1 shift <> None.
Proof. exact line_edge_new_no_panic_px. Qed.

(* hence the whole edge builder (PathEdgeIter + LineEdge::new + combine_vertical) cannot panic on a line-only path whose points are
   finite and within that range *)
Theorem C01_build_edges_no_panic :
  forall p shift segs, 0 <= shift <= 8 -> path_lines p = Some segs -> Forall (pt_ok shift) (ppoints p) ->
  build_edges p shift <> None.
Proof. exact build_edges_no_panic. Qed.

(* the debug assertion `y0 <= y1 && y1 <= y2` of QuadraticEdge::new2 holds for every piece chop_quad_at_y_extrema produces
   (Model/CurveFill.v), for every quad with finite ordinates up to 2^100: the chopped pieces and the forced-monotone fallback are
   monotone by construction, and the test `is_not_monotonic` looks at the signs of binary32 differences, which are the signs of
   the exact differences *)
Theorem C01_quad_pieces_pass_the_monotonic_assertion :
  forall p0 p1 p2 sh a b c,
  bnd (py p0) -> bnd (py p1) -> bnd (py p2) -> 0 <= sh <= 8 -> In (a, b, c) (chop_quad_at_y_extrema p0 p1 p2) ->
  let y0 := fd6 (py a) sh in let y1 := fd6 (py b) sh in let y2 := fd6 (py c) sh in
  let '(y0', y2') := if y2 <? y0 then (y2, y0) else (y0, y2) in
  andb (y0' <=? y1) (y1 <=? y2') = true.
Proof. exact quad_new2_assert_holds. Qed.

(* non-vacuity: 100.25 is finite and within 2^14 *)
Example C01_px_ok_example : px_ok 0 (F32.of_bits 1120436224).
Proof.
  split; [reflexivity|]. set (x := F32.of_bits 1120436224). vm_compute in x. subst x. unfold B2R, F2R. cbn.
  rewrite Rabs_pos_eq by lra. lra.
Qed.
