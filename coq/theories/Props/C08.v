(* C08 — every blend mode computes its compositing formula on every colour pair.
   The lowp theorems are about the closures GENERATED from src/pipeline/lowp.rs.
   [close k res N] := |255*res - N| <= 255*k  /\  0 <= res <= 255, N = 255 * exact result. *)
From Coq Require Import ZArith QArith Lia.
From TS Require Import Base.U16 Gen.LowpGen Gen.HighpGen Spec.BlendSpec Spec.BlendSpecQ
  Proofs.LowpProofs Proofs.HighpIdeal.
Local Open Scope Z_scope.

(* |div255 v - v/255| <= 1 and div255 (255 a) = a: the rounding primitive of the lowp pipeline *)
Theorem C08_div255_close : forall v, 0 <= v <= 65025 ->
  -255 <= 255 * lowp_div255 v - v <= 255 /\ 0 <= lowp_div255 v <= 255.
Proof. exact div255_close. Qed.
Theorem C08_div255_mul255 : forall a, 0 <= a <= 255 -> lowp_div255 (255 * a) = a.
Proof. exact div255_mul255. Qed.

(* every lowp mode, every premultiplied colour pair: within 1/255 (2/255 for the two modes with a
   doubled rounded term) of the formula, result in 0..255, no u16 lane wraps on the way *)
Theorem C08_lowp_porter_duff_close :
  forall s d sa da, premul s sa -> premul d da ->
  close 0 (lowp_clear s d sa da) (N_clear s d sa da) /\
  close 1 (lowp_source_over s d sa da) (N_source_over s d sa da) /\
  close 1 (lowp_destination_over s d sa da) (N_destination_over s d sa da) /\
  close 1 (lowp_source_in s d sa da) (N_source_in s d sa da) /\
  close 1 (lowp_destination_in s d sa da) (N_destination_in s d sa da) /\
  close 1 (lowp_source_out s d sa da) (N_source_out s d sa da) /\
  close 1 (lowp_destination_out s d sa da) (N_destination_out s d sa da) /\
  close 1 (lowp_source_atop s d sa da) (N_source_atop s d sa da) /\
  close 1 (lowp_destination_atop s d sa da) (N_destination_atop s d sa da) /\
  close 1 (lowp_xor s d sa da) (N_xor s d sa da) /\
  close 0 (lowp_plus s d sa da) (N_plus s d sa da) /\
  close 1 (lowp_modulate s d sa da) (N_modulate s d sa da).
Proof.
  intros s d sa da Hs Hd.
  exact (conj (clear_close s d sa da) (conj (source_over_close s d sa da Hs Hd) (conj (destination_over_close s d sa da Hs Hd)
        (conj (source_in_close s d sa da Hs Hd) (conj (destination_in_close s d sa da Hs Hd)
        (conj (source_out_close s d sa da Hs Hd) (conj (destination_out_close s d sa da Hs Hd)
        (conj (source_atop_close s d sa da Hs Hd) (conj (destination_atop_close s d sa da Hs Hd)
        (conj (xor_close s d sa da Hs Hd) (conj (plus_close s d sa da Hs Hd) (modulate_close s d sa da Hs Hd)))))))))))).
Qed.

Theorem C08_lowp_separable_close :
  forall s d sa da, premul s sa -> premul d da ->
  close 1 (lowp_screen s d sa da) (N_screen s d sa da) /\
  close 1 (lowp_multiply s d sa da) (N_multiply s d sa da) /\
  close 1 (lowp_darken s d sa da) (N_darken s d sa da) /\
  close 1 (lowp_lighten s d sa da) (N_lighten s d sa da) /\
  close 2 (lowp_difference s d sa da) (N_difference s d sa da) /\
  close 2 (lowp_exclusion s d sa da) (N_exclusion s d sa da) /\
  close 1 (lowp_hard_light s d sa da) (N_hard_light s d sa da) /\
  close 1 (lowp_overlay s d sa da) (N_overlay s d sa da).
Proof.
  intros s d sa da Hs Hd.
  exact (conj (screen_close s d sa da Hs Hd) (conj (multiply_close s d sa da Hs Hd)
        (conj (darken_close s d sa da Hs Hd) (conj (lighten_close s d sa da Hs Hd)
        (conj (difference_close s d sa da Hs Hd) (conj (exclusion_close s d sa da Hs Hd)
        (conj (hard_light_close s d sa da Hs Hd) (overlay_close s d sa da Hs Hd)))))))).
Qed.

(* the generated highp closures, read over exact rationals, ARE the formulas (19 modes) *)
Theorem C08_highp_ideal_is_formula :
  forall s d sa da : Q,
  (highpq_source_over s d sa da == F_source_over s d sa da)%Q /\
  (highpq_destination_over s d sa da == F_destination_over s d sa da)%Q /\
  (highpq_source_in s d sa da == F_source_in s d sa da)%Q /\
  (highpq_destination_in s d sa da == F_destination_in s d sa da)%Q /\
  (highpq_source_out s d sa da == F_source_out s d sa da)%Q /\
  (highpq_destination_out s d sa da == F_destination_out s d sa da)%Q /\
  (highpq_source_atop s d sa da == F_source_atop s d sa da)%Q /\
  (highpq_destination_atop s d sa da == F_destination_atop s d sa da)%Q /\
  (highpq_xor s d sa da == F_xor s d sa da)%Q /\
  (highpq_plus s d sa da == F_plus s d sa da)%Q /\
  (highpq_modulate s d sa da == F_modulate s d sa da)%Q /\
  (highpq_screen s d sa da == F_screen s d sa da)%Q /\
  (highpq_multiply s d sa da == F_multiply s d sa da)%Q /\
  (highpq_darken s d sa da == F_darken s d sa da)%Q /\
  (highpq_lighten s d sa da == F_lighten s d sa da)%Q /\
  (highpq_difference s d sa da == F_difference s d sa da)%Q /\
  (highpq_exclusion s d sa da == F_exclusion s d sa da)%Q /\
  (highpq_hard_light s d sa da == F_hard_light s d sa da)%Q /\
  (highpq_overlay s d sa da == F_overlay s d sa da)%Q.
Proof.
  intros s d sa da.
  exact (conj (q_source_over s d sa da) (conj (q_destination_over s d sa da) (conj (q_source_in s d sa da)
    (conj (q_destination_in s d sa da) (conj (q_source_out s d sa da) (conj (q_destination_out s d sa da)
    (conj (q_source_atop s d sa da) (conj (q_destination_atop s d sa da) (conj (q_xor s d sa da)
    (conj (q_plus s d sa da) (conj (q_modulate s d sa da) (conj (q_screen s d sa da) (conj (q_multiply s d sa da)
    (conj (q_darken s d sa da) (conj (q_lighten s d sa da) (conj (q_difference s d sa da) (conj (q_exclusion s d sa da)
    (conj (q_hard_light s d sa da) (q_overlay s d sa da))))))))))))))))))).
Qed.

(* the macro shapes (alpha rule of blend_fn! / blend_fn2!) are the ones the model assumes *)
Theorem C08_macro_shapes : lowp_macro_shapes_ok = true /\ highp_macro_shapes_ok = true /\ lowp_from_float_shape_ok = true.
Proof. repeat split; reflexivity. Qed.

(* non-vacuity: a concrete premultiplied pair, and the value the generated closure computes *)
Example C08_nonvacuous : premul 100 200 /\ premul 30 40 /\ lowp_source_over 100 30 200 40 = 107.
Proof. unfold premul. repeat split; try lia; reflexivity. Qed.
