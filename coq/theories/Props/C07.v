(* C07 — dashing cuts the path at the arc lengths given by the dash pattern.
   The interval bookkeeping of dash_impl (find_first_interval, the dash loop with index wrap,
   skip_first_segment, the closed-contour join-up) is one generic definition in Model/Dash.v; the theorems
   below are about its exact instance (Z: any rational pattern after scaling), the correspondence runs its
   IEEE instance bit-exactly against Path::dash.  Curve measuring is not modelled (DESIGN.md, C07 partial). *)
From Coq Require Import ZArith List.
From TS Require Import Base.F32 Model.Dash Proofs.DashProofs.
Import ListNotations.
Local Open Scope Z_scope.

(* the phase offset selects the interval containing it and what is left of that interval *)
Theorem C07_find_first_spec :
  forall arr off fl fi, nonneg arr -> 0 <= off < zsum arr -> z_find_first arr off = (fl, fi) ->
  (fi < length arr)%nat /\ 0 <= fl <= nth fi arr 0 /\ off + fl = prefix arr (S fi).
Proof. exact find_first_spec. Qed.

(* THE property for one contour: the pieces handed to push_segment cover exactly the arc-length positions
   x in [0, L) whose phase off + x lies in an even-numbered ("on") interval of the repeated pattern; open and
   closed contours alike (for a closed contour the piece through the start is skipped first and appended
   once at the end) *)
Theorem C07_dash_contour_on_set :
  forall fuel arr off L closed ps,
  nonneg arr -> 0 < zsum arr -> 0 <= off < zsum arr ->
  let '(fl, fi) := z_find_first arr off in
  z_dash_contour fuel arr fl fi L closed (0 <=? fl) = Some ps ->
  forall x, 0 <= x < L -> (covered ps x <-> on_abs arr (off + x)).
Proof. exact dash_contour_on_set. Qed.
Check C07_dash_contour_on_set :
  forall fuel arr off L closed ps,
  nonneg arr -> 0 < zsum arr -> 0 <= off < zsum arr ->
  let '(fl, fi) := z_find_first arr off in
  z_dash_contour fuel arr fl fi L closed (0 <=? fl) = Some ps ->
  forall x, 0 <= x < L -> (covered ps x <-> on_abs arr (off + x)).

(* StrokeDash::new rejects exactly the arrays the documentation excludes (bit-exact binary32 model) *)
Theorem C07_strokedash_new_rejects_exactly :
  forall arr offset, strokedash_new arr offset = Some None <-> ~ documented arr offset.
Proof. exact strokedash_new_rejects_exactly. Qed.

(* None, not a partial path, above one million dashes *)
Theorem C07_dash_none_when_too_many :
  forall f d segs count b c rest,
  measure_next segs = Some (MContour c rest) ->
  F32.gt (F32.add count (F32.div (F32.mul (ct_len c) (F32.of_Z (Z.shiftr (Z.of_nat (length (sd_array d))) 1))) (sd_interval_len d)))
         max_dash_count = true ->
  dash_contours (S f) d segs count b = DNone.
Proof. exact dash_none_when_too_many. Qed.

(* non-vacuity: pattern 3 on / 2 off, phase 1, contour of length 12, open and closed *)
Example C07_example_open :
  z_find_first [3; 2] 1 = (2, 0%nat) /\
  z_dash_contour 100 [3; 2] 2 0 12 false true = Some [(0, 2, true); (4, 7, true); (9, 12, true)].
Proof. vm_compute. split; reflexivity. Qed.
Example C07_example_closed :
  z_dash_contour 100 [3; 2] 2 0 12 true true = Some [(4, 7, true); (9, 12, true); (0, 2, false)].
Proof. vm_compute. reflexivity. Qed.
