(* C06 (anti-aliased hairline): theorems about the bit-exact model Model/HairlineAA.v, which the hair_aa correspondence ties to
   src/scan/hairline_aa.rs contribution by contribution and whose integer helpers are regenerated from the source. *)
From Coq Require Import ZArith List.
From TS Require Import Base.Checked Model.HairlineAA Proofs.HairlineAAProofs Proofs.HairlineAAUnclipped.
Import ListNotations.
Local Open Scope Z_scope.

(* every contribution of a mostly-horizontal slanted walk whose accumulator never goes negative is in a column of
   [istart, istop) and in one of the two rows around F(x) = fstart + 1/2 + (x - istart) * slope (16.16) *)
Theorem C06_aa_walk_rows :
  forall c istart istop fstart slope s0 s1 out,
  walk Horish c istart istop fstart slope s0 s1 = Some out ->
  (forall i, 0 <= i < istop - istart -> 0 <= fstart + half16 + i * slope) ->
  forall x y a, In (x, y, a) out ->
    istart <= x < istop /\
    (let q := Z.max (fstart + half16 + (x - istart) * slope) 0 / 65536 in y = Z.max q 1 - 1 \/ y = Z.max q 1 - 1 + 1) /\ 0 < a.
Proof. intros c istart istop fstart slope s0 s1 out H Hp x y a Hin. exact (walk_horish_within c istart istop fstart slope s0 s1 out H Hp x y a Hin). Qed.

(* "no pixel outside the pixmap is ever addressed", the route WITHOUT the clipping blitter: do_anti_hairline drops the
   RectClipBlitter when the rows it computes (floor(fstart -+ 1/2 ...) - 1, ceil(...) + 1) are inside the clip; then every
   pixel written by the walk is inside the clip *)
Theorem C06_aa_unclipped_walk_inside_clip :
  forall istart istop fstart slope s0 s1 out cl ct cr cb,
  walk Horish None istart istop fstart slope s0 s1 = Some out ->
  cl <= istart -> istop <= cr -> 0 <= ct ->
  ct <= y_top fstart slope (istop - istart) -> y_bottom fstart slope (istop - istart) <= cb ->
  forall x y a, In (x, y, a) out -> cl <= x < cr /\ ct <= y < cb /\ 0 < a.
Proof. exact walk_horish_inside_clip. Qed.

(* the mostly-vertical walk is the transposed mostly-horizontal walk (same code with x and y exchanged), hence the same
   safety statement with columns and rows exchanged *)
Theorem C06_aa_vertish_is_transposed_horish :
  forall c istart istop fstart slope s0 s1,
  walk Vertish c istart istop fstart slope s0 s1 = option_map (map tr) (walk Horish (swapc c) istart istop fstart slope s0 s1).
Proof. exact walk_tr. Qed.
Theorem C06_aa_unclipped_vertish_walk_inside_clip :
  forall istart istop fstart slope s0 s1 out cl ct cr cb,
  walk Vertish None istart istop fstart slope s0 s1 = Some out ->
  ct <= istart -> istop <= cb -> 0 <= cl ->
  cl <= y_top fstart slope (istop - istart) -> y_bottom fstart slope (istop - istart) <= cr ->
  forall x y a, In (x, y, a) out -> cl <= x < cr /\ ct <= y < cb /\ 0 < a.
Proof. exact walk_vertish_inside_clip. Qed.

(* THE statement for the route WITH an integer sub-clip (every segment that is not completely inside the pixmap takes it):
   whatever do_anti_hairline does -- subdivide, adjust the start to the clip edge, keep the clipping blitter or drop it because
   its own bounds say the segment is inside -- every pixel it writes is inside the clip, for all FDot6 end points, in the
   semantics of an overflow-checked build (None = panic) *)
Theorem C06_aa_clipped_route_inside_clip :
  forall fuel x0 y0 x1 y1 cl ct cr cb out,
  0 <= cl -> 0 <= ct ->
  do_anti_hairline fuel x0 y0 x1 y1 (Some (cl, ct, cr, cb)) = Some out ->
  forall x y a, In (x, y, a) out -> cl <= x < cr /\ ct <= y < cb /\ 0 < a.
Proof. exact do_anti_hairline_clipped_inside. Qed.

(* THE statement for the route WITHOUT any clipping blitter (taken when the integer rectangle
   ir = [floor(min x) - 1, ceil(max x) + 1) x [floor(min y) - 1, ceil(max y) + 1) of the segment is inside the pixmap): every
   pixel of an unsubdivided segment lies inside ir.  The accumulator is extrapolated to the centres of the end columns (up to
   31/64 px beyond the end points) with a truncated slope; the proof shows that it stays below the next integer row with
   1/64 px to spare (Proofs/HairlineAAUnclipped.v, accumulator_bounds) *)
Theorem C06_aa_unclipped_route_inside_bounds :
  forall x0 y0 x1 y1 out,
  anti_hairline_short x0 y0 x1 y1 None = Some out ->
  64 <= Z.min x0 x1 -> 64 <= Z.min y0 y1 ->
  forall x y a, In (x, y, a) out ->
    Z.min x0 x1 / 64 - 1 <= x < (Z.max x0 x1 + 63) / 64 + 1 /\ Z.min y0 y1 / 64 - 1 <= y < (Z.max y0 y1 + 63) / 64 + 1 /\ 0 < a.
Proof. exact short_unclipped_inside_ir. Qed.

(* END TO END for one segment: anti_hair_line_rgn (both scalar pre-clips, FDot6 conversion, the choice between the route without
   blitter, the clipped route or nothing, subdivision of long segments, the walk with its four blitters) writes only pixels of
   the w x h pixmap -- "no pixel outside the pixmap's rows is ever addressed" for the anti-aliased hairline, for every pair of
   binary32 end points, in the semantics of an overflow-checked build (None = panic) *)
Theorem C06_aa_segment_inside_pixmap :
  forall w h p0 p1 out,
  0 < w -> 0 < h ->
  anti_hair_line_rgn_seg w h p0 p1 = Some out ->
  forall x y a, In (x, y, a) out -> 0 <= x < w /\ 0 <= y < h /\ 0 < a.
Proof. exact anti_hair_line_rgn_seg_inside. Qed.

(* the known finding C06-aa-hairline-top-left-fold as a theorem about the model: when the segment starts above the pixmap the
   accumulator is clamped to 0 and the REST of the segment leaves its ideal rows (witness: slope 1/2 from y = -1.25; column 5 is
   drawn on row 2 where the line passes at y = 1.75) *)
Theorem C06_aa_rows_refuted_when_clamped :
  exists istart istop fstart slope s0 s1 out x y a,
    walk Horish None istart istop fstart slope s0 s1 = Some out /\ In (x, y, a) out /\
    ~ (let q := Z.max (fstart + half16 + (x - istart) * slope) 0 / 65536 in y = Z.max q 1 - 1 \/ y = Z.max q 1 - 1 + 1).
Proof. exact walk_rows_refuted_when_clamped. Qed.

(* non-vacuity: a 5-column walk starting at row 3.25 with slope 1/4 *)
Example C06_aa_example :
  walk Horish None 2 7 (3 * 65536 + 16384) 16384 64 0 =
    Some [(2, 2, 63); (2, 3, 192); (3, 3, 255); (4, 3, 191); (4, 4, 64); (5, 3, 127); (5, 4, 128); (6, 3, 63); (6, 4, 192)] /\
  y_top (3 * 65536 + 16384) 16384 5 = 1 /\ y_bottom (3 * 65536 + 16384) 16384 5 = 6.
Proof. vm_compute. repeat split. Qed.
