(* C04 — drawing never changes bytes outside the shape's footprint (pipeline loop part). *)
From Coq Require Import ZArith List String.
From TS Require Import Base.F32 Model.Pixel Proofs.RunnerProofs.
Import ListNotations.

(* For ANY lane function (any paint, blend mode, pipeline, mask, coverage), any batch width,
   any row contents and any span [x0, x0+len): the runner returns the row with the pixels before
   x0 and from x0+len on bit-identical, and the row length unchanged.  The inside pixels are the
   per-pixel lane function or (all-zero mask batch) untouched. *)
Theorem C04_run_row_frame :
  forall f hm w x0 len row out,
  (w > 0)%nat -> run_row f hm w x0 len row = Some out ->
  exists a m b, out = a ++ m ++ b /\
    Forall2 frame_ok (firstn x0 row) a /\
    Forall2 (pix_ok f hm) (firstn len (skipn x0 row)) m /\
    Forall2 frame_ok (skipn (x0 + len) row) b.
Proof. exact run_row_spec. Qed.
Check C04_run_row_frame :
  forall f hm w x0 len row out,
  (w > 0)%nat -> run_row f hm w x0 len row = Some out ->
  exists a m b, out = a ++ m ++ b /\
    Forall2 frame_ok (firstn x0 row) a /\
    Forall2 (pix_ok f hm) (firstn len (skipn x0 row)) m /\
    Forall2 frame_ok (skipn (x0 + len) row) b.

Theorem C04_run_row_length :
  forall f hm w x0 len row out,
  (w > 0)%nat -> run_row f hm w x0 len row = Some out -> List.length out = List.length row.
Proof. exact run_row_length. Qed.

(* rejected draws (Destination; opaque solid DestinationIn) build no blitter at all *)
Theorem C04_reject_changes_nothing :
  forall c aa hq hm,
  blitter_new (mkpaint "Destination"%string c aa hq) hm = None /\
  (color_is_opaque c = true -> blitter_new (mkpaint "DestinationIn"%string c aa hq) hm = None).
Proof.
  intros c aa hq hm. split; [reflexivity|]. intros H. unfold blitter_new. simpl. rewrite H. reflexivity.
Qed.

Example C04_nonvacuous :
  exists out, run_row (fun i => Some (Some (mkpx 1 2 3 4))) false 16 1 2
     [mklin (mkpx 9 9 9 9) 255 0; mklin (mkpx 8 8 8 8) 255 0; mklin (mkpx 7 7 7 7) 255 0; mklin (mkpx 6 6 6 6) 255 0] = Some out
   /\ out = [mkpx 9 9 9 9; mkpx 1 2 3 4; mkpx 1 2 3 4; mkpx 6 6 6 6].
Proof. eexists. split; reflexivity. Qed.

(* the producer side for path fills (line-only paths inside the clip): every column the scan converter covers on a walked row
   lies between the rounded abscissas of two edges that are active on that row -- the spans handed to the blitter never leave the
   horizontal extent of the shape on that row (and the rows are those of the edges: C02_edge_rows) *)
From TS Require Import Model.Rect Model.PathBuilder Model.Edge Model.Walk Proofs.WalkProofs Proofs.WalkSorted Proofs.WalkRows Proofs.WalkBalanced.
Theorem C04_fill_footprint :
  forall p es start stop rc eo out,
  build_edges p 0 = Some (Some es) -> fill_spans es start stop rc eo 0 = Some out ->
  (forall e, In e es -> (start <= e_first_y e)%Z) -> (0 <= start)%Z -> (0 <= stop)%Z ->
  forall yy c, (start <= yy)%Z -> ((yy < stop)%Z \/ yy = start) -> (forall e, In e (active_at es yy) -> x_ok e) ->
  cov out yy c ->
  (exists e, In e (active_at es yy) /\ (rx e <= c)%Z) /\ (exists e, In e (active_at es yy) /\ (c < rx e)%Z).
Proof. exact fill_footprint. Qed.

(* the same for paths with quadratic segments (Model/CurveFill.v; rows balanced by C02_quad_path_balanced) *)
From TS Require Import Model.CurveFill Proofs.CurveFillProofs.
Theorem C04_quad_fill_footprint :
  forall p es start stop rc eo out,
  build_edges_curves p 0 = Some (Some es) -> ~ In Cubic (pverbs p) -> fill_spans es start stop rc eo 0 = Some out ->
  (forall e, In e es -> (start <= e_first_y e)%Z) -> (0 <= start)%Z -> (0 <= stop)%Z ->
  forall yy c, (start <= yy)%Z -> ((yy < stop)%Z \/ yy = start) -> (forall e, In e (active_at es yy) -> x_ok e) ->
  cov out yy c ->
  (exists e, In e (active_at es yy) /\ (rx e <= c)%Z) /\ (exists e, In e (active_at es yy) /\ (c < rx e)%Z).
Proof. exact quad_fill_footprint. Qed.
