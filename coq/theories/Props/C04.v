(* C04 — drawing never changes bytes outside the shape's footprint (pipeline loop part). *)
From Coq Require Import ZArith List String.
From TS Require Import Base.F32 Model.Pixel Proofs.RunnerProofs.
Import ListNotations.

(* For ANY lane function (any paint, blend mode, pipeline, mask, coverage), any batch width,
   any row contents and any span [x0, x0+len): the runner returns the row with the pixels before
   x0 and from x0+len on bit-identical, and the row length unchanged.  The inside pixels are the
   per-pixel lane function or (all-zero mask batch) untouched. *)
Theorem C04_run_row_frame :
  forall f hm w x0 len row out,
  (w > 0)%nat -> run_row f hm w x0 len row = Some out ->
  exists a m b, out = a ++ m ++ b /\
    Forall2 frame_ok (firstn x0 row) a /\
    Forall2 (pix_ok f hm) (firstn len (skipn x0 row)) m /\
    Forall2 frame_ok (skipn (x0 + len) row) b.
Proof. exact run_row_spec. Qed.
Check C04_run_row_frame :
  forall f hm w x0 len row out,
  (w > 0)%nat -> run_row f hm w x0 len row = Some out ->
  exists a m b, out = a ++ m ++ b /\
    Forall2 frame_ok (firstn x0 row) a /\
    Forall2 (pix_ok f hm) (firstn len (skipn x0 row)) m /\
    Forall2 frame_ok (skipn (x0 + len) row) b.

Theorem C04_run_row_length :
  forall f hm w x0 len row out,
  (w > 0)%nat -> run_row f hm w x0 len row = Some out -> List.length out = List.length row.
Proof. exact run_row_length. Qed.

(* rejected draws (Destination; opaque solid DestinationIn) build no blitter at all *)
Theorem C04_reject_changes_nothing :
  forall c aa hq hm,
  blitter_new (mkpaint "Destination"%string c aa hq) hm = None /\
  (color_is_opaque c = true -> blitter_new (mkpaint "DestinationIn"%string c aa hq) hm = None).
Proof.
  intros c aa hq hm. split; [reflexivity|]. intros H. unfold blitter_new. simpl. rewrite H. reflexivity.
Qed.

Example C04_nonvacuous :
  exists out, run_row (fun i => Some (Some (mkpx 1 2 3 4))) false 16 1 2
     [mklin (mkpx 9 9 9 9) 255 0; mklin (mkpx 8 8 8 8) 255 0; mklin (mkpx 7 7 7 7) 255 0; mklin (mkpx 6 6 6 6) 255 0] = Some out
   /\ out = [mkpx 9 9 9 9; mkpx 1 2 3 4; mkpx 1 2 3 4; mkpx 6 6 6 6].
Proof. eexists. split; reflexivity. Qed.
