(* C03 — anti-aliased fill alpha approximates exact area coverage (accumulator arithmetic).
   The run-length refinement  dense (add s ..) = dense_add (dense s) ..  is checked on every correspondence
   case by comparing the model's own dense view with the per-pixel specification (Model/RunC03.v) and is a
   theorem below (C03_add_refines_dense and its lifts to a scanline and a destination row). *)
From Coq Require Import ZArith Bool List.
From TS Require Import Model.AlphaRuns Proofs.AlphaProofs Proofs.AlphaRefine Proofs.AlphaRefine2 Proofs.AlphaSpans Proofs.AALink Model.Walk Proofs.WalkProofs.
Import ListNotations.
Local Open Scope Z_scope.

(* every supersampled span is split into (partial start pixel, n full pixels, partial stop pixel) without
   losing or inventing coverage: 16 per sub-pixel, fb + 4n + fe = width *)
Theorem C03_blit_h_args_conserve :
  forall x width y, 0 <= x -> 1 <= width ->
  let '(px, sa, n, ea, mv) := blit_h_args x width y in
  exists fb fe, 0 <= fb <= 3 /\ 0 <= fe <= 3 /\ 0 <= n /\
    sa = 16 * fb /\ ea = 16 * fe /\ fb + 4 * n + fe = width /\ px = x / 4 /\
    (fb = 0 \/ n > 0 \/ fe > 0 \/ fb = width).
Proof. exact blit_h_args_conserve. Qed.

(* a pixel with k_i of 4 sub-pixels covered on sub-scanline i ends within 1 of 255*K/16, never above 255,
   exactly 0 when empty and exactly 255 when full (all 625 combinations) *)
Theorem C03_pixel_accumulation :
  forall k0 k1 k2 k3, 0 <= k0 <= 4 -> 0 <= k1 <= 4 -> 0 <= k2 <= 4 -> 0 <= k3 <= 4 ->
  let a := accumulate k0 k1 k2 k3 in let K := k0 + k1 + k2 + k3 in
  0 <= a <= 255 /\ Z.abs (16 * a - 255 * K) <= 16 /\ (K = 0 -> a = 0) /\ (K = 16 -> a = 255).
Proof. exact pixel_accumulation. Qed.
Check C03_pixel_accumulation :
  forall k0 k1 k2 k3, 0 <= k0 <= 4 -> 0 <= k1 <= 4 -> 0 <= k2 <= 4 -> 0 <= k3 <= 4 ->
  let a := accumulate k0 k1 k2 k3 in let K := k0 + k1 + k2 + k3 in
  0 <= a <= 255 /\ Z.abs (16 * a - 255 * K) <= 16 /\ (K = 0 -> a = 0) /\ (K = 16 -> a = 255).

Theorem C03_catch_overflow_spec : forall a, 0 <= a <= 256 -> catch_overflow a = Some (Z.min a 255).
Proof. exact catch_overflow_spec. Qed.

Theorem C03_max_value :
  forall y, 0 <= y -> (let '(_, _, _, _, mv) := blit_h_args 0 1 y in mv) = if y mod 4 =? 3 then 63 else 64.
Proof. exact max_value_eq. Qed.

(* the run-length structure: break_run only re-partitions the runs.  For a well-formed structure (the runs from 0
   partition the row; [pre] = the runs before the offset the caller passes, which is a run boundary) the per-pixel
   coverage (dense view) is unchanged, the structure stays well-formed, and run boundaries now exist at x and x + count *)
Theorem C03_break_run_preserves_dense :
  forall s pre segs base x count,
  WFruns s (pre ++ segs) -> total pre = base -> 0 <= x -> 0 < count -> x + count <= total segs ->
  exists s' segs', break_run s base x count = Some s' /\ WFruns s' (pre ++ segs') /\ dense s' = dense s /\
                   boundary segs' x /\ boundary segs' (x + count).
Proof. exact break_run_preserves_dense. Qed.

(* AlphaRuns::add is the per-pixel update on the dense view.  For a well-formed structure whose runs [pre] end at the
   offset the caller passes (a run boundary), a span starting at or after that offset and fitting in the row:
   - add panics (model: None) exactly when the per-pixel specification overflows;
   - otherwise the structure stays well-formed, its per-pixel view is dense_add of the old one, the offset it
     returns is again a run boundary that is not before the caller's prefix and not after the stop pixel (the caller's own
     offset when the span lies inside one pixel). *)
Theorem C03_add_refines_dense :
  forall s pre rest x sa mid ea maxv,
  WFruns s (pre ++ rest) -> total pre <= x -> 0 <= mid -> (x - total pre) + flag sa + mid + flag ea <= total rest ->
  match ar_add s x sa mid ea maxv (total pre) with
  | Some (s', off') => exists pre' rest', WFruns s' (pre' ++ rest') /\ total pre' = off' /\ (exists l, pre' = pre ++ l) /\
                        dense_add (flat (pre ++ rest)) x sa mid ea maxv = Some (flat (pre' ++ rest')) /\
                        off' <= (if (mid =? 0) && (ea =? 0) then total pre else x + flag sa + mid)
  | None => dense_add (flat (pre ++ rest)) x sa mid ea maxv = None
  end.
Proof. exact add_refines_dense. Qed.

(* a whole destination row: SuperBlitter restarts offset_x at 0 on every sub-scanline and feeds the spans of a
   sub-scanline left to right (calls_ok); on a fresh row of any width the run-length accumulator then holds exactly
   the per-pixel sums, and it panics exactly when they overflow *)
Theorem C03_row_refines_dense :
  forall width rows, 0 < width -> Forall (calls_ok 0 width) rows ->
  match run_subrows (ar_new width) rows with
  | Some s' => exists d', dense s' = Some d' /\ dense_subrows (repeat 0 (Z.to_nat width)) rows = Some d'
  | None => dense_subrows (repeat 0 (Z.to_nat width)) rows = None
  end.
Proof. exact row_refines_dense. Qed.

(* reset(width) re-creates the fresh row from any contents *)
Theorem C03_reset_fresh :
  forall s width, 0 < width <= 65535 -> width < Z.of_nat (length (ar_runs s)) -> length (ar_alpha s) = length (ar_runs s) ->
  exists s', ar_reset s width = Some s' /\ WFruns s' ([] ++ [(width, 0)]).
Proof. exact reset_wf. Qed.

(* from spans to alpha: a destination row of width W whose four sub-scanlines carry sorted, disjoint supersampled spans
   (what the edge walker emits).  SuperBlitter's calls never overflow AlphaRuns, and every pixel q ends with an alpha a
   within 1/16 of 255 * K / 16, where K is the number of its 16 sub-pixels that the spans cover; a is exactly 0 for an
   uncovered and exactly 255 for a fully covered pixel *)
Theorem C03_row_alpha :
  forall W Y l0 l1 l2 l3,
  0 < W -> 0 <= Y -> spans_ok 0 (4 * W) l0 -> spans_ok 0 (4 * W) l1 -> spans_ok 0 (4 * W) l2 -> spans_ok 0 (4 * W) l3 ->
  exists s' d, run_subrows (ar_new W) (row_calls Y l0 l1 l2 l3) = Some s' /\ dense s' = Some d /\
    forall q, 0 <= q < W -> exists a, getz d q = Some a /\
      let K := covs l0 q + covs l1 q + covs l2 q + covs l3 q in
      0 <= K <= 16 /\ 0 <= a <= 255 /\ Z.abs (16 * a - 255 * K) <= 16 /\ (K = 0 -> a = 0) /\ (K = 16 -> a = 255).
Proof. exact row_alpha_runs. Qed.

(* the call blit_h makes for a span contributes to pixel q sixteen times the sub-pixels of q it covers (max_value when it
   covers all four) *)
Theorem C03_contrib_blit :
  forall x w y q, 0 <= x -> 1 <= w -> 0 <= y ->
  contrib (blit_h_args x w y) q = if cov x w q =? 4 then maxv_of y else 16 * cov x w q.
Proof. exact contrib_blit. Qed.

(* from edges to alpha (links C02's walker to the accumulator): a destination row whose four sub-scanlines carry balanced edge
   lists sorted by rounded abscissa inside the clip.  The spans the walker emits are sorted, disjoint and inside the clip; fed
   through blit_h, AlphaRuns does not panic, and pixel q ends within 1/16 of 255/16 x K, where K counts the 16 sample columns
   of q (4 per sub-scanline) that the fill rule accepts *)
Theorem C03_aa_row_alpha :
  forall eo W Y xs0 xs1 xs2 xs3,
  0 < W -> 0 <= Y -> row_good eo W xs0 -> row_good eo W xs1 -> row_good eo W xs2 -> row_good eo W xs3 ->
  exists s' d, run_subrows (ar_new W) (row_calls Y (sub_spans eo xs0) (sub_spans eo xs1) (sub_spans eo xs2) (sub_spans eo xs3)) = Some s' /\
    dense s' = Some d /\
    forall q, 0 <= q < W -> exists a, getz d q = Some a /\
      let inside xs := count4 (fun c => masked (wsum xs c) eo) (4 * q) 4 in
      let K := inside xs0 + inside xs1 + inside xs2 + inside xs3 in
      0 <= K <= 16 /\ 0 <= a <= 255 /\ Z.abs (16 * a - 255 * K) <= 16 /\ (K = 0 -> a = 0) /\ (K = 16 -> a = 255).
Proof. exact aa_row_alpha. Qed.
