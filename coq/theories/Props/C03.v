(* C03 — anti-aliased fill alpha approximates exact area coverage (accumulator arithmetic).
   The run-length refinement  dense (add s ..) = dense_add (dense s) ..  is checked on every correspondence
   case by comparing the model's own dense view with the per-pixel specification (Model/RunC03.v); it is
   NOT a theorem yet (see DESIGN.md, C03 partial). *)
From Coq Require Import ZArith List.
From TS Require Import Model.AlphaRuns Proofs.AlphaProofs Proofs.AlphaRefine.
Local Open Scope Z_scope.

(* every supersampled span is split into (partial start pixel, n full pixels, partial stop pixel) without
   losing or inventing coverage: 16 per sub-pixel, fb + 4n + fe = width *)
Theorem C03_blit_h_args_conserve :
  forall x width y, 0 <= x -> 1 <= width ->
  let '(px, sa, n, ea, mv) := blit_h_args x width y in
  exists fb fe, 0 <= fb <= 3 /\ 0 <= fe <= 3 /\ 0 <= n /\
    sa = 16 * fb /\ ea = 16 * fe /\ fb + 4 * n + fe = width /\ px = x / 4 /\
    (fb = 0 \/ n > 0 \/ fe > 0 \/ fb = width).
Proof. exact blit_h_args_conserve. Qed.

(* a pixel with k_i of 4 sub-pixels covered on sub-scanline i ends within 1 of 255*K/16, never above 255,
   exactly 0 when empty and exactly 255 when full (all 625 combinations) *)
Theorem C03_pixel_accumulation :
  forall k0 k1 k2 k3, 0 <= k0 <= 4 -> 0 <= k1 <= 4 -> 0 <= k2 <= 4 -> 0 <= k3 <= 4 ->
  let a := accumulate k0 k1 k2 k3 in let K := k0 + k1 + k2 + k3 in
  0 <= a <= 255 /\ Z.abs (16 * a - 255 * K) <= 16 /\ (K = 0 -> a = 0) /\ (K = 16 -> a = 255).
Proof. exact pixel_accumulation. Qed.
Check C03_pixel_accumulation :
  forall k0 k1 k2 k3, 0 <= k0 <= 4 -> 0 <= k1 <= 4 -> 0 <= k2 <= 4 -> 0 <= k3 <= 4 ->
  let a := accumulate k0 k1 k2 k3 in let K := k0 + k1 + k2 + k3 in
  0 <= a <= 255 /\ Z.abs (16 * a - 255 * K) <= 16 /\ (K = 0 -> a = 0) /\ (K = 16 -> a = 255).

Theorem C03_catch_overflow_spec : forall a, 0 <= a <= 256 -> catch_overflow a = Some (Z.min a 255).
Proof. exact catch_overflow_spec. Qed.

Theorem C03_max_value :
  forall y, 0 <= y -> (let '(_, _, _, _, mv) := blit_h_args 0 1 y in mv) = if y mod 4 =? 3 then 63 else 64.
Proof. exact max_value_eq. Qed.

(* the run-length structure: break_run only re-partitions the runs.  For a well-formed structure (the runs from 0
   partition the row; [pre] = the runs before the offset the caller passes, which is a run boundary) the per-pixel
   coverage (dense view) is unchanged, the structure stays well-formed, and run boundaries now exist at x and x + count *)
Theorem C03_break_run_preserves_dense :
  forall s pre segs base x count,
  WFruns s (pre ++ segs) -> total pre = base -> 0 <= x -> 0 < count -> x + count <= total segs ->
  exists s' segs', break_run s base x count = Some s' /\ WFruns s' (pre ++ segs') /\ dense s' = dense s /\
                   boundary segs' x /\ boundary segs' (x + count).
Proof. exact break_run_preserves_dense. Qed.
