(* C13 — rendered output does not depend on the SIMD backend compiled in.
   Theorems about the lane semantics of the backends (Model/WideBackends.v: scalar fallback from the Rust
   source, SSE2 / SSE4.1 / AVX from the Intel SDM, each run against the code compiled for that configuration).
   Pixel equality of whole scenes across configurations is explored, not proved (DESIGN.md, C13 partial). *)
From Coq Require Import ZArith List.
From Flocq Require Import IEEE754.BinarySingleNaN.
From TS Require Import Base.F32 Model.WideBackends Proofs.WideProofs.
Local Open Scope Z_scope.

(* comparisons and min/max have the same lane semantics in every backend, on every input incl. NaN and +-0 *)
Theorem C13_cmp_agree :
  forall b1 b2 x y,
  cmp_eq4 b1 x y = cmp_eq4 b2 x y /\ cmp_ne4 b1 x y = cmp_ne4 b2 x y /\ cmp_lt4 b1 x y = cmp_lt4 b2 x y /\
  cmp_le4 b1 x y = cmp_le4 b2 x y /\ cmp_gt4 b1 x y = cmp_gt4 b2 x y /\ cmp_ge4 b1 x y = cmp_ge4 b2 x y.
Proof. exact cmp_agree. Qed.
Theorem C13_cmp_ne8_agree : forall b1 b2 x y, cmp_ne8 false b1 x y = cmp_ne8 false b2 x y.
Proof. exact cmp_ne8_agree. Qed.
Theorem C13_minmax_agree : forall b1 b2 x y, min4 b1 x y = min4 b2 x y /\ max4 b1 x y = max4 b2 x y.
Proof. exact minmax_agree. Qed.

(* the two repaired defects, as statements about the pinned semantics *)
Theorem C13_cmp_ne8_pinned_refuted : exists x y, cmp_ne8 true AVX x y <> cmp_ne8 true SSE2 x y.
Proof. exact cmp_ne8_pinned_refuted. Qed.
Theorem C13_cmp_ne8_pinned_agree_no_nan :
  forall b x y, F32.is_nan x = false -> F32.is_nan y = false -> cmp_ne8 true b x y = cmp_ne8 true SSE2 x y.
Proof. exact cmp_ne8_pinned_agree_no_nan. Qed.
Theorem C13_min_scalar_pinned_refuted : exists x y, min_scalar_pinned x y <> min4 SSE2 x y.
Proof. exact min_scalar_pinned_refuted. Qed.
Theorem C13_max_scalar_pinned_refuted : exists x y, max_scalar_pinned x y <> max4 SSE2 x y.
Proof. exact max_scalar_pinned_refuted. Qed.

(* float -> int conversions, floor: the backends agree whenever the truncated value fits an i32 (pixel
   coordinates and colour channels always do); outside, the scalar cast saturates and the SIMD ones do not *)
Theorem C13_trunc_int_agree : forall b1 b2 x, in_i32_range x -> trunc_int4 b1 x = trunc_int4 b2 x.
Proof. exact trunc_int_agree. Qed.
Theorem C13_trunc_int_out_of_range_refuted : exists x, trunc_int4 Scalar x <> trunc_int4 SSE2 x.
Proof. exact trunc_int_out_of_range_refuted. Qed.
Theorem C13_floor_agree : forall b1 b2 x, in_i32_range x -> floor4 b1 x = floor4 b2 x.
Proof. exact floor_agree. Qed.

(* rounding: reduced to [round_ok x] (the portable rounding equals ROUNDPS at x), which holds on NaN, infinities
   and zeros by proof, fails at -0.5 (sign of zero), and is validated on every other bit pattern by the
   exhaustive sweep of the thorough tier *)
Theorem C13_generic_round_special :
  forall x, F32.is_finite x = false \/ (exists s, x = B754_zero s) -> round_ok x.
Proof. exact generic_round_special. Qed.
Theorem C13_generic_round_refuted : exists x, generic_round x <> roundps x.
Proof. exact generic_round_refuted. Qed.
Theorem C13_round_agree : forall b1 b2 x, round_ok x -> round4 b1 x = round4 b2 x.
Proof. exact round_agree. Qed.
Theorem C13_round_int_agree :
  forall b1 b2 x, round_ok x -> F32.is_finite x = true -> in_i32_range (roundps x) -> round_int4 b1 x = round_int4 b2 x.
Proof. exact round_int_agree. Qed.

(* the hypothesis [round_ok] discharged (Proofs/GenericRound.v): the portable rounding of f32x4::round -- exponent tests,
   x + 2^23 - 2^23 on the absolute value, the two corrections that never fire, the sign put back -- IS round-to-nearest-even on
   every binary32 value except -0.5, where it gives +0 for ROUNDPS's -0 *)
From TS Require Import Proofs.GenericRound.
Theorem C13_generic_round_is_roundps : forall x, x <> F32.of_bits 3204448256 -> generic_round x = roundps x.
Proof. exact generic_round_is_roundps. Qed.
Theorem C13_generic_round_at_neg_half :
  generic_round (F32.of_bits 3204448256) = B754_zero false /\ roundps (F32.of_bits 3204448256) = B754_zero true.
Proof. exact generic_round_neg_half. Qed.
(* hence f32x4::round agrees between all backends on every input but -0.5 ... *)
Theorem C13_round_agree_all : forall b1 b2 x, x <> F32.of_bits 3204448256 -> round4 b1 x = round4 b2 x.
Proof. exact round_agree_all. Qed.
(* ... and round_int (which forgets the sign of zero) on every finite input whose rounding fits an i32 *)
Theorem C13_round_int_agree_all :
  forall b1 b2 x, F32.is_finite x = true -> in_i32_range (roundps x) -> round_int4 b1 x = round_int4 b2 x.
Proof. exact round_int_agree_all. Qed.
