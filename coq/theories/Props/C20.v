(* C20 — results are deterministic and independent of object reuse and call history.
   Every model in this development is a Gallina function: the same arguments give the same result by
   construction, which is what the correspondence suites then compare the implementation with.  The theorems
   here are the parts of the property that are about state carried between calls. *)
From Coq Require Import List String Bool.
From TS Require Import Base.F32 Model.Rect Model.PathBuilder Gen.StrokerFields Gen.NoGlobals.
Import ListNotations.
Local Open Scope string_scope.

(* a builder obtained from PathBuilder::clear or Path::clear is a new builder, whatever its history *)
Theorem C20_clear_is_new : forall b, clear b = new_builder.
Proof. reflexivity. Qed.
Theorem C20_path_clear_is_new : forall p, path_clear p = new_builder.
Proof. reflexivity. Qed.
Theorem C20_reuse_is_fresh :
  forall b p (ops : list (builder -> builder)),
  fold_left (fun acc f => f acc) ops (clear b) = fold_left (fun acc f => f acc) ops new_builder /\
  fold_left (fun acc f => f acc) ops (path_clear p) = fold_left (fun acc f => f acc) ops new_builder.
Proof. intros. split; reflexivity. Qed.

(* the same three states as the source writes them (re-extracted on every run): PathBuilder::new,
   PathBuilder::clear and Path::clear set every field to the same value *)
Theorem C20_builder_states_agree :
  builder_clear_state = builder_new_state /\ path_clear_state = builder_new_state /\
  map fst builder_new_state = ["last_move_to_index"; "move_to_required"; "points"; "verbs"].
Proof. vm_compute. repeat split. Qed.

(* every field of PathStroker is assigned or cleared at the top of stroke_inner, before the first segment is
   looked at: nothing a previous stroke() left behind can be read (lists re-extracted on every run) *)
Definition reset_fields : list string := stroker_reset_assigned ++ stroker_reset_cleared.
Theorem C20_stroker_reset_complete :
  forall f, In f stroker_fields -> In f reset_fields.
Proof.
  assert (H : forallb (fun f => existsb (String.eqb f) reset_fields) stroker_fields = true) by (vm_compute; reflexivity).
  intros f Hf. rewrite forallb_forall in H. specialize (H f Hf). apply existsb_exists in H.
  destruct H as (g & Hg & E). apply String.eqb_eq in E. subst. exact Hg.
Qed.
Example C20_stroker_has_fields : In "recursion_depth" stroker_fields /\ In "join_completed" stroker_fields.
Proof. vm_compute. tauto. Qed.

(* no statics, thread-locals or interior mutability anywhere in the two crates (scan re-run on every check) *)
Theorem C20_no_global_state : global_state_hits = [].
Proof. reflexivity. Qed.
