(* C02 — aliased fill paints exactly the pixels whose centres lie inside the path
   (fixed-point scan converter, line edges; curves and the float clipper are partial). *)
From Coq Require Import ZArith List.
From Coq Require Import Permutation.
From TS Require Import Base.F32 Model.Rect Model.PathBuilder Model.Edge Model.Walk Proofs.WalkProofs Proofs.EdgeAccuracy Proofs.WalkSorted Proofs.WalkRows Proofs.WalkBalanced.
Import ListNotations.
Local Open Scope Z_scope.

(* an edge is active on row k exactly when the pixel-centre ordinate 64k+32 (in 1/64 px) lies in the
   half-open interval (y_top, y_bottom] of the edge: the pixel-centre rule, for every float input *)
Theorem C02_edge_rows :
  forall p0 p1 shift e, line_edge_new p0 p1 shift = Some (Some e) ->
  forall k, e_first_y e <= k <= e_last_y e <->
            Z.min (fd6 (py p0) shift) (fd6 (py p1) shift) < 64 * k + 32 <= Z.max (fd6 (py p0) shift) (fd6 (py p1) shift).
Proof. exact edge_rows. Qed.
Check C02_edge_rows :
  forall p0 p1 shift e, line_edge_new p0 p1 shift = Some (Some e) ->
  forall k, e_first_y e <= k <= e_last_y e <->
            Z.min (fd6 (py p0) shift) (fd6 (py p1) shift) < 64 * k + 32 <= Z.max (fd6 (py p0) shift) (fd6 (py p1) shift).

(* on a scanline with the edges sorted by (rounded) x and a balanced winding: column c is covered by the
   emitted spans <-> the fill rule accepts the winding sum of the edges at or left of c.  Any number
   of edges, both fill rules. *)
Theorem C02_row_spans_spec :
  forall evenodd xs w' lft' spans',
  sorted_x xs -> row_spans xs evenodd 0 0 [] = (w', lft', spans') -> masked w' evenodd = false ->
  forall c, covered spans' c <-> masked (wsum xs c) evenodd = true.
Proof. exact row_spans_spec. Qed.
Check C02_row_spans_spec :
  forall evenodd xs w' lft' spans',
  sorted_x xs -> row_spans xs evenodd 0 0 [] = (w', lft', spans') -> masked w' evenodd = false ->
  forall c, covered spans' c <-> masked (wsum xs c) evenodd = true.

(* the walker's row loop emits exactly those spans (whatever re-sorting it performs for the next row),
   all on row y *)
Theorem C02_walk_row_is_row_spans :
  forall act y evenodd w lft prev_x rev_done spans w' lft' rd' spans',
  walk_row act y evenodd w lft prev_x rev_done spans = Some (w', lft', rd', spans') ->
  row_spans (xs_of act) evenodd w lft (sp2 spans) = (w', lft', sp2 spans') /\
  Forall (fun s => s_y s = y) spans' \/ ~ Forall (fun s => s_y s = y) spans.
Proof. exact walk_row_is_row_spans. Qed.

(* non-vacuity: a triangle's edges and its spans computed by the model *)
Example C02_nonvacuous :
  exists sp, fill_spans [mkedge 131072 0 2 5 1; mkedge 655360 (-65536) 2 5 (-1)] 2 6 20 false 0 = Some sp /\ length sp = 4%nat.
Proof. eexists. split; vm_compute; reflexivity. Qed.

(* accuracy of the fixed-point edge abscissa: on row first_y + k the FDot16 value the walker uses (e_x + k * e_dx) is within
   (1025 + k) / 65536 px of the exact line through the edge's FDot6 end points taken at the row centre (1/64 px from the
   truncated start, one unit of truncated slope per row); stated without division, multiplied by 64 * (yb - ya).
   Hypotheses: coordinates below 2^18 px, slope below 32768 (otherwise fdot16::div clamps). *)
Theorem C02_line_edge_x_accuracy :
  forall p0 p1 shift e,
  line_edge_new p0 p1 shift = Some (Some e) ->
  let '(xa, ya, xb, yb) := edge_ends p0 p1 shift in
  Z.abs ya <= 16777216 -> Z.abs (xb - xa) < 32768 * (yb - ya) ->
  forall k, 0 <= k ->
  let X := e_x e + k * e_dx e in
  Z.abs (64 * ((yb - ya) * X - 1024 * xa * (yb - ya)) - 65536 * (xb - xa) * (64 * (e_first_y e + k) + 32 - ya))
    <= 64 * (yb - ya) * (1025 + k).
Proof. exact line_edge_x_accuracy. Qed.

(* the list algorithms of the walker: insert_new_edges (backward scan + forward merge) of two lists sorted by x is sorted by x
   and is a permutation of their concatenation *)
Theorem C02_insert_new_edges_spec :
  forall act news, asc act -> asc news ->
  asc (insert_new_edges act news) /\ Permutation (insert_new_edges act news) (act ++ news).
Proof. exact insert_new_edges_spec. Qed.

(* THE fill theorem of the model (line-only paths inside the clip, fill_path_impl's sort + walk_edges): on every walked row yy
   the active list is sorted by x and is, up to order, the set of edges whose row range contains yy, each advanced by its slope
   once per row since its first row; and, when the windings of that row are balanced under the fill rule (closed contours),
   a pixel column c is covered by the emitted spans of row yy exactly when the fill rule accepts the sum of the windings of the
   active edges whose rounded abscissa is at or left of c.  With C02_edge_rows (which rows an edge is active on) and
   C02_line_edge_x_accuracy (where its abscissa is) this is the pixel-centre rule up to the fixed-point error. *)
Theorem C02_fill_spans_spec :
  forall es start stop rc eo out,
  fill_spans es start stop rc eo 0 = Some out ->
  wf_edges es -> (forall e, In e es -> start <= e_first_y e) -> 0 <= start -> 0 <= stop ->
  exists acts : Z -> list ledge,
    (forall yy, start <= yy -> (yy < stop \/ yy = start) -> asc (acts yy) /\ Permutation (acts yy) (active_at es yy)) /\
    forall yy c, start <= yy -> (yy < stop \/ yy = start) ->
      (forall e, In e (acts yy) -> x_ok e) -> masked (sumw (active_at es yy)) eo = false ->
      (cov out yy c <-> masked (wsum (xs_of (active_at es yy)) c) eo = true).
Proof. exact fill_spans_spec. Qed.

(* every row is balanced, for every path: path_lines closes every contour, LineEdge::new gives each segment the winding and the
   rows that make its contribution telescope, and combine_vertical only merges or cancels vertical edges without changing a row *)
Theorem C02_build_edges_balanced :
  forall p shift es, build_edges p shift = Some (Some es) -> (forall y, rowsum es y = 0) /\ Forall wf1 es.
Proof. exact build_edges_balanced. Qed.

(* the fill theorem for the edges of any line-only path: no balance hypothesis left *)
Theorem C02_path_fill_spec :
  forall p es start stop rc eo out,
  build_edges p 0 = Some (Some es) -> fill_spans es start stop rc eo 0 = Some out ->
  (forall e, In e es -> start <= e_first_y e) -> 0 <= start -> 0 <= stop ->
  exists acts : Z -> list ledge,
    (forall yy, start <= yy -> (yy < stop \/ yy = start) -> asc (acts yy) /\ Permutation (acts yy) (active_at es yy)) /\
    forall yy c, start <= yy -> (yy < stop \/ yy = start) -> (forall e, In e (acts yy) -> x_ok e) ->
      (cov out yy c <-> masked (wsum (xs_of (active_at es yy)) c) eo = true).
Proof. exact path_fill_spec. Qed.

(* curve edges: the line edges a QuadraticEdge walks through (bit-exact model Model/CurveEdge.v, quad_edge correspondence) tile a
   contiguous range of rows from top to bottom: each edge starts on the row after the previous edge's last row, none is empty
   or reversed, all carry the winding of the quad (+1 or -1) *)
From TS Require Import Model.CurveEdge Proofs.CurveEdgeProofs.
Theorem C02_quad_edge_rows_chained :
  forall p0 p1 p2 sh ls,
  quad_edge_lines p0 p1 p2 sh = Some ls ->
  match ls with
  | nil => True
  | cons e _ => exists w, (w = 1 \/ w = -1)%Z /\ chained w (e_first_y e) ls
  end.
Proof. exact quad_edge_lines_chained. Qed.

(* the same for CubicEdge (cubic_edge correspondence), including its pin newy := max newy oldy *)
Theorem C02_cubic_edge_rows_chained :
  forall p0 p1 p2 p3 sh ls,
  cubic_edge_lines p0 p1 p2 p3 sh = Some ls ->
  match ls with
  | nil => True
  | cons e _ => exists w, (w = 1 \/ w = -1)%Z /\ chained w (e_first_y e) ls
  end.
Proof. exact cubic_edge_lines_chained. Qed.

(* ---- paths with quadratic segments (Model/CurveFill.v: the unclipped route of the edge builder, chopping at the y extremum in
   binary32, curve edges as the lists of their lines; fill_spans / aa_spans correspondence on curved paths) ---------------------- *)
From Coq Require Import Lia.
From TS Require Import Model.CurveFill Proofs.CurveFillProofs.

(* the lines of a quadratic edge tile EXACTLY the rows between the rounded FDot6 ordinates of its two end points: first row
   round(min y), one row past the last round(max y), contiguous, never reversed, all with the winding of the direction *)
Theorem C02_quad_edge_rows :
  forall p0 p1 p2 sh ls,
  quad_edge_lines p0 p1 p2 sh = Some ls ->
  let y0 := fd6 (py p0) sh in let y2 := fd6 (py p2) sh in
  exists top bot, fdot6_round (Z.min y0 y2) = Some top /\ fdot6_round (Z.max y0 y2) = Some bot /\
    chained_to (if y2 <? y0 then -1 else 1) top ls bot.
Proof. exact quad_edge_lines_rows. Qed.

(* a cubic edge pins every new ordinate (newy = max(newy, oldy)): its lines are contiguous from the rounded ordinate of the upper
   end point down to a row [stop] that is NEVER ABOVE the rounded ordinate of the lower end point, and may lie below it -- the rows
   bot .. stop - 1 are where a cubic can leave a row unbalanced (the reason Skia's conservative bounds carry extra slop) *)
Theorem C02_cubic_edge_rows :
  forall p0 p1 p2 p3 sh ls,
  cubic_edge_lines p0 p1 p2 p3 sh = Some ls ->
  let y0 := fd6 (py p0) sh in let y3 := fd6 (py p3) sh in
  exists top bot stop, fdot6_round (Z.min y0 y3) = Some top /\ fdot6_round (Z.max y0 y3) = Some bot /\ bot <= stop /\
    chained_to (if y3 <? y0 then -1 else 1) top ls stop.
Proof. exact cubic_edge_lines_rows. Qed.

(* hence every row is balanced for every path made of lines and quadratic segments, at every supersampling shift: the windings
   of the edges active on a row sum to zero (chopping at the extremum only inserts a shared point, every contour is closed) *)
Theorem C02_quad_path_balanced :
  forall p shift es, build_edges_curves p shift = Some (Some es) -> ~ In Cubic (pverbs p) ->
  (forall y, rowsum es y = 0) /\ Forall wf1 es.
Proof. exact build_edges_curves_balanced. Qed.

(* and the fill theorem holds for them without a balance hypothesis: a column is covered on a walked row exactly when the fill
   rule accepts the winding sum of the (line and curve-line) edges at or left of it *)
Theorem C02_quad_path_fill_spec :
  forall p es start stop rc eo out,
  build_edges_curves p 0 = Some (Some es) -> ~ In Cubic (pverbs p) -> fill_spans es start stop rc eo 0 = Some out ->
  (forall e, In e es -> start <= e_first_y e) -> 0 <= start -> 0 <= stop ->
  exists acts : Z -> list ledge,
    (forall yy, start <= yy -> (yy < stop \/ yy = start) -> asc (acts yy) /\ Permutation (acts yy) (active_at es yy)) /\
    forall yy c, start <= yy -> (yy < stop \/ yy = start) -> (forall e, In e (acts yy) -> x_ok e) ->
      (cov out yy c <-> masked (wsum (xs_of (active_at es yy)) c) eo = true).
Proof. exact quad_path_fill_spec. Qed.

(* paths with cubic segments: the fill theorem holds, again without a balance hypothesis, for every path all of whose cubic edges
   end on the row of their last point -- an executable test on the path ([path_cubics_exact p 0 = 1], Model/CurveFill.v) that the
   check evaluates on its sampled paths and reports in the evidence (obligation `hypothesis:cubics_exact`) *)
Theorem C02_cubic_path_fill_spec :
  forall p es start stop rc eo out,
  build_edges_curves p 0 = Some (Some es) -> path_cubics_exact p 0 = 1 ->
  fill_spans es start stop rc eo 0 = Some out ->
  (forall e, In e es -> start <= e_first_y e) -> 0 <= start -> 0 <= stop ->
  exists acts : Z -> list ledge,
    (forall yy, start <= yy -> (yy < stop \/ yy = start) -> asc (acts yy) /\ Permutation (acts yy) (active_at es yy)) /\
    forall yy c, start <= yy -> (yy < stop \/ yy = start) -> (forall e, In e (acts yy) -> x_ok e) ->
      (cov out yy c <-> masked (wsum (xs_of (active_at es yy)) c) eo = true).
Proof. exact path_cubics_exact_fill_spec. Qed.

(* the curve-aware builder is a conservative extension of the line builder *)
Theorem C02_curve_builder_extends_line_builder :
  forall p shift r, build_edges p shift = Some r -> build_edges_curves p shift = Some r.
Proof. exact build_edges_curves_lines. Qed.

(* non-vacuity: a closed contour M(2,1) Q(12,3)(3,9) L(2,1): the quad is chopped nowhere (monotone in y), becomes a curve edge of
   several lines; with the control point at y = 11 it is chopped in two
   (points given by their bit patterns; the statements compare integers only) *)
Definition C02_P (x y : Z) : pt := mkpt (F32.of_bits x) (F32.of_bits y).
Example C02_quad_path_example :
  option_map (@length _) (quad_edge_lines (C02_P 1073741824 1065353216) (C02_P 1094713344 1077936128) (C02_P 1077936128 1091567616) 0) = Some 7%nat /\
  length (chop_quad_at_y_extrema (C02_P 1073741824 1065353216) (C02_P 1094713344 1077936128) (C02_P 1077936128 1091567616)) = 1%nat /\
  length (chop_quad_at_y_extrema (C02_P 1073741824 1065353216) (C02_P 1094713344 1093664768) (C02_P 1077936128 1091567616)) = 2%nat.
Proof. split; [vm_compute; reflexivity|]. split; vm_compute; reflexivity. Qed.
