(* C02 — aliased fill paints exactly the pixels whose centres lie inside the path
   (fixed-point scan converter, line edges; curves and the float clipper are partial). *)
From Coq Require Import ZArith List.
From TS Require Import Base.F32 Model.Rect Model.PathBuilder Model.Edge Model.Walk Proofs.WalkProofs.
Import ListNotations.
Local Open Scope Z_scope.

(* an edge is active on row k exactly when the pixel-centre ordinate 64k+32 (in 1/64 px) lies in the
   half-open interval (y_top, y_bottom] of the edge: the pixel-centre rule, for every float input *)
Theorem C02_edge_rows :
  forall p0 p1 shift e, line_edge_new p0 p1 shift = Some (Some e) ->
  forall k, e_first_y e <= k <= e_last_y e <->
            Z.min (fd6 (py p0) shift) (fd6 (py p1) shift) < 64 * k + 32 <= Z.max (fd6 (py p0) shift) (fd6 (py p1) shift).
Proof. exact edge_rows. Qed.
Check C02_edge_rows :
  forall p0 p1 shift e, line_edge_new p0 p1 shift = Some (Some e) ->
  forall k, e_first_y e <= k <= e_last_y e <->
            Z.min (fd6 (py p0) shift) (fd6 (py p1) shift) < 64 * k + 32 <= Z.max (fd6 (py p0) shift) (fd6 (py p1) shift).

(* on a scanline with the edges sorted by (rounded) x and a balanced winding: column c is covered by the
   emitted spans <-> the fill rule accepts the winding sum of the edges at or left of c.  Any number
   of edges, both fill rules. *)
Theorem C02_row_spans_spec :
  forall evenodd xs w' lft' spans',
  sorted_x xs -> row_spans xs evenodd 0 0 [] = (w', lft', spans') -> masked w' evenodd = false ->
  forall c, covered spans' c <-> masked (wsum xs c) evenodd = true.
Proof. exact row_spans_spec. Qed.
Check C02_row_spans_spec :
  forall evenodd xs w' lft' spans',
  sorted_x xs -> row_spans xs evenodd 0 0 [] = (w', lft', spans') -> masked w' evenodd = false ->
  forall c, covered spans' c <-> masked (wsum xs c) evenodd = true.

(* the walker's row loop emits exactly those spans (whatever re-sorting it performs for the next row),
   all on row y *)
Theorem C02_walk_row_is_row_spans :
  forall act y evenodd w lft prev_x rev_done spans w' lft' rd' spans',
  walk_row act y evenodd w lft prev_x rev_done spans = Some (w', lft', rd', spans') ->
  row_spans (xs_of act) evenodd w lft (sp2 spans) = (w', lft', sp2 spans') /\
  Forall (fun s => s_y s = y) spans' \/ ~ Forall (fun s => s_y s = y) spans.
Proof. exact walk_row_is_row_spans. Qed.

(* non-vacuity: a triangle's edges and its spans computed by the model *)
Example C02_nonvacuous :
  exists sp, fill_spans [mkedge 131072 0 2 5 1; mkedge 655360 (-65536) 2 5 (-1)] 2 6 20 false 0 = Some sp /\ length sp = 4%nat.
Proof. eexists. split; vm_compute; reflexivity. Qed.
