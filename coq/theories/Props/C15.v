(* C15 — gradients colour each pixel by interpolating the stops at the geometric t.
   Theorems: the stop sanitisation of Gradient::new (bit-exact binary32 model, real-number semantics via B2R)
   and the ideal factor/bias and tiling functions (Q).  The float pipeline stages that evaluate t and the colour
   per pixel are tied to these by the f64 oracle only (DESIGN.md, C15 partial). *)
From Coq Require Import ZArith QArith Qabs List Reals.
From TS Require Import Base.F32 Model.Gradient Proofs.RectPoints Proofs.GradientProofs Proofs.GradientIdeal.
Import ListNotations.

(* every sanitised stop list - for any input list of at least two stops, sorted or not, with any positions -
   has all positions in [0,1], non-decreasing, the first exactly 0 and the last exactly 1 *)
Theorem C15_gradient_new_sorted :
  forall stops g, all01 stops -> gradient_new stops = Some g ->
  all01 (g_stops g) /\ sorted_from 0 (g_stops g) /\
  (exists s r, g_stops g = s :: r /\ posR s = 0%R) /\ (forall d, posR (last (g_stops g) d) = 1%R) /\
  (2 <= length (g_stops g))%nat.
Proof. exact gradient_new_sorted. Qed.
(* GradientStop::new puts any f32 (NaN, infinities, out of range) into [0,1] and keeps values already there *)
Theorem C15_stop_position_clamped :
  forall n, n01 (new_clamped n) /\ (n01 n -> R32 (new_clamped n) = R32 n).
Proof. exact new_clamped_spec. Qed.

(* the factor / bias pair stored for an interval evaluates to the linear interpolation of its two stops,
   hits both stop colours at the ends, and the 2-stop fast path is the same function *)
Theorem C15_factor_bias_interpolates :
  forall tl tr cl cr t, (tl < tr)%Q -> (factor tl tr cl cr * t + bias tl tr cl cr == lerp_stops tl tr cl cr t)%Q.
Proof. exact factor_bias_interpolates. Qed.
Theorem C15_lerp_stops_ends :
  forall tl tr cl cr, (tl < tr)%Q -> (lerp_stops tl tr cl cr tl == cl /\ lerp_stops tl tr cl cr tr == cr)%Q.
Proof. exact lerp_stops_ends. Qed.
Theorem C15_two_stop_interpolates : forall c0 c1 t, (two_stop c0 c1 t == lerp_stops 0 1 c0 c1 t)%Q.
Proof. exact two_stop_interpolates. Qed.

(* tiling keeps t in the unit interval *)
Theorem C15_repeat_range : forall t, (0 <= repeat_x1 t /\ repeat_x1 t < 1)%Q.
Proof. exact repeat_x1_range. Qed.
Theorem C15_reflect_range : forall t, (0 <= reflect_x1 t /\ reflect_x1 t <= 1)%Q.
Proof. exact reflect_x1_range. Qed.
Theorem C15_pad_spec : forall t, (0 <= pad_x1 t /\ pad_x1 t <= 1 /\ (0 <= t <= 1 -> pad_x1 t == t))%Q.
Proof. exact pad_x1_spec. Qed.

(* non-vacuity: an unsorted three-stop list (0.5, 0.2, 0.8) *)
Example C15_example :
  match gradient_new [stop_new (F32.of_bits 1056964608) (mkcolor F32.one F32.zero F32.zero F32.one);
                      stop_new (F32.of_bits 1045220557) (mkcolor F32.zero F32.one F32.zero F32.one);
                      stop_new (F32.of_bits 1061997773) (mkcolor F32.zero F32.zero F32.one F32.one)] with
  | Some g => map (fun s => F32.to_bits (s_pos s)) (g_stops g) = [0; 1056964608; 1056964608; 1061997773; 1065353216]%Z
  | None => False
  end.
Proof. vm_compute. reflexivity. Qed.

(* the interval search of the `gradient` stage, with the comparison operators re-extracted from the lowp and highp sources on
   every run: all 16 + 8 lanes count the stops with ">=", so on sorted stops the count k selects the half-open interval
   [t_k, t_k+1) containing t -- at a hard stop the colour on its right -- identically in both pipelines *)
From Coq Require Import String.
From TS Require Import Gen.GradientStage Proofs.GradientSearch.
Theorem C15_gradient_search_right_continuous :
  List.length lowp_gradient_cmps = 16%nat /\ List.length highp_gradient_cmps = 8%nat /\
  (forall op, List.In op (lowp_gradient_cmps ++ highp_gradient_cmps) -> op = ">="%string) /\
  (forall op tail t, List.In op (lowp_gradient_cmps ++ highp_gradient_cmps) -> sortedQ tail ->
     let k := lane_index op tail t in
     (forall x, List.In x (List.firstn k tail) -> (x <= t)%Q) /\ (forall x, List.In x (List.skipn k tail) -> (t < x)%Q)).
Proof. exact gradient_search_right_continuous. Qed.
