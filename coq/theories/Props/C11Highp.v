(* C11 (highp, binary32): the coverage interpolation of the highp pipeline, lerp(from, to, t) = (to - from) * t + from evaluated
   in binary32 (the generated closure highp_lerp), for finite premultiplied values in [0, 1]:
   zero coverage changes nothing (exactly), the result is monotone in the coverage, and for every coverage in [0, 1] it lies
   between the previous value and the full-coverage value. *)
From Coq Require Import Reals.
From TS Require Import Base.F32 Gen.HighpGen Proofs.RectPoints Proofs.LerpMono.
Local Open Scope R_scope.

Theorem C11_highp_lerp_zero :
  forall from to, fin from -> fin to -> 0 <= R32 from <= 1 -> 0 <= R32 to <= 1 ->
  forall t, fin t -> R32 t = 0 -> R32 (highp_lerp from to t) = R32 from.
Proof. exact lerp_zero. Qed.

Theorem C11_highp_lerp_monotone :
  forall from to, fin from -> fin to -> 0 <= R32 from <= 1 -> 0 <= R32 to <= 1 ->
  forall t1 t2, fin t1 -> fin t2 -> 0 <= R32 t1 -> R32 t1 <= R32 t2 -> R32 t2 <= 1 ->
  (0 <= R32 (F32.sub to from) -> R32 (highp_lerp from to t1) <= R32 (highp_lerp from to t2)) /\
  (R32 (F32.sub to from) <= 0 -> R32 (highp_lerp from to t2) <= R32 (highp_lerp from to t1)).
Proof. exact lerp_monotone. Qed.

Theorem C11_highp_lerp_between :
  forall from to, fin from -> fin to -> 0 <= R32 from <= 1 -> 0 <= R32 to <= 1 ->
  forall t one, fin t -> fin one -> 0 <= R32 t <= 1 -> R32 one = 1 ->
  Rmin (R32 from) (R32 (highp_lerp from to one)) <= R32 (highp_lerp from to t) <= Rmax (R32 from) (R32 (highp_lerp from to one)).
Proof. exact lerp_between. Qed.
