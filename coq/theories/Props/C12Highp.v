(* C12 (highp, binary32): the Porter-Duff closures, Modulate, Multiply and Plus of the generated highp table preserve
   premultipliedness EXACTLY in binary32: every colour channel is produced by the same closure as alpha with (s, d) in place of
   (sa, da); for finite inputs in [0, 1] with s <= sa and d <= da the binary32 result never exceeds the binary32 alpha result, and the
   stored bytes (unnorm: clamp, x 255, round to nearest even) keep that order and stay in 0..255.  No tolerance is involved. *)
From Coq Require Import ZArith Reals.
From TS Require Import Base.F32 Gen.HighpGen Model.Pixel Proofs.RectPoints Proofs.PremulMono.
Local Open Scope R_scope.

Definition C12_premul_fn (f : f32 -> f32 -> f32 -> f32 -> f32) : Prop :=
  forall s d sa da, fin s -> fin d -> fin sa -> fin da ->
  0 <= R32 s <= 1 -> 0 <= R32 d <= 1 -> 0 <= R32 sa <= 1 -> 0 <= R32 da <= 1 -> R32 s <= R32 sa -> R32 d <= R32 da ->
  fin (f s d sa da) /\ fin (f sa da sa da) /\ R32 (f s d sa da) <= R32 (f sa da sa da) /\
  (0 <= unnorm (f s d sa da) <= unnorm (f sa da sa da))%Z /\ (unnorm (f sa da sa da) <= 255)%Z.

Theorem C12_highp_premul_exact :
  C12_premul_fn highp_source_over /\ C12_premul_fn highp_destination_over /\ C12_premul_fn highp_source_in /\
  C12_premul_fn highp_destination_in /\ C12_premul_fn highp_source_out /\ C12_premul_fn highp_destination_out /\
  C12_premul_fn highp_source_atop /\ C12_premul_fn highp_destination_atop /\ C12_premul_fn highp_xor /\
  C12_premul_fn highp_modulate /\ C12_premul_fn highp_multiply /\ C12_premul_fn highp_plus.
Proof. exact highp_premul_modes. Qed.

(* the store itself is monotone on finite values *)
Theorem C12_unnorm_monotone :
  forall v v', fin v -> fin v' -> R32 v <= R32 v' -> (0 <= unnorm v <= unnorm v')%Z /\ (unnorm v' <= 255)%Z.
Proof. exact unnorm_mono. Qed.

Example C12_highp_nonvacuous :
  let s := F32.of_bits 1050253722 in let sa := F32.of_bits 1058474557 in
  R32 s <= R32 sa /\ List.In HighpError.e_source_over premul_e /\
  unnorm (highp_source_over s s sa sa) = 108%Z /\ unnorm (highp_source_over sa sa sa sa) = 212%Z.
Proof. exact premul_exact_example. Qed.
