(* C09 — a pixel's result depends only on that pixel's own inputs. *)
From Coq Require Import ZArith List String.
From TS Require Import Base.F32 Model.Pixel Model.RunPx Proofs.RunnerProofs.
Import ListNotations.

(* Without a clip mask, for any lane function, batch width, span and row: the output row is the
   input row with [lane_out f] mapped over the span — no term mentions x0, len, the batch width or
   another pixel. *)
Theorem C09_run_row_is_map :
  forall f w x0 len row out,
  (w > 0)%nat -> run_row f false w x0 len row = Some out ->
  out = map in_dst (firstn x0 row) ++ map (lane_out f) (firstn len (skipn x0 row))
        ++ map in_dst (skipn (x0 + len) row).
Proof. exact run_row_is_map. Qed.
Check C09_run_row_is_map :
  forall f w x0 len row out,
  (w > 0)%nat -> run_row f false w x0 len row = Some out ->
  out = map in_dst (firstn x0 row) ++ map (lane_out f) (firstn len (skipn x0 row))
        ++ map in_dst (skipn (x0 + len) row).

(* With a clip mask every span pixel is its own lane function, or — only if its own mask byte is 0 —
   left untouched (the whole-batch early return of mask_u8). *)
Theorem C09_run_row_masked :
  forall f hm w x0 len row out,
  (w > 0)%nat -> run_row f hm w x0 len row = Some out ->
  exists a m b, out = a ++ m ++ b /\
    Forall2 frame_ok (firstn x0 row) a /\
    Forall2 (pix_ok f hm) (firstn len (skipn x0 row)) m /\
    Forall2 frame_ok (skipn (x0 + len) row) b.
Proof. exact run_row_spec. Qed.

(* Where the lane function at mask 0 is NOT the identity the early return is observable: the same
   pixel (dst 10 20 30 40, mask 0, Source mode, red paint) keeps its value when its neighbour's mask is
   0 and is overwritten when the neighbour's mask is 255 (finding C10-mask-scales-source). *)
Theorem C09_mask_early_out_refuted :
  run_px [0; 1; 0; 0; 255; 0; 0; 255; 1; 0; 2; 2;  10; 20; 30; 40; 0;  1; 2; 3; 4; 0]%Z
    = [10; 20; 30; 40; 1; 2; 3; 4]%Z /\
  run_px [0; 1; 0; 0; 255; 0; 0; 255; 1; 0; 2; 2;  10; 20; 30; 40; 0;  1; 2; 3; 4; 255]%Z
    = [0; 0; 0; 0; 255; 0; 0; 255]%Z.
Proof. split; vm_compute; reflexivity. Qed.
