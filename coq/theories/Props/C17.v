(* C17 — PNG export and import round-trip pixmaps (arithmetic part; the codec is an assumption). *)
From Coq Require Import ZArith List Lia.
From TS Require Import Base.F32 Model.Pixel Model.Png Proofs.PngProofs.
Import ListNotations.
Local Open Scope Z_scope.

(* every one of the 32 896 premultiplied (colour <= alpha) channel pairs survives
   demultiply (binary64, as in the source) followed by premultiply_u8, and demultiply never saturates *)
Theorem C17_premul_demul_roundtrip :
  forall c a, 0 <= c <= a -> a <= 255 -> premultiply_u8 (demul_chan c a) a = c /\ demul_chan c a <= 255.
Proof. exact premul_demul_roundtrip. Qed.
Check C17_premul_demul_roundtrip :
  forall c a, 0 <= c <= a -> a <= 255 -> premultiply_u8 (demul_chan c a) a = c /\ demul_chan c a <= 255.

(* premultiply_u8 is round(c*a/255) for all 65 536 pairs, and the result is <= alpha *)
Theorem C17_premultiply_u8_is_round :
  forall c a, 0 <= c <= 255 -> 0 <= a <= 255 ->
  Z.abs (255 * premultiply_u8 c a - c * a) <= 127 /\ 0 <= premultiply_u8 c a <= a.
Proof. exact premultiply_u8_is_round. Qed.

(* decode_png (encode_png p) = p for every validly premultiplied pixmap, for ANY lossless codec *)
Theorem C17_pixmap_roundtrip :
  forall (T : Type) (codec_enc : Z -> Z -> list px -> T) (codec_dec : T -> option (Z * Z * list px)),
  (forall w h l, codec_dec (codec_enc w h l) = Some (w, h, l)) ->
  forall w h pxs, Forall px_valid pxs ->
  decode_png T codec_dec (encode_png T codec_enc w h pxs) = Some (w, h, pxs).
Proof. exact pixmap_roundtrip. Qed.

Theorem C17_decode_expansion_spec :
  (forall g, decode_pixels 0 [g] = [premultiply (mkpx g g g 255)]) /\
  (forall r g b, decode_pixels 2 [r; g; b] = [premultiply (mkpx r g b 255)]) /\
  (forall g a, decode_pixels 4 [g; a] = [premultiply (mkpx g g g a)]) /\
  (forall r g b a, decode_pixels 6 [r; g; b; a] = [premultiply (mkpx r g b a)]).
Proof. exact decode_expansion_spec. Qed.

Example C17_nonvacuous : px_valid (mkpx 153 99 54 180) /\ demultiply (mkpx 153 99 54 180) = mkpx 217 140 77 180.
Proof. split; [unfold px_valid; simpl; lia | vm_compute; reflexivity]. Qed.
