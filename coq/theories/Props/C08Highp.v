(* C08 (highp, binary32): every polynomial / min-max blend closure (17 of the 29 modes) generated from src/pipeline/highp.rs, evaluated in binary32 on finite
   inputs in [0, 1], is finite and within 2^-19 of the exact polynomial of its source text -- less than 1/2000 of an 8-bit level,
   so the stored byte can differ from the rounded exact value only when 255 x exact lies within 1/2000 of a rounding boundary. *)
From Coq Require Import Reals.
From TS Require Import Base.F32 Gen.HighpGen Proofs.RectPoints Proofs.HighpError.
Local Open Scope R_scope.

Theorem C08_highp_polynomial_modes_close :
  close highp_source_over P_source_over /\
  close highp_destination_over P_destination_over /\
  close highp_source_in P_source_in /\
  close highp_destination_in P_destination_in /\
  close highp_source_out P_source_out /\
  close highp_destination_out P_destination_out /\
  close highp_source_atop P_source_atop /\
  close highp_destination_atop P_destination_atop /\
  close highp_xor P_xor /\
  close highp_modulate P_modulate /\
  close highp_screen P_screen /\
  close highp_multiply P_multiply /\
  close highp_exclusion P_exclusion /\
  close highp_plus P_plus /\
  close highp_darken P_darken /\
  close highp_lighten P_lighten /\
  close highp_difference P_difference.
Proof. exact highp_polynomial_modes_close. Qed.

(* what `close` says, spelled out for SourceOver *)
Theorem C08_highp_source_over_close :
  forall s d sa da, fin s -> fin d -> fin sa -> fin da ->
  0 <= R32 s <= 1 -> 0 <= R32 d <= 1 -> 0 <= R32 sa <= 1 -> 0 <= R32 da <= 1 ->
  fin (highp_source_over s d sa da) /\
  Rabs (R32 (highp_source_over s d sa da) - (R32 d * (1 - R32 sa) + R32 s)) <= / 524288.
Proof. exact close_source_over. Qed.
