(* C19 — geometry value types never hold, return or panic on invalid values.
   Only property theorems: each closed by [exact], statements pinned by [Check]. *)
From Coq Require Import ZArith List Reals Lia.
From TS Require Import Base.F32 Model.Rect Model.IntRect Model.RectRound
  Proofs.RectPoints Proofs.RectOps Proofs.IntRectProofs.
Local Open Scope Z_scope.

(* IntRect::from_xywh returns Some exactly when the documented guarantees hold *)
Theorem C19_intrect_from_xywh_iff :
  forall x y w h r,
  i32_min <= x <= i32_max -> i32_min <= y <= i32_max -> 0 <= w <= u32_max -> 0 <= h <= u32_max ->
  (ir_from_xywh x y w h = Some r <->
   r = mkir x y w h /\ 1 <= w <= i32_max /\ 1 <= h <= i32_max /\ x + w <= i32_max /\ y + h <= i32_max).
Proof. exact from_xywh_iff. Qed.
Check C19_intrect_from_xywh_iff :
  forall x y w h r,
  i32_min <= x <= i32_max -> i32_min <= y <= i32_max -> 0 <= w <= u32_max -> 0 <= h <= u32_max ->
  (ir_from_xywh x y w h = Some r <->
   r = mkir x y w h /\ 1 <= w <= i32_max /\ 1 <= h <= i32_max /\ x + w <= i32_max /\ y + h <= i32_max).

Theorem C19_intrect_from_ltrb_iff :
  forall l t r b rc,
  i32_min <= l <= i32_max -> i32_min <= t <= i32_max -> i32_min <= r <= i32_max -> i32_min <= b <= i32_max ->
  (ir_from_ltrb l t r b = Some rc <->
   rc = mkir l t (r - l) (b - t) /\ l < r /\ t < b /\ r - l <= i32_max /\ b - t <= i32_max).
Proof. exact from_ltrb_iff. Qed.

(* intersect: valid, contained in both operands, and exactly the max/min of the edges;
   None exactly when the rectangles do not overlap *)
Theorem C19_intrect_intersect_spec :
  forall a b, ir_valid a -> ir_valid b ->
  match ir_intersect a b with
  | Some c => ir_valid c /\ ir_contains a c = true /\ ir_contains b c = true /\
              ix c = Z.max (ix a) (ix b) /\ iy c = Z.max (iy a) (iy b) /\
              ir_right c = Z.min (ir_right a) (ir_right b) /\ ir_bottom c = Z.min (ir_bottom a) (ir_bottom b)
  | None => Z.min (ir_right a) (ir_right b) <= Z.max (ix a) (ix b) \/
            Z.min (ir_bottom a) (ir_bottom b) <= Z.max (iy a) (iy b)
  end.
Proof. exact intersect_spec. Qed.

(* inset / translate / translate_to / make_outset: never a panic (every i32 operation is
   checked in the model and the result is an option), Some v -> v valid and is the intended rect *)
Theorem C19_intrect_inset_valid :
  forall r dx dy rc,
  ir_valid r -> i32_min <= dx <= i32_max -> i32_min <= dy <= i32_max ->
  ir_inset r dx dy = Some rc ->
  ir_valid rc /\ ix rc = ix r + dx /\ iy rc = iy r + dy /\
  ir_right rc = ir_right r - dx /\ ir_bottom rc = ir_bottom r - dy.
Proof. exact inset_valid. Qed.
Theorem C19_intrect_translate_valid :
  forall r tx ty rc,
  ir_valid r -> i32_min <= tx <= i32_max -> i32_min <= ty <= i32_max ->
  ir_translate r tx ty = Some rc -> ir_valid rc /\ rc = mkir (ix r + tx) (iy r + ty) (iw r) (ih r).
Proof. exact translate_valid. Qed.
Theorem C19_intrect_translate_to_valid :
  forall r x y rc,
  ir_valid r -> i32_min <= x <= i32_max -> i32_min <= y <= i32_max ->
  ir_translate_to r x y = Some rc -> ir_valid rc /\ rc = mkir x y (iw r) (ih r).
Proof. exact translate_to_valid. Qed.
Theorem C19_intrect_make_outset_valid :
  forall r dx dy rc, ir_valid r -> ir_make_outset r dx dy = Some rc -> ir_valid rc.
Proof. exact make_outset_valid. Qed.
Theorem C19_intrect_right_bottom_no_overflow :
  forall r, ir_valid r -> i32_min <= ir_right r <= i32_max /\ i32_min <= ir_bottom r <= i32_max.
Proof. exact right_bottom_in_range. Qed.

(* the unchecked `+` of the pinned inset/translate left the i32 range (finding, fixed) *)
Theorem C19_intrect_inset_pinned_refuted :
  exists r dx, ir_valid r /\ i32_min <= dx <= i32_max /\ ~ (i32_min <= ix r + dx <= i32_max).
Proof. exact inset_pinned_overflow_refuted. Qed.

(* Rect (f32, bit-exact): acceptance, validity of every derived result, containment *)
Theorem C19_rect_from_ltrb_some_iff :
  forall l t r b,
  (exists rc, from_ltrb l t r b = Some rc) <->
  (fin l /\ fin t /\ fin r /\ fin b /\ F32.le l r = true /\ F32.le t b = true /\
   checked_f32_sub r l <> None /\ checked_f32_sub b t <> None).
Proof. exact from_ltrb_some_iff. Qed.
Theorem C19_rect_ops_valid :
  (forall a b c, rect_intersect a b = Some c -> RValid c) /\
  (forall a b c, RValid a -> RValid b -> rect_join a b = Some c -> RValid c) /\
  (forall a dx dy c, rect_inset a dx dy = Some c -> RValid c) /\
  (forall a dx dy c, rect_outset a dx dy = Some c -> RValid c) /\
  (forall x y w h c, from_xywh x y w h = Some c -> RValid c) /\
  (forall ps c, from_points ps = Some c -> RValid c).
Proof. exact rect_ops_valid. Qed.
Theorem C19_rect_intersect_sub :
  forall a b c, RValid a -> RValid b -> rect_intersect a b = Some c -> RInside c a /\ RInside c b.
Proof. exact intersect_sub. Qed.
Theorem C19_rect_join_sup :
  forall a b c, RValid a -> RValid b -> rect_join a b = Some c ->
  (rect_is_empty b = false -> rect_is_empty a = false -> RInside a c /\ RInside b c) /\
  (rect_is_empty b = true -> c = a) /\ (rect_is_empty b = false -> rect_is_empty a = true -> c = b).
Proof. exact join_sup. Qed.
Theorem C19_nonzero_rect_some :
  forall l t r b rc, nz_from_ltrb l t r b = Some rc ->
  rc = mkrect l t r b /\ fin l /\ fin t /\ fin r /\ fin b /\ (R32 l < R32 r)%R /\ (R32 t < R32 b)%R.
Proof. exact nz_from_ltrb_some. Qed.
Theorem C19_size_from_wh_iff :
  forall w h, (exists s, size_from_wh w h = Some s) <-> (fin w /\ fin h /\ (0 < R32 w)%R /\ (0 < R32 h)%R).
Proof. exact size_from_wh_iff. Qed.

(* Pixmap sizes: the byte length is 4*w*h exactly when 4*w fits i32; owning constructors need
   the exact length, borrowed ones at least that; pixel() addresses exactly (x,y) *)
Theorem C19_pixmap_data_len_spec :
  forall w h, 0 <= w <= u32_max -> 0 <= h <= u32_max ->
  (forall n, pixmap_new_ok w h = Some n <-> (1 <= w /\ 1 <= h /\ 4 * w <= i32_max /\ n = 4 * w * h)).
Proof. exact data_len_spec. Qed.
Theorem C19_pixmap_from_vec_accepts_iff :
  forall len w h, 0 <= w <= u32_max -> 0 <= h <= u32_max ->
  (from_vec_ok len w h = true <-> (1 <= w /\ 1 <= h /\ 4 * w <= i32_max /\ len = 4 * w * h)).
Proof. exact from_vec_accepts_iff. Qed.
Theorem C19_pixmap_from_bytes_accepts_iff :
  forall len w h, 0 <= w <= u32_max -> 0 <= h <= u32_max ->
  (forall n, from_bytes_ok len w h = Some n <->
     (1 <= w /\ 1 <= h /\ 4 * w <= i32_max /\ n = 4 * w * h /\ n <= len)).
Proof. exact from_bytes_accepts_iff. Qed.
Theorem C19_pixmap_pixel_spec :
  forall w h x y,
  1 <= w -> 1 <= h -> 4 * w <= i32_max -> w * h <= u32_max -> 0 <= x <= u32_max -> 0 <= y <= u32_max ->
  (forall i, pixel_index w h x y = Some i <-> (x < w /\ y < h /\ i = y * w + x)).
Proof. exact pixel_index_spec. Qed.
Theorem C19_pixel_pinned_refuted : pixel_index_pinned 3 2 3 0 = Some 3.
Proof. exact pixel_index_pinned_refuted. Qed.

(* non-vacuity *)
Example C19_nonvacuous :
  ir_valid (mkir (-5) 7 10 20) /\
  ir_intersect (mkir (-5) 7 10 20) (mkir 0 0 100 100) = Some (mkir 0 7 5 20) /\
  (exists r, from_ltrb F32.zero F32.zero F32.one F32.one = Some r).
Proof. split; [unfold ir_valid, i32_min, i32_max; simpl; lia|split; [reflexivity|eexists; vm_compute; reflexivity]]. Qed.
