(* C05 — a stroked outline is the path's offset region: nothing missing, nothing far away.
   Theorems about the ideal (exact rational, squared distances) geometry of the join and cap constructions of
   path/src/stroker.rs.  The stroker's float code, its curve offsetting and its builder bookkeeping are tied to the
   property by the exact-winding / distance oracle only (DESIGN.md, C05 partial). *)
From Coq Require Import QArith.
From TS Require Import Model.StrokeJoin Proofs.StrokeJoinProofs.
Local Open Scope Q_scope.

(* the miter tip is where the two offset lines meet, 2 r^2 / (1 + dot) from the pivot (squared) *)
Theorem C05_miter_tip_on_offset_lines :
  forall r n1x n1y n2x n2y,
  norm2 n1x n1y == 1 -> norm2 n2x n2y == 1 -> ~ 1 + dot n1x n1y n2x n2y == 0 ->
  dot (miter_tip_x r n1x n1y n2x n2y) (miter_tip_y r n1x n1y n2x n2y) n1x n1y == r /\
  dot (miter_tip_x r n1x n1y n2x n2y) (miter_tip_y r n1x n1y n2x n2y) n2x n2y == r.
Proof. exact miter_tip_on_offset_lines. Qed.
Theorem C05_miter_tip_distance :
  forall r n1x n1y n2x n2y,
  norm2 n1x n1y == 1 -> norm2 n2x n2y == 1 -> ~ 1 + dot n1x n1y n2x n2y == 0 ->
  norm2 (miter_tip_x r n1x n1y n2x n2y) (miter_tip_y r n1x n1y n2x n2y) == 2 * r * r / (1 + dot n1x n1y n2x n2y).
Proof. exact miter_tip_distance. Qed.

(* the miter test (sin_half_angle >= 1 / limit) keeps the tip within radius * limit; the right-angle fast path
   applies exactly that test at dot = 0 *)
Theorem C05_miter_within_limit :
  forall r inv_limit dotp, 0 < inv_limit -> 0 < 1 + dotp -> miter_allowed inv_limit dotp ->
  2 * r * r / (1 + dotp) <= (r / inv_limit) * (r / inv_limit).
Proof. exact miter_within_limit. Qed.
Theorem C05_right_angle_fast_path : forall inv_limit, miter_allowed inv_limit 0 <-> inv_limit * inv_limit <= 1 # 2.
Proof. exact right_angle_fast_path. Qed.

(* bevel edges stay within the radius, square cap corners are at radius * sqrt 2 *)
Theorem C05_bevel_within_radius :
  forall r n1x n1y n2x n2y t, norm2 n1x n1y == 1 -> norm2 n2x n2y == 1 -> 0 <= t <= 1 ->
  norm2 (bevel_x r n1x n2x t) (bevel_y r n1y n2y t) <= r * r.
Proof. exact bevel_within_radius. Qed.
Theorem C05_square_cap_corner :
  forall r nx ny, norm2 nx ny == 1 -> norm2 (square_corner_x r nx ny) (square_corner_y r nx ny) == 2 * r * r.
Proof. exact square_cap_corner. Qed.

(* miter-clip: each corner lies on the clip line and on its offset line; whenever the clipped route is taken with a
   limit >= 1 it is between 0 and limit * radius along the offset line, i.e. at most radius * sqrt (1 + limit^2) from
   the pivot (the recorded finding: the property's bound radius * limit is exceeded by exactly this construction) *)
Theorem C05_clip_corner_on_lines :
  forall r nx ny mx my limit,
  let c := dot nx ny mx my in let s := cross nx ny mx my in
  norm2 nx ny == 1 -> ~ s == 0 ->
  let x := clip_x limit c s in
  dot (clip_corner_x r nx ny x) (clip_corner_y r nx ny x) mx my == limit * r /\
  dot (clip_corner_x r nx ny x) (clip_corner_y r nx ny x) nx ny == r.
Proof. exact clip_corner_on_lines. Qed.
Theorem C05_clip_x_bounded :
  forall limit c s, 1 <= limit -> 0 <= c -> 0 < s -> c * c + s * s == 1 -> limit * c < 1 ->
  0 <= clip_x limit c s /\ clip_x limit c s <= limit.
Proof. exact clip_x_bounded. Qed.
Theorem C05_clip_corner_distance :
  forall r nx ny x, norm2 nx ny == 1 -> norm2 (clip_corner_x r nx ny x) (clip_corner_y r nx ny x) == r * r * (1 + x * x).
Proof. exact clip_corner_distance. Qed.

(* the defect repaired by 9d968ff: measuring the angle against a direction parallel to the normals makes the corner
   offset unbounded near a reversal *)
Theorem C05_nearly180_pinned_unbounded :
  forall limit B, 1 <= limit -> 0 < B -> exists s, 0 < s /\ B < clip_x limit (-1) s.
Proof. exact nearly180_pinned_unbounded. Qed.
