(* C10 — a mask blocks drawing where it is 0 and is transparent to it where it is 255. *)
From Coq Require Import ZArith List Lia.
From TS Require Import Base.U16 Gen.LowpGen Spec.BlendSpec Proofs.LowpProofs Proofs.CoverageProofs.
Local Open Scope Z_scope.

(* mask byte 255: scaling the source by 255 is the identity, so the masked program computes what
   the unmasked one does *)
Theorem C10_mask255_identity : forall v, 0 <= v <= 255 -> lowp_div255 (u16mul v 255) = v.
Proof. exact scale255_id. Qed.
Check C10_mask255_identity : forall v, 0 <= v <= 255 -> lowp_div255 (u16mul v 255) = v.

(* mask byte 0 scales the source to 0 ... *)
Theorem C10_mask0_source_zero : forall v, 0 <= v <= 255 -> lowp_div255 (u16mul v 0) = 0.
Proof. exact scale0_zero. Qed.

(* ... and for these 14 generated lowp modes a zero source returns the destination exactly *)
Theorem C10_mask0_keeps_dst :
  forall d da, premul d da ->
  lowp_source_over 0 d 0 da = d /\ lowp_destination_over 0 d 0 da = d /\
  lowp_destination_out 0 d 0 da = d /\ lowp_source_atop 0 d 0 da = d /\
  lowp_xor 0 d 0 da = d /\ lowp_plus 0 d 0 da = d /\ lowp_screen 0 d 0 da = d /\
  lowp_multiply 0 d 0 da = d /\ lowp_darken 0 d 0 da = d /\ lowp_lighten 0 d 0 da = d /\
  lowp_difference 0 d 0 da = d /\ lowp_exclusion 0 d 0 da = d /\
  lowp_hard_light 0 d 0 da = d /\ lowp_overlay 0 d 0 da = d.
Proof. exact mask0_keeps_dst. Qed.

(* for the other modes a zero source does not give back the destination: KNOWN FINDING
   C10-mask-scales-source (Clear, Source, SourceIn, DestinationIn, SourceOut, DestinationAtop, Modulate) *)
Theorem C10_mask0_refuted :
  lowp_source_in 0 200 0 255 = 0 /\ lowp_destination_in 0 200 0 255 = 0 /\ lowp_source_out 0 200 0 255 = 0 /\
  lowp_destination_atop 0 200 0 255 = 0 /\ lowp_modulate 0 200 0 255 = 0 /\ lowp_clear 0 200 0 255 = 0.
Proof. exact mask0_refuted. Qed.

(* intermediate values: the scaled source is monotone in the mask byte and never exceeds the source *)
Theorem C10_mask_monotone :
  forall v c c', 0 <= v <= 255 -> 0 <= c <= c' -> c' <= 255 ->
  lowp_div255 (u16mul v c) <= lowp_div255 (u16mul v c') /\ 0 <= lowp_div255 (u16mul v c) <= v.
Proof. intros v c c' Hv Hc Hc'. split; [apply scale_mono; auto | apply scale_le; lia]. Qed.

(* Pixmap::apply_mask / Mask::intersect_path arithmetic: |div255 (c*m) - c*m/255| <= 1 *)
Theorem C10_apply_mask_close :
  forall c m, 0 <= c <= 255 -> 0 <= m <= 255 ->
  -255 <= 255 * lowp_div255 (c * m) - c * m <= 255.
Proof. intros c m Hc Hm. apply div255_close. nia. Qed.
