(* C14 — every Path value satisfies the documented structural guarantees.
   This file contains only the property theorems: each is closed by [exact] of a lemma proved
   elsewhere, its statement is pinned by [Check], and its axioms are printed by the audit. *)
From Coq Require Import List.
From TS Require Gen.StrokerFields.
From TS Require Import Base.F32 Model.Rect Model.PathBuilder Model.Conic Model.Transform Model.PathOps Proofs.PathBuilderStruct Proofs.RectPoints.
Import ListNotations.

(* Every builder call sequence (any arguments, any conic oracle) followed by finish yields a
   path with >= 2 verbs, starting with Move, no Move-Move, no Close-Close, only Move after
   Close, and exactly as many points as the verbs require. *)
Theorem C14_finish_struct_wf :
  forall cq fp ops p,
    finish_gen fp (run cq push_path ops) = Some p -> StructWF (pverbs p) (ppoints p).
Proof. intros cq fp ops p. exact (finish_struct_wf fp _ p (run_inv cq ops)). Qed.
Check C14_finish_struct_wf :
  forall cq fp ops p,
    finish_gen fp (run cq push_path ops) = Some p -> StructWF (pverbs p) (ppoints p).

(* ... all points are finite and the stored bounds are exactly the bounding box of the points
   (minimum / maximum as real numbers, attained by a point).  Bit-exact float model of
   Rect::from_points; uses Flocq's B2R, hence the standard library's real-number axioms. *)
Theorem C14_finish_finite_and_bounds :
  forall b p, finish b = Some p ->
    Forall finite_pt (ppoints p) /\ BBox (pbounds p) (ppoints p).
Proof. exact finish_finite_bounds. Qed.
Check C14_finish_finite_and_bounds :
  forall b p, finish b = Some p ->
    Forall finite_pt (ppoints p) /\ BBox (pbounds p) (ppoints p).

(* PathBuilder::from_rect: same guarantees for a valid Rect *)
Theorem C14_from_rect_wf :
  forall l t r b rc, from_ltrb l t r b = Some rc ->
    StructWF (pverbs (path_from_rect rc)) (ppoints (path_from_rect rc)) /\
    Forall finite_pt (ppoints (path_from_rect rc)) /\ BBox (pbounds (path_from_rect rc)) (ppoints (path_from_rect rc)).
Proof. exact from_rect_wf. Qed.

(* Path::transform preserves all guarantees (any matrix, incl. non-finite entries: then None) *)
Theorem C14_transform_wf :
  forall t p p',
  StructWF (pverbs p) (ppoints p) ->
  Forall finite_pt (ppoints p) -> BBox (pbounds p) (ppoints p) ->
  path_transform t p = Some p' ->
  StructWF (pverbs p') (ppoints p') /\ Forall finite_pt (ppoints p') /\ BBox (pbounds p') (ppoints p').
Proof. exact path_transform_wf. Qed.

(* Path::clear + rebuild behaves like a new builder *)
(* PathBuilder::default() (the fourth way to obtain an empty builder) writes the state of PathBuilder::new(), as
   re-extracted from the source on every run (a derived Default would give move_to_required = false), and that is the
   model's default_builder *)
Theorem C14_default_is_new :
  TS.Gen.StrokerFields.builder_default_state = TS.Gen.StrokerFields.builder_new_state /\ default_builder = new_builder.
Proof. split; [vm_compute; reflexivity | reflexivity]. Qed.
Theorem C14_path_clear_is_new : forall p, path_clear p = new_builder.
Proof. exact path_clear_is_new. Qed.

(* segments() replays the verbs and never indexes out of range *)
Theorem C14_segments_replays_verbs :
  forall p, StructWF (pverbs p) (ppoints p) ->
  exists segs, segments p = Some segs /\ map seg_verb segs = pverbs p.
Proof. exact segments_replays_verbs. Qed.
Check C14_segments_replays_verbs :
  forall p, StructWF (pverbs p) (ppoints p) ->
  exists segs, segments p = Some segs /\ map seg_verb segs = pverbs p.

(* The raw-append push_path of the pinned tree violated the guarantees (the finding that the
   fix: commit repairs). *)
Theorem C14_push_path_raw_refuted :
  exists b other, Inv b /\ StructWF (pverbs other) (ppoints other) /\
    ~ (exists st, vscan (verbs (line_to (push_path_raw b other) zero_pt)) = Some st).
Proof. exact push_path_raw_refuted. Qed.

(* non-vacuity: a concrete non-trivial call sequence reaches finish = Some *)
Example C14_nonvacuous :
  exists p, finish (run conic_quads push_path
     [OMoveTo zero_pt; OLineTo (mkpt F32.one F32.one); OClose; OLineTo (mkpt F32.one F32.zero);
      OPushPath (path_from_rect (mkrect F32.zero F32.zero F32.one F32.one))]) = Some p
    /\ length (pverbs p) = 10.
Proof. eexists. split; vm_compute; reflexivity. Qed.
