(* C14 — every Path value satisfies the documented structural guarantees.
   This file contains only the property theorems: each is closed by [exact] of a lemma proved
   elsewhere, its statement is pinned by [Check], and its axioms are printed by the audit. *)
From Coq Require Import List.
From TS Require Import Base.F32 Model.Rect Model.PathBuilder Model.Conic Proofs.PathBuilderStruct.
Import ListNotations.

(* Every builder call sequence (any arguments, any conic oracle) followed by finish yields a
   path with >= 2 verbs, starting with Move, no Move-Move, no Close-Close, only Move after
   Close, and exactly as many points as the verbs require. *)
Theorem C14_finish_struct_wf :
  forall cq fp ops p,
    finish_gen fp (run cq push_path ops) = Some p -> StructWF (pverbs p) (ppoints p).
Proof. intros cq fp ops p. exact (finish_struct_wf fp _ p (run_inv cq ops)). Qed.
Check C14_finish_struct_wf :
  forall cq fp ops p,
    finish_gen fp (run cq push_path ops) = Some p -> StructWF (pverbs p) (ppoints p).

(* segments() replays the verbs and never indexes out of range *)
Theorem C14_segments_replays_verbs :
  forall p, StructWF (pverbs p) (ppoints p) ->
  exists segs, segments p = Some segs /\ map seg_verb segs = pverbs p.
Proof. exact segments_replays_verbs. Qed.
Check C14_segments_replays_verbs :
  forall p, StructWF (pverbs p) (ppoints p) ->
  exists segs, segments p = Some segs /\ map seg_verb segs = pverbs p.

(* The raw-append push_path of the pinned tree violated the guarantees (the finding that the
   fix: commit repairs). *)
Theorem C14_push_path_raw_refuted :
  exists b other, Inv b /\ StructWF (pverbs other) (ppoints other) /\
    ~ (exists st, vscan (verbs (line_to (push_path_raw b other) zero_pt)) = Some st).
Proof. exact push_path_raw_refuted. Qed.

(* non-vacuity: a concrete non-trivial call sequence reaches finish = Some *)
Example C14_nonvacuous :
  exists p, finish (run conic_quads push_path
     [OMoveTo zero_pt; OLineTo (mkpt F32.one F32.one); OClose; OLineTo (mkpt F32.one F32.zero);
      OPushPath (path_from_rect (mkrect F32.zero F32.zero F32.one F32.one))]) = Some p
    /\ length (pverbs p) = 10.
Proof. eexists. split; vm_compute; reflexivity. Qed.
