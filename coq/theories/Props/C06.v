(* C06 — a hairline follows the path: connected, within a pixel, clip-safe.
   Theorems about the integer DDA of the aliased hairline rasteriser (Model/Hairline.v, bit-exact model of
   src/scan/hairline.rs hair_line_rgn after float clipping).  The float clipping, curve subdivision, caps and
   the anti-aliased variant are tied to the code by the correspondence suites and the geometric oracle only
   (DESIGN.md, C06 partial). *)
From Coq Require Import ZArith List.
From TS Require Import Base.F32 Model.Rect Model.Edge Model.Hairline Model.LineClip Proofs.RectPoints Proofs.HairlineProofs Proofs.LineClipProofs Proofs.HairlineChain.
From TS Require Import Model.RunC06 Proofs.LineClipFinite Proofs.HairlineFinal.
Import ListNotations.
Local Open Scope Z_scope.

(* clip-safe: with the clip edges passed as maxx = 65536*W, maxy = 65536*H and end points delivered by the
   float clipper inside [0,64W] x [0,64H] (FDot6), every blit_h(x, y, 1) satisfies 0 <= x < W, 0 <= y < H *)
Theorem C06_hair_blits_in_clip :
  forall x0 y0 x1 y1 W H bl x y,
  0 <= x0 <= 64 * W -> 0 <= x1 <= 64 * W -> 0 <= y0 <= 64 * H -> 0 <= y1 <= 64 * H ->
  hair_line_fd6 x0 y0 x1 y1 (65536 * W) (65536 * H) = Some bl -> In (x, y) bl ->
  0 <= x < W /\ 0 <= y < H.
Proof. exact hair_blits_in_clip. Qed.
Check C06_hair_blits_in_clip :
  forall x0 y0 x1 y1 W H bl x y,
  0 <= x0 <= 64 * W -> 0 <= x1 <= 64 * W -> 0 <= y0 <= 64 * H -> 0 <= y1 <= 64 * H ->
  hair_line_fd6 x0 y0 x1 y1 (65536 * W) (65536 * H) = Some bl -> In (x, y) bl ->
  0 <= x < W /\ 0 <= y < H.

(* the walking loop alone: whatever the start, slope and bounds, a blit is non-negative in both coordinates,
   inside the major-axis range and below the minor-axis clip edge *)
Theorem C06_hair_loop_in_clip :
  forall hz i i1 st sl maxx maxy x y, i < i1 ->
  In (x, y) (hair_loop (Z.to_nat (i1 - i)) hz i i1 st sl maxx maxy []) ->
  0 <= x /\ 0 <= y /\
  (if hz then i <= x < i1 /\ y * 65536 < maxy else i <= y < i1 /\ x * 65536 < maxx).
Proof. exact hair_loop_in_clip. Qed.

(* no gap: when no guard rejects a step, the major-axis coordinates of the blits are exactly i, i+1, .., i1-1,
   in order, one blit each *)
Theorem C06_hair_covers :
  forall hz i i1 st sl maxx maxy, i < i1 ->
  (forall k, 0 <= k < i1 - i -> guard hz (i + k) (st + k * sl) maxx maxy = true) ->
  map (major hz) (hair_loop (Z.to_nat (i1 - i)) hz i i1 st sl maxx maxy [])
  = map (fun k => i + Z.of_nat k) (seq 0 (Z.to_nat (i1 - i))).
Proof. exact hair_covers. Qed.

(* connected: the slope along the major axis is at most one pixel per step, so consecutive blits are
   8-connected *)
Theorem C06_hair_slope_bounded :
  forall num den slope, Z.abs num <= Z.abs den -> den <> 0 -> fdot16_div num den = Some slope ->
  -65536 <= slope <= 65536.
Proof. exact hair_slope_bounded. Qed.
Theorem C06_hair_connected :
  forall st sl, -65536 <= sl <= 65536 -> -1 <= sar (st + sl) 16 - sar st 16 <= 1.
Proof. exact hair_connected. Qed.

(* within a pixel: the 16.16 slope is the truncated exact quotient, so after k steps the walked minor
   coordinate is within k/65536 pixel of the ideal line through the start value *)
Theorem C06_hair_tracks :
  forall num den slope st k, Z.abs num <= Z.abs den -> den <> 0 -> fdot16_div num den = Some slope -> 0 <= k ->
  Z.abs (((st + k * slope) - st) * den - k * num * 65536) <= k * Z.abs den.
Proof. exact hair_tracks. Qed.

(* the scalar line clipper in front of the DDA (bit-exact model of line_clipper::intersect, after fix a85a284): for any
   finite segment and any valid clip - and whatever the two intersection helpers compute, NaN included - no returned
   coordinate is strictly outside the clip.  (Before the fix the Y of an X chop came from the unchopped segment: a
   steep line crossing x = left by a denormal amount was handed on far below the clip and blitted in row `height`.) *)
Theorem C06_line_clip_not_outside :
  forall s0 s1 clip bnd p q,
  fin (px s0) -> fin (py s0) -> fin (px s1) -> fin (py s1) -> clip_ok clip ->
  from_ltrb (F32.min (px s0) (px s1)) (F32.min (py s0) (py s1)) (F32.max (px s0) (px s1)) (F32.max (py s0) (py s1)) = Some bnd ->
  intersect s0 s1 clip = Some (p, q) -> nout clip p /\ nout clip q.
Proof. exact intersect_not_outside. Qed.
Check C06_line_clip_not_outside :
  forall s0 s1 clip bnd p q,
  fin (px s0) -> fin (py s0) -> fin (px s1) -> fin (py s1) -> clip_ok clip ->
  from_ltrb (F32.min (px s0) (px s1)) (F32.min (py s0) (py s1)) (F32.max (px s0) (px s1)) (F32.max (py s0) (py s1)) = Some bnd ->
  intersect s0 s1 clip = Some (p, q) -> nout clip p /\ nout clip q.

(* END TO END for one clipped hairline segment (hair_line_rgn: chop to +-32767, chop to the clip, FDot6, walk): every blit
   is inside the w x h target, for all end points.  Side condition: the segment handed from the first chop to the second is
   finite with a valid bounding Rect (absence of overflow in the f64 intersection arithmetic is not proved). *)
Theorem C06_hair_line_rgn_seg_in_clip :
  forall w h p0 p1 bl x y,
  1 <= w <= 32767 -> 1 <= h <= 32767 ->
  (forall fb a b, fixed_bounds = Some fb -> intersect p0 p1 fb = Some (a, b) ->
     fin (px a) /\ fin (py a) /\ fin (px b) /\ fin (py b) /\
     exists bnd, from_ltrb (F32.min (px a) (px b)) (F32.min (py a) (py b)) (F32.max (px a) (px b)) (F32.max (py a) (py b)) = Some bnd) ->
  hair_line_rgn_seg w h p0 p1 = Some bl -> In (x, y) bl -> 0 <= x < w /\ 0 <= y < h.
Proof. exact hair_line_rgn_seg_in_clip. Qed.

(* the clipper's result is finite: its binary64 interpolation b0 + (t - a0) * (b1 - b0) / (a1 - a0) cannot overflow on binary32
   inputs (the divisor is at least 2^-13 in magnitude when it is not "nearly zero"), nothing is a NaN, and a non-NaN value
   that is not outside a finite interval is finite *)
Theorem C06_line_clip_finite :
  forall s0 s1 clip bnd p q,
  fin (px s0) -> fin (py s0) -> fin (px s1) -> fin (py s1) -> clip_ok clip ->
  from_ltrb (F32.min (px s0) (px s1)) (F32.min (py s0) (py s1)) (F32.max (px s0) (px s1)) (F32.max (py s0) (py s1)) = Some bnd ->
  intersect s0 s1 clip = Some (p, q) ->
  (fin (px p) /\ fin (py p) /\ fin (px q) /\ fin (py q)) /\ nout clip p /\ nout clip q.
Proof. exact intersect_finite. Qed.

(* END TO END without a side condition: a hairline segment between finite points whose bounding box is a valid Rect (every
   segment of a Path has one: C14) blits only inside the w x h target, whatever its coordinates *)
Theorem C06_hair_line_segment_in_clip :
  forall w h p0 p1 bnd bl x y,
  1 <= w <= 32767 -> 1 <= h <= 32767 ->
  fin (px p0) -> fin (py p0) -> fin (px p1) -> fin (py p1) ->
  from_ltrb (F32.min (px p0) (px p1)) (F32.min (py p0) (py p1)) (F32.max (px p0) (px p1)) (F32.max (py p0) (py p1)) = Some bnd ->
  hair_line_rgn_seg w h p0 p1 = Some bl -> In (x, y) bl -> 0 <= x < w /\ 0 <= y < h.
Proof. exact hair_line_segment_in_clip. Qed.

(* non-vacuity: a diagonal from (1.5,1.5) to (5.5,3.5) on an 8x8 clip *)
Example C06_example :
  hair_line_fd6 96 96 352 224 (65536 * 8) (65536 * 8) = Some [(2, 1); (3, 2); (4, 2); (5, 3)].
Proof. vm_compute. reflexivity. Qed.
