(* The same compositing formulas over Q (channels in [0,1]), hand-written SPEC, and the link
   to the integer form of Spec/BlendSpec.v:  255 * F (s/255) (d/255) (sa/255) (da/255) = N s d sa da / 255. *)
From Coq Require Import ZArith QArith Qminmax.
Local Open Scope Q_scope.

Definition F_clear (s d sa da : Q) : Q := 0.
Definition F_source_over (s d sa da : Q) := s + d * (1 - sa).
Definition F_destination_over (s d sa da : Q) := d + s * (1 - da).
Definition F_source_in (s d sa da : Q) := s * da.
Definition F_destination_in (s d sa da : Q) := d * sa.
Definition F_source_out (s d sa da : Q) := s * (1 - da).
Definition F_destination_out (s d sa da : Q) := d * (1 - sa).
Definition F_source_atop (s d sa da : Q) := s * da + d * (1 - sa).
Definition F_destination_atop (s d sa da : Q) := d * sa + s * (1 - da).
Definition F_xor (s d sa da : Q) := s * (1 - da) + d * (1 - sa).
Definition F_plus (s d sa da : Q) := Qmin (s + d) 1.
Definition F_modulate (s d sa da : Q) := s * d.
Definition F_screen (s d sa da : Q) := s + d - s * d.
Definition F_multiply (s d sa da : Q) := s * (1 - da) + d * (1 - sa) + s * d.
Definition F_darken (s d sa da : Q) := s + d - Qmax (s * da) (d * sa).
Definition F_lighten (s d sa da : Q) := s + d - Qmin (s * da) (d * sa).
Definition F_difference (s d sa da : Q) := s + d - 2 * Qmin (s * da) (d * sa).
Definition F_exclusion (s d sa da : Q) := s + d - 2 * (s * d).
Definition F_hard_light (s d sa da : Q) :=
  s * (1 - da) + d * (1 - sa) + (if Qle_bool (2 * s) sa then 2 * s * d else sa * da - 2 * (da - d) * (sa - s)).
Definition F_overlay (s d sa da : Q) :=
  s * (1 - da) + d * (1 - sa) + (if Qle_bool (2 * d) da then 2 * s * d else sa * da - 2 * (da - d) * (sa - s)).
