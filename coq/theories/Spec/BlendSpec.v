(* The compositing formulas (Porter-Duff / W3C Compositing and Blending Level 1) for
   premultiplied colours, written by hand as the SPEC.  Integer form: channel values are
   0..255 and [N_mode s d sa da] is 255 times the exact result in 0..255 units
   (result = N / 255), so no rationals are needed to state "within k/255". *)
From Coq Require Import ZArith String List.
Import ListNotations.
Local Open Scope Z_scope.

Definition premul (c a : Z) : Prop := 0 <= c <= a /\ a <= 255.

Definition N_clear (s d sa da : Z) := 0.
Definition N_source (s d sa da : Z) := 255 * s.
Definition N_destination (s d sa da : Z) := 255 * d.
Definition N_source_over (s d sa da : Z) := 255 * s + d * (255 - sa).
Definition N_destination_over (s d sa da : Z) := 255 * d + s * (255 - da).
Definition N_source_in (s d sa da : Z) := s * da.
Definition N_destination_in (s d sa da : Z) := d * sa.
Definition N_source_out (s d sa da : Z) := s * (255 - da).
Definition N_destination_out (s d sa da : Z) := d * (255 - sa).
Definition N_source_atop (s d sa da : Z) := s * da + d * (255 - sa).
Definition N_destination_atop (s d sa da : Z) := d * sa + s * (255 - da).
Definition N_xor (s d sa da : Z) := s * (255 - da) + d * (255 - sa).
Definition N_plus (s d sa da : Z) := Z.min (255 * (s + d)) (255 * 255).
Definition N_modulate (s d sa da : Z) := s * d.
Definition N_screen (s d sa da : Z) := 255 * (s + d) - s * d.
Definition N_multiply (s d sa da : Z) := s * (255 - da) + d * (255 - sa) + s * d.
Definition N_darken (s d sa da : Z) := 255 * (s + d) - Z.max (s * da) (d * sa).
Definition N_lighten (s d sa da : Z) := 255 * (s + d) - Z.min (s * da) (d * sa).
Definition N_difference (s d sa da : Z) := 255 * (s + d) - 2 * Z.min (s * da) (d * sa).
Definition N_exclusion (s d sa da : Z) := 255 * (s + d) - 2 * (s * d).
Definition N_hard_light (s d sa da : Z) :=
  s * (255 - da) + d * (255 - sa) + (if 2 * s <=? sa then 2 * s * d else sa * da - 2 * (sa - s) * (da - d)).
Definition N_overlay (s d sa da : Z) :=
  s * (255 - da) + d * (255 - sa) + (if 2 * d <=? da then 2 * s * d else sa * da - 2 * (sa - s) * (da - d)).

(* alpha of the result: the same formula applied to (sa, da) for the Porter-Duff modes,
   source-over alpha for the separable blend modes *)
Definition A_over (sa da : Z) := 255 * sa + da * (255 - sa).
