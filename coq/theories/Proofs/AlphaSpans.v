(* C03: from the supersampled spans of a destination row to the alpha of every pixel.
   Layer 1: a sequence of AlphaRuns::add calls, seen per pixel (dense view), adds each call's contribution to the
            pixels it touches; as long as the running sums stay within 256 (255 at a stop pixel) nothing overflows and
            the result is min(255, sum).
   Layer 2: the calls SuperBlitter::blit_h makes for sorted, disjoint spans satisfy those conditions, and the sum for a
            pixel is 16 * (covered sub-pixels) with a full sub-scanline of the last row counting 63. *)
From Coq Require Import ZArith Bool List Lia.
From TS Require Import Model.AlphaRuns Proofs.AlphaProofs Proofs.AlphaRefine Proofs.AlphaRefine2.
Import ListNotations.
Local Open Scope Z_scope.

(* ---- pointwise view of upd / upd_range ------------------------------------------------------------------------------------ *)
Lemma upd_getz l i f l' : upd l i f = Some l' ->
  forall j, getz l' j = if j =? i then bind (getz l i) f else getz l j.
Proof.
  unfold upd. intros H j. destruct (getz l i) as [a|] eqn:Ea; [|discriminate]. cbn [bind] in *.
  destruct (f a) as [v|] eqn:Ef; [|discriminate]. cbn [bind] in H.
  destruct (j =? i) eqn:E.
  - apply Z.eqb_eq in E. subst j. eapply getz_setz_same; eauto.
  - apply Z.eqb_neq in E. eapply getz_setz_other; eauto.
Qed.

Lemma upd_some l i f a v : getz l i = Some a -> f a = Some v -> exists l', upd l i f = Some l'.
Proof.
  intros Ha Hf. unfold upd. rewrite Ha. cbn [bind]. rewrite Hf. cbn [bind].
  destruct (getz_some_lt _ _ _ Ha) as (H0 & H1). apply setz_some. lia.
Qed.

Lemma upd_range_getz f : forall n l i l', upd_range l i n f = Some l' ->
  forall j, (i <= j < i + Z.of_nat n -> getz l' j = bind (getz l j) f) /\ (~ (i <= j < i + Z.of_nat n) -> getz l' j = getz l j).
Proof.
  induction n as [|n IH]; intros l i l' H j; cbn [upd_range] in H.
  - injection H as <-. split; [lia|reflexivity].
  - destruct (upd l i f) as [l1|] eqn:E1; [|discriminate]. cbn [bind] in H.
    destruct (IH l1 (i + 1) l' H j) as (I1 & I2). pose proof (upd_getz l i f l1 E1 j) as U.
    split; intros Hj.
    + destruct (Z.eq_dec j i) as [->|N].
      * rewrite I2 by lia. rewrite U, Z.eqb_refl. reflexivity.
      * rewrite I1 by lia. rewrite U. apply Z.eqb_neq in N. rewrite N. reflexivity.
    + rewrite I2 by lia. rewrite U. assert (N : j <> i) by lia. apply Z.eqb_neq in N. rewrite N. reflexivity.
Qed.

Lemma upd_range_some f : forall n l i,
  (forall j, i <= j < i + Z.of_nat n -> exists a v, getz l j = Some a /\ f a = Some v) ->
  exists l', upd_range l i n f = Some l'.
Proof.
  induction n as [|n IH]; intros l i H; cbn [upd_range]; [eexists; reflexivity|].
  destruct (H i ltac:(lia)) as (a & v & Ha & Hf). destruct (upd_some l i f a v Ha Hf) as (l1 & E1). rewrite E1. cbn [bind].
  apply IH. intros j Hj. destruct (H j ltac:(lia)) as (a' & v' & Ha' & Hf'). exists a', v'. split; [|exact Hf'].
  rewrite (upd_getz l i f l1 E1). destruct (j =? i) eqn:F; [apply Z.eqb_eq in F; lia | exact Ha'].
Qed.

(* ---- Layer 1: one add call, per pixel ------------------------------------------------------------------------------------- *)
Definition contrib (c : call) (q : Z) : Z :=
  let '(x, sa, mid, ea, maxv) := c in
  let x1 := x + flag sa in let x2 := x1 + mid in
  (if (q =? x) && negb (sa =? 0) then sa else 0) + (if (x1 <=? q) && (q <? x2) then maxv else 0) +
  (if (q =? x2) && negb (ea =? 0) then ea else 0).
(* the pixel where the call uses the unchecked-by-256 `+=` (its stop pixel), if any *)
Definition stop_px (c : call) : option Z :=
  let '(x, sa, mid, ea, maxv) := c in if ea =? 0 then None else Some (x + flag sa + mid).

Definition row_ok (d : list Z) : Prop := forall q a, getz d q = Some a -> 0 <= a <= 255.

Lemma co_min a : 0 <= a <= 256 -> catch_overflow a = Some (Z.min 255 a).
Proof. intros H. rewrite catch_overflow_spec by exact H. f_equal. lia. Qed.

Lemma dense_add_pointwise d x sa mid ea maxv :
  row_ok d -> 0 <= x -> 0 <= mid -> 0 <= sa -> 0 <= ea -> 0 <= maxv ->
  x + flag sa + mid + flag ea <= Z.of_nat (length d) ->
  (forall q a, getz d q = Some a -> a + contrib (x, sa, mid, ea, maxv) q <= 256) ->
  (ea <> 0 -> forall a, getz d (x + flag sa + mid) = Some a -> a + ea <= 255) ->
  exists d', dense_add d x sa mid ea maxv = Some d' /\ length d' = length d /\
             forall q a, getz d q = Some a -> getz d' q = Some (Z.min 255 (a + contrib (x, sa, mid, ea, maxv) q)).
Proof.
  intros Hok Hx Hm Hsa Hea Hmv Hlen Hsum Hstop.
  assert (InR : forall q, 0 <= q < Z.of_nat (length d) -> exists a, getz d q = Some a).
  { intros q Hq. unfold getz. destruct (q <? 0) eqn:E; [apply Z.ltb_lt in E; lia|].
    destruct (nth_error d (Z.to_nat q)) as [a|] eqn:N; [eauto|]. apply nth_error_None in N. lia. }
  assert (Hf : 0 <= flag sa <= 1 /\ 0 <= flag ea <= 1) by (unfold flag; destruct (sa =? 0), (ea =? 0); lia).
  unfold dense_add.
  (* start *)
  assert (S1 : exists d1, (if sa =? 0 then Some (d, x) else do d' <- upd d x (fun a => catch_overflow (a + sa)); Some (d', x + 1)) = Some (d1, x + flag sa) /\
            length d1 = length d /\
            forall q a, getz d q = Some a -> getz d1 q = Some (if (q =? x) && negb (sa =? 0) then Z.min 255 (a + sa) else a)).
  { unfold flag. destruct (sa =? 0) eqn:Es.
    - exists d. rewrite Z.add_0_r. split; [reflexivity|]. split; [reflexivity|]. intros q a Ha. rewrite andb_false_r. exact Ha.
    - apply Z.eqb_neq in Es. unfold flag in Hlen, Hf. destruct (sa =? 0) eqn:Es'; [apply Z.eqb_eq in Es'; lia|].
      destruct (InR x ltac:(lia)) as (a0 & Ha0).
      assert (B0 : a0 + sa <= 256).
      { pose proof (Hsum x a0 Ha0) as B. unfold contrib, flag in B. rewrite Es', Z.eqb_refl in B. cbn [negb andb] in B.
        destruct ((x + 1 <=? x) && (x <? x + 1 + mid)) eqn:E1; [apply andb_true_iff in E1; destruct E1 as (E1 & _); apply Z.leb_le in E1; lia|].
        destruct ((x =? x + 1 + mid) && negb (ea =? 0)) eqn:E2; [apply andb_true_iff in E2; destruct E2 as (E2 & _); apply Z.eqb_eq in E2; lia|]. lia. }
      pose proof (Hok x a0 Ha0) as R0.
      destruct (upd_some d x (fun a => catch_overflow (a + sa)) a0 _ Ha0 (co_min (a0 + sa) ltac:(lia))) as (d1 & E1).
      exists d1. rewrite E1. cbn [bind]. split; [reflexivity|]. split; [eapply upd_length; eauto|].
      intros q a Ha. rewrite (upd_getz _ _ _ _ E1). cbn [negb]. rewrite andb_true_r. destruct (q =? x) eqn:F.
      + apply Z.eqb_eq in F. subst q. rewrite Ha0 in Ha. injection Ha as <-. rewrite Ha0. cbn [bind]. apply co_min. lia.
      + exact Ha. }
  destruct S1 as (d1 & E1 & L1 & P1). rewrite E1. cbn [bind].
  remember (x + flag sa) as x1 eqn:Hx1.
  (* middle *)
  assert (S2 : exists d2, upd_range d1 x1 (Z.to_nat mid) (fun a => catch_overflow (a + maxv)) = Some d2 /\ length d2 = length d /\
            forall q a, getz d q = Some a ->
              getz d2 q = Some (if (x1 <=? q) && (q <? x1 + mid) then Z.min 255 (a + maxv)
                                else if (q =? x) && negb (sa =? 0) then Z.min 255 (a + sa) else a)).
  { assert (Mid : forall q, x1 <= q < x1 + mid -> exists a, getz d q = Some a /\ getz d1 q = Some a /\ a + maxv <= 256 /\ 0 <= a).
    { intros q Hq. destruct (InR q ltac:(lia)) as (a & Ha). exists a. split; [exact Ha|].
      assert (Nx : (q =? x) && negb (sa =? 0) = false).
      { destruct (sa =? 0) eqn:Es; [apply andb_false_r|]. rewrite Hx1 in Hq. unfold flag in Hq. rewrite Es in Hq.
        destruct (q =? x) eqn:F; [apply Z.eqb_eq in F; lia|reflexivity]. }
      split; [rewrite (P1 q a Ha), Nx; reflexivity|].
      pose proof (Hsum q a Ha) as B. unfold contrib in B. rewrite <- Hx1 in B. rewrite Nx in B.
      assert (M : (x1 <=? q) && (q <? x1 + mid) = true) by (apply andb_true_iff; split; [apply Z.leb_le | apply Z.ltb_lt]; lia).
      rewrite M in B.
      destruct ((q =? x1 + mid) && negb (ea =? 0)) eqn:E2; [apply andb_true_iff in E2; destruct E2 as (E2 & _); apply Z.eqb_eq in E2; lia|].
      pose proof (Hok q a Ha). lia. }
    destruct (upd_range_some (fun a => catch_overflow (a + maxv)) (Z.to_nat mid) d1 x1) as (d2 & E2).
    { intros j Hj. rewrite Z2Nat.id in Hj by lia. destruct (Mid j Hj) as (a & _ & Ha1 & B & A0). exists a, (Z.min 255 (a + maxv)). split; [exact Ha1|apply co_min; lia]. }
    exists d2. split; [exact E2|]. split.
    { assert (UR : forall f n l i l', upd_range l i n f = Some l' -> length l' = length l).
      { induction n as [|n IH]; intros l i l' H; cbn [upd_range] in H; [now injection H as <-|].
        destruct (upd l i f) as [l1|] eqn:E; [|discriminate]. cbn [bind] in H. rewrite (IH _ _ _ H). eapply upd_length; eauto. }
      rewrite (UR _ _ _ _ _ E2). exact L1. }
    intros q a Ha. destruct (upd_range_getz _ _ _ _ _ E2 q) as (G1 & G2). rewrite Z2Nat.id in G1, G2 by lia.
    destruct ((x1 <=? q) && (q <? x1 + mid)) eqn:M.
    - apply andb_true_iff in M. destruct M as (M1 & M2). apply Z.leb_le in M1. apply Z.ltb_lt in M2.
      rewrite G1 by lia. destruct (Mid q ltac:(lia)) as (a' & Ha' & Ha1 & B & A0). rewrite Ha in Ha'. injection Ha' as <-.
      rewrite Ha1. cbn [bind]. apply co_min. lia.
    - rewrite G2; [exact (P1 q a Ha)|]. intros (C1 & C2). apply andb_false_iff in M. destruct M as [M|M]; [apply Z.leb_gt in M|apply Z.ltb_ge in M]; lia. }
  destruct S2 as (d2 & E2 & L2 & P2). rewrite E2. cbn [bind].
  (* stop *)
  destruct (ea =? 0) eqn:Ee.
  - exists d2. split; [reflexivity|]. split; [exact L2|]. intros q a Ha. rewrite (P2 q a Ha). f_equal.
    unfold contrib. rewrite <- Hx1. rewrite Ee. cbn [negb]. rewrite andb_false_r, Z.add_0_r. pose proof (Hok q a Ha).
    destruct ((x1 <=? q) && (q <? x1 + mid)) eqn:M.
    + assert (Nx : (q =? x) && negb (sa =? 0) = false).
      { apply andb_true_iff in M. destruct M as (M1 & M2). apply Z.leb_le in M1.
        destruct (sa =? 0) eqn:Es; [apply andb_false_r|]. rewrite Hx1 in M1. unfold flag in M1. rewrite Es in M1.
        destruct (q =? x) eqn:F; [apply Z.eqb_eq in F; lia|reflexivity]. }
      rewrite Nx. lia.
    + destruct ((q =? x) && negb (sa =? 0)); lia.
  - pose proof Ee as Ee'. apply Z.eqb_neq in Ee. assert (Fe : flag ea = 1) by (unfold flag; rewrite Ee'; reflexivity).
    destruct (InR (x1 + mid) ltac:(lia)) as (a0 & Ha0). pose proof (Hstop Ee a0 Ha0) as B0. pose proof (Hok _ _ Ha0) as R0.
    assert (NM : (x1 <=? x1 + mid) && (x1 + mid <? x1 + mid) = false) by (apply andb_false_iff; right; apply Z.ltb_ge; lia).
    assert (NS : (x1 + mid =? x) && negb (sa =? 0) = false).
    { destruct (sa =? 0) eqn:Es; [apply andb_false_r|]. rewrite Hx1. unfold flag. rewrite Es. destruct (x + 1 + mid =? x) eqn:F; [apply Z.eqb_eq in F; lia|reflexivity]. }
    assert (G0 : getz d2 (x1 + mid) = Some a0) by (rewrite (P2 _ _ Ha0), NM, NS; reflexivity).
    assert (F0 : (fun a => if 255 <? a + ea then None else Some (a + ea)) a0 = Some (a0 + ea)).
    { cbv beta. destruct (255 <? a0 + ea) eqn:E; [apply Z.ltb_lt in E; lia|reflexivity]. }
    destruct (upd_some d2 (x1 + mid) _ a0 _ G0 F0) as (d3 & E3).
    exists d3. split; [exact E3|]. split; [rewrite (upd_length _ _ _ _ E3); exact L2|].
    intros q a Ha. rewrite (upd_getz _ _ _ _ E3). unfold contrib. rewrite <- Hx1. rewrite Ee'. cbn [negb]. rewrite andb_true_r.
    pose proof (Hok q a Ha). destruct (q =? x1 + mid) eqn:F.
    + apply Z.eqb_eq in F. subst q. rewrite Ha0 in Ha. injection Ha as <-. rewrite G0. cbn [bind]. rewrite F0. f_equal.
      rewrite NM, NS. lia.
    + rewrite (P2 q a Ha). f_equal.
      destruct ((x1 <=? q) && (q <? x1 + mid)) eqn:M.
      * assert (Nx : (q =? x) && negb (sa =? 0) = false).
        { apply andb_true_iff in M. destruct M as (M1 & M2). apply Z.leb_le in M1.
          destruct (sa =? 0) eqn:Es; [apply andb_false_r|]. rewrite Hx1 in M1. unfold flag in M1. rewrite Es in M1.
          destruct (q =? x) eqn:F'; [apply Z.eqb_eq in F'; lia|reflexivity]. }
        rewrite Nx. lia.
      * destruct ((q =? x) && negb (sa =? 0)); lia.
Qed.

(* ---- Layer 1: a sequence of calls ------------------------------------------------------------------------------------------ *)
Fixpoint sumc (calls : list call) (q : Z) : Z :=
  match calls with [] => 0 | c :: r => contrib c q + sumc r q end.

(* the conditions under which nothing overflows: [S] is the exact (unclamped) sum accumulated so far *)
Fixpoint seq_ok (S : Z -> Z) (W : Z) (calls : list call) : Prop :=
  match calls with
  | [] => True
  | (x, sa, mid, ea, maxv) :: r =>
      0 <= x /\ 0 <= mid /\ 0 <= sa /\ 0 <= ea /\ 0 <= maxv /\ x + flag sa + mid + flag ea <= W /\
      (forall q, 0 <= q < W -> S q + contrib (x, sa, mid, ea, maxv) q <= 256) /\
      (ea <> 0 -> S (x + flag sa + mid) + ea <= 255) /\
      seq_ok (fun q => S q + contrib (x, sa, mid, ea, maxv) q) W r
  end.

Definition Inv (d : list Z) (S : Z -> Z) (W : Z) : Prop :=
  Z.of_nat (length d) = W /\ forall q, 0 <= q < W -> getz d q = Some (Z.min 255 (S q)) /\ 0 <= S q.

Lemma contrib_nonneg x sa mid ea maxv q : 0 <= sa -> 0 <= ea -> 0 <= maxv -> 0 <= contrib (x, sa, mid, ea, maxv) q.
Proof.
  intros. unfold contrib.
  destruct ((q =? x) && negb (sa =? 0)), ((x + flag sa <=? q) && (q <? x + flag sa + mid)), ((q =? x + flag sa + mid) && negb (ea =? 0)); lia.
Qed.

Lemma getz_in_range (d : list Z) q a : getz d q = Some a -> 0 <= q < Z.of_nat (length d).
Proof. apply getz_some_lt. Qed.

Theorem dense_adds_pointwise : forall calls d S W,
  Inv d S W -> seq_ok S W calls ->
  exists d', dense_adds d calls = Some d' /\ Inv d' (fun q => S q + sumc calls q) W.
Proof.
  induction calls as [|[[[[x sa] mid] ea] maxv] r IH]; intros d S W HI HS; cbn [dense_adds sumc].
  - exists d. split; [reflexivity|]. destruct HI as (L & P). split; [exact L|]. intros q Hq. rewrite Z.add_0_r. exact (P q Hq).
  - cbn [seq_ok] in HS. destruct HS as (Hx & Hm & Hsa & Hea & Hmv & Hfit & Hsum & Hstop & Hrest).
    destruct HI as (L & P).
    assert (Hok : row_ok d).
    { intros q a Ha. pose proof (getz_in_range d q a Ha) as R. rewrite L in R. destruct (P q R) as (G & S0). rewrite G in Ha. injection Ha as <-. lia. }
    destruct (dense_add_pointwise d x sa mid ea maxv Hok Hx Hm Hsa Hea Hmv ltac:(lia)) as (d1 & E1 & L1 & P1).
    + intros q a Ha. pose proof (getz_in_range d q a Ha) as R. rewrite L in R. destruct (P q R) as (G & S0). rewrite G in Ha. injection Ha as <-.
      pose proof (Hsum q R). lia.
    + intros Ne a Ha. pose proof (getz_in_range d _ a Ha) as R. rewrite L in R. destruct (P _ R) as (G & S0). rewrite G in Ha. injection Ha as <-.
      pose proof (Hstop Ne). lia.
    + rewrite E1. cbn [bind].
      destruct (IH d1 (fun q => S q + contrib (x, sa, mid, ea, maxv) q) W) as (d' & E' & I').
      * split; [lia|]. intros q Hq. destruct (P q Hq) as (G & S0). rewrite (P1 q _ G).
        pose proof (contrib_nonneg x sa mid ea maxv q Hsa Hea Hmv) as C0. pose proof (Hsum q Hq) as C1.
        split; [f_equal; lia | lia].
      * exact Hrest.
      * exists d'. split; [exact E'|]. destruct I' as (L' & P'). split; [exact L'|].
        intros q Hq. destruct (P' q Hq) as (G & S0). rewrite G. split; [f_equal; f_equal; lia | lia].
Qed.

Lemma dense_adds_app : forall a b d, dense_adds d (a ++ b) = do d' <- dense_adds d a; dense_adds d' b.
Proof.
  induction a as [|[[[[x sa] mid] ea] maxv] r IH]; intros b d; cbn [app dense_adds bind]; [reflexivity|].
  destruct (dense_add d x sa mid ea maxv) as [d1|]; cbn [bind]; [apply IH|reflexivity].
Qed.
Lemma dense_subrows_concat : forall rows d, dense_subrows d rows = dense_adds d (concat rows).
Proof.
  induction rows as [|c r IH]; intros d; cbn [dense_subrows concat]; [reflexivity|].
  rewrite dense_adds_app. destruct (dense_adds d c) as [d1|]; cbn [bind]; [apply IH|reflexivity].
Qed.

(* ---- Layer 2: the call blit_h makes for one span --------------------------------------------------------------------------- *)
(* sub-pixels of destination pixel q covered by the supersampled span [x, x + w) *)
Definition cov (x w q : Z) : Z := Z.max 0 (Z.min (x + w) (4 * q + 4) - Z.max x (4 * q)).
Definition maxv_of (y : Z) : Z := if y mod 4 =? 3 then 63 else 64.

Lemma contrib_blit x w y q : 0 <= x -> 1 <= w -> 0 <= y ->
  contrib (blit_h_args x w y) q = if cov x w q =? 4 then maxv_of y else 16 * cov x w q.
Proof.
  intros Hx Hw Hy. unfold blit_h_args, ss_mask, ss_shift, ss_scale.
  rewrite !land3, !shr2 by lia.
  assert (MV : Z.shiftl 1 (8 - 2) - (y mod 4 + 1) / 4 = maxv_of y).
  { unfold maxv_of. pose proof (Z.mod_pos_bound y 4 ltac:(lia)).
    assert (y mod 4 = 0 \/ y mod 4 = 1 \/ y mod 4 = 2 \/ y mod 4 = 3) as [-> | [-> | [-> | ->]]] by lia; reflexivity. }
  rewrite MV. clear MV.
  pose proof (Z.div_mod x 4 ltac:(lia)) as D1. pose proof (Z.mod_pos_bound x 4 ltac:(lia)) as B1.
  pose proof (Z.div_mod (x + w) 4 ltac:(lia)) as D2. pose proof (Z.mod_pos_bound (x + w) 4 ltac:(lia)) as B2.
  set (xq := x / 4) in *. set (xr := x mod 4) in *. set (sq := (x + w) / 4) in *. set (sr := (x + w) mod 4) in *.
  assert (MVb : 63 <= maxv_of y <= 64) by (unfold maxv_of; destruct (y mod 4 =? 3); lia).
  unfold cov.
  destruct (sq - xq - 1 <? 0) eqn:E.
  - (* start and stop in the same pixel *)
    apply Z.ltb_lt in E. rewrite (partial_alpha_eq (sr - xr)) by lia. rewrite (partial_alpha_eq 0) by lia.
    assert ((sr - xr =? 4) = false) as -> by (apply Z.eqb_neq; lia). change (0 =? 4) with false. cbv iota.
    unfold contrib, flag.
    assert ((16 * (sr - xr) =? 0) = false) as -> by (apply Z.eqb_neq; lia). change (16 * 0 =? 0) with true. cbn [negb].
    rewrite andb_true_r, andb_false_r.
    destruct (q =? xq) eqn:F.
    + apply Z.eqb_eq in F. subst q.
      assert (((xq + 1 <=? xq) && (xq <? xq + 1 + 0)) = false) as -> by (apply andb_false_iff; left; apply Z.leb_gt; lia).
      assert (Z.max 0 (Z.min (x + w) (4 * xq + 4) - Z.max x (4 * xq)) = sr - xr) as -> by lia.
      assert ((sr - xr =? 4) = false) as -> by (apply Z.eqb_neq; lia). lia.
    + apply Z.eqb_neq in F.
      assert (((xq + 1 <=? q) && (q <? xq + 1 + 0)) = false) as ->.
      { destruct (xq + 1 <=? q) eqn:A; [|reflexivity]. apply Z.leb_le in A. cbn [andb]. apply Z.ltb_ge. lia. }
      assert (Z.max 0 (Z.min (x + w) (4 * q + 4) - Z.max x (4 * q)) = 0) as -> by lia. reflexivity.
  - apply Z.ltb_ge in E. destruct (xr =? 0) eqn:F0.
    + (* aligned start: n + 1 full pixels, then the stop pixel *)
      apply Z.eqb_eq in F0. rewrite F0. rewrite (partial_alpha_eq 0) by lia. rewrite (partial_alpha_eq sr) by lia.
      change (0 =? 4) with false. assert ((sr =? 4) = false) as -> by (apply Z.eqb_neq; lia). cbv iota.
      unfold contrib, flag. change (16 * 0 =? 0) with true. cbn [negb]. rewrite andb_false_r. rewrite !Z.add_0_r.
      destruct ((xq <=? q) && (q <? xq + (sq - xq - 1 + 1))) eqn:M.
      * apply andb_true_iff in M. destruct M as (M1 & M2). apply Z.leb_le in M1. apply Z.ltb_lt in M2.
        assert ((q =? xq + (sq - xq - 1 + 1)) = false) as -> by (apply Z.eqb_neq; lia). cbn [andb].
        assert (Z.max 0 (Z.min (x + w) (4 * q + 4) - Z.max x (4 * q)) = 4) as -> by lia. change (4 =? 4) with true. cbv iota. lia.
      * destruct (q =? xq + (sq - xq - 1 + 1)) eqn:G.
        -- apply Z.eqb_eq in G. assert (Z.max 0 (Z.min (x + w) (4 * q + 4) - Z.max x (4 * q)) = sr) as -> by lia.
           assert ((sr =? 4) = false) as -> by (apply Z.eqb_neq; lia).
           destruct (16 * sr =? 0) eqn:Z0; cbn [negb andb]; [apply Z.eqb_eq in Z0; lia | lia].
        -- apply Z.eqb_neq in G. cbn [andb].
           assert (Z.max 0 (Z.min (x + w) (4 * q + 4) - Z.max x (4 * q)) = 0) as ->.
           { apply andb_false_iff in M. destruct M as [M|M]; [apply Z.leb_gt in M | apply Z.ltb_ge in M]; lia. }
           reflexivity.
    + (* partial start pixel, n full pixels, the stop pixel *)
      apply Z.eqb_neq in F0. rewrite (partial_alpha_eq (4 - xr)) by lia. rewrite (partial_alpha_eq sr) by lia.
      assert ((4 - xr =? 4) = false) as -> by (apply Z.eqb_neq; lia). assert ((sr =? 4) = false) as -> by (apply Z.eqb_neq; lia). cbv iota.
      unfold contrib, flag. assert ((16 * (4 - xr) =? 0) = false) as -> by (apply Z.eqb_neq; lia). cbn [negb]. rewrite andb_true_r.
      destruct (q =? xq) eqn:G0.
      * apply Z.eqb_eq in G0. subst q.
        assert (((xq + 1 <=? xq) && (xq <? xq + 1 + (sq - xq - 1))) = false) as -> by (apply andb_false_iff; left; apply Z.leb_gt; lia).
        assert ((xq =? xq + 1 + (sq - xq - 1)) = false) as -> by (apply Z.eqb_neq; lia). cbn [andb].
        assert (Z.max 0 (Z.min (x + w) (4 * xq + 4) - Z.max x (4 * xq)) = 4 - xr) as -> by lia.
        assert ((4 - xr =? 4) = false) as -> by (apply Z.eqb_neq; lia). lia.
      * apply Z.eqb_neq in G0.
        destruct ((xq + 1 <=? q) && (q <? xq + 1 + (sq - xq - 1))) eqn:M.
        -- apply andb_true_iff in M. destruct M as (M1 & M2). apply Z.leb_le in M1. apply Z.ltb_lt in M2.
           assert ((q =? xq + 1 + (sq - xq - 1)) = false) as -> by (apply Z.eqb_neq; lia). cbn [andb].
           assert (Z.max 0 (Z.min (x + w) (4 * q + 4) - Z.max x (4 * q)) = 4) as -> by lia. change (4 =? 4) with true. cbv iota. lia.
        -- destruct (q =? xq + 1 + (sq - xq - 1)) eqn:G.
           ++ apply Z.eqb_eq in G. assert (Z.max 0 (Z.min (x + w) (4 * q + 4) - Z.max x (4 * q)) = sr) as -> by lia.
              assert ((sr =? 4) = false) as -> by (apply Z.eqb_neq; lia).
              destruct (16 * sr =? 0) eqn:Z0; cbn [negb andb]; [apply Z.eqb_eq in Z0; lia | lia].
           ++ apply Z.eqb_neq in G. cbn [andb].
              assert (Z.max 0 (Z.min (x + w) (4 * q + 4) - Z.max x (4 * q)) = 0) as ->.
              { apply andb_false_iff in M. destruct M as [M|M]; [apply Z.leb_gt in M | apply Z.ltb_ge in M]; lia. }
              reflexivity.
Qed.

(* ---- Layer 2: a sub-scanline of sorted, disjoint spans ---------------------------------------------------------------------- *)
Definition span := (Z * Z)%type.   (* x, width in supersampled coordinates (relative to the clip's left edge) *)
Fixpoint spans_ok (lo W4 : Z) (l : list span) : Prop :=
  match l with
  | [] => True
  | (x, w) :: r => lo <= x /\ 1 <= w /\ x + w <= W4 /\ spans_ok (x + w) W4 r
  end.
Definition span_calls (y : Z) (l : list span) : list call := map (fun s => blit_h_args (fst s) (snd s) y) l.
Fixpoint covs (l : list span) (q : Z) : Z := match l with [] => 0 | (x, w) :: r => cov x w q + covs r q end.

(* sub-pixels of pixel q that lie left of the supersampled position lo *)
Definition used (lo q : Z) : Z := Z.max 0 (Z.min 4 (lo - 4 * q)).

Lemma cov_used x w q : 0 <= x -> 1 <= w -> cov x w q = used (x + w) q - used x q.
Proof. intros. unfold cov, used. lia. Qed.
Lemma used_mono lo lo' q : lo <= lo' -> used lo q <= used lo' q.
Proof. unfold used. lia. Qed.
Lemma used_range lo q : 0 <= used lo q <= 4.
Proof. unfold used. lia. Qed.

Lemma contrib_le_cov x w y q : 0 <= x -> 1 <= w -> 0 <= y ->
  0 <= contrib (blit_h_args x w y) q <= 16 * cov x w q /\ 16 * cov x w q - 1 <= contrib (blit_h_args x w y) q.
Proof.
  intros Hx Hw Hy. rewrite contrib_blit by assumption.
  assert (0 <= cov x w q <= 4) by (unfold cov; lia).
  unfold maxv_of. destruct (cov x w q =? 4) eqn:E; [apply Z.eqb_eq in E; rewrite E; destruct (y mod 4 =? 3); lia | lia].
Qed.

(* shape of the call made for a span *)
Lemma blit_shape x w y : 0 <= x -> 1 <= w -> 0 <= y ->
  let '(px, sa, n, ea, mv) := blit_h_args x w y in
  px = x / 4 /\ 0 <= n /\ 0 <= sa <= 48 /\ 0 <= ea <= 48 /\ 63 <= mv <= 64 /\
  px + flag sa + n + flag ea <= (x + w + 3) / 4 /\
  (ea <> 0 -> px + flag sa + n = (x + w) / 4 /\ x / 4 < (x + w) / 4) /\
  ((n =? 0) && (ea =? 0) = false -> px + flag sa + n = (x + w) / 4).
Proof.
  intros Hx Hw Hy. unfold blit_h_args, ss_mask, ss_shift, ss_scale.
  rewrite !land3, !shr2 by lia.
  assert (MV : 63 <= Z.shiftl 1 (8 - 2) - (y mod 4 + 1) / 4 <= 64).
  { pose proof (Z.mod_pos_bound y 4 ltac:(lia)).
    assert (y mod 4 = 0 \/ y mod 4 = 1 \/ y mod 4 = 2 \/ y mod 4 = 3) as [-> | [-> | [-> | ->]]] by lia; cbn; lia. }
  pose proof (Z.div_mod x 4 ltac:(lia)) as D1. pose proof (Z.mod_pos_bound x 4 ltac:(lia)) as B1.
  pose proof (Z.div_mod (x + w) 4 ltac:(lia)) as D2. pose proof (Z.mod_pos_bound (x + w) 4 ltac:(lia)) as B2.
  assert (D3 : (x + w + 3) / 4 = (x + w) / 4 + (if (x + w) mod 4 =? 0 then 0 else 1)).
  { pose proof (Z.div_mod (x + w + 3) 4 ltac:(lia)). pose proof (Z.mod_pos_bound (x + w + 3) 4 ltac:(lia)).
    destruct ((x + w) mod 4 =? 0) eqn:E; [apply Z.eqb_eq in E | apply Z.eqb_neq in E]; lia. }
  rewrite D3. clear D3.
  set (xq := x / 4) in *. set (xr := x mod 4) in *. set (sq := (x + w) / 4) in *. set (sr := (x + w) mod 4) in *.
  destruct (sq - xq - 1 <? 0) eqn:E.
  - cbv beta iota zeta. apply Z.ltb_lt in E. rewrite (partial_alpha_eq (sr - xr)) by lia. rewrite (partial_alpha_eq 0) by lia.
    assert ((sr - xr =? 4) = false) as -> by (apply Z.eqb_neq; lia). change (0 =? 4) with false. cbv iota.
    unfold flag. assert ((16 * (sr - xr) =? 0) = false) as -> by (apply Z.eqb_neq; lia). change (16 * 0 =? 0) with true. change (0 =? 0) with true. cbn [andb].
    assert ((sr =? 0) = false) as -> by (apply Z.eqb_neq; lia).
    repeat split; try lia; try discriminate.
  - apply Z.ltb_ge in E. destruct (xr =? 0) eqn:F0.
    + cbv beta iota zeta. apply Z.eqb_eq in F0. rewrite F0. rewrite (partial_alpha_eq 0) by lia. rewrite (partial_alpha_eq sr) by lia.
      change (0 =? 4) with false. assert ((sr =? 4) = false) as -> by (apply Z.eqb_neq; lia). cbv iota.
      unfold flag. change (16 * 0 =? 0) with true.
      destruct (sr =? 0) eqn:G; [apply Z.eqb_eq in G; rewrite G; change (16 * 0 =? 0) with true | apply Z.eqb_neq in G; assert ((16 * sr =? 0) = false) as -> by (apply Z.eqb_neq; lia)];
        repeat split; try lia.
    + cbv beta iota zeta. apply Z.eqb_neq in F0. rewrite (partial_alpha_eq (4 - xr)) by lia. rewrite (partial_alpha_eq sr) by lia.
      assert ((4 - xr =? 4) = false) as -> by (apply Z.eqb_neq; lia). assert ((sr =? 4) = false) as -> by (apply Z.eqb_neq; lia). cbv iota.
      unfold flag. assert ((16 * (4 - xr) =? 0) = false) as -> by (apply Z.eqb_neq; lia).
      destruct (sr =? 0) eqn:G; [apply Z.eqb_eq in G; rewrite G; change (16 * 0 =? 0) with true | apply Z.eqb_neq in G; assert ((16 * sr =? 0) = false) as -> by (apply Z.eqb_neq; lia)];
        repeat split; try lia.
Qed.

Lemma covs_room : forall l lo W4 q, spans_ok lo W4 l -> 0 <= lo -> 0 <= covs l q <= 4 - used lo q.
Proof.
  induction l as [|[x w] r IH]; intros lo W4 q H Hlo; cbn [covs spans_ok] in *.
  - pose proof (used_range lo q). lia.
  - destruct H as (H1 & H2 & H3 & H4). pose proof (IH (x + w) W4 q H4 ltac:(lia)) as I.
    rewrite cov_used by lia. pose proof (used_mono lo x q H1). pose proof (used_mono x (x + w) q ltac:(lia)). lia.
Qed.

Lemma sumc_bounds y : forall l lo W4 q, spans_ok lo W4 l -> 0 <= lo -> 0 <= y ->
  0 <= sumc (span_calls y l) q <= 16 * covs l q /\
  16 * covs l q - (if 4 <=? covs l q then 1 else 0) <= sumc (span_calls y l) q /\
  (y mod 4 <> 3 -> sumc (span_calls y l) q = 16 * covs l q).
Proof.
  induction l as [|[x w] r IH]; intros lo W4 q H Hlo Hy; cbn [covs spans_ok span_calls map sumc fst snd] in *.
  - repeat split; try lia. destruct (4 <=? 0) eqn:E; [apply Z.leb_le in E; lia | lia].
  - destruct H as (H1 & H2 & H3 & H4). fold (span_calls y r).
    destruct (IH (x + w) W4 q H4 ltac:(lia) Hy) as ((I1 & I2) & I3 & I4).
    pose proof (covs_room r (x + w) W4 q H4 ltac:(lia)) as R.
    destruct (contrib_le_cov x w y q ltac:(lia) H2 Hy) as ((C1 & C2) & C3).
    assert (Cr : 0 <= cov x w q <= used (x + w) q) by (rewrite cov_used by lia; pose proof (used_range x q); pose proof (used_mono x (x + w) q ltac:(lia)); lia).
    split; [lia|]. split.
    + rewrite contrib_blit by (lia || assumption). rewrite contrib_blit in C1, C2, C3 by (lia || assumption).
      destruct (cov x w q =? 4) eqn:E4.
      * apply Z.eqb_eq in E4. assert (covs r q = 0) by lia.
        assert ((4 <=? cov x w q + covs r q) = true) as -> by (apply Z.leb_le; lia). unfold maxv_of in *. destruct (y mod 4 =? 3); lia.
      * apply Z.eqb_neq in E4. destruct (4 <=? covs r q) eqn:A.
        -- apply Z.leb_le in A. assert ((4 <=? cov x w q + covs r q) = true) as -> by (apply Z.leb_le; lia). lia.
        -- destruct (4 <=? cov x w q + covs r q); lia.
    + intros N3. rewrite (I4 N3). rewrite contrib_blit by (lia || assumption). unfold maxv_of.
      destruct (cov x w q =? 4) eqn:E4; [apply Z.eqb_eq in E4; rewrite E4; apply Z.eqb_neq in N3; rewrite N3; lia | lia].
Qed.

Lemma seq_ok_ext W : forall l S S', (forall q, S q = S' q) -> seq_ok S W l -> seq_ok S' W l.
Proof.
  induction l as [|[[[[x sa] mid] ea] maxv] r IH]; intros S S' E H; cbn [seq_ok] in *; [exact I|].
  destruct H as (B1 & B2 & B3 & B4 & B5 & B6 & B7 & B8 & B9). repeat (split; [assumption|]). split.
  { intros q Hq. rewrite <- E. exact (B7 q Hq). } split.
  { intros N. rewrite <- E. exact (B8 N). }
  apply (IH (fun q => S q + contrib (x, sa, mid, ea, maxv) q)); [|exact B9]. intros q. cbv beta. rewrite E. reflexivity.
Qed.

Lemma seq_ok_app W : forall a b S, seq_ok S W a -> seq_ok (fun q => S q + sumc a q) W b -> seq_ok S W (a ++ b).
Proof.
  induction a as [|[[[[x sa] mid] ea] maxv] r IH]; intros b S Ha Hb; cbn [app seq_ok sumc] in *.
  - apply (seq_ok_ext W b (fun q => S q + 0)); [intros; lia | exact Hb].
  - destruct Ha as (B1 & B2 & B3 & B4 & B5 & B6 & B7 & B8 & B9). repeat (split; [assumption|]).
    apply IH; [exact B9|]. apply (seq_ok_ext W b (fun q => S q + (contrib (x, sa, mid, ea, maxv) q + sumc r q))); [intros; lia | exact Hb].
Qed.

Lemma sumc_app : forall a b q, sumc (a ++ b) q = sumc a q + sumc b q.
Proof. induction a as [|c r IH]; intros b q; cbn [app sumc]; [lia | rewrite IH; lia]. Qed.

(* one sub-scanline: the calls made for its spans never overflow, given that every pixel holds at most B <= 192 so far *)
Lemma spans_seq_ok y W B : 0 <= y -> 0 <= B -> B + 64 <= 256 ->
  forall l lo S, spans_ok lo (4 * W) l -> 0 <= lo ->
  (forall q, 0 <= q < W -> 0 <= S q <= B + 16 * used lo q) ->
  seq_ok S W (span_calls y l).
Proof.
  intros Hy HB HB2. induction l as [|[x w] r IH]; intros lo S H Hlo HS; cbn [span_calls map seq_ok spans_ok fst snd] in *; [exact I|].
  destruct H as (H1 & H2 & H3 & H4). fold (span_calls y r).
  pose proof (blit_shape x w y ltac:(lia) H2 Hy) as SH.
  assert (CB : forall q, 0 <= contrib (blit_h_args x w y) q <= 16 * cov x w q) by (intros q; apply contrib_le_cov; lia).
  destruct (blit_h_args x w y) as [[[[px sa] n] ea] mv] eqn:EB.
  destruct SH as (S1 & S2 & S3 & S4 & S5 & S6 & S7 & S8).
  assert (Hfit : (x + w + 3) / 4 <= W) by (assert ((x + w + 3) / 4 < W + 1) by (apply Z.div_lt_upper_bound; lia); lia).
  assert (Hpx : 0 <= px) by (rewrite S1; apply Z.div_pos; lia).
  split; [exact Hpx|]. split; [lia|]. split; [lia|]. split; [lia|]. split; [lia|]. split; [lia|].
  assert (Step : forall q, 0 <= q < W -> 0 <= S q + contrib (px, sa, n, ea, mv) q <= B + 16 * used (x + w) q).
  { intros q Hq. destruct (HS q Hq) as (A1 & A2). destruct (CB q) as (C1 & C2). rewrite cov_used in C2 by lia.
    pose proof (used_mono lo x q H1). lia. }
  split; [|split].
  - intros q Hq. pose proof (Step q Hq). pose proof (used_range (x + w) q). lia.
  - intros Ne. destruct (S7 Ne) as (Q2 & Q3).
    assert (Ff : flag ea = 1) by (unfold flag; destruct (ea =? 0) eqn:E; [apply Z.eqb_eq in E; lia|reflexivity]).
    assert (Hq2 : 0 <= px + flag sa + n < W) by (unfold flag in *; destruct (sa =? 0); lia).
    destruct (HS _ Hq2) as (A1 & A2).
    assert (U0 : used lo (px + flag sa + n) = 0).
    { rewrite Q2. unfold used. assert (x < 4 * ((x + w) / 4)) by (pose proof (Z.div_mod x 4 ltac:(lia)); pose proof (Z.mod_pos_bound x 4 ltac:(lia)); lia). lia. }
    lia.
  - apply (IH (x + w)); [exact H4 | lia | exact Step].
Qed.

Lemma spans_calls_ok y W : 0 <= y ->
  forall l lo lp, spans_ok lo (4 * W) l -> 0 <= lo -> 4 * lp <= lo -> calls_ok lp W (span_calls y l).
Proof.
  intros Hy. induction l as [|[x w] r IH]; intros lo lp H Hlo Hlp; cbn [span_calls map calls_ok spans_ok fst snd] in *; [exact I|].
  destruct H as (H1 & H2 & H3 & H4). fold (span_calls y r).
  pose proof (blit_shape x w y ltac:(lia) H2 Hy) as SH.
  destruct (blit_h_args x w y) as [[[[px sa] n] ea] mv] eqn:EB.
  destruct SH as (S1 & S2 & S3 & S4 & S5 & S6 & S7 & S8).
  assert (Hfit : (x + w + 3) / 4 <= W) by (assert ((x + w + 3) / 4 < W + 1) by (apply Z.div_lt_upper_bound; lia); lia).
  split; [rewrite S1; apply Z.div_le_lower_bound; lia|]. split; [exact S2|]. split; [lia|].
  apply (IH (x + w)); [exact H4 | lia|]. unfold next_lo.
  destruct ((n =? 0) && (ea =? 0)) eqn:T; [lia|]. rewrite (S8 eq_refl).
  pose proof (Z.div_mod (x + w) 4 ltac:(lia)). pose proof (Z.mod_pos_bound (x + w) 4 ltac:(lia)). lia.
Qed.

(* ---- a destination row: four sub-scanlines of sorted, disjoint spans ------------------------------------------------------- *)
Definition row_calls (Y : Z) (l0 l1 l2 l3 : list span) : list (list call) :=
  [span_calls (4 * Y) l0; span_calls (4 * Y + 1) l1; span_calls (4 * Y + 2) l2; span_calls (4 * Y + 3) l3].

Lemma getz_repeat0 n q : 0 <= q < Z.of_nat n -> getz (repeat 0 n) q = Some 0.
Proof.
  intros H. unfold getz. destruct (q <? 0) eqn:E; [apply Z.ltb_lt in E; lia|].
  assert (G : forall n k, (k < n)%nat -> nth_error (repeat 0 n) k = Some 0).
  { induction n0 as [|n0 IHn]; intros k Hk; [lia|]. destruct k; [reflexivity|]. cbn [repeat nth_error]. apply IHn. lia. }
  apply G. lia.
Qed.

Theorem row_alpha W Y l0 l1 l2 l3 :
  0 < W -> 0 <= Y -> spans_ok 0 (4 * W) l0 -> spans_ok 0 (4 * W) l1 -> spans_ok 0 (4 * W) l2 -> spans_ok 0 (4 * W) l3 ->
  let rows := row_calls Y l0 l1 l2 l3 in
  Forall (calls_ok 0 W) rows /\
  exists d, dense_subrows (repeat 0 (Z.to_nat W)) rows = Some d /\
    forall q, 0 <= q < W -> exists a, getz d q = Some a /\
      let K := covs l0 q + covs l1 q + covs l2 q + covs l3 q in
      0 <= K <= 16 /\ 0 <= a <= 255 /\ Z.abs (16 * a - 255 * K) <= 16 /\ (K = 0 -> a = 0) /\ (K = 16 -> a = 255).
Proof.
  intros HW HY H0 H1 H2 H3. cbv zeta. unfold row_calls. split.
  - repeat constructor; eapply spans_calls_ok; eauto; lia.
  - set (c0 := span_calls (4 * Y) l0). set (c1 := span_calls (4 * Y + 1) l1).
    set (c2 := span_calls (4 * Y + 2) l2). set (c3 := span_calls (4 * Y + 3) l3).
    assert (B : forall y l q, 0 <= y -> spans_ok 0 (4 * W) l -> 0 <= sumc (span_calls y l) q <= 64 /\ 0 <= covs l q <= 4).
    { intros y l q Hy Hl. destruct (sumc_bounds y l 0 (4 * W) q Hl ltac:(lia) Hy) as ((A1 & A2) & _).
      pose proof (covs_room l 0 (4 * W) q Hl ltac:(lia)) as R. pose proof (used_range 0 q). lia. }
    assert (Us : forall q, 0 <= q -> used 0 q = 0) by (intros q Hq0; unfold used; lia).
    assert (SQ : seq_ok (fun _ => 0) W (c0 ++ c1 ++ c2 ++ c3 ++ [])).
    { apply seq_ok_app; [apply (spans_seq_ok (4 * Y) W 0 ltac:(lia) ltac:(lia) ltac:(lia) l0 0); [exact H0|lia|intros q Hq; rewrite Us by lia; lia]|].
      apply seq_ok_app; [apply (spans_seq_ok (4 * Y + 1) W 64 ltac:(lia) ltac:(lia) ltac:(lia) l1 0); [exact H1|lia|]|].
      { intros q Hq. rewrite Us by lia. destruct (B (4 * Y) l0 q ltac:(lia) H0). unfold c0. lia. }
      apply seq_ok_app; [apply (spans_seq_ok (4 * Y + 2) W 128 ltac:(lia) ltac:(lia) ltac:(lia) l2 0); [exact H2|lia|]|].
      { intros q Hq. rewrite Us by lia. destruct (B (4 * Y) l0 q ltac:(lia) H0). destruct (B (4 * Y + 1) l1 q ltac:(lia) H1). unfold c0, c1. lia. }
      apply seq_ok_app; [apply (spans_seq_ok (4 * Y + 3) W 192 ltac:(lia) ltac:(lia) ltac:(lia) l3 0); [exact H3|lia|]|exact I].
      intros q Hq. rewrite Us by lia. destruct (B (4 * Y) l0 q ltac:(lia) H0). destruct (B (4 * Y + 1) l1 q ltac:(lia) H1).
      destruct (B (4 * Y + 2) l2 q ltac:(lia) H2). unfold c0, c1, c2. lia. }
    assert (I0 : Inv (repeat 0 (Z.to_nat W)) (fun _ => 0) W).
    { split; [rewrite repeat_length; lia|]. intros q Hq. split; [|lia]. rewrite getz_repeat0 by lia. reflexivity. }
    destruct (dense_adds_pointwise _ _ _ _ I0 SQ) as (d & E & (L & P)).
    exists d. split; [rewrite dense_subrows_concat; cbn [concat]; exact E|].
    intros q Hq. destruct (P q Hq) as (G & S0). eexists. split; [exact G|]. cbv zeta.
    subst c0 c1 c2 c3. rewrite !sumc_app in *. cbn [sumc] in *.
    destruct (sumc_bounds (4 * Y) l0 0 (4 * W) q H0 ltac:(lia) ltac:(lia)) as ((A1 & A2) & A3 & A4).
    destruct (sumc_bounds (4 * Y + 1) l1 0 (4 * W) q H1 ltac:(lia) ltac:(lia)) as ((B1 & B2) & B3 & B4).
    destruct (sumc_bounds (4 * Y + 2) l2 0 (4 * W) q H2 ltac:(lia) ltac:(lia)) as ((C1 & C2) & C3 & C4).
    destruct (sumc_bounds (4 * Y + 3) l3 0 (4 * W) q H3 ltac:(lia) ltac:(lia)) as ((D1 & D2) & D3 & D4).
    pose proof (covs_room l0 0 (4 * W) q H0 ltac:(lia)) as R0. pose proof (covs_room l1 0 (4 * W) q H1 ltac:(lia)) as R1.
    pose proof (covs_room l2 0 (4 * W) q H2 ltac:(lia)) as R2. pose proof (covs_room l3 0 (4 * W) q H3 ltac:(lia)) as R3.
    rewrite (Us q ltac:(lia)) in *.
    assert (M0 : (4 * Y) mod 4 <> 3) by (rewrite Z.mul_comm, Z_mod_mult; lia).
    assert (M1 : (4 * Y + 1) mod 4 <> 3) by (rewrite Z.add_comm, Z.mul_comm, Z_mod_plus_full; cbn; lia).
    assert (M2 : (4 * Y + 2) mod 4 <> 3) by (rewrite Z.add_comm, Z.mul_comm, Z_mod_plus_full; cbn; lia).
    rewrite (A4 M0), (B4 M1), (C4 M2) in *.
    destruct (4 <=? covs l3 q) eqn:E4; [apply Z.leb_le in E4 | apply Z.leb_gt in E4]; lia.
Qed.

(* the same for the run-length structure the blitter really keeps: AlphaRuns never panics on such a row and its
   per-pixel view carries exactly those alphas *)
Corollary row_alpha_runs W Y l0 l1 l2 l3 :
  0 < W -> 0 <= Y -> spans_ok 0 (4 * W) l0 -> spans_ok 0 (4 * W) l1 -> spans_ok 0 (4 * W) l2 -> spans_ok 0 (4 * W) l3 ->
  exists s' d, run_subrows (ar_new W) (row_calls Y l0 l1 l2 l3) = Some s' /\ dense s' = Some d /\
    forall q, 0 <= q < W -> exists a, getz d q = Some a /\
      let K := covs l0 q + covs l1 q + covs l2 q + covs l3 q in
      0 <= K <= 16 /\ 0 <= a <= 255 /\ Z.abs (16 * a - 255 * K) <= 16 /\ (K = 0 -> a = 0) /\ (K = 16 -> a = 255).
Proof.
  intros HW HY H0 H1 H2 H3.
  destruct (row_alpha W Y l0 l1 l2 l3 HW HY H0 H1 H2 H3) as (C & d & E & P).
  pose proof (row_refines_dense W (row_calls Y l0 l1 l2 l3) HW C) as R.
  destruct (run_subrows (ar_new W) (row_calls Y l0 l1 l2 l3)) as [s'|].
  - destruct R as (d' & D1 & D2). rewrite E in D2. injection D2 as <-. exists s', d. auto.
  - rewrite E in R. discriminate.
Qed.

(* non-vacuity: a 3-pixel row; sub-scanline 0 covers [1, 9), sub-scanline 3 covers [0, 4) and [4, 6) *)
Example row_alpha_example :
  spans_ok 0 12 [(1, 8)] /\ spans_ok 0 12 [(0, 4); (4, 2)] /\
  dense_subrows (repeat 0 3%nat) (row_calls 0 [(1, 8)] [] [] [(0, 4); (4, 2)]) = Some [48 + 63; 64 + 32; 16].
Proof. split; [cbn; lia|]. split; [cbn; lia|]. vm_compute. reflexivity. Qed.
