(* finite-check predicates for Proofs/PngProofs.v *)
From Coq Require Import ZArith Bool List.
From TS Require Import Base.F32 Model.Pixel Model.Png.
Import ListNotations.
Local Open Scope Z_scope.

Definition zrange (lo : Z) (n : nat) : list Z := map (fun k => lo + Z.of_nat k) (seq 0 n).

(* for one alpha: every c <= alpha survives demultiply-then-premultiply, and demultiply does not saturate *)
Definition alpha_ok (a : Z) : bool :=
  forallb (fun c => (c <=? a) && (premultiply_u8 (demul_chan c a) a =? c) && (demul_chan c a <=? 255)
                    || (a <? c))
          (zrange 0 256).

(* premultiply_u8 is round-to-nearest of c*a/255 *)
Definition premul_round_ok (a : Z) : bool :=
  forallb (fun c => let p := premultiply_u8 c a in (Z.abs (255 * p - c * a) <=? 127) && (p <=? a) && (0 <=? p)) (zrange 0 256).
