(* The generated fixed-point helpers (Gen/FixedGen.v, regenerated from src/fixed_point.rs and src/math.rs on every check)
   are the hand-written helpers the edge / hairline models are built from (Model/Edge.v, Model/Hairline.v), and meet their
   arithmetic specifications.  A change of the source that alters one of these functions breaks a lemma here. *)
From Coq Require Import ZArith Bool Lia.
From TS Require Import Base.F32 Base.Checked Gen.FixedGen Model.Edge Model.Hairline.
Local Open Scope Z_scope.

Definition I32 (z : Z) : Prop := -2147483648 <= z <= 2147483647.

Lemma ck_i32 z : ck_i 32 z = Edge.ck z.
Proof. reflexivity. Qed.
Lemma in_i32_true z : I32 z -> in_i 32 z = true.
Proof. unfold I32, in_i. change (2 ^ (32 - 1)) with 2147483648. intros H. apply andb_true_iff. split; apply Z.leb_le; lia. Qed.
Lemma in32_true z : I32 z -> Edge.in32 z = true.
Proof. unfold I32, Edge.in32. intros H. apply andb_true_iff. split; apply Z.leb_le; lia. Qed.
Lemma wrap_i32_id z : I32 z -> wrap_i 32 z = z.
Proof.
  unfold I32, wrap_i. change (2 ^ (32 - 1)) with 2147483648. change (2 ^ 32) with 4294967296. intros H.
  rewrite Z.mod_small by lia. lia.
Qed.

(* math::left_shift *)
Lemma left_shift_eq v s : FixedGen.left_shift v s = Edge.left_shift v s.
Proof.
  unfold FixedGen.left_shift, Edge.left_shift, wrap_i, wrap_u, Edge.wrap32.
  change (2 ^ (32 - 1)) with 2147483648. change (2 ^ 32) with 4294967296.
  rewrite Z.add_mod_idemp_l by lia. rewrite <- (Z.add_mod_idemp_l (v mod 4294967296 * 2 ^ s)) by lia.
  rewrite Z.mul_mod_idemp_l by lia. rewrite Z.add_mod_idemp_l by lia. reflexivity.
Qed.
Lemma left_shift64_small v s : 0 <= s -> - 2 ^ 63 <= v * 2 ^ s < 2 ^ 63 -> FixedGen.left_shift64 v s = v * 2 ^ s.
Proof.
  intros Hs H. unfold FixedGen.left_shift64, wrap_i, wrap_u. change (2 ^ (64 - 1)) with (2 ^ 63). 
  assert (NZ : 2 ^ 64 <> 0) by (apply Z.pow_nonzero; lia).
  rewrite Z.add_mod_idemp_l by exact NZ. rewrite <- (Z.add_mod_idemp_l (v mod 2 ^ 64 * 2 ^ s)) by exact NZ.
  rewrite Z.mul_mod_idemp_l by exact NZ. rewrite Z.add_mod_idemp_l by exact NZ.
  change (2 ^ 64) with (2 * 2 ^ 63). rewrite Z.mod_small by lia. lia.
Qed.

(* fdot6::round, fdot6::to_fdot16, fdot16::round_to_i32 *)
Lemma fdot6_round_eq n : FixedGen.fdot6_round n = Edge.fdot6_round n.
Proof. reflexivity. Qed.
Lemma fdot6_to_fdot16_eq n : FixedGen.fdot6_to_fdot16 n = Edge.fdot6_to_fdot16 n.
Proof. unfold FixedGen.fdot6_to_fdot16, Edge.fdot6_to_fdot16. rewrite left_shift_eq. reflexivity. Qed.
Lemma fdot16_round_to_i32_eq x : FixedGen.fdot16_round_to_i32 x = Edge.fdot16_round_to_i32 x.
Proof. reflexivity. Qed.

(* fdot16::div: the 64-bit quotient clamped to i32 *)
Lemma fdot16_div_eq numer denom : I32 numer -> I32 denom -> FixedGen.fdot16_div numer denom = Edge.fdot16_div numer denom.
Proof.
  intros Hn Hd. unfold I32 in *. unfold FixedGen.fdot16_div, Edge.fdot16_div.
  rewrite left_shift64_small by (change (2 ^ 16) with 65536; change (2 ^ 63) with 9223372036854775808; lia).
  change (2 ^ 16) with 65536. unfold div_i. change (2 ^ (64 - 1)) with 9223372036854775808.
  destruct (denom =? 0) eqn:D; [reflexivity|].
  match goal with |- context [(?x =? ?y) && _] => replace (x =? y) with false by (symmetry; apply Z.eqb_neq; lia) end.
  cbn [andb obind]. cbv zeta. unfold FixedGen.bound. f_equal. set (q := Z.quot (numer * 65536) denom).
  rewrite wrap_i32_id by (unfold I32; lia). lia.
Qed.

(* fdot6::div: the i16 fast path and the 64-bit path *)
Lemma fdot6_div_eq a b : I32 a -> I32 b -> FixedGen.fdot6_div a b = Edge.fdot6_div a b.
Proof.
  intros Ha Hb. unfold FixedGen.fdot6_div, Edge.fdot6_div. destruct (b =? 0) eqn:B; [reflexivity|]. cbn [negb].
  unfold in_i. change (2 ^ (16 - 1)) with 32768. change (32768 - 1) with 32767. change (Z.opp 32768) with (-32768).
  destruct ((-32768 <=? a) && (a <=? 32767)) eqn:F.
  - unfold div_i. rewrite B. rewrite left_shift_eq. change (2 ^ (32 - 1)) with 2147483648. reflexivity.
  - apply fdot16_div_eq; assumption.
Qed.

(* fdot16::mul never panics on i32 operands and is the hand-written product *)
Lemma fdot16_mul_eq a b : I32 a -> I32 b -> FixedGen.fdot16_mul a b = Some (Edge.fdot16_mul a b).
Proof.
  intros Ha Hb. unfold I32 in *. unfold FixedGen.fdot16_mul, Edge.fdot16_mul.
  assert (R : in_i 64 (a * b) = true).
  { unfold in_i. change (2 ^ (64 - 1)) with 9223372036854775808. apply andb_true_iff. split; apply Z.leb_le; nia. }
  unfold ck_i. rewrite R. reflexivity.
Qed.

(* fdot6::from_f32 is the conversion of the hairline model *)
Lemma fdot6_from_f32_eq v : FixedGen.fdot6_from_f32 v = Hairline.fdot6_from_f32 v.
Proof. unfold FixedGen.fdot6_from_f32, Hairline.fdot6_from_f32. replace (F32.of_Z 64) with (F32.of_bits 1115684864) by (apply Flocq.IEEE754.BinarySingleNaN.B2SF_inj; vm_compute; reflexivity). reflexivity. Qed.

Lemma quot_abs_le x b : b <> 0 -> Z.abs (Z.quot x b) <= Z.abs x.
Proof.
  intros Hb. rewrite <- Z.quot_abs by exact Hb. rewrite Z.quot_div_nonneg by lia.
  apply Z.div_le_upper_bound; [lia | nia].
Qed.
Lemma quot_abs_half x b : 2 <= Z.abs b -> Z.abs (Z.quot x b) <= Z.abs x / 2.
Proof.
  intros Hb. rewrite <- Z.quot_abs by lia. rewrite Z.quot_div_nonneg by lia.
  apply Z.div_le_compat_l; lia.
Qed.

(* ---- specifications --------------------------------------------------------------------------------------------------------- *)
Definition clamp32 (z : Z) : Z := Z.max (-2147483648) (Z.min z 2147483647).

(* THE slope specification: for every pair of FDot6 deltas the slope is the truncated quotient (a * 65536) / b, clamped to
   i32 -- whichever of the two code paths computes it.  (a, b) = (-32768, -1) overflows the 32-bit division: a panic in a
   checked build.) *)
Theorem fdot6_div_spec a b :
  I32 a -> I32 b -> b <> 0 -> ~ (a = -32768 /\ b = -1) ->
  FixedGen.fdot6_div a b = Some (clamp32 (Z.quot (a * 65536) b)).
Proof.
  intros Ha Hb Hnz Hex. unfold I32 in *. unfold FixedGen.fdot6_div.
  destruct (b =? 0) eqn:B; [apply Z.eqb_eq in B; lia|]. cbn [negb].
  unfold in_i. change (2 ^ (16 - 1)) with 32768. change (32768 - 1) with 32767. change (Z.opp 32768) with (-32768).
  destruct ((-32768 <=? a) && (a <=? 32767)) eqn:F.
  - apply andb_true_iff in F. destruct F as (F1 & F2). apply Z.leb_le in F1, F2.
    assert (L : FixedGen.left_shift a 16 = a * 65536).
    { rewrite left_shift_eq. unfold Edge.left_shift, Edge.wrap32. change (2 ^ 16) with 65536. rewrite Z.mod_small by lia. lia. }
    unfold div_i. rewrite B, L. change (2 ^ (32 - 1)) with 2147483648. change (Z.opp 2147483648) with (-2147483648).
    destruct ((a * 65536 =? -2147483648) && (b =? -1)) eqn:M.
    + apply andb_true_iff in M. destruct M as (M1 & M2). apply Z.eqb_eq in M1, M2. exfalso. apply Hex. lia.
    + f_equal. unfold clamp32.
      pose proof (quot_abs_le (a * 65536) b Hnz) as Q.
      assert (Q2 : Z.quot (a * 65536) b <> 2147483648).
      { intros E. apply andb_false_iff in M.
        assert (a = -32768) by lia. subst a.
        destruct M as [M | M]; [apply Z.eqb_neq in M; lia|]. apply Z.eqb_neq in M.
        destruct (Z.eq_dec b 1) as [B1 | B1]; [subst b; rewrite Z.quot_1_r in E; lia|].
        pose proof (quot_abs_half (-32768 * 65536) b ltac:(lia)) as Hh.
        change (Z.abs (-32768 * 65536) / 2) with 1073741824 in Hh. lia. }
      lia.
  - rewrite (fdot16_div_eq a b) by (unfold I32; lia). unfold Edge.fdot16_div. rewrite B. reflexivity.
Qed.

(* floor / ceil / round of the fixed-point formats are the mathematical ones *)
Lemma shr_div v s : 0 <= s -> shr v s = v / 2 ^ s.
Proof. intros. unfold shr. apply Z.shiftr_div_pow2. assumption. Qed.
Theorem fdot6_floor_spec n : FixedGen.fdot6_floor n = n / 64.
Proof. unfold FixedGen.fdot6_floor. rewrite shr_div by lia. reflexivity. Qed.
Theorem fdot6_ceil_spec n : I32 n -> n + 63 <= 2147483647 -> FixedGen.fdot6_ceil n = Some ((n + 63) / 64).
Proof.
  intros H H2. unfold I32 in H. unfold FixedGen.fdot6_ceil, ck_i. rewrite in_i32_true by (unfold I32; lia). cbn [obind].
  rewrite shr_div by lia. reflexivity.
Qed.
Theorem fdot6_round_spec n : I32 n -> n + 32 <= 2147483647 -> FixedGen.fdot6_round n = Some ((n + 32) / 64).
Proof.
  intros H H2. unfold I32 in H. unfold FixedGen.fdot6_round, ck_i. rewrite in_i32_true by (unfold I32; lia). cbn [obind].
  rewrite shr_div by lia. reflexivity.
Qed.
Theorem fdot16_floor_spec x : FixedGen.fdot16_floor_to_i32 x = x / 65536.
Proof. unfold FixedGen.fdot16_floor_to_i32. rewrite shr_div by lia. reflexivity. Qed.
Theorem fdot16_ceil_spec x : I32 x -> x + 65536 <= 2147483647 -> FixedGen.fdot16_ceil_to_i32 x = Some ((x + 65535) / 65536).
Proof.
  intros H H2. unfold I32 in H. unfold FixedGen.fdot16_ceil_to_i32, ck_i.
  rewrite in_i32_true by (unfold I32; lia). cbn [obind]. rewrite in_i32_true by (unfold I32; lia). cbn [obind].
  rewrite shr_div by lia. f_equal. f_equal. lia.
Qed.
(* fast_div: exact truncated quotient when the numerator fits 16 bits (its debug assertion), a panic otherwise *)
Theorem fdot16_fast_div_spec a b :
  I32 a -> I32 b -> b <> 0 -> -32768 <= a <= 32767 -> ~ (a = -32768 /\ b = -1) ->
  FixedGen.fdot16_fast_div a b = Some (Z.quot (a * 65536) b).
Proof.
  intros Ha Hb Hnz Hr Hex. unfold FixedGen.fdot16_fast_div.
  assert (L : FixedGen.left_shift a 16 = a * 65536).
  { rewrite left_shift_eq. unfold Edge.left_shift, Edge.wrap32. change (2 ^ 16) with 65536. rewrite Z.mod_small by lia. lia. }
  rewrite L. rewrite shr_div by lia. change (2 ^ 16) with 65536. rewrite Z.div_mul by lia. rewrite Z.eqb_refl.
  destruct (b =? 0) eqn:B; [apply Z.eqb_eq in B; lia|]. cbn [negb]. unfold div_i. rewrite B. change (2 ^ (32 - 1)) with 2147483648.
  change (Z.opp 2147483648) with (-2147483648).
  destruct ((a * 65536 =? -2147483648) && (b =? -1)) eqn:M; [|reflexivity].
  apply andb_true_iff in M. destruct M as (M1 & M2). apply Z.eqb_eq in M1, M2. exfalso. apply Hex. lia.
Qed.
Theorem fdot16_fast_div_guard a b : I32 a -> ~ (-32768 <= a <= 32767) -> FixedGen.fdot16_fast_div a b = None.
Proof.
  intros Ha Hr. unfold I32 in Ha. unfold FixedGen.fdot16_fast_div. rewrite left_shift_eq. unfold Edge.left_shift, Edge.wrap32.
  rewrite shr_div by lia. change (2 ^ 16) with 65536.
  destruct (((a * 65536 + 2147483648) mod 4294967296 - 2147483648) / 65536 =? a) eqn:E; [|reflexivity].
  apply Z.eqb_eq in E. exfalso.
  set (X := (a * 65536 + 2147483648) mod 4294967296 - 2147483648) in *.
  assert (HX : -2147483648 <= X <= 2147483647) by (unfold X; pose proof (Z.mod_pos_bound (a * 65536 + 2147483648) 4294967296 ltac:(lia)); lia).
  assert (-32768 <= X / 65536) by (apply Z.div_le_lower_bound; lia).
  assert (X / 65536 <= 32767) by (apply Z.lt_succ_r; apply Z.div_lt_upper_bound; lia).
  lia.
Qed.

(* color::premultiply_u8 (src/color.rs): never overflows on bytes and is the hand-written definition of Model/Pixel.v,
   i.e. round(c * a / 255) (the value theorems of C12 / C17 are about Pixel.premultiply_u8) *)
From TS Require Model.Pixel.
Lemma premultiply_u8_eq c a : 0 <= c <= 255 -> 0 <= a <= 255 -> FixedGen.premultiply_u8 c a = Some (Pixel.premultiply_u8 c a).
Proof.
  intros Hc Ha. unfold FixedGen.premultiply_u8, Pixel.premultiply_u8, ck_u, in_u. change (2 ^ 32 - 1) with 4294967295.
  assert (P : 0 <= c * a <= 65025) by nia.
  assert (E1 : (0 <=? c * a) && (c * a <=? 4294967295) = true) by (apply andb_true_iff; split; apply Z.leb_le; lia).
  rewrite E1. cbn [obind].
  assert (E2 : (0 <=? c * a + 128) && (c * a + 128 <=? 4294967295) = true) by (apply andb_true_iff; split; apply Z.leb_le; lia).
  rewrite E2. cbn [obind]. unfold shr.
  assert (S8 : 0 <= Z.shiftr (c * a + 128) 8 <= 65153).
  { rewrite Z.shiftr_div_pow2 by lia. change (2 ^ 8) with 256. split; [apply Z.div_pos; lia | apply Z.div_le_upper_bound; lia]. }
  assert (E3 : (0 <=? c * a + 128 + Z.shiftr (c * a + 128) 8) && (c * a + 128 + Z.shiftr (c * a + 128) 8 <=? 4294967295) = true)
    by (apply andb_true_iff; split; apply Z.leb_le; lia).
  rewrite E3. cbn [obind]. unfold wrap_u. change (2 ^ 8) with 256. reflexivity.
Qed.
