(* C02: every row is balanced.  path_lines closes every contour, so along the segments of a path the indicator
   "this end point is at or below the row centre" telescopes to zero; LineEdge::new gives each segment the winding and the rows
   that make its contribution exactly that difference; combine_vertical only merges or cancels vertical edges on the same x
   without changing any row's sum.  Hence the winding sum of the edges active on any row is 0 for every path. *)
From Coq Require Import ZArith Bool List Lia Permutation.
From TS Require Import Base.F32 Model.Rect Model.PathBuilder Model.Edge Model.Walk Proofs.WalkProofs Proofs.EdgeAccuracy Proofs.WalkSorted Proofs.WalkRows.
Import ListNotations.
Local Open Scope Z_scope.

Definition rowsum (l : list ledge) (y : Z) : Z := fold_right (fun e acc => (if live y e then e_winding e else 0) + acc) 0 l.

Lemma rowsum_app a b y : rowsum (a ++ b) y = rowsum a y + rowsum b y.
Proof. unfold rowsum. induction a as [|h t IH]; cbn [app fold_right]; [lia|]. rewrite IH. lia. Qed.
Lemma rowsum_cons e l y : rowsum (e :: l) y = (if live y e then e_winding e else 0) + rowsum l y.
Proof. reflexivity. Qed.
Lemma rowsum_rev l y : rowsum (rev l) y = rowsum l y.
Proof.
  induction l as [|h t IH]; cbn [rev]; [reflexivity|]. rewrite rowsum_app, IH, !rowsum_cons. change (rowsum [] y) with 0. lia.
Qed.

Lemma sumw_active es y : sumw (active_at es y) = rowsum es y.
Proof.
  unfold active_at. induction es as [|e t IH]; [reflexivity|]. rewrite rowsum_cons. cbn [filter].
  destruct (live y e); cbn [map sumw]; rewrite IH; [cbn; lia | lia].
Qed.

(* ---- combine_vertical keeps every row's sum -------------------------------------------------------------------------------- *)
Definition wf1 (e : ledge) : Prop := e_first_y e <= e_last_y e /\ (e_winding e = 1 \/ e_winding e = -1).

Lemma live_iff y e : live y e = true <-> e_first_y e <= y <= e_last_y e.
Proof. unfold live. rewrite andb_true_iff, !Z.leb_le. tauto. Qed.
Lemma live_not y e : live y e = false <-> ~ (e_first_y e <= y <= e_last_y e).
Proof. rewrite <- live_iff. destruct (live y e); split; congruence. Qed.

Ltac live_cases :=
  repeat match goal with
         | |- context [live ?y ?e] => let L := fresh "L" in destruct (live y e) eqn:L; [apply live_iff in L | apply live_not in L]
         end; cbn [e_first_y e_last_y e_winding] in *.

Lemma push_line_rowsum acc e y : wf1 e -> Forall wf1 acc ->
  rowsum (push_line acc e) y = rowsum (e :: acc) y /\ Forall wf1 (push_line acc e).
Proof.
  intros We Wa. unfold push_line. destruct acc as [|last rest]; [split; [reflexivity | constructor; [exact We | constructor]]|].
  inversion Wa as [|? ? Wl Wr]; subst.
  destruct (e_dx e =? 0); [|split; [reflexivity | constructor; assumption]].
  unfold combine_vertical.
  destruct (negb (e_dx last =? 0) || negb (e_x e =? e_x last)); [split; [reflexivity | constructor; assumption]|].
  destruct We as (We & Se). destruct Wl as (Wl & Sl).
  destruct (e_winding e =? e_winding last) eqn:Ww.
  - apply Z.eqb_eq in Ww.
    destruct (e_last_y e + 1 =? e_first_y last) eqn:C1.
    + apply Z.eqb_eq in C1. split; [|constructor; [split; cbn; [lia | exact Sl] | exact Wr]]. rewrite !rowsum_cons. live_cases; lia.
    + destruct (e_first_y e =? e_last_y last + 1) eqn:C2; [|split; [reflexivity | constructor; [split; assumption | constructor; [split; assumption | exact Wr]]]].
      apply Z.eqb_eq in C2. split; [|constructor; [split; cbn; [lia | exact Sl] | exact Wr]]. rewrite !rowsum_cons. live_cases; lia.
  - apply Z.eqb_neq in Ww. assert (Opp : e_winding e = - e_winding last) by lia.
    destruct (e_first_y e =? e_first_y last) eqn:D1.
    + apply Z.eqb_eq in D1. destruct (e_last_y e =? e_last_y last) eqn:D2.
      * apply Z.eqb_eq in D2. split; [|exact Wr]. rewrite !rowsum_cons. live_cases; lia.
      * apply Z.eqb_neq in D2. destruct (e_last_y e <? e_last_y last) eqn:D3.
        -- apply Z.ltb_lt in D3. split; [|constructor; [split; cbn; [lia | exact Sl] | exact Wr]]. rewrite !rowsum_cons. live_cases; lia.
        -- apply Z.ltb_ge in D3. split; [|constructor; [split; cbn; [lia | exact Se] | exact Wr]]. rewrite !rowsum_cons. live_cases; lia.
    + apply Z.eqb_neq in D1. destruct (e_last_y e =? e_last_y last) eqn:D2.
      * apply Z.eqb_eq in D2. destruct (e_first_y last <? e_first_y e) eqn:D3.
        -- apply Z.ltb_lt in D3. split; [|constructor; [split; cbn; [lia | exact Sl] | exact Wr]]. rewrite !rowsum_cons. live_cases; lia.
        -- apply Z.ltb_ge in D3. split; [|constructor; [split; cbn; [lia | exact Se] | exact Wr]]. rewrite !rowsum_cons. live_cases; lia.
      * split; [reflexivity | constructor; [split; assumption | constructor; [split; assumption | exact Wr]]].
Qed.

(* ---- what one segment contributes to a row ------------------------------------------------------------------------------------- *)
Definition below (shift : Z) (p : pt) (y : Z) : Z := if 64 * y + 32 <=? fd6 (py p) shift then 1 else 0.

Lemma edge_setup_shape x0 y0 x1 y1 w r : edge_setup x0 y0 x1 y1 w = Some r -> y0 <= y1 ->
  match r with
  | Some e => e_winding e = w /\ e_first_y e <= e_last_y e /\
              (forall k, e_first_y e <= k <= e_last_y e <-> y0 < 64 * k + 32 <= y1)
  | None => forall k, (y0 < 64 * k + 32 <-> y1 < 64 * k + 32)
  end.
Proof.
  unfold edge_setup, bind. intros H Hord.
  destruct (fdot6_round y0) as [top|] eqn:T; [|discriminate].
  destruct (fdot6_round y1) as [bot|] eqn:B; [|discriminate].
  destruct (top =? bot) eqn:TB.
  - apply Z.eqb_eq in TB. subst bot. inversion H; subst r. intros k.
    pose proof (fdot6_round_spec _ _ T k) as (A & _). pose proof (fdot6_round_spec _ _ B k) as (C & _). tauto.
  - apply Z.eqb_neq in TB.
    destruct (ck (x1 - x0)); [|discriminate]. destruct (ck (y1 - y0)); [|discriminate].
    destruct (fdot6_div _ _); [|discriminate]. destruct (compute_dy _ _); [|discriminate].
    destruct (ck (x0 + _)); [|discriminate]. destruct (ck (bot - 1)) as [l|] eqn:L; [|discriminate].
    destruct (fdot6_to_fdot16 _); [|discriminate].
    inversion H; subst r. cbn [e_winding e_first_y e_last_y].
    unfold ck in L. destruct (in32 (bot - 1)); inversion L; subst l.
    assert (R : forall k, top <= k <= bot - 1 <-> y0 < 64 * k + 32 <= y1).
    { intros k. pose proof (fdot6_round_spec _ _ T k) as (A & _). pose proof (fdot6_round_spec _ _ B k) as (_ & C). lia. }
    split; [reflexivity|]. split; [|exact R].
    (* top <= bot - 1: top <> bot and the rows are monotone in y *)
    pose proof (fdot6_round_spec _ _ T top) as (A & _). pose proof (fdot6_round_spec _ _ B top) as (C & _).
    assert (y0 < 64 * top + 32) by (apply A; lia).
    destruct (Z_lt_le_dec y1 (64 * top + 32)) as [Lt | Ge].
    + (* then bot <= top; and y0 <= y1 gives top <= bot *)
      assert (bot <= top) by (apply C; exact Lt).
      pose proof (fdot6_round_spec _ _ T bot) as (A' & _). pose proof (fdot6_round_spec _ _ B bot) as (C' & _).
      assert (y1 < 64 * bot + 32) by (apply C'; lia). assert (top <= bot) by (apply A'; lia). lia.
    + apply R. lia.
Qed.

Lemma segment_contribution p0 p1 shift r y :
  line_edge_new p0 p1 shift = Some r ->
  match r with
  | Some e => wf1 e /\ (if live y e then e_winding e else 0) = below shift p1 y - below shift p0 y
  | None => below shift p1 y = below shift p0 y
  end.
Proof.
  rewrite line_edge_new_setup. unfold below.
  set (Y0 := fd6 (py p0) shift). set (Y1 := fd6 (py p1) shift).
  destruct (Y1 <? Y0) eqn:Sw; intros H.
  - apply Z.ltb_lt in Sw. pose proof (edge_setup_shape _ _ _ _ _ _ H ltac:(lia)) as S. destruct r as [e|].
    + destruct S as (Ew & Wf & R). split; [split; [exact Wf | right; exact Ew]|].
      destruct (live y e) eqn:L; [apply live_iff in L; apply R in L | apply live_not in L; rewrite R in L];
        destruct (64 * y + 32 <=? Y1) eqn:A; destruct (64 * y + 32 <=? Y0) eqn:B;
        try apply Z.leb_le in A; try apply Z.leb_gt in A; try apply Z.leb_le in B; try apply Z.leb_gt in B; lia.
    + specialize (S y). destruct (64 * y + 32 <=? Y1) eqn:A; destruct (64 * y + 32 <=? Y0) eqn:B;
        try apply Z.leb_le in A; try apply Z.leb_gt in A; try apply Z.leb_le in B; try apply Z.leb_gt in B; lia.
  - apply Z.ltb_ge in Sw. pose proof (edge_setup_shape _ _ _ _ _ _ H Sw) as S. destruct r as [e|].
    + destruct S as (Ew & Wf & R). split; [split; [exact Wf | left; exact Ew]|].
      destruct (live y e) eqn:L; [apply live_iff in L; apply R in L | apply live_not in L; rewrite R in L];
        destruct (64 * y + 32 <=? Y1) eqn:A; destruct (64 * y + 32 <=? Y0) eqn:B;
        try apply Z.leb_le in A; try apply Z.leb_gt in A; try apply Z.leb_le in B; try apply Z.leb_gt in B; lia.
    + specialize (S y). destruct (64 * y + 32 <=? Y1) eqn:A; destruct (64 * y + 32 <=? Y0) eqn:B;
        try apply Z.leb_le in A; try apply Z.leb_gt in A; try apply Z.leb_le in B; try apply Z.leb_gt in B; lia.
Qed.

(* ---- all segments of a path --------------------------------------------------------------------------------------------------- *)
Definition tele (shift : Z) (segs : list (pt * pt)) (y : Z) : Z :=
  fold_right (fun s acc => below shift (snd s) y - below shift (fst s) y + acc) 0 segs.
Lemma tele_app shift a b y : tele shift (a ++ b) y = tele shift a y + tele shift b y.
Proof. unfold tele. induction a as [|h t IH]; cbn [app fold_right]; [lia | rewrite IH; lia]. Qed.

Lemma build_aux_rowsum shift y : forall segs acc es,
  build_edges_aux segs shift acc = Some es -> Forall wf1 acc ->
  rowsum es y = rowsum acc y + tele shift segs y /\ Forall wf1 es.
Proof.
  induction segs as [|[p0 p1] r IH]; intros acc es H W; cbn [build_edges_aux] in H.
  - inversion H; subst es. unfold tele. cbn [fold_right]. rewrite rowsum_rev. split; [lia | apply Forall_rev; exact W].
  - destruct (line_edge_new p0 p1 shift) as [[e|]|] eqn:LE; [| |discriminate].
    + pose proof (segment_contribution p0 p1 shift (Some e) y LE) as (We & C).
      destruct (push_line_rowsum acc e y We W) as (P1 & P2).
      destruct (IH _ _ H P2) as (A & B). split; [|exact B].
      rewrite A, P1, rowsum_cons, C. unfold tele. cbn [fold_right fst snd]. lia.
    + pose proof (segment_contribution p0 p1 shift None y LE) as C. cbv beta iota in C.
      destruct (IH _ _ H W) as (A & B). split; [|exact B]. rewrite A. unfold tele. cbn [fold_right fst snd]. lia.
Qed.

Lemma path_lines_tele shift y : forall vs ps last mv nc segs,
  path_lines_aux vs ps last mv nc = Some segs -> (nc = false -> last = mv) ->
  tele shift segs y = below shift mv y - below shift last y.
Proof.
  induction vs as [|v vs IH]; intros ps last mv nc segs H Hn; cbn [path_lines_aux] in H.
  - inversion H; subst segs. destruct nc; [unfold tele; cbn [fold_right fst snd]; lia | rewrite (Hn eq_refl); unfold tele; cbn; lia].
  - destruct v.
    + (* Move *)
      destruct ps as [|p ps']; [discriminate|].
      destruct (path_lines_aux vs ps' p p false) as [r|] eqn:R; [|discriminate]. cbn [option_map] in H. inversion H; subst segs.
      rewrite tele_app, (IH _ _ _ _ _ R ltac:(reflexivity)).
      destruct nc; [unfold tele; cbn [fold_right fst snd]; lia | rewrite (Hn eq_refl); unfold tele; cbn [fold_right]; lia].
    + (* Line *)
      destruct ps as [|p ps']; [discriminate|].
      destruct (path_lines_aux vs ps' p mv true) as [r|] eqn:R; [|discriminate]. cbn [option_map] in H. inversion H; subst segs.
      change ((last, p) :: r) with ([(last, p)] ++ r). rewrite tele_app, (IH _ _ _ _ _ R ltac:(discriminate)).
      unfold tele. cbn [fold_right fst snd]. lia.
    + discriminate.
    + discriminate.
    + (* Close *)
      destruct (path_lines_aux vs ps mv mv false) as [r|] eqn:R; [|discriminate]. cbn [option_map] in H. inversion H; subst segs.
      rewrite tele_app, (IH _ _ _ _ _ R ltac:(reflexivity)).
      destruct nc; [unfold tele; cbn [fold_right fst snd]; lia | rewrite (Hn eq_refl); unfold tele; cbn [fold_right]; lia].
Qed.

(* EVERY ROW IS BALANCED, for every path: the windings of the edges active on a row sum to zero *)
Theorem build_edges_balanced p shift es :
  build_edges p shift = Some (Some es) -> (forall y, rowsum es y = 0) /\ Forall wf1 es.
Proof.
  unfold build_edges. destruct (path_lines p) as [segs|] eqn:PL; [|discriminate].
  destruct (build_edges_aux segs shift []) as [es'|] eqn:BE; [|discriminate].
  destruct (length es' <? 2)%nat; [discriminate|]. intros H. inversion H; subst es'.
  split; [|exact (proj2 (build_aux_rowsum shift 0 segs [] es BE (Forall_nil _)))].
  intros y. destruct (build_aux_rowsum shift y segs [] es BE (Forall_nil _)) as (A & _). rewrite A.
  unfold path_lines in PL. rewrite (path_lines_tele shift y _ _ _ _ _ _ PL ltac:(reflexivity)). change (rowsum [] y) with 0. lia.
Qed.

Corollary build_edges_rows_balanced p shift es eo yy :
  build_edges p shift = Some (Some es) -> masked (sumw (active_at es yy)) eo = false /\ wf_edges es.
Proof.
  intros H. destruct (build_edges_balanced p shift es H) as (B & W). split.
  - rewrite sumw_active, B. destruct eo; reflexivity.
  - intros e He. rewrite Forall_forall in W. exact (proj1 (W e He)).
Qed.

(* the fill theorem for the edges of ANY line-only path: the balance hypothesis is discharged *)
Theorem path_fill_spec p es start stop rc eo out :
  build_edges p 0 = Some (Some es) -> fill_spans es start stop rc eo 0 = Some out ->
  (forall e, In e es -> start <= e_first_y e) -> 0 <= start -> 0 <= stop ->
  exists acts : Z -> list ledge,
    (forall yy, start <= yy -> (yy < stop \/ yy = start) -> asc (acts yy) /\ Permutation (acts yy) (active_at es yy)) /\
    forall yy c, start <= yy -> (yy < stop \/ yy = start) -> (forall e, In e (acts yy) -> x_ok e) ->
      (cov out yy c <-> masked (wsum (xs_of (active_at es yy)) c) eo = true).
Proof.
  intros HB HF Hs H0 H1.
  destruct (fill_spans_spec es start stop rc eo out HF (proj2 (build_edges_rows_balanced p 0 es eo 0 HB)) Hs H0 H1) as (acts & Ha & Hc).
  exists acts. split; [exact Ha|]. intros yy c Hy Hr X. apply Hc; try assumption.
  exact (proj1 (build_edges_rows_balanced p 0 es eo yy HB)).
Qed.

(* ---- footprint: a covered column lies between the rounded abscissas of two edges active on its row ------------------------------ *)
Lemma wsum_all xs c : (forall x wd, In (x, wd) xs -> x <= c) -> wsum xs c = fold_right (fun p acc => snd p + acc) 0 xs.
Proof.
  induction xs as [|[x wd] r IH]; intros H; cbn [wsum fold_right snd]; [reflexivity|].
  assert ((x <=? c) = true) as -> by (apply Z.leb_le; apply (H x wd); left; reflexivity).
  rewrite IH by (intros x' wd' Hi; apply (H x' wd'); right; exact Hi). reflexivity.
Qed.
Lemma sum_xs_of l : fold_right (fun p acc => snd p + acc) 0 (xs_of l) = sumw l.
Proof. induction l as [|e r IH]; cbn [xs_of map fold_right sumw snd]; [reflexivity|]. fold (xs_of r). rewrite IH. reflexivity. Qed.

Theorem fill_footprint p es start stop rc eo out :
  build_edges p 0 = Some (Some es) -> fill_spans es start stop rc eo 0 = Some out ->
  (forall e, In e es -> start <= e_first_y e) -> 0 <= start -> 0 <= stop ->
  forall yy c, start <= yy -> (yy < stop \/ yy = start) -> (forall e, In e (active_at es yy) -> x_ok e) ->
  cov out yy c ->
  (exists e, In e (active_at es yy) /\ rx e <= c) /\ (exists e, In e (active_at es yy) /\ c < rx e).
Proof.
  intros HB HF Hs H0 H1 yy c Hy Hr X HC.
  destruct (path_fill_spec p es start stop rc eo out HB HF Hs H0 H1) as (acts & Ha & Hc).
  destruct (Ha yy Hy Hr) as (A & P).
  assert (X' : forall e, In e (acts yy) -> x_ok e) by (intros e He; apply X; apply (Permutation_in _ P); exact He).
  apply (Hc yy c Hy Hr X') in HC.
  assert (M0 : masked 0 eo = false) by (destruct eo; reflexivity).
  split.
  - (* otherwise no edge is at or left of c: the sum is empty *)
    destruct (existsb (fun e => rx e <=? c) (active_at es yy)) eqn:E.
    + apply existsb_exists in E. destruct E as (e & He & Le). apply Z.leb_le in Le. eauto.
    + exfalso. rewrite wsum_before in HC; [congruence|]. intros x wd Hi. unfold xs_of in Hi. apply in_map_iff in Hi.
      destruct Hi as (e & Ee & He). inversion Ee; subst.
      destruct (Z_lt_le_dec c (rx e)) as [L | L]; [exact L|]. exfalso.
      assert (existsb (fun e0 => rx e0 <=? c) (active_at es yy) = true) by (apply existsb_exists; exists e; split; [exact He | apply Z.leb_le; exact L]). congruence.
  - destruct (existsb (fun e => c <? rx e) (active_at es yy)) eqn:E.
    + apply existsb_exists in E. destruct E as (e & He & Le). apply Z.ltb_lt in Le. eauto.
    + exfalso. rewrite wsum_all in HC.
      * rewrite sum_xs_of in HC. rewrite (proj1 (build_edges_rows_balanced p 0 es eo yy HB)) in HC. discriminate.
      * intros x wd Hi. unfold xs_of in Hi. apply in_map_iff in Hi. destruct Hi as (e & Ee & He). inversion Ee; subst.
        destruct (Z_lt_le_dec c (rx e)) as [L | L]; [|exact L]. exfalso.
        assert (existsb (fun e0 => c <? rx e0) (active_at es yy) = true) by (apply existsb_exists; exists e; split; [exact He | apply Z.ltb_lt; exact L]). congruence.
Qed.
