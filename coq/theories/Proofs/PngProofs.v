(* C17: the premultiply/demultiply pair used by PNG export/import round-trips every valid
   premultiplied channel exactly (complete finite check on the bit-exact binary64 model, 8 shards),
   premultiply_u8 is round-to-nearest, and the pixmap round trip follows under a lossless codec. *)
From Coq Require Import ZArith Bool List Lia.
From TS Require Import Base.F32 Model.Pixel Model.Png Proofs.PngDefs
  Proofs.PngShard0 Proofs.PngShard1 Proofs.PngShard2 Proofs.PngShard3
  Proofs.PngShard4 Proofs.PngShard5 Proofs.PngShard6 Proofs.PngShard7.
Import ListNotations.
Local Open Scope Z_scope.

Lemma in_zrange lo n z : lo <= z < lo + Z.of_nat n -> In z (zrange lo n).
Proof. intros H. unfold zrange. apply in_map_iff. exists (Z.to_nat (z - lo)). split; [lia|]. apply in_seq. lia. Qed.

Lemma alpha_ok_all a : 0 <= a <= 255 -> alpha_ok a = true.
Proof.
  intros Ha.
  assert (K : forall lo n, forallb alpha_ok (zrange lo n) = true -> lo <= a < lo + Z.of_nat n -> alpha_ok a = true).
  { intros lo n H Hr. rewrite forallb_forall in H. apply H, in_zrange, Hr. }
  destruct (Z_lt_le_dec a 32); [apply (K _ _ png_shard0_ok); lia|].
  destruct (Z_lt_le_dec a 64); [apply (K _ _ png_shard1_ok); lia|].
  destruct (Z_lt_le_dec a 96); [apply (K _ _ png_shard2_ok); lia|].
  destruct (Z_lt_le_dec a 128); [apply (K _ _ png_shard3_ok); lia|].
  destruct (Z_lt_le_dec a 160); [apply (K _ _ png_shard4_ok); lia|].
  destruct (Z_lt_le_dec a 192); [apply (K _ _ png_shard5_ok); lia|].
  destruct (Z_lt_le_dec a 224); [apply (K _ _ png_shard6_ok); lia|].
  apply (K _ _ png_shard7_ok); lia.
Qed.

(* all 32 896 (colour <= alpha) channel pairs *)
Theorem premul_demul_roundtrip c a : 0 <= c <= a -> a <= 255 ->
  premultiply_u8 (demul_chan c a) a = c /\ demul_chan c a <= 255.
Proof.
  intros Hc Ha. pose proof (alpha_ok_all a ltac:(lia)) as H. unfold alpha_ok in H.
  rewrite forallb_forall in H. specialize (H c (in_zrange 0 256 c ltac:(lia))).
  rewrite orb_true_iff, !andb_true_iff, Z.eqb_eq, !Z.leb_le, Z.ltb_lt in H. lia.
Qed.

Lemma premul_round_all : forallb premul_round_ok (zrange 0 256) = true.
Proof. vm_compute. reflexivity. Qed.

(* premultiply_u8 c a = round(c*a/255) and stays <= a, for all 65 536 pairs *)
Theorem premultiply_u8_is_round c a : 0 <= c <= 255 -> 0 <= a <= 255 ->
  Z.abs (255 * premultiply_u8 c a - c * a) <= 127 /\ 0 <= premultiply_u8 c a <= a.
Proof.
  intros Hc Ha. pose proof premul_round_all as H. rewrite forallb_forall in H.
  specialize (H a (in_zrange 0 256 a ltac:(lia))). unfold premul_round_ok in H.
  rewrite forallb_forall in H. specialize (H c (in_zrange 0 256 c ltac:(lia))).
  rewrite !andb_true_iff, !Z.leb_le in H. lia.
Qed.

Definition px_valid (p : px) : Prop :=
  0 <= pr p <= pa p /\ 0 <= pg p <= pa p /\ 0 <= pb p <= pa p /\ pa p <= 255.

Theorem pixel_roundtrip p : px_valid p -> premultiply (demultiply p) = p.
Proof.
  intros (R & G & B & A). unfold demultiply.
  destruct (pa p =? 255) eqn:E.
  - apply Z.eqb_eq in E. unfold premultiply. destruct p as [r g b a]. cbn [pr pg pb pa] in *. subst a.
    (* opaque: premultiply_u8 c 255 = c *)
    assert (K : forall c, 0 <= c <= 255 -> premultiply_u8 c 255 = c).
    { intros c Hc. pose proof (premultiply_u8_is_round c 255 Hc ltac:(lia)). lia. }
    rewrite !K by lia. reflexivity.
  - unfold premultiply. cbn [pr pg pb pa]. destruct p as [r g b a]. cbn [pr pg pb pa] in *.
    rewrite (proj1 (premul_demul_roundtrip r a R A)), (proj1 (premul_demul_roundtrip g a G A)),
            (proj1 (premul_demul_roundtrip b a B A)). reflexivity.
Qed.

Section Codec.
  Variable T : Type.
  Variable codec_enc : Z -> Z -> list px -> T.
  Variable codec_dec : T -> option (Z * Z * list px).
  Hypothesis codec_lossless : forall w h l, codec_dec (codec_enc w h l) = Some (w, h, l).

  (* decode_png (encode_png p) = p for every validly premultiplied pixmap *)
  Theorem pixmap_roundtrip w h pxs : Forall px_valid pxs ->
    decode_png T codec_dec (encode_png T codec_enc w h pxs) = Some (w, h, pxs).
  Proof.
    intros V. unfold decode_png, encode_png. rewrite codec_lossless. f_equal. f_equal.
    unfold encode_pixels. rewrite map_map.
    induction V as [|p l Hp _ IH]; simpl; [reflexivity|]. rewrite pixel_roundtrip by exact Hp. f_equal. exact IH.
  Qed.
End Codec.

(* decoding a foreign PNG: colour-type expansion then round(c*a/255) *)
Theorem decode_expansion_spec :
  (forall g, decode_pixels 0 [g] = [premultiply (mkpx g g g 255)]) /\
  (forall r g b, decode_pixels 2 [r; g; b] = [premultiply (mkpx r g b 255)]) /\
  (forall g a, decode_pixels 4 [g; a] = [premultiply (mkpx g g g a)]) /\
  (forall r g b a, decode_pixels 6 [r; g; b; a] = [premultiply (mkpx r g b a)]).
Proof. repeat split; reflexivity. Qed.
