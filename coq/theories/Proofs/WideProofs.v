(* Agreement of the per-backend lane semantics of Model/WideBackends.v. *)
From Coq Require Import ZArith Bool List Lia.
From Flocq Require Import IEEE754.BinarySingleNaN.
From TS Require Import Base.F32 Model.WideBackends.
Import ListNotations.
Local Open Scope Z_scope.

(* ---- comparisons ------------------------------------------------------------------------------------ *)
Theorem cmp_agree b1 b2 x y :
  cmp_eq4 b1 x y = cmp_eq4 b2 x y /\ cmp_ne4 b1 x y = cmp_ne4 b2 x y /\ cmp_lt4 b1 x y = cmp_lt4 b2 x y /\
  cmp_le4 b1 x y = cmp_le4 b2 x y /\ cmp_gt4 b1 x y = cmp_gt4 b2 x y /\ cmp_ge4 b1 x y = cmp_ge4 b2 x y.
Proof. repeat split. Qed.

(* the 8-lane not-equal: with the unordered predicate (current tree) every backend agrees ... *)
Theorem cmp_ne8_agree b1 b2 x y : cmp_ne8 false b1 x y = cmp_ne8 false b2 x y.
Proof. destruct b1, b2; reflexivity. Qed.
(* ... with the ordered predicate of the pinned tree the AVX build differed exactly on NaN *)
Theorem cmp_ne8_pinned_refuted : exists x y, cmp_ne8 true AVX x y <> cmp_ne8 true SSE2 x y.
Proof. exists F32.nan, F32.nan. vm_compute. discriminate. Qed.
Theorem cmp_ne8_pinned_agree_no_nan b x y :
  F32.is_nan x = false -> F32.is_nan y = false -> cmp_ne8 true b x y = cmp_ne8 true SSE2 x y.
Proof. intros Hx Hy. destruct b; cbn [cmp_ne8 cmp_ne4]; try reflexivity. now rewrite Hx, Hy. Qed.

(* ---- min / max ---------------------------------------------------------------------------------------- *)
Theorem minmax_agree b1 b2 x y : min4 b1 x y = min4 b2 x y /\ max4 b1 x y = max4 b2 x y.
Proof. split; reflexivity. Qed.

(* the pinned scalar fallback returned the other operand when the comparison was false *)
Theorem min_scalar_pinned_refuted : exists x y, min_scalar_pinned x y <> min4 SSE2 x y.
Proof. exists F32.nan, F32.zero. vm_compute. discriminate. Qed.
Theorem max_scalar_pinned_refuted : exists x y, max_scalar_pinned x y <> max4 SSE2 x y.
Proof. exists F32.nan, F32.zero. vm_compute. discriminate. Qed.

(* ---- float -> int -------------------------------------------------------------------------------------- *)
Definition in_i32_range (x : f32) : Prop :=
  match x with
  | B754_finite _ _ _ _ => -2147483648 <= Btrunc x <= 2147483647
  | B754_zero _ => True
  | _ => False
  end.

Lemma to_i32_in_range x : in_i32_range x -> F32.to_i32 x = cvtt x.
Proof.
  destruct x as [s | s | | s m e H]; cbn [in_i32_range]; intros Hr; try contradiction; [reflexivity|].
  unfold F32.to_i32, F32.to_int_sat, cvtt.
  set (z := Btrunc (B754_finite s m e H)) in *.
  destruct (z <? -2147483648) eqn:E1; [apply Z.ltb_lt in E1; lia|].
  destruct (2147483647 <? z) eqn:E2; [apply Z.ltb_lt in E2; lia|]. reflexivity.
Qed.

Theorem trunc_int_agree b1 b2 x : in_i32_range x -> trunc_int4 b1 x = trunc_int4 b2 x.
Proof.
  intros Hr. unfold trunc_int4. pose proof (to_i32_in_range x Hr) as E.
  destruct (b4 b1), (b4 b2); congruence.
Qed.

(* outside the range the scalar cast saturates while CVTTPS2DQ gives the integer indefinite *)
Theorem trunc_int_out_of_range_refuted : exists x, trunc_int4 Scalar x <> trunc_int4 SSE2 x.
Proof. exists (F32.of_Z 4294967296). vm_compute. discriminate. Qed.

Theorem floor_agree b1 b2 x : in_i32_range x -> floor4 b1 x = floor4 b2 x.
Proof. intros Hr. unfold floor4, cmp_gt4. now rewrite (trunc_int_agree b1 b2 x Hr). Qed.

(* ---- rounding ------------------------------------------------------------------------------------------- *)
(* the portable rounding equals ROUNDPS on NaN, infinities and zeros (computation); on finite non-zero inputs the
   equality is validated by the exhaustive per-configuration sweep, not proved: [round_ok] names it *)
Definition round_ok (x : f32) : Prop := generic_round x = roundps x.

Theorem generic_round_special x : F32.is_finite x = false \/ (exists s, x = B754_zero s) -> round_ok x.
Proof.
  unfold round_ok. intros [H | (s & ->)].
  - destruct x as [s | s | | s m e Hb]; try discriminate; [destruct s|]; vm_compute; reflexivity.
  - destruct s; vm_compute; reflexivity.
Qed.

Theorem round_agree b1 b2 x : round_ok x -> round4 b1 x = round4 b2 x.
Proof. unfold round_ok, round4. intros E. destruct (b4 b1), (b4 b2); congruence. Qed.

Lemma roundps_finite x : F32.is_finite x = true -> F32.is_finite (roundps x) = true.
Proof.
  unfold roundps, F32.is_finite. intros H.
  destruct (Bnearbyint_correct 24 128 _ mode_NE x) as (_ & E & _). rewrite E. exact H.
Qed.

Theorem round_int_agree b1 b2 x :
  round_ok x -> F32.is_finite x = true -> in_i32_range (roundps x) -> round_int4 b1 x = round_int4 b2 x.
Proof.
  intros E Hf Hr. unfold round_int4.
  assert (K : F32.to_i32 (generic_round x) = cvt x).
  { rewrite E. rewrite (to_i32_in_range _ Hr). unfold cvt, cvtt.
    destruct x as [s | s | | s m e H]; try discriminate.
    - destruct s; vm_compute; reflexivity.
    - unfold roundps in *. destruct (Bnearbyint mode_NE (B754_finite s m e H)) as [s' | s' | | s' m' e' H'] eqn:EB;
        cbn [in_i32_range] in Hr; try contradiction.
      + (* rounds to zero *) reflexivity.
      + reflexivity. }
  destruct (b4 b1), (b4 b2); congruence.
Qed.

(* the one input on which the portable rounding and ROUNDPS differ (found by the exhaustive sweep: it is the
   only one of the 2^32 bit patterns): -0.5 rounds to +0.0 instead of -0.0 *)
Theorem generic_round_refuted : exists x, generic_round x <> roundps x.
Proof. exists (F32.of_bits 3204448256). vm_compute. discriminate. Qed.
