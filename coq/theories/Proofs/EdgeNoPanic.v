(* C01: LineEdge::new cannot panic (no arithmetic overflow, no failed debug assertion of the fixed-point helpers) when the FDot6
   coordinates of its end points are within +-2^20, i.e. +-16384 px for aliased fills and +-4096 px at the supersampling
   shift of anti-aliased fills.  The first abscissa x0 + slope * dy lies between the two end abscissae (the first row centre
   lies inside the edge's ordinate range, so dy <= y1 - y0), which is what keeps `fdot6::to_fdot16` in range. *)
From Coq Require Import ZArith Bool List Lia.
From TS Require Import Base.F32 Model.Rect Model.PathBuilder Model.Edge Proofs.WalkProofs Proofs.EdgeAccuracy.
Import ListNotations.
Local Open Scope Z_scope.

Definition B20 (z : Z) : Prop := Z.abs z <= 1048576.

Lemma in32_true z : -2147483648 <= z <= 2147483647 -> in32 z = true.
Proof. intros H. unfold in32. apply andb_true_iff. split; apply Z.leb_le; lia. Qed.
Lemma ck_some z : -2147483648 <= z <= 2147483647 -> ck z = Some z.
Proof. intros H. unfold ck. rewrite in32_true by exact H. reflexivity. Qed.

Lemma fdot6_round_some n : B20 n -> fdot6_round n = Some ((n + 32) / 64).
Proof. unfold B20. intros H. unfold fdot6_round, bind. rewrite ck_some by lia. rewrite sar6. reflexivity. Qed.

Lemma quot_bound a b : 0 < b -> Z.abs (Z.quot a b) * b <= Z.abs a.
Proof.
  intros Hb. pose proof (Z.quot_abs a b ltac:(lia)) as QA. rewrite (Z.abs_eq b) in QA by lia. rewrite <- QA.
  pose proof (Z.mul_quot_le (Z.abs a) b ltac:(lia) ltac:(lia)). lia.
Qed.

Theorem edge_setup_no_panic x0 y0 x1 y1 w :
  B20 x0 -> B20 y0 -> B20 x1 -> B20 y1 -> y0 <= y1 -> edge_setup x0 y0 x1 y1 w <> None.
Proof.
  unfold B20. intros Bx0 By0 Bx1 By1 Hord. unfold edge_setup, bind.
  rewrite (fdot6_round_some y0 By0), (fdot6_round_some y1 By1).
  set (top := (y0 + 32) / 64). set (bot := (y1 + 32) / 64).
  destruct (Z.eqb_spec top bot) as [E | NE]; [discriminate|].
  pose proof (Z.div_mod (y0 + 32) 64 ltac:(lia)) as DM0. pose proof (Z.mod_pos_bound (y0 + 32) 64 ltac:(lia)) as MB0. fold top in DM0.
  pose proof (Z.div_mod (y1 + 32) 64 ltac:(lia)) as DM1. pose proof (Z.mod_pos_bound (y1 + 32) 64 ltac:(lia)) as MB1. fold bot in DM1.
  assert (TB : top < bot).
  { assert (top <= bot) by (apply Z.div_le_mono; lia). lia. }
  assert (Hdy : 0 < y1 - y0) by nia.
  rewrite (ck_some (x1 - x0)) by lia. rewrite (ck_some (y1 - y0)) by lia.
  (* the slope *)
  assert (SD : exists slope, fdot6_div (x1 - x0) (y1 - y0) = Some slope /\ Z.abs slope * (y1 - y0) <= Z.abs (x1 - x0) * 65536 /\
                             Z.abs slope <= 2147483648 /\ (0 <= x1 - x0 -> 0 <= slope) /\ (x1 - x0 <= 0 -> slope <= 0)).
  { unfold fdot6_div. destruct (Z.eqb_spec (y1 - y0) 0) as [Z0 | _]; [lia|].
    pose proof (quot_bound ((x1 - x0) * 65536) (y1 - y0) Hdy) as QB. rewrite Z.abs_mul in QB. change (Z.abs 65536) with 65536 in QB.
    assert (QS1 : 0 <= x1 - x0 -> 0 <= Z.quot ((x1 - x0) * 65536) (y1 - y0)) by (intros; apply Z.quot_pos; lia).
    assert (QS2 : x1 - x0 <= 0 -> Z.quot ((x1 - x0) * 65536) (y1 - y0) <= 0).
    { intros. rewrite <- (Z.opp_involutive ((x1 - x0) * 65536)), Z.quot_opp_l by lia.
      assert (0 <= Z.quot (- ((x1 - x0) * 65536)) (y1 - y0)) by (apply Z.quot_pos; lia). lia. }
    assert (QA : Z.abs (Z.quot ((x1 - x0) * 65536) (y1 - y0)) <= Z.abs (x1 - x0) * 65536) by nia.
    destruct ((-32768 <=? x1 - x0) && (x1 - x0 <=? 32767)) eqn:Small.
    - apply andb_true_iff in Small. destruct Small as (S1 & S2). apply Z.leb_le in S1, S2.
      unfold left_shift. change (2 ^ 16) with 65536. rewrite wrap32_id by lia.
      destruct (((x1 - x0) * 65536 =? -2147483648) && (y1 - y0 =? -1)) eqn:OV.
      + apply andb_true_iff in OV. destruct OV as (_ & O2). apply Z.eqb_eq in O2. lia.
      + eexists. split; [reflexivity|]. repeat split; [exact QB | lia | exact QS1 | exact QS2].
    - unfold fdot16_div. destruct (Z.eqb_spec (y1 - y0) 0) as [Z0 | _]; [lia|].
      set (v := Z.quot ((x1 - x0) * 65536) (y1 - y0)) in *.
      eexists. split; [reflexivity|]. repeat split.
      + assert (Z.abs (Z.max (-2147483648) (Z.min v 2147483647)) <= Z.abs v) by lia. nia.
      + lia.
      + intros H. specialize (QS1 H). lia.
      + intros H. specialize (QS2 H). lia. }
  destruct SD as (slope & Es & Bs & Bs32 & Sp & Sn). rewrite Es.
  (* dy: from y0 up to the first row centre, which lies inside (y0, y1] *)
  assert (CD : compute_dy top y0 = Some (64 * top + 32 - y0)).
  { unfold compute_dy, bind, left_shift. change (2 ^ 6) with 64. rewrite wrap32_id by lia. rewrite ck_some by lia. rewrite ck_some by lia. f_equal. lia. }
  rewrite CD. set (dy := 64 * top + 32 - y0).
  assert (Bdy : 0 < dy <= 64 /\ dy <= y1 - y0) by (unfold dy; nia).
  (* the first abscissa lies between the end abscissae *)
  assert (Bp : Z.abs (slope * dy) <= Z.abs (x1 - x0) * 65536).
  { rewrite Z.abs_mul, (Z.abs_eq dy) by lia. nia. }
  assert (Bq : Z.abs (slope * dy / 65536) <= Z.abs (x1 - x0) /\ (0 <= x1 - x0 -> 0 <= slope * dy / 65536) /\ (x1 - x0 <= 0 -> slope * dy / 65536 <= 0)).
  { pose proof (Z.div_mod (slope * dy) 65536 ltac:(lia)) as D. pose proof (Z.mod_pos_bound (slope * dy) 65536 ltac:(lia)) as M.
    split; [|split].
    - destruct (Z_le_gt_dec 0 (x1 - x0)) as [P | N].
      + specialize (Sp P). assert (0 <= slope * dy) by nia. rewrite Z.abs_eq in Bp by lia. rewrite (Z.abs_eq (x1 - x0)) in * by lia.
        assert (0 <= slope * dy / 65536) by (apply Z.div_pos; lia). rewrite Z.abs_eq by lia. nia.
      + specialize (Sn ltac:(lia)). assert (slope * dy <= 0) by nia.
        rewrite (Z.abs_neq (x1 - x0)) in * by lia. rewrite (Z.abs_neq (slope * dy)) in Bp by lia.
        assert (slope * dy / 65536 <= 0) by (apply Z.div_le_upper_bound; lia). rewrite Z.abs_neq by lia. nia.
    - intros P. specialize (Sp P). apply Z.div_pos; [nia | lia].
    - intros N. specialize (Sn N). apply Z.div_le_upper_bound; [lia | nia]. }
  destruct Bq as (Bq & Qp & Qn).
  assert (Em : fdot16_mul slope dy = slope * dy / 65536).
  { unfold fdot16_mul. rewrite sar16. apply wrap32_id. lia. }
  rewrite Em.
  assert (Bxx : Z.abs (x0 + slope * dy / 65536) <= 1048576).
  { destruct (Z_le_gt_dec 0 (x1 - x0)) as [P | N].
    - specialize (Qp P). rewrite (Z.abs_eq (x1 - x0)) in Bq by lia. rewrite (Z.abs_eq (slope * dy / 65536)) in Bq by lia. lia.
    - specialize (Qn ltac:(lia)). rewrite (Z.abs_neq (x1 - x0)) in Bq by lia. rewrite (Z.abs_neq (slope * dy / 65536)) in Bq by lia. lia. }
  rewrite ck_some by lia. rewrite (ck_some (bot - 1)) by lia.
  set (xx := x0 + slope * dy / 65536) in *.
  assert (F16 : fdot6_to_fdot16 xx = Some (xx * 1024)).
  { unfold fdot6_to_fdot16, left_shift. change (2 ^ 10) with 1024. rewrite wrap32_id by lia. rewrite sar10, Z.div_mul by lia.
    rewrite Z.eqb_refl. reflexivity. }
  rewrite F16. discriminate.
Qed.

(* LineEdge::new on points whose FDot6 coordinates are within +-2^20 *)
Theorem line_edge_new_no_panic p0 p1 shift :
  B20 (fd6 (px p0) shift) -> B20 (fd6 (py p0) shift) -> B20 (fd6 (px p1) shift) -> B20 (fd6 (py p1) shift) ->
  line_edge_new p0 p1 shift <> None.
Proof.
  intros A B C D. rewrite line_edge_new_setup. destruct (Z.ltb_spec (fd6 (py p1) shift) (fd6 (py p0) shift)).
  - apply edge_setup_no_panic; try assumption. lia.
  - apply edge_setup_no_panic; try assumption.
Qed.

(* ... in terms of the float coordinates: every coordinate finite and within +-2^(14 - shift) px *)
From Coq Require Import Reals.
From Flocq Require Import Core.Zaux Core.Raux Core.Defs IEEE754.BinarySingleNaN.
From TS Require Import Proofs.RectPoints Proofs.QuadMono.
Definition px_ok (shift : Z) (v : f32) : Prop := fin v /\ (Rabs (R32 v) <= bpow radix2 (14 - shift))%R.

Theorem line_edge_new_no_panic_px p0 p1 shift :
  0 <= shift <= 8 -> px_ok shift (px p0) -> px_ok shift (py p0) -> px_ok shift (px p1) -> px_ok shift (py p1) ->
  line_edge_new p0 p1 shift <> None.
Proof.
  intros Hs (F1 & B1) (F2 & B2) (F3 & B3) (F4 & B4).
  apply line_edge_new_no_panic; unfold B20; apply fd6_small; assumption.
Qed.

(* ---- the whole edge builder of a line-only path -------------------------------------------------------------------------- *)
Definition pt_ok (shift : Z) (p : pt) : Prop := px_ok shift (px p) /\ px_ok shift (py p).

Lemma zero_pt_ok shift : 0 <= shift <= 8 -> pt_ok shift zero_pt.
Proof.
  intros Hs. assert (Z0 : px_ok shift F32.zero).
  { split; [reflexivity|]. change (R32 F32.zero) with 0%R. rewrite Rabs_R0. apply bpow_ge_0. }
  split; exact Z0.
Qed.

Lemma path_lines_ok shift : forall vs ps last mv nc segs,
  path_lines_aux vs ps last mv nc = Some segs -> Forall (pt_ok shift) ps -> pt_ok shift last -> pt_ok shift mv ->
  Forall (fun s => pt_ok shift (fst s) /\ pt_ok shift (snd s)) segs.
Proof.
  induction vs as [|v vs IH]; intros ps last mv nc segs H Hps Hl Hm; cbn [path_lines_aux] in H.
  - injection H as H. subst segs. destruct nc; [constructor; [split; assumption | constructor] | constructor].
  - destruct v; try discriminate.
    + destruct ps as [|p ps']; [discriminate|]. inversion Hps as [|? ? Hp Hps']; subst.
      destruct (path_lines_aux vs ps' p p false) as [r|] eqn:R; [|discriminate]. cbn [option_map] in H. injection H as H. subst segs.
      apply Forall_app. split; [destruct nc; [constructor; [split; assumption | constructor] | constructor]|].
      exact (IH _ _ _ _ _ R Hps' Hp Hp).
    + destruct ps as [|p ps']; [discriminate|]. inversion Hps as [|? ? Hp Hps']; subst.
      destruct (path_lines_aux vs ps' p mv true) as [r|] eqn:R; [|discriminate]. cbn [option_map] in H. injection H as H. subst segs.
      constructor; [split; assumption|]. exact (IH _ _ _ _ _ R Hps' Hp Hm).
    + destruct (path_lines_aux vs ps mv mv false) as [r|] eqn:R; [|discriminate]. cbn [option_map] in H. injection H as H. subst segs.
      apply Forall_app. split; [destruct nc; [constructor; [split; assumption | constructor] | constructor]|].
      exact (IH _ _ _ _ _ R Hps Hm Hm).
Qed.

Lemma build_edges_aux_no_panic shift : 0 <= shift <= 8 -> forall segs acc,
  Forall (fun s => pt_ok shift (fst s) /\ pt_ok shift (snd s)) segs -> build_edges_aux segs shift acc <> None.
Proof.
  intros Hs. induction segs as [|[p0 p1] r IH]; intros acc H; cbn [build_edges_aux]; [discriminate|].
  inversion H as [|? ? ((A & B) & (C & D)) Hr]; subst. cbn [fst snd] in *.
  pose proof (line_edge_new_no_panic_px p0 p1 shift Hs A B C D) as NP.
  destruct (line_edge_new p0 p1 shift) as [[e|]|]; [apply IH; exact Hr | apply IH; exact Hr | contradiction].
Qed.

(* the edge builder cannot panic on a line-only path whose points are finite and within +-2^(14 - shift) px *)
Theorem build_edges_no_panic p shift segs :
  0 <= shift <= 8 -> path_lines p = Some segs -> Forall (pt_ok shift) (ppoints p) -> build_edges p shift <> None.
Proof.
  intros Hs PL Hp. unfold build_edges. rewrite PL.
  pose proof (path_lines_ok shift _ _ _ _ _ _ PL Hp (zero_pt_ok shift Hs) (zero_pt_ok shift Hs)) as Ok.
  pose proof (build_edges_aux_no_panic shift Hs segs [] Ok) as NP.
  destruct (build_edges_aux segs shift []); [discriminate | contradiction].
Qed.
