(* C16: with a whole-pixel translation the nearest-neighbour coordinate chain is exact: destination pixel (c, r) reads
   source pixel (c - tx, r - ty).  All binary32 operations of seed_shader / transform / gather are exact on
   half-integers below 2^23, so the statement is about the bit-exact model, not an idealisation. *)
From Coq Require Import ZArith Bool List Lia Reals Lra.
From Flocq Require Import Core.Zaux Core.Raux Core.Defs Core.Generic_fmt Core.FLT Core.FIX Core.Float_prop IEEE754.BinarySingleNaN.
From TS Require Import Base.F32 Base.Wide Model.Rect Model.WideBackends Model.Sampler Model.Nearest Proofs.RectPoints Proofs.SamplerProofs.
Import ListNotations.
Local Open Scope Z_scope.

Notation fexp32 := (SpecFloat.fexp 24 128).
Notation rnd := (round radix2 fexp32 (round_mode mode_NE)).

(* [val x n]: x is finite and its value is n/2 *)
Definition val (x : f32) (n : Z) : Prop := fin x /\ R32 x = (IZR n / 2)%R.

Lemma format_half n : Z.abs n < 16777216 -> generic_format radix2 fexp32 (IZR n / 2).
Proof.
  intros H. apply (generic_format_FLT radix2 (-149) 24). apply (FLT_spec radix2 (-149) 24 _ (Float radix2 n (-1))).
  - unfold F2R. cbn [Fnum Fexp bpow]. unfold Z.pow_pos. cbn. lra.
  - cbn [Fnum]. exact H.
  - cbn [Fexp]. lia.
Qed.

Lemma half_lt_emax n : Z.abs n < 16777216 -> (Rabs (IZR n / 2) < bpow radix2 128)%R.
Proof.
  intros H. apply Rle_lt_trans with (IZR 16777216).
  - unfold Rdiv. rewrite Rabs_mult, <- abs_IZR, (Rabs_pos_eq (/ 2)) by lra.
    assert (IZR (Z.abs n) <= IZR 16777216)%R by (apply IZR_le; lia). lra.
  - change (IZR 16777216) with (bpow radix2 24). apply bpow_lt. lia.
Qed.

Lemma rnd_half n : Z.abs n < 16777216 -> rnd (IZR n / 2) = (IZR n / 2)%R.
Proof. intros H. apply round_generic; [apply valid_rnd_N | apply format_half; exact H]. Qed.

Lemma val_of_Z z : Z.abs z < 8388608 -> val (F32.of_Z z) (2 * z).
Proof.
  intros H. unfold val, F32.of_Z.
  pose proof (binary_normalize_correct 24 128 eq_refl eq_refl mode_NE z 0 false) as C. cbv zeta in C.
  assert (E : F2R (Float radix2 z 0) = (IZR (2 * z) / 2)%R) by (unfold F2R; cbn [Fnum Fexp]; change (bpow radix2 0) with 1%R; rewrite mult_IZR; lra).
  rewrite E in C. rewrite rnd_half in C by lia. rewrite (Rlt_bool_true _ _ (half_lt_emax (2 * z) ltac:(lia))) in C.
  destruct C as (C1 & C2 & _). split; [exact C2 | exact C1].
Qed.

Lemma val_half : val F32.half 1.
Proof. split; [reflexivity|]. unfold F32.half. set (x := F32.of_bits 1056964608). vm_compute in x. subst x. unfold B2R, F2R. cbn. lra. Qed.
Lemma val_one : val F32.one 2.
Proof. split; [reflexivity|]. unfold F32.one. set (x := F32.of_bits 1065353216). vm_compute in x. subst x. unfold B2R, F2R. cbn. lra. Qed.
Lemma val_zero : val F32.zero 0.
Proof. split; [reflexivity|]. change (R32 F32.zero) with 0%R. lra. Qed.

Lemma val_add x y n m : val x n -> val y m -> Z.abs (n + m) < 16777216 -> val (F32.add x y) (n + m).
Proof.
  intros (Fx & Rx) (Fy & Ry) H. unfold val, F32.add.
  pose proof (Bplus_correct 24 128 eq_refl eq_refl mode_NE x y Fx Fy) as C.
  assert (E : (R32 x + R32 y = IZR (n + m) / 2)%R) by (rewrite Rx, Ry, plus_IZR; lra).
  rewrite E in C. rewrite rnd_half in C by exact H. rewrite (Rlt_bool_true _ _ (half_lt_emax _ H)) in C.
  destruct C as (C1 & C2 & _). split; [exact C2 | exact C1].
Qed.

(* a product whose exact value is a representable half-integer *)
Lemma val_mul x y n m k : val x n -> val y m -> n * m = 2 * k -> Z.abs k < 16777216 -> val (F32.mul x y) k.
Proof.
  intros (Fx & Rx) (Fy & Ry) Hk H. unfold val, F32.mul.
  pose proof (Bmult_correct 24 128 eq_refl eq_refl mode_NE x y) as C.
  assert (E : (R32 x * R32 y = IZR k / 2)%R).
  { rewrite Rx, Ry. replace (IZR n / 2 * (IZR m / 2))%R with (IZR (n * m) / 4)%R by (rewrite mult_IZR; lra). rewrite Hk, mult_IZR. lra. }
  rewrite E in C. rewrite rnd_half in C by exact H. rewrite (Rlt_bool_true _ _ (half_lt_emax _ H)) in C.
  destruct C as (C1 & C2 & _). unfold fin, F32.is_finite in *. rewrite Fx, Fy in C2. split; [exact C2 | exact C1].
Qed.

Lemma val_neg x n : val x n -> val (F32.neg x) (- n).
Proof.
  intros (Fx & Rx). unfold val, F32.neg. split.
  - unfold fin, F32.is_finite in *. rewrite is_finite_Bopp. exact Fx.
  - rewrite B2R_Bopp, Rx, opp_IZR. lra.
Qed.

Lemma val_mad x m a n k j : val x n -> val m (2 * k) -> val a j -> Z.abs (n * k) < 16777216 -> Z.abs (n * k + j) < 16777216 ->
  val (mad x m a) (n * k + j).
Proof.
  intros Hx Hm Ha H1 H2. unfold mad. apply val_add; [|exact Ha|exact H2].
  apply (val_mul x m n (2 * k)); [exact Hx | exact Hm | lia | exact H1].
Qed.

(* ---- the gather coordinate of an exact pixel centre ------------------------------------------------------------------------ *)
Definition limit_ok2 (limit : Z) : bool :=
  limit_ok limit && F32.lt (F32.add (F32.of_Z (limit - 1)) F32.half) (ulp_sub (F32.of_Z limit)).
Lemma limits_ok2 : forallb limit_ok2 (map Z.of_nat (seq 1 (Z.to_nat 16384))) = true.
Proof. vm_compute. reflexivity. Qed.

Lemma Btrunc_half x i : val x (2 * i + 1) -> 0 <= i -> Btrunc x = i.
Proof.
  intros (Fx & Rx) Hi. apply eq_IZR. rewrite Btrunc_correct by exact prec32_lt_emax. rewrite Rx.
  unfold round, F2R, scaled_mantissa, cexp, FIX_exp. cbn [Fnum Fexp bpow Z.opp]. rewrite !Rmult_1_r. cbn [round_mode].
  f_equal. rewrite Ztrunc_floor.
  - apply Zfloor_imp. rewrite plus_IZR, mult_IZR, plus_IZR. assert (0 <= IZR i)%R by (apply IZR_le; exact Hi). lra.
  - rewrite plus_IZR, mult_IZR. assert (0 <= IZR i)%R by (apply IZR_le; exact Hi). lra.
Qed.

Lemma gather_coord_centre x i limit : 1 <= limit <= 16384 -> 0 <= i < limit -> val x (2 * i + 1) -> gather_coord x limit = i.
Proof.
  intros Hl Hi Hx. pose proof Hx as (Fx & Rx).
  assert (L : limit_ok2 limit = true).
  { pose proof limits_ok2 as F. rewrite forallb_forall in F. apply F. apply in_map_iff. exists (Z.to_nat limit). split; [lia|]. apply in_seq. lia. }
  unfold limit_ok2 in L. apply andb_true_iff in L. destruct L as (L1 & L2).
  destruct (limit_ok_spec limit L1) as (Fm & Rm0 & Tm).
  set (m := ulp_sub (F32.of_Z limit)) in *.
  assert (Hc : val (F32.add (F32.of_Z (limit - 1)) F32.half) (2 * (limit - 1) + 1)).
  { apply val_add; [apply val_of_Z; lia | exact val_half | lia]. }
  destruct Hc as (Fc & Rc).
  unfold F32.lt in L2. rewrite Bltb_correct in L2 by assumption.
  assert (Lm : (IZR (2 * (limit - 1) + 1) / 2 < R32 m)%R).
  { rewrite <- Rc. revert L2. unfold Rlt_bool. destruct (Rcompare_spec (R32 (F32.add (F32.of_Z (limit - 1)) F32.half)) (R32 m)); try discriminate. auto. }
  assert (Xm : (R32 x < R32 m)%R).
  { rewrite Rx. apply Rle_lt_trans with (IZR (2 * (limit - 1) + 1) / 2)%R; [|exact Lm].
    assert (IZR (2 * i + 1) <= IZR (2 * (limit - 1) + 1))%R by (apply IZR_le; lia). lra. }
  assert (X0 : (0 < R32 x)%R).
  { rewrite Rx. assert (IZR 1 <= IZR (2 * i + 1))%R by (apply IZR_le; lia). lra. }
  unfold gather_coord.
  assert (E1 : wide_max x F32.zero = x).
  { unfold wide_max, F32.gt, F32.lt. rewrite Bltb_correct by (auto; reflexivity). change (R32 F32.zero) with 0%R. rewrite Rlt_bool_true by exact X0. reflexivity. }
  rewrite E1.
  assert (E2 : wide_min x (ulp_sub (F32.of_Z limit)) = x).
  { unfold wide_min, F32.lt. fold m. rewrite Bltb_correct by assumption. rewrite Rlt_bool_true by exact Xm. reflexivity. }
  rewrite E2. pose proof (Btrunc_half x i Hx ltac:(lia)) as T.
  unfold cvtt. destruct x as [s | s | | s mx ex Hb] eqn:Ex; try discriminate Fx.
  - exfalso. cbn in X0. lra.
  - rewrite T. destruct (i <? -2147483648) eqn:A; [apply Z.ltb_lt in A; lia|]. destruct (2147483647 <? i) eqn:B; [apply Z.ltb_lt in B; lia|]. reflexivity.
Qed.

(* ---- seed_shader and the translation are exact ------------------------------------------------------------------------------ *)
Lemma val_iota lane : 0 <= lane <= 7 -> val (iota lane) (2 * lane + 1).
Proof. intros H. unfold iota. apply val_add; [apply val_of_Z; lia | exact val_half | lia]. Qed.

Lemma val_seed_x dx lane : 0 <= dx < 4194304 -> 0 <= lane <= 7 -> val (seed_x dx lane) (2 * (dx + lane) + 1).
Proof.
  intros Hd Hl. unfold seed_x. replace (2 * (dx + lane) + 1) with (2 * dx + (2 * lane + 1)) by lia.
  apply val_add; [apply val_of_Z; lia | apply val_iota; exact Hl | lia].
Qed.
Lemma val_seed_y dy : 0 <= dy < 4194304 -> val (seed_y dy) (2 * dy + 1).
Proof. intros Hd. unfold seed_y. apply val_add; [apply val_of_Z; lia | exact val_half | lia]. Qed.

Lemma eq_zero_val x n : val x n -> eq_zero x = (n =? 0).
Proof.
  intros (Fx & Rx). unfold eq_zero, F32.eq. rewrite Beqb_correct by (auto; reflexivity). change (R32 F32.zero) with 0%R. rewrite Rx.
  destruct (n =? 0) eqn:E.
  - apply Z.eqb_eq in E. subst n. apply Req_bool_true. lra.
  - apply Z.eqb_neq in E. apply Req_bool_false. intros K. apply E. apply eq_IZR. lra.
Qed.

(* THE statement: a Pad-mode nearest shader translated by whole pixels reads, for a destination pixel whose mapped
   position lies on the source, exactly that source pixel *)
Theorem nearest_translate_exact b w h tx ty dx lane dy :
  1 <= w <= 16384 -> 1 <= h <= 16384 -> Z.abs tx < 2097152 -> Z.abs ty < 2097152 ->
  0 <= dx < 2097152 -> 0 <= lane <= 7 -> 0 <= dy < 2097152 ->
  0 <= dx + lane - tx < w -> 0 <= dy - ty < h ->
  nearest_ix b 0 w h (F32.of_Z tx) (F32.of_Z ty) dx lane dy = (dy - ty) * w + (dx + lane - tx).
Proof.
  intros Hw Hh Htx Hty Hdx Hl Hdy Hx Hy. unfold nearest_ix.
  pose proof (val_of_Z tx ltac:(lia)) as Vtx. pose proof (val_of_Z ty ltac:(lia)) as Vty.
  pose proof (val_seed_x dx lane ltac:(lia) Hl) as Vx. pose proof (val_seed_y dy ltac:(lia)) as Vy.
  rewrite (eq_zero_val _ _ Vtx), (eq_zero_val _ _ Vty).
  assert (G : forall x y, val x (2 * (dx + lane - tx) + 1) -> val y (2 * (dy - ty) + 1) ->
              gather_ix x y w h = (dy - ty) * w + (dx + lane - tx)).
  { intros x y Ax Ay. unfold gather_ix. rewrite (gather_coord_centre x (dx + lane - tx) w Hw Hx Ax), (gather_coord_centre y (dy - ty) h Hh Hy Ay). reflexivity. }
  destruct ((2 * tx =? 0) && (2 * ty =? 0)) eqn:Z0.
  - apply andb_true_iff in Z0. destruct Z0 as (Z1 & Z2). apply Z.eqb_eq in Z1, Z2.
    apply G; [replace (dx + lane - tx) with (dx + lane) by lia; exact Vx | replace (dy - ty) with dy by lia; exact Vy].
  - unfold stage_transform, inv_translate. cbn [t_sx t_ky t_kx t_sy t_tx t_ty].
    pose proof (val_neg _ _ Vtx) as Ntx. pose proof (val_neg _ _ Vty) as Nty.
    apply G.
    + (* x * 1 + (y * 0 + -tx) *)
      pose proof (val_mad (seed_y dy) F32.zero (F32.neg (F32.of_Z tx)) (2 * dy + 1) 0 (- (2 * tx)) Vy val_zero Ntx ltac:(lia) ltac:(lia)) as M1.
      pose proof (val_mad (seed_x dx lane) F32.one _ (2 * (dx + lane) + 1) 1 _ Vx val_one M1 ltac:(lia) ltac:(lia)) as M2.
      replace (2 * (dx + lane - tx) + 1) with ((2 * (dx + lane) + 1) * 1 + ((2 * dy + 1) * 0 + - (2 * tx))) by lia. exact M2.
    + (* x * 0 + (y * 1 + -ty) *)
      pose proof (val_mad (seed_y dy) F32.one (F32.neg (F32.of_Z ty)) (2 * dy + 1) 1 (- (2 * ty)) Vy val_one Nty ltac:(lia) ltac:(lia)) as M1.
      pose proof (val_mad (seed_x dx lane) F32.zero _ (2 * (dx + lane) + 1) 0 _ Vx val_zero M1 ltac:(lia) ltac:(lia)) as M2.
      replace (2 * (dy - ty) + 1) with ((2 * (dx + lane) + 1) * 0 + ((2 * dy + 1) * 1 + - (2 * ty))) by lia. exact M2.
Qed.

(* ---- pad: outside the source the gather stage clamps to the nearest edge pixel ----------------------------------------------- *)
Definition limit_ok3 (limit : Z) : bool := F32.lt (ulp_sub (F32.of_Z limit)) (F32.of_Z limit) && F32.lt F32.zero (ulp_sub (F32.of_Z limit)).
Lemma limits_ok3 : forallb limit_ok3 (map Z.of_nat (seq 1 (Z.to_nat 16384))) = true.
Proof. vm_compute. reflexivity. Qed.

Definition clampZ (i n : Z) : Z := Z.max 0 (Z.min i (n - 1)).

Lemma gather_coord_clamp x i limit : 1 <= limit <= 16384 -> Z.abs i < 8388608 -> val x (2 * i + 1) -> gather_coord x limit = clampZ i limit.
Proof.
  intros Hl Hi Hx. unfold clampZ.
  destruct (Z_lt_le_dec i 0) as [Neg | Pos]; [| destruct (Z_lt_le_dec i limit) as [In | Out]].
  - (* left of the image: max(x, 0) = 0 *)
    pose proof Hx as (Fx & Rx).
    assert (L : limit_ok3 limit = true).
    { pose proof limits_ok3 as F. rewrite forallb_forall in F. apply F. apply in_map_iff. exists (Z.to_nat limit). split; [lia|]. apply in_seq. lia. }
    unfold limit_ok3 in L. apply andb_true_iff in L. destruct L as (_ & L2).
    assert (X0 : (R32 x < 0)%R).
    { rewrite Rx. assert (IZR (2 * i + 1) <= IZR (-1))%R by (apply IZR_le; lia). lra. }
    unfold gather_coord.
    assert (E1 : wide_max x F32.zero = F32.zero).
    { unfold wide_max, F32.gt, F32.lt. rewrite Bltb_correct by (auto; reflexivity). change (R32 F32.zero) with 0%R.
      rewrite Rlt_bool_false by lra. reflexivity. }
    rewrite E1. unfold wide_min. rewrite L2. cbn. lia.
  - rewrite (gather_coord_centre x i limit Hl (conj Pos In) Hx). lia.
  - (* right of the image: min(x, ulp_sub(limit)) = ulp_sub(limit), which truncates to limit - 1 *)
    pose proof Hx as (Fx & Rx).
    assert (L : limit_ok3 limit = true).
    { pose proof limits_ok3 as F. rewrite forallb_forall in F. apply F. apply in_map_iff. exists (Z.to_nat limit). split; [lia|]. apply in_seq. lia. }
    unfold limit_ok3 in L. apply andb_true_iff in L. destruct L as (L1 & L2).
    assert (Lk : limit_ok limit = true).
    { pose proof limits_ok as F. rewrite forallb_forall in F. apply F. apply in_map_iff. exists (Z.to_nat limit). split; [lia|]. apply in_seq. lia. }
    pose proof Lk as Lk'. unfold limit_ok in Lk'. apply andb_true_iff in Lk'. destruct Lk' as (Lk1 & T). apply andb_true_iff in Lk1. destruct Lk1 as (Fm & _).
    apply Z.eqb_eq in T. set (m := ulp_sub (F32.of_Z limit)) in *.
    pose proof (val_of_Z limit ltac:(lia)) as (Fl & Rl).
    unfold F32.lt in L1. rewrite Bltb_correct in L1 by assumption.
    assert (Lm : (R32 m < IZR limit)%R).
    { revert L1. unfold Rlt_bool. destruct (Rcompare_spec (R32 m) (R32 (F32.of_Z limit))) as [C | C | C]; try discriminate. intros _.
      rewrite Rl in C. rewrite mult_IZR in C. lra. }
    assert (X0 : (0 < R32 x)%R).
    { rewrite Rx. assert (IZR 1 <= IZR (2 * i + 1))%R by (apply IZR_le; lia). lra. }
    assert (Xm : (R32 m < R32 x)%R).
    { rewrite Rx. assert (IZR (2 * limit + 1) <= IZR (2 * i + 1))%R by (apply IZR_le; lia). rewrite plus_IZR, mult_IZR in H. lra. }
    unfold gather_coord.
    assert (E1 : wide_max x F32.zero = x).
    { unfold wide_max, F32.gt, F32.lt. rewrite Bltb_correct by (auto; reflexivity). change (R32 F32.zero) with 0%R. rewrite Rlt_bool_true by exact X0. reflexivity. }
    rewrite E1.
    assert (E2 : wide_min x (ulp_sub (F32.of_Z limit)) = m).
    { unfold wide_min, F32.lt. fold m. rewrite Bltb_correct by assumption. rewrite Rlt_bool_false by lra. reflexivity. }
    rewrite E2. unfold cvtt. destruct m as [s | s | | s mx ex Hb] eqn:Em; try discriminate Fm.
    + cbn in T. lia.
    + rewrite T. destruct (limit - 1 <? -2147483648) eqn:A; [apply Z.ltb_lt in A; lia|]. destruct (2147483647 <? limit - 1) eqn:B; [apply Z.ltb_lt in B; lia|]. cbn [orb]. lia.
Qed.

(* THE pad statement: with an integer translation the nearest sampler reads, for EVERY destination pixel, the source pixel at the
   mapped position clamped to the image (inside the source rectangle this is nearest_translate_exact) *)
Theorem nearest_translate_pad b w h tx ty dx lane dy :
  1 <= w <= 16384 -> 1 <= h <= 16384 -> Z.abs tx < 2097152 -> Z.abs ty < 2097152 ->
  0 <= dx < 2097152 -> 0 <= lane <= 7 -> 0 <= dy < 2097152 ->
  nearest_ix b 0 w h (F32.of_Z tx) (F32.of_Z ty) dx lane dy = clampZ (dy - ty) h * w + clampZ (dx + lane - tx) w.
Proof.
  intros Hw Hh Htx Hty Hdx Hl Hdy. unfold nearest_ix.
  pose proof (val_of_Z tx ltac:(lia)) as Vtx. pose proof (val_of_Z ty ltac:(lia)) as Vty.
  pose proof (val_seed_x dx lane ltac:(lia) Hl) as Vx. pose proof (val_seed_y dy ltac:(lia)) as Vy.
  rewrite (eq_zero_val _ _ Vtx), (eq_zero_val _ _ Vty).
  assert (G : forall x y, val x (2 * (dx + lane - tx) + 1) -> val y (2 * (dy - ty) + 1) ->
              gather_ix x y w h = clampZ (dy - ty) h * w + clampZ (dx + lane - tx) w).
  { intros x y Ax Ay. unfold gather_ix. rewrite (gather_coord_clamp x (dx + lane - tx) w Hw ltac:(lia) Ax), (gather_coord_clamp y (dy - ty) h Hh ltac:(lia) Ay). reflexivity. }
  destruct ((2 * tx =? 0) && (2 * ty =? 0)) eqn:Z0.
  - apply andb_true_iff in Z0. destruct Z0 as (Z1 & Z2). apply Z.eqb_eq in Z1, Z2.
    replace (dx + lane - tx) with (dx + lane) in * by lia. replace (dy - ty) with dy in * by lia. apply G; assumption.
  - unfold stage_transform, inv_translate. cbn [t_sx t_ky t_kx t_sy t_tx t_ty].
    pose proof (val_neg _ _ Vtx) as Ntx. pose proof (val_neg _ _ Vty) as Nty.
    apply G.
    + pose proof (val_mad (seed_y dy) F32.zero (F32.neg (F32.of_Z tx)) (2 * dy + 1) 0 (- (2 * tx)) Vy val_zero Ntx ltac:(lia) ltac:(lia)) as M1.
      pose proof (val_mad (seed_x dx lane) F32.one _ (2 * (dx + lane) + 1) 1 _ Vx val_one M1 ltac:(lia) ltac:(lia)) as M2.
      replace (2 * (dx + lane - tx) + 1) with ((2 * (dx + lane) + 1) * 1 + ((2 * dy + 1) * 0 + - (2 * tx))) by lia. exact M2.
    + pose proof (val_mad (seed_y dy) F32.one (F32.neg (F32.of_Z ty)) (2 * dy + 1) 1 (- (2 * ty)) Vy val_one Nty ltac:(lia) ltac:(lia)) as M1.
      pose proof (val_mad (seed_x dx lane) F32.zero _ (2 * (dx + lane) + 1) 0 _ Vx val_zero M1 ltac:(lia) ltac:(lia)) as M2.
      replace (2 * (dy - ty) + 1) with ((2 * (dx + lane) + 1) * 0 + ((2 * dy + 1) * 1 + - (2 * ty))) by lia. exact M2.
Qed.
