(* The gather index never leaves the source image (binary32, every input incl. NaN / infinities). *)
From Coq Require Import ZArith Bool List Lia Reals Lra.
From Flocq Require Import Core.Raux Core.Defs Core.Generic_fmt Core.FIX IEEE754.BinarySingleNaN.
From TS Require Import Base.F32 Base.Wide Model.Rect Model.WideBackends Model.Sampler Proofs.RectPoints.
Import ListNotations.
Local Open Scope Z_scope.

Lemma Btrunc_mono (a b : f32) : (R32 a <= R32 b)%R -> Btrunc a <= Btrunc b.
Proof.
  intros H. apply le_IZR. rewrite !Btrunc_correct by exact prec32_lt_emax.
  apply round_le; [apply FIX_exp_valid | apply valid_rnd_ZR | exact H].
Qed.

Lemma Btrunc_zero : Btrunc F32.zero = 0. Proof. reflexivity. Qed.

(* x.max(0).min(m) for a finite m >= 0 is finite and between 0 and m, whatever x is *)
Lemma clamp_coord x m : fin m -> (0 <= R32 m)%R ->
  let c := wide_min (wide_max x F32.zero) m in fin c /\ (0 <= R32 c <= R32 m)%R.
Proof.
  intros Hm Hm0. cbv zeta. unfold wide_min, wide_max, F32.gt, F32.lt.
  destruct (Bltb F32.zero x) eqn:E1.
  - (* x > 0: x is not NaN; it may be +inf *)
    destruct (Bltb x m) eqn:E2.
    + assert (Hx : fin x).
      { unfold fin, F32.is_finite. destruct x as [s | s | | s mx ex Hb]; try reflexivity; try discriminate.
        destruct s; [discriminate E1 | ]. destruct m; discriminate. }
      rewrite Bltb_correct in E1, E2 by (auto; reflexivity).
      split; [exact Hx|].
      revert E1 E2. unfold Rlt_bool. destruct (Rcompare_spec (R32 F32.zero) (R32 x)); try discriminate.
      destruct (Rcompare_spec (R32 x) (R32 m)); try discriminate. intros _ _.
      change (R32 F32.zero) with 0%R in *. lra.
    + split; [exact Hm | lra].
  - (* not (0 < x): NaN, zero or negative -> 0 *)
    destruct (Bltb F32.zero m) eqn:E2.
    + split; [reflexivity|]. change (R32 F32.zero) with 0%R. lra.
    + split; [exact Hm | lra].
Qed.

Theorem gather_coord_in_bounds x limit :
  let m := ulp_sub (F32.of_Z limit) in
  fin m -> (0 <= R32 m)%R -> Btrunc m <= limit - 1 -> limit <= 2147483647 ->
  0 <= gather_coord x limit <= limit - 1.
Proof.
  cbv zeta. intros Hm Hm0 Ht Hl. unfold gather_coord.
  destruct (clamp_coord x _ Hm Hm0) as (Hc & Hc0 & Hc1).
  set (c := wide_min (wide_max x F32.zero) (ulp_sub (F32.of_Z limit))) in *.
  assert (B0 : 0 <= Btrunc c) by (rewrite <- Btrunc_zero; apply Btrunc_mono; change (R32 F32.zero) with 0%R; exact Hc0).
  assert (B1 : Btrunc c <= limit - 1) by (etransitivity; [apply Btrunc_mono; exact Hc1 | exact Ht]).
  unfold cvtt. destruct c as [s | s | | s mc ec Hb] eqn:Ec; try discriminate Hc.
  - lia.
  - fold c in B0, B1. rewrite <- Ec in *.
    destruct (Btrunc c <? -2147483648) eqn:E1; [apply Z.ltb_lt in E1; lia|].
    destruct (2147483647 <? Btrunc c) eqn:E2; [apply Z.ltb_lt in E2; lia|]. cbn [orb]. lia.
Qed.

(* the side condition on ulp_sub(limit) holds for every image dimension up to 16384 (complete finite check) *)
Definition limit_ok (limit : Z) : bool :=
  let m := ulp_sub (F32.of_Z limit) in
  F32.is_finite m && F32.le F32.zero m && (Btrunc m =? limit - 1).
Lemma limits_ok : forallb limit_ok (map Z.of_nat (seq 1 (Z.to_nat 16384))) = true.
Proof. vm_compute. reflexivity. Qed.

Lemma limit_ok_spec limit : limit_ok limit = true ->
  fin (ulp_sub (F32.of_Z limit)) /\ (0 <= R32 (ulp_sub (F32.of_Z limit)))%R /\ Btrunc (ulp_sub (F32.of_Z limit)) <= limit - 1.
Proof.
  unfold limit_ok. intros H. apply andb_true_iff in H. destruct H as (H & H3). apply andb_true_iff in H. destruct H as (H1 & H2).
  apply Z.eqb_eq in H3. split; [exact H1|]. split; [|lia].
  unfold F32.le in H2. rewrite Bleb_correct in H2 by (auto; reflexivity).
  revert H2. unfold Rle_bool. destruct (Rcompare_spec (R32 F32.zero) (R32 (ulp_sub (F32.of_Z limit)))); try discriminate;
    intros _; change (R32 F32.zero) with 0%R in *; lra.
Qed.

(* THE safety statement of the gather stage: for every pair of coordinates (NaN, infinities, anything) and every
   source size up to 16384 x 16384 the computed index addresses a pixel of the source *)
Theorem gather_ix_in_bounds x y w h :
  1 <= w <= 16384 -> 1 <= h <= 16384 -> 0 <= gather_ix x y w h < w * h.
Proof.
  intros Hw Hh.
  assert (L : forall n, 1 <= n <= 16384 -> limit_ok n = true).
  { intros n Hn. pose proof limits_ok as F. rewrite forallb_forall in F. apply F.
    apply in_map_iff. exists (Z.to_nat n). split; [lia|]. apply in_seq. lia. }
  destruct (limit_ok_spec w (L w Hw)) as (A1 & A2 & A3). destruct (limit_ok_spec h (L h Hh)) as (B1 & B2 & B3).
  pose proof (gather_coord_in_bounds x w A1 A2 A3 ltac:(lia)) as Gx.
  pose proof (gather_coord_in_bounds y h B1 B2 B3 ltac:(lia)) as Gy.
  unfold gather_ix. nia.
Qed.
