(* AlphaRuns refinement, part 2: AlphaRuns::add is the per-pixel update dense_add on the dense view. *)
From Coq Require Import ZArith Bool List Lia.
From TS Require Import Model.AlphaRuns Proofs.AlphaRefine.
Import ListNotations.
Local Open Scope Z_scope.

(* ---- the per-pixel operations on concatenated lists ----------------------------------------------------------- *)
Lemma getz_app_r (A B : list Z) i : 0 <= i -> getz (A ++ B) (Z.of_nat (length A) + i) = getz B i.
Proof.
  intros Hi. unfold getz. destruct (Z.ltb_spec (Z.of_nat (length A) + i) 0); [lia|]. destruct (Z.ltb_spec i 0); [lia|].
  rewrite nth_error_app2 by lia. f_equal. lia.
Qed.
Lemma set_nth_app_r : forall (A B : list Z) n v, set_nth (A ++ B) (length A + n) v = option_map (app A) (set_nth B n v).
Proof.
  induction A as [|a A IH]; intros B n v; cbn [app length Nat.add].
  - destruct (set_nth B n v); reflexivity.
  - cbn [set_nth]. rewrite IH. destruct (set_nth B n v); reflexivity.
Qed.
Lemma setz_app_r (A B : list Z) i v : 0 <= i -> setz (A ++ B) (Z.of_nat (length A) + i) v = option_map (app A) (setz B i v).
Proof.
  intros Hi. unfold setz. destruct (Z.ltb_spec (Z.of_nat (length A) + i) 0); [lia|]. destruct (Z.ltb_spec i 0); [lia|].
  replace (Z.to_nat (Z.of_nat (length A) + i)) with (length A + Z.to_nat i)%nat by lia. apply set_nth_app_r.
Qed.

Lemma upd_app_r (A B : list Z) i f : 0 <= i -> upd (A ++ B) (Z.of_nat (length A) + i) f = option_map (app A) (upd B i f).
Proof.
  intros Hi. unfold upd. rewrite getz_app_r by lia. destruct (getz B i) as [a|]; cbn [bind option_map]; [|reflexivity].
  destruct (f a) as [v|]; cbn [bind option_map]; [|reflexivity]. apply setz_app_r. lia.
Qed.

Lemma upd_head a B f : upd (a :: B) 0 f = option_map (fun v => v :: B) (f a).
Proof. unfold upd, getz, setz. cbn. destruct (f a); reflexivity. Qed.

(* updating n consecutive equal pixels *)
Lemma upd_range_repeat : forall n a B f v, f a = Some v ->
  upd_range (repeat a n ++ B) 0 n f = Some (repeat v n ++ B).
Proof.
  induction n as [|n IH]; intros a B f v Hf; cbn [repeat app upd_range]; [reflexivity|].
  rewrite upd_head, Hf. cbn [option_map bind].
  change (v :: repeat a n ++ B) with ([v] ++ (repeat a n ++ B)).
  assert (G : forall m k l, 0 <= k -> upd_range ([v] ++ l) (1 + k) m f = option_map (app [v]) (upd_range l k m f)).
  { induction m as [|m IHm]; intros k l Hk; cbn [upd_range]; [reflexivity|].
    change (1 + k) with (Z.of_nat (length [v]) + k). rewrite upd_app_r by lia.
    destruct (upd l k f) as [l'|]; cbn [bind option_map]; [|reflexivity].
    change (Z.of_nat (length [v])) with 1. replace (1 + k + 1) with (1 + (k + 1)) by lia. apply IHm. lia. }
  replace (0 + 1) with (1 + 0) by lia. rewrite G by lia. rewrite (IH a B f v Hf). reflexivity.
Qed.

Lemma upd_range_shift (A : list Z) f : forall m L i, 0 <= i ->
  upd_range (A ++ L) (Z.of_nat (length A) + i) m f = option_map (app A) (upd_range L i m f).
Proof.
  induction m as [|m IH]; intros L i Hi; cbn [upd_range]; [reflexivity|].
  rewrite upd_app_r by lia. destruct (upd L i f) as [L'|]; cbn [bind option_map]; [|reflexivity].
  replace (Z.of_nat (length A) + i + 1) with (Z.of_nat (length A) + (i + 1)) by lia. apply IH. lia.
Qed.

Lemma upd_range_add f : forall n m l i,
  upd_range l i (n + m) f = bind (upd_range l i n f) (fun l' => upd_range l' (i + Z.of_nat n) m f).
Proof.
  induction n as [|n IH]; intros m l i; cbn [Nat.add upd_range bind].
  - now rewrite Z.add_0_r.
  - destruct (upd l i f) as [l'|]; cbn [bind]; [|reflexivity]. rewrite IH. replace (i + 1 + Z.of_nat n) with (i + Z.of_nat (S n)) by lia. reflexivity.
Qed.

Lemma upd_length l i f l' : upd l i f = Some l' -> length l' = length l.
Proof.
  unfold upd. destruct (getz l i) as [a|]; cbn [bind]; [|discriminate]. destruct (f a) as [v|]; cbn [bind]; [|discriminate].
  apply setz_length.
Qed.

(* ---- applying a function to the alpha of every run of a list -------------------------------------------------------- *)
Fixpoint map_alpha (f : Z -> option Z) (l : list seg) : option (list seg) :=
  match l with
  | [] => Some []
  | (n, a) :: r => match f a, map_alpha f r with Some v, Some r' => Some ((n, v) :: r') | _, _ => None end
  end.

Lemma flat_length : forall l, Forall (fun s => 0 < fst s) l -> Z.of_nat (length (flat l)) = total l.
Proof.
  induction 1 as [|[n a] r Hn Hr IH]; [reflexivity|]. cbn [fst] in Hn.
  unfold flat in *. cbn [map concat total fold_right fst snd]. rewrite app_length, repeat_length. fold (total r). lia.
Qed.

Lemma map_alpha_total f : forall l l', map_alpha f l = Some l' -> total l' = total l /\ length l' = length l /\
  (Forall (fun s => 0 < fst s) l -> Forall (fun s => 0 < fst s) l').
Proof.
  induction l as [|[n a] r IH]; intros l' H; cbn [map_alpha] in H.
  - injection H as <-. auto.
  - destruct (f a) as [v|]; [|discriminate]. destruct (map_alpha f r) as [r'|]; [|discriminate]. injection H as <-.
    destruct (IH r' eq_refl) as (T & L & P). cbn [total fold_right fst length]. fold (total r') (total r). split; [lia|]. split; [lia|].
    intros Hp. inversion Hp; subst. constructor; auto.
Qed.

(* updating all pixels of a list of runs = mapping their alpha *)
Lemma upd_range_flat f : forall l2 B, Forall (fun s => 0 < fst s) l2 ->
  upd_range (flat l2 ++ B) 0 (Z.to_nat (total l2)) f = option_map (fun l2' => flat l2' ++ B) (map_alpha f l2).
Proof.
  induction l2 as [|[n a] r IH]; intros B Hp; [reflexivity|].
  inversion Hp as [|? ? Hn Hr]; subst. cbn [fst] in Hn.
  cbn [total fold_right fst map_alpha]. fold (total r).
  pose proof (total_nonneg r Hr) as Tr.
  replace (Z.to_nat (n + total r)) with (Z.to_nat n + Z.to_nat (total r))%nat by lia.
  rewrite upd_range_add. unfold flat at 1. cbn [map concat fst snd]. fold (flat r). rewrite <- app_assoc.
  destruct (f a) as [v|] eqn:Ef.
  - rewrite (upd_range_repeat (Z.to_nat n) a (flat r ++ B) f v Ef). cbn [bind].
    replace (0 + Z.of_nat (Z.to_nat n)) with (Z.of_nat (length (repeat v (Z.to_nat n))) + 0) by (rewrite repeat_length; lia).
    rewrite upd_range_shift by lia. rewrite IH by exact Hr.
    destruct (map_alpha f r) as [r'|]; cbn [option_map]; [|reflexivity].
    unfold flat at 2. cbn [map concat fst snd]. fold (flat r'). now rewrite <- app_assoc.
  - (* the first pixel already fails *)
    destruct (Z.to_nat n) as [|k] eqn:Ek; [lia|]. cbn [repeat app upd_range]. rewrite upd_head, Ef. reflexivity.
Qed.

(* ---- changing the alpha of one run ---------------------------------------------------------------------------------- *)
Lemma alpha_set_spec lr la l1 n a l3 off v al :
  Rep lr la off (l1 ++ (n, a) :: l3) -> setz la (off + total l1) v = Some al ->
  Rep lr al off (l1 ++ (n, v) :: l3).
Proof.
  intros HR Hs. apply Rep_app in HR. destruct HR as (RP & Hn & H1 & H2 & H3). apply Rep_app. split.
  - apply (RepP_frame lr la); [reflexivity | | exact RP]. intros i Hi. apply (getz_setz_other _ _ _ _ i Hs). lia.
  - cbn [Rep]. split; [exact Hn|]. split; [exact H1|]. split; [eapply getz_setz_same; eauto|].
    apply (Rep_frame lr la); [reflexivity | | exact H3]. intros i Hi. apply (getz_setz_other _ _ _ _ i Hs). lia.
Qed.

(* ---- mid_loop: add max_value to every run of the middle section ------------------------------------------------------ *)
Lemma mid_loop_spec maxv : forall l2 fuel s off l3,
  l2 <> [] -> Rep (ar_runs s) (ar_alpha s) off (l2 ++ l3) -> (length l2 < fuel)%nat ->
  match map_alpha (fun a => catch_overflow (a + maxv)) l2 with
  | Some l2' => exists s', mid_loop fuel s off (total l2) maxv = Some (s', off + total l2) /\
                           Rep (ar_runs s') (ar_alpha s') off (l2' ++ l3) /\ same_below s s' off /\ same_len s s'
  | None => mid_loop fuel s off (total l2) maxv = None
  end.
Proof.
  induction l2 as [|[n a] r IH]; intros fuel s off l3 Hne HR Hf; [contradiction|].
  destruct fuel as [|fuel]; [cbn in Hf; lia|].
  pose proof (Rep_pos _ _ _ _ HR) as Hpos. cbn [app] in HR, Hpos. inversion Hpos as [|? ? Hn Hrest]; subst. cbn [fst] in Hn.
  assert (Hr : Forall (fun s => 0 < fst s) r) by (apply Forall_app in Hrest; tauto).
  pose proof (total_nonneg r Hr) as Tr.
  cbn [Rep] in HR. destruct HR as (_ & H1 & H2 & H3).
  cbn [mid_loop map_alpha total fold_right fst]. fold (total r).
  rewrite H2. cbn [bind]. destruct (catch_overflow (a + maxv)) as [v|] eqn:Ec; cbn [bind]; [|reflexivity].
  destruct (setz_some (ar_alpha s) off v (getz_some_lt _ _ _ H2)) as (al & Eal). rewrite Eal. cbn [bind]. rewrite H1. cbn [bind].
  destruct (Z.eqb_spec n 0); [lia|]. destruct (Z.ltb_spec (n + total r) n); [lia|].
  assert (Fr : forall i, off + n <= i -> getz al i = getz (ar_alpha s) i) by (intros i Hi; apply (getz_setz_other _ _ _ _ i Eal); lia).
  destruct r as [|[n2 a2] r2].
  - (* last run of the middle section *)
    cbn [total fold_right map_alpha]. replace (n + 0 - n) with 0 by lia. cbn [Z.eqb].
    eexists. split; [replace (off + (n + 0)) with (off + n) by lia; reflexivity|]. cbn [ar_runs ar_alpha app]. split.
    + cbn [Rep]. split; [exact Hn|]. split; [exact H1|]. split; [eapply getz_setz_same; eauto|].
      exact (Rep_frame _ _ _ _ _ _ (fun i _ => eq_refl) Fr H3).
    + split; [intros i Hi; cbn [ar_runs ar_alpha]; split; [reflexivity | apply (getz_setz_other _ _ _ _ i Eal); lia]|].
      unfold same_len. cbn [ar_runs ar_alpha]. split; [reflexivity | eapply setz_length; eauto].
  - set (r := (n2, a2) :: r2) in *.
    assert (T2 : 0 < total r) by (unfold r; cbn [total fold_right fst]; fold (total r2); inversion Hr; subst; cbn [fst] in *;
                                  pose proof (total_nonneg r2 ltac:(assumption)); lia).
    destruct (Z.eqb_spec (n + total r - n) 0); [lia|]. replace (n + total r - n) with (total r) by lia.
    assert (R' : Rep (ar_runs (mkar (ar_runs s) al)) (ar_alpha (mkar (ar_runs s) al)) (off + n) (r ++ l3)).
    { cbn [ar_runs ar_alpha]. exact (Rep_frame _ _ _ _ _ _ (fun i _ => eq_refl) Fr H3). }
    specialize (IH fuel (mkar (ar_runs s) al) (off + n) l3 ltac:(unfold r; discriminate) R' ltac:(cbn [length] in Hf; lia)).
    destruct (map_alpha (fun a0 => catch_overflow (a0 + maxv)) r) as [r'|]; [|exact IH].
    destruct IH as (s' & E & HR' & SB & (SL1 & SL2)). exists s'.
    split; [rewrite E; f_equal; f_equal; lia|]. cbn [ar_runs ar_alpha] in *. split.
    + cbn [app Rep]. destruct (SB off ltac:(lia)) as (B1 & B2). cbn [ar_runs ar_alpha] in B1, B2.
      split; [exact Hn|]. split; [rewrite B1; exact H1|]. split; [rewrite B2; eapply getz_setz_same; eauto | exact HR'].
    + split.
      * intros i Hi. destruct (SB i ltac:(lia)) as (B1 & B2). cbn [ar_runs ar_alpha] in B1, B2. split; [exact B1|].
        rewrite B2. apply (getz_setz_other _ _ _ _ i Eal). lia.
      * split; [exact SL1 | rewrite SL2; eapply setz_length; eauto].
Qed.

(* ---- putting a prefix and a suffix back together ---------------------------------------------------------------------- *)
Lemma pos_app (a b : list seg) : Forall (fun s => 0 < fst s) (a ++ b) <-> Forall (fun s => 0 < fst s) a /\ Forall (fun s => 0 < fst s) b.
Proof. apply Forall_app. Qed.

Lemma one_run l2 : Forall (fun s => 0 < fst s) l2 -> total l2 = 1 -> exists a, l2 = [(1, a)].
Proof.
  intros Hp Ht. destruct l2 as [|[n a] r]; [cbn in Ht; lia|]. inversion Hp as [|? ? Hn Hr]; subst. cbn [fst] in Hn.
  cbn [total fold_right fst] in Ht. fold (total r) in Ht. pose proof (total_nonneg r Hr).
  destruct r as [|[n2 a2] r2].
  - exists a. f_equal. f_equal. cbn in Ht. lia.
  - inversion Hr as [|? ? Hn2 Hr2]; subst. cbn [fst] in Hn2. cbn [total fold_right fst] in Ht. fold (total r2) in Ht.
    pose proof (total_nonneg r2 Hr2). lia.
Qed.

(* the common first half of every phase: break_run at (off, x, count) on a well-formed structure *)
Lemma phase_break s pre rest off x count :
  WFruns s (pre ++ rest) -> total pre = off -> 0 <= x -> 0 < count -> x + count <= total rest ->
  exists s1 l1 l2 l3, break_run s off x count = Some s1 /\
    WFruns s1 ((pre ++ l1) ++ l2 ++ l3) /\ total (pre ++ l1) = off + x /\ total l2 = count /\ total l3 = total rest - x - count /\
    flat ((pre ++ l1) ++ l2 ++ l3) = flat (pre ++ rest).
Proof.
  intros (HR & Hl) Hb Hx Hc Ht. apply Rep_app in HR. destruct HR as (RP & HR). rewrite Hb in HR. cbn [Z.add] in HR.
  assert (Hb0 : 0 <= off) by (rewrite <- Hb; apply total_nonneg; exact (RepP_pos _ _ _ _ RP)).
  destruct (break_run_spec rest s off x count HR Hl Hb0 Hx Hc Ht) as (s1 & l1 & l2 & l3 & E & R' & T1 & T2 & F & SB & (SL1 & SL2)).
  exists s1, l1, l2, l3. split; [exact E|].
  assert (T3 : total l3 = total rest - x - count).
  { assert (Hfl : Z.of_nat (length (flat (l1 ++ l2 ++ l3))) = Z.of_nat (length (flat rest))) by now rewrite F.
    rewrite !flat_length in Hfl by (try exact (Rep_pos _ _ _ _ R'); exact (Rep_pos _ _ _ _ HR)). rewrite !total_app in Hfl. lia. }
  split.
  - split; [|congruence]. rewrite <- app_assoc. apply Rep_app. split.
    + apply (RepP_frame (ar_runs s) (ar_alpha s)); [| |exact RP]; intros i Hi; rewrite Hb in Hi; apply SB; lia.
    + rewrite Hb. exact R'.
  - split; [rewrite total_app; lia|]. split; [exact T2|]. split; [exact T3|].
    rewrite <- app_assoc. rewrite (flat_app pre), (flat_app pre), F. reflexivity.
Qed.

(* the dense effect of mapping the alpha of the runs l2 that start at position total P *)
Lemma dense_map_alpha f P l2 l3 : Forall (fun s => 0 < fst s) (P ++ l2 ++ l3) ->
  upd_range (flat (P ++ l2 ++ l3)) (total P) (Z.to_nat (total l2)) f = option_map (fun l2' => flat (P ++ l2' ++ l3)) (map_alpha f l2).
Proof.
  intros Hp. apply pos_app in Hp. destruct Hp as (HP & Hp). apply pos_app in Hp. destruct Hp as (H2 & H3).
  rewrite flat_app. rewrite <- (flat_length P HP). replace (Z.of_nat (length (flat P))) with (Z.of_nat (length (flat P)) + 0) by lia.
  rewrite upd_range_shift by lia. rewrite flat_app, (upd_range_flat f l2 (flat l3) H2).
  destruct (map_alpha f l2) as [l2'|]; cbn [option_map]; [|reflexivity]. now rewrite !flat_app.
Qed.

(* ---- a one-pixel phase (the start and the stop partial-coverage pixels) ------------------------------------------------ *)
Lemma phase_point f s pre rest off x :
  WFruns s (pre ++ rest) -> total pre = off -> 0 <= x -> x + 1 <= total rest ->
  exists s1 l1 a l3, break_run s off x 1 = Some s1 /\ getz (ar_alpha s1) (off + x) = Some a /\
    total (pre ++ l1) = off + x /\ total l3 = total rest - x - 1 /\
    upd (flat (pre ++ rest)) (off + x) f = option_map (fun v => flat ((pre ++ l1) ++ (1, v) :: l3)) (f a) /\
    (forall v, exists al, setz (ar_alpha s1) (off + x) v = Some al /\ WFruns (mkar (ar_runs s1) al) ((pre ++ l1) ++ (1, v) :: l3)).
Proof.
  intros WF Hb Hx Ht.
  destruct (phase_break s pre rest off x 1 WF Hb Hx ltac:(lia) Ht) as (s1 & l1 & l2 & l3 & E & (R1 & L1) & T1 & T2 & T3 & F).
  pose proof (Rep_pos _ _ _ _ R1) as Hp. pose proof Hp as Hp'. apply pos_app in Hp'. destruct Hp' as (HpP & Hp23).
  pose proof Hp23 as Hp2. apply pos_app in Hp2. destruct Hp2 as (Hp2 & Hp3).
  destruct (one_run l2 Hp2 T2) as (a & ->).
  exists s1, l1, a, l3. split; [exact E|].
  pose proof R1 as R1'. apply Rep_app in R1'. destruct R1' as (RP & R23). rewrite T1 in R23. cbn [Z.add app Rep] in R23.
  destruct R23 as (_ & Hr & Ha & _).
  split; [exact Ha|]. split; [exact T1|]. split; [exact T3|]. split.
  - rewrite <- F, <- T1.
    pose proof (dense_map_alpha f (pre ++ l1) [(1, a)] l3 Hp) as D. change ([(1, a)] ++ l3) with ((1, a) :: l3) in *.
    replace (Z.to_nat (total [(1, a)])) with 1%nat in D by reflexivity. cbn [upd_range map_alpha app] in D.
    destruct (upd (flat ((pre ++ l1) ++ (1, a) :: l3)) (total (pre ++ l1)) f) as [d'|]; cbn [bind] in D |- *.
    + rewrite D. destruct (f a); reflexivity.
    + rewrite D. destruct (f a); reflexivity.
  - intros v. destruct (getz_some_lt _ _ _ Ha) as (Hlo & Hhi). destruct (setz_some (ar_alpha s1) (off + x) v (conj Hlo Hhi)) as (al & Hs).
    exists al. split; [exact Hs|]. split; cbn [ar_runs ar_alpha].
    + apply (alpha_set_spec (ar_runs s1) (ar_alpha s1) (pre ++ l1) 1 a l3 0 v al R1). now rewrite T1.
    + rewrite (setz_length _ _ _ _ Hs). exact L1.
Qed.

(* ---- the middle phase ------------------------------------------------------------------------------------------------ *)
Lemma phase_mid maxv s pre rest off x mid :
  WFruns s (pre ++ rest) -> total pre = off -> 0 <= x -> 0 < mid -> x + mid <= total rest ->
  exists s1, break_run s off x mid = Some s1 /\
    match mid_loop (S (length (ar_runs s1))) s1 (off + x) mid maxv with
    | Some (s2, off2) => off2 = off + x + mid /\ exists pre' rest', WFruns s2 (pre' ++ rest') /\ total pre' = off2 /\ total rest' = total rest - x - mid /\
        (exists l, pre' = pre ++ l) /\
        upd_range (flat (pre ++ rest)) (off + x) (Z.to_nat mid) (fun a => catch_overflow (a + maxv)) = Some (flat (pre' ++ rest'))
    | None => upd_range (flat (pre ++ rest)) (off + x) (Z.to_nat mid) (fun a => catch_overflow (a + maxv)) = None
    end.
Proof.
  intros WF Hb Hx Hm Ht.
  destruct (phase_break s pre rest off x mid WF Hb Hx Hm Ht) as (s1 & l1 & l2 & l3 & E & (R1 & L1) & T1 & T2 & T3 & F).
  exists s1. split; [exact E|].
  pose proof (Rep_pos _ _ _ _ R1) as Hp.
  pose proof R1 as R1'. apply Rep_app in R1'. destruct R1' as (RP & R23). rewrite T1 in R23. cbn [Z.add] in R23.
  assert (Hne : l2 <> []) by (intros ->; cbn in T2; lia).
  assert (Hfuel : (length l2 < S (length (ar_runs s1)))%nat).
  { destruct (Rep_bound _ _ _ _ R1 ltac:(lia)) as (B1 & B2). rewrite !app_length in B2. lia. }
  pose proof (mid_loop_spec maxv l2 (S (length (ar_runs s1))) s1 (off + x) l3 Hne R23 Hfuel) as M.
  pose proof (dense_map_alpha (fun a => catch_overflow (a + maxv)) (pre ++ l1) l2 l3 Hp) as D.
  rewrite T1, T2, F in D. rewrite T2 in M.
  destruct (map_alpha (fun a => catch_overflow (a + maxv)) l2) as [l2'|] eqn:EM.
  - destruct M as (s2 & EM2 & R2 & SB & (SL1 & SL2)). rewrite EM2. split; [lia|].
    destruct (map_alpha_total _ _ _ EM) as (TT & _ & _).
    exists ((pre ++ l1) ++ l2'), l3. split; [|split; [rewrite total_app; lia|split; [exact T3|split; [exists (l1 ++ l2'); now rewrite app_assoc|]]]].
    + split; [|congruence]. rewrite <- app_assoc. apply Rep_app. split.
      * apply (RepP_frame (ar_runs s1) (ar_alpha s1)); [| |exact RP]; intros i Hi; rewrite T1 in Hi; apply SB; lia.
      * rewrite T1. exact R2.
    + rewrite D. cbn [option_map]. now rewrite (app_assoc (pre ++ l1) l2' l3).
  - rewrite M. rewrite D. reflexivity.
Qed.

(* ---- AlphaRuns::add, phase by phase ------------------------------------------------------------------------------------ *)
Definition f_start (sa : Z) := fun a => catch_overflow (a + sa).
Definition f_mid (maxv : Z) := fun a => catch_overflow (a + maxv).
Definition f_stop (ea : Z) := fun a => if 255 <? a + ea then None else Some (a + ea).

Definition stop_code (s : aruns) (off x last ea : Z) : option (aruns * Z) :=
  if ea =? 0 then Some (s, last)
  else
    do s1 <- break_run s off x 1;
    do a0 <- getz (ar_alpha s1) (off + x);
    if 255 <? a0 + ea then None
    else
      do al <- setz (ar_alpha s1) (off + x) (a0 + ea);
      Some (mkar (ar_runs s1) al, off + x).
Definition mid_code (s : aruns) (off x last mid maxv ea : Z) : option (aruns * Z) :=
  do st2 <- (if mid =? 0 then Some (s, off, x, last)
             else
               do s1 <- break_run s off x mid;
               do r <- mid_loop (S (length (ar_runs s1))) s1 (off + x) mid maxv;
               let '(s2, off2) := r in
               Some (s2, off2, 0, off2));
  let '(s, off, x, last) := st2 in stop_code s off x last ea.
Lemma ar_add_phases s x sa mid ea maxv offset :
  ar_add s x sa mid ea maxv offset =
  if x <? offset then None
  else
    do st1 <- (if sa =? 0 then Some (s, offset, x - offset)
               else
                 do s1 <- break_run s offset (x - offset) 1;
                 do a0 <- getz (ar_alpha s1) (offset + (x - offset));
                 do v <- catch_overflow (a0 + sa);
                 do al <- setz (ar_alpha s1) (offset + (x - offset)) v;
                 Some (mkar (ar_runs s1) al, offset + (x - offset) + 1, 0));
    let '(s, off, x) := st1 in mid_code s off x offset mid maxv ea.
Proof. reflexivity. Qed.

Definition dense_stop (d : list Z) (p ea : Z) : option (list Z) := if ea =? 0 then Some d else upd d p (f_stop ea).
Definition dense_mid (d : list Z) (p mid maxv ea : Z) : option (list Z) :=
  do d2 <- upd_range d p (Z.to_nat mid) (f_mid maxv); dense_stop d2 (p + mid) ea.
Lemma dense_add_phases d x sa mid ea maxv :
  dense_add d x sa mid ea maxv =
  do d1 <- (if sa =? 0 then Some (d, x) else do d' <- upd d x (f_start sa); Some (d', x + 1));
  let '(d, x) := d1 in dense_mid d x mid maxv ea.
Proof. reflexivity. Qed.

Definition flag (a : Z) : Z := if a =? 0 then 0 else 1.

(* what every phase hands to the next: a well-formed structure split at the current offset, whose prefix still
   starts with the caller's prefix [pl] (so the offset the caller passed stays a run boundary) *)
Definition Post (pl : list seg) (ub : Z) (d : option (list Z)) (r : option (aruns * Z)) : Prop :=
  match r with
  | Some (s', off') => exists pre' rest', WFruns s' (pre' ++ rest') /\ total pre' = off' /\ (exists l, pre' = pl ++ l) /\
                                         d = Some (flat (pre' ++ rest')) /\ off' <= ub
  | None => d = None
  end.

Lemma Post_weaken pl m ub d r : Post (pl ++ m) ub d r -> Post pl ub d r.
Proof.
  unfold Post. destruct r as [[s' off']|]; [|auto]. intros (pre' & rest' & W & T & (l & Hl) & D).
  exists pre', rest'. split; [exact W|]. split; [exact T|]. split; [exists (m ++ l); now rewrite app_assoc|exact D].
Qed.

Lemma stop_spec s pl l rest off x ea :
  WFruns s ((pl ++ l) ++ rest) -> total (pl ++ l) = off -> 0 <= x -> x + flag ea <= total rest ->
  Post pl (if ea =? 0 then total pl else off + x) (dense_stop (flat ((pl ++ l) ++ rest)) (off + x) ea) (stop_code s off x (total pl) ea).
Proof.
  intros WF Hb Hx Ht.
  assert (T0 : 0 <= total l).
  { apply total_nonneg. destruct WF as (R' & _). apply Rep_pos in R'. apply pos_app in R'. destruct R' as (R' & _).
    apply pos_app in R'. apply R'. }
  rewrite total_app in Hb.
  unfold stop_code, dense_stop, flag in *. destruct (ea =? 0) eqn:Ee.
  - cbn [Post]. exists pl, (l ++ rest). rewrite app_assoc. split; [exact WF|]. split; [reflexivity|]. split; [exists []; now rewrite app_nil_r|split; [reflexivity|lia]].
  - rewrite <- total_app in Hb. destruct (phase_point (f_stop ea) s (pl ++ l) rest off x WF Hb Hx Ht) as (s1 & l1 & a & l3 & E & Ha & T1 & T3 & D & W).
    rewrite E. cbn [bind]. rewrite Ha. cbn [bind]. rewrite D. unfold f_stop. destruct (255 <? a + ea) eqn:Eo; cbn [option_map Post]; [reflexivity|].
    destruct (W (a + ea)) as (al & Hs & WF'). rewrite Hs. cbn [bind Post].
    exists ((pl ++ l) ++ l1), ((1, a + ea) :: l3). split; [exact WF'|]. split; [exact T1|]. split; [exists (l ++ l1); now rewrite app_assoc|split; [reflexivity|lia]].
Qed.

Lemma mid_spec s pl l rest off x mid maxv ea :
  WFruns s ((pl ++ l) ++ rest) -> total (pl ++ l) = off -> 0 <= x -> 0 <= mid -> x + mid + flag ea <= total rest ->
  Post pl (if (mid =? 0) && (ea =? 0) then total pl else off + x + mid)
       (dense_mid (flat ((pl ++ l) ++ rest)) (off + x) mid maxv ea) (mid_code s off x (total pl) mid maxv ea).
Proof.
  intros WF Hb Hx Hm Ht. unfold mid_code, dense_mid. destruct (mid =? 0) eqn:Em.
  - apply Z.eqb_eq in Em. subst mid. cbn [bind Z.to_nat upd_range andb]. replace (off + x + 0) with (off + x) by lia. apply stop_spec; auto. lia.
  - change (false && (ea =? 0)) with false. cbv iota.
    apply Z.eqb_neq in Em. assert (Hf : 0 <= flag ea) by (unfold flag; destruct (ea =? 0); lia).
    destruct (phase_mid maxv s (pl ++ l) rest off x mid WF Hb Hx ltac:(lia) ltac:(lia)) as (s1 & E & M).
    rewrite E. cbn [bind]. destruct (mid_loop (S (length (ar_runs s1))) s1 (off + x) mid maxv) as [[s2 off2]|].
    + destruct M as (Ho & pre' & rest' & WF' & T1 & T3 & (l' & Hl') & D). cbn [bind].
      unfold f_mid. rewrite D. cbn [bind]. subst pre'.
      replace ((pl ++ l) ++ l') with (pl ++ (l ++ l')) in * by apply app_assoc.
      assert (T0 : 0 <= total (l ++ l')).
      { apply total_nonneg. destruct WF' as (R' & _). apply Rep_pos in R'. apply pos_app in R'. destruct R' as (R' & _).
        apply pos_app in R'. apply R'. }
      replace (off + x + mid) with (off2 + 0) by lia.
      apply (Post_weaken pl (l ++ l')).
      pose proof (stop_spec s2 (pl ++ l ++ l') [] rest' off2 0 ea) as SS. rewrite !app_nil_r, T1 in SS.
      assert (U : (if ea =? 0 then off2 else off2 + 0) = off2 + 0) by (destruct (ea =? 0); lia). rewrite U in SS.
      apply SS; auto; lia.
    + cbn [bind Post]. unfold f_mid. rewrite M. reflexivity.
Qed.

Theorem add_refines_dense s pre rest x sa mid ea maxv :
  WFruns s (pre ++ rest) -> total pre <= x -> 0 <= mid -> (x - total pre) + flag sa + mid + flag ea <= total rest ->
  Post pre (if (mid =? 0) && (ea =? 0) then total pre else x + flag sa + mid)
       (dense_add (flat (pre ++ rest)) x sa mid ea maxv) (ar_add s x sa mid ea maxv (total pre)).
Proof.
  intros WF Hx Hm Ht. rewrite ar_add_phases, dense_add_phases.
  destruct (x <? total pre) eqn:El; [apply Z.ltb_lt in El; lia|]. clear El.
  assert (Hfe : 0 <= flag ea) by (unfold flag; destruct (ea =? 0); lia).
  remember (x - total pre) as xr eqn:Exr. assert (Ex : x = total pre + xr) by lia. clear Exr. subst x.
  unfold flag at 1 in Ht. unfold flag at 1. destruct (sa =? 0) eqn:Es; cbn [bind].
  - replace (total pre + xr + 0) with (total pre + xr) by lia.
    pose proof (mid_spec s pre [] rest (total pre) xr mid maxv ea) as M. rewrite !app_nil_r in M.
    apply M; auto; lia.
  - destruct (phase_point (f_start sa) s pre rest (total pre) xr WF eq_refl ltac:(lia) ltac:(lia)) as (s1 & l1 & a & l3 & E & Ha & T1 & T3 & D & W).
    rewrite E. cbn [bind]. rewrite Ha. cbn [bind].
    rewrite D. unfold f_start. destruct (catch_overflow (a + sa)) as [v|]; cbn [bind option_map Post]; [|reflexivity].
    destruct (W v) as (al & Hs & WF'). rewrite Hs. cbn [bind].
    replace ((pre ++ l1) ++ (1, v) :: l3) with ((pre ++ (l1 ++ [(1, v)])) ++ l3) in * by (rewrite <- !app_assoc; reflexivity).
    pose proof (mid_spec (mkar (ar_runs s1) al) pre (l1 ++ [(1, v)]) l3 (total pre + xr + 1) 0 mid maxv ea) as M.
    rewrite !Z.add_0_r in M. apply M; auto; try lia. rewrite app_assoc, total_app, T1. cbn. lia.
Qed.

(* the statement on the dense view alone *)
Corollary add_dense s pre rest x sa mid ea maxv d :
  WFruns s (pre ++ rest) -> total pre <= x -> 0 <= mid -> (x - total pre) + flag sa + mid + flag ea <= total rest ->
  dense s = Some d ->
  match ar_add s x sa mid ea maxv (total pre) with
  | Some (s', _) => exists d', dense s' = Some d' /\ dense_add d x sa mid ea maxv = Some d'
  | None => dense_add d x sa mid ea maxv = None
  end.
Proof.
  intros WF Hx Hm Ht Hd. rewrite (dense_wf _ _ WF) in Hd. injection Hd as <-.
  pose proof (add_refines_dense s pre rest x sa mid ea maxv WF Hx Hm Ht) as P. unfold Post in P.
  destruct (ar_add s x sa mid ea maxv (total pre)) as [[s' off']|]; [|exact P].
  destruct P as (pre' & rest' & WF' & _ & _ & D & _). exists (flat (pre' ++ rest')). split; [apply dense_wf; exact WF'|exact D].
Qed.

(* ---- a whole supersampled scanline: any sequence of add calls ------------------------------------------------------------- *)
Definition call := (Z * Z * Z * Z * Z)%type.   (* x, start_alpha, middle_count, stop_alpha, max_value *)
Fixpoint run_adds (s : aruns) (offset : Z) (calls : list call) : option aruns :=
  match calls with
  | [] => Some s
  | (x, sa, mid, ea, maxv) :: r => do r1 <- ar_add s x sa mid ea maxv offset; let '(s', off') := r1 in run_adds s' off' r
  end.
Fixpoint dense_adds (d : list Z) (calls : list call) : option (list Z) :=
  match calls with
  | [] => Some d
  | (x, sa, mid, ea, maxv) :: r => do d' <- dense_add d x sa mid ea maxv; dense_adds d' r
  end.
(* the spans of one scanline come left to right: each call starts at or after the stop pixel of the previous one (a call
   with neither middle pixels nor a stop pixel lies inside one pixel, and the next call may start in that same pixel) *)
Definition next_lo (lo : Z) (c : call) : Z :=
  let '(x, sa, mid, ea, maxv) := c in if (mid =? 0) && (ea =? 0) then lo else x + flag sa + mid.
Fixpoint calls_ok (lo width : Z) (calls : list call) : Prop :=
  match calls with
  | [] => True
  | (x, sa, mid, ea, maxv) :: r =>
      lo <= x /\ 0 <= mid /\ x + flag sa + mid + flag ea <= width /\ calls_ok (next_lo lo (x, sa, mid, ea, maxv)) width r
  end.

Lemma calls_ok_mono width : forall calls lo lo', lo' <= lo -> calls_ok lo width calls -> calls_ok lo' width calls.
Proof.
  induction calls as [|[[[[x sa] mid] ea] maxv] r IH]; intros lo lo' H C; [exact I|]. cbn [calls_ok] in *.
  destruct C as (C1 & C2 & C3 & C4). split; [lia|]. split; [exact C2|]. split; [exact C3|].
  unfold next_lo in *. destruct ((mid =? 0) && (ea =? 0)); [apply (IH lo lo' H C4) | exact C4].
Qed.

Lemma dense_add_length d x sa mid ea maxv d' : dense_add d x sa mid ea maxv = Some d' -> length d' = length d.
Proof.
  assert (UR : forall f n l i l', upd_range l i n f = Some l' -> length l' = length l).
  { induction n as [|n IH]; intros l i l' H; cbn [upd_range] in H; [now injection H as <-|].
    destruct (upd l i f) as [l1|] eqn:E; [|discriminate]. cbn [bind] in H. rewrite (IH _ _ _ H). eapply upd_length; eauto. }
  unfold dense_add. intros H.
  destruct (sa =? 0).
  - cbn [bind] in H. destruct (upd_range d x (Z.to_nat mid) _) as [d2|] eqn:E2; [|discriminate]. cbn [bind] in H.
    apply UR in E2. destruct (ea =? 0); [injection H as <-; exact E2|]. apply upd_length in H. congruence.
  - destruct (upd d x _) as [d1|] eqn:E1; [|discriminate]. cbn [bind] in H. apply upd_length in E1.
    destruct (upd_range d1 (x + 1) (Z.to_nat mid) _) as [d2|] eqn:E2; [|discriminate]. cbn [bind] in H.
    apply UR in E2. destruct (ea =? 0); [injection H as <-; congruence|]. apply upd_length in H. congruence.
Qed.

Theorem adds_refine_dense : forall calls s pre rest lo,
  WFruns s (pre ++ rest) -> total pre <= lo -> calls_ok lo (total (pre ++ rest)) calls ->
  match run_adds s (total pre) calls with
  | Some s' => exists segs', WFruns s' segs' /\ dense_adds (flat (pre ++ rest)) calls = Some (flat segs')
  | None => dense_adds (flat (pre ++ rest)) calls = None
  end.
Proof.
  induction calls as [|[[[[x sa] mid] ea] maxv] r IH]; intros s pre rest lo WF Hlo C; cbn [run_adds dense_adds].
  - exists (pre ++ rest). split; [exact WF|reflexivity].
  - cbn [calls_ok] in C. destruct C as (C1 & C2 & C3 & C4). rewrite total_app in C3.
    pose proof (add_refines_dense s pre rest x sa mid ea maxv WF ltac:(lia) C2 ltac:(lia)) as P. unfold Post in P.
    destruct (ar_add s x sa mid ea maxv (total pre)) as [[s' off']|]; cbn [bind]; [|rewrite P; reflexivity].
    destruct P as (pre' & rest' & WF' & T' & _ & D & U). rewrite D. cbn [bind]. rewrite <- T'.
    assert (TT : total (pre' ++ rest') = total (pre ++ rest)).
    { apply dense_add_length in D. rewrite <- !flat_length.
      - now rewrite D.
      - destruct WF as (R & _). exact (Rep_pos _ _ _ _ R).
      - destruct WF' as (R & _). exact (Rep_pos _ _ _ _ R). }
    apply (IH s' pre' rest' (next_lo lo (x, sa, mid, ea, maxv)) WF'); [|rewrite TT; exact C4].
    unfold next_lo. destruct ((mid =? 0) && (ea =? 0)); lia.
Qed.

(* a fresh row: AlphaRuns::new(width) is one run of alpha 0 *)
Lemma new_wf width : 0 < width -> WFruns (ar_new width) ([] ++ [(width, 0)]).
Proof.
  intros Hw. unfold ar_new, WFruns. cbn [app].
  assert (En : Z.to_nat (width + 1) = S (Z.to_nat width)) by lia. rewrite En. cbn [repeat set_nth ar_runs ar_alpha].
  split; [|cbn [length]; rewrite !repeat_length; reflexivity].
  cbn [Rep]. split; [lia|]. split; [reflexivity|]. split; [reflexivity|].
  unfold getz. destruct (0 + width <? 0) eqn:E; [apply Z.ltb_lt in E; lia|].
  replace (Z.to_nat (0 + width)) with (S (Z.to_nat width - 1)) by lia. cbn [nth_error].
  assert (Hn : forall n k, (k < n)%nat -> nth_error (repeat 0 n) k = Some 0).
  { induction n as [|n IHn]; intros k Hk; [lia|]. destruct k; [reflexivity|]. cbn [repeat nth_error]. apply IHn. lia. }
  rewrite Hn by lia. reflexivity.
Qed.

(* SuperBlitter: on a fresh row, the run-length accumulator computes exactly the per-pixel sums *)
Corollary scanline_refines_dense width calls :
  0 < width -> calls_ok 0 width calls ->
  match run_adds (ar_new width) 0 calls with
  | Some s' => exists d', dense s' = Some d' /\ dense_adds (repeat 0 (Z.to_nat width)) calls = Some d'
  | None => dense_adds (repeat 0 (Z.to_nat width)) calls = None
  end.
Proof.
  intros Hw C. pose proof (adds_refine_dense calls (ar_new width) [] [(width, 0)] 0 (new_wf width Hw) ltac:(cbn; lia)) as P.
  cbn [app total fold_right fst] in P. rewrite Z.add_0_r in P. specialize (P C).
  replace (flat [(width, 0)]) with (repeat 0 (Z.to_nat width)) in P by (unfold flat; cbn; now rewrite app_nil_r).
  destruct (run_adds (ar_new width) 0 calls) as [s'|]; [|exact P].
  destruct P as (segs' & WF' & D). exists (flat segs'). split; [apply dense_wf; exact WF'|exact D].
Qed.

(* reset(width) on a structure of any contents (a flushed row) gives the same fresh row *)
Lemma reset_wf s width : 0 < width <= 65535 -> width < Z.of_nat (length (ar_runs s)) -> length (ar_alpha s) = length (ar_runs s) ->
  exists s', ar_reset s width = Some s' /\ WFruns s' ([] ++ [(width, 0)]).
Proof.
  intros Hw Hl Hla. unfold ar_reset. destruct (65535 <? width) eqn:E; [apply Z.ltb_lt in E; lia|].
  destruct (setz_some (ar_runs s) 0 width ltac:(lia)) as (r1 & E1). rewrite E1. cbn [bind].
  pose proof (setz_length _ _ _ _ E1) as L1.
  destruct (setz_some r1 width 0 ltac:(lia)) as (r2 & E2). rewrite E2. cbn [bind].
  pose proof (setz_length _ _ _ _ E2) as L2.
  destruct (setz_some (ar_alpha s) 0 0 ltac:(lia)) as (a1 & E3). rewrite E3. cbn [bind].
  pose proof (setz_length _ _ _ _ E3) as L3.
  eexists. split; [reflexivity|]. split; cbn [ar_runs ar_alpha app]; [|congruence].
  cbn [Rep]. split; [lia|]. split.
  - rewrite (getz_setz_other _ _ _ _ 0 E2) by lia. eapply getz_setz_same; eauto.
  - split; [eapply getz_setz_same; eauto|]. rewrite Z.add_0_l. eapply getz_setz_same; eauto.
Qed.

(* ---- one destination row = up to SCALE sub-scanlines, each restarting at offset 0 ------------------------------------------- *)
Fixpoint run_subrows (s : aruns) (rows : list (list call)) : option aruns :=
  match rows with [] => Some s | c :: r => do s' <- run_adds s 0 c; run_subrows s' r end.
Fixpoint dense_subrows (d : list Z) (rows : list (list call)) : option (list Z) :=
  match rows with [] => Some d | c :: r => do d' <- dense_adds d c; dense_subrows d' r end.

Lemma dense_adds_length : forall calls d d', dense_adds d calls = Some d' -> length d' = length d.
Proof.
  induction calls as [|[[[[x sa] mid] ea] maxv] r IH]; intros d d' H; cbn [dense_adds] in H; [now injection H as <-|].
  destruct (dense_add d x sa mid ea maxv) as [d1|] eqn:E; [|discriminate]. cbn [bind] in H.
  rewrite (IH _ _ H). eapply dense_add_length; eauto.
Qed.

Theorem subrows_refine_dense : forall rows s segs,
  WFruns s segs -> Forall (calls_ok 0 (total segs)) rows ->
  match run_subrows s rows with
  | Some s' => exists segs', WFruns s' segs' /\ dense_subrows (flat segs) rows = Some (flat segs')
  | None => dense_subrows (flat segs) rows = None
  end.
Proof.
  induction rows as [|c r IH]; intros s segs WF C; cbn [run_subrows dense_subrows].
  - exists segs. split; [exact WF|reflexivity].
  - inversion C as [|? ? C1 C2]; subst.
    pose proof (adds_refine_dense c s [] segs 0 WF ltac:(cbn; lia) C1) as P. cbn [app total fold_right] in P.
    destruct (run_adds s 0 c) as [s1|]; cbn [bind]; [|rewrite P; reflexivity].
    destruct P as (segs1 & WF1 & D). rewrite D. cbn [bind].
    assert (TT : total segs1 = total segs).
    { apply dense_adds_length in D. rewrite <- !flat_length.
      - now rewrite D.
      - destruct WF as (R & _). exact (Rep_pos _ _ _ _ R).
      - destruct WF1 as (R & _). exact (Rep_pos _ _ _ _ R). }
    apply IH; [exact WF1|]. rewrite TT. exact C2.
Qed.

Corollary row_refines_dense width rows :
  0 < width -> Forall (calls_ok 0 width) rows ->
  match run_subrows (ar_new width) rows with
  | Some s' => exists d', dense s' = Some d' /\ dense_subrows (repeat 0 (Z.to_nat width)) rows = Some d'
  | None => dense_subrows (repeat 0 (Z.to_nat width)) rows = None
  end.
Proof.
  intros Hw C. pose proof (subrows_refine_dense rows (ar_new width) [(width, 0)] (new_wf width Hw)) as P.
  cbn [total fold_right fst] in P. rewrite Z.add_0_r in P. specialize (P C).
  replace (flat [(width, 0)]) with (repeat 0 (Z.to_nat width)) in P by (unfold flat; cbn; now rewrite app_nil_r).
  destruct (run_subrows (ar_new width) rows) as [s'|]; [|exact P].
  destruct P as (segs' & WF' & D). exists (flat segs'). split; [apply dense_wf; exact WF'|exact D].
Qed.

(* the hypotheses are satisfiable and the statement is not trivially about failing runs *)
Example row_example :
  let rows := [[(1, 48, 2, 16, 64)]; [(0, 0, 3, 0, 64); (4, 32, 0, 0, 64)]] in
  Forall (calls_ok 0 6) rows /\
  option_map ar_alpha (run_subrows (ar_new 6) rows) <> None /\
  dense_subrows (repeat 0 6%nat) rows = Some [64; 112; 128; 64; 48; 0].
Proof.
  cbn zeta. split; [repeat constructor; cbn; lia|]. split; [vm_compute; discriminate|vm_compute; reflexivity].
Qed.
