(* definitions for the finite check of Proofs/SourcePremul.v *)
From Coq Require Import ZArith Bool List.
From TS Require Import Base.F32 Model.Pixel.
Import ListNotations.
Local Open Scope Z_scope.

Definition chan_u16 (c a : Z) : Z :=
  let col := color_premultiply (color_from_rgba8 c c c a) in f_to_u16 (cr col).
Definition alpha_u16 (a : Z) : Z :=
  let col := color_premultiply (color_from_rgba8 0 0 0 a) in f_to_u16 (ca col).

Definition range_from (lo : Z) (n : nat) : list Z := map (fun k => lo + Z.of_nat k) (seq 0 n).
Definition range256 : list Z := range_from 0 256.

Definition pair_ok (a c : Z) : bool := (0 <=? chan_u16 c a) && (chan_u16 c a <=? alpha_u16 a) && (alpha_u16 a <=? 255).
