(* How far the join and cap constructions reach from the pivot (exact arithmetic). *)
From Coq Require Import QArith Qfield Lqa.
From TS Require Import Model.StrokeJoin.
Local Open Scope Q_scope.

Lemma sq_nonneg q : 0 <= q * q.
Proof.
  destruct (Qlt_le_dec q 0) as [H | H].
  - setoid_replace (q * q) with ((- q) * (- q)) by ring. apply Qmult_le_0_compat; lra.
  - apply Qmult_le_0_compat; lra.
Qed.

(* the miter tip is the intersection of the two offset lines ... *)
Theorem miter_tip_on_offset_lines r n1x n1y n2x n2y :
  norm2 n1x n1y == 1 -> norm2 n2x n2y == 1 -> ~ 1 + dot n1x n1y n2x n2y == 0 ->
  dot (miter_tip_x r n1x n1y n2x n2y) (miter_tip_y r n1x n1y n2x n2y) n1x n1y == r /\
  dot (miter_tip_x r n1x n1y n2x n2y) (miter_tip_y r n1x n1y n2x n2y) n2x n2y == r.
Proof.
  unfold miter_tip_x, miter_tip_y, norm2, dot. intros H1 H2 Hd. split.
  - transitivity (r * ((n1x * n1x + n1y * n1y) + (n1x * n2x + n1y * n2y)) / (1 + (n1x * n2x + n1y * n2y))); [field; exact Hd|].
    rewrite H1. field. exact Hd.
  - transitivity (r * ((n2x * n2x + n2y * n2y) + (n1x * n2x + n1y * n2y)) / (1 + (n1x * n2x + n1y * n2y))); [field; exact Hd|].
    rewrite H2. field. exact Hd.
Qed.

(* ... at squared distance 2 r^2 / (1 + dot) from the pivot ... *)
Theorem miter_tip_distance r n1x n1y n2x n2y :
  norm2 n1x n1y == 1 -> norm2 n2x n2y == 1 -> ~ 1 + dot n1x n1y n2x n2y == 0 ->
  norm2 (miter_tip_x r n1x n1y n2x n2y) (miter_tip_y r n1x n1y n2x n2y) == 2 * r * r / (1 + dot n1x n1y n2x n2y).
Proof.
  unfold miter_tip_x, miter_tip_y, norm2, dot. intros H1 H2 Hd.
  transitivity (r * r * ((n1x * n1x + n1y * n1y) + (n2x * n2x + n2y * n2y) + 2 * (n1x * n2x + n1y * n2y))
                / ((1 + (n1x * n2x + n1y * n2y)) * (1 + (n1x * n2x + n1y * n2y)))); [field; exact Hd|].
  rewrite H1, H2. field. exact Hd.
Qed.

(* ... which the miter test keeps within radius * limit: whenever the miter is emitted (inv_limit = 1 / limit > 0) *)
Theorem miter_within_limit r inv_limit dotp :
  0 < inv_limit -> 0 < 1 + dotp -> miter_allowed inv_limit dotp ->
  2 * r * r / (1 + dotp) <= (r / inv_limit) * (r / inv_limit).
Proof.
  unfold miter_allowed. intros Hi Hd Ha.
  assert (E : (r / inv_limit) * (r / inv_limit) - 2 * r * r / (1 + dotp)
              == (r * r) * (((1 + dotp) / 2 - inv_limit * inv_limit) * (2 / ((inv_limit * inv_limit) * (1 + dotp))))) by (field; split; lra).
  assert (P : 0 <= (r * r) * (((1 + dotp) / 2 - inv_limit * inv_limit) * (2 / ((inv_limit * inv_limit) * (1 + dotp))))).
  { apply Qmult_le_0_compat; [apply sq_nonneg|]. apply Qmult_le_0_compat; [lra|].
    assert (Pp : 0 < inv_limit * inv_limit * (1 + dotp)) by (apply Qmult_lt_0_compat; [apply Qmult_lt_0_compat; assumption | assumption]).
    apply Qlt_le_weak. apply Qlt_shift_div_l; [exact Pp | lra]. }
  lra.
Qed.

(* the upright right-angle fast path (dot = 0) applies the same test: limit >= sqrt 2 *)
Theorem right_angle_fast_path inv_limit : miter_allowed inv_limit 0 <-> inv_limit * inv_limit <= 1 # 2.
Proof. unfold miter_allowed. assert (E : (1 + 0) / 2 == 1 # 2) by reflexivity. rewrite E. tauto. Qed.

(* every point of a bevel edge is within the radius *)
Theorem bevel_within_radius r n1x n1y n2x n2y t :
  norm2 n1x n1y == 1 -> norm2 n2x n2y == 1 -> 0 <= t <= 1 ->
  norm2 (bevel_x r n1x n2x t) (bevel_y r n1y n2y t) <= r * r.
Proof.
  unfold norm2, bevel_x, bevel_y. intros H1 H2 Ht.
  assert (D : n1x * n2x + n1y * n2y <= 1).
  { assert (K : (n1x - n2x) * (n1x - n2x) + (n1y - n2y) * (n1y - n2y)
                == (n1x * n1x + n1y * n1y) + (n2x * n2x + n2y * n2y) - 2 * (n1x * n2x + n1y * n2y)) by ring.
    rewrite H1, H2 in K.
    pose proof (sq_nonneg (n1x - n2x)). pose proof (sq_nonneg (n1y - n2y)). lra. }
  assert (E : r * ((1 - t) * n1x + t * n2x) * (r * ((1 - t) * n1x + t * n2x)) + r * ((1 - t) * n1y + t * n2y) * (r * ((1 - t) * n1y + t * n2y))
              == r * r * ((1 - t) * (1 - t) * (n1x * n1x + n1y * n1y) + t * t * (n2x * n2x + n2y * n2y) + 2 * t * (1 - t) * (n1x * n2x + n1y * n2y))) by ring.
  rewrite E, H1, H2.
  assert (K : (1 - t) * (1 - t) * 1 + t * t * 1 + 2 * t * (1 - t) * (n1x * n2x + n1y * n2y) <= 1).
  { assert (0 <= t * (1 - t)) by nra. nra. }
  assert (0 <= r * r) by nra. nra.
Qed.

(* the corners of a square cap are at radius * sqrt 2 *)
Theorem square_cap_corner r nx ny : norm2 nx ny == 1 -> norm2 (square_corner_x r nx ny) (square_corner_y r nx ny) == 2 * r * r.
Proof.
  unfold norm2, square_corner_x, square_corner_y. intros H.
  transitivity (2 * r * r * (nx * nx + ny * ny)); [ring|]. rewrite H. ring.
Qed.

(* miter-clip: the corner lies on the clip line (at limit * radius along the bisector (mx, my)) and on the offset line *)
Theorem clip_corner_on_lines r nx ny mx my limit :
  let c := dot nx ny mx my in let s := cross nx ny mx my in
  norm2 nx ny == 1 -> ~ s == 0 ->
  let x := clip_x limit c s in
  dot (clip_corner_x r nx ny x) (clip_corner_y r nx ny x) mx my == limit * r /\
  dot (clip_corner_x r nx ny x) (clip_corner_y r nx ny x) nx ny == r.
Proof.
  cbv zeta. unfold clip_corner_x, clip_corner_y, clip_x, dot, cross, norm2. intros H Hs. split.
  - field. exact Hs.
  - transitivity (r * (nx * nx + ny * ny)); [field; exact Hs|]. rewrite H. ring.
Qed.

(* whenever the clipped route is taken (the miter exceeds a limit >= 1, i.e. limit * cos beta < 1) the corner is at most
   limit * radius along the offset line: at most radius * sqrt (1 + limit^2) from the pivot *)
Theorem clip_x_bounded limit c s :
  1 <= limit -> 0 <= c -> 0 < s -> c * c + s * s == 1 -> limit * c < 1 ->
  0 <= clip_x limit c s /\ clip_x limit c s <= limit.
Proof.
  intros Hl Hc Hs H1 Hm. unfold clip_x.
  assert (Cle : c <= 1) by nra.
  split.
  - apply Qle_shift_div_l; [exact Hs | lra].
  - apply Qle_shift_div_r; [exact Hs|].
    (* limit - c <= limit * s  <=  limit * (1 - s) * (1 + s) = limit * c^2 <= c * (1 + s) *)
    assert (S1 : s <= 1) by nra.
    assert (A : limit * (1 - s) * (1 + s) == limit * (c * c)) by (setoid_replace (c * c) with (1 - s * s) by lra; ring).
    assert (B : limit * (c * c) <= c * (1 + s)) by nra.
    assert (C : limit * (1 - s) * (1 + s) <= c * (1 + s)) by lra.
    assert (D : limit * (1 - s) <= c) by nra.
    lra.
Qed.

Theorem clip_corner_distance r nx ny x :
  norm2 nx ny == 1 -> norm2 (clip_corner_x r nx ny x) (clip_corner_y r nx ny x) == r * r * (1 + x * x).
Proof.
  unfold norm2, clip_corner_x, clip_corner_y. intros H.
  transitivity (r * r * (1 + x * x) * (nx * nx + ny * ny)); [ring|]. rewrite H. ring.
Qed.

(* the pinned Nearly180 route measured the angle against a direction parallel to the normals (c = -1): the corner
   offset (limit + 1) / s is unbounded as the turn approaches a reversal *)
Theorem nearly180_pinned_unbounded limit B : 1 <= limit -> 0 < B -> exists s, 0 < s /\ B < clip_x limit (-1) s.
Proof.
  intros Hl HB. exists (1 / B). split.
  - apply Qlt_shift_div_l; lra.
  - unfold clip_x. setoid_replace ((limit - -1) / (1 / B)) with ((limit + 1) * B) by (field; lra). nra.
Qed.
