(* C08 (highp): binary32 evaluation of the polynomial blend formulas stays within a computed error of the exact polynomial.
   A small expression language (variables, 1, +, -, x) is evaluated in binary32 (the operations of the generated
   Gen/HighpGen.v closures) and over the reals; for inputs in [0, 1] the two differ by at most [err e], a bound computed
   from the expression (2^-24 relative per rounding, 2^-150 absolute), and nothing overflows. *)
From Coq Require Import ZArith Bool List Lia Reals Lra.
From Flocq Require Import Core.Zaux Core.Raux Core.Defs Core.Generic_fmt Core.FLT Core.Ulp Core.Round_NE Relative IEEE754.BinarySingleNaN.
From TS Require Import Base.F32 Base.Wide Gen.HighpGen Proofs.RectPoints Proofs.LineClipFinite.
Import ListNotations.
Local Open Scope R_scope.

Notation fexp32 := (SpecFloat.fexp 24 128).
Notation rnd32 := (round radix2 fexp32 (round_mode mode_NE)).
Definition u : R := / 2 * bpow radix2 (-24 + 1).
Definition eta0 : R := / 2 * bpow radix2 (-149).

Lemma rnd_err x : Rabs (rnd32 x - x) <= u * Rabs x + eta0.
Proof.
  destruct (error_N_FLT radix2 (-149) 24 ltac:(lia) (fun x => negb (Z.even x)) x) as (eps & eta & He & Ht & _ & E).
  change (round radix2 (FLT_exp (-149) 24) (Znearest (fun x0 : Z => negb (Z.even x0))) x) with (rnd32 x) in E.
  rewrite E. replace (x * (1 + eps) + eta - x) with (x * eps + eta) by ring.
  eapply Rle_trans; [apply Rabs_triang|]. rewrite Rabs_mult. unfold u, eta0.
  apply Rplus_le_compat; [|exact Ht]. rewrite Rmult_comm. apply Rmult_le_compat_r; [apply Rabs_pos | exact He].
Qed.

Inductive ex := V (i : nat) | One | Add (a b : ex) | Sub (a b : ex) | Mul (a b : ex) | Min (a b : ex) | Max (a b : ex).

Fixpoint evalF (env : nat -> f32) (e : ex) : f32 :=
  match e with
  | V i => env i | One => F32.one
  | Add a b => F32.add (evalF env a) (evalF env b)
  | Sub a b => F32.sub (evalF env a) (evalF env b)
  | Mul a b => F32.mul (evalF env a) (evalF env b)
  | Min a b => wide_min (evalF env a) (evalF env b)
  | Max a b => wide_max (evalF env a) (evalF env b)
  end.
Fixpoint evalR (env : nat -> R) (e : ex) : R :=
  match e with
  | V i => env i | One => 1
  | Add a b => evalR env a + evalR env b
  | Sub a b => evalR env a - evalR env b
  | Mul a b => evalR env a * evalR env b
  | Min a b => Rmin (evalR env a) (evalR env b)
  | Max a b => Rmax (evalR env a) (evalR env b)
  end.
(* magnitude bound of the exact value, and error bound of the binary32 value *)
Fixpoint mag (e : ex) : R :=
  match e with
  | V _ => 1 | One => 1
  | Add a b => mag a + mag b | Sub a b => mag a + mag b | Mul a b => mag a * mag b
  | Min a b | Max a b => mag a + mag b
  end.
Fixpoint err (e : ex) : R :=
  match e with
  | V _ => 0 | One => 0
  | Add a b | Sub a b => let x := err a + err b in x + (u * (mag a + mag b + x) + eta0)
  | Mul a b => let x := (mag a + err a) * err b + mag b * err a in x + (u * (mag a * mag b + x) + eta0)
  | Min a b | Max a b => err a + err b
  end.

Lemma mag_pos e : 1 <= mag e.
Proof. induction e; cbn [mag]; try lra. nra. Qed.
Lemma err_pos e : 0 <= err e.
Proof.
  assert (U : 0 <= u) by (unfold u; pose proof (bpow_gt_0 radix2 (-24 + 1)); lra).
  assert (E : 0 <= eta0) by (unfold eta0; pose proof (bpow_gt_0 radix2 (-149)); lra).
  induction e; cbn [err]; cbv zeta; try lra.
  - pose proof (mag_pos e1). pose proof (mag_pos e2). assert (0 <= u * (mag e1 + mag e2 + (err e1 + err e2))) by (apply Rmult_le_pos; lra). lra.
  - pose proof (mag_pos e1). pose proof (mag_pos e2). assert (0 <= u * (mag e1 + mag e2 + (err e1 + err e2))) by (apply Rmult_le_pos; lra). lra.
  - pose proof (mag_pos e1). pose proof (mag_pos e2).
    assert (0 <= (mag e1 + err e1) * err e2 + mag e2 * err e1) by nra.
    assert (0 <= mag e1 * mag e2) by nra.
    assert (0 <= u * (mag e1 * mag e2 + ((mag e1 + err e1) * err e2 + mag e2 * err e1))) by (apply Rmult_le_pos; lra). lra.
Qed.

Definition env_ok (env : nat -> f32) : Prop := forall i, fin (env i) /\ 0 <= R32 (env i) <= 1.

Lemma R_one : R32 F32.one = 1.
Proof. unfold F32.one. set (x := F32.of_bits 1065353216). vm_compute in x. subst x. unfold B2R, F2R. cbn. lra. Qed.

(* every intermediate value stays far below the overflow threshold *)
Fixpoint ok (e : ex) : Prop :=
  match e with
  | V _ | One => True
  | Add a b | Sub a b | Mul a b => ok a /\ ok b /\ mag e + err e <= bpow radix2 100
  | Min a b | Max a b => ok a /\ ok b
  end.

Lemma lt_emax_of_le100 x : Rabs x <= bpow radix2 100 -> Rabs (rnd32 x) < bpow radix2 128.
Proof.
  intros H. eapply Rle_lt_trans; [apply (rnd32_abs_le x 100); [lia | exact H]|]. apply bpow_lt. lia.
Qed.

Theorem eval_error env e : env_ok env -> ok e ->
  fin (evalF env e) /\ Rabs (R32 (evalF env e) - evalR (fun i => R32 (env i)) e) <= err e /\
  Rabs (evalR (fun i => R32 (env i)) e) <= mag e.
Proof.
  intros He. assert (U : 0 <= u) by (unfold u; pose proof (bpow_gt_0 radix2 (-24 + 1)); lra).
  assert (E0 : 0 <= eta0) by (unfold eta0; pose proof (bpow_gt_0 radix2 (-149)); lra).
  induction e as [i | | a IHa b IHb | a IHa b IHb | a IHa b IHb | a IHa b IHb | a IHa b IHb]; intros Hok; cbn [evalF evalR mag err ok] in *; cbv zeta in *.
  - destruct (He i) as (F & B). split; [exact F|]. split; [|apply Rabs_le; lra].
    replace (R32 (env i) - R32 (env i)) with 0 by ring. rewrite Rabs_R0. lra.
  - split; [reflexivity|]. rewrite R_one. split; [replace (1 - 1) with 0 by ring; rewrite Rabs_R0; lra | rewrite Rabs_R1; lra].
  - destruct Hok as (Oa & Ob & Hb). destruct (IHa Oa) as (Fa & Ea & Ma). destruct (IHb Ob) as (Fb & Eb & Mb).
    set (fa := evalF env a) in *. set (fb := evalF env b) in *. set (ra := evalR _ a) in *. set (rb := evalR _ b) in *.
    pose proof (err_pos a) as Pa. pose proof (err_pos b) as Pb. pose proof (mag_pos a). pose proof (mag_pos b).
    assert (X1 : Rabs (R32 fa + R32 fb - (ra + rb)) <= err a + err b).
    { replace (R32 fa + R32 fb - (ra + rb)) with ((R32 fa - ra) + (R32 fb - rb)) by ring. eapply Rle_trans; [apply Rabs_triang|]. lra. }
    assert (X2 : Rabs (R32 fa + R32 fb) <= mag a + mag b + (err a + err b)).
    { replace (R32 fa + R32 fb) with ((ra + rb) + (R32 fa + R32 fb - (ra + rb))) by ring. eapply Rle_trans; [apply Rabs_triang|].
      assert (Rabs (ra + rb) <= mag a + mag b) by (eapply Rle_trans; [apply Rabs_triang|]; lra). lra. }
    assert (X3 : Rabs (R32 fa + R32 fb) <= bpow radix2 100) by nra.
    pose proof (Bplus_correct 24 128 _ _ mode_NE fa fb Fa Fb) as C.
    rewrite (Rlt_bool_true _ _ (lt_emax_of_le100 _ X3)) in C. destruct C as (C1 & C2 & _).
    split; [exact C2|]. unfold F32.add. rewrite C1. split.
    + replace (rnd32 (R32 fa + R32 fb) - (ra + rb)) with ((rnd32 (R32 fa + R32 fb) - (R32 fa + R32 fb)) + (R32 fa + R32 fb - (ra + rb))) by ring.
      eapply Rle_trans; [apply Rabs_triang|]. pose proof (rnd_err (R32 fa + R32 fb)). nra.
    + eapply Rle_trans; [apply Rabs_triang|]. lra.
  - destruct Hok as (Oa & Ob & Hb). destruct (IHa Oa) as (Fa & Ea & Ma). destruct (IHb Ob) as (Fb & Eb & Mb).
    set (fa := evalF env a) in *. set (fb := evalF env b) in *. set (ra := evalR _ a) in *. set (rb := evalR _ b) in *.
    pose proof (err_pos a) as Pa. pose proof (err_pos b) as Pb. pose proof (mag_pos a). pose proof (mag_pos b).
    assert (X1 : Rabs (R32 fa - R32 fb - (ra - rb)) <= err a + err b).
    { replace (R32 fa - R32 fb - (ra - rb)) with ((R32 fa - ra) + - (R32 fb - rb)) by ring. eapply Rle_trans; [apply Rabs_triang|]. rewrite Rabs_Ropp. lra. }
    assert (X2 : Rabs (R32 fa - R32 fb) <= mag a + mag b + (err a + err b)).
    { replace (R32 fa - R32 fb) with ((ra - rb) + (R32 fa - R32 fb - (ra - rb))) by ring. eapply Rle_trans; [apply Rabs_triang|].
      assert (Rabs (ra - rb) <= mag a + mag b) by (unfold Rminus; eapply Rle_trans; [apply Rabs_triang|]; rewrite Rabs_Ropp; lra). lra. }
    assert (X3 : Rabs (R32 fa - R32 fb) <= bpow radix2 100) by nra.
    pose proof (Bminus_correct 24 128 _ _ mode_NE fa fb Fa Fb) as C.
    rewrite (Rlt_bool_true _ _ (lt_emax_of_le100 _ X3)) in C. destruct C as (C1 & C2 & _).
    split; [exact C2|]. unfold F32.sub. rewrite C1. split.
    + replace (rnd32 (R32 fa - R32 fb) - (ra - rb)) with ((rnd32 (R32 fa - R32 fb) - (R32 fa - R32 fb)) + (R32 fa - R32 fb - (ra - rb))) by ring.
      eapply Rle_trans; [apply Rabs_triang|]. pose proof (rnd_err (R32 fa - R32 fb)). nra.
    + unfold Rminus. eapply Rle_trans; [apply Rabs_triang|]. rewrite Rabs_Ropp. lra.
  - destruct Hok as (Oa & Ob & Hb). destruct (IHa Oa) as (Fa & Ea & Ma). destruct (IHb Ob) as (Fb & Eb & Mb).
    set (fa := evalF env a) in *. set (fb := evalF env b) in *. set (ra := evalR _ a) in *. set (rb := evalR _ b) in *.
    pose proof (err_pos a) as Pa. pose proof (err_pos b) as Pb. pose proof (mag_pos a). pose proof (mag_pos b).
    assert (Ba : Rabs (R32 fa) <= mag a + err a).
    { replace (R32 fa) with (ra + (R32 fa - ra)) by ring. eapply Rle_trans; [apply Rabs_triang|]. lra. }
    assert (X1 : Rabs (R32 fa * R32 fb - ra * rb) <= (mag a + err a) * err b + mag b * err a).
    { replace (R32 fa * R32 fb - ra * rb) with (R32 fa * (R32 fb - rb) + rb * (R32 fa - ra)) by ring.
      eapply Rle_trans; [apply Rabs_triang|]. rewrite !Rabs_mult.
      pose proof (Rabs_pos (R32 fa)). pose proof (Rabs_pos (R32 fb - rb)). pose proof (Rabs_pos rb). pose proof (Rabs_pos (R32 fa - ra)). nra. }
    assert (Mab : Rabs (ra * rb) <= mag a * mag b) by (rewrite Rabs_mult; pose proof (Rabs_pos ra); pose proof (Rabs_pos rb); nra).
    assert (X2 : Rabs (R32 fa * R32 fb) <= mag a * mag b + ((mag a + err a) * err b + mag b * err a)).
    { replace (R32 fa * R32 fb) with (ra * rb + (R32 fa * R32 fb - ra * rb)) by ring. eapply Rle_trans; [apply Rabs_triang|]. lra. }
    assert (X3 : Rabs (R32 fa * R32 fb) <= bpow radix2 100).
    { eapply Rle_trans; [exact X2|]. eapply Rle_trans; [|exact Hb]. assert (0 <= mag a * mag b + ((mag a + err a) * err b + mag b * err a)) by nra. nra. }
    pose proof (Bmult_correct 24 128 _ _ mode_NE fa fb) as C.
    rewrite (Rlt_bool_true _ _ (lt_emax_of_le100 _ X3)) in C. destruct C as (C1 & C2 & _).
    unfold fin, F32.is_finite in *. rewrite Fa, Fb in C2.
    split; [exact C2|]. unfold F32.mul. rewrite C1. split.
    + replace (rnd32 (R32 fa * R32 fb) - ra * rb) with ((rnd32 (R32 fa * R32 fb) - R32 fa * R32 fb) + (R32 fa * R32 fb - ra * rb)) by ring.
      eapply Rle_trans; [apply Rabs_triang|]. pose proof (rnd_err (R32 fa * R32 fb)). nra.
    + exact Mab.
  - destruct Hok as (Oa & Ob). destruct (IHa Oa) as (Fa & Ea & Ma). destruct (IHb Ob) as (Fb & Eb & Mb).
    set (fa := evalF env a) in *. set (fb := evalF env b) in *. set (ra := evalR _ a) in *. set (rb := evalR _ b) in *.
    pose proof (err_pos a) as Pa. pose proof (err_pos b) as Pb. pose proof (mag_pos a). pose proof (mag_pos b).
    apply Rabs_le_inv in Ea. apply Rabs_le_inv in Eb. apply Rabs_le_inv in Ma. apply Rabs_le_inv in Mb.
    unfold wide_min, F32.lt. rewrite (Bltb_correct _ _ fa fb Fa Fb).
    destruct (Rlt_bool_spec (R32 fa) (R32 fb)) as [L | L]; (split; [assumption|]); split; apply Rabs_le;
      unfold Rmin; destruct (Rle_dec ra rb); lra.
  - destruct Hok as (Oa & Ob). destruct (IHa Oa) as (Fa & Ea & Ma). destruct (IHb Ob) as (Fb & Eb & Mb).
    set (fa := evalF env a) in *. set (fb := evalF env b) in *. set (ra := evalR _ a) in *. set (rb := evalR _ b) in *.
    pose proof (err_pos a) as Pa. pose proof (err_pos b) as Pb. pose proof (mag_pos a). pose proof (mag_pos b).
    apply Rabs_le_inv in Ea. apply Rabs_le_inv in Eb. apply Rabs_le_inv in Ma. apply Rabs_le_inv in Mb.
    unfold wide_max, F32.gt, F32.lt. rewrite (Bltb_correct _ _ fb fa Fb Fa).
    destruct (Rlt_bool_spec (R32 fb) (R32 fa)) as [L | L]; (split; [assumption|]); split; apply Rabs_le;
      unfold Rmax; destruct (Rle_dec ra rb); lra.
Qed.

(* ---- the polynomial blend formulas ---------------------------------------------------------------------------------------------- *)
Definition vs := V 0. Definition vd := V 1. Definition vsa := V 2. Definition vda := V 3.
Definition inv_e (x : ex) : ex := Sub One x.
Definition e_source_over := Add (Mul vd (inv_e vsa)) vs.
Definition e_destination_over := Add (Mul vs (inv_e vda)) vd.
Definition e_source_in := Mul vs vda.
Definition e_destination_in := Mul vd vsa.
Definition e_source_out := Mul vs (inv_e vda).
Definition e_destination_out := Mul vd (inv_e vsa).
Definition e_source_atop := Add (Mul vs vda) (Mul vd (inv_e vsa)).
Definition e_destination_atop := Add (Mul vd vsa) (Mul vs (inv_e vda)).
Definition e_xor := Add (Mul vs (inv_e vda)) (Mul vd (inv_e vsa)).
Definition e_modulate := Mul vs vd.
Definition e_screen := Sub (Add vs vd) (Mul vs vd).
Definition e_multiply := Add (Add (Mul vs (inv_e vda)) (Mul vd (inv_e vsa))) (Mul vs vd).
Definition e_exclusion := Sub (Add vs vd) (Add (Mul vs vd) (Mul vs vd)).
Definition e_plus := Min (Add vs vd) One.
Definition e_darken := Sub (Add vs vd) (Max (Mul vs vda) (Mul vd vsa)).
Definition e_lighten := Sub (Add vs vd) (Min (Mul vs vda) (Mul vd vsa)).
Definition e_difference := Sub (Add vs vd) (Add (Min (Mul vs vda) (Mul vd vsa)) (Min (Mul vs vda) (Mul vd vsa))).

Definition env4 (s d sa da : f32) : nat -> f32 := fun i => match i with O => s | 1%nat => d | 2%nat => sa | _ => da end.

(* the expression trees ARE the generated closures *)
Lemma reify_ok s d sa da :
  evalF (env4 s d sa da) e_source_over = highp_source_over s d sa da /\
  evalF (env4 s d sa da) e_destination_over = highp_destination_over s d sa da /\
  evalF (env4 s d sa da) e_source_in = highp_source_in s d sa da /\
  evalF (env4 s d sa da) e_destination_in = highp_destination_in s d sa da /\
  evalF (env4 s d sa da) e_source_out = highp_source_out s d sa da /\
  evalF (env4 s d sa da) e_destination_out = highp_destination_out s d sa da /\
  evalF (env4 s d sa da) e_source_atop = highp_source_atop s d sa da /\
  evalF (env4 s d sa da) e_destination_atop = highp_destination_atop s d sa da /\
  evalF (env4 s d sa da) e_xor = highp_xor s d sa da /\
  evalF (env4 s d sa da) e_modulate = highp_modulate s d sa da /\
  evalF (env4 s d sa da) e_screen = highp_screen s d sa da /\
  evalF (env4 s d sa da) e_multiply = highp_multiply s d sa da /\
  evalF (env4 s d sa da) e_exclusion = highp_exclusion s d sa da /\
  evalF (env4 s d sa da) e_plus = highp_plus s d sa da /\
  evalF (env4 s d sa da) e_darken = highp_darken s d sa da /\
  evalF (env4 s d sa da) e_lighten = highp_lighten s d sa da /\
  evalF (env4 s d sa da) e_difference = highp_difference s d sa da.
Proof. repeat split; reflexivity. Qed.

Lemma u_val : u = / 16777216.
Proof. unfold u. change (-24 + 1)%Z with (-23)%Z. change (bpow radix2 (-23)) with (/ IZR (Z.pow_pos 2 23)). change (Z.pow_pos 2 23) with 8388608%Z. lra. Qed.
Lemma eta0_val : eta0 = / 1427247692705959881058285969449495136382746624.
Proof.
  unfold eta0. change (bpow radix2 (-149)) with (/ IZR (Z.pow_pos 2 149)).
  change (Z.pow_pos 2 149) with 713623846352979940529142984724747568191373312%Z. lra.
Qed.
Lemma pow100 : bpow radix2 100 = 1267650600228229401496703205376.
Proof. change (bpow radix2 100) with (IZR (Z.pow_pos 2 100)). reflexivity. Qed.

(* numeric bounds: every intermediate value is tiny compared with the overflow threshold and the final error is below 2^-19 *)
Ltac bound_tac := cbn [ok mag err e_source_over e_destination_over e_source_in e_destination_in e_source_out e_destination_out
                         e_source_atop e_destination_atop e_xor e_modulate e_screen e_multiply e_exclusion e_plus e_darken e_lighten e_difference inv_e vs vd vsa vda];
                  cbv zeta; rewrite ?pow100, u_val, eta0_val; repeat split; try exact I; try lra.

Definition all_e : list ex := [e_source_over; e_destination_over; e_source_in; e_destination_in; e_source_out; e_destination_out;
                               e_source_atop; e_destination_atop; e_xor; e_modulate; e_screen; e_multiply; e_exclusion;
                               e_plus; e_darken; e_lighten; e_difference].

Lemma all_ok : Forall (fun e => ok e /\ err e <= / 524288) all_e.
Proof. unfold all_e. repeat (apply Forall_cons; [bound_tac|]). apply Forall_nil. Qed.

(* THE statement: for premultiplied inputs in [0, 1] every polynomial highp blend closure is finite and within 2^-19 of the exact
   polynomial of its source text; after the store (x * 255 + 0.5 truncated) that is less than 1/2000 of a level *)
Theorem highp_poly_error s d sa da e :
  In e all_e ->
  fin s -> fin d -> fin sa -> fin da ->
  0 <= R32 s <= 1 -> 0 <= R32 d <= 1 -> 0 <= R32 sa <= 1 -> 0 <= R32 da <= 1 ->
  fin (evalF (env4 s d sa da) e) /\
  Rabs (R32 (evalF (env4 s d sa da) e) - evalR (fun i => R32 (env4 s d sa da i)) e) <= / 524288.
Proof.
  intros Hin Fs Fd Fsa Fda Bs Bd Bsa Bda.
  pose proof all_ok as A. rewrite Forall_forall in A. destruct (A e Hin) as (O & E).
  assert (He : env_ok (env4 s d sa da)).
  { intros i. destruct i as [|[|[|i]]]; cbn [env4]; split; assumption. }
  destruct (eval_error (env4 s d sa da) e He O) as (F & Er & _). split; [exact F|]. lra.
Qed.

(* the same, stated closure by closure against readable real polynomials *)
Definition P_source_over (s d sa da : R) := d * (1 - sa) + s.
Definition P_destination_over (s d sa da : R) := s * (1 - da) + d.
Definition P_source_in (s d sa da : R) := s * da.
Definition P_destination_in (s d sa da : R) := d * sa.
Definition P_source_out (s d sa da : R) := s * (1 - da).
Definition P_destination_out (s d sa da : R) := d * (1 - sa).
Definition P_source_atop (s d sa da : R) := s * da + d * (1 - sa).
Definition P_destination_atop (s d sa da : R) := d * sa + s * (1 - da).
Definition P_xor (s d sa da : R) := s * (1 - da) + d * (1 - sa).
Definition P_modulate (s d sa da : R) := s * d.
Definition P_screen (s d sa da : R) := s + d - s * d.
Definition P_multiply (s d sa da : R) := s * (1 - da) + d * (1 - sa) + s * d.
Definition P_exclusion (s d sa da : R) := s + d - 2 * (s * d).
Definition P_plus (s d sa da : R) := Rmin (s + d) 1.
Definition P_darken (s d sa da : R) := s + d - Rmax (s * da) (d * sa).
Definition P_lighten (s d sa da : R) := s + d - Rmin (s * da) (d * sa).
Definition P_difference (s d sa da : R) := s + d - 2 * Rmin (s * da) (d * sa).

Definition close (f : f32 -> f32 -> f32 -> f32 -> f32) (g : R -> R -> R -> R -> R) : Prop :=
  forall s d sa da, fin s -> fin d -> fin sa -> fin da ->
  0 <= R32 s <= 1 -> 0 <= R32 d <= 1 -> 0 <= R32 sa <= 1 -> 0 <= R32 da <= 1 ->
  fin (f s d sa da) /\ Rabs (R32 (f s d sa da) - g (R32 s) (R32 d) (R32 sa) (R32 da)) <= / 524288.

Lemma close_of e f g :
  In e all_e -> (forall s d sa da, evalF (env4 s d sa da) e = f s d sa da) ->
  (forall s d sa da, evalR (fun i => R32 (env4 s d sa da i)) e = g (R32 s) (R32 d) (R32 sa) (R32 da)) -> close f g.
Proof.
  intros Hin Hf Hg s d sa da Fs Fd Fsa Fda Bs Bd Bsa Bda.
  destruct (highp_poly_error s d sa da e Hin Fs Fd Fsa Fda Bs Bd Bsa Bda) as (A & B). rewrite Hf, Hg in *. split; assumption.
Qed.

Ltac close_tac e := apply (close_of e); [unfold all_e; cbn [In]; tauto | intros; reflexivity |
  intros; cbn [evalR env4 e_source_over e_destination_over e_source_in e_destination_in e_source_out e_destination_out
               e_source_atop e_destination_atop e_xor e_modulate e_screen e_multiply e_exclusion e_plus e_darken e_lighten e_difference inv_e vs vd vsa vda];
  unfold P_plus, P_darken, P_lighten, P_difference, P_source_over, P_destination_over, P_source_in, P_destination_in, P_source_out, P_destination_out, P_source_atop,
         P_destination_atop, P_xor, P_modulate, P_screen, P_multiply, P_exclusion; ring].

Lemma close_source_over : close highp_source_over P_source_over.
Proof. close_tac e_source_over. Qed.
Lemma close_destination_over : close highp_destination_over P_destination_over.
Proof. close_tac e_destination_over. Qed.
Lemma close_source_in : close highp_source_in P_source_in.
Proof. close_tac e_source_in. Qed.
Lemma close_destination_in : close highp_destination_in P_destination_in.
Proof. close_tac e_destination_in. Qed.
Lemma close_source_out : close highp_source_out P_source_out.
Proof. close_tac e_source_out. Qed.
Lemma close_destination_out : close highp_destination_out P_destination_out.
Proof. close_tac e_destination_out. Qed.
Lemma close_source_atop : close highp_source_atop P_source_atop.
Proof. close_tac e_source_atop. Qed.
Lemma close_destination_atop : close highp_destination_atop P_destination_atop.
Proof. close_tac e_destination_atop. Qed.
Lemma close_xor : close highp_xor P_xor.
Proof. close_tac e_xor. Qed.
Lemma close_modulate : close highp_modulate P_modulate.
Proof. close_tac e_modulate. Qed.
Lemma close_screen : close highp_screen P_screen.
Proof. close_tac e_screen. Qed.
Lemma close_multiply : close highp_multiply P_multiply.
Proof. close_tac e_multiply. Qed.
Lemma close_exclusion : close highp_exclusion P_exclusion.
Proof. close_tac e_exclusion. Qed.
Lemma close_plus : close highp_plus P_plus.
Proof. close_tac e_plus. Qed.
Lemma close_darken : close highp_darken P_darken.
Proof. close_tac e_darken. Qed.
Lemma close_lighten : close highp_lighten P_lighten.
Proof. close_tac e_lighten. Qed.
Lemma close_difference : close highp_difference P_difference.
Proof. close_tac e_difference. Qed.

Theorem highp_polynomial_modes_close :
  close highp_source_over P_source_over /\
  close highp_destination_over P_destination_over /\
  close highp_source_in P_source_in /\
  close highp_destination_in P_destination_in /\
  close highp_source_out P_source_out /\
  close highp_destination_out P_destination_out /\
  close highp_source_atop P_source_atop /\
  close highp_destination_atop P_destination_atop /\
  close highp_xor P_xor /\
  close highp_modulate P_modulate /\
  close highp_screen P_screen /\
  close highp_multiply P_multiply /\
  close highp_exclusion P_exclusion /\
  close highp_plus P_plus /\
  close highp_darken P_darken /\
  close highp_lighten P_lighten /\
  close highp_difference P_difference.
Proof.
  split; [exact close_source_over|]. split; [exact close_destination_over|]. split; [exact close_source_in|]. split; [exact close_destination_in|]. split; [exact close_source_out|]. split; [exact close_destination_out|]. split; [exact close_source_atop|]. split; [exact close_destination_atop|]. split; [exact close_xor|]. split; [exact close_modulate|]. split; [exact close_screen|]. split; [exact close_multiply|]. split; [exact close_exclusion|]. split; [exact close_plus|]. split; [exact close_darken|]. split; [exact close_lighten|]. exact close_difference.
Qed.
