(* C03: arithmetic of the supersampling accumulator.
   - blit_h_args conserves coverage: start + 4*middle + stop sub-pixels = span width, and locates them;
   - a pixel covered k_i of 4 sub-pixels on sub-scanline i accumulates to within 1 of 255*K/16, and to
     exactly 0 / 255 when empty / full;
   - catch_overflow maps 256 to 255 and is the identity below.
   Integer reasoning and complete finite checks: closed under the global context. *)
From Coq Require Import ZArith Bool List Lia.
From TS Require Import Model.AlphaRuns.
Import ListNotations.
Local Open Scope Z_scope.

Lemma land3 x : 0 <= x -> Z.land x 3 = x mod 4.
Proof. intros H. change 3 with (Z.ones 2). rewrite Z.land_ones by lia. reflexivity. Qed.
Lemma shr2 x : Z.shiftr x 2 = x / 4.
Proof. rewrite Z.shiftr_div_pow2 by lia. reflexivity. Qed.

Lemma partial_alpha_eq aa : 0 <= aa <= 4 -> coverage_to_partial_alpha aa = if aa =? 4 then 64 else 16 * aa.
Proof.
  intros H. unfold coverage_to_partial_alpha, ss_shift.
  assert (aa = 0 \/ aa = 1 \/ aa = 2 \/ aa = 3 \/ aa = 4) as [-> | [-> | [-> | [-> | ->]]]] by lia; reflexivity.
Qed.

(* sub-pixel bookkeeping of one span: fb sub-pixels in the first pixel, n full pixels, fe in the last *)
Theorem blit_h_args_conserve x width y :
  0 <= x -> 1 <= width ->
  let '(px, sa, n, ea, mv) := blit_h_args x width y in
  exists fb fe, 0 <= fb <= 3 /\ 0 <= fe <= 3 /\ 0 <= n /\
    sa = 16 * fb /\ ea = 16 * fe /\ fb + 4 * n + fe = width /\ px = x / 4 /\
    (* the start pixel holds fb sub-pixels ending at its right edge (or the whole short span) *)
    (fb = 0 \/ n > 0 \/ fe > 0 \/ fb = width).
Proof.
  intros Hx Hw. unfold blit_h_args, ss_mask, ss_shift, ss_scale.
  rewrite !land3, !shr2 by lia.
  pose proof (Z.div_mod x 4 ltac:(lia)). pose proof (Z.mod_pos_bound x 4 ltac:(lia)).
  pose proof (Z.div_mod (x + width) 4 ltac:(lia)). pose proof (Z.mod_pos_bound (x + width) 4 ltac:(lia)).
  destruct ((x + width) / 4 - x / 4 - 1 <? 0) eqn:E.
  - apply Z.ltb_lt in E.
    exists ((x + width) mod 4 - x mod 4), 0.
    rewrite !partial_alpha_eq by lia.
    assert ((x + width) mod 4 - x mod 4 =? 4 = false) as -> by (apply Z.eqb_neq; lia).
    change (0 =? 4) with false. cbv iota. repeat split; try lia.
  - apply Z.ltb_ge in E. destruct (x mod 4 =? 0) eqn:F.
    + apply Z.eqb_eq in F. exists 0, ((x + width) mod 4).
      rewrite !partial_alpha_eq by lia. rewrite F.
      assert ((x + width) mod 4 =? 4 = false) as -> by (apply Z.eqb_neq; lia).
      change (0 =? 4) with false. cbv iota. repeat split; try lia.
    + apply Z.eqb_neq in F. exists (4 - x mod 4), ((x + width) mod 4).
      rewrite !partial_alpha_eq by lia.
      assert (4 - x mod 4 =? 4 = false) as -> by (apply Z.eqb_neq; lia).
      assert ((x + width) mod 4 =? 4 = false) as -> by (apply Z.eqb_neq; lia).
      cbv iota. repeat split; try lia.
Qed.

Lemma max_value_eq y : 0 <= y ->
  (let '(_, _, _, _, mv) := blit_h_args 0 1 y in mv) = if y mod 4 =? 3 then 63 else 64.
Proof.
  intros Hy. unfold blit_h_args, ss_mask, ss_shift, ss_scale. rewrite !land3, !shr2 by lia.
  simpl (if _ <? 0 then _ else _).
  pose proof (Z.mod_pos_bound y 4 ltac:(lia)).
  assert (y mod 4 = 0 \/ y mod 4 = 1 \/ y mod 4 = 2 \/ y mod 4 = 3) as [-> | [-> | [-> | ->]]] by lia; reflexivity.
Qed.

Theorem catch_overflow_spec a : 0 <= a <= 256 -> catch_overflow a = Some (Z.min a 255).
Proof.
  intros H. unfold catch_overflow. destruct (256 <? a) eqn:E; [apply Z.ltb_lt in E; lia|].
  f_equal. destruct (Z.eq_dec a 256) as [-> | N]; [reflexivity|].
  rewrite Z.shiftr_div_pow2 by lia. rewrite (Z.div_small a) by (simpl; lia). rewrite Z.mod_small by lia. lia.
Qed.

(* one pixel over the four sub-scanlines of a destination row: k_i of 4 sub-pixels covered on sub-scanline i
   (a fully covered sub-scanline contributes max_value: 64, 64, 64, 63) *)
Definition contrib (i k : Z) : Z := if k =? 4 then (if i =? 3 then 63 else 64) else 16 * k.
Definition accumulate (k0 k1 k2 k3 : Z) : Z := contrib 0 k0 + contrib 1 k1 + contrib 2 k2 + contrib 3 k3.

Definition ks : list Z := [0; 1; 2; 3; 4].
Definition acc_ok (k0 k1 k2 k3 : Z) : bool :=
  let a := accumulate k0 k1 k2 k3 in
  let K := k0 + k1 + k2 + k3 in
  (0 <=? a) && (a <=? 255) && (Z.abs (16 * a - 255 * K) <=? 16) &&
  (if K =? 0 then a =? 0 else true) && (if K =? 16 then a =? 255 else true).

Lemma acc_all : forallb (fun k0 => forallb (fun k1 => forallb (fun k2 => forallb (fun k3 => acc_ok k0 k1 k2 k3) ks) ks) ks) ks = true.
Proof. vm_compute. reflexivity. Qed.

(* |alpha - 255 * (covered sub-pixels)/16| <= 1, no u8 overflow, exact 0 and 255 at the extremes *)
Theorem pixel_accumulation k0 k1 k2 k3 :
  0 <= k0 <= 4 -> 0 <= k1 <= 4 -> 0 <= k2 <= 4 -> 0 <= k3 <= 4 ->
  let a := accumulate k0 k1 k2 k3 in let K := k0 + k1 + k2 + k3 in
  0 <= a <= 255 /\ Z.abs (16 * a - 255 * K) <= 16 /\ (K = 0 -> a = 0) /\ (K = 16 -> a = 255).
Proof.
  intros H0 H1 H2 H3.
  assert (I : forall k, 0 <= k <= 4 -> In k ks) by (intros k Hk; unfold ks; simpl; lia).
  pose proof acc_all as A. rewrite forallb_forall in A. specialize (A k0 (I k0 H0)).
  rewrite forallb_forall in A. specialize (A k1 (I k1 H1)).
  rewrite forallb_forall in A. specialize (A k2 (I k2 H2)).
  rewrite forallb_forall in A. specialize (A k3 (I k3 H3)).
  unfold acc_ok in A. rewrite !andb_true_iff, !Z.leb_le in A. destruct A as ((((A1 & A2) & A3) & A4) & A5).
  cbv zeta. repeat split; try lia.
  - intros E. rewrite E in A4. simpl in A4. apply Z.eqb_eq in A4. exact A4.
  - intros E. rewrite E in A5. simpl in A5. apply Z.eqb_eq in A5. exact A5.
Qed.
