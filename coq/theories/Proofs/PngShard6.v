(* shard 6 of the finite checks of Proofs/PngProofs.v: alpha in [192, 224) *)
From Coq Require Import ZArith Bool List.
From TS Require Import Base.F32 Model.Pixel Model.Png Proofs.PngDefs.
Local Open Scope Z_scope.
Lemma png_shard6_ok : forallb alpha_ok (zrange 192 32) = true.
Proof. vm_compute. reflexivity. Qed.
