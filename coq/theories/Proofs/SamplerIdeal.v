(* Ideal (rational) sampling functions of Model/Sampler.v: filter weights, clamps, tiling. *)
From Coq Require Import ZArith QArith Qround Qabs Qminmax Qfield Lqa List.
From TS Require Import Model.Sampler.
Import ListNotations.
Local Open Scope Q_scope.

(* ---- bilinear ------------------------------------------------------------------------------------------- *)
Theorem bilerp_constant fx fy c : bilerp fx fy c c c c == c.
Proof. unfold bilerp. ring. Qed.

Lemma convex2 t a b lo hi : 0 <= t <= 1 -> lo <= a <= hi -> lo <= b <= hi -> lo <= (1 - t) * a + t * b <= hi.
Proof.
  intros Ht Ha Hb.
  assert (0 <= (1 - t) * (a - lo)) by (apply Qmult_le_0_compat; lra).
  assert (0 <= t * (b - lo)) by (apply Qmult_le_0_compat; lra).
  assert (0 <= (1 - t) * (hi - a)) by (apply Qmult_le_0_compat; lra).
  assert (0 <= t * (hi - b)) by (apply Qmult_le_0_compat; lra).
  split; lra.
Qed.

(* a bilinear sample never leaves the range of the four sampled values *)
Theorem bilerp_in_hull fx fy s00 s10 s01 s11 lo hi :
  0 <= fx <= 1 -> 0 <= fy <= 1 ->
  lo <= s00 <= hi -> lo <= s10 <= hi -> lo <= s01 <= hi -> lo <= s11 <= hi ->
  lo <= bilerp fx fy s00 s10 s01 s11 <= hi.
Proof.
  intros Hx Hy H00 H10 H01 H11. unfold bilerp.
  apply convex2; [exact Hy | apply convex2; assumption | apply convex2; assumption].
Qed.

(* ---- bicubic ---------------------------------------------------------------------------------------------- *)
(* the four weights sum to one for every fractional offset: a constant image is reproduced *)
Theorem bicubic_weights_sum f :
  bicubic_far (1 - f) + bicubic_near (1 - f) + bicubic_near f + bicubic_far f == 1.
Proof. unfold bicubic_far, bicubic_near. ring. Qed.

(* the far weights are negative inside (0,1): bicubic sampling overshoots, hence the clamps *)
Theorem bicubic_far_negative : bicubic_far (1 # 2) < 0.
Proof. unfold bicubic_far. reflexivity. Qed.

(* after clamp_0 and clamp_a every channel is a valid premultiplied value: 0 <= c <= a <= 1 *)
Theorem clamps_premultiplied c a :
  let a' := clamp_a_alpha (clamp_0 a) in let c' := clamp_a_color (clamp_0 c) (clamp_0 a) in
  0 <= c' /\ c' <= a' /\ a' <= 1.
Proof.
  cbv zeta. unfold clamp_a_color, clamp_a_alpha, clamp_0. repeat split.
  - apply Q.min_glb; [apply Q.le_max_r | apply Q.min_glb; [apply Q.le_max_r | lra]].
  - apply Q.le_min_r.
  - apply Q.le_min_r.
Qed.
(* the pinned clamp_a (to 1.0) did not give that *)
Theorem clamp_a_pinned_refuted : exists c a, clamp_a_alpha (clamp_0 a) < clamp_a_color_pinned (clamp_0 c) (clamp_0 a).
Proof. exists 1, (1 # 2). reflexivity. Qed.

(* ---- tiling -------------------------------------------------------------------------------------------------- *)
Theorem exclusive_repeat_range v limit : 0 < limit -> 0 <= exclusive_repeat v limit /\ exclusive_repeat v limit < limit.
Proof.
  intros Hl. unfold exclusive_repeat, floorQ.
  pose proof (Qfloor_le (v / limit)) as H1. pose proof (Qlt_floor (v / limit)) as H2.
  rewrite inject_Z_plus in H2. change (inject_Z 1) with 1 in H2.
  set (k := inject_Z (Qfloor (v / limit))) in *.
  assert (E : v == (v / limit) * limit) by (field; lra).
  assert (A : k * limit <= (v / limit) * limit) by (apply Qmult_le_compat_r; lra).
  assert (B : (v / limit) * limit < (k + 1) * limit) by (apply Qmult_lt_compat_r; lra).
  split; lra.
Qed.

Theorem exclusive_reflect_range v limit : 0 < limit -> 0 <= exclusive_reflect v limit /\ exclusive_reflect v limit <= limit.
Proof.
  intros Hl. unfold exclusive_reflect, floorQ.
  set (u := v - limit). set (q := u * (1 / limit * (1 # 2))).
  pose proof (Qfloor_le q) as H1. pose proof (Qlt_floor q) as H2.
  rewrite inject_Z_plus in H2. change (inject_Z 1) with 1 in H2.
  set (k := inject_Z (Qfloor q)) in *.
  assert (E : u == q * (limit + limit)) by (unfold q; field; lra).
  assert (A : k * (limit + limit) <= q * (limit + limit)) by (apply Qmult_le_compat_r; lra).
  assert (B : q * (limit + limit) < (k + 1) * (limit + limit)) by (apply Qmult_lt_compat_r; lra).
  split; [apply Qabs_nonneg|]. apply Qabs_Qle_condition. split; lra.
Qed.
