(* IntRect / IntSize / pixmap-size theorems (C19).  Pure integer reasoning: closed under the
   global context. *)
From Coq Require Import ZArith Bool List Lia.
From TS Require Import Model.IntRect.
Import ListNotations.
Local Open Scope Z_scope.

Definition ir_valid (r : irect) : Prop :=
  i32_min <= ix r <= i32_max /\ i32_min <= iy r <= i32_max /\
  1 <= iw r <= i32_max /\ 1 <= ih r <= i32_max /\
  ix r + iw r <= i32_max /\ iy r + ih r <= i32_max.

Ltac unf := unfold ir_from_ltrb, ir_from_xywh, checked_add, checked_sub, checked_i32, in_i32, in_u32,
  u32_of_i32, i32_of_u32, bind, sat_i32, i32_min, i32_max, u32_max in *.

Ltac brk :=
  repeat match goal with
  | H : context [if ?c then _ else _] |- _ => destruct c eqn:?; try discriminate
  | |- context [if ?c then _ else _] => destruct c eqn:?
  | H : Some _ = Some _ |- _ => inversion H; subst; clear H
  end.

Lemma from_xywh_iff x y w h r :
  i32_min <= x <= i32_max -> i32_min <= y <= i32_max -> 0 <= w <= u32_max -> 0 <= h <= u32_max ->
  (ir_from_xywh x y w h = Some r <->
   r = mkir x y w h /\ 1 <= w <= i32_max /\ 1 <= h <= i32_max /\ x + w <= i32_max /\ y + h <= i32_max).
Proof.
  intros Hx Hy Hw Hh. unf. split.
  - intros H. brk. simpl in *. repeat split; lia.
  - intros (-> & A & B & C & D). brk; try reflexivity; simpl in *; lia.
Qed.

Lemma from_xywh_valid x y w h r :
  i32_min <= x <= i32_max -> i32_min <= y <= i32_max -> 0 <= w <= u32_max -> 0 <= h <= u32_max ->
  ir_from_xywh x y w h = Some r -> ir_valid r.
Proof.
  intros Hx Hy Hw Hh H. apply from_xywh_iff in H; auto. destruct H as (-> & ?). unfold ir_valid, i32_min, i32_max in *. simpl. lia.
Qed.

Lemma from_ltrb_iff l t r b rc :
  i32_min <= l <= i32_max -> i32_min <= t <= i32_max -> i32_min <= r <= i32_max -> i32_min <= b <= i32_max ->
  (ir_from_ltrb l t r b = Some rc <->
   rc = mkir l t (r - l) (b - t) /\ l < r /\ t < b /\ r - l <= i32_max /\ b - t <= i32_max).
Proof.
  intros Hl Ht Hr Hb. unf. split.
  - intros H. brk. simpl in *. repeat split; lia.
  - intros (-> & A & B & C & D). brk; try reflexivity; simpl in *; lia.
Qed.

Lemma from_ltrb_valid l t r b rc :
  i32_min <= l <= i32_max -> i32_min <= t <= i32_max -> i32_min <= r <= i32_max -> i32_min <= b <= i32_max ->
  ir_from_ltrb l t r b = Some rc -> ir_valid rc.
Proof.
  intros Hl Ht Hr Hb H. apply from_ltrb_iff in H; auto. destruct H as (-> & ?).
  unfold ir_valid, i32_min, i32_max in *. simpl. lia.
Qed.

(* right()/bottom() do not overflow on a valid rect (they are unchecked `+` in the source) *)
Lemma right_bottom_in_range r : ir_valid r ->
  i32_min <= ir_right r <= i32_max /\ i32_min <= ir_bottom r <= i32_max.
Proof. unfold ir_valid, ir_right, ir_bottom, i32_min, i32_max. lia. Qed.

Theorem intersect_spec a b :
  ir_valid a -> ir_valid b ->
  match ir_intersect a b with
  | Some c => ir_valid c /\ ir_contains a c = true /\ ir_contains b c = true /\
              ix c = Z.max (ix a) (ix b) /\ iy c = Z.max (iy a) (iy b) /\
              ir_right c = Z.min (ir_right a) (ir_right b) /\ ir_bottom c = Z.min (ir_bottom a) (ir_bottom b)
  | None => Z.min (ir_right a) (ir_right b) <= Z.max (ix a) (ix b) \/
            Z.min (ir_bottom a) (ir_bottom b) <= Z.max (iy a) (iy b)
  end.
Proof.
  intros Va Vb. unfold ir_valid in *. unfold ir_intersect, ir_contains, ir_right, ir_bottom in *.
  unf. cbn [ix iy iw ih].
  brk; cbn [ix iy iw ih]; lia.
Qed.

Lemma bind_some {A B} (o : option A) (f : A -> option B) v :
  bind o f = Some v -> exists a, o = Some a /\ f a = Some v.
Proof. destruct o; simpl; [eauto|discriminate]. Qed.

Lemma checked_add_some a b v : checked_add a b = Some v -> v = a + b /\ i32_min <= a + b <= i32_max.
Proof. unf. intros H. brk. lia. Qed.
Lemma checked_sub_some a b v : checked_sub a b = Some v -> v = a - b /\ i32_min <= a - b <= i32_max.
Proof. unf. intros H. brk. lia. Qed.

Tactic Notation "binds" integer(n) hyp(H) :=
  do n (let a := fresh "a" in let E := fresh "E" in
          apply bind_some in H; destruct H as (a & E & H);
          first [apply checked_add_some in E | apply checked_sub_some in E]; destruct E as (-> & E)).

Theorem inset_valid r dx dy rc :
  ir_valid r -> i32_min <= dx <= i32_max -> i32_min <= dy <= i32_max ->
  ir_inset r dx dy = Some rc ->
  ir_valid rc /\ ix rc = ix r + dx /\ iy rc = iy r + dy /\
  ir_right rc = ir_right r - dx /\ ir_bottom rc = ir_bottom r - dy.
Proof.
  intros V Hx Hy H. unfold ir_inset in H. binds 4 H.
  pose proof (from_ltrb_valid _ _ _ _ _ E E0 E1 E2 H) as V'.
  apply from_ltrb_iff in H; auto. destruct H as (-> & _).
  split; [exact V'|]. unfold ir_right, ir_bottom. cbn [ix iy iw ih]. lia.
Qed.

Theorem translate_valid r tx ty rc :
  ir_valid r -> i32_min <= tx <= i32_max -> i32_min <= ty <= i32_max ->
  ir_translate r tx ty = Some rc ->
  ir_valid rc /\ rc = mkir (ix r + tx) (iy r + ty) (iw r) (ih r).
Proof.
  intros V Hx Hy H. unfold ir_translate in H. binds 2 H.
  assert (Hw : 0 <= iw r <= u32_max) by (unfold ir_valid, i32_max, u32_max in *; lia).
  assert (Hh : 0 <= ih r <= u32_max) by (unfold ir_valid, i32_max, u32_max in *; lia).
  pose proof (from_xywh_valid _ _ _ _ _ E E0 Hw Hh H) as V'.
  apply from_xywh_iff in H; auto. destruct H as (-> & _). auto.
Qed.

Theorem translate_to_valid r x y rc :
  ir_valid r -> i32_min <= x <= i32_max -> i32_min <= y <= i32_max ->
  ir_translate_to r x y = Some rc -> ir_valid rc /\ rc = mkir x y (iw r) (ih r).
Proof.
  intros V Hx Hy H. unfold ir_translate_to in H.
  assert (Hw : 0 <= iw r <= u32_max) by (unfold ir_valid, i32_max, u32_max in *; lia).
  assert (Hh : 0 <= ih r <= u32_max) by (unfold ir_valid, i32_max, u32_max in *; lia).
  pose proof (from_xywh_valid _ _ _ _ _ Hx Hy Hw Hh H) as V'.
  apply from_xywh_iff in H; auto. destruct H as (-> & _). auto.
Qed.

Lemma sat_i32_range z : i32_min <= sat_i32 z <= i32_max.
Proof. unfold sat_i32, i32_min, i32_max. destruct (z <? _) eqn:A; [lia|]. destruct (_ <? z) eqn:B; lia. Qed.

Theorem make_outset_valid r dx dy rc :
  ir_valid r -> ir_make_outset r dx dy = Some rc -> ir_valid rc.
Proof.
  intros V H. unfold ir_make_outset in H.
  eapply from_ltrb_valid; [| | | |exact H]; apply sat_i32_range.
Qed.

(* the pinned inset/translate were unchecked: the sum leaves i32 (debug panic / release wrap) *)
Lemma inset_pinned_overflow_refuted :
  exists r dx, ir_valid r /\ i32_min <= dx <= i32_max /\ ~ (i32_min <= ix r + dx <= i32_max).
Proof.
  exists (mkir 1 0 1 1), i32_max. unfold ir_valid, i32_min, i32_max. simpl. lia.
Qed.

(* ---- pixmap sizes -------------------------------------------------------------------- *)

Theorem data_len_spec w h :
  0 <= w <= u32_max -> 0 <= h <= u32_max ->
  (forall n, pixmap_new_ok w h = Some n <->
     (1 <= w /\ 1 <= h /\ 4 * w <= i32_max /\ n = 4 * w * h)).
Proof.
  intros Hw Hh n. unfold pixmap_new_ok, isize_from_wh, data_len_for_size, min_row_bytes, compute_data_len,
    checked_usize, usize_max, bytes_per_pixel. unf. split.
  - intros H. brk. lia.
  - intros (A & B & C & ->).
    assert (P1 : 0 <= (h - 1) * (w * 4) <= 9223372036854775808) by nia.
    brk; try (f_equal; lia); try lia.
Qed.

Theorem from_vec_accepts_iff len w h :
  0 <= w <= u32_max -> 0 <= h <= u32_max ->
  (from_vec_ok len w h = true <-> (1 <= w /\ 1 <= h /\ 4 * w <= i32_max /\ len = 4 * w * h)).
Proof.
  intros Hw Hh. unfold from_vec_ok. destruct (pixmap_new_ok w h) as [n|] eqn:E.
  - apply data_len_spec in E; auto. rewrite Z.eqb_eq. lia.
  - split; [discriminate|]. intros (A & B & C & D).
    assert (pixmap_new_ok w h = Some (4 * w * h)) by (apply data_len_spec; auto). congruence.
Qed.

Theorem from_bytes_accepts_iff len w h :
  0 <= w <= u32_max -> 0 <= h <= u32_max ->
  (forall n, from_bytes_ok len w h = Some n <->
     (1 <= w /\ 1 <= h /\ 4 * w <= i32_max /\ n = 4 * w * h /\ n <= len)).
Proof.
  intros Hw Hh n. unfold from_bytes_ok. destruct (pixmap_new_ok w h) as [m|] eqn:E.
  - apply data_len_spec in E; auto. destruct (m <=? len) eqn:L.
    + apply Z.leb_le in L. split; [intros H; inversion H; subst; lia|intros; f_equal; lia].
    + apply Z.leb_gt in L. split; [discriminate|lia].
  - split; [discriminate|]. intros (A & B & C & D & F).
    assert (pixmap_new_ok w h = Some (4 * w * h)) by (apply data_len_spec; auto). congruence.
Qed.

(* hypothesis [w * h <= u32_max]: pixel() computes the index in u32 with checked arithmetic, so
   on a pixmap of more than 2^32 pixels (> 16 GiB) it answers None for the far rows; stated,
   not hidden. *)
Theorem pixel_index_spec w h x y :
  1 <= w -> 1 <= h -> 4 * w <= i32_max -> w * h <= u32_max -> 0 <= x <= u32_max -> 0 <= y <= u32_max ->
  (forall i, pixel_index w h x y = Some i <-> (x < w /\ y < h /\ i = y * w + x)).
Proof.
  intros Hw Hh H4 Hwh Hx Hy i. unfold pixel_index, bind. unf. split.
  - intros H. brk. rewrite orb_false_iff, !Z.leb_gt in *. lia.
  - intros (A & B & ->).
    assert (y * w + x < w * h) by nia.
    brk; try (f_equal; lia); rewrite ?orb_true_iff, ?Z.leb_le, ?Z.leb_gt, ?Z.ltb_ge in *; try lia; nia.
Qed.

(* the pinned tree accepted x >= width and answered with a pixel of the next row *)
Lemma pixel_index_pinned_refuted :
  pixel_index_pinned 3 2 3 0 = Some 3.
Proof. reflexivity. Qed.
