(* shard 6 of the finite check in Proofs/SourcePremul.v: alpha in [192, 224) *)
From Coq Require Import ZArith Bool List.
From TS Require Import Base.F32 Model.Pixel Proofs.SourcePremulDefs.
Local Open Scope Z_scope.
Lemma shard6_ok : forallb (fun a => forallb (pair_ok a) range256) (range_from 192 32) = true.
Proof. vm_compute. reflexivity. Qed.
