(* C01 / C02: the debug assertion `y0 <= y1 && y1 <= y2` of QuadraticEdge::new2 cannot fire on the pieces that
   chop_quad_at_y_extrema hands to it (edge builder, unclipped route): every piece is y-monotone after the conversion to FDot6,
   for every quad with finite ordinates of moderate magnitude.  The two chopped pieces and the forced-monotone fallback are
   monotone by construction (two of their three ordinates coincide); for the untouched quad the test of `is_not_monotonic`
   is a test on the SIGNS of binary32 differences, and a binary32 difference has the sign of the exact difference. *)
From Coq Require Import ZArith Bool List Lia Reals Lra.
From Flocq Require Import Core.Zaux Core.Raux Core.Defs Core.Generic_fmt Core.FLT Core.FIX Core.Float_prop Core.Round_NE
  Plus_error IEEE754.BinarySingleNaN.
From TS Require Import Base.F32 Model.Rect Model.PathBuilder Model.Edge Model.CurveEdge Model.CurveFill
  Proofs.RectPoints Proofs.WalkProofs Proofs.GenericRound.
Import ListNotations.
Local Open Scope Z_scope.

Notation fexp32 := (SpecFloat.fexp 24 128).
Notation rnd := (round radix2 fexp32 (round_mode mode_NE)).

(* finite and of moderate magnitude *)
Definition bnd (v : f32) : Prop := fin v /\ (Rabs (R32 v) <= bpow radix2 100)%R.

Lemma rnd_abs_le x k : (Rabs x <= bpow radix2 k)%R -> -149 <= k -> (Rabs (rnd x) <= bpow radix2 k)%R.
Proof.
  intros H Hk. apply abs_round_le_generic; [apply (fexp_correct 24 128); reflexivity | apply valid_rnd_N | | exact H].
  apply (generic_format_bpow radix2 fexp32). unfold SpecFloat.fexp, SpecFloat.emin. lia.
Qed.

Lemma sub_real a b : bnd a -> bnd b -> fin (F32.sub a b) /\ R32 (F32.sub a b) = rnd (R32 a - R32 b).
Proof.
  intros (Fa & Ba) (Fb & Bb). apply sub_rnd; [exact Fa | exact Fb|].
  apply Rle_lt_trans with (bpow radix2 101); [|apply bpow_lt; lia].
  apply rnd_abs_le; [|lia]. replace (bpow radix2 101) with (bpow radix2 100 + bpow radix2 100)%R by (change 101 with (100 + 1); rewrite bpow_plus; simpl (bpow radix2 1); lra).
  eapply Rle_trans; [apply Rabs_triang|]. rewrite Rabs_Ropp. lra.
Qed.

(* the sign of a rounded difference of two binary32 values is the sign of the exact difference *)
Lemma rnd_diff_sign a b : fin a -> fin b ->
  ((rnd (R32 a - R32 b) < 0)%R <-> (R32 a < R32 b)%R) /\ ((rnd (R32 a - R32 b) = 0)%R <-> (R32 a = R32 b)%R) /\
  ((0 < rnd (R32 a - R32 b))%R <-> (R32 b < R32 a)%R).
Proof.
  intros Fa Fb. set (x := (R32 a - R32 b)%R).
  assert (V : Valid_exp fexp32) by (apply (fexp_correct 24 128); reflexivity).
  assert (Z0 : rnd 0 = 0%R) by (apply round_0; apply valid_rnd_N).
  assert (NZ : x <> 0%R -> rnd x <> 0%R).
  { intros Hx. unfold x, Rminus. change fexp32 with (FLT_exp (-149) 24).
    apply (round_plus_neq_0 radix2 (FLT_exp (-149) 24) ZnearestE).
    - change (FLT_exp (-149) 24) with fexp32. apply generic_format_B2R.
    - apply generic_format_opp. change (FLT_exp (-149) 24) with fexp32. apply generic_format_B2R.
    - exact Hx. }
  assert (Le : (x <= 0)%R -> (rnd x <= 0)%R) by (intros H; rewrite <- Z0; apply round_le; [exact V | apply valid_rnd_N | exact H]).
  assert (Ge : (0 <= x)%R -> (0 <= rnd x)%R) by (intros H; rewrite <- Z0; apply round_le; [exact V | apply valid_rnd_N | exact H]).
  unfold x in *. repeat split; intros H.
  - destruct (Rlt_le_dec (R32 a) (R32 b)) as [L | G]; [exact L|]. assert (0 <= rnd (R32 a - R32 b))%R by (apply Ge; lra). lra.
  - assert (rnd (R32 a - R32 b) <= 0)%R by (apply Le; lra). assert (rnd (R32 a - R32 b) <> 0)%R by (apply NZ; lra). lra.
  - destruct (Req_dec (R32 a - R32 b) 0) as [E | NE]; [lra|]. exfalso. exact (NZ NE H).
  - replace (R32 a - R32 b)%R with 0%R by lra. exact Z0.
  - destruct (Rlt_le_dec (R32 b) (R32 a)) as [L | G]; [exact L|]. assert (rnd (R32 a - R32 b) <= 0)%R by (apply Le; lra). lra.
  - assert (0 <= rnd (R32 a - R32 b))%R by (apply Ge; lra). assert (rnd (R32 a - R32 b) <> 0)%R by (apply NZ; lra). lra.
Qed.

(* ---- the conversion to FDot6 is monotone ---------------------------------------------------------------------------------- *)
Lemma to_i32_mono (u v : f32) : fin u -> fin v -> (R32 u <= R32 v)%R -> F32.to_i32 u <= F32.to_i32 v.
Proof.
  intros Fu Fv H.
  assert (T : forall w : f32, fin w -> F32.to_i32 w = Z.max (-2147483648) (Z.min 2147483647 (Ztrunc (R32 w)))).
  { intros w Fw. destruct w as [s | s | | s m e Hb]; try discriminate Fw.
    - cbn. rewrite Ztrunc_IZR. reflexivity.
    - unfold F32.to_i32, F32.to_int_sat.
      assert (E : Btrunc (B754_finite s m e Hb) = Ztrunc (R32 (B754_finite s m e Hb))).
      { apply eq_IZR. rewrite (Btrunc_correct 24 128 eq_refl).
        unfold round, scaled_mantissa, cexp, FIX_exp, F2R. cbn [Fnum Fexp Z.opp bpow]. rewrite !Rmult_1_r. reflexivity. }
      rewrite E. set (z := Ztrunc (R32 (B754_finite s m e Hb))).
      destruct (Z.ltb_spec z (-2147483648)); [lia|]. destruct (Z.ltb_spec 2147483647 z); lia. }
  rewrite (T u Fu), (T v Fv). pose proof (Ztrunc_le _ _ H). lia.
Qed.

Lemma scale_val sh : 0 <= sh <= 8 -> fin (F32.of_Z (2 ^ (sh + 6))) /\ R32 (F32.of_Z (2 ^ (sh + 6))) = bpow radix2 (sh + 6).
Proof.
  intros Hs. unfold F32.of_Z.
  pose proof (binary_normalize_correct 24 128 eq_refl eq_refl mode_NE (2 ^ (sh + 6)) 0 false) as C. cbv zeta in C.
  assert (E : F2R (Float radix2 (2 ^ (sh + 6)) 0) = bpow radix2 (sh + 6)).
  { unfold F2R. cbn [Fnum Fexp]. change (bpow radix2 0) with 1%R. rewrite Rmult_1_r. rewrite (IZR_Zpower radix2) by lia. reflexivity. }
  rewrite E in C.
  assert (G : generic_format radix2 fexp32 (bpow radix2 (sh + 6))) by (apply generic_format_bpow; unfold SpecFloat.fexp, SpecFloat.emin; lia).
  rewrite (rnd_id _ G) in C.
  assert (L : (Rabs (bpow radix2 (sh + 6)) < bpow radix2 128)%R) by (rewrite Rabs_pos_eq by apply bpow_ge_0; apply bpow_lt; lia).
  rewrite (Rlt_bool_true _ _ L) in C. destruct C as (C1 & C2 & _). split; [exact C2 | exact C1].
Qed.

Lemma fd6_mono u v sh : bnd u -> bnd v -> 0 <= sh <= 8 -> (R32 u <= R32 v)%R -> fd6 u sh <= fd6 v sh.
Proof.
  intros (Fu & Bu) (Fv & Bv) Hs H. unfold fd6. destruct (scale_val sh Hs) as (Fs & Rs).
  assert (M : forall w, fin w -> (Rabs (R32 w) <= bpow radix2 100)%R ->
              fin (F32.mul w (F32.of_Z (2 ^ (sh + 6)))) /\ R32 (F32.mul w (F32.of_Z (2 ^ (sh + 6)))) = rnd (R32 w * bpow radix2 (sh + 6))).
  { intros w Fw Bw. pose proof (Bmult_correct 24 128 eq_refl eq_refl mode_NE w (F32.of_Z (2 ^ (sh + 6)))) as C. rewrite Rs in C.
    assert (L : (Rabs (rnd (R32 w * bpow radix2 (sh + 6))) < bpow radix2 128)%R).
    { apply Rle_lt_trans with (bpow radix2 (100 + (sh + 6))); [|apply bpow_lt; lia].
      apply rnd_abs_le; [|lia]. rewrite Rabs_mult, (Rabs_pos_eq (bpow radix2 (sh + 6))) by apply bpow_ge_0. rewrite (bpow_plus radix2 100 (sh + 6)).
      apply Rmult_le_compat_r; [apply bpow_ge_0 | exact Bw]. }
    rewrite (Rlt_bool_true _ _ L) in C. destruct C as (C1 & C2 & _). split; [|exact C1].
    unfold fin, F32.is_finite, F32.mul. etransitivity; [exact C2|]. unfold fin, F32.is_finite in Fw, Fs. rewrite Fw, Fs. reflexivity. }
  destruct (M u Fu Bu) as (F1 & R1). destruct (M v Fv Bv) as (F2 & R2).
  apply to_i32_mono; [exact F1 | exact F2|]. rewrite R1, R2.
  apply round_le; [apply (fexp_correct 24 128); reflexivity | apply valid_rnd_N|].
  apply Rmult_le_compat_r; [apply bpow_ge_0 | exact H].
Qed.

(* |v| <= 2^(14 - sh) px  ->  the FDot6 value is within +-2^20 *)
Lemma to_i32_val (w : f32) : fin w -> F32.to_i32 w = Z.max (-2147483648) (Z.min 2147483647 (Ztrunc (R32 w))).
Proof.
  intros Fw. destruct w as [s | s | | s m e Hb]; try discriminate Fw.
  - cbn. rewrite Ztrunc_IZR. reflexivity.
  - unfold F32.to_i32, F32.to_int_sat.
    assert (E : Btrunc (B754_finite s m e Hb) = Ztrunc (R32 (B754_finite s m e Hb))).
    { apply eq_IZR. rewrite (Btrunc_correct 24 128 eq_refl).
      unfold round, scaled_mantissa, cexp, FIX_exp, F2R. cbn [Fnum Fexp Z.opp bpow]. rewrite !Rmult_1_r. reflexivity. }
    rewrite E. set (z := Ztrunc (R32 (B754_finite s m e Hb))).
    destruct (Z.ltb_spec z (-2147483648)); [lia|]. destruct (Z.ltb_spec 2147483647 z); lia.
Qed.

Lemma fd6_small v sh : fin v -> 0 <= sh <= 8 -> (Rabs (R32 v) <= bpow radix2 (14 - sh))%R -> Z.abs (fd6 v sh) <= 1048576.
Proof.
  intros Fv Hs Bv. unfold fd6. destruct (scale_val sh Hs) as (Fs & Rs).
  pose proof (Bmult_correct 24 128 eq_refl eq_refl mode_NE v (F32.of_Z (2 ^ (sh + 6)))) as C. rewrite Rs in C.
  assert (Bx : (Rabs (R32 v * bpow radix2 (sh + 6)) <= bpow radix2 20)%R).
  { rewrite Rabs_mult, (Rabs_pos_eq (bpow radix2 (sh + 6))) by apply bpow_ge_0.
    replace (bpow radix2 20) with (bpow radix2 (14 - sh) * bpow radix2 (sh + 6))%R by (rewrite <- bpow_plus; f_equal; lia).
    apply Rmult_le_compat_r; [apply bpow_ge_0 | exact Bv]. }
  assert (Br : (Rabs (rnd (R32 v * bpow radix2 (sh + 6))) <= bpow radix2 20)%R) by (apply rnd_abs_le; [exact Bx | lia]).
  assert (L : (Rabs (rnd (R32 v * bpow radix2 (sh + 6))) < bpow radix2 128)%R) by (eapply Rle_lt_trans; [exact Br | apply bpow_lt; lia]).
  rewrite (Rlt_bool_true _ _ L) in C. destruct C as (C1 & C2 & _).
  assert (Fm : fin (F32.mul v (F32.of_Z (2 ^ (sh + 6))))).
  { unfold fin, F32.is_finite, F32.mul. etransitivity; [exact C2|]. unfold fin, F32.is_finite in Fv, Fs. rewrite Fv, Fs. reflexivity. }
  rewrite (to_i32_val _ Fm).
  assert (R1 : R32 (F32.mul v (F32.of_Z (2 ^ (sh + 6)))) = rnd (R32 v * bpow radix2 (sh + 6))) by exact C1.
  rewrite R1. set (r := rnd (R32 v * bpow radix2 (sh + 6))) in *.
  assert (T : Z.abs (Ztrunc r) <= 1048576).
  { change (bpow radix2 20) with (IZR 1048576) in Br. apply Rabs_le_inv in Br.
    assert (- 1048576 <= Ztrunc r) by (rewrite <- (Ztrunc_IZR (-1048576)); apply Ztrunc_le; lra).
    assert (Ztrunc r <= 1048576) by (rewrite <- (Ztrunc_IZR 1048576); apply Ztrunc_le; lra).
    lia. }
  lia.
Qed.

Lemma Rlt_bool_t x y : Rlt_bool x y = true -> (x < y)%R.
Proof. case Rlt_bool_spec; [auto | discriminate]. Qed.
Lemma Rlt_bool_f x y : Rlt_bool x y = false -> (y <= x)%R.
Proof. case Rlt_bool_spec; [discriminate | auto]. Qed.
Lemma Req_bool_f x y : Req_bool x y = false -> x <> y.
Proof. case Req_bool_spec; [discriminate | auto]. Qed.

(* ---- the monotone branch of chop_quad_at_y_extrema ---------------------------------------------------------------------- *)
Lemma monotone_reals a b c : bnd a -> bnd b -> bnd c -> is_not_monotonic a b c = false ->
  (R32 a <= R32 b <= R32 c)%R \/ (R32 c <= R32 b <= R32 a)%R.
Proof.
  intros Ba Bb Bc H. unfold is_not_monotonic in H. cbv zeta in H.
  destruct (sub_real a b Ba Bb) as (Fab & Rab). destruct (sub_real b c Bb Bc) as (Fbc & Rbc).
  destruct (rnd_diff_sign a b (proj1 Ba) (proj1 Bb)) as (S1 & S2 & S3).
  destruct (rnd_diff_sign b c (proj1 Bb) (proj1 Bc)) as (T1 & T2 & T3).
  apply orb_false_iff in H. destruct H as (H1 & H2).
  unfold F32.eq in H1. rewrite (Beqb_correct 24 128 (F32.sub a b) F32.zero Fab eq_refl) in H1. change (R32 F32.zero) with 0%R in H1. rewrite Rab in H1.
  apply Req_bool_f in H1.
  unfold F32.lt in H2. destruct (Bltb (F32.sub a b) F32.zero) eqn:L.
  - rewrite (Bltb_correct 24 128 (F32.sub a b) F32.zero Fab eq_refl) in L. change (R32 F32.zero) with 0%R in L. rewrite Rab in L.
    apply Rlt_bool_t in L. apply S1 in L.
    unfold F32.neg in H2. rewrite (Bltb_correct 24 128 (Bopp (F32.sub b c)) F32.zero) in H2; [|rewrite is_finite_Bopp; exact Fbc | reflexivity].
    rewrite B2R_Bopp in H2. change (R32 F32.zero) with 0%R in H2. rewrite Rbc in H2. apply Rlt_bool_f in H2.
    left. split; [lra|]. destruct (Rle_lt_dec (R32 b) (R32 c)) as [Lc | Gc]; [exact Lc|]. apply T3 in Gc. lra.
  - rewrite (Bltb_correct 24 128 (F32.sub a b) F32.zero Fab eq_refl) in L. change (R32 F32.zero) with 0%R in L. rewrite Rab in L.
    apply Rlt_bool_f in L.
    rewrite (Bltb_correct 24 128 (F32.sub b c) F32.zero Fbc eq_refl) in H2. change (R32 F32.zero) with 0%R in H2. rewrite Rbc in H2.
    apply Rlt_bool_f in H2.
    right. split.
    + destruct (Rle_lt_dec (R32 c) (R32 b)) as [Lc | Gc]; [exact Lc|]. apply T1 in Gc. lra.
    + destruct (Rle_lt_dec (R32 b) (R32 a)) as [Lb | Gb]; [exact Lb|]. apply S1 in Gb. lra.
Qed.

Definition mono_fd6 (sh : Z) (u v w : f32) : Prop :=
  (fd6 u sh <= fd6 v sh <= fd6 w sh) \/ (fd6 w sh <= fd6 v sh <= fd6 u sh).

(* THE THEOREM: every piece the edge builder hands to QuadraticEdge::new2 is monotone in FDot6 *)
Theorem chop_quad_pieces_monotone p0 p1 p2 sh :
  bnd (py p0) -> bnd (py p1) -> bnd (py p2) -> 0 <= sh <= 8 ->
  forall a b c, In (a, b, c) (chop_quad_at_y_extrema p0 p1 p2) -> mono_fd6 sh (py a) (py b) (py c).
Proof.
  intros B0 B1 B2 Hs a b c Hin. unfold chop_quad_at_y_extrema in Hin. cbv zeta in Hin. unfold mono_fd6.
  destruct (is_not_monotonic (py p0) (py p1) (py p2)) eqn:NM.
  - destruct (valid_unit_divide _ _) as [t|].
    + destruct Hin as [E | [E | []]]; injection E as <- <- <-; unfold interp_pt; cbn [py px]; lia.
    + destruct Hin as [E | []]. injection E as <- <- <-. cbn [py].
      destruct (F32.lt _ _); lia.
  - destruct Hin as [E | []]. injection E as <- <- <-.
    destruct (monotone_reals _ _ _ B0 B1 B2 NM) as [(L1 & L2) | (L1 & L2)].
    + left. split; apply fd6_mono; assumption.
    + right. split; apply fd6_mono; assumption.
Qed.

(* hence the assertion of QuadraticEdge::new2 (after its swap of the end points) holds for every such piece *)
Corollary quad_new2_assert_holds p0 p1 p2 sh a b c :
  bnd (py p0) -> bnd (py p1) -> bnd (py p2) -> 0 <= sh <= 8 -> In (a, b, c) (chop_quad_at_y_extrema p0 p1 p2) ->
  let y0 := fd6 (py a) sh in let y1 := fd6 (py b) sh in let y2 := fd6 (py c) sh in
  let '(y0', y2') := if y2 <? y0 then (y2, y0) else (y0, y2) in
  (y0' <=? y1) && (y1 <=? y2') = true.
Proof.
  intros B0 B1 B2 Hs Hin. cbv zeta. destruct (chop_quad_pieces_monotone p0 p1 p2 sh B0 B1 B2 Hs a b c Hin) as [(A & B) | (A & B)];
    destruct (Z.ltb_spec (fd6 (py c) sh) (fd6 (py a) sh)); apply andb_true_iff; split; apply Z.leb_le; lia.
Qed.
