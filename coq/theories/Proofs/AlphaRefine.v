(* AlphaRuns (Model/AlphaRuns.v) refines the dense per-pixel coverage array: break_run only re-partitions the runs. *)
From Coq Require Import ZArith Bool List Lia.
From TS Require Import Model.AlphaRuns.
Import ListNotations.
Local Open Scope Z_scope.

(* ---- getz / setz ------------------------------------------------------------------------------------------ *)
Lemma set_nth_length : forall (l : list Z) n v l', set_nth l n v = Some l' -> length l' = length l.
Proof.
  induction l as [|a r IH]; intros n v l' H; destruct n; cbn [set_nth] in H; try discriminate.
  - injection H as <-. reflexivity.
  - destruct (set_nth r n v) as [r'|] eqn:E; [|discriminate]. injection H as <-. cbn [length]. f_equal. eapply IH; eauto.
Qed.
Lemma set_nth_same : forall (l : list Z) n v l', set_nth l n v = Some l' -> nth_error l' n = Some v.
Proof.
  induction l as [|a r IH]; intros n v l' H; destruct n; cbn [set_nth] in H; try discriminate.
  - injection H as <-. reflexivity.
  - destruct (set_nth r n v) as [r'|] eqn:E; [|discriminate]. injection H as <-. cbn [nth_error]. eapply IH; eauto.
Qed.
Lemma set_nth_other : forall (l : list Z) n v l' m, set_nth l n v = Some l' -> m <> n -> nth_error l' m = nth_error l m.
Proof.
  induction l as [|a r IH]; intros n v l' m H Hm; destruct n; cbn [set_nth] in H; try discriminate.
  - injection H as <-. destruct m; [contradiction | reflexivity].
  - destruct (set_nth r n v) as [r'|] eqn:E; [|discriminate]. injection H as <-.
    destruct m; [reflexivity|]. cbn [nth_error]. eapply IH; eauto.
Qed.
Lemma set_nth_some : forall (l : list Z) n v, (n < length l)%nat -> exists l', set_nth l n v = Some l'.
Proof.
  induction l as [|a r IH]; intros n v H; cbn [length] in H; [lia|].
  destruct n; cbn [set_nth]; [eauto|]. destruct (IH n v ltac:(lia)) as (r' & ->). cbn [option_map]. eauto.
Qed.

Lemma setz_length l i v l' : setz l i v = Some l' -> length l' = length l.
Proof. unfold setz. destruct (i <? 0); [discriminate|]. apply set_nth_length. Qed.
Lemma getz_setz_same l i v l' : setz l i v = Some l' -> getz l' i = Some v.
Proof. unfold setz, getz. destruct (i <? 0); [discriminate|]. apply set_nth_same. Qed.
Lemma getz_setz_other l i v l' j : setz l i v = Some l' -> j <> i -> getz l' j = getz l j.
Proof.
  unfold setz, getz. destruct (Z.ltb_spec i 0) as [Li | Li]; [discriminate|]. intros Hs Hj.
  destruct (Z.ltb_spec j 0) as [Lj | Lj]; [reflexivity|]. eapply set_nth_other; eauto. lia.
Qed.
Lemma setz_some l i v : 0 <= i < Z.of_nat (length l) -> exists l', setz l i v = Some l'.
Proof. intros Hi. unfold setz. destruct (Z.ltb_spec i 0) as [L | L]; [lia|]. apply set_nth_some. lia. Qed.
Lemma getz_some_lt l i v : getz l i = Some v -> 0 <= i < Z.of_nat (length l).
Proof.
  unfold getz. destruct (Z.ltb_spec i 0) as [L | L]; [discriminate|]. intros Hg.
  assert (Hn : nth_error l (Z.to_nat i) <> None) by congruence. apply nth_error_Some in Hn. lia.
Qed.

(* ---- the run structure as a list of (length, alpha) segments ---------------------------------------------------- *)
Notation seg := (Z * Z)%type.
Fixpoint Rep (lr la : list Z) (off : Z) (segs : list seg) : Prop :=
  match segs with
  | [] => getz lr off = Some 0
  | (n, a) :: r => 0 < n /\ getz lr off = Some n /\ getz la off = Some a /\ Rep lr la (off + n) r
  end.
Definition flat (segs : list seg) : list Z := concat (map (fun s => repeat (snd s) (Z.to_nat (fst s))) segs).
Definition total (segs : list seg) : Z := fold_right (fun s acc => fst s + acc) 0 segs.

Lemma total_nonneg segs : Forall (fun s => 0 < fst s) segs -> 0 <= total segs.
Proof. induction 1; cbn [total fold_right]; [lia|]. fold (total l). lia. Qed.

Lemma Rep_pos lr la : forall segs off, Rep lr la off segs -> Forall (fun s => 0 < fst s) segs.
Proof. induction segs as [|[n a] r IH]; intros off H; constructor; cbn [Rep] in H; [cbn; lia | eapply IH; apply H]. Qed.

(* Rep from [off] only reads positions >= off *)
Lemma Rep_frame lr la lr' la' : forall segs off,
  (forall i, off <= i -> getz lr' i = getz lr i) -> (forall i, off <= i -> getz la' i = getz la i) ->
  Rep lr la off segs -> Rep lr' la' off segs.
Proof.
  induction segs as [|[n a] r IH]; intros off Hr Ha H; cbn [Rep] in *.
  - rewrite Hr by lia. exact H.
  - destruct H as (Hn & H1 & H2 & H3). rewrite Hr, Ha by lia. repeat split; auto.
    apply IH; auto; intros i Hi; [apply Hr | apply Ha]; lia.
Qed.

(* the dense view is the flattening *)
Lemma dense_aux_rep s : forall segs off fuel, Rep (ar_runs s) (ar_alpha s) off segs -> (length segs < fuel)%nat ->
  dense_aux fuel s off = Some (flat segs).
Proof.
  induction segs as [|[n a] r IH]; intros off fuel H Hf; (destruct fuel as [|fuel]; [cbn in Hf; lia|]); cbn [dense_aux Rep] in *.
  - rewrite H. cbn [bind]. reflexivity.
  - destruct H as (Hn & H1 & H2 & H3). rewrite H1. cbn [bind]. destruct (Z.eqb_spec n 0); [lia|].
    rewrite H2. cbn [bind]. rewrite (IH (off + n) fuel H3) by (cbn [length] in Hf; lia). cbn [bind]. reflexivity.
Qed.

(* ---- splitting the segment list at a position ---------------------------------------------------------------- *)
Fixpoint split_at (segs : list seg) (x : Z) : list seg :=
  match segs with
  | [] => []
  | (n, a) :: r => if x <=? 0 then segs else if x <? n then (x, a) :: (n - x, a) :: r else (n, a) :: split_at r (x - n)
  end.

Lemma repeat_split (a : Z) (x n : Z) : 0 <= x <= n -> repeat a (Z.to_nat x) ++ repeat a (Z.to_nat (n - x)) = repeat a (Z.to_nat n).
Proof. intros H. rewrite <- repeat_app. f_equal. lia. Qed.

Lemma flat_split : forall segs x, flat (split_at segs x) = flat segs.
Proof.
  induction segs as [|[n a] r IH]; intros x; cbn [split_at]; [reflexivity|].
  destruct (Z.leb_spec x 0); [reflexivity|]. destruct (Z.ltb_spec x n).
  - unfold flat. cbn [map concat fst snd]. rewrite app_assoc, repeat_split by lia. reflexivity.
  - unfold flat in *. cbn [map concat]. now rewrite IH.
Qed.
Lemma total_split : forall segs x, total (split_at segs x) = total segs.
Proof.
  induction segs as [|[n a] r IH]; intros x; cbn [split_at]; [reflexivity|].
  destruct (Z.leb_spec x 0); [reflexivity|]. destruct (Z.ltb_spec x n); cbn [total fold_right fst].
  - fold (total r). lia.
  - fold (total (split_at r (x - n))). fold (total r). rewrite IH. reflexivity.
Qed.

(* positions where the representation has a run start (or its end) *)
Fixpoint boundary (segs : list seg) (p : Z) : Prop :=
  p = 0 \/ match segs with [] => False | (n, _) :: r => boundary r (p - n) end.

Lemma boundary_split : forall segs x, 0 <= x <= total segs -> Forall (fun s => 0 < fst s) segs -> boundary (split_at segs x) x.
Proof.
  induction segs as [|[n a] r IH]; intros x Hx Hp; cbn [split_at total fold_right fst] in *.
  - left. lia.
  - fold (total r) in Hx. inversion Hp as [|? ? Hn Hr]; subst. cbn [fst] in Hn.
    destruct (Z.leb_spec x 0); [left; lia|]. destruct (Z.ltb_spec x n).
    + right. cbn [boundary]. left. lia.
    + right. cbn [boundary]. apply IH; [lia | exact Hr].
Qed.

(* ---- br_loop1: walk to position x and split the run containing it -------------------------------------------------- *)
Definition same_below (s s' : aruns) (off : Z) : Prop :=
  forall i, i < off -> getz (ar_runs s') i = getz (ar_runs s) i /\ getz (ar_alpha s') i = getz (ar_alpha s) i.
Definition same_len (s s' : aruns) : Prop :=
  length (ar_runs s') = length (ar_runs s) /\ length (ar_alpha s') = length (ar_alpha s).

Lemma br_loop1_spec : forall segs fuel s off x,
  Rep (ar_runs s) (ar_alpha s) off segs -> x <= total segs -> (length segs < fuel)%nat ->
  length (ar_alpha s) = length (ar_runs s) ->
  exists s', br_loop1 fuel s off x = Some s' /\ Rep (ar_runs s') (ar_alpha s') off (split_at segs x) /\
             same_below s s' off /\ same_len s s'.
Proof.
  induction segs as [|[n a] r IH]; intros fuel s off x HR Hx Hf Hl; (destruct fuel as [|fuel]; [cbn in Hf; lia|]);
    cbn [br_loop1 split_at total fold_right fst] in *.
  - destruct (Z.leb_spec x 0); [|lia]. exists s. repeat split; auto.
  - fold (total r) in Hx. destruct HR as (Hn & H1 & H2 & H3).
    destruct (Z.leb_spec x 0); [exists s; cbn [Rep]; repeat split; auto|].
    rewrite H1. cbn [bind]. destruct (Z.eqb_spec n 0); [lia|].
    destruct (Z.ltb_spec x n).
    + (* split this run *)
      rewrite H2. cbn [bind].
      assert (Hb : 0 <= off /\ off + n < Z.of_nat (length (ar_runs s))).
      { split; [apply (getz_some_lt _ _ _ H1)|].
        destruct r as [|[n2 a2] r2]; cbn [Rep] in H3; [apply (getz_some_lt _ _ _ H3) | apply (getz_some_lt _ _ _ (proj1 (proj2 H3)))]. }
      destruct (setz_some (ar_alpha s) (off + x) a ltac:(lia)) as (al & Eal). rewrite Eal. cbn [bind].
      destruct (setz_some (ar_runs s) off x ltac:(lia)) as (r1 & Er1). rewrite Er1. cbn [bind].
      assert (length r1 = length (ar_runs s)) by (eapply setz_length; eauto).
      destruct (setz_some r1 (off + x) (n - x) ltac:(lia)) as (r2 & Er2). rewrite Er2. cbn [bind].
      eexists. split; [reflexivity|]. cbn [ar_runs ar_alpha].
      assert (G1 : getz r2 off = Some x).
      { rewrite (getz_setz_other _ _ _ _ off Er2) by lia. eapply getz_setz_same; eauto. }
      assert (G2 : getz al off = Some a) by (rewrite (getz_setz_other _ _ _ _ off Eal) by lia; exact H2).
      split.
      * cbn [Rep]. split; [lia|]. split; [exact G1|]. split; [exact G2|].
        split; [lia|]. split; [eapply getz_setz_same; eauto|]. split; [eapply getz_setz_same; eauto|].
        replace (off + x + (n - x)) with (off + n) by lia.
        assert (F1 : forall i, off + n <= i -> getz r2 i = getz (ar_runs s) i).
        { intros i Hi. rewrite (getz_setz_other _ _ _ _ i Er2) by lia. apply (getz_setz_other _ _ _ _ i Er1). lia. }
        assert (F2 : forall i, off + n <= i -> getz al i = getz (ar_alpha s) i).
        { intros i Hi. apply (getz_setz_other _ _ _ _ i Eal). lia. }
        exact (Rep_frame _ _ _ _ _ _ F1 F2 H3).
      * split.
        -- intros i Hi. cbn [ar_runs ar_alpha]. split.
           ++ rewrite (getz_setz_other _ _ _ _ i Er2) by lia. apply (getz_setz_other _ _ _ _ i Er1). lia.
           ++ apply (getz_setz_other _ _ _ _ i Eal). lia.
        -- unfold same_len. cbn [ar_runs ar_alpha]. split; [rewrite (setz_length _ _ _ _ Er2); assumption | eapply setz_length; eauto].
    + (* skip this run *)
      destruct (IH fuel s (off + n) (x - n) H3 ltac:(lia) ltac:(cbn [length] in Hf; lia) Hl) as (s' & E & HR' & Hsb & Hsl).
      exists s'. split; [exact E|]. split.
      * cbn [Rep]. destruct (Hsb off ltac:(lia)) as (B1 & B2). rewrite B1, B2. repeat split; auto.
      * split; [intros i Hi; apply Hsb; lia | exact Hsl].
Qed.

Lemma split_at_0 segs : split_at segs 0 = segs.
Proof. destruct segs as [|[n a] r]; reflexivity. Qed.

(* ---- br_loop2: make sure a run ends at position x (> 0) ------------------------------------------------------------ *)
Lemma br_loop2_spec : forall segs fuel s off x,
  Rep (ar_runs s) (ar_alpha s) off segs -> 0 < x <= total segs -> (length segs < fuel)%nat ->
  length (ar_alpha s) = length (ar_runs s) ->
  exists s', br_loop2 fuel s off x = Some s' /\ Rep (ar_runs s') (ar_alpha s') off (split_at segs x) /\
             same_below s s' off /\ same_len s s'.
Proof.
  induction segs as [|[n a] r IH]; intros fuel s off x HR Hx Hf Hl; (destruct fuel as [|fuel]; [cbn in Hf; lia|]);
    cbn [br_loop2 split_at total fold_right fst] in *; [lia|].
  fold (total r) in Hx. destruct HR as (Hn & H1 & H2 & H3).
  destruct (Z.leb_spec x 0); [lia|].
  rewrite H1. cbn [bind]. destruct (Z.eqb_spec n 0); [lia|].
  destruct (Z.ltb_spec x n).
  - (* split this run: the same steps as in br_loop1 *)
    rewrite H2. cbn [bind].
    assert (Hb : 0 <= off /\ off + n < Z.of_nat (length (ar_runs s))).
    { split; [apply (getz_some_lt _ _ _ H1)|].
      destruct r as [|[n2 a2] r2]; cbn [Rep] in H3; [apply (getz_some_lt _ _ _ H3) | apply (getz_some_lt _ _ _ (proj1 (proj2 H3)))]. }
    destruct (setz_some (ar_alpha s) (off + x) a ltac:(lia)) as (al & Eal). rewrite Eal. cbn [bind].
    destruct (setz_some (ar_runs s) off x ltac:(lia)) as (r1 & Er1). rewrite Er1. cbn [bind].
    assert (length r1 = length (ar_runs s)) by (eapply setz_length; eauto).
    destruct (setz_some r1 (off + x) (n - x) ltac:(lia)) as (r2 & Er2). rewrite Er2. cbn [bind].
    eexists. split; [reflexivity|]. cbn [ar_runs ar_alpha].
    assert (G1 : getz r2 off = Some x).
    { rewrite (getz_setz_other _ _ _ _ off Er2) by lia. eapply getz_setz_same; eauto. }
    assert (G2 : getz al off = Some a) by (rewrite (getz_setz_other _ _ _ _ off Eal) by lia; exact H2).
    split.
    + cbn [Rep]. split; [lia|]. split; [exact G1|]. split; [exact G2|].
      split; [lia|]. split; [eapply getz_setz_same; eauto|]. split; [eapply getz_setz_same; eauto|].
      replace (off + x + (n - x)) with (off + n) by lia.
      assert (F1 : forall i, off + n <= i -> getz r2 i = getz (ar_runs s) i).
      { intros i Hi. rewrite (getz_setz_other _ _ _ _ i Er2) by lia. apply (getz_setz_other _ _ _ _ i Er1). lia. }
      assert (F2 : forall i, off + n <= i -> getz al i = getz (ar_alpha s) i).
      { intros i Hi. apply (getz_setz_other _ _ _ _ i Eal). lia. }
      exact (Rep_frame _ _ _ _ _ _ F1 F2 H3).
    + split.
      * intros i Hi. cbn [ar_runs ar_alpha]. split.
        -- rewrite (getz_setz_other _ _ _ _ i Er2) by lia. apply (getz_setz_other _ _ _ _ i Er1). lia.
        -- apply (getz_setz_other _ _ _ _ i Eal). lia.
      * unfold same_len. cbn [ar_runs ar_alpha]. split; [rewrite (setz_length _ _ _ _ Er2); assumption | eapply setz_length; eauto].
  - destruct (Z.eqb_spec (x - n) 0) as [E0 | E0].
    + (* the run ends exactly at x *)
      exists s. split; [reflexivity|]. split.
      * replace (x - n) with 0 by lia. rewrite split_at_0. cbn [Rep]. repeat split; auto.
      * split; [intros i Hi; split; reflexivity | split; reflexivity].
    + destruct (IH fuel s (off + n) (x - n) H3 ltac:(lia) ltac:(cbn [length] in Hf; lia) Hl) as (s' & E & HR' & Hsb & Hsl).
      exists s'. split; [exact E|]. split.
      * cbn [Rep]. destruct (Hsb off ltac:(lia)) as (B1 & B2). rewrite B1, B2. repeat split; auto.
      * split; [intros i Hi; apply Hsb; lia | exact Hsl].
Qed.

(* ---- prefixes ------------------------------------------------------------------------------------------------------ *)
Fixpoint RepP (lr la : list Z) (off : Z) (segs : list seg) : Prop :=
  match segs with
  | [] => True
  | (n, a) :: r => 0 < n /\ getz lr off = Some n /\ getz la off = Some a /\ RepP lr la (off + n) r
  end.

Lemma Rep_app lr la : forall l1 l2 off, Rep lr la off (l1 ++ l2) <-> RepP lr la off l1 /\ Rep lr la (off + total l1) l2.
Proof.
  induction l1 as [|[n a] r IH]; intros l2 off; cbn [app Rep RepP total fold_right fst].
  - rewrite Z.add_0_r. tauto.
  - fold (total r). rewrite IH. replace (off + n + total r) with (off + (n + total r)) by lia. tauto.
Qed.

Lemma RepP_frame lr la lr' la' : forall segs off,
  (forall i, i < off + total segs -> getz lr' i = getz lr i) -> (forall i, i < off + total segs -> getz la' i = getz la i) ->
  RepP lr la off segs -> RepP lr' la' off segs.
Proof.
  induction segs as [|[n a] r IH]; intros off Hr Ha H; cbn [RepP total fold_right fst] in *; [exact I|].
  fold (total r) in *. destruct H as (Hn & H1 & H2 & H3).
  assert (Hp : 0 <= total r) by (apply total_nonneg; clear -H3; revert H3; generalize (off + n); induction r as [|[n2 a2] r2 IHr]; intros o H; constructor; cbn [RepP] in H; [cbn; lia | eapply IHr; apply H]).
  rewrite Hr, Ha by lia. repeat split; auto. apply IH; auto; intros i Hi; [apply Hr | apply Ha]; lia.
Qed.

(* a boundary position splits the list *)
Lemma boundary_decomp : forall segs p, Forall (fun s => 0 < fst s) segs -> boundary segs p -> 0 <= p ->
  exists l1 l2, segs = l1 ++ l2 /\ total l1 = p.
Proof.
  induction segs as [|[n a] r IH]; intros p Hp Hb H0; cbn [boundary] in Hb.
  - destruct Hb as [-> | []]. exists [], []. split; reflexivity.
  - destruct Hb as [-> | Hb]; [exists [], ((n, a) :: r); split; reflexivity|].
    inversion Hp as [|? ? Hn Hr]; subst. cbn [fst] in Hn.
    assert (0 <= p - n).
    { destruct r as [|[n2 a2] r2]; cbn [boundary] in Hb; [destruct Hb as [Hb | []]; lia|].
      destruct Hb as [Hb | Hb]; [lia|]. clear IH.
      (* a boundary further right: p - n >= n2 > 0 by induction on the tail *)
      assert (G : forall l q, Forall (fun s => 0 < fst s) l -> boundary l q -> 0 <= q \/ q < 0) by (intros; lia).
      destruct (Z_lt_le_dec (p - n) 0) as [C | C]; [|exact C]. exfalso.
      inversion Hr as [|? ? Hn2 Hr2]; subst. cbn [fst] in Hn2.
      assert (K : forall l q, Forall (fun s => 0 < fst s) l -> q < 0 -> ~ boundary l q).
      { induction l as [|[m b] l IHl]; intros q Hl Hq Hbq; cbn [boundary] in Hbq.
        - destruct Hbq as [-> | []]. lia.
        - destruct Hbq as [-> | Hbq]; [lia|]. inversion Hl as [|? ? Hm Hl2]; subst. cbn [fst] in Hm. apply (IHl (q - m) Hl2); [lia | exact Hbq]. }
      apply (K r2 (p - n - n2) Hr2); [lia | exact Hb]. }
    destruct (IH (p - n) Hr Hb H) as (l1 & l2 & -> & Ht).
    exists ((n, a) :: l1), l2. split; [reflexivity|]. cbn [total fold_right fst]. fold (total l1). lia.
Qed.

Lemma flat_app l1 l2 : flat (l1 ++ l2) = flat l1 ++ flat l2.
Proof. unfold flat. now rewrite map_app, concat_app. Qed.
Lemma total_app l1 l2 : total (l1 ++ l2) = total l1 + total l2.
Proof. induction l1 as [|[n a] r IH]; cbn [app total fold_right fst]; [reflexivity|]. fold (total (r ++ l2)) (total r). lia. Qed.

Lemma Rep_bound lr la : forall segs off, Rep lr la off segs -> 0 <= off ->
  off + total segs < Z.of_nat (length lr) /\ Z.of_nat (length segs) <= total segs.
Proof.
  induction segs as [|[n a] r IH]; intros off H H0; cbn [Rep total fold_right fst length] in *.
  - pose proof (getz_some_lt _ _ _ H). lia.
  - fold (total r). destruct H as (Hn & _ & _ & H3). destruct (IH (off + n) H3 ltac:(lia)). lia.
Qed.

Lemma split_pos : forall segs x, Forall (fun s => 0 < fst s) segs -> Forall (fun s => 0 < fst s) (split_at segs x).
Proof.
  induction segs as [|[n a] r IH]; intros x H; cbn [split_at]; [constructor|].
  inversion H as [|? ? Hn Hr]; subst. cbn [fst] in Hn.
  destruct (Z.leb_spec x 0); [exact H|]. destruct (Z.ltb_spec x n).
  - constructor; [cbn; lia|]. constructor; [cbn; lia | exact Hr].
  - constructor; [cbn; lia | apply IH; exact Hr].
Qed.

(* break_run only re-partitions: the dense view is unchanged and run boundaries exist at x and x + count *)
Theorem break_run_spec segs s base x count :
  Rep (ar_runs s) (ar_alpha s) base segs -> length (ar_alpha s) = length (ar_runs s) ->
  0 <= base -> 0 <= x -> 0 < count -> x + count <= total segs ->
  exists s' l1 l2 l3, break_run s base x count = Some s' /\
    Rep (ar_runs s') (ar_alpha s') base (l1 ++ l2 ++ l3) /\ total l1 = x /\ total l2 = count /\
    flat (l1 ++ l2 ++ l3) = flat segs /\ same_below s s' base /\ same_len s s'.
Proof.
  intros HR Hl Hb Hx Hc Ht. unfold break_run.
  destruct (Rep_bound _ _ _ _ HR Hb) as (B1 & B2).
  pose proof (Rep_pos _ _ _ _ HR) as Hpos.
  destruct (br_loop1_spec segs (S (length (ar_runs s))) s base x HR ltac:(lia) ltac:(lia) Hl) as (s1 & E1 & R1 & SB1 & (SL1 & SL1')).
  rewrite E1. cbn [bind].
  pose proof (split_pos segs x Hpos) as Hpos1.
  destruct (boundary_decomp _ x Hpos1 (boundary_split segs x ltac:(lia) Hpos) Hx) as (l1 & post & Esplit & Tl1).
  rewrite Esplit in R1. apply Rep_app in R1. destruct R1 as (RP1 & R1). rewrite Tl1 in R1.
  assert (Tpost : total post = total segs - x).
  { pose proof (total_split segs x) as T. rewrite Esplit, total_app in T. lia. }
  assert (Hpp : Forall (fun s => 0 < fst s) post) by (rewrite Esplit in Hpos1; apply Forall_app in Hpos1; tauto).
  destruct (Rep_bound _ _ _ _ R1 ltac:(lia)) as (B3 & B4).
  destruct (br_loop2_spec post (S (length (ar_runs s))) s1 (base + x) count R1 ltac:(lia) ltac:(rewrite <- SL1; lia) ltac:(lia))
    as (s2 & E2 & R2 & SB2 & (SL2 & SL2')).
  rewrite E2.
  destruct (boundary_decomp _ count (split_pos post count Hpp) (boundary_split post count ltac:(lia) Hpp) ltac:(lia)) as (l2 & l3 & Esplit2 & Tl2).
  exists s2, l1, l2, l3. split; [reflexivity|]. split.
  - apply Rep_app. split.
    + apply (RepP_frame (ar_runs s1) (ar_alpha s1)); [| |exact RP1]; intros i Hi; rewrite Tl1 in Hi; apply SB2; exact Hi.
    + rewrite Tl1, <- Esplit2. exact R2.
  - split; [exact Tl1|]. split; [exact Tl2|]. split.
    + pose proof (flat_split post count) as F2. rewrite Esplit2 in F2.
      pose proof (flat_split segs x) as F1. rewrite Esplit, flat_app in F1.
      rewrite flat_app, F2. exact F1.
    + split.
      * intros i Hi. destruct (SB1 i Hi) as (A1 & A2). destruct (SB2 i ltac:(lia)) as (A3 & A4). split; congruence.
      * split; congruence.
Qed.

Lemma RepP_pos lr la : forall segs off, RepP lr la off segs -> Forall (fun s => 0 < fst s) segs.
Proof. induction segs as [|[n a] r IH]; intros off H; constructor; cbn [RepP] in H; [cbn; lia | eapply IH; apply H]. Qed.

(* in terms of the dense view: a well-formed run structure (runs partition [0, width)) keeps its per-pixel coverage
   across break_run, for any offset that is a run boundary *)
Definition WFruns (s : aruns) (segs : list seg) : Prop :=
  Rep (ar_runs s) (ar_alpha s) 0 segs /\ length (ar_alpha s) = length (ar_runs s).

Lemma dense_wf s segs : WFruns s segs -> dense s = Some (flat segs).
Proof.
  intros (HR & Hl). unfold dense. apply dense_aux_rep; [exact HR|].
  destruct (Rep_bound _ _ _ _ HR ltac:(lia)). lia.
Qed.

Theorem break_run_preserves_dense s pre segs base x count :
  WFruns s (pre ++ segs) -> total pre = base -> 0 <= x -> 0 < count -> x + count <= total segs ->
  exists s' segs', break_run s base x count = Some s' /\ WFruns s' (pre ++ segs') /\ dense s' = dense s /\
                   boundary segs' x /\ boundary segs' (x + count).
Proof.
  intros (HR & Hl) Hb Hx Hc Ht. apply Rep_app in HR. destruct HR as (RP & HR). rewrite Hb in HR. cbn [Z.add] in HR.
  assert (Hb0 : 0 <= base).
  { rewrite <- Hb. apply total_nonneg. exact (RepP_pos _ _ _ _ RP). }
  destruct (break_run_spec segs s base x count HR Hl Hb0 Hx Hc Ht) as (s' & l1 & l2 & l3 & E & R' & T1 & T2 & F & SB & (SL1 & SL2)).
  exists s', (l1 ++ l2 ++ l3). split; [exact E|].
  assert (W' : WFruns s' (pre ++ l1 ++ l2 ++ l3)).
  { split; [|congruence]. apply Rep_app. split.
    - apply (RepP_frame (ar_runs s) (ar_alpha s)); [| |exact RP]; intros i Hi; rewrite Hb in Hi; apply SB; lia.
    - rewrite Hb. exact R'. }
  split; [exact W'|]. split.
  - rewrite (dense_wf _ _ W'), (dense_wf s (pre ++ segs)).
    + now rewrite !flat_app, <- F, !flat_app.
    + split; [apply Rep_app; rewrite Hb; split; assumption | exact Hl].
  - pose proof (Rep_pos _ _ _ _ R') as P.
    assert (B : forall (a b : list seg), Forall (fun s => 0 < fst s) a -> boundary (a ++ b) (total a)).
    { induction a as [|[n q] r IH]; intros b Ha; cbn [app total fold_right fst].
      - destruct b as [|[m c] b]; left; reflexivity.
      - fold (total r). inversion Ha as [|? ? Hn Hr]; subst. right. cbn [boundary]. replace (n + total r - n) with (total r) by lia. apply IH. exact Hr. }
    split.
    + rewrite <- T1. apply B. apply Forall_app in P. tauto.
    + rewrite <- T1, <- T2, <- total_app, app_assoc. apply B. apply Forall_app in P.
      destruct P as (P1 & P2). apply Forall_app in P2. apply Forall_app. tauto.
Qed.
