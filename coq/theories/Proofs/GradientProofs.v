(* Gradient stop sanitisation (binary32, real-number semantics through Flocq's B2R) and the ideal
   interpolation / tiling functions (Q). *)
From Coq Require Import ZArith QArith Qround Qabs Qminmax Qfield Bool List Lia Lqa Reals Lra.
From Flocq Require Import Core.Raux Core.Defs IEEE754.BinarySingleNaN.
From TS Require Import Base.F32 Model.Rect Model.Gradient Proofs.RectPoints.
Import ListNotations.

(* ---- positions in [0,1] --------------------------------------------------------------------------- *)
Definition n01 (x : f32) : Prop := fin x /\ (0 <= R32 x <= 1)%R.

Lemma R_zero : R32 F32.zero = 0%R. Proof. reflexivity. Qed.
Lemma R_one : R32 F32.one = 1%R.
Proof.
  change F32.one with (F32.of_bits 1065353216).
  set (x := F32.of_bits 1065353216). vm_compute in x. subst x.
  unfold B2R, Defs.F2R. simpl. lra.
Qed.
Lemma fin_zero : fin F32.zero. Proof. reflexivity. Qed.
Lemma fin_one : fin F32.one. Proof. reflexivity. Qed.

Lemma n01_zero : n01 F32.zero. Proof. split; [exact fin_zero | rewrite R_zero; lra]. Qed.
Lemma n01_one : n01 F32.one. Proof. split; [exact fin_one | rewrite R_one; lra]. Qed.

Lemma fin_cases (P : f32 -> Prop) x a b : (x = a \/ x = b) -> P a -> P b -> P x.
Proof. intros [-> | ->]; auto. Qed.

(* bound(x, lo, 1) for x finite and lo in [0,1]: in [lo, 1] *)
Lemma bound_spec x lo : fin x -> n01 lo ->
  n01 (bound x lo F32.one) /\ (R32 lo <= R32 (bound x lo F32.one))%R /\
  ((R32 lo <= R32 x <= 1)%R -> R32 (bound x lo F32.one) = R32 x).
Proof.
  intros Hx (Hl & Hl01). unfold bound.
  destruct (min_fin F32.one x fin_one Hx) as (Hm & Hm1 & Hm2). rewrite R_one in Hm1.
  assert (Fm : fin (F32.min F32.one x)) by (apply (fin_cases fin _ _ _ Hm); auto using fin_one).
  destruct (max_fin (F32.min F32.one x) lo Fm Hl) as (Hx' & Hx1 & Hx2).
  assert (Fx : fin (F32.max (F32.min F32.one x) lo)) by (apply (fin_cases fin _ _ _ Hx'); auto).
  assert (Hle1 : (R32 (F32.max (F32.min F32.one x) lo) <= 1)%R) by (destruct Hx' as [E | E]; rewrite E in *; lra).
  split; [split; [exact Fx | lra]|]. split; [exact Hx2|].
  intros Hr.
  assert (Em : R32 (F32.min F32.one x) = R32 x) by (pose proof R_one; destruct Hm as [E | E]; rewrite E in *; [lra | reflexivity]).
  destruct Hx' as [E | E]; rewrite E in *; lra.
Qed.

(* new_clamped: always in [0,1]; the identity (as a real number) on [0,1] *)
Lemma new_clamped_spec n : n01 (new_clamped n) /\ (n01 n -> R32 (new_clamped n) = R32 n).
Proof.
  unfold new_clamped. destruct (F32.is_finite n) eqn:Hf; [|split; [exact n01_zero | intros (H & _); unfold fin in H; congruence]].
  destruct (bound_spec n F32.zero Hf n01_zero) as (Hb & Hlo & Hid). unfold bound in *.
  destruct (F32.eq _ F32.zero) eqn:E.
  - split; [exact n01_zero|]. intros (_ & Hn). rewrite R_zero in *.
    unfold F32.eq in E. rewrite Beqb_correct in E by (try apply Hb; reflexivity).
    apply Req_bool_true_iff in E || idtac.
    assert (R32 (F32.max (F32.min F32.one n) F32.zero) = 0%R).
    { revert E. unfold Req_bool. destruct (Rcompare_spec (R32 (F32.max (F32.min F32.one n) F32.zero)) (R32 F32.zero)); try discriminate. intros _. rewrite R_zero in *. assumption. }
    rewrite <- Hid by lra. symmetry. assumption.
  - split; [exact Hb|]. intros (_ & Hn). rewrite R_zero in *. apply Hid. lra.
Qed.

(* ---- the position-fixing loop ------------------------------------------------------------------------ *)
Definition posR (s : stop) : R := R32 (s_pos s).
Fixpoint sorted_from (lo : R) (l : list stop) : Prop :=
  match l with [] => True | s :: r => (lo <= posR s)%R /\ sorted_from (posR s) r end.
Definition all01 (l : list stop) : Prop := Forall (fun s => n01 (s_pos s)) l.

Lemma fix_positions_spec : forall rest prev step u l' u',
  n01 prev -> all01 rest -> fix_positions rest prev step u = (l', u') ->
  sorted_from (R32 prev) l' /\ all01 l' /\ length l' = length rest /\
  (rest <> [] -> forall d, posR (last l' d) = 1%R) /\
  map s_color l' = map s_color rest.
Proof.
  induction rest as [|s r IH]; intros prev step u l' u' Hp Ha H; cbn [fix_positions] in H.
  - injection H as <- <-. repeat split; auto. intros C; contradiction.
  - inversion Ha as [|? ? Hs Hr]; subst.
    set (curr := match r with [] => F32.one | _ :: _ => bound (s_pos s) prev F32.one end) in *.
    assert (Hc : n01 curr /\ (R32 prev <= R32 curr)%R).
    { unfold curr. destruct r.
      - split; [exact n01_one|]. rewrite R_one. destruct Hp as (_ & Hp). lra.
      - destruct (bound_spec (s_pos s) prev (proj1 Hs) Hp) as (A & B & _). auto. }
    destruct Hc as (Hc & Hle).
    destruct (fix_positions r curr step (u && is_nearly_equal step (F32.sub curr prev))) as [r' u''] eqn:E.
    injection H as <- <-.
    destruct (IH _ _ _ _ _ Hc Hr E) as (S1 & A1 & L1 & Last1 & C1).
    destruct (new_clamped_spec curr) as (N1 & N2). specialize (N2 Hc).
    split; [cbn [sorted_from]; unfold posR at 1; cbn [s_pos]; rewrite N2; split; [exact Hle|]; unfold posR; cbn [s_pos]; rewrite N2; exact S1|].
    split; [constructor; [cbn [s_pos]; exact N1 | exact A1]|].
    split; [cbn [length]; now rewrite L1|].
    split.
    + intros _ d. destruct r as [|s2 r2].
      * cbn [fix_positions] in E. injection E as <- <-. cbn [last]. unfold posR; cbn [s_pos]. rewrite N2. unfold curr. exact R_one.
      * assert (Hne : s2 :: r2 <> []) by discriminate. specialize (Last1 Hne d).
        destruct r' as [|x r'']; [cbn [length] in L1; discriminate|]. exact Last1.
    + cbn [map s_color]. now rewrite C1.
Qed.

Lemma fix_positions_cons a b rr prev step u :
  exists r' u'', fix_positions (a :: b :: rr) prev step u =
                 (mkstop (new_clamped (bound (s_pos a) prev F32.one)) (s_color a) :: r', u'').
Proof.
  change (fix_positions (a :: b :: rr) prev step u) with
    (let curr := bound (s_pos a) prev F32.one in
     let uniform := u && is_nearly_equal step (F32.sub curr prev) in
     let '(r', u') := fix_positions (b :: rr) curr step uniform in
     (mkstop (new_clamped curr) (s_color a) :: r', u')).
  cbv zeta. destruct (fix_positions (b :: rr) _ _ _) as [r' u']. eauto.
Qed.

(* ---- Gradient::new ---------------------------------------------------------------------------------------- *)
Lemma stop_new_01 p c : n01 (s_pos (stop_new p c)).
Proof. exact (proj1 (new_clamped_spec p)). Qed.

Lemma eq_zero_R x : fin x -> F32.ne x F32.zero = false -> R32 x = 0%R.
Proof.
  intros Hx H. unfold F32.ne in H. apply negb_false_iff in H. unfold F32.eq in H.
  rewrite (Beqb_correct 24 128 x F32.zero Hx fin_zero) in H. rewrite R_zero in H.
  unfold Req_bool in H. destruct (Rcompare_spec (R32 x) 0); try discriminate. assumption.
Qed.

Lemma all01_app a b : all01 a -> all01 b -> all01 (a ++ b).
Proof. unfold all01. rewrite Forall_app. auto. Qed.


(* the sanitised stop list of every gradient: all positions in [0,1], non-decreasing, the first is 0, the last is 1;
   the colours are the given ones with the first / last repeated for the dummy stops *)
Theorem gradient_new_sorted stops g :
  all01 stops -> gradient_new stops = Some g ->
  all01 (g_stops g) /\ sorted_from 0 (g_stops g) /\
  (exists s r, g_stops g = s :: r /\ posR s = 0%R) /\ (forall d, posR (last (g_stops g) d) = 1%R) /\
  (2 <= length (g_stops g))%nat.
Proof.
  intros Ha H. unfold gradient_new in H.
  destruct stops as [|s0 [|s1 r]]; try discriminate.
  set (st := s0 :: s1 :: r) in *.
  set (df := F32.ne (s_pos s0) F32.zero) in *.
  set (dl := F32.ne (s_pos (last st s0)) F32.one) in *.
  set (st1 := if df then stop_new F32.zero (s_color s0) :: st else st) in *.
  set (st2 := if dl then st1 ++ [stop_new F32.one (s_color (last st s0))] else st1) in *.
  assert (A1 : all01 st1) by (unfold st1; destruct df; [constructor; [apply stop_new_01 | exact Ha] | exact Ha]).
  assert (A2 : all01 st2).
  { unfold st2. destruct dl; [|exact A1]. apply all01_app; [exact A1|]. constructor; [apply stop_new_01 | constructor]. }
  inversion Ha as [|? ? Hs0 _]; subst.
  destruct df eqn:Edf.
  - (* a dummy first stop at 0: the loop starts at index 0 *)
    assert (E2 : exists a b rr, st2 = a :: b :: rr /\ R32 (s_pos a) = 0%R).
    { unfold st2, st1. destruct dl; cbn [app]; eexists _, _, _; (split; [reflexivity|]);
        cbn [stop_new s_pos]; rewrite (proj2 (new_clamped_spec F32.zero) n01_zero); exact R_zero. }
    destruct E2 as (a & b & rr & E2 & Ea0). rewrite E2 in *.
    destruct (fix_positions (a :: b :: rr) F32.zero (F32.sub (s_pos a) F32.zero) true) as [l' u'] eqn:EF.
    injection H as <-. cbn [g_stops app].
    destruct (fix_positions_spec _ _ _ _ _ _ n01_zero A2 EF) as (S & A & L & La & _).
    rewrite R_zero in S.
    split; [exact A|]. split; [exact S|]. split.
    + destruct (fix_positions_cons a b rr F32.zero (F32.sub (s_pos a) F32.zero) true) as (r' & u'' & EC).
      rewrite EC in EF. injection EF as <- <-.
      eexists _, _. split; [reflexivity|]. unfold posR. cbn [s_pos].
      inversion A2 as [|? ? Ha01 _]; subst.
      destruct (bound_spec (s_pos a) F32.zero (proj1 Ha01) n01_zero) as (B1 & _ & B3).
      rewrite (proj2 (new_clamped_spec _) B1). rewrite B3; [exact Ea0|]. rewrite R_zero. lra.
    + split; [apply La; discriminate|]. rewrite L. cbn [length]. lia.
  - (* the first stop is at 0: the loop starts at index 1 *)
    assert (E2 : exists rr, st2 = s0 :: rr /\ rr <> []).
    { unfold st2, st1, st. destruct dl; cbn [app]; eexists; (split; [reflexivity | discriminate]). }
    destruct E2 as (rr & E2 & Hrr). rewrite E2 in *. cbn [firstn skipn] in H.
    destruct (fix_positions rr F32.zero _ true) as [l' u'] eqn:EF.
    injection H as <-. cbn [g_stops app].
    inversion A2 as [|? ? _ Arr]; subst.
    destruct (fix_positions_spec _ _ _ _ _ _ n01_zero Arr EF) as (S & A & L & La & _).
    pose proof (eq_zero_R _ (proj1 Hs0) Edf) as E0.
    split; [constructor; [exact Hs0 | exact A]|].
    split; [cbn [sorted_from]; unfold posR at 1 2; rewrite E0; split; [lra|]; rewrite <- R_zero; exact S|].
    split; [eexists _, _; split; [reflexivity | exact E0]|].
    split.
    + intros d. destruct l' as [|x l'']; [destruct rr; [contradiction | cbn [length] in L; discriminate]|].
      change (last (s0 :: x :: l'') d) with (last (x :: l'') d). apply La. exact Hrr.
    + cbn [length]. destruct rr; [contradiction|]. rewrite L. cbn [length]. lia.
Qed.

