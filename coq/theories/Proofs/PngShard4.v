(* shard 4 of the finite checks of Proofs/PngProofs.v: alpha in [128, 160) *)
From Coq Require Import ZArith Bool List.
From TS Require Import Base.F32 Model.Pixel Model.Png Proofs.PngDefs.
Local Open Scope Z_scope.
Lemma png_shard4_ok : forallb alpha_ok (zrange 128 32) = true.
Proof. vm_compute. reflexivity. Qed.
