(* shard 3 of the finite check in Proofs/SourcePremul.v: alpha in [96, 128) *)
From Coq Require Import ZArith Bool List.
From TS Require Import Base.F32 Model.Pixel Proofs.SourcePremulDefs.
Local Open Scope Z_scope.
Lemma shard3_ok : forallb (fun a => forallb (pair_ok a) range256) (range_from 96 32) = true.
Proof. vm_compute. reflexivity. Qed.
