(* From the scalar clipper to the pixel walker: a coordinate that is not outside [0, W] converts to an FDot6 value in
   [0, 64 W] (NaN converts to 0), the clip edges convert to 65536 W exactly, and so every blit of a clipped hairline
   segment lies inside the clip. *)
From Coq Require Import ZArith Bool List Lia Reals Lra.
From Flocq Require Import Core.Zaux Core.Raux Core.Defs Core.Generic_fmt Core.FLT Core.FIX Core.Float_prop Core.Round_NE Mult_error IEEE754.BinarySingleNaN.
From TS Require Import Base.F32 Model.Rect Model.Edge Model.Hairline Model.LineClip Model.RunC06
  Proofs.RectPoints Proofs.HairlineProofs Proofs.LineClipProofs Proofs.SamplerProofs.
Import ListNotations.
Local Open Scope Z_scope.

Lemma R_of_Z_64 : R32 (F32.of_Z 64) = 64%R.
Proof. set (x := F32.of_Z 64). vm_compute in x. subst x. unfold B2R, F2R. simpl. lra. Qed.

(* integers up to 32767 are exact in binary32: checked for every one of them, with their FDot16 image *)
Definition int_ok (w : Z) : bool :=
  let f := F32.of_Z w in
  let p := F32.mul f (F32.of_Z 64) in
  F32.is_finite f && F32.is_finite p && (Btrunc p =? 64 * w) &&
  (F32.le F32.zero f && match checked_f32_sub f F32.zero with Some _ => true | None => false end) && (fdot16_from_f32 f =? 65536 * w).
Lemma ints_ok : forallb int_ok (map Z.of_nat (seq 0 (Z.to_nat 32768))) = true.
Proof. vm_compute. reflexivity. Qed.
Lemma int_ok_spec w : 0 <= w <= 32767 -> int_ok w = true.
Proof.
  intros H. pose proof ints_ok as F. rewrite forallb_forall in F. apply F.
  apply in_map_iff. exists (Z.to_nat w). split; [lia|]. apply in_seq. lia.
Qed.

Lemma int_ok_facts w : 0 <= w <= 32767 ->
  let f := F32.of_Z w in let p := F32.mul f (F32.of_Z 64) in
  fin f /\ fin p /\ Btrunc p = 64 * w /\ fdot16_from_f32 f = 65536 * w /\
  F32.le F32.zero f = true /\ exists d, checked_f32_sub f F32.zero = Some d.
Proof.
  intros H. pose proof (int_ok_spec w H) as K. unfold int_ok in K. cbv zeta in *.
  apply andb_true_iff in K. destruct K as (K & K5). apply andb_true_iff in K. destruct K as (K & K4).
  apply andb_true_iff in K. destruct K as (K & K3). apply andb_true_iff in K. destruct K as (K1 & K2).
  apply Z.eqb_eq in K3, K5. apply andb_true_iff in K4. destruct K4 as (K4 & K6).
  destruct (checked_f32_sub (F32.of_Z w) F32.zero) as [d|] eqn:E; [|discriminate].
  repeat split; try assumption. exists d. reflexivity.
Qed.

(* the product with 64 as a real number: round (v * 64), and monotone in v *)
Lemma mul64_R v : fin v -> (Rabs (round radix2 (SpecFloat.fexp 24 128) (round_mode mode_NE) (R32 v * 64)) < bpow radix2 128)%R ->
  fin (F32.mul v (F32.of_Z 64)) /\ R32 (F32.mul v (F32.of_Z 64)) = round radix2 (SpecFloat.fexp 24 128) (round_mode mode_NE) (R32 v * 64).
Proof.
  intros Fv Hlt. unfold F32.mul. pose proof (Bmult_correct 24 128 _ _ mode_NE v (F32.of_Z 64)) as C.
  rewrite R_of_Z_64 in C. rewrite (Rlt_bool_true _ _ Hlt) in C. destruct C as (C1 & C2 & _).
  split; [unfold fin, F32.is_finite; rewrite C2; unfold fin, F32.is_finite in Fv; rewrite Fv; reflexivity | exact C1].
Qed.

Notation rnd := (round radix2 (SpecFloat.fexp 24 128) (round_mode mode_NE)).

Lemma rnd_mono x y : (x <= y)%R -> (rnd x <= rnd y)%R.
Proof. intros H. apply round_le; [apply (fexp_correct 24 128); reflexivity | apply valid_rnd_N | exact H]. Qed.
Lemma rnd_0 : rnd 0 = 0%R.
Proof. apply round_0. apply valid_rnd_N. Qed.

(* a coordinate that is not outside [0, W] converts to an FDot6 value in [0, 64 W] *)
Lemma fdot6_in_range v W :
  1 <= W <= 32767 -> F32.lt v F32.zero = false -> F32.lt (F32.of_Z W) v = false ->
  0 <= fdot6_from_f32 v <= 64 * W.
Proof.
  intros HW H0 H1. destruct (int_ok_facts W ltac:(lia)) as (Fw & Fp & Tp & _). cbv zeta in *.
  set (fw := F32.of_Z W) in *. set (pw := F32.mul fw (F32.of_Z 64)) in *.
  destruct (F32.is_finite v) eqn:Fv.
  - (* finite *)
    apply (lt_fin_false v F32.zero Fv eq_refl) in H0. change (R32 F32.zero) with 0%R in H0.
    apply (lt_fin_false fw v Fw Fv) in H1.
    (* the product for W *)
    assert (Pw : R32 pw = rnd (R32 fw * 64)).
    { unfold pw, F32.mul. pose proof (Bmult_correct 24 128 _ _ mode_NE fw (F32.of_Z 64)) as C. rewrite R_of_Z_64 in C.
      destruct (Rlt_bool _ _) in C; [tauto|].
      exfalso. unfold fin, F32.is_finite, pw, F32.mul in Fp. rewrite <- is_finite_SF_B2SF, C in Fp. discriminate. }
    assert (Bv : (0 <= rnd (R32 v * 64) <= R32 pw)%R).
    { rewrite Pw. split; [rewrite <- rnd_0; apply rnd_mono; lra | apply rnd_mono; lra]. }
    assert (Lt : (Rabs (rnd (R32 v * 64)) < bpow radix2 128)%R).
    { rewrite Rabs_pos_eq by lra. apply Rle_lt_trans with (R32 pw); [lra|].
      apply Rle_lt_trans with (Rabs (R32 pw)); [apply Rle_abs | apply abs_B2R_lt_emax]. }
    destruct (mul64_R v Fv Lt) as (Fpv & Rpv).
    set (pv := F32.mul v (F32.of_Z 64)) in *.
    assert (T0 : 0 <= Btrunc pv) by (rewrite <- Btrunc_zero; apply Btrunc_mono; change (R32 F32.zero) with 0%R; lra).
    assert (T1 : Btrunc pv <= 64 * W) by (rewrite <- Tp; apply Btrunc_mono; lra).
    unfold fdot6_from_f32. fold pv. unfold F32.to_i32, F32.to_int_sat.
    destruct pv as [s | s | | s m e Hb] eqn:Epv; try discriminate Fpv; [lia|].
    rewrite <- Epv in *.
    destruct (Btrunc pv <? -2147483648) eqn:E1; [apply Z.ltb_lt in E1; lia|].
    destruct (2147483647 <? Btrunc pv) eqn:E2; [apply Z.ltb_lt in E2; lia|]. lia.
  - destruct v as [s | s | | s m e Hb]; try discriminate Fv.
    + destruct s.
      * discriminate H0.
      * exfalso. unfold fin, F32.is_finite in Fw. destruct fw; try discriminate Fw; discriminate H1.
    + replace (fdot6_from_f32 B754_nan) with 0 by (vm_compute; reflexivity). lia.
Qed.

(* the clip rectangle of a w x h target *)
Lemma clip_rect_some w h : 1 <= w <= 32767 -> 1 <= h <= 32767 ->
  from_ltrb F32.zero F32.zero (F32.of_Z w) (F32.of_Z h) = Some (mkrect F32.zero F32.zero (F32.of_Z w) (F32.of_Z h)).
Proof.
  intros Hw Hh. destruct (int_ok_facts w ltac:(lia)) as (Fw & _ & _ & _ & Lw & (dw & Cw)).
  destruct (int_ok_facts h ltac:(lia)) as (Fh & _ & _ & _ & Lh & (dh & Ch)). cbv zeta in *.
  unfold from_ltrb. unfold fin in Fw, Fh. rewrite Fw, Fh, Lw, Lh, Cw, Ch. reflexivity.
Qed.

(* END TO END for one hairline segment with a clip: every blit lies inside the w x h target.  The only side condition is
   on the segment handed from the +-32767 chop to the clip chop: its coordinates are finite and its bounding box is a
   valid Rect (true for every finite input segment as far as the correspondence has ever observed; not proved, because
   it needs the absence of overflow in the f64 intersection arithmetic) *)
Theorem hair_line_rgn_seg_in_clip w h p0 p1 bl x y :
  1 <= w <= 32767 -> 1 <= h <= 32767 ->
  (forall fb a b, fixed_bounds = Some fb -> intersect p0 p1 fb = Some (a, b) ->
     fin (px a) /\ fin (py a) /\ fin (px b) /\ fin (py b) /\
     exists bnd, from_ltrb (F32.min (px a) (px b)) (F32.min (py a) (py b)) (F32.max (px a) (px b)) (F32.max (py a) (py b)) = Some bnd) ->
  hair_line_rgn_seg w h p0 p1 = Some bl -> In (x, y) bl -> 0 <= x < w /\ 0 <= y < h.
Proof.
  intros Hw Hh Side H Hin. unfold hair_line_rgn_seg in H.
  destruct fixed_bounds as [fb|] eqn:EF; [|discriminate].
  rewrite (clip_rect_some w h Hw Hh) in H.
  destruct (intersect p0 p1 fb) as [[a b]|] eqn:E1; [|injection H as <-; destruct Hin].
  destruct (Side fb a b eq_refl E1) as (Fa1 & Fa2 & Fb1 & Fb2 & (bnd & Hbnd)).
  set (cb := mkrect F32.zero F32.zero (F32.of_Z w) (F32.of_Z h)) in *.
  destruct (intersect a b cb) as [[c d]|] eqn:E2; [|injection H as <-; destruct Hin].
  assert (Hc : clip_ok cb) by (apply (from_ltrb_clip_ok _ _ _ _ _ (clip_rect_some w h Hw Hh))).
  destruct (intersect_not_outside a b cb bnd c d Fa1 Fa2 Fb1 Fb2 Hc Hbnd E2) as (((C1 & C2) & (C3 & C4)) & ((D1 & D2) & (D3 & D4))).
  cbn [rl rt rr rb cb] in *.
  destruct (int_ok_facts w ltac:(lia)) as (_ & _ & _ & Mw & _). destruct (int_ok_facts h ltac:(lia)) as (_ & _ & _ & Mh & _).
  cbv zeta in Mw, Mh. rewrite Mw, Mh in H.
  eapply hair_blits_in_clip; [| | | | exact H | exact Hin]; apply fdot6_in_range; assumption.
Qed.
