(* shard 4 of the finite check in Proofs/SourcePremul.v: alpha in [128, 160) *)
From Coq Require Import ZArith Bool List.
From TS Require Import Base.F32 Model.Pixel Proofs.SourcePremulDefs.
Local Open Scope Z_scope.
Lemma shard4_ok : forallb (fun a => forallb (pair_ok a) range256) (range_from 128 32) = true.
Proof. vm_compute. reflexivity. Qed.
