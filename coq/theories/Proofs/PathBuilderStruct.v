(* Structural invariants of PathBuilder: every call sequence leaves a builder whose verb
   list is accepted by the contour automaton and whose point count matches the verbs.
   Integer/list reasoning only: closed under the global context. *)
From Coq Require Import ZArith Bool List Lia.
From TS Require Import Base.F32 Model.Rect Model.PathBuilder.
Import ListNotations.

(* The contour automaton, scanning verbs left to right. *)
Inductive vstate := Start | AfterMove | InContour | AfterClose.

Definition vstep (s : option vstate) (v : verb) : option vstate :=
  match s with
  | None => None
  | Some Start => match v with Move => Some AfterMove | _ => None end
  | Some AfterMove => match v with
                      | Move => None
                      | Close => Some AfterClose
                      | _ => Some InContour end
  | Some InContour => match v with
                      | Move => Some AfterMove
                      | Close => Some AfterClose
                      | _ => Some InContour end
  | Some AfterClose => match v with Move => Some AfterMove | _ => None end
  end.

Definition vscan (vs : list verb) : option vstate := fold_left vstep vs (Some Start).

Definition npoints (vs : list verb) : nat := fold_right (fun v n => arity v + n) 0 vs.

(* The documented structural guarantees, as a predicate on raw verb/point lists. *)
Fixpoint no_adjacent (a : verb) (vs : list verb) : Prop :=
  match vs with
  | x :: r => match r with y :: _ => ~ (x = a /\ y = a) | [] => True end /\ no_adjacent a r
  | [] => True
  end.

Fixpoint only_move_after_close (vs : list verb) : Prop :=
  match vs with
  | x :: r => match r with y :: _ => (x = Close -> y = Move) | [] => True end /\ only_move_after_close r
  | [] => True
  end.

Definition StructWF (vs : list verb) (ps : list pt) : Prop :=
  2 <= length vs /\ hd_error vs = Some Move /\ no_adjacent Move vs /\ no_adjacent Close vs /\
  only_move_after_close vs /\ length ps = npoints vs.

(* --- the automaton accepts only such lists ---------------------------------------- *)

Lemma vscan_app vs v : vscan (vs ++ [v]) = vstep (vscan vs) v.
Proof. unfold vscan. rewrite fold_left_app. reflexivity. Qed.

Lemma fold_vstep_none vs : fold_left vstep vs None = None.
Proof. induction vs; simpl; auto. Qed.

Lemma npoints_app a b : npoints (a ++ b) = npoints a + npoints b.
Proof. unfold npoints. induction a; simpl; auto. rewrite IHa. lia. Qed.

(* a verb that "stands for" the state we are in, to talk about adjacency across the cut *)
Definition rep (s : vstate) : verb :=
  match s with AfterMove => Move | AfterClose => Close | Start => Close | InContour => Line end.

Lemma na_cons2 a x y r : no_adjacent a (x :: y :: r) <-> ~ (x = a /\ y = a) /\ no_adjacent a (y :: r).
Proof. reflexivity. Qed.
Lemma omac_cons2 x y r : only_move_after_close (x :: y :: r) <-> (x = Close -> y = Move) /\ only_move_after_close (y :: r).
Proof. reflexivity. Qed.

Lemma scan_from_struct vs : forall s st,
  fold_left vstep vs (Some s) = Some st ->
  no_adjacent Move (rep s :: vs) /\ no_adjacent Close (rep s :: vs) /\
  only_move_after_close (rep s :: vs).
Proof.
  induction vs as [|v vs IH]; intros s st H.
  - simpl. tauto.
  - cbn [fold_left] in H.
    destruct (vstep (Some s) v) as [s'|] eqn:E; [|rewrite fold_vstep_none in H; discriminate].
    destruct (IH s' st H) as (B & C & D).
    assert (K : rep s' = v \/ (s' = InContour /\ v <> Move /\ v <> Close)).
    { destruct s, v; simpl in E; inversion E; subst; simpl; auto;
        right; repeat split; discriminate. }
    assert (NM : ~ (rep s = Move /\ v = Move)).
    { intros [X Y]. subst v. destruct s; simpl in *; discriminate. }
    assert (NC : ~ (rep s = Close /\ v = Close)).
    { intros [X Y]. subst v. destruct s; simpl in *; discriminate. }
    assert (OM : rep s = Close -> v = Move).
    { intros X. destruct s, v; simpl in *; try discriminate; auto. }
    destruct K as [Hv | (Hs' & Hm & Hc)].
    + rewrite Hv in *. rewrite !na_cons2, omac_cons2. tauto.
    + subst s'. change (rep InContour) with Line in *.
      destruct vs as [|w vs].
      * rewrite !na_cons2, omac_cons2. simpl. tauto.
      * rewrite na_cons2 in B, C. rewrite omac_cons2 in D. rewrite !na_cons2, !omac_cons2.
        destruct B as [_ B], C as [_ C], D as [_ D].
        split; [|split].
        { split; [exact NM|]. split; [tauto|exact B]. }
        { split; [exact NC|]. split; [tauto|exact C]. }
        { split; [exact OM|]. split; [intros X; subst v; tauto|exact D]. }
Qed.

Lemma vscan_struct vs st :
  vscan vs = Some st ->
  (match vs with v :: _ => v = Move | [] => True end) /\
  no_adjacent Move vs /\ no_adjacent Close vs /\ only_move_after_close vs.
Proof.
  intros H. split.
  - destruct vs as [|v vs]; auto. unfold vscan in H. simpl in H.
    destruct v; auto; simpl in H; rewrite fold_vstep_none in H; discriminate.
  - apply scan_from_struct in H. simpl in H. tauto.
Qed.

(* --- builder invariant --------------------------------------------------------------- *)

Definition lastv (vs : list verb) : option verb := last (map Some vs) None.

Lemma lastv_app vs v : lastv (vs ++ [v]) = Some v.
Proof. unfold lastv. rewrite map_app. simpl. apply last_last. Qed.

Definition lv_ok (st : vstate) (lv : option verb) : Prop :=
  match st with
  | Start => lv = None
  | AfterMove => lv = Some Move
  | AfterClose => lv = Some Close
  | InContour => lv = Some Line \/ lv = Some Quad \/ lv = Some Cubic
  end.

Definition req_of (st : vstate) : bool :=
  match st with Start | AfterClose => true | _ => false end.

Definition Inv (b : builder) : Prop :=
  exists st, vscan (verbs b) = Some st /\
    length (points b) = npoints (verbs b) /\
    lv_ok st (lastv (verbs b)) /\
    move_to_required b = req_of st.

Lemma length_set_last {A} (l : list A) x : length (set_last l x) = length l.
Proof. induction l as [|a [|b r] IH]; simpl in *; auto. Qed.

Lemma inv_new : Inv new_builder.
Proof. exists Start. simpl. auto. Qed.

Ltac inv_snoc st' :=
  exists st'; cbn [verbs points move_to_required last_move_to_index];
  rewrite ?vscan_app, ?lastv_app, ?app_length, ?npoints_app;
  repeat split; simpl; auto; try lia.

Lemma move_to_inv b p : Inv b -> Inv (move_to b p) /\ move_to_required (move_to b p) = false.
Proof.
  intros (st & Hs & Hl & Hv & Hr). unfold move_to, last_verb. fold (lastv (verbs b)).
  destruct st; simpl in Hv, Hr.
  - rewrite Hv. split; [|reflexivity]. inv_snoc AfterMove; rewrite Hs; simpl; auto.
  - rewrite Hv. split; [|exact Hr]. exists AfterMove. simpl.
    rewrite length_set_last. auto.
  - assert (E : match lastv (verbs b) with Some Move => False | _ => True end).
    { destruct Hv as [-> | [-> | ->]]; exact I. }
    destruct (lastv (verbs b)) as [[]|] eqn:L; try contradiction;
      (split; [|reflexivity]); inv_snoc AfterMove; rewrite Hs; simpl; auto.
  - rewrite Hv. split; [|reflexivity]. inv_snoc AfterMove; rewrite Hs; simpl; auto.
Qed.

(* after inject_move_to_if_needed the builder is inside a contour *)
Lemma inject_inv b : Inv b ->
  Inv (inject_move_to_if_needed b) /\ move_to_required (inject_move_to_if_needed b) = false.
Proof.
  intros H. unfold inject_move_to_if_needed.
  destruct (move_to_required b) eqn:R.
  - destruct (nth_error (points b) (last_move_to_index b)); apply move_to_inv; auto.
  - auto.
Qed.

Lemma inside_state b : Inv b -> move_to_required b = false ->
  exists st, vscan (verbs b) = Some st /\ (st = AfterMove \/ st = InContour) /\
             length (points b) = npoints (verbs b).
Proof.
  intros (st & Hs & Hl & Hv & Hr) R. rewrite R in Hr.
  exists st. repeat split; auto. destruct st; simpl in Hr; try discriminate; auto.
Qed.

Lemma append_curve_inv b v ps :
  Inv b -> move_to_required b = false -> (v = Line \/ v = Quad \/ v = Cubic) ->
  length ps = arity v ->
  Inv (mkb (verbs b ++ [v]) (points b ++ ps) (last_move_to_index b) (move_to_required b)) .
Proof.
  intros H R Hv Hp. destruct (inside_state b H R) as (st & Hs & Hst & Hl).
  inv_snoc InContour.
  - rewrite Hs. destruct Hst; subst st; destruct Hv as [-> | [-> | ->]]; reflexivity.
  - destruct Hv as [-> | [-> | ->]]; auto.
Qed.

Lemma line_to_inv b p : Inv b -> Inv (line_to b p) /\ move_to_required (line_to b p) = false.
Proof.
  intros H. unfold line_to. destruct (inject_inv b H) as [H1 R1]. split.
  - apply append_curve_inv; auto.
  - exact R1.
Qed.

Lemma quad_to_inv b p1 p : Inv b -> Inv (quad_to b p1 p) /\ move_to_required (quad_to b p1 p) = false.
Proof.
  intros H. unfold quad_to. destruct (inject_inv b H) as [H1 R1]. split.
  - apply append_curve_inv; auto.
  - exact R1.
Qed.

Lemma cubic_to_inv b p1 p2 p : Inv b -> Inv (cubic_to b p1 p2 p).
Proof.
  intros H. unfold cubic_to. destruct (inject_inv b H) as [H1 R1].
  apply append_curve_inv; auto.
Qed.

Lemma close_inv b : Inv b -> Inv (close b).
Proof.
  intros (st & Hs & Hl & Hv & Hr). unfold close, last_verb. fold (lastv (verbs b)).
  destruct st; simpl in Hv.
  - rewrite Hv. exists Start. simpl. auto.
  - rewrite Hv. inv_snoc AfterClose. rewrite Hs. reflexivity.
  - destruct Hv as [-> | [-> | ->]]; inv_snoc AfterClose; rewrite Hs; reflexivity.
  - rewrite Hv. exists AfterClose. simpl. auto.
Qed.

Lemma clear_inv b : Inv (clear b).
Proof. exact inv_new. Qed.

Lemma push_rect_inv b r : Inv b -> Inv (push_rect b r).
Proof.
  intros H. unfold push_rect. apply close_inv.
  apply line_to_inv, line_to_inv, line_to_inv, move_to_inv, H.
Qed.

Section Conic.
  Variable cq : pt -> pt -> pt -> f32 -> option (list (pt * pt)).

  Lemma fold_quads_inv qs : forall b, Inv b ->
    Inv (fold_left (fun b q => quad_to b (fst q) (snd q)) qs b).
  Proof.
    induction qs as [|q qs IH]; intros b H; simpl; auto.
    apply IH, quad_to_inv, H.
  Qed.

  Lemma conic_to_inv b p1 p w : Inv b -> Inv (conic_to cq b p1 p w).
  Proof.
    intros H. unfold conic_to.
    destruct (negb (F32.gt w F32.zero)); [apply line_to_inv, H|].
    destruct (negb (F32.is_finite w)); [apply line_to_inv, line_to_inv, H|].
    destruct (F32.eq w F32.one); [apply quad_to_inv, H|].
    destruct (inject_inv b H) as [H1 _].
    destruct (last _ _); auto.
    destruct (cq _ _ _ _); auto.
    apply fold_quads_inv, H1.
  Qed.

  Lemma push_oval_inv b o : Inv b -> Inv (push_oval cq b o).
  Proof.
    intros H. unfold push_oval. apply close_inv.
    repeat apply conic_to_inv. apply move_to_inv, H.
  Qed.

  Lemma push_circle_inv b x y r : Inv b -> Inv (push_circle cq b x y r).
  Proof.
    intros H. unfold push_circle. destruct (from_xywh _ _ _ _); auto.
    apply push_oval_inv, H.
  Qed.
End Conic.

Lemma apply_segment_inv b s : Inv b -> Inv (apply_segment b s).
Proof.
  intros H. destruct s; simpl.
  - apply move_to_inv, H.
  - apply line_to_inv, H.
  - apply quad_to_inv, H.
  - apply cubic_to_inv, H.
  - apply close_inv, H.
Qed.

(* the fixed push_path keeps the invariant for ANY argument (no hypothesis on [other]) *)
Lemma push_path_inv b other : Inv b -> Inv (push_path b other).
Proof.
  intros H. unfold push_path. destruct (segments other) as [segs|]; auto.
  revert b H. induction segs as [|s segs IH]; intros b H; simpl; auto.
  apply IH, apply_segment_inv, H.
Qed.

Theorem step_inv cq b o : Inv b -> Inv (step cq push_path b o).
Proof.
  intros H. destruct o; simpl.
  - apply move_to_inv, H.
  - apply line_to_inv, H.
  - apply quad_to_inv, H.
  - apply cubic_to_inv, H.
  - apply close_inv, H.
  - apply push_rect_inv, H.
  - apply push_oval_inv, H.
  - apply push_circle_inv, H.
  - apply push_path_inv, H.
  - apply clear_inv.
Qed.

Theorem run_inv cq ops : Inv (run cq push_path ops).
Proof.
  unfold run. generalize inv_new. generalize new_builder.
  induction ops as [|o ops IH]; intros b H; simpl; auto.
  apply IH, step_inv, H.
Qed.

(* from the invariant to the documented guarantees, at finish *)
Lemma inv_struct b : Inv b -> 2 <= length (verbs b) -> StructWF (verbs b) (points b).
Proof.
  intros (st & Hs & Hl & Hv & Hr) H2.
  destruct (vscan_struct _ _ Hs) as (A & B & C & D).
  unfold StructWF. repeat split; auto.
  destruct (verbs b); simpl in *; [lia|]. subst; reflexivity.
Qed.

Theorem finish_struct_wf fp b p :
  Inv b -> finish_gen fp b = Some p -> StructWF (pverbs p) (ppoints p).
Proof.
  intros H F. unfold finish_gen in F.
  destruct (verbs b) as [|v1 [|v2 vs]] eqn:E; try discriminate.
  destruct (fp (points b)); inversion F; subst; simpl.
  rewrite <- E. apply inv_struct; auto. rewrite E. simpl. lia.
Qed.

(* the pinned push_path (raw append) breaks the invariant: witness *)
Definition demo_rect_path : path :=
  mkpath [Move; Line; Line; Line; Close] [zero_pt; zero_pt; zero_pt; zero_pt]
         (mkrect F32.zero F32.zero F32.zero F32.zero).

Lemma push_path_raw_refuted :
  exists b other, Inv b /\ StructWF (pverbs other) (ppoints other) /\
    ~ (exists st, vscan (verbs (line_to (push_path_raw b other) zero_pt)) = Some st).
Proof.
  exists (line_to (move_to new_builder zero_pt) zero_pt), demo_rect_path.
  split; [apply line_to_inv, move_to_inv, inv_new|].
  split; [unfold StructWF; simpl; intuition (try discriminate; try lia)|].
  intros [st H]. vm_compute in H. discriminate.
Qed.

(* segments() never indexes out of range on a structurally well-formed path and replays
   exactly the verbs *)
Lemma segments_aux_ok vs : forall ps, length ps = npoints vs ->
  exists segs, segments_aux vs ps = Some segs /\ map seg_verb segs = vs.
Proof.
  induction vs as [|v vs IH]; intros ps H.
  - exists []. auto.
  - destruct v; simpl in H.
    + destruct ps as [|p ps]; [discriminate|]. simpl in H.
      destruct (IH ps) as (s & E & M); [lia|]. exists (SMove p :: s). simpl. rewrite E, M. auto.
    + destruct ps as [|p ps]; [discriminate|]. simpl in H.
      destruct (IH ps) as (s & E & M); [lia|]. exists (SLine p :: s). simpl. rewrite E, M. auto.
    + destruct ps as [|p1 [|p ps]]; try discriminate. simpl in H.
      destruct (IH ps) as (s & E & M); [lia|]. exists (SQuad p1 p :: s). simpl. rewrite E, M. auto.
    + destruct ps as [|p1 [|p2 [|p ps]]]; try discriminate. simpl in H.
      destruct (IH ps) as (s & E & M); [lia|]. exists (SCubic p1 p2 p :: s). simpl. rewrite E, M. auto.
    + destruct (IH ps) as (s & E & M); [simpl in H; lia|]. exists (SClose :: s). simpl. rewrite E, M. auto.
Qed.

Theorem segments_replays_verbs p :
  StructWF (pverbs p) (ppoints p) ->
  exists segs, segments p = Some segs /\ map seg_verb segs = pverbs p.
Proof. intros (_ & _ & _ & _ & _ & H). apply segments_aux_ok, H. Qed.

Theorem clear_is_new b : clear b = new_builder.
Proof. reflexivity. Qed.

Theorem path_clear_is_new p : path_clear p = new_builder.
Proof. reflexivity. Qed.
