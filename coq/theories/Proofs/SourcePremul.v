(* The uniform colour a solid paint feeds into the pipeline is premultiplied, for every 8-bit
   RGBA paint colour: Paint::set_color_rgba8 -> Color::premultiply -> (x*255+0.5) as u16.
   Finite domain (256 x 256 channel/alpha pairs) enumerated completely by vm_compute on the
   bit-exact Flocq model, in 8 shards (Proofs/SourcePremulShard*.v) so that they build in parallel. *)
From Coq Require Import ZArith Bool List Lia.
From TS Require Import Base.F32 Model.Pixel Proofs.SourcePremulDefs
  Proofs.SourcePremulShard0 Proofs.SourcePremulShard1 Proofs.SourcePremulShard2 Proofs.SourcePremulShard3
  Proofs.SourcePremulShard4 Proofs.SourcePremulShard5 Proofs.SourcePremulShard6 Proofs.SourcePremulShard7.
Import ListNotations.
Local Open Scope Z_scope.

Lemma in_range_from lo n z : lo <= z < lo + Z.of_nat n -> In z (range_from lo n).
Proof. intros H. unfold range_from. apply in_map_iff. exists (Z.to_nat (z - lo)). split; [lia|]. apply in_seq. lia. Qed.

Theorem source_channel_premul c a : 0 <= c <= 255 -> 0 <= a <= 255 ->
  0 <= chan_u16 c a <= alpha_u16 a /\ alpha_u16 a <= 255.
Proof.
  intros Hc Ha.
  assert (K : forall lo n, forallb (fun a => forallb (pair_ok a) range256) (range_from lo n) = true ->
              lo <= a < lo + Z.of_nat n -> 0 <= chan_u16 c a <= alpha_u16 a /\ alpha_u16 a <= 255).
  { intros lo n H Hr. rewrite forallb_forall in H. specialize (H a (in_range_from lo n a Hr)).
    rewrite forallb_forall in H. specialize (H c (in_range_from 0 256 c ltac:(lia))).
    unfold pair_ok in H. rewrite !andb_true_iff, !Z.leb_le in H. lia. }
  destruct (Z_lt_le_dec a 32); [apply (K _ _ shard0_ok); lia|].
  destruct (Z_lt_le_dec a 64); [apply (K _ _ shard1_ok); lia|].
  destruct (Z_lt_le_dec a 96); [apply (K _ _ shard2_ok); lia|].
  destruct (Z_lt_le_dec a 128); [apply (K _ _ shard3_ok); lia|].
  destruct (Z_lt_le_dec a 160); [apply (K _ _ shard4_ok); lia|].
  destruct (Z_lt_le_dec a 192); [apply (K _ _ shard5_ok); lia|].
  destruct (Z_lt_le_dec a 224); [apply (K _ _ shard6_ok); lia|].
  apply (K _ _ shard7_ok); lia.
Qed.
