(* shard 7 of the finite check in Proofs/SourcePremul.v: alpha in [224, 256) *)
From Coq Require Import ZArith Bool List.
From TS Require Import Base.F32 Model.Pixel Proofs.SourcePremulDefs.
Local Open Scope Z_scope.
Lemma shard7_ok : forallb (fun a => forallb (pair_ok a) range256) (range_from 224 32) = true.
Proof. vm_compute. reflexivity. Qed.
