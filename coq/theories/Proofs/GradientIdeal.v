(* The ideal (rational) gradient functions of Model/Gradient.v: factor/bias tables and tiling. *)
From Coq Require Import ZArith QArith Qround Qabs Qminmax Qfield Lqa.
From TS Require Import Model.Gradient.

(* ---- ideal interpolation and tiling (Q) ---------------------------------------------------------------------- *)
Local Open Scope Q_scope.

Theorem factor_bias_interpolates tl tr cl cr t :
  tl < tr -> factor tl tr cl cr * t + bias tl tr cl cr == lerp_stops tl tr cl cr t.
Proof. intros H. unfold bias, factor, lerp_stops. field. intros E. lra. Qed.

Theorem lerp_stops_ends tl tr cl cr : tl < tr -> lerp_stops tl tr cl cr tl == cl /\ lerp_stops tl tr cl cr tr == cr.
Proof. intros H. unfold lerp_stops. split; field; intros E; lra. Qed.

Theorem two_stop_interpolates c0 c1 t : two_stop c0 c1 t == lerp_stops 0 1 c0 c1 t.
Proof. unfold two_stop, lerp_stops. field. Qed.

Theorem repeat_x1_range t : 0 <= repeat_x1 t /\ repeat_x1 t < 1.
Proof.
  unfold repeat_x1. pose proof (Qfloor_le t). pose proof (Qlt_floor t).
  rewrite inject_Z_plus in *. change (inject_Z 1) with 1 in *. split; lra.
Qed.

Theorem reflect_x1_range t : 0 <= reflect_x1 t /\ reflect_x1 t <= 1.
Proof.
  unfold reflect_x1. set (u := t - 1). pose proof (Qfloor_le (u * (1 # 2))). pose proof (Qlt_floor (u * (1 # 2))).
  rewrite inject_Z_plus in *. change (inject_Z 1) with 1 in *.
  split; [apply Qabs_nonneg|]. apply Qabs_Qle_condition. split; lra.
Qed.

Theorem pad_x1_spec t : 0 <= pad_x1 t /\ pad_x1 t <= 1 /\ (0 <= t <= 1 -> pad_x1 t == t).
Proof.
  unfold pad_x1. split; [|split].
  - apply Q.min_glb; [apply Q.le_max_r | lra].
  - apply Q.le_min_r.
  - intros (H0 & H1). rewrite Q.max_l by exact H0. rewrite Q.min_l by exact H1. reflexivity.
Qed.
