(* shard 3 of the finite checks of Proofs/PngProofs.v: alpha in [96, 128) *)
From Coq Require Import ZArith Bool List.
From TS Require Import Base.F32 Model.Pixel Model.Png Proofs.PngDefs.
Local Open Scope Z_scope.
Lemma png_shard3_ok : forallb alpha_ok (zrange 96 32) = true.
Proof. vm_compute. reflexivity. Qed.
