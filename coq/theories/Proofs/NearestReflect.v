(* C16 "reflect mirrors": with a whole-pixel translation the nearest sampler under SpreadMode::Reflect reads source pixel
   (refl (c - tx) w, refl (r - ty) h), refl i n = let j = i mod 2n in if j < n then j else 2n - 1 - j, in bit-exact binary32. *)
From Coq Require Import ZArith Bool List Lia Reals Lra.
From Flocq Require Import Core.Zaux Core.Raux Core.Defs Core.Generic_fmt Core.FLT Core.FIX Core.Float_prop IEEE754.BinarySingleNaN.
From TS Require Import Base.F32 Base.Wide Model.Rect Model.WideBackends Model.Sampler Model.Nearest
  Proofs.RectPoints Proofs.SamplerProofs Proofs.WideProofs Proofs.NearestCopy Proofs.LineClipFinite Proofs.HighpError
  Proofs.LerpMono Proofs.NearestRepeat.
Import ListNotations.
Local Open Scope Z_scope.

Lemma val_abs x n : val x n -> val (F32.abs x) (Z.abs n).
Proof.
  intros (Fx & Rx). unfold val, F32.abs. split.
  - unfold fin, F32.is_finite in *. rewrite is_finite_Babs. exact Fx.
  - rewrite B2R_Babs, Rx. rewrite abs_IZR. unfold Rdiv. rewrite Rabs_mult. rewrite (Rabs_pos_eq (/ 2)) by lra. reflexivity.
Qed.

Local Open Scope R_scope.
(* the product of a (shifted) pixel centre with half the rounded reciprocal: within 1/(4w) of the exact quotient *)
Lemma centre_times_half_inv v i w :
  (1 <= w <= 16384)%Z -> (Z.abs i < 2097152)%Z -> val v (2 * i + 1) ->
  let ih := F32.mul (F32.div F32.one (F32.of_Z w)) F32.half in
  fin (F32.mul v ih) /\ Rabs (R32 (F32.mul v ih) - (IZR (2 * i + 1) / 2) / (2 * IZR w)) < / IZR w / 4.
Proof.
  intros Hw Hi (Fv & Rv) ih.
  pose proof (val_of_Z w ltac:(lia)) as (Fw & Rw). replace (IZR (2 * w) / 2) with (IZR w) in Rw by (rewrite mult_IZR; lra).
  assert (W1 : 1 <= IZR w) by (apply IZR_le; lia). assert (W2 : IZR w <= 16384) by (apply IZR_le; lia).
  set (W := IZR w) in *. set (iw := / W).
  assert (IW : 0 < iw <= 1) by (unfold iw; split; [apply Rinv_0_lt_compat; lra | rewrite <- Rinv_1; apply Rinv_le_contravar; lra]).
  assert (IWlo : / 16384 <= iw) by (unfold iw; apply Rinv_le_contravar; lra).
  set (inv := F32.div F32.one (F32.of_Z w)) in *.
  assert (Finv : fin inv /\ R32 inv = rnd32 iw).
  { pose proof (Bdiv_correct 24 128 eq_refl eq_refl mode_NE F32.one (F32.of_Z w)) as C.
    rewrite Rw, R_one in C. specialize (C ltac:(lra)). replace (1 / W) with iw in C by (unfold iw; lra).
    assert (B : Rabs (rnd32 iw) < bpow radix2 128).
    { eapply Rle_lt_trans; [apply rnd32_abs_le1; rewrite Rabs_pos_eq; lra|]. change 1 with (bpow radix2 0). apply bpow_lt. lia. }
    rewrite (Rlt_bool_true _ _ B) in C. destruct C as (C1 & C2 & _). split; [exact C2 | exact C1]. }
  destruct Finv as (Finv & Rinv).
  assert (U : u = / 16777216) by apply u_val.
  assert (E : 0 <= eta0 <= iw * / 1000000000000000000000000000000) by (rewrite eta0_val; split; lra).
  set (e := eta0) in *.
  pose proof (rnd_err iw) as D1. rewrite <- Rinv in D1. rewrite (Rabs_pos_eq iw) in D1 by lra. fold e in D1.
  assert (Binv : Rabs (R32 inv) <= iw + (u * iw + e)).
  { replace (R32 inv) with (iw + (R32 inv - iw)) by ring. eapply Rle_trans; [apply Rabs_triang|]. rewrite (Rabs_pos_eq iw) by lra. lra. }
  (* ih = rnd (inv / 2) *)
  assert (Fih : fin ih /\ R32 ih = rnd32 (R32 inv * / 2)).
  { pose proof (Bmult_correct 24 128 eq_refl eq_refl mode_NE inv F32.half) as C.
    destruct val_half as (_ & Rh). replace (IZR 1 / 2) with (/ 2) in Rh by lra. rewrite Rh in C.
    assert (X : Rabs (R32 inv * / 2) <= bpow radix2 100).
    { rewrite Rabs_mult, (Rabs_pos_eq (/ 2)) by lra. rewrite pow100. rewrite U in Binv. lra. }
    rewrite (Rlt_bool_true _ _ (lt_emax_of_le100 _ X)) in C. destruct C as (C1 & C2 & _).
    unfold fin, F32.is_finite in *. rewrite Finv in C2. split; [exact C2 | exact C1]. }
  destruct Fih as (Fih & Rih).
  pose proof (rnd_err (R32 inv * / 2)) as D0. rewrite <- Rih in D0. rewrite Rabs_mult, (Rabs_pos_eq (/ 2)) in D0 by lra. fold e in D0.
  set (hi := iw / 2).
  assert (Dh : Rabs (R32 ih - hi) <= (u * iw + e) / 2 + (u * (Rabs (R32 inv) * / 2) + e)).
  { replace (R32 ih - hi) with ((R32 ih - R32 inv * / 2) + (R32 inv - iw) * / 2) by (unfold hi; field).
    eapply Rle_trans; [apply Rabs_triang|]. rewrite (Rabs_mult (R32 inv - iw)), (Rabs_pos_eq (/ 2)) by lra. lra. }
  assert (Bih : Rabs (R32 ih) <= hi + ((u * iw + e) / 2 + (u * (Rabs (R32 inv) * / 2) + e))).
  { replace (R32 ih) with (hi + (R32 ih - hi)) by ring. eapply Rle_trans; [apply Rabs_triang|].
    rewrite (Rabs_pos_eq hi) by (unfold hi; lra). lra. }
  set (V := IZR (2 * i + 1) / 2) in *.
  assert (A : Rabs V <= 2097151.5).
  { unfold V. unfold Rdiv. rewrite Rabs_mult, (Rabs_pos_eq (/ 2)) by lra. rewrite <- abs_IZR.
    assert (IZR (Z.abs (2 * i + 1)) <= IZR 4194303) by (apply IZR_le; lia). lra. }
  set (a := Rabs V) in *. assert (A0 : 0 <= a) by apply Rabs_pos.
  assert (Bih2 : Rabs (R32 ih) <= 1) by (rewrite U in *; unfold hi in *; lra).
  assert (X : Rabs (V * R32 ih) <= bpow radix2 100).
  { rewrite Rabs_mult. fold a. rewrite pow100.
    assert (a * Rabs (R32 ih) <= 2097151.5 * 1) by (apply Rmult_le_compat; [lra | apply Rabs_pos | lra | lra]). lra. }
  pose proof (Bmult_correct 24 128 eq_refl eq_refl mode_NE v ih) as C. rewrite Rv in C. fold V in C.
  rewrite (Rlt_bool_true _ _ (lt_emax_of_le100 _ X)) in C. destruct C as (C1 & C2 & _).
  unfold fin, F32.is_finite in *. rewrite Fv, Fih in C2. split; [exact C2|].
  assert (C1' : R32 (F32.mul v ih) = rnd32 (V * R32 ih)) by exact C1. rewrite C1'.
  pose proof (rnd_err (V * R32 ih)) as D2. rewrite Rabs_mult in D2. fold a in D2. fold e in D2.
  replace (rnd32 (V * R32 ih) - V / (2 * W)) with ((rnd32 (V * R32 ih) - V * R32 ih) + V * (R32 ih - hi)) by (unfold hi, iw; field; lra).
  eapply Rle_lt_trans; [apply Rabs_triang|]. rewrite (Rabs_mult V). fold a.
  (* every product bounded by a multiple of iw *)
  set (dh := (u * iw + e) / 2 + (u * (Rabs (R32 inv) * / 2) + e)) in *.
  assert (Dh0 : 0 <= dh) by (unfold dh; pose proof (Rabs_pos (R32 inv)); rewrite U; lra).
  assert (DhB : dh <= iw * (7 / 100000000)).
  { unfold dh. rewrite U in *. lra. }
  assert (P1 : a * Rabs (R32 ih - hi) <= a * dh) by (apply Rmult_le_compat_l; lra).
  assert (P1' : a * dh <= 2097151.5 * (iw * (7 / 100000000))) by (apply Rmult_le_compat; lra).
  assert (P2 : a * Rabs (R32 ih) <= 2097151.5 * (hi + dh)) by (apply Rmult_le_compat; [lra | apply Rabs_pos | lra | lra]).
  assert (Hu : 0 <= u) by lra.
  assert (P3 : u * (a * Rabs (R32 ih)) <= u * (2097151.5 * (hi + dh))) by (apply Rmult_le_compat_l; lra).
  rewrite U in *. unfold hi, iw in *. lra.
Qed.

Local Open Scope Z_scope.
Definition reflZ (i n : Z) : Z := let j := i mod (2 * n) in if j <? n then j else 2 * n - 1 - j.

Lemma reflZ_range i n : 1 <= n -> 0 <= reflZ i n < n.
Proof.
  intros Hn. unfold reflZ. pose proof (Z.mod_pos_bound i (2 * n) ltac:(lia)) as B. cbv zeta.
  destruct (Z.ltb_spec (i mod (2 * n)) n); lia.
Qed.

(* the mirror tiling stage on a pixel centre *)
Lemma excl_reflect_centre b v i w :
  1 <= w <= 16384 -> Z.abs i < 2000000 -> val v (2 * i + 1) ->
  val (excl_reflect b v (F32.of_Z w) (F32.div F32.one (F32.of_Z w))) (2 * reflZ i w + 1).
Proof.
  intros Hw Hi Hv. unfold excl_reflect. cbv zeta.
  pose proof (val_of_Z w ltac:(lia)) as Vw.
  (* vl = v - limit *)
  pose proof (val_sub _ _ _ _ Hv Vw ltac:(lia)) as Vl. replace (2 * i + 1 - 2 * w) with (2 * (i - w) + 1) in Vl by lia.
  set (vl := F32.sub v (F32.of_Z w)) in *.
  destruct (centre_times_half_inv vl (i - w) w Hw ltac:(lia) Vl) as (Fp & Ep). cbv zeta in Ep.
  set (p := F32.mul vl (F32.mul (F32.div F32.one (F32.of_Z w)) F32.half)) in *.
  assert (W1 : (1 <= IZR w)%R) by (apply IZR_le; lia). assert (W2 : (IZR w <= 16384)%R) by (apply IZR_le; lia).
  set (W := IZR w) in *.
  pose proof (Z.div_mod (i - w) (2 * w) ltac:(lia)) as DM. pose proof (Z.mod_pos_bound (i - w) (2 * w) ltac:(lia)) as MB.
  set (q := (i - w) / (2 * w)) in *. set (m := (i - w) mod (2 * w)) in *.
  assert (IW : (0 < / W)%R) by (apply Rinv_0_lt_compat; lra).
  assert (Q : (IZR (2 * (i - w) + 1) / 2 / (2 * W) = IZR q + (IZR m + / 2) * / (2 * W))%R).
  { rewrite DM. rewrite plus_IZR, mult_IZR, plus_IZR, !mult_IZR. fold W. field. lra. }
  assert (R0 : (0 <= IZR m)%R) by (apply IZR_le; lia).
  assert (R1 : (IZR m + 1 <= 2 * W)%R) by (unfold W; rewrite <- (plus_IZR m 1), <- mult_IZR; apply IZR_le; lia).
  assert (I2 : (/ (2 * W) = / W / 2)%R) by (field; lra).
  assert (Lo : (IZR q + / W / 4 <= IZR (2 * (i - w) + 1) / 2 / (2 * W))%R).
  { rewrite Q, I2. assert (0 <= IZR m * (/ W / 2))%R by (apply Rmult_le_pos; lra). lra. }
  assert (Hi' : (IZR (2 * (i - w) + 1) / 2 / (2 * W) <= IZR q + 1 - / W / 4)%R).
  { rewrite Q. assert ((IZR m + 1) * / (2 * W) <= (2 * W) * / (2 * W))%R by (apply Rmult_le_compat_r; [rewrite I2|]; lra).
    rewrite Rinv_r in H by lra. rewrite I2 in *. lra. }
  apply Rabs_lt_inv in Ep.
  assert (Fl : Zfloor (R32 p) = q) by (apply Zfloor_imp; rewrite plus_IZR; simpl (IZR 1); lra).
  assert (Bq : Z.abs q <= 2100000).
  { assert (Z.abs q <= Z.abs (i - w)); [|lia]. unfold q.
    destruct (Z_le_gt_dec 0 (i - w)) as [P | N].
    - rewrite !Z.abs_eq by (try apply Z.div_pos; lia). apply Z.div_le_upper_bound; nia.
    - assert ((i - w) / (2 * w) < 0) by (apply Z.div_lt_upper_bound; lia). assert (i - w <= (i - w) / (2 * w)); [|lia].
      apply Z.div_le_lower_bound; nia. }
  assert (Bp : (Rabs (R32 p) < 4194304)%R).
  { apply Rabs_lt. assert (-2100000 <= IZR q <= 2100000)%R by (split; [change (-2100000)%R with (IZR (-2100000)) | change 2100000%R with (IZR 2100000)]; apply IZR_le; lia).
    assert (/ W <= 1)%R by (rewrite <- Rinv_1; apply Rinv_le_contravar; lra). lra. }
  pose proof (floor4_val b p Fp Bp) as Vf. rewrite Fl in Vf.
  (* (limit + limit) * floor *)
  pose proof (val_add _ _ _ _ Vw Vw ltac:(lia)) as V2w.
  assert (Bqw : Z.abs (q * (2 * w)) < 4200000) by nia.
  pose proof (val_mul _ _ (2 * w + 2 * w) (2 * q) (2 * (q * (2 * w))) V2w Vf ltac:(lia) ltac:(lia)) as Vm.
  pose proof (val_sub _ _ _ _ Vl Vm ltac:(lia)) as V1.
  replace (2 * (i - w) + 1 - 2 * (q * (2 * w))) with (2 * m + 1) in V1 by lia.
  pose proof (val_sub _ _ _ _ V1 Vw ltac:(lia)) as V3.
  pose proof (val_abs _ _ V3) as V4.
  fold vl. fold p.
  replace (2 * reflZ i w + 1) with (Z.abs (2 * m + 1 - 2 * w)); [exact V4|].
  (* m = (i - w) mod 2w = ((i mod 2w) + w) mod 2w *)
  unfold reflZ. cbv zeta. pose proof (Z.mod_pos_bound i (2 * w) ltac:(lia)) as JB. set (j := i mod (2 * w)) in *.
  assert (Mj : m = if j <? w then j + w else j - w).
  { unfold m. replace (i - w) with (i + (-1) * w) by lia.
    pose proof (Z.div_mod i (2 * w) ltac:(lia)) as Di. fold j in Di.
    destruct (Z.ltb_spec j w).
    - symmetry. apply Z.mod_unique with (i / (2 * w) - 1); lia.
    - symmetry. apply Z.mod_unique with (i / (2 * w)); lia. }
  rewrite Mj. destruct (Z.ltb_spec j w); lia.
Qed.

(* THE reflect statement *)
Theorem nearest_translate_reflect b w h tx ty dx lane dy :
  1 <= w <= 16384 -> 1 <= h <= 16384 -> Z.abs tx < 990000 -> Z.abs ty < 990000 ->
  0 <= dx < 990000 -> 0 <= lane <= 7 -> 0 <= dy < 990000 ->
  nearest_ix b 1 w h (F32.of_Z tx) (F32.of_Z ty) dx lane dy = reflZ (dy - ty) h * w + reflZ (dx + lane - tx) w.
Proof.
  intros Hw Hh Htx Hty Hdx Hl Hdy. unfold nearest_ix.
  pose proof (val_of_Z tx ltac:(lia)) as Vtx. pose proof (val_of_Z ty ltac:(lia)) as Vty.
  pose proof (val_seed_x dx lane ltac:(lia) Hl) as Vx. pose proof (val_seed_y dy ltac:(lia)) as Vy.
  rewrite (eq_zero_val _ _ Vtx), (eq_zero_val _ _ Vty).
  assert (G : forall x y, val x (2 * (dx + lane - tx) + 1) -> val y (2 * (dy - ty) + 1) ->
              gather_ix (excl_reflect b x (F32.of_Z w) (F32.div F32.one (F32.of_Z w)))
                        (excl_reflect b y (F32.of_Z h) (F32.div F32.one (F32.of_Z h))) w h
              = reflZ (dy - ty) h * w + reflZ (dx + lane - tx) w).
  { intros x y Ax Ay. unfold gather_ix.
    pose proof (excl_reflect_centre b x (dx + lane - tx) w Hw ltac:(lia) Ax) as Rx.
    pose proof (excl_reflect_centre b y (dy - ty) h Hh ltac:(lia) Ay) as Ry.
    rewrite (gather_coord_centre _ _ w Hw (reflZ_range _ w ltac:(lia)) Rx), (gather_coord_centre _ _ h Hh (reflZ_range _ h ltac:(lia)) Ry). reflexivity. }
  destruct ((2 * tx =? 0) && (2 * ty =? 0)) eqn:Z0.
  - apply andb_true_iff in Z0. destruct Z0 as (Z1 & Z2). apply Z.eqb_eq in Z1, Z2.
    replace (dx + lane - tx) with (dx + lane) in * by lia. replace (dy - ty) with dy in * by lia. apply G; assumption.
  - unfold stage_transform, inv_translate. cbn [t_sx t_ky t_kx t_sy t_tx t_ty].
    pose proof (val_neg _ _ Vtx) as Ntx. pose proof (val_neg _ _ Vty) as Nty.
    apply G.
    + pose proof (val_mad (seed_y dy) F32.zero (F32.neg (F32.of_Z tx)) (2 * dy + 1) 0 (- (2 * tx)) Vy val_zero Ntx ltac:(lia) ltac:(lia)) as M1.
      pose proof (val_mad (seed_x dx lane) F32.one _ (2 * (dx + lane) + 1) 1 _ Vx val_one M1 ltac:(lia) ltac:(lia)) as M2.
      replace (2 * (dx + lane - tx) + 1) with ((2 * (dx + lane) + 1) * 1 + ((2 * dy + 1) * 0 + - (2 * tx))) by lia. exact M2.
    + pose proof (val_mad (seed_y dy) F32.one (F32.neg (F32.of_Z ty)) (2 * dy + 1) 1 (- (2 * ty)) Vy val_one Nty ltac:(lia) ltac:(lia)) as M1.
      pose proof (val_mad (seed_x dx lane) F32.zero _ (2 * (dx + lane) + 1) 0 _ Vx val_zero M1 ltac:(lia) ltac:(lia)) as M2.
      replace (2 * (dy - ty) + 1) with ((2 * (dx + lane) + 1) * 0 + ((2 * dy + 1) * 1 + - (2 * ty))) by lia. exact M2.
Qed.
