(* shard 1 of the finite checks of Proofs/PngProofs.v: alpha in [32, 64) *)
From Coq Require Import ZArith Bool List.
From TS Require Import Base.F32 Model.Pixel Model.Png Proofs.PngDefs.
Local Open Scope Z_scope.
Lemma png_shard1_ok : forallb alpha_ok (zrange 32 32) = true.
Proof. vm_compute. reflexivity. Qed.
