(* C02: the list algorithms of the scan converter keep the active edges sorted by x and never lose or duplicate an edge.
   ripple = backward_insert_edge_based_on_x, insert_new_edges with its backward scan and forward merge (src/scan/path.rs). *)
From Coq Require Import ZArith Bool List Lia Permutation.
From TS Require Import Base.F32 Model.Rect Model.PathBuilder Model.Edge Model.Walk Proofs.WalkProofs.
Import ListNotations.
Local Open Scope Z_scope.

Fixpoint asc (l : list ledge) : Prop :=
  match l with [] => True | a :: r => (forall b, In b r -> e_x a <= e_x b) /\ asc r end.
Fixpoint desc (l : list ledge) : Prop :=
  match l with [] => True | a :: r => (forall b, In b r -> e_x b <= e_x a) /\ desc r end.

Lemma asc_app a b : asc (a ++ b) <-> asc a /\ asc b /\ (forall x y, In x a -> In y b -> e_x x <= e_x y).
Proof.
  induction a as [|h t IH]; cbn [app asc].
  - split; [intros H; repeat split; auto; intros x y []| intros (_ & H & _); exact H].
  - rewrite IH. split.
    + intros (H1 & H2 & H3 & H4). repeat split; auto.
      * intros c Hc. apply H1. apply in_or_app. left. exact Hc.
      * intros x y [<- | Hx] Hy; [apply H1; apply in_or_app; right; exact Hy | apply H4; assumption].
    + intros ((H1 & H2) & H3 & H4). repeat split; auto.
      * intros c Hc. apply in_app_or in Hc. destruct Hc as [Hc | Hc]; [apply H1; exact Hc | apply H4; [left; reflexivity | exact Hc]].
      * intros x y Hx Hy. apply H4; [right; exact Hx | exact Hy].
Qed.

Lemma desc_rev l : desc l <-> asc (rev l).
Proof.
  induction l as [|h t IH]; cbn [rev desc]; [tauto|].
  rewrite asc_app, <- IH. cbn [asc]. split.
  - intros (H1 & H2). repeat split; auto; [intros b []|]. intros x y Hx [<- | []]. apply H1. apply in_rev. exact Hx.
  - intros (H1 & _ & H3). split; [|exact H1]. intros b Hb. apply H3; [apply in_rev in Hb; exact Hb | left; reflexivity].
Qed.

(* ---- ripple ------------------------------------------------------------------------------------------------------------- *)
Lemma ripple_perm e : forall rd, Permutation (ripple rd e) (e :: rd).
Proof.
  induction rd as [|p r IH]; cbn [ripple]; [reflexivity|].
  destruct (e_x e <? e_x p); [|reflexivity]. rewrite IH. apply perm_swap.
Qed.

Lemma ripple_desc e : forall rd, desc rd -> desc (ripple rd e).
Proof.
  induction rd as [|p r IH]; intros H; cbn [ripple desc] in *; [split; [intros b []|exact I]|].
  destruct H as (H1 & H2). destruct (e_x e <? e_x p) eqn:E.
  - apply Z.ltb_lt in E. cbn [desc]. split; [|apply IH; exact H2].
    intros b Hb. apply (Permutation_in _ (ripple_perm e r)) in Hb. destruct Hb as [<- | Hb]; [lia | apply H1; exact Hb].
  - apply Z.ltb_ge in E. cbn [desc]. split; [|split; assumption].
    intros b [<- | Hb]; [exact E | specialize (H1 b Hb); lia].
Qed.

(* ---- one row: the processed list ------------------------------------------------------------------------------------------ *)
Definition advance (e : ledge) : ledge := mkedge (e_x e + e_dx e) (e_dx e) (e_first_y e) (e_last_y e) (e_winding e).
Definition survivors (act : list ledge) (y : Z) : list ledge :=
  map advance (filter (fun e => negb (e_last_y e =? y)) act).

Lemma walk_row_done act : forall y evenodd w lft prev_x rd spans w' lft' rd' spans',
  walk_row act y evenodd w lft prev_x rd spans = Some (w', lft', rd', spans') ->
  desc rd -> (forall p, In p rd -> e_x p <= prev_x) ->
  desc rd' /\ Permutation rd' (survivors act y ++ rd).
Proof.
  induction act as [|e rest IH]; intros y evenodd w lft prev_x rd spans w' lft' rd' spans' H D B.
  - cbn in H. inversion H; subst. split; [exact D | reflexivity].
  - cbn [walk_row] in H. unfold bind in H.
    destruct (fdot16_round_to_i32 (e_x e)) as [x0|]; [|discriminate].
    destruct (if masked (w + e_winding e) evenodd then Some spans else _) as [spans1|]; [|discriminate].
    unfold survivors. cbn [filter].
    destruct (e_last_y e =? y) eqn:L; cbn [negb map].
    + exact (IH _ _ _ _ _ _ _ _ _ _ _ H D B).
    + destruct (ck (e_x e + e_dx e)) as [nx|] eqn:CK; [|discriminate].
      assert (Enx : nx = e_x e + e_dx e) by (unfold ck in CK; destruct (in32 _); inversion CK; reflexivity).
      assert (Eadv : mkedge nx (e_dx e) (e_first_y e) (e_last_y e) (e_winding e) = advance e) by (unfold advance; rewrite Enx; reflexivity).
      rewrite Eadv in H.
      destruct (nx <? prev_x) eqn:LT.
      * apply Z.ltb_lt in LT.
        destruct (IH _ _ _ _ _ _ _ _ _ _ _ H (ripple_desc _ _ D)) as (D' & P').
        { intros p Hp. apply (Permutation_in _ (ripple_perm _ _)) in Hp. destruct Hp as [<- | Hp]; [cbn; lia | apply B; exact Hp]. }
        split; [exact D'|]. rewrite P'. fold (survivors rest y). rewrite (ripple_perm (advance e) rd).
        cbn [app]. symmetry. apply Permutation_middle.
      * apply Z.ltb_ge in LT.
        destruct (IH _ _ _ _ _ _ _ _ _ _ _ H) as (D' & P').
        { cbn [desc]. split; [|exact D]. intros b Hb. specialize (B b Hb). cbn. lia. }
        { intros p [<- | Hp]; [cbn; lia | specialize (B p Hp); lia]. }
        split; [exact D'|]. rewrite P'. fold (survivors rest y). cbn [app]. symmetry. apply Permutation_middle.
Qed.

(* ---- insert_new_edges ----------------------------------------------------------------------------------------------------- *)
Lemma split_back_spec x : forall r sk srev after,
  split_back r x sk = (srev, after) ->
  rev srev ++ after = rev r ++ sk /\
  (forall a, In a after -> In a sk \/ x < e_x a) /\
  (match srev with [] => True | p :: _ => e_x p <= x end) /\
  (forall a, In a srev -> In a r).
Proof.
  induction r as [|p r IH]; intros sk srev after H; cbn [split_back] in H.
  - inversion H; subst. cbn. repeat split; auto; try (intros a []).
  - destruct (e_x p <=? x) eqn:E.
    + inversion H; subst. apply Z.leb_le in E. repeat split; auto.
    + apply Z.leb_gt in E. destruct (IH _ _ _ H) as (A & B & C & D). repeat split.
      * rewrite A. cbn [rev]. rewrite <- app_assoc. reflexivity.
      * intros a Ha. destruct (B a Ha) as [[<- | Hs] | Hx]; auto.
      * exact C.
      * intros a Ha. right. apply D. exact Ha.
Qed.

Lemma forward_insert_spec e : forall after passed remaining,
  forward_insert after e = (passed, remaining) ->
  after = passed ++ remaining /\ (forall a, In a passed -> e_x a < e_x e) /\
  (match remaining with [] => True | a :: _ => e_x e <= e_x a end).
Proof.
  induction after as [|a r IH]; intros passed remaining H; cbn [forward_insert] in H.
  - inversion H; subst. repeat split; auto. intros a [].
  - destruct (e_x e <=? e_x a) eqn:E.
    + inversion H; subst. apply Z.leb_le in E. repeat split; auto. intros b [].
    + apply Z.leb_gt in E. destruct (forward_insert r e) as [p q] eqn:F. inversion H; subst.
      destruct (IH _ _ eq_refl) as (A & B & C). repeat split.
      * cbn [app]. rewrite <- A. reflexivity.
      * intros b [<- | Hb]; [lia | apply B; exact Hb].
      * exact C.
Qed.

Lemma insert_block_spec : forall news srev after,
  asc (rev srev ++ after) -> asc news ->
  (forall s n, In s srev -> In n news -> e_x s <= e_x n) ->
  asc (insert_block srev after news) /\ Permutation (insert_block srev after news) (rev srev ++ after ++ news).
Proof.
  induction news as [|e r IH]; intros srev after A N B; cbn [insert_block].
  - rewrite app_nil_r. split; [exact A | reflexivity].
  - unfold insert_one. destruct (forward_insert after e) as [passed remaining] eqn:F.
    destruct (forward_insert_spec e _ _ _ F) as (E1 & E2 & E3). subst after.
    cbn [asc] in N. destruct N as (N1 & N2).
    apply asc_app in A. destruct A as (A1 & A2 & A3). apply asc_app in A2. destruct A2 as (A2 & A4 & A5).
    destruct (IH (e :: rev passed ++ srev) remaining) as (R1 & R2).
    + (* asc (rev (e :: rev passed ++ srev) ++ remaining) = asc (rev srev ++ passed ++ [e] ++ remaining) *)
      cbn [rev]. rewrite rev_app_distr, rev_involutive, <- !app_assoc. cbn [app].
      apply asc_app. split; [exact A1|]. split.
      * apply asc_app. split; [exact A2|]. split.
        -- cbn [asc]. split; [|exact A4]. intros b Hb. destruct remaining as [|a0 rm]; [destruct Hb|].
           destruct Hb as [<- | Hb]; [exact E3|]. cbn [asc] in A4. destruct A4 as (A4 & _). specialize (A4 b Hb). lia.
        -- intros x y Hx [<- | Hy]; [specialize (E2 x Hx); lia | apply A5; assumption].
      * intros x y Hx Hy. apply in_app_or in Hy. destruct Hy as [Hy | [<- | Hy]].
        -- apply A3; [exact Hx | apply in_or_app; left; exact Hy].
        -- apply B; [apply in_rev; exact Hx | left; reflexivity].
        -- apply A3; [exact Hx | apply in_or_app; right; exact Hy].
    + exact N2.
    + intros s n Hs Hn. specialize (N1 n Hn). destruct Hs as [<- | Hs]; [exact N1|].
      apply in_app_or in Hs. destruct Hs as [Hs | Hs].
      * apply in_rev in Hs. specialize (E2 s Hs). lia.
      * specialize (B s e Hs (or_introl eq_refl)). lia.
    + split; [exact R1|]. rewrite R2. cbn [rev]. rewrite rev_app_distr, rev_involutive, <- !app_assoc. cbn [app].
      apply Permutation_app_head. apply Permutation_app_head. apply Permutation_middle.
Qed.

Theorem insert_new_edges_spec act news :
  asc act -> asc news ->
  asc (insert_new_edges act news) /\ Permutation (insert_new_edges act news) (act ++ news).
Proof.
  intros A N. unfold insert_new_edges. destruct news as [|e r] eqn:En; [rewrite app_nil_r; split; [exact A | reflexivity]|].
  rewrite <- En in *. assert (He : In e news) by (rewrite En; left; reflexivity).
  assert (Hmin : forall n, In n news -> e_x e <= e_x n).
  { intros n Hn. rewrite En in Hn, N. destruct Hn as [<- | Hn]; [lia|]. cbn [asc] in N. apply N. exact Hn. }
  destruct (rev act) as [|lastp ra] eqn:R.
  - assert (act = []) by (destruct act; [reflexivity | cbn in R; apply app_eq_nil in R; destruct R; discriminate]). subst act.
    cbn [app]. split; [exact N | reflexivity].
  - destruct (e_x lastp <=? e_x e) eqn:L.
    + apply Z.leb_le in L. split; [|reflexivity]. apply asc_app. split; [exact A|]. split; [exact N|].
      intros x y Hx Hy. specialize (Hmin y Hy).
      assert (e_x x <= e_x lastp).
      { apply desc_rev in A || idtac. assert (D : desc (rev act)) by (apply desc_rev; rewrite rev_involutive; exact A).
        rewrite R in D. cbn [desc] in D. destruct D as (D & _). apply in_rev in Hx. rewrite R in Hx. destruct Hx as [<- | Hx]; [lia | apply D; exact Hx]. }
      lia.
    + destruct (split_back (lastp :: ra) (e_x e) []) as [srev after] eqn:SB.
      destruct (split_back_spec _ _ _ _ _ SB) as (S1 & S2 & S3 & S4).
      rewrite app_nil_r in S1. rewrite <- R, rev_involutive in S1.
      destruct (insert_block_spec news srev after) as (R1 & R2).
      * rewrite S1. exact A.
      * exact N.
      * intros s n Hs Hn. specialize (Hmin n Hn).
        assert (e_x s <= e_x e).
        { destruct srev as [|p sr]; [destruct Hs|]. destruct Hs as [<- | Hs]; [exact S3|].
          (* s is deeper in the reversed prefix: s <= p by sortedness of act *)
          assert (D : desc (p :: sr)).
          { apply desc_rev. assert (A' : asc (rev (p :: sr) ++ after)) by (rewrite S1; exact A). apply asc_app in A'. apply A'. }
          cbn [desc] in D. destruct D as (D & _). specialize (D s Hs). lia. }
        lia.
      * split; [exact R1|]. rewrite R2, app_assoc, S1. reflexivity.
Qed.
