(* The row runner (batches of STAGE_WIDTH lanes + one tail batch) is a per-pixel map inside the
   rect and the identity outside it (C04, C09).  List reasoning: closed under the global context. *)
From Coq Require Import ZArith Bool List Lia.
From TS Require Import Base.F32 Model.Pixel.
Import ListNotations.

Definition lane_out (f : lane_fn) (i : lin) : px :=
  match f i with Some (Some p) => p | _ => in_dst i end.

Lemma update_batch_map f l out : update_batch f l = Some out -> out = map (lane_out f) l.
Proof.
  revert out. induction l as [|i l IH]; simpl; intros out H.
  - inversion H. reflexivity.
  - unfold lane_out at 1. destruct (f i) as [o|]; [|discriminate].
    destruct (update_batch f l) as [r|]; [|discriminate]. inversion H; subst.
    rewrite (IH r eq_refl). destruct o; reflexivity.
Qed.

(* each output pixel is the lane function of its own inputs, or (masked batch) untouched *)
Definition pix_ok (f : lane_fn) (hm : bool) (i : lin) (o : px) : Prop :=
  o = lane_out f i \/ (hm = true /\ in_mask i = 0%Z /\ o = in_dst i).

Lemma run_batch_ok f hm l out : run_batch f hm l = Some out -> Forall2 (pix_ok f hm) l out.
Proof.
  unfold run_batch. destruct (hm && forallb (fun i => (in_mask i =? 0)%Z) l) eqn:E.
  - intros H. inversion H; subst. apply andb_prop in E. destruct E as [-> E].
    rewrite forallb_forall in E. clear H.
    induction l as [|i l IH]; simpl; constructor.
    + right. repeat split. apply Z.eqb_eq, E. left. reflexivity.
    + apply IH. intros x Hx. apply E. right. exact Hx.
  - intros H. apply update_batch_map in H. subst. clear E.
    induction l; simpl; constructor; auto. left. reflexivity.
Qed.

Lemma Forall2_app_inv_firstn {A B} (R : A -> B -> Prop) n l a b :
  Forall2 R (firstn n l) a -> Forall2 R (skipn n l) b -> Forall2 R l (a ++ b).
Proof. intros H1 H2. rewrite <- (firstn_skipn n l). apply Forall2_app; assumption. Qed.

Lemma run_batches_ok fuel f hm w : forall l out,
  run_batches fuel f hm w l = Some out -> (w > 0)%nat -> (length l <= fuel)%nat ->
  Forall2 (pix_ok f hm) l out.
Proof.
  induction fuel as [|fuel IH]; intros l out H Hw Hl.
  - destruct l; [|simpl in Hl; lia]. simpl in H. inversion H. constructor.
  - simpl in H. destruct l as [|i l]; [inversion H; constructor|].
    destruct (run_batch f hm (firstn w (i :: l))) as [a|] eqn:A; [|discriminate].
    destruct (run_batches fuel f hm w (skipn w (i :: l))) as [b|] eqn:B; [|discriminate].
    inversion H; subst.
    apply (Forall2_app_inv_firstn _ w).
    + apply run_batch_ok, A.
    + apply IH with (l := skipn w (i :: l)); auto.
      rewrite skipn_length. cbn [length] in *. lia.
Qed.

Definition frame_ok (i : lin) (o : px) : Prop := o = in_dst i.

Lemma Forall2_map_dst l : Forall2 frame_ok l (map in_dst l).
Proof. induction l; simpl; constructor; auto. reflexivity. Qed.

(* The property: pixels before x0 and from x0+len on are bit-identical; pixels inside are the
   per-pixel lane function of their own inputs (or untouched under an all-zero mask batch),
   whatever x0, len, the batch width and the other pixels are. *)
Theorem run_row_spec f hm w x0 len row out :
  (w > 0)%nat -> run_row f hm w x0 len row = Some out ->
  exists a m b, out = a ++ m ++ b /\
    Forall2 frame_ok (firstn x0 row) a /\
    Forall2 (pix_ok f hm) (firstn len (skipn x0 row)) m /\
    Forall2 frame_ok (skipn (x0 + len) row) b.
Proof.
  intros Hw H. unfold run_row in H.
  destruct (run_batches _ f hm w _) as [m|] eqn:M; [|discriminate]. inversion H; subst.
  exists (map in_dst (firstn x0 row)), m, (map in_dst (skipn (x0 + len) row)).
  repeat split; try apply Forall2_map_dst.
  eapply run_batches_ok; eauto.
Qed.

Lemma F2_length {A B} (R : A -> B -> Prop) l l' : Forall2 R l l' -> length l = length l'.
Proof. induction 1; simpl; congruence. Qed.

Corollary run_row_length f hm w x0 len row out :
  (w > 0)%nat -> run_row f hm w x0 len row = Some out -> length out = length row.
Proof.
  intros Hw H. destruct (run_row_spec _ _ _ _ _ _ _ Hw H) as (a & m & b & -> & A & M & B).
  apply F2_length in A, M, B. rewrite !app_length, <- A, <- M, <- B.
  rewrite !firstn_length, !skipn_length. lia.
Qed.

(* without a clip mask the inside pixels are exactly the lane function: shifting the span,
   lengthening it or changing other pixels cannot change a pixel's result *)
Corollary run_row_is_map f w x0 len row out :
  (w > 0)%nat -> run_row f false w x0 len row = Some out ->
  out = map in_dst (firstn x0 row) ++ map (lane_out f) (firstn len (skipn x0 row))
        ++ map in_dst (skipn (x0 + len) row).
Proof.
  intros Hw H. destruct (run_row_spec _ _ _ _ _ _ _ Hw H) as (a & m & b & -> & A & M & B).
  assert (EA : forall l o, Forall2 frame_ok l o -> o = map in_dst l).
  { induction 1; simpl; congruence. }
  assert (EM : forall l o, Forall2 (pix_ok f false) l o -> o = map (lane_out f) l).
  { induction 1 as [|i o l' o' [E | (E & _)]]; simpl; try congruence; try discriminate. }
  rewrite (EA _ _ A), (EA _ _ B), (EM _ _ M). reflexivity.
Qed.

Lemma In_firstn_in {A} n (l : list A) x : In x (firstn n l) -> In x l.
Proof. revert l. induction n; intros [|a l]; simpl; auto; try tauto. intros [->|H]; auto. Qed.
Lemma In_skipn_in {A} n (l : list A) x : In x (skipn n l) -> In x l.
Proof. revert l. induction n; intros [|a l]; simpl; auto; try tauto. Qed.

(* ---- invariants lifted from lanes to rows and to draw histories (C12) -------------------- *)
Lemma run_row_invariant (P : px -> Prop) f hm w x0 len row out :
  (w > 0)%nat ->
  (forall i, P (in_dst i) -> P (lane_out f i)) ->
  Forall (fun i => P (in_dst i)) row ->
  run_row f hm w x0 len row = Some out -> Forall P out.
Proof.
  intros Hw Hf Hrow H.
  destruct (run_row_spec _ _ _ _ _ _ _ Hw H) as (a & m & b & -> & A & M & B).
  assert (Hsub : forall l, (forall x, In x l -> In x row) -> Forall (fun i => P (in_dst i)) l).
  { intros l Hl. apply Forall_forall. intros x Hx. rewrite Forall_forall in Hrow. apply Hrow, Hl, Hx. }
  assert (FA : forall l o, Forall (fun i => P (in_dst i)) l -> Forall2 frame_ok l o -> Forall P o).
  { intros l o Hl F2. induction F2 as [|i p l' o' E]; constructor; inversion Hl; subst; auto.
    unfold frame_ok in E. subst. assumption. }
  assert (FM : forall l o, Forall (fun i => P (in_dst i)) l -> Forall2 (pix_ok f hm) l o -> Forall P o).
  { intros l o Hl F2. induction F2 as [|i p l' o' E]; constructor; inversion Hl; subst; auto.
    destruct E as [-> | (_ & _ & ->)]; auto. }
  apply Forall_app. split; [|apply Forall_app; split].
  - eapply FA; [|exact A]. apply Hsub. intros x Hx. eapply (In_firstn_in _ _ _ Hx).
  - eapply FM; [|exact M]. apply Hsub. intros x Hx. apply In_firstn_in in Hx. eapply In_skipn_in, Hx.
  - eapply FA; [|exact B]. apply Hsub. intros x Hx. eapply In_skipn_in, Hx.
Qed.
