(* C13: the portable rounding of f32x4::round (scalar fallback and SSE2: exponent tests, x + 2^23 - 2^23, sign restored)
   equals ROUNDPS (round to nearest, ties to even) on EVERY binary32 value except -0.5, where it returns +0 instead of -0.
   This discharges the hypothesis [round_ok] of the C13 rounding theorems for all inputs but one. *)
From Coq Require Import ZArith Bool List Lia Reals Lra Psatz.
From Flocq Require IEEE754.Binary IEEE754.Bits.
From Flocq Require Import Core.Zaux Core.Raux Core.Defs Core.Generic_fmt Core.FLT Core.FIX Core.Float_prop Core.Round_pred Core.Round_NE
  IEEE754.BinarySingleNaN.
From TS Require Import Base.F32 Model.WideBackends Proofs.RectPoints Proofs.WideProofs.
Import ListNotations.
Local Open Scope Z_scope.

Notation fexp32 := (SpecFloat.fexp 24 128).
Notation rnd := (round radix2 fexp32 (round_mode mode_NE)).

(* ---- the exponent field and the sign bit of a finite value -------------------------------------------------------------- *)
Lemma join_bits_fields (s : bool) m e : 0 <= m < 2 ^ 23 -> 0 <= e < 2 ^ 8 ->
  Z.land (Z.shiftr (Bits.join_bits 23 8 s m e) 23) 255 = e /\ (2147483648 <=? Bits.join_bits 23 8 s m e) = s.
Proof.
  intros Hm He. unfold Bits.join_bits. rewrite Z.shiftl_mul_pow2 by lia. rewrite Z.shiftr_div_pow2 by lia.
  set (a := (if s then 2 ^ 8 else 0) + e).
  assert (D : (a * 2 ^ 23 + m) / 2 ^ 23 = a) by (rewrite Z.div_add_l by lia; rewrite Z.div_small by lia; lia).
  rewrite D. change 255 with (Z.ones 8). rewrite Z.land_ones by lia. split.
  - unfold a. destruct s.
    + replace (2 ^ 8 + e) with (e + 1 * 2 ^ 8) by lia. rewrite Z.mod_add by lia. apply Z.mod_small. lia.
    + rewrite Z.add_0_l. apply Z.mod_small. lia.
  - unfold a. destruct s; [apply Z.leb_le | apply Z.leb_gt]; change (2 ^ 8) with 256 in *; change (2 ^ 23) with 8388608 in *; lia.
Qed.

Lemma bounded_ranges m e : SpecFloat.bounded 24 128 m e = true ->
  Zpos m < 2 ^ 24 /\ -149 <= e <= 104 /\ (Zpos m < 2 ^ 23 -> e = -149).
Proof.
  unfold SpecFloat.bounded, SpecFloat.canonical_mantissa. intros H. apply andb_true_iff in H. destruct H as (H1 & H2).
  apply Zeq_bool_eq in H1. apply Z.leb_le in H2. rewrite Digits.Zpos_digits2_pos in H1.
  pose proof (Digits.Zdigits_correct radix2 (Zpos m)) as D. set (d := Digits.Zdigits radix2 (Z.pos m)) in *.
  rewrite Z.abs_eq in D by lia. change (radix_val radix2) with 2 in D.
  unfold SpecFloat.fexp, SpecFloat.emin in H1.
  assert (Hd : d <= 24) by lia.
  split; [|split; [lia|]].
  - apply Z.lt_le_trans with (2 ^ d); [lia|]. apply Z.pow_le_mono_r; lia.
  - intros Hm. destruct (Z_le_gt_dec 24 d) as [Ge | Lt]; [|lia].
    assert (2 ^ 23 <= 2 ^ (d - 1)) by (apply Z.pow_le_mono_r; lia). lia.
Qed.

Notation Bf := (@B754_finite 24 128).

Lemma finite_fields s m e H :
  sign_bit (Bf s m e H) = s /\
  exp_bits (Bf s m e H) = (if 8388608 <=? Zpos m then e + 150 else 0).
Proof.
  destruct (bounded_ranges m e H) as (Hm & He & Hs).
  unfold sign_bit, exp_bits, F32.to_bits, Bits.bits_of_b32, Binary.BSN2B, Bits.bits_of_binary_float.
  change (2 ^ 23) with 8388608 in *. change (2 ^ 24) with 16777216 in *.
  cbv zeta. destruct (Zle_bool 0 (Z.pos m - 8388608)) eqn:N.
  - apply Zle_bool_imp_le in N. destruct (Z.leb_spec 8388608 (Zpos m)) as [_ | Lt]; [|lia].
    replace (e - SpecFloat.emin (23 + 1) (2 ^ (8 - 1)) + 1) with (e + 150) by (unfold SpecFloat.emin; change (2 ^ (8 - 1)) with 128; lia).
    destruct (join_bits_fields s (Z.pos m - 8388608) (e + 150) ltac:(change (2 ^ 23) with 8388608; lia) ltac:(change (2 ^ 8) with 256; lia)) as (A & B).
    split; assumption.
  - apply Z.leb_gt in N. destruct (Z.leb_spec 8388608 (Zpos m)) as [Ge | _]; [lia|].
    destruct (join_bits_fields s (Z.pos m) 0 ltac:(change (2 ^ 23) with 8388608; lia) ltac:(change (2 ^ 8) with 256; lia)) as (A & B).
    split; assumption.
Qed.

(* ---- what the exponent tests say about the value ------------------------------------------------------------------------- *)
Lemma Rabs_finite s m e H : Rabs (R32 (Bf s m e H)) = (IZR (Zpos m) * bpow radix2 e)%R.
Proof.
  unfold B2R, F2R. cbn [Fnum Fexp]. rewrite Rabs_mult, (Rabs_pos_eq (bpow radix2 e)) by apply bpow_ge_0.
  rewrite <- abs_IZR. destruct s; cbn [cond_Zopp]; rewrite ?Z.abs_opp, Z.abs_eq by lia; reflexivity.
Qed.

Lemma region_small s m e H : exp_bits (Bf s m e H) < 126 -> (Rabs (R32 (Bf s m e H)) < / 2)%R.
Proof.
  destruct (bounded_ranges m e H) as (Hm & He & Hs). rewrite (proj2 (finite_fields s m e H)), Rabs_finite.
  change (2 ^ 23) with 8388608 in *. change (2 ^ 24) with 16777216 in *. change (/ 2)%R with (bpow radix2 (-1)).
  pose proof (bpow_gt_0 radix2 e) as P.
  destruct (Z.leb_spec 8388608 (Zpos m)) as [Ge | Lt]; intros E.
  - apply Rlt_le_trans with (bpow radix2 24 * bpow radix2 e)%R.
    + apply Rmult_lt_compat_r; [exact P|]. change (bpow radix2 24) with (IZR 16777216). apply IZR_lt. lia.
    + rewrite <- bpow_plus. apply bpow_le. lia.
  - rewrite (Hs Lt). apply Rlt_le_trans with (bpow radix2 23 * bpow radix2 (-149))%R.
    + apply Rmult_lt_compat_r; [apply bpow_gt_0|]. change (bpow radix2 23) with (IZR 8388608). apply IZR_lt. lia.
    + rewrite <- bpow_plus. apply bpow_le. lia.
Qed.

Lemma region_big s m e H : 150 <= exp_bits (Bf s m e H) -> exists n, R32 (Bf s m e H) = IZR n.
Proof.
  rewrite (proj2 (finite_fields s m e H)). destruct (Z.leb_spec 8388608 (Zpos m)) as [Ge | Lt]; intros E; [|lia].
  exists (cond_Zopp s (Zpos m) * 2 ^ e). unfold B2R, F2R. cbn [Fnum Fexp]. rewrite mult_IZR. f_equal.
  rewrite (IZR_Zpower radix2) by lia. reflexivity.
Qed.

Lemma region_mid s m e H : 126 <= exp_bits (Bf s m e H) < 150 ->
  (/ 2 <= Rabs (R32 (Bf s m e H)) < 8388608)%R.
Proof.
  destruct (bounded_ranges m e H) as (Hm & He & Hs). rewrite (proj2 (finite_fields s m e H)), Rabs_finite.
  change (2 ^ 23) with 8388608 in *. change (2 ^ 24) with 16777216 in *. change (/ 2)%R with (bpow radix2 (-1)).
  pose proof (bpow_gt_0 radix2 e) as P.
  destruct (Z.leb_spec 8388608 (Zpos m)) as [Ge | Lt]; intros E; [|lia]. split.
  - apply Rle_trans with (bpow radix2 23 * bpow radix2 e)%R.
    + rewrite <- bpow_plus. apply bpow_le. lia.
    + apply Rmult_le_compat_r; [lra|]. change (bpow radix2 23) with (IZR 8388608). apply IZR_le. lia.
  - apply Rlt_le_trans with (bpow radix2 24 * bpow radix2 e)%R.
    + apply Rmult_lt_compat_r; [exact P|]. change (bpow radix2 24) with (IZR 16777216). apply IZR_lt. lia.
    + rewrite <- bpow_plus. change 8388608%R with (bpow radix2 23). apply bpow_le. lia.
Qed.

(* ---- real-number tools ----------------------------------------------------------------------------------------------------- *)
Lemma Zfloor_add x k : Zfloor (x + IZR k) = Zfloor x + k.
Proof.
  apply Zfloor_imp. rewrite !plus_IZR. pose proof (Zfloor_lb x). pose proof (Zfloor_ub x). simpl (IZR 1). lra.
Qed.
Lemma Zceil_add x k : Zceil (x + IZR k) = Zceil x + k.
Proof.
  unfold Zceil. replace (- (x + IZR k))%R with (- x + IZR (- k))%R by (rewrite opp_IZR; ring). rewrite Zfloor_add. lia.
Qed.

Lemma ZnearestE_add_even x k : Z.even k = true -> ZnearestE (x + IZR k) = ZnearestE x + k.
Proof.
  intros Ek. unfold ZnearestE, Znearest. rewrite Zfloor_add, Zceil_add.
  replace (x + IZR k - IZR (Zfloor x + k))%R with (x - IZR (Zfloor x))%R by (rewrite plus_IZR; ring).
  rewrite Z.even_add, Ek. destruct (Z.even (Zfloor x)); cbn [Bool.eqb negb]; destruct (Rcompare _ _); reflexivity.
Qed.

Lemma format_int n : Z.abs n <= 16777216 -> generic_format radix2 fexp32 (IZR n).
Proof.
  intros H. apply (generic_format_FLT radix2 (-149) 24).
  destruct (Z.eq_dec (Z.abs n) 16777216) as [E | NE].
  - apply (FLT_spec radix2 (-149) 24 _ (Float radix2 (n / 2) 1)).
    + unfold F2R. cbn [Fnum Fexp]. change (bpow radix2 1) with 2%R. rewrite <- mult_IZR. f_equal.
      assert (n mod 2 = 0) by (destruct (Z.abs_spec n) as [(_ & A) | (_ & A)]; rewrite A in E; [subst n; reflexivity | replace n with (-16777216) by lia; reflexivity]).
      pose proof (Z.div_mod n 2 ltac:(lia)). lia.
    + cbn [Fnum]. change (Z.abs (n / 2) < 16777216). destruct (Z.abs_spec n) as [(_ & A) | (_ & A)]; rewrite A in E;
        [subst n | replace n with (-16777216) by lia]; vm_compute; reflexivity.
    + cbn [Fexp]. lia.
  - apply (FLT_spec radix2 (-149) 24 _ (Float radix2 n 0)).
    + unfold F2R. cbn [Fnum Fexp]. change (bpow radix2 0) with 1%R. ring.
    + cbn [Fnum]. change (Z.abs n < 16777216). lia.
    + cbn [Fexp]. lia.
Qed.

Lemma int_lt_emax n : Z.abs n <= 16777216 -> (Rabs (IZR n) < bpow radix2 128)%R.
Proof.
  intros H. rewrite <- abs_IZR. apply Rle_lt_trans with (IZR 16777216); [apply IZR_le; exact H|].
  change (IZR 16777216) with (bpow radix2 24). apply bpow_lt. lia.
Qed.

(* rounding to binary32 between 2^23 and 2^24 is rounding to an integer *)
Lemma rnd_int_range v : (8388608 <= v < 16777216)%R -> rnd v = IZR (ZnearestE v).
Proof.
  intros Hv. unfold round, scaled_mantissa, cexp.
  assert (M : mag radix2 v = 24 :> Z).
  { apply mag_unique. rewrite Rabs_pos_eq by lra. change (bpow radix2 (24 - 1)) with 8388608%R. change (bpow radix2 24) with 16777216%R. exact Hv. }
  rewrite M. change (fexp32 24) with 0. cbn [Z.opp bpow]. rewrite Rmult_1_r. unfold F2R. cbn [Fnum Fexp bpow round_mode]. ring.
Qed.

(* rounding to an integer (FIX 0): what ROUNDPS computes *)
Lemma rnd_fix v : round radix2 (FIX_exp 0) (round_mode mode_NE) v = IZR (ZnearestE v).
Proof.
  unfold round, scaled_mantissa, cexp, FIX_exp. cbn [Z.opp bpow]. rewrite Rmult_1_r. unfold F2R. cbn [Fnum Fexp bpow round_mode]. ring.
Qed.

Lemma add_rnd x y : fin x -> fin y -> (Rabs (rnd (R32 x + R32 y)) < bpow radix2 128)%R ->
  fin (F32.add x y) /\ R32 (F32.add x y) = rnd (R32 x + R32 y).
Proof.
  intros Fx Fy B. pose proof (Bplus_correct 24 128 eq_refl eq_refl mode_NE x y Fx Fy) as C.
  rewrite (Rlt_bool_true _ _ B) in C. destruct C as (C1 & C2 & _). split; [exact C2 | exact C1].
Qed.
Lemma sub_rnd x y : fin x -> fin y -> (Rabs (rnd (R32 x - R32 y)) < bpow radix2 128)%R ->
  fin (F32.sub x y) /\ R32 (F32.sub x y) = rnd (R32 x - R32 y).
Proof.
  intros Fx Fy B. pose proof (Bminus_correct 24 128 eq_refl eq_refl mode_NE x y Fx Fy) as C.
  rewrite (Rlt_bool_true _ _ B) in C. destruct C as (C1 & C2 & _). split; [exact C2 | exact C1].
Qed.
Lemma rnd_id v : generic_format radix2 fexp32 v -> rnd v = v.
Proof. intros G. apply round_generic; [apply valid_rnd_N | exact G]. Qed.

Lemma strict_of_nonzero (x : f32) : fin x -> R32 x <> 0%R -> is_finite_strict x = true.
Proof. destruct x as [s | s | | s m e H]; cbn; try discriminate; try reflexivity. intros _ N. exfalso. apply N. reflexivity. Qed.

Lemma zero_of_real (x : f32) : fin x -> R32 x = 0%R -> x = B754_zero (Bsign x).
Proof.
  destruct x as [s | s | | s m e H]; cbn; try discriminate; try reflexivity. intros _ E. exfalso.
  apply (eq_0_F2R radix2) in E. destruct s; cbn in E; discriminate.
Qed.

(* ---- constants ---------------------------------------------------------------------------------------------------------------- *)
Lemma two23_val : fin two23 /\ R32 two23 = 8388608%R.
Proof.
  unfold two23, F32.of_Z.
  pose proof (binary_normalize_correct 24 128 eq_refl eq_refl mode_NE 8388608 0 false) as C. cbv zeta in C.
  assert (E : F2R (Float radix2 8388608 0) = IZR 8388608) by (unfold F2R; cbn [Fnum Fexp]; change (bpow radix2 0) with 1%R; ring).
  rewrite E in C.
  assert (G := format_int 8388608 ltac:(lia)). rewrite (rnd_id _ G) in C.
  assert (L := int_lt_emax 8388608 ltac:(lia)). rewrite (Rlt_bool_true _ _ L) in C.
  destruct C as (C1 & C2 & _). split; [exact C2 | exact C1].
Qed.
Lemma half_val : fin F32.half /\ R32 F32.half = (/ 2)%R.
Proof.
  unfold F32.half. set (x := F32.of_bits 1056964608). vm_compute in x. subst x. split; [reflexivity|]. unfold B2R, F2R. cbn. lra.
Qed.
Definition neg_half : f32 := F32.of_bits 3204448256.
Lemma neg_half_val : fin neg_half /\ R32 neg_half = (- / 2)%R.
Proof.
  unfold neg_half. set (x := F32.of_bits 3204448256). vm_compute in x. subst x. split; [reflexivity|]. unfold B2R, F2R. cbn. lra.
Qed.
Lemma one_val : fin F32.one /\ R32 F32.one = 1%R.
Proof.
  unfold F32.one. set (x := F32.of_bits 1065353216). vm_compute in x. subst x. split; [reflexivity|]. unfold B2R, F2R. cbn. lra.
Qed.

Lemma format_small_multiple k e : -24 <= e <= -1 -> (Rabs (IZR k * bpow radix2 e) <= / 2)%R ->
  generic_format radix2 fexp32 (IZR k * bpow radix2 e).
Proof.
  intros He Hk. apply (generic_format_FLT radix2 (-149) 24). apply (FLT_spec radix2 (-149) 24 _ (Float radix2 k e)).
  - reflexivity.
  - cbn [Fnum]. change (Z.abs k < 16777216).
    rewrite Rabs_mult, (Rabs_pos_eq (bpow radix2 e)), <- abs_IZR in Hk by apply bpow_ge_0.
    assert (A : (IZR (Z.abs k) <= bpow radix2 (-1 - e))%R).
    { replace (bpow radix2 (-1 - e)) with (/ 2 * bpow radix2 (- e))%R by (change (/ 2)%R with (bpow radix2 (-1)); rewrite <- bpow_plus; f_equal; lia).
      pose proof (bpow_gt_0 radix2 e) as P. pose proof (bpow_gt_0 radix2 (- e)) as P'.
      assert (I : (bpow radix2 e * bpow radix2 (- e) = 1)%R) by (rewrite <- bpow_plus; replace (e + - e) with 0 by lia; reflexivity).
      apply Rmult_le_compat_r with (r := bpow radix2 (- e)) in Hk; [|lra]. nra. }
    assert (B : (bpow radix2 (-1 - e) <= bpow radix2 23)%R) by (apply bpow_le; lia).
    change (bpow radix2 23) with (IZR 8388608) in B. assert (C : (IZR (Z.abs k) <= IZR 8388608)%R) by lra. apply le_IZR in C. lia.
  - cbn [Fexp]. lia.
Qed.

(* ---- the middle range: 1/2 <= |x| < 2^23, x not +-1/2 -------------------------------------------------------------------- *)
Lemma generic_round_mid s m e H :
  126 <= exp_bits (Bf s m e H) < 150 -> Rabs (R32 (Bf s m e H)) <> (/ 2)%R ->
  generic_round (Bf s m e H) = roundps (Bf s m e H).
Proof.
  intros He Hne. set (x := Bf s m e H) in *.
  pose proof (region_mid s m e H He) as Ha. fold x in Ha. set (a := Rabs (R32 x)) in *.
  assert (Ee : -24 <= e <= -1).
  { unfold x in He. rewrite (proj2 (finite_fields s m e H)) in He. destruct (8388608 <=? Z.pos m); lia. }
  assert (Aa : a = (IZR (Zpos m) * bpow radix2 e)%R) by (unfold a, x; apply Rabs_finite).
  assert (Rx : R32 x = if s then (- a)%R else a).
  { rewrite Aa. unfold x, B2R, F2R. cbn [Fnum Fexp]. destruct s; cbn [cond_Zopp]; [change (Z.neg m) with (- Z.pos m); rewrite opp_IZR; ring | reflexivity]. }
  assert (Fx : fin x) by reflexivity.
  unfold generic_round. fold x.
  destruct (Z.leb_spec 150 (exp_bits x)) as [B1 | _]; [lia|]. destruct (Z.ltb_spec (exp_bits x) 126) as [B2 | _]; [lia|].
  replace (sign_bit x) with s by (symmetry; exact (proj1 (finite_fields s m e H))).
  destruct two23_val as (F23 & R23). destruct half_val as (Fh & Rh). destruct one_val as (F1 & R1).
  (* x' = |x| *)
  set (x' := if s then F32.sub F32.zero x else x).
  assert (X' : fin x' /\ R32 x' = a).
  { unfold x'. destruct s; [|split; [exact Fx | exact Rx]].
    assert (E0 : (R32 F32.zero - R32 x = a)%R) by (rewrite Rx; change (R32 F32.zero) with 0%R; ring).
    assert (G : generic_format radix2 fexp32 a) by (rewrite <- E0; change (R32 F32.zero) with 0%R; rewrite Rminus_0_l; apply generic_format_opp, generic_format_B2R).
    destruct (sub_rnd F32.zero x eq_refl Fx) as (A1 & A2).
    - rewrite E0, (rnd_id _ G). rewrite Rabs_pos_eq by lra. apply Rlt_trans with 8388608%R; [lra|]. change 8388608%R with (bpow radix2 23). apply bpow_lt. lia.
    - split; [exact A1|]. rewrite A2, E0. exact (rnd_id _ G). }
  destruct X' as (Fx' & Rx').
  (* N = the nearest integer *)
  set (N := ZnearestE a).
  pose proof (Znearest_half (fun t => negb (Z.even t)) a) as HN. fold N in HN.
  assert (HN' : (a - / 2 <= IZR N <= a + / 2)%R) by (apply Rabs_le_inv in HN; lra).
  assert (N1 : 1 <= N <= 8388608).
  { assert (L : (IZR 0 < IZR N)%R) by (simpl (IZR 0); unfold a in *; lra).
    assert (U : (IZR N < IZR 8388609)%R) by (change (IZR 8388609) with 8388609%R; lra).
    apply lt_IZR in L. apply lt_IZR in U. lia. }
  assert (GN : generic_format radix2 fexp32 (IZR N)) by (apply format_int; lia).
  assert (LN : (Rabs (IZR N) < bpow radix2 128)%R) by (apply int_lt_emax; lia).
  assert (GM : generic_format radix2 fexp32 (IZR (- N))) by (apply format_int; lia).
  assert (LM : (Rabs (IZR (- N)) < bpow radix2 128)%R) by (apply int_lt_emax; lia).
  assert (LS : (Rabs (IZR (N + 8388608)) < bpow radix2 128)%R) by (apply int_lt_emax; lia).
  (* s1 = x' + 2^23 *)
  assert (S1r : rnd (R32 x' + R32 two23) = IZR (N + 8388608)).
  { rewrite Rx', R23. rewrite rnd_int_range by lra. change 8388608%R with (IZR 8388608). rewrite ZnearestE_add_even by reflexivity. reflexivity. }
  destruct (add_rnd x' two23 Fx' F23) as (Fs1 & Rs1); [rewrite S1r; exact LS|]. rewrite S1r in Rs1.
  set (s1 := F32.add x' two23) in *.
  (* s2 = s1 - 2^23 = N *)
  assert (S2e : (R32 s1 - R32 two23 = IZR N)%R) by (rewrite Rs1, R23, plus_IZR; ring).
  destruct (sub_rnd s1 two23 Fs1 F23) as (Fs2 & Rs2); [rewrite S2e, (rnd_id _ GN); exact LN|].
  rewrite S2e, (rnd_id _ GN) in Rs2. set (s2 := F32.sub s1 two23) in *.
  (* y = s2 - x' = N - a, exactly *)
  assert (Ye : (R32 s2 - R32 x' = IZR (N * 2 ^ (- e) - Zpos m) * bpow radix2 e)%R).
  { rewrite Rs2, Rx', Aa, minus_IZR, mult_IZR, (IZR_Zpower radix2) by lia.
    assert (I : (bpow radix2 (- e) * bpow radix2 e = 1)%R) by (rewrite <- bpow_plus; replace (- e + e) with 0 by lia; reflexivity).
    rewrite Rmult_minus_distr_r, Rmult_assoc, I. ring. }
  assert (Yv : (IZR (N * 2 ^ (- e) - Zpos m) * bpow radix2 e = IZR N - a)%R) by (rewrite <- Ye, Rs2, Rx'; reflexivity).
  assert (Yg : generic_format radix2 fexp32 (IZR (N * 2 ^ (- e) - Zpos m) * bpow radix2 e)).
  { apply format_small_multiple; [exact Ee|]. rewrite Yv. rewrite Rabs_minus_sym. exact HN. }
  destruct (sub_rnd s2 x' Fs2 Fx') as (Fy & Ry).
  { rewrite Ye, (rnd_id _ Yg), Yv. apply Rle_lt_trans with (/ 2)%R; [rewrite Rabs_minus_sym; exact HN|].
    change (/ 2)%R with (bpow radix2 (-1)). apply bpow_lt. lia. }
  rewrite Ye, (rnd_id _ Yg), Yv in Ry. set (y := F32.sub s2 x') in *.
  (* neither correction fires *)
  assert (C1 : F32.lt F32.half y = false).
  { unfold F32.lt. rewrite (Bltb_correct 24 128 _ _ Fh Fy), Rh, Ry. apply Rlt_bool_false. lra. }
  assert (C2 : F32.lt y (F32.neg F32.half) = false).
  { unfold F32.lt, F32.neg. rewrite (Bltb_correct 24 128 _ _ Fy); [|rewrite is_finite_Bopp; exact Fh].
    rewrite B2R_Bopp, Rh, Ry. apply Rlt_bool_false. lra. }
  rewrite C1, C2.
  (* r = y + x' = N *)
  assert (Re : (R32 y + R32 x' = IZR N)%R) by (rewrite Ry, Rx'; ring).
  destruct (add_rnd y x' Fy Fx') as (Fr & Rr); [rewrite Re, (rnd_id _ GN); exact LN|].
  rewrite Re, (rnd_id _ GN) in Rr. set (r := F32.add y x') in *.
  (* the result and ROUNDPS *)
  destruct (Bnearbyint_correct 24 128 eq_refl mode_NE x) as (Pr & Pf & _).
  assert (NZ : IZR N <> 0%R) by (apply not_0_IZR; lia).
  assert (Fp : fin (roundps x)) by (unfold fin, F32.is_finite; etransitivity; [exact Pf | exact Fx]).
  assert (Pr' : R32 (roundps x) = round radix2 (FIX_exp 0) (round_mode mode_NE) (R32 x)) by exact Pr.
  destruct s.
  - destruct (sub_rnd F32.zero r eq_refl Fr) as (Fg & Rg).
    { change (R32 F32.zero) with 0%R. rewrite Rr, Rminus_0_l, <- opp_IZR, (rnd_id _ GM). exact LM. }
    change (R32 F32.zero) with 0%R in Rg. rewrite Rr, Rminus_0_l, <- opp_IZR, (rnd_id _ GM), opp_IZR in Rg.
    apply B2R_inj.
    + apply strict_of_nonzero; [exact Fg | rewrite Rg; lra].
    + apply strict_of_nonzero; [exact Fp | rewrite Pr', Rx, round_NE_opp, rnd_fix; fold N; lra].
    + rewrite Rg, Pr', Rx, round_NE_opp, rnd_fix. reflexivity.
  - apply B2R_inj.
    + apply strict_of_nonzero; [exact Fr | rewrite Rr; exact NZ].
    + apply strict_of_nonzero; [exact Fp | rewrite Pr', Rx, rnd_fix; fold N; exact NZ].
    + rewrite Rr, Pr', Rx, rnd_fix. reflexivity.
Qed.

(* ---- |x| = 1/2: the two values, one of which is the exception ---------------------------------------------------------------- *)
Lemma half_cases (x : f32) : fin x -> Rabs (R32 x) = (/ 2)%R -> x = F32.half \/ x = neg_half.
Proof.
  intros Fx Hx. destruct half_val as (Fh & Rh). destruct neg_half_val as (Fn & Rn).
  assert (NZ : R32 x <> 0%R) by (intros Z0; rewrite Z0, Rabs_R0 in Hx; lra).
  pose proof (strict_of_nonzero x Fx NZ) as Sx.
  destruct (Rcase_abs (R32 x)) as [Neg | Pos].
  - right. rewrite Rabs_left in Hx by exact Neg. apply B2R_inj; [exact Sx | apply strict_of_nonzero; [exact Fn | rewrite Rn; lra] | rewrite Rn; lra].
  - left. rewrite Rabs_right in Hx by exact Pos. apply B2R_inj; [exact Sx | apply strict_of_nonzero; [exact Fh | rewrite Rh; lra] | rewrite Rh; lra].
Qed.

Lemma generic_round_half : generic_round F32.half = roundps F32.half.
Proof. vm_compute. reflexivity. Qed.

(* ---- small and large values --------------------------------------------------------------------------------------------------- *)
Lemma generic_round_small s m e H : exp_bits (Bf s m e H) < 126 -> generic_round (Bf s m e H) = roundps (Bf s m e H).
Proof.
  intros He. pose proof (region_small s m e H He) as Ha. set (x := Bf s m e H) in *.
  assert (Hb : (exp_bits x <? 126) = true) by (apply Z.ltb_lt; exact He).
  assert (Hc : (150 <=? exp_bits x) = false) by (apply Z.leb_gt; lia).
  unfold generic_round. fold x. rewrite Hc, Hb.
  destruct (Bnearbyint_correct 24 128 eq_refl mode_NE x) as (Pr & Pf & Ps).
  assert (Fp : fin (roundps x)) by (unfold fin, F32.is_finite; etransitivity; [exact Pf | reflexivity]).
  assert (Pr' : R32 (roundps x) = round radix2 (FIX_exp 0) (round_mode mode_NE) (R32 x)) by exact Pr.
  assert (Ps' : Bsign (roundps x) = s).
  { assert (Nn : is_nan (roundps x) = false) by (destruct (roundps x); try discriminate Fp; reflexivity).
    transitivity (Bsign x); [exact (Ps Nn) | reflexivity]. }
  rewrite rnd_fix in Pr'. rewrite (Znearest_imp _ _ 0) in Pr' by (simpl (IZR 0); rewrite Rminus_0_r; exact Ha).
  rewrite (zero_of_real _ Fp Pr'), Ps'. unfold x, F32.mul, F32.zero. destruct s; reflexivity.
Qed.

Lemma generic_round_big s m e H : 150 <= exp_bits (Bf s m e H) -> generic_round (Bf s m e H) = roundps (Bf s m e H).
Proof.
  intros He. destruct (region_big s m e H He) as (n & Hn). set (x := Bf s m e H) in *.
  assert (Hc : (150 <=? exp_bits x) = true) by (apply Z.leb_le; exact He).
  unfold generic_round. fold x. rewrite Hc.
  destruct (Bnearbyint_correct 24 128 eq_refl mode_NE x) as (Pr & Pf & _).
  assert (Fp : fin (roundps x)) by (unfold fin, F32.is_finite; etransitivity; [exact Pf | reflexivity]).
  assert (Pr' : R32 (roundps x) = round radix2 (FIX_exp 0) (round_mode mode_NE) (R32 x)) by exact Pr.
  rewrite rnd_fix, Hn in Pr'. rewrite (Znearest_imp _ _ n) in Pr' by (rewrite Rminus_diag_eq by reflexivity; rewrite Rabs_R0; lra). rewrite <- Hn in Pr'.
  assert (NZ : R32 x <> 0%R).
  { unfold x, B2R, F2R. cbn [Fnum Fexp]. intros Z0. apply Rmult_integral in Z0. destruct Z0 as [Z0 | Z0].
    - apply eq_IZR in Z0. destruct s; discriminate Z0.
    - pose proof (bpow_gt_0 radix2 e). lra. }
  symmetry. apply B2R_inj; [apply strict_of_nonzero; [exact Fp | rewrite Pr'; exact NZ] | reflexivity | exact Pr'].
Qed.

(* ---- THE THEOREM: the portable rounding is ROUNDPS on every binary32 value but -0.5 ----------------------------------- *)
Theorem generic_round_is_roundps (x : f32) : x <> neg_half -> generic_round x = roundps x.
Proof.
  intros Hx. destruct x as [s | s | | s m e H].
  - apply generic_round_special. right. exists s. reflexivity.
  - apply generic_round_special. left. reflexivity.
  - apply generic_round_special. left. reflexivity.
  - destruct (Z_lt_le_dec (exp_bits (Bf s m e H)) 126) as [Sm | Ge]; [apply generic_round_small; exact Sm|].
    destruct (Z_le_gt_dec 150 (exp_bits (Bf s m e H))) as [Bg | Lt]; [apply generic_round_big; exact Bg|].
    destruct (Req_dec (Rabs (R32 (Bf s m e H))) (/ 2)) as [Eq | Ne].
    + assert (Fx : fin (Bf s m e H)) by reflexivity.
      destruct (half_cases _ Fx Eq) as [E | E]; [rewrite E; exact generic_round_half | contradiction].
    + apply generic_round_mid; [lia | exact Ne].
Qed.

(* at -0.5 the two differ in the sign of zero only *)
Lemma generic_round_neg_half : generic_round neg_half = B754_zero false /\ roundps neg_half = B754_zero true.
Proof. split; vm_compute; reflexivity. Qed.

(* consequences for the backends *)
Theorem round_agree_all b1 b2 x : x <> neg_half -> round4 b1 x = round4 b2 x.
Proof. intros Hx. apply round_agree. exact (generic_round_is_roundps x Hx). Qed.

Theorem round_int_agree_all b1 b2 x : F32.is_finite x = true -> in_i32_range (roundps x) -> round_int4 b1 x = round_int4 b2 x.
Proof.
  intros Fx Hr. destruct half_val as (_ & _).
  assert (D : x = neg_half \/ x <> neg_half).
  { destruct (Req_dec (R32 x) (- / 2)) as [E | NE].
    - left. destruct neg_half_val as (Fn & Rn). apply B2R_inj; [apply strict_of_nonzero; [exact Fx | rewrite E; lra] | apply strict_of_nonzero; [exact Fn | rewrite Rn; lra] | rewrite Rn; exact E].
    - right. intros ->. apply NE. exact (proj2 neg_half_val). }
  destruct D as [-> | Hx].
  - destruct b1, b2; vm_compute; reflexivity.
  - apply round_int_agree; [exact (generic_round_is_roundps x Hx) | exact Fx | exact Hr].
Qed.
