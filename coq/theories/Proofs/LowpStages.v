(* C12 core: every low-precision stage keeps the lane state premultiplied, hence every lowp
   program (any list of stages, any blend mode in the generated table) writes premultiplied
   pixels onto premultiplied destinations; lifted to rows and to arbitrary draw histories.
   Integer reasoning: closed under the global context. *)
From Coq Require Import ZArith Bool List Lia String.
From TS Require Import Base.F32 Base.U16 Gen.LowpGen Gen.BlendTable Spec.BlendSpec
  Proofs.LowpProofs Proofs.CoverageProofs Proofs.RunnerProofs Model.Pixel.
Import ListNotations.
Local Open Scope Z_scope.

Definition LInv (s : lst Z) : Prop :=
  premul (sr s) (sa s) /\ premul (sg s) (sa s) /\ premul (sb s) (sa s) /\
  premul (dr s) (da s) /\ premul (dg s) (da s) /\ premul (db s) (da s).

Definition px_premul (p : px) : Prop := premul (pr p) (pa p) /\ premul (pg p) (pa p) /\ premul (pb p) (pa p).

(* what a blend closure must satisfy *)
Definition mode_ok (f : Z -> Z -> Z -> Z -> Z) (kind : Z) : Prop :=
  forall s d sa da, premul s sa -> premul d da ->
    let a' := if kind =? 1 then f sa da sa da else u16add sa (lowp_div255 (u16mul da (lowp_inv sa))) in
    0 <= f s d sa da <= a' /\ a' <= 255.

Lemma premul_refl a : 0 <= a <= 255 -> premul a a.
Proof. unfold premul. lia. Qed.

Ltac k1 closeL premulL :=
  intros s d sa da Hs Hd; cbn [Z.eqb Pos.eqb];
  assert (Ha : premul sa sa) by (unfold premul in *; apply premul_refl; lia);
  assert (Hb : premul da da) by (unfold premul in *; apply premul_refl; lia);
  pose proof (closeL s d sa da Hs Hd) as (_ & C1);
  pose proof (closeL sa da sa da Ha Hb) as (_ & C2);
  pose proof (premulL s d sa da Hs Hd); lia.

Ltac k2 closeL premulL :=
  intros s d sa da Hs Hd; cbn [Z.eqb Pos.eqb];
  pose proof (closeL s d sa da Hs Hd) as (_ & C1);
  pose proof (alpha2_eq s d sa da Hs Hd) as (_ & C2);
  pose proof (premulL s d sa da Hs Hd) as P; unfold alpha2 in *; lia.

Lemma ok_clear : mode_ok lowp_clear 1.
Proof. intros s d sa da Hs Hd. unfold lowp_clear. simpl. lia. Qed.
Lemma ok_source_atop : mode_ok lowp_source_atop 1. Proof. k1 source_atop_close source_atop_premul. Qed.
Lemma ok_destination_atop : mode_ok lowp_destination_atop 1. Proof. k1 destination_atop_close destination_atop_premul. Qed.
Lemma ok_source_in : mode_ok lowp_source_in 1. Proof. k1 source_in_close source_in_premul. Qed.
Lemma ok_destination_in : mode_ok lowp_destination_in 1. Proof. k1 destination_in_close destination_in_premul. Qed.
Lemma ok_source_out : mode_ok lowp_source_out 1. Proof. k1 source_out_close source_out_premul. Qed.
Lemma ok_destination_out : mode_ok lowp_destination_out 1. Proof. k1 destination_out_close destination_out_premul. Qed.
Lemma ok_source_over : mode_ok lowp_source_over 1. Proof. k1 source_over_close source_over_premul. Qed.
Lemma ok_destination_over : mode_ok lowp_destination_over 1. Proof. k1 destination_over_close destination_over_premul. Qed.
Lemma ok_modulate : mode_ok lowp_modulate 1. Proof. k1 modulate_close modulate_premul. Qed.
Lemma ok_multiply : mode_ok lowp_multiply 1. Proof. k1 multiply_close multiply_premul. Qed.
Lemma ok_screen : mode_ok lowp_screen 1. Proof. k1 screen_close screen_premul. Qed.
Lemma ok_xor : mode_ok lowp_xor 1. Proof. k1 xor_close xor_premul. Qed.
Lemma ok_plus : mode_ok lowp_plus 1. Proof. k1 plus_close plus_premul. Qed.
Lemma ok_darken : mode_ok lowp_darken 2. Proof. k2 darken_close darken_premul. Qed.
Lemma ok_lighten : mode_ok lowp_lighten 2. Proof. k2 lighten_close lighten_premul. Qed.
Lemma ok_exclusion : mode_ok lowp_exclusion 2. Proof. k2 exclusion_close exclusion_premul. Qed.
Lemma ok_difference : mode_ok lowp_difference 2. Proof. k2 difference_close difference_premul. Qed.
Lemma ok_hard_light : mode_ok lowp_hard_light 2. Proof. k2 hard_light_close hard_light_premul. Qed.
Lemma ok_overlay : mode_ok lowp_overlay 2. Proof. k2 overlay_close overlay_premul. Qed.

(* every entry of the GENERATED table is covered; a new or changed closure breaks this proof *)
Lemma blend_table_ok : Forall (fun e => mode_ok (fst (snd e)) (snd (snd e))) lowp_blend_table.
Proof.
  unfold lowp_blend_table.
  repeat (constructor; [cbn [fst snd];
    first [ exact ok_clear | exact ok_source_atop | exact ok_destination_atop | exact ok_source_in
          | exact ok_destination_in | exact ok_source_out | exact ok_destination_out | exact ok_source_over
          | exact ok_destination_over | exact ok_modulate | exact ok_multiply | exact ok_screen | exact ok_xor
          | exact ok_plus | exact ok_darken | exact ok_lighten | exact ok_exclusion | exact ok_difference
          | exact ok_hard_light | exact ok_overlay ] |]).
  constructor.
Qed.

Lemma assoc_in {A} k (l : list (string * A)) v : assoc k l = Some v -> exists k', In (k', v) l.
Proof.
  induction l as [|[k' v'] l IH]; simpl; [discriminate|].
  destruct (String.eqb k k'); [intros H; inversion H; subst; eauto|].
  intros H. destruct (IH H) as (k'' & I). eauto.
Qed.

Lemma lowp_blend_inv fn s s' : LInv s -> lowp_blend fn s = Some s' -> LInv s'.
Proof.
  intros (R & G & B & DR & DG & DB) H. unfold lowp_blend in H.
  destruct (assoc fn lowp_blend_table) as [[f kind]|] eqn:E; [|discriminate].
  inversion H; subst; clear H.
  destruct (assoc_in _ _ _ E) as (k' & I).
  pose proof blend_table_ok as T. rewrite Forall_forall in T. specialize (T _ I). cbn [fst snd] in T.
  unfold LInv. cbn [sr sg sb sa dr dg db da].
  pose proof (T _ _ _ _ R DR) as (A1 & A2). pose proof (T _ _ _ _ G DG) as (A3 & _). pose proof (T _ _ _ _ B DB) as (A4 & _).
  unfold premul. repeat split; try lia; try apply DR; try apply DG; try apply DB.
Qed.

Lemma scale_inv s c : LInv s -> 0 <= c <= 255 -> LInv (lowp_scale s c).
Proof.
  intros (R & G & B & DR & DG & DB) Hc. unfold LInv, lowp_scale. cbn [sr sg sb sa dr dg db da].
  unfold premul in *.
  assert (K : forall x a, 0 <= x <= a -> a <= 255 ->
            0 <= lowp_div255 (u16mul x c) <= lowp_div255 (u16mul a c) /\ lowp_div255 (u16mul a c) <= 255).
  { intros x a Hx Ha. rewrite !u16mul_small by nia. split; [split|].
    - apply (div255_close (x * c)); nia.
    - apply div255_mono; nia.
    - apply (div255_close (a * c)); nia. }
  pose proof (K (sr s) (sa s) ltac:(lia) ltac:(lia)). pose proof (K (sg s) (sa s) ltac:(lia) ltac:(lia)).
  pose proof (K (sb s) (sa s) ltac:(lia) ltac:(lia)). lia.
Qed.

Lemma lerp_inv s c : LInv s -> 0 <= c <= 255 -> LInv (lowp_lerp_st s c).
Proof.
  intros (R & G & B & DR & DG & DB) Hc. unfold LInv, lowp_lerp_st. cbn [sr sg sb sa dr dg db da].
  unfold premul in *.
  assert (K : forall dx x dA a, 0 <= dx <= dA -> dA <= 255 -> 0 <= x <= a -> a <= 255 ->
            0 <= lowp_lerp dx x c <= lowp_lerp dA a c /\ lowp_lerp dA a c <= 255).
  { intros dx x dA a H1 H2 H3 H4. rewrite !lerp_eq by lia. split; [split|].
    - apply (div255_close (dx * (255 - c) + x * c)); nia.
    - apply div255_mono; nia.
    - apply (div255_close (dA * (255 - c) + a * c)); nia. }
  pose proof (K (dr s) (sr s) (da s) (sa s) ltac:(lia) ltac:(lia) ltac:(lia) ltac:(lia)).
  pose proof (K (dg s) (sg s) (da s) (sa s) ltac:(lia) ltac:(lia) ltac:(lia) ltac:(lia)).
  pose proof (K (db s) (sb s) (da s) (sa s) ltac:(lia) ltac:(lia) ltac:(lia) ltac:(lia)). lia.
Qed.

Lemma store_premul s : LInv s -> px_premul (store_z s).
Proof.
  intros (R & G & B & _). unfold px_premul, store_z, premul in *. cbn [pr pg pb pa].
  rewrite !Z.mod_small by lia. lia.
Qed.

Definition lin_ok (i : lin) : Prop :=
  px_premul (in_dst i) /\ 0 <= in_mask i <= 255 /\ 0 <= in_aa i <= 255.

(* one stage *)
Lemma lowp_stage_inv stage uni cov i s s' o :
  px_premul uni -> 0 <= lowp_from_float cov <= 255 -> lin_ok i -> LInv s ->
  lowp_stage stage uni cov i s = Some (s', o) ->
  LInv s' /\ (forall p, o = Some p -> px_premul p).
Proof.
  intros Hu Hc (Hd & Hm & Ha) Hs H. unfold lowp_stage in H.
  assert (Hload : LInv (load_dst_z s (in_dst i))).
  { destruct Hs as (R & G & B & _). destruct Hd as (D1 & D2 & D3).
    unfold LInv, load_dst_z. cbn [sr sg sb sa dr dg db da]. auto 10. }
  repeat match type of H with
  | (if ?c then _ else _) = _ => destruct c
  end.
  - inversion H; subst. split; [|discriminate].
    destruct Hs as (_ & _ & _ & DR & DG & DB). destruct Hu as (U1 & U2 & U3).
    unfold LInv. cbn [sr sg sb sa dr dg db da]. auto 10.
  - inversion H; subst. split; [apply scale_inv; auto|discriminate].
  - inversion H; subst. split; [apply scale_inv; auto|discriminate].
  - inversion H; subst. split; [apply lerp_inv; auto|discriminate].
  - inversion H; subst. split; [apply scale_inv; auto|discriminate].
  - inversion H; subst. split; [apply lerp_inv; auto|discriminate].
  - inversion H; subst. split; [exact Hload|discriminate].
  - inversion H; subst. split; [exact Hs|]. intros p E. inversion E; subst. apply store_premul, Hs.
  - inversion H; subst. split; [|discriminate].
    destruct Hs as (_ & _ & _ & DR & DG & DB). unfold LInv. cbn [sr sg sb sa dr dg db da]. auto 10.
  - destruct (lowp_blend "source_over" (load_dst_z s (in_dst i))) as [s2|] eqn:E; [|discriminate].
    inversion H; subst. pose proof (lowp_blend_inv _ _ _ Hload E) as I.
    split; [exact I|]. intros p Ep. inversion Ep; subst. apply store_premul, I.
  - destruct (lowp_blend (lowp_fn_of_stage stage) s) as [s2|] eqn:E; [|discriminate].
    inversion H; subst. split; [exact (lowp_blend_inv _ _ _ Hs E)|discriminate].
Qed.

(* a whole program on one lane *)
Lemma run_lane_inv uni cov i : px_premul uni -> 0 <= lowp_from_float cov <= 255 -> lin_ok i ->
  forall prog s out res,
  LInv s -> (forall p, out = Some p -> px_premul p) ->
  run_lane (fun st => lowp_stage st uni cov) prog i s out = Some res ->
  forall p, res = Some p -> px_premul p.
Proof.
  intros Hu Hc Hi. induction prog as [|st prog IH]; intros s out res Hs Ho H.
  - simpl in H. inversion H; subst. exact Ho.
  - simpl in H. destruct (lowp_stage st uni cov i s) as [[s' o]|] eqn:E; [|discriminate].
    destruct (lowp_stage_inv _ _ _ _ _ _ _ Hu Hc Hi Hs E) as (Hs' & Ho').
    eapply IH; [exact Hs' | | exact H].
    intros p Ep. destruct o as [q|]; [inversion Ep; subst; apply Ho'; reflexivity | apply Ho, Ep].
Qed.

Lemma linv_zero : LInv (mklst 0 0 0 0 0 0 0 0).
Proof. unfold LInv, premul. simpl. lia. Qed.

(* THE lane theorem: for any lowp program, the value written (if any) is premultiplied *)
Theorem lowp_lane_premul uni cov prog i :
  px_premul uni -> 0 <= lowp_from_float cov <= 255 -> lin_ok i ->
  px_premul (lane_out (fun i => run_lane (fun st => lowp_stage st uni cov) prog i (mklst 0 0 0 0 0 0 0 0) None) i).
Proof.
  intros Hu Hc Hi. unfold lane_out.
  destruct (run_lane _ prog i _ None) as [[p|]|] eqn:E; try apply Hi.
  eapply run_lane_inv; eauto using linv_zero. discriminate.
Qed.

(* rows: a draw with any lowp program over a row of premultiplied pixels leaves a row of
   premultiplied pixels, for every span and every mask contents *)
Definition row_ok (row : list lin) : Prop := Forall lin_ok row.

Theorem lowp_row_premul uni cov prog hm x0 len row out :
  px_premul uni -> 0 <= lowp_from_float cov <= 255 -> row_ok row ->
  run_row (fun i => run_lane (fun st => lowp_stage st uni cov) prog i (mklst 0 0 0 0 0 0 0 0) None) hm 16 x0 len row = Some out ->
  Forall px_premul out.
Proof.
  intros Hu Hc Hrow H.
  (* the invariant must also carry the mask/aa range of each lane: use Forall2 from the spec *)
  assert (Hw : (16 > 0)%nat) by lia.
  destruct (run_row_spec _ _ _ _ _ _ _ Hw H) as (a & m & b & -> & A & M & B).
  assert (Sub1 : forall n, Forall lin_ok (firstn n row)).
  { intros n. apply Forall_forall. intros x Hx. unfold row_ok in Hrow. rewrite Forall_forall in Hrow.
    apply Hrow. eapply In_firstn_in, Hx. }
  assert (Sub2 : forall n, Forall lin_ok (skipn n row)).
  { intros n. apply Forall_forall. intros x Hx. unfold row_ok in Hrow. rewrite Forall_forall in Hrow.
    apply Hrow. eapply In_skipn_in, Hx. }
  assert (FA : forall l o, Forall lin_ok l -> Forall2 frame_ok l o -> Forall px_premul o).
  { intros l o Hl F2. induction F2 as [|i p l' o' E]; constructor; inversion Hl; subst; auto.
    unfold frame_ok in E. subst. apply H2. }
  apply Forall_app. split; [eapply FA; [apply Sub1|exact A]|]. apply Forall_app. split; [|eapply FA; [apply Sub2|exact B]].
  assert (Hmid : Forall lin_ok (firstn len (skipn x0 row))).
  { apply Forall_forall. intros x Hx. pose proof (Sub2 x0) as S. rewrite Forall_forall in S. apply S. eapply In_firstn_in, Hx. }
  clear - M Hmid Hu Hc.
  induction M as [|i p l' o' E]; constructor; inversion Hmid; subst; auto.
  destruct E as [-> | (_ & _ & ->)]; [apply lowp_lane_premul; auto | apply H1].
Qed.

(* ---- draw histories ------------------------------------------------------------------------- *)
Record draw := mkdraw {
  d_uni : px; d_cov : f32; d_prog : list string; d_hm : bool; d_x0 : nat; d_len : nat;
  d_masks : list (Z * Z)   (* clip-mask byte and aa-mask byte of every pixel of the row *) }.

Definition mk_row (pxs : list px) (ms : list (Z * Z)) : list lin :=
  map (fun pm => mklin (fst pm) (fst (snd pm)) (snd (snd pm))) (combine pxs ms).

Definition apply_draw (st : option (list px)) (d : draw) : option (list px) :=
  match st with
  | None => None
  | Some pxs =>
      run_row (fun i => run_lane (fun st => lowp_stage st (d_uni d) (d_cov d)) (d_prog d) i (mklst 0 0 0 0 0 0 0 0) None)
              (d_hm d) 16 (d_x0 d) (d_len d) (mk_row pxs (d_masks d))
  end.

Definition draw_ok (d : draw) : Prop :=
  px_premul (d_uni d) /\ 0 <= lowp_from_float (d_cov d) <= 255 /\
  Forall (fun m => 0 <= fst m <= 255 /\ 0 <= snd m <= 255) (d_masks d).

Lemma mk_row_ok pxs ms : Forall px_premul pxs ->
  Forall (fun m => 0 <= fst m <= 255 /\ 0 <= snd m <= 255) ms -> row_ok (mk_row pxs ms).
Proof.
  intros Hp Hm. unfold row_ok, mk_row. apply Forall_forall. intros i Hi.
  apply in_map_iff in Hi. destruct Hi as ((p & m) & <- & Hc).
  rewrite Forall_forall in Hp, Hm.
  pose proof (in_combine_l _ _ _ _ Hc). pose proof (in_combine_r _ _ _ _ Hc).
  unfold lin_ok. cbn [in_dst in_mask in_aa fst snd]. split; [apply Hp; auto|apply Hm; auto].
Qed.

(* THE property (lowp): starting from premultiplied pixels, any sequence of draws leaves
   premultiplied pixels *)
Theorem history_premul ds : forall pxs out,
  Forall px_premul pxs -> Forall draw_ok ds ->
  fold_left apply_draw ds (Some pxs) = Some out -> Forall px_premul out.
Proof.
  induction ds as [|d ds IH]; intros pxs out Hp Hd H.
  - simpl in H. inversion H; subst. exact Hp.
  - simpl in H. inversion Hd as [|? ? (Hu & Hc & Hm) Hd']; subst.
    destruct (run_row _ (d_hm d) 16 (d_x0 d) (d_len d) (mk_row pxs (d_masks d))) as [pxs'|] eqn:E.
    + apply (IH pxs' out); auto.
      eapply lowp_row_premul; [exact Hu | exact Hc | apply mk_row_ok; eauto | exact E].
    + exfalso. clear - H. induction ds; simpl in H; [discriminate|auto].
Qed.
