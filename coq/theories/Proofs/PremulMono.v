(* C12 (highp, binary32): the Porter-Duff closures (and Modulate, Multiply, Plus) preserve premultipliedness EXACTLY in binary32.
   Each colour channel is computed by the same closure as alpha with (s, d) in place of (sa, da); the closures are built from
   +, x, min, max of non-negative quantities and subtractions whose subtrahend does not depend on (s, d), every binary32
   operation is monotone, hence s <= sa and d <= da give result <= result alpha -- before and after the store. *)
From Coq Require Import ZArith Bool List Lia Reals Lra.
From Flocq Require Import Core.Zaux Core.Raux Core.Defs Core.Generic_fmt Core.FLT Core.Round_NE IEEE754.BinarySingleNaN.
From TS Require Import Base.F32 Base.Wide Gen.HighpGen Model.Pixel Proofs.RectPoints Proofs.LineClipFinite Proofs.HighpError Proofs.LerpMono.
Import ListNotations.
Local Open Scope R_scope.

Fixpoint const_sd (e : ex) : bool :=
  match e with
  | V i => negb (Nat.eqb i 0) && negb (Nat.eqb i 1)
  | One => true
  | Add a b | Sub a b | Mul a b | Min a b | Max a b => const_sd a && const_sd b
  end.
Fixpoint posm (e : ex) : bool :=
  match e with
  | V _ | One => true
  | Add a b | Mul a b | Min a b | Max a b => posm a && posm b
  | Sub a b => posm a && const_sd b
  end.
(* the operands of every product are non-negative *)
Fixpoint NN (env : nat -> f32) (e : ex) : Prop :=
  match e with
  | V _ | One => True
  | Mul a b => NN env a /\ NN env b /\ 0 <= R32 (evalF env a) /\ 0 <= R32 (evalF env b)
  | Add a b | Sub a b | Min a b | Max a b => NN env a /\ NN env b
  end.

Definition agree (env env' : nat -> f32) : Prop := forall i, (2 <= i)%nat -> env i = env' i.

Lemma const_eval env env' e : agree env env' -> const_sd e = true -> evalF env e = evalF env' e.
Proof.
  intros A. induction e as [i | | a IHa b IHb | a IHa b IHb | a IHa b IHb | a IHa b IHb | a IHa b IHb]; cbn [const_sd evalF]; intros H;
    try (apply andb_true_iff in H; destruct H as (H1 & H2); rewrite (IHa H1), (IHb H2); reflexivity); [|reflexivity].
  apply andb_true_iff in H. destruct H as (H0 & H1). apply negb_true_iff in H0, H1. apply Nat.eqb_neq in H0, H1. apply A. lia.
Qed.

(* exact value of each operation when nothing overflows *)
Lemma op_values env a b : env_ok env -> ok a -> ok b ->
  (mag a + mag b + (err a + err b) <= bpow radix2 100 ->
     R32 (evalF env (Add a b)) = rnd32 (R32 (evalF env a) + R32 (evalF env b)) /\
     R32 (evalF env (Sub a b)) = rnd32 (R32 (evalF env a) - R32 (evalF env b))) /\
  (mag a * mag b + ((mag a + err a) * err b + mag b * err a) <= bpow radix2 100 ->
     R32 (evalF env (Mul a b)) = rnd32 (R32 (evalF env a) * R32 (evalF env b))).
Proof.
  intros He Oa Ob. destruct (eval_error env a He Oa) as (Fa & Ea & Ma). destruct (eval_error env b He Ob) as (Fb & Eb & Mb).
  set (fa := evalF env a) in *. set (fb := evalF env b) in *. set (ra := evalR _ a) in *. set (rb := evalR _ b) in *.
  pose proof (err_pos a) as Pa. pose proof (err_pos b) as Pb. pose proof (mag_pos a). pose proof (mag_pos b).
  assert (Ba : Rabs (R32 fa) <= mag a + err a) by (replace (R32 fa) with (ra + (R32 fa - ra)) by ring; eapply Rle_trans; [apply Rabs_triang|]; lra).
  assert (Bb : Rabs (R32 fb) <= mag b + err b) by (replace (R32 fb) with (rb + (R32 fb - rb)) by ring; eapply Rle_trans; [apply Rabs_triang|]; lra).
  split.
  - intros Hb. cbn [evalF]. fold fa fb. split.
    + assert (X : Rabs (R32 fa + R32 fb) <= bpow radix2 100) by (eapply Rle_trans; [apply Rabs_triang|]; lra).
      pose proof (Bplus_correct 24 128 _ _ mode_NE fa fb Fa Fb) as C. rewrite (Rlt_bool_true _ _ (lt_emax_of_le100 _ X)) in C. apply C.
    + assert (X : Rabs (R32 fa - R32 fb) <= bpow radix2 100) by (unfold Rminus; eapply Rle_trans; [apply Rabs_triang|]; rewrite Rabs_Ropp; lra).
      pose proof (Bminus_correct 24 128 _ _ mode_NE fa fb Fa Fb) as C. rewrite (Rlt_bool_true _ _ (lt_emax_of_le100 _ X)) in C. apply C.
  - intros Hb. cbn [evalF]. fold fa fb.
    assert (X : Rabs (R32 fa * R32 fb) <= bpow radix2 100).
    { rewrite Rabs_mult. pose proof (Rabs_pos (R32 fa)). pose proof (Rabs_pos (R32 fb)).
      assert (Rabs (R32 fa) * Rabs (R32 fb) <= (mag a + err a) * (mag b + err b)) by nra. nra. }
    pose proof (Bmult_correct 24 128 _ _ mode_NE fa fb) as C. rewrite (Rlt_bool_true _ _ (lt_emax_of_le100 _ X)) in C. apply C.
Qed.

Lemma ok_sub_parts a b : ok (Add a b) -> ok a /\ ok b /\ mag a + mag b + (err a + err b) <= bpow radix2 100.
Proof.
  cbn [ok mag err]; cbv zeta. intros (Oa & Ob & H). split; [exact Oa|]. split; [exact Ob|].
  assert (U : 0 <= u) by (unfold u; pose proof (bpow_gt_0 radix2 (-24 + 1)); lra).
  assert (E : 0 <= eta0) by (unfold eta0; pose proof (bpow_gt_0 radix2 (-149)); lra).
  pose proof (err_pos a). pose proof (err_pos b). pose proof (mag_pos a). pose proof (mag_pos b).
  assert (0 <= u * (mag a + mag b + (err a + err b))) by (apply Rmult_le_pos; lra). lra.
Qed.
Lemma ok_mul_parts a b : ok (Mul a b) -> ok a /\ ok b /\ mag a * mag b + ((mag a + err a) * err b + mag b * err a) <= bpow radix2 100.
Proof.
  cbn [ok mag err]; cbv zeta. intros (Oa & Ob & H). split; [exact Oa|]. split; [exact Ob|].
  assert (U : 0 <= u) by (unfold u; pose proof (bpow_gt_0 radix2 (-24 + 1)); lra).
  assert (E : 0 <= eta0) by (unfold eta0; pose proof (bpow_gt_0 radix2 (-149)); lra).
  pose proof (err_pos a). pose proof (err_pos b). pose proof (mag_pos a). pose proof (mag_pos b).
  assert (0 <= (mag a + err a) * err b + mag b * err a) by nra.
  assert (0 <= mag a * mag b) by nra.
  assert (0 <= u * (mag a * mag b + ((mag a + err a) * err b + mag b * err a))) by (apply Rmult_le_pos; lra). lra.
Qed.

Lemma min_value a b : fin a -> fin b -> R32 (wide_min a b) = Rmin (R32 a) (R32 b).
Proof.
  intros Fa Fb. unfold wide_min, F32.lt. rewrite (Bltb_correct _ _ a b Fa Fb).
  destruct (Rlt_bool_spec (R32 a) (R32 b)) as [L | L]; unfold Rmin; destruct (Rle_dec (R32 a) (R32 b)); lra.
Qed.
Lemma max_value a b : fin a -> fin b -> R32 (wide_max a b) = Rmax (R32 a) (R32 b).
Proof.
  intros Fa Fb. unfold wide_max, F32.gt, F32.lt. rewrite (Bltb_correct _ _ b a Fb Fa).
  destruct (Rlt_bool_spec (R32 b) (R32 a)) as [L | L]; unfold Rmax; destruct (Rle_dec (R32 a) (R32 b)); lra.
Qed.

(* MONOTONICITY of the binary32 evaluation in (s, d) *)
Theorem evalF_mono env env' e :
  env_ok env -> env_ok env' -> agree env env' ->
  R32 (env 0%nat) <= R32 (env' 0%nat) -> R32 (env 1%nat) <= R32 (env' 1%nat) ->
  ok e -> posm e = true -> NN env e -> NN env' e ->
  R32 (evalF env e) <= R32 (evalF env' e).
Proof.
  intros He He' A H0 H1.
  induction e as [i | | a IHa b IHb | a IHa b IHb | a IHa b IHb | a IHa b IHb | a IHa b IHb]; intros O P N N'.
  - cbn [evalF]. destruct i as [|[|i]]; [exact H0 | exact H1 |]. rewrite (A (S (S i))) by lia. lra.
  - cbn [evalF]. lra.
  - pose proof (ok_sub_parts a b O) as (Oa & Ob & Hb). cbn [posm] in P. apply andb_true_iff in P. destruct P as (Pa & Pb).
    cbn [NN] in N, N'. destruct N as (Na & Nb). destruct N' as (Na' & Nb').
    destruct (op_values env a b He Oa Ob) as (V & _). destruct (V Hb) as (V1 & _).
    destruct (op_values env' a b He' Oa Ob) as (V' & _). destruct (V' Hb) as (V1' & _).
    rewrite V1, V1'. apply rnd32_mono. specialize (IHa Oa Pa Na Na'). specialize (IHb Ob Pb Nb Nb'). lra.
  - assert (O' : ok (Add a b)) by exact O.
    pose proof (ok_sub_parts a b O') as (Oa & Ob & Hb). cbn [posm] in P. apply andb_true_iff in P. destruct P as (Pa & Pb).
    cbn [NN] in N, N'. destruct N as (Na & Nb). destruct N' as (Na' & Nb').
    destruct (op_values env a b He Oa Ob) as (V & _). destruct (V Hb) as (_ & V1).
    destruct (op_values env' a b He' Oa Ob) as (V' & _). destruct (V' Hb) as (_ & V1').
    rewrite V1, V1'. apply rnd32_mono. specialize (IHa Oa Pa Na Na'). rewrite (const_eval env env' b A Pb). lra.
  - pose proof (ok_mul_parts a b O) as (Oa & Ob & Hb). cbn [posm] in P. apply andb_true_iff in P. destruct P as (Pa & Pb).
    cbn [NN] in N, N'. destruct N as (Na & Nb & Za & Zb). destruct N' as (Na' & Nb' & Za' & Zb').
    destruct (op_values env a b He Oa Ob) as (_ & V). destruct (op_values env' a b He' Oa Ob) as (_ & V').
    rewrite (V Hb), (V' Hb). apply rnd32_mono. specialize (IHa Oa Pa Na Na'). specialize (IHb Ob Pb Nb Nb'). nra.
  - cbn [ok] in O. destruct O as (Oa & Ob). cbn [posm] in P. apply andb_true_iff in P. destruct P as (Pa & Pb).
    cbn [NN] in N, N'. destruct N as (Na & Nb). destruct N' as (Na' & Nb').
    destruct (eval_error env a He Oa) as (Fa & _). destruct (eval_error env b He Ob) as (Fb & _).
    destruct (eval_error env' a He' Oa) as (Fa' & _). destruct (eval_error env' b He' Ob) as (Fb' & _).
    cbn [evalF]. rewrite (min_value _ _ Fa Fb), (min_value _ _ Fa' Fb').
    specialize (IHa Oa Pa Na Na'). specialize (IHb Ob Pb Nb Nb'). apply Rle_min_compat_l with (z := R32 (evalF env a)) in IHb.
    unfold Rmin in *. repeat destruct (Rle_dec _ _); lra.
  - cbn [ok] in O. destruct O as (Oa & Ob). cbn [posm] in P. apply andb_true_iff in P. destruct P as (Pa & Pb).
    cbn [NN] in N, N'. destruct N as (Na & Nb). destruct N' as (Na' & Nb').
    destruct (eval_error env a He Oa) as (Fa & _). destruct (eval_error env b He Ob) as (Fb & _).
    destruct (eval_error env' a He' Oa) as (Fa' & _). destruct (eval_error env' b He' Ob) as (Fb' & _).
    cbn [evalF]. rewrite (max_value _ _ Fa Fb), (max_value _ _ Fa' Fb').
    specialize (IHa Oa Pa Na Na'). specialize (IHb Ob Pb Nb Nb').
    unfold Rmax in *. repeat destruct (Rle_dec _ _); lra.
Qed.

(* ---- the store is monotone too ---- *)
From Flocq Require Import Core.FIX.
Lemma round_fix0 r : round radix2 (FIX_exp 0) ZnearestE r = IZR (ZnearestE r).
Proof. unfold round, F2R, scaled_mantissa, cexp, FIX_exp. cbn [Fnum Fexp bpow Z.opp]. rewrite !Rmult_1_r. reflexivity. Qed.

Lemma round_int_value x : fin x -> Rabs (R32 x) <= 1000 -> wide_round_int x = ZnearestE (R32 x).
Proof.
  intros F B. destruct x as [s | s | | s m e Hb]; try discriminate F.
  - cbn. change (R32 (B754_zero s)) with (IZR 0). rewrite (@Zrnd_IZR ZnearestE _). reflexivity.
  - set (x := B754_finite s m e Hb) in *. unfold wide_round_int. cbv beta iota.
    pose proof (Bnearbyint_correct 24 128 _ mode_NE x) as (C1 & _).
    pose proof (Btrunc_correct 24 128 _ (Bnearbyint mode_NE x)) as T. rewrite C1 in T. cbn [round_mode] in T.
    rewrite round_generic in T; [| apply valid_rnd_ZR | apply generic_format_round; [apply FIX_exp_valid | apply valid_rnd_N]].
    rewrite round_fix0 in T. apply eq_IZR in T. fold x. change (Btrunc (Bnearbyint mode_NE x)) with (Btrunc (Bnearbyint mode_NE x)).
    rewrite T.
    assert (L : (-1000 <= ZnearestE (R32 x) <= 1000)%Z).
    { apply Rabs_le_inv in B. split.
      - apply Z.le_trans with (ZnearestE (IZR (-1000))); [rewrite (@Zrnd_IZR ZnearestE _); lia | apply (@Zrnd_le ZnearestE _); unfold R32 in *; lra].
      - apply Z.le_trans with (ZnearestE (IZR 1000)); [apply (@Zrnd_le ZnearestE _); unfold R32 in *; lra | rewrite (@Zrnd_IZR ZnearestE _); lia]. }
    destruct (Z.ltb_spec (ZnearestE (R32 x)) (-2147483648)); [lia|]. destruct (Z.ltb_spec 2147483647 (ZnearestE (R32 x))); [lia|]. reflexivity.
Qed.

Lemma min_fin a b : fin a -> fin b -> fin (wide_min a b).
Proof. intros Fa Fb. unfold wide_min. destruct (F32.lt a b); assumption. Qed.
Lemma max_fin a b : fin a -> fin b -> fin (wide_max a b).
Proof. intros Fa Fb. unfold wide_max. destruct (F32.gt a b); assumption. Qed.
Lemma R_zero : R32 F32.zero = 0.
Proof. reflexivity. Qed.
Lemma R_f255 : R32 Pixel.f255 = 255.
Proof. unfold Pixel.f255. set (x := F32.of_bits 1132396544). vm_compute in x. subst x. unfold B2R, F2R. cbn. lra. Qed.

Definition clamp01 (r : R) : R := Rmin (Rmax r 0) 1.
Lemma clamp01_bounds r : 0 <= clamp01 r <= 1.
Proof. unfold clamp01, Rmin, Rmax. repeat destruct (Rle_dec _ _); lra. Qed.
Lemma clamp01_mono r r' : r <= r' -> clamp01 r <= clamp01 r'.
Proof. unfold clamp01, Rmin, Rmax. repeat destruct (Rle_dec _ _); lra. Qed.

Lemma unnorm_value v : fin v -> Pixel.unnorm v = ZnearestE (rnd32 (clamp01 (R32 v) * 255)).
Proof.
  intros F. unfold Pixel.unnorm.
  assert (F1 : fin (wide_max v F32.zero)) by (apply max_fin; [exact F | reflexivity]).
  assert (F2 : fin (wide_min (wide_max v F32.zero) F32.one)) by (apply min_fin; [exact F1 | reflexivity]).
  assert (V2 : R32 (wide_min (wide_max v F32.zero) F32.one) = clamp01 (R32 v)).
  { rewrite (min_value _ _ F1 (eq_refl : fin F32.one)), (max_value _ _ F (eq_refl : fin F32.zero)), R_one, R_zero. reflexivity. }
  pose proof (clamp01_bounds (R32 v)) as Bc.
  assert (X : Rabs (clamp01 (R32 v) * 255) <= 255) by (apply Rabs_le; lra).
  pose proof (Bmult_correct 24 128 _ _ mode_NE (wide_min (wide_max v F32.zero) F32.one) Pixel.f255) as C.
  rewrite V2, R_f255 in C.
  assert (X' : Rabs (clamp01 (R32 v) * 255) <= bpow radix2 100) by (rewrite pow100; lra).
  rewrite (Rlt_bool_true _ _ (lt_emax_of_le100 _ X')) in C. destruct C as (C1 & C2 & _).
  unfold fin, F32.is_finite in F2. rewrite F2 in C2. cbn [andb] in C2.
  rewrite round_int_value; [unfold F32.mul; rewrite C1; reflexivity | exact C2 |].
  unfold F32.mul. rewrite C1. eapply Rle_trans; [apply (rnd32_abs_le _ 8); [lia | change (bpow radix2 8) with 256; lra]|]. change (bpow radix2 8) with 256. lra.
Qed.

Lemma unnorm_mono v v' : fin v -> fin v' -> R32 v <= R32 v' -> (0 <= Pixel.unnorm v <= Pixel.unnorm v')%Z /\ (Pixel.unnorm v' <= 255)%Z.
Proof.
  intros F F' L. rewrite (unnorm_value v F), (unnorm_value v' F').
  pose proof (clamp01_bounds (R32 v)). pose proof (clamp01_bounds (R32 v')). pose proof (clamp01_mono _ _ L).
  split; [split|].
  - apply Z.le_trans with (ZnearestE (IZR 0)); [rewrite (@Zrnd_IZR ZnearestE _ 0); lia|].
    apply (@Zrnd_le ZnearestE _). eapply Rle_trans; [|apply rnd32_mono with (x := 0); lra]. rewrite rnd32_0. lra.
  - apply (@Zrnd_le ZnearestE _). apply rnd32_mono. lra.
  - apply Z.le_trans with (ZnearestE (IZR 255)); [|rewrite (@Zrnd_IZR ZnearestE _ 255); lia].
    apply (@Zrnd_le ZnearestE _).
    assert (E : rnd32 255 = 255) by (apply rnd32_id; rewrite <- R_f255; apply generic_format_B2R).
    eapply Rle_trans; [apply rnd32_mono with (y := 255); lra | rewrite E; lra].
Qed.

(* ---- syntactic non-negativity, discharging NN ---- *)
Fixpoint snn (e : ex) : bool :=
  match e with
  | V _ | One => true
  | Sub One (V _) => true
  | Add a b | Mul a b | Min a b | Max a b => snn a && snn b
  | Sub _ _ => false
  end.
Fixpoint nnb (e : ex) : bool :=
  match e with
  | V _ | One => true
  | Mul a b => nnb a && nnb b && snn a && snn b
  | Add a b | Sub a b | Min a b | Max a b => nnb a && nnb b
  end.

Lemma snn_nonneg env e : env_ok env -> ok e -> snn e = true -> 0 <= R32 (evalF env e).
Proof.
  intros He. induction e as [i | | a IHa b IHb | a IHa b IHb | a IHa b IHb | a IHa b IHb | a IHa b IHb]; intros O S.
  - cbn [evalF]. apply (He i).
  - cbn [evalF]. rewrite R_one. lra.
  - pose proof (ok_sub_parts a b O) as (Oa & Ob & Hb). cbn [snn] in S. apply andb_true_iff in S. destruct S as (Sa & Sb).
    destruct (op_values env a b He Oa Ob) as (Vv & _). destruct (Vv Hb) as (V1 & _). rewrite V1.
    specialize (IHa Oa Sa). specialize (IHb Ob Sb). rewrite <- rnd32_0. apply rnd32_mono. lra.
  - assert (O' : ok (Add a b)) by exact O. pose proof (ok_sub_parts a b O') as (Oa & Ob & Hb).
    destruct a; try discriminate S. destruct b; try discriminate S.
    destruct (op_values env One (V i) He Oa Ob) as (Vv & _). destruct (Vv Hb) as (_ & V1). rewrite V1.
    cbn [evalF]. rewrite R_one. rewrite <- rnd32_0. apply rnd32_mono. pose proof (He i). lra.
  - pose proof (ok_mul_parts a b O) as (Oa & Ob & Hb). cbn [snn] in S. apply andb_true_iff in S. destruct S as (Sa & Sb).
    destruct (op_values env a b He Oa Ob) as (_ & Vv). rewrite (Vv Hb).
    specialize (IHa Oa Sa). specialize (IHb Ob Sb). rewrite <- rnd32_0. apply rnd32_mono. nra.
  - cbn [ok] in O. destruct O as (Oa & Ob). cbn [snn] in S. apply andb_true_iff in S. destruct S as (Sa & Sb).
    destruct (eval_error env a He Oa) as (Fa & _). destruct (eval_error env b He Ob) as (Fb & _).
    cbn [evalF]. rewrite (min_value _ _ Fa Fb). specialize (IHa Oa Sa). specialize (IHb Ob Sb). unfold Rmin. destruct (Rle_dec _ _); lra.
  - cbn [ok] in O. destruct O as (Oa & Ob). cbn [snn] in S. apply andb_true_iff in S. destruct S as (Sa & Sb).
    destruct (eval_error env a He Oa) as (Fa & _). destruct (eval_error env b He Ob) as (Fb & _).
    cbn [evalF]. rewrite (max_value _ _ Fa Fb). specialize (IHa Oa Sa). specialize (IHb Ob Sb). unfold Rmax. destruct (Rle_dec _ _); lra.
Qed.

Lemma nnb_NN env e : env_ok env -> ok e -> nnb e = true -> NN env e.
Proof.
  intros He. induction e as [i | | a IHa b IHb | a IHa b IHb | a IHa b IHb | a IHa b IHb | a IHa b IHb]; intros O S; cbn [NN]; try exact I.
  - pose proof (ok_sub_parts a b O) as (Oa & Ob & _). cbn [nnb] in S. apply andb_true_iff in S. destruct S as (Sa & Sb). split; auto.
  - assert (O' : ok (Add a b)) by exact O. pose proof (ok_sub_parts a b O') as (Oa & Ob & _). cbn [nnb] in S. apply andb_true_iff in S. destruct S as (Sa & Sb). split; auto.
  - pose proof (ok_mul_parts a b O) as (Oa & Ob & _). cbn [nnb] in S. rewrite !andb_true_iff in S. destruct S as (((Sa & Sb) & Na) & Nb).
    split; [auto|]. split; [auto|]. split; apply snn_nonneg; assumption.
  - cbn [ok] in O. destruct O as (Oa & Ob). cbn [nnb] in S. apply andb_true_iff in S. destruct S as (Sa & Sb). split; auto.
  - cbn [ok] in O. destruct O as (Oa & Ob). cbn [nnb] in S. apply andb_true_iff in S. destruct S as (Sa & Sb). split; auto.
Qed.

(* the closures this argument covers: all Porter-Duff modes, Modulate, Multiply, Plus *)
Definition premul_e : list ex := [e_source_over; e_destination_over; e_source_in; e_destination_in; e_source_out; e_destination_out;
                                  e_source_atop; e_destination_atop; e_xor; e_modulate; e_multiply; e_plus].
Lemma premul_e_syntactic : forallb (fun e => posm e && nnb e) premul_e = true.
Proof. reflexivity. Qed.
Lemma premul_e_in_all e : In e premul_e -> In e all_e.
Proof. unfold premul_e, all_e. cbn [In]. intuition. Qed.

(* THE statement: in binary32, a colour channel computed from (s <= sa, d <= da) never exceeds the alpha channel computed by the
   same closure, and the stored bytes keep the order: premultipliedness is preserved exactly, with no tolerance. *)
Theorem highp_premul_exact s d sa da e :
  In e premul_e ->
  fin s -> fin d -> fin sa -> fin da ->
  0 <= R32 s <= 1 -> 0 <= R32 d <= 1 -> 0 <= R32 sa <= 1 -> 0 <= R32 da <= 1 ->
  R32 s <= R32 sa -> R32 d <= R32 da ->
  let c := evalF (env4 s d sa da) e in
  let a := evalF (env4 sa da sa da) e in
  fin c /\ fin a /\ R32 c <= R32 a /\ (0 <= Pixel.unnorm c <= Pixel.unnorm a)%Z /\ (Pixel.unnorm a <= 255)%Z.
Proof.
  intros Hin Fs Fd Fsa Fda Bs Bd Bsa Bda Ls Ld c a.
  pose proof all_ok as A. rewrite Forall_forall in A. destruct (A e (premul_e_in_all e Hin)) as (O & _).
  pose proof premul_e_syntactic as Sy. rewrite forallb_forall in Sy. specialize (Sy e Hin). apply andb_true_iff in Sy. destruct Sy as (Pm & Nb).
  assert (He : env_ok (env4 s d sa da)) by (intros i; destruct i as [|[|[|i]]]; cbn [env4]; split; assumption).
  assert (He' : env_ok (env4 sa da sa da)) by (intros i; destruct i as [|[|[|i]]]; cbn [env4]; split; assumption).
  destruct (eval_error _ e He O) as (Fc & _). destruct (eval_error _ e He' O) as (Fa & _).
  assert (L : R32 c <= R32 a).
  { apply evalF_mono; try assumption.
    - intros i Hi. destruct i as [|[|[|i]]]; try lia; reflexivity.
    - apply nnb_NN; assumption.
    - apply nnb_NN; assumption. }
  split; [exact Fc|]. split; [exact Fa|]. split; [exact L|]. apply unnorm_mono; assumption.
Qed.

Example premul_exact_example :
  let s := F32.of_bits 1050253722 in let sa := F32.of_bits 1058474557 in
  R32 s <= R32 sa /\ In e_source_over premul_e /\
  Pixel.unnorm (highp_source_over s s sa sa) = 108%Z /\ Pixel.unnorm (highp_source_over sa sa sa sa) = 212%Z.
Proof.
  cbv zeta. split; [|split; [left; reflexivity|]].
  - set (x := F32.of_bits 1050253722). set (y := F32.of_bits 1058474557). vm_compute in x, y. subst x y. unfold B2R, F2R. cbn. lra.
  - split; vm_compute; reflexivity.
Qed.

Definition premul_fn (f : f32 -> f32 -> f32 -> f32 -> f32) : Prop :=
  forall s d sa da, fin s -> fin d -> fin sa -> fin da ->
  0 <= R32 s <= 1 -> 0 <= R32 d <= 1 -> 0 <= R32 sa <= 1 -> 0 <= R32 da <= 1 -> R32 s <= R32 sa -> R32 d <= R32 da ->
  fin (f s d sa da) /\ fin (f sa da sa da) /\ R32 (f s d sa da) <= R32 (f sa da sa da) /\
  (0 <= Pixel.unnorm (f s d sa da) <= Pixel.unnorm (f sa da sa da))%Z /\ (Pixel.unnorm (f sa da sa da) <= 255)%Z.

Lemma premul_fn_of e f : In e premul_e -> (forall s d sa da, evalF (env4 s d sa da) e = f s d sa da) -> premul_fn f.
Proof.
  intros Hin Hf s d sa da Fs Fd Fsa Fda Bs Bd Bsa Bda Ls Ld. rewrite <- !Hf.
  exact (highp_premul_exact s d sa da e Hin Fs Fd Fsa Fda Bs Bd Bsa Bda Ls Ld).
Qed.

Theorem highp_premul_modes :
  premul_fn highp_source_over /\ premul_fn highp_destination_over /\ premul_fn highp_source_in /\ premul_fn highp_destination_in /\
  premul_fn highp_source_out /\ premul_fn highp_destination_out /\ premul_fn highp_source_atop /\ premul_fn highp_destination_atop /\
  premul_fn highp_xor /\ premul_fn highp_modulate /\ premul_fn highp_multiply /\ premul_fn highp_plus.
Proof.
  repeat match goal with |- _ /\ _ => split end.
  - apply (premul_fn_of e_source_over); [cbn; tauto | reflexivity].
  - apply (premul_fn_of e_destination_over); [cbn; tauto | reflexivity].
  - apply (premul_fn_of e_source_in); [cbn; tauto | reflexivity].
  - apply (premul_fn_of e_destination_in); [cbn; tauto | reflexivity].
  - apply (premul_fn_of e_source_out); [cbn; tauto | reflexivity].
  - apply (premul_fn_of e_destination_out); [cbn; tauto | reflexivity].
  - apply (premul_fn_of e_source_atop); [cbn; tauto | reflexivity].
  - apply (premul_fn_of e_destination_atop); [cbn; tauto | reflexivity].
  - apply (premul_fn_of e_xor); [cbn; tauto | reflexivity].
  - apply (premul_fn_of e_modulate); [cbn; tauto | reflexivity].
  - apply (premul_fn_of e_multiply); [cbn; tauto | reflexivity].
  - apply (premul_fn_of e_plus); [cbn; tauto | reflexivity].
Qed.
