(* Coverage / mask arithmetic of the low-precision pipeline (C10, C11): scaling by 255 is the
   identity, scaling by 0 gives 0, lerp stays between its end points, is monotone in the
   coverage and hits both end points exactly; the f32 coverage the blitter passes converts
   back to the same byte.  Integer parts: closed under the global context. *)
From Coq Require Import ZArith Bool List Lia.
From TS Require Import Base.F32 Base.U16 Gen.LowpGen Spec.BlendSpec Proofs.LowpProofs Model.Pixel.
Import ListNotations.
Local Open Scope Z_scope.

Lemma scale255_id v : 0 <= v <= 255 -> lowp_div255 (u16mul v 255) = v.
Proof. intros H. rewrite u16mul_small by lia. replace (v * 255) with (255 * v) by lia. apply div255_mul255, H. Qed.

Lemma scale0_zero v : 0 <= v <= 255 -> lowp_div255 (u16mul v 0) = 0.
Proof. intros H. rewrite u16mul_small by lia. replace (v * 0) with 0 by lia. reflexivity. Qed.

Lemma scale_le v c : 0 <= v <= 255 -> 0 <= c <= 255 -> 0 <= lowp_div255 (u16mul v c) <= v.
Proof.
  intros Hv Hc. rewrite u16mul_small by nia. split.
  - apply (div255_close (v * c)); nia.
  - apply div255_le_left; lia.
Qed.

Lemma scale_mono v c c' : 0 <= v <= 255 -> 0 <= c <= c' -> c' <= 255 ->
  lowp_div255 (u16mul v c) <= lowp_div255 (u16mul v c').
Proof. intros Hv Hc Hc'. rewrite !u16mul_small by nia. apply div255_mono; nia. Qed.

Lemma lerp_eq from to t : 0 <= from <= 255 -> 0 <= to <= 255 -> 0 <= t <= 255 ->
  lowp_lerp from to t = lowp_div255 (from * (255 - t) + to * t).
Proof.
  intros Hf Ht Hc. unfold lowp_lerp. rewrite inv_eq by lia.
  rewrite !u16mul_small by nia. rewrite u16add_small by nia. reflexivity.
Qed.

(* channel by channel, a partially covered pixel ends between its previous value and the
   fully drawn value *)
Theorem lerp_between from to t : 0 <= from <= 255 -> 0 <= to <= 255 -> 0 <= t <= 255 ->
  Z.min from to <= lowp_lerp from to t <= Z.max from to.
Proof.
  intros Hf Ht Hc. rewrite lerp_eq by lia. split.
  - apply Z.le_trans with (lowp_div255 (255 * Z.min from to)); [rewrite div255_mul255; lia | apply div255_mono; nia].
  - apply Z.le_trans with (lowp_div255 (255 * Z.max from to)); [apply div255_mono; nia | rewrite div255_mul255; lia].
Qed.

Theorem lerp_zero from to : 0 <= from <= 255 -> 0 <= to <= 255 -> lowp_lerp from to 0 = from.
Proof. intros. rewrite lerp_eq by lia. replace (from * (255 - 0) + to * 0) with (255 * from) by lia. apply div255_mul255; lia. Qed.

Theorem lerp_full from to : 0 <= from <= 255 -> 0 <= to <= 255 -> lowp_lerp from to 255 = to.
Proof. intros. rewrite lerp_eq by lia. replace (from * (255 - 255) + to * 255) with (255 * to) by lia. apply div255_mul255; lia. Qed.

Theorem lerp_mono from to t t' : 0 <= from <= 255 -> 0 <= to <= 255 -> 0 <= t <= t' -> t' <= 255 ->
  (from <= to -> lowp_lerp from to t <= lowp_lerp from to t') /\
  (to <= from -> lowp_lerp from to t' <= lowp_lerp from to t).
Proof.
  intros Hf Ht Hc Hc'. rewrite !lerp_eq by lia. split; intros; apply div255_mono; nia.
Qed.

(* |lerp - exact interpolation| <= 1/255 *)
Theorem lerp_close from to t : 0 <= from <= 255 -> 0 <= to <= 255 -> 0 <= t <= 255 ->
  -255 <= 255 * lowp_lerp from to t - (from * (255 - t) + to * t) <= 255.
Proof. intros. rewrite lerp_eq by lia. apply div255_close. nia. Qed.

(* the byte coverage survives the trip through f32: from_float (a * (1/255)) = a for all 256 bytes *)
Definition cov_roundtrip_ok (a : Z) : bool :=
  lowp_from_float (F32.mul (F32.of_Z a) inv255) =? a.

Lemma cov_roundtrip_all : forallb cov_roundtrip_ok (map Z.of_nat (seq 0 256)) = true.
Proof. vm_compute. reflexivity. Qed.

Theorem from_float_exact a : 0 <= a <= 255 -> lowp_from_float (F32.mul (F32.of_Z a) inv255) = a.
Proof.
  intros H. pose proof cov_roundtrip_all as A. rewrite forallb_forall in A.
  specialize (A a). unfold cov_roundtrip_ok in A. apply Z.eqb_eq, A.
  apply in_map_iff. exists (Z.to_nat a). split; [lia|]. apply in_seq. lia.
Qed.
