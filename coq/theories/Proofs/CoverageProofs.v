(* Coverage / mask arithmetic of the low-precision pipeline (C10, C11): scaling by 255 is the
   identity, scaling by 0 gives 0, lerp stays between its end points, is monotone in the
   coverage and hits both end points exactly; the f32 coverage the blitter passes converts
   back to the same byte.  Integer parts: closed under the global context. *)
From Coq Require Import ZArith Bool List Lia.
From TS Require Import Base.F32 Base.U16 Gen.LowpGen Spec.BlendSpec Proofs.LowpProofs Model.Pixel.
Import ListNotations.
Local Open Scope Z_scope.

Lemma scale255_id v : 0 <= v <= 255 -> lowp_div255 (u16mul v 255) = v.
Proof. intros H. rewrite u16mul_small by lia. replace (v * 255) with (255 * v) by lia. apply div255_mul255, H. Qed.

Lemma scale0_zero v : 0 <= v <= 255 -> lowp_div255 (u16mul v 0) = 0.
Proof. intros H. rewrite u16mul_small by lia. replace (v * 0) with 0 by lia. reflexivity. Qed.

Lemma scale_le v c : 0 <= v <= 255 -> 0 <= c <= 255 -> 0 <= lowp_div255 (u16mul v c) <= v.
Proof.
  intros Hv Hc. rewrite u16mul_small by nia. split.
  - apply (div255_close (v * c)); nia.
  - apply div255_le_left; lia.
Qed.

Lemma scale_mono v c c' : 0 <= v <= 255 -> 0 <= c <= c' -> c' <= 255 ->
  lowp_div255 (u16mul v c) <= lowp_div255 (u16mul v c').
Proof. intros Hv Hc Hc'. rewrite !u16mul_small by nia. apply div255_mono; nia. Qed.

Lemma lerp_eq from to t : 0 <= from <= 255 -> 0 <= to <= 255 -> 0 <= t <= 255 ->
  lowp_lerp from to t = lowp_div255 (from * (255 - t) + to * t).
Proof.
  intros Hf Ht Hc. unfold lowp_lerp. rewrite inv_eq by lia.
  rewrite !u16mul_small by nia. rewrite u16add_small by nia. reflexivity.
Qed.

(* channel by channel, a partially covered pixel ends between its previous value and the
   fully drawn value *)
Theorem lerp_between from to t : 0 <= from <= 255 -> 0 <= to <= 255 -> 0 <= t <= 255 ->
  Z.min from to <= lowp_lerp from to t <= Z.max from to.
Proof.
  intros Hf Ht Hc. rewrite lerp_eq by lia. split.
  - apply Z.le_trans with (lowp_div255 (255 * Z.min from to)); [rewrite div255_mul255; lia | apply div255_mono; nia].
  - apply Z.le_trans with (lowp_div255 (255 * Z.max from to)); [apply div255_mono; nia | rewrite div255_mul255; lia].
Qed.

Theorem lerp_zero from to : 0 <= from <= 255 -> 0 <= to <= 255 -> lowp_lerp from to 0 = from.
Proof. intros. rewrite lerp_eq by lia. replace (from * (255 - 0) + to * 0) with (255 * from) by lia. apply div255_mul255; lia. Qed.

Theorem lerp_full from to : 0 <= from <= 255 -> 0 <= to <= 255 -> lowp_lerp from to 255 = to.
Proof. intros. rewrite lerp_eq by lia. replace (from * (255 - 255) + to * 255) with (255 * to) by lia. apply div255_mul255; lia. Qed.

Theorem lerp_mono from to t t' : 0 <= from <= 255 -> 0 <= to <= 255 -> 0 <= t <= t' -> t' <= 255 ->
  (from <= to -> lowp_lerp from to t <= lowp_lerp from to t') /\
  (to <= from -> lowp_lerp from to t' <= lowp_lerp from to t).
Proof.
  intros Hf Ht Hc Hc'. rewrite !lerp_eq by lia. split; intros; apply div255_mono; nia.
Qed.

(* |lerp - exact interpolation| <= 1/255 *)
Theorem lerp_close from to t : 0 <= from <= 255 -> 0 <= to <= 255 -> 0 <= t <= 255 ->
  -255 <= 255 * lowp_lerp from to t - (from * (255 - t) + to * t) <= 255.
Proof. intros. rewrite lerp_eq by lia. apply div255_close. nia. Qed.

(* the byte coverage survives the trip through f32: from_float (a * (1/255)) = a for all 256 bytes *)
Definition cov_roundtrip_ok (a : Z) : bool :=
  lowp_from_float (F32.mul (F32.of_Z a) inv255) =? a.

Lemma cov_roundtrip_all : forallb cov_roundtrip_ok (map Z.of_nat (seq 0 256)) = true.
Proof. vm_compute. reflexivity. Qed.

Theorem from_float_exact a : 0 <= a <= 255 -> lowp_from_float (F32.mul (F32.of_Z a) inv255) = a.
Proof.
  intros H. pose proof cov_roundtrip_all as A. rewrite forallb_forall in A.
  specialize (A a). unfold cov_roundtrip_ok in A. apply Z.eqb_eq, A.
  apply in_map_iff. exists (Z.to_nat a). split; [lia|]. apply in_seq. lia.
Qed.

(* ---- a zero source leaves the destination unchanged, mode by mode (C10: mask byte 0) ---------- *)
Lemma d255 d : 0 <= d <= 255 -> lowp_div255 (d * 255) = d.
Proof. intros. replace (d * 255) with (255 * d) by lia. apply div255_mul255; lia. Qed.

Ltac zero_src :=
  intros d da Hd; unfold premul in Hd;
  repeat (first [ rewrite inv_eq by lia | rewrite u16mul_small by nia | rewrite u16add_small by nia
                | rewrite u16sub_small by nia ]);
  cbn [Z.leb]; rewrite ?Z.mul_0_l, ?Z.mul_0_r, ?Z.add_0_l, ?Z.add_0_r, ?Z.sub_0_r.

Theorem mask0_keeps_dst :
  forall d da, premul d da ->
  lowp_source_over 0 d 0 da = d /\ lowp_destination_over 0 d 0 da = d /\
  lowp_destination_out 0 d 0 da = d /\ lowp_source_atop 0 d 0 da = d /\
  lowp_xor 0 d 0 da = d /\ lowp_plus 0 d 0 da = d /\ lowp_screen 0 d 0 da = d /\
  lowp_multiply 0 d 0 da = d /\ lowp_darken 0 d 0 da = d /\ lowp_lighten 0 d 0 da = d /\
  lowp_difference 0 d 0 da = d /\ lowp_exclusion 0 d 0 da = d /\
  lowp_hard_light 0 d 0 da = d /\ lowp_overlay 0 d 0 da = d.
Proof.
  intros d da Hd. unfold premul in Hd.
  assert (I0 : lowp_inv 0 = 255) by reflexivity.
  assert (Ida : lowp_inv da = 255 - da) by (apply inv_eq; lia).
  assert (M0 : forall x, u16mul 0 x = 0) by (intros; unfold u16mul, u16wrap; rewrite Z.mul_0_l; reflexivity).
  assert (M0r : forall x, u16mul x 0 = 0) by (intros; unfold u16mul, u16wrap; rewrite Z.mul_0_r; reflexivity).
  assert (Md : u16mul d 255 = d * 255) by (apply u16mul_small; lia).
  assert (A0 : forall x, 0 <= x < 65536 -> u16add 0 x = x) by (intros; apply u16add_small; lia).
  assert (A0r : forall x, 0 <= x < 65536 -> u16add x 0 = x) by (intros; rewrite u16add_small; lia).
  assert (S0 : forall x, 0 <= x < 65536 -> u16sub x 0 = x) by (intros; rewrite u16sub_small; lia).
  assert (D : lowp_div255 (d * 255) = d) by (apply d255; lia).
  assert (D0 : lowp_div255 0 = 0) by reflexivity.
  repeat split.
  - unfold lowp_source_over. rewrite I0, Md, D. apply A0. lia.
  - unfold lowp_destination_over. rewrite M0, D0. apply A0r. lia.
  - unfold lowp_destination_out. rewrite I0, Md. exact D.
  - unfold lowp_source_atop. rewrite I0, M0, Md, A0 by lia. exact D.
  - unfold lowp_xor. rewrite I0, M0, Md, A0 by lia. exact D.
  - unfold lowp_plus. rewrite A0 by lia. lia.
  - unfold lowp_screen. rewrite M0, D0, A0 by lia. apply S0. lia.
  - unfold lowp_multiply. rewrite I0, !M0, Md, A0 by lia. rewrite A0r by lia. exact D.
  - unfold lowp_darken. rewrite M0, M0r. change (Z.max 0 0) with 0. rewrite D0, A0 by lia. apply S0. lia.
  - unfold lowp_lighten. rewrite M0, M0r. change (Z.min 0 0) with 0. rewrite D0, A0 by lia. apply S0. lia.
  - unfold lowp_difference. rewrite M0, M0r. change (Z.min 0 0) with 0. rewrite D0, M0r, A0 by lia. apply S0. lia.
  - unfold lowp_exclusion. rewrite M0, D0, M0r, A0 by lia. apply S0. lia.
  - unfold lowp_hard_light. rewrite I0, M0, Md. replace (u16add 0 0) with 0 by reflexivity.
    replace (0 <=? 0) with true by reflexivity. rewrite M0r, M0, A0 by lia. rewrite A0r by lia. exact D.
  - unfold lowp_overlay. rewrite I0, M0, Md.
    destruct (u16add d d <=? da).
    + rewrite M0r, M0, A0 by lia. rewrite A0r by lia. exact D.
    + assert (u16sub 0 0 = 0) by reflexivity. rewrite H, M0r, !M0. replace (u16sub 0 0) with 0 by reflexivity.
      rewrite A0 by lia. rewrite A0r by lia. exact D.
Qed.

(* the seven modes for which a zero source does NOT give back the destination: a mask byte 0
   overwrites the destination there (finding C10-mask-scales-source) *)
Theorem mask0_refuted :
  lowp_source_in 0 200 0 255 = 0 /\ lowp_destination_in 0 200 0 255 = 0 /\ lowp_source_out 0 200 0 255 = 0 /\
  lowp_destination_atop 0 200 0 255 = 0 /\ lowp_modulate 0 200 0 255 = 0 /\ lowp_clear 0 200 0 255 = 0.
Proof. repeat split; reflexivity. Qed.
