(* Rect::from_points (bit-exact model, after the fix) returns Some r only if every point is
   finite, and then r is exactly the bounding box of the points.
   Uses Flocq's B2R (real-number semantics of floats): depends on the standard library's
   classical real-number axioms. *)
From Coq Require Import ZArith Bool List Lia Reals Lra.
From Flocq Require Import Core.Raux IEEE754.BinarySingleNaN.
From TS Require Import Base.F32 Model.Rect.
Import ListNotations.

Notation R32 := (@B2R 24 128).

Definition fin (x : f32) : Prop := F32.is_finite x = true.
Definition finite_pt (p : pt) : Prop := fin (px p) /\ fin (py p).

(* m is the minimum (resp. maximum) of the values in l, as real numbers, and is one of them *)
Definition is_min (m : f32) (l : list f32) : Prop :=
  In m l /\ forall v, In v l -> (R32 m <= R32 v)%R.
Definition is_max (m : f32) (l : list f32) : Prop :=
  In m l /\ forall v, In v l -> (R32 v <= R32 m)%R.

(* ---- Rust f32::min / max on finite values ---------------------------------------- *)

Lemma fin_not_nan x : fin x -> F32.is_nan x = false.
Proof. destruct x; simpl; unfold fin; simpl; congruence. Qed.

Lemma min_fin x y : fin x -> fin y ->
  (F32.min x y = x \/ F32.min x y = y) /\ (R32 (F32.min x y) <= R32 x)%R /\ (R32 (F32.min x y) <= R32 y)%R.
Proof.
  intros Hx Hy. unfold F32.min. rewrite (fin_not_nan _ Hx), (fin_not_nan _ Hy).
  unfold F32.lt. rewrite (Bltb_correct _ _ y x Hy Hx).
  destruct (Rlt_bool_spec (R32 y) (R32 x)); repeat split; auto; lra.
Qed.

Lemma max_fin x y : fin x -> fin y ->
  (F32.max x y = x \/ F32.max x y = y) /\ (R32 x <= R32 (F32.max x y))%R /\ (R32 y <= R32 (F32.max x y))%R.
Proof.
  intros Hx Hy. unfold F32.max. rewrite (fin_not_nan _ Hx), (fin_not_nan _ Hy).
  unfold F32.lt. rewrite (Bltb_correct _ _ x y Hx Hy).
  destruct (Rlt_bool_spec (R32 x) (R32 y)); repeat split; auto; lra.
Qed.

Lemma fold_min_spec vals : forall m0, fin m0 -> Forall fin vals ->
  is_min (fold_left F32.min vals m0) (m0 :: vals) /\ fin (fold_left F32.min vals m0).
Proof.
  induction vals as [|v vals IH]; intros m0 H0 Hv.
  - simpl. split; [split; [left; reflexivity|]|exact H0]. intros v [<-|[]]. lra.
  - inversion Hv as [|? ? Hv1 Hv2]; subst. simpl.
    destruct (min_fin m0 v H0 Hv1) as (E & L1 & L2).
    assert (Hm : fin (F32.min m0 v)) by (destruct E as [-> | ->]; auto).
    destruct (IH _ Hm Hv2) as ((I & L) & F). split; [|exact F]. split.
    + destruct I as [I | I]; [|right; right; exact I].
      rewrite <- I. destruct E as [-> | ->]; [left|right; left]; reflexivity.
    + intros w [<- | [<- | W]].
      * eapply Rle_trans; [apply L; left; reflexivity | exact L1].
      * eapply Rle_trans; [apply L; left; reflexivity | exact L2].
      * apply L. right. exact W.
Qed.

Lemma fold_max_spec vals : forall m0, fin m0 -> Forall fin vals ->
  is_max (fold_left F32.max vals m0) (m0 :: vals) /\ fin (fold_left F32.max vals m0).
Proof.
  induction vals as [|v vals IH]; intros m0 H0 Hv.
  - simpl. split; [split; [left; reflexivity|]|exact H0]. intros v [<-|[]]. lra.
  - inversion Hv as [|? ? Hv1 Hv2]; subst. simpl.
    destruct (max_fin m0 v H0 Hv1) as (E & L1 & L2).
    assert (Hm : fin (F32.max m0 v)) by (destruct E as [-> | ->]; auto).
    destruct (IH _ Hm Hv2) as ((I & L) & F). split; [|exact F]. split.
    + destruct I as [I | I]; [|right; right; exact I].
      rewrite <- I. destruct E as [-> | ->]; [left|right; left]; reflexivity.
    + intros w [<- | [<- | W]].
      * eapply Rle_trans; [exact L1 | apply L; left; reflexivity].
      * eapply Rle_trans; [exact L2 | apply L; left; reflexivity].
      * apply L. right. exact W.
Qed.

(* ---- the finiteness accumulator --------------------------------------------------- *)

Definition is_zero (x : f32) : bool := match x with B754_zero _ => true | _ => false end.
Definition zn (x : f32) : bool := match x with B754_zero _ | B754_nan => true | _ => false end.

Lemma mul_zn a x : zn a = true ->
  zn (F32.mul a x) = true /\ is_zero (F32.mul a x) = is_zero a && F32.is_finite x.
Proof. destruct a, x; simpl; intros H; try discriminate; auto. Qed.

Lemma mul_zero_seed m : zn (F32.mul m F32.zero) = true /\ is_zero (F32.mul m F32.zero) = F32.is_finite m.
Proof. destruct m; simpl; auto. Qed.

Lemma eq_zero_iff a : zn a = true -> F32.eq (F32.mul a F32.zero) F32.zero = is_zero a.
Proof. destruct a; simpl; intros H; try discriminate; auto. Qed.

Lemma fold_mul_zn vals : forall a, zn a = true ->
  zn (fold_left F32.mul vals a) = true /\
  (is_zero (fold_left F32.mul vals a) = true -> is_zero a = true /\ Forall fin vals).
Proof.
  induction vals as [|v vals IH]; intros a Ha; simpl.
  - auto.
  - destruct (mul_zn a v Ha) as (Z1 & Z2). destruct (IH _ Z1) as (Z3 & Z4).
    split; [exact Z3|]. intros Hz. destruct (Z4 Hz) as (Z5 & Z6).
    rewrite Z2 in Z5. apply andb_prop in Z5. destruct Z5 as [Z5 Z7].
    split; [exact Z5|]. constructor; auto.
Qed.

(* ---- lanes of fp_loop as four independent folds -------------------------------------- *)

Fixpoint evens (l : list pt) : list pt := match l with a :: _ :: r => a :: evens r | _ => [] end.
Fixpoint odds (l : list pt) : list pt := match l with _ :: b :: r => b :: odds r | _ => [] end.

Lemma pair_ind (P : list pt -> Prop) :
  P [] -> (forall a, P [a]) -> (forall a b l, P l -> P (a :: b :: l)) -> forall l, P l.
Proof.
  intros H0 H1 H2. fix IH 1. intros [|a [|b l]]; [exact H0 | apply H1 | apply H2, IH].
Qed.

Lemma fp_loop_lanes (f : lanes -> f32) ps : forall acc mn mx acc' mn' mx',
  fp_loop ps acc mn mx = Some (acc', mn', mx') ->
  (forall p, In p ps -> In p (evens ps) \/ In p (odds ps)) /\
  l0 acc' = fold_left F32.mul (map px (evens ps)) (l0 acc) /\
  l1 acc' = fold_left F32.mul (map py (evens ps)) (l1 acc) /\
  l2 acc' = fold_left F32.mul (map px (odds ps)) (l2 acc) /\
  l3 acc' = fold_left F32.mul (map py (odds ps)) (l3 acc) /\
  l0 mn' = fold_left F32.min (map px (evens ps)) (l0 mn) /\
  l1 mn' = fold_left F32.min (map py (evens ps)) (l1 mn) /\
  l2 mn' = fold_left F32.min (map px (odds ps)) (l2 mn) /\
  l3 mn' = fold_left F32.min (map py (odds ps)) (l3 mn) /\
  l0 mx' = fold_left F32.max (map px (evens ps)) (l0 mx) /\
  l1 mx' = fold_left F32.max (map py (evens ps)) (l1 mx) /\
  l2 mx' = fold_left F32.max (map px (odds ps)) (l2 mx) /\
  l3 mx' = fold_left F32.max (map py (odds ps)) (l3 mx).
Proof.
  induction ps as [| a | a b l IH] using pair_ind; intros acc mn mx acc' mn' mx' H.
  - simpl in H. inversion H; subst. simpl. repeat split; auto.
  - simpl in H. discriminate.
  - simpl in H. apply IH in H. destruct H as (HI & H). simpl.
    split.
    + intros p [<- | [<- | Hp]]; [left; left; auto | right; left; auto|].
      destruct (HI p Hp); [left; right; auto | right; right; auto].
    + exact H.
Qed.

(* ---- from_ltrb ---------------------------------------------------------------------- *)

Lemma from_ltrb_some l t r b rc : from_ltrb l t r b = Some rc ->
  rc = mkrect l t r b /\ fin l /\ fin t /\ fin r /\ fin b.
Proof.
  unfold from_ltrb.
  destruct (F32.is_finite l) eqn:Fl, (F32.is_finite t) eqn:Ft, (F32.is_finite r) eqn:Fr,
           (F32.is_finite b) eqn:Fb; simpl; try discriminate.
  destruct (F32.le l r && F32.le t b); try discriminate.
  destruct (checked_f32_sub r l); try discriminate.
  destruct (checked_f32_sub b t); try discriminate.
  intros H; inversion H; subst. repeat split; auto.
Qed.

Lemma add_zero_fin x : fin (F32.add F32.zero x) -> fin x /\ R32 (F32.add F32.zero x) = R32 x.
Proof.
  destruct x as [s | s | | s m e Hb]; simpl; unfold fin; simpl; auto.
  destruct s; simpl; auto.
Qed.

(* ---- the theorem ------------------------------------------------------------------- *)

Definition BBoxS (r : rect) (ps : list pt) : Prop :=
  is_min (rl r) (map px ps) /\ is_min (rt r) (map py ps) /\
  is_max (rr r) (map px ps) /\ is_max (rb r) (map py ps).

(* the same with membership up to the real value (0 + (-0) = +0 is the same number) *)
Definition is_minR (m : f32) (l : list f32) : Prop :=
  (exists v, In v l /\ R32 v = R32 m) /\ forall v, In v l -> (R32 m <= R32 v)%R.
Definition is_maxR (m : f32) (l : list f32) : Prop :=
  (exists v, In v l /\ R32 v = R32 m) /\ forall v, In v l -> (R32 v <= R32 m)%R.
Definition BBox (r : rect) (ps : list pt) : Prop :=
  is_minR (rl r) (map px ps) /\ is_minR (rt r) (map py ps) /\
  is_maxR (rr r) (map px ps) /\ is_maxR (rb r) (map py ps).

Lemma BBoxS_BBox r ps : BBoxS r ps -> BBox r ps.
Proof.
  intros ((A1 & A2) & (B1 & B2) & (C1 & C2) & (D1 & D2)).
  repeat split; eauto.
Qed.

Lemma in_map_f {A B} (f : A -> B) l x : In x l -> In (f x) (map f l).
Proof. apply in_map. Qed.

(* combining two lanes: min of two minima over a cover of the list *)
Lemma is_min_cover (f : pt -> f32) (ps e o : list pt) m0 m1 :
  (forall p, In p ps -> In p e \/ In p o) ->
  (forall p, In p e -> In p ps) -> (forall p, In p o -> In p ps) ->
  is_min m0 (map f e) -> is_min m1 (map f o) -> fin m0 -> fin m1 ->
  is_min (F32.min m0 m1) (map f ps).
Proof.
  intros C E O (I0 & L0) (I1 & L1) F0 F1.
  destruct (min_fin m0 m1 F0 F1) as (Eq & A & B). split.
  - destruct Eq as [-> | ->].
    + apply in_map_iff in I0. destruct I0 as (p & <- & Hp). apply in_map, E, Hp.
    + apply in_map_iff in I1. destruct I1 as (p & <- & Hp). apply in_map, O, Hp.
  - intros v Hv. apply in_map_iff in Hv. destruct Hv as (p & <- & Hp).
    destruct (C p Hp) as [He | Ho].
    + eapply Rle_trans; [exact A | apply L0, in_map, He].
    + eapply Rle_trans; [exact B | apply L1, in_map, Ho].
Qed.

Lemma is_max_cover (f : pt -> f32) (ps e o : list pt) m0 m1 :
  (forall p, In p ps -> In p e \/ In p o) ->
  (forall p, In p e -> In p ps) -> (forall p, In p o -> In p ps) ->
  is_max m0 (map f e) -> is_max m1 (map f o) -> fin m0 -> fin m1 ->
  is_max (F32.max m0 m1) (map f ps).
Proof.
  intros C E O (I0 & L0) (I1 & L1) F0 F1.
  destruct (max_fin m0 m1 F0 F1) as (Eq & A & B). split.
  - destruct Eq as [-> | ->].
    + apply in_map_iff in I0. destruct I0 as (p & <- & Hp). apply in_map, E, Hp.
    + apply in_map_iff in I1. destruct I1 as (p & <- & Hp). apply in_map, O, Hp.
  - intros v Hv. apply in_map_iff in Hv. destruct Hv as (p & <- & Hp).
    destruct (C p Hp) as [He | Ho].
    + eapply Rle_trans; [apply L0, in_map, He | exact A].
    + eapply Rle_trans; [apply L1, in_map, Ho | exact B].
Qed.

Lemma evens_in l p : In p (evens l) -> In p l.
Proof.
  revert p. induction l as [| a | a b l IH] using pair_ind; simpl; intros p H; try tauto.
  destruct H as [<- | H]; auto.
Qed.
Lemma odds_in l p : In p (odds l) -> In p l.
Proof.
  revert p. induction l as [| a | a b l IH] using pair_ind; simpl; intros p H; try tauto.
  destruct H as [<- | H]; auto.
Qed.

Lemma Forall_map_fin (f : pt -> f32) l : Forall fin (map f l) <-> forall p, In p l -> fin (f p).
Proof.
  rewrite Forall_forall. split.
  - intros H p Hp. apply H, in_map, Hp.
  - intros H v Hv. apply in_map_iff in Hv. destruct Hv as (p & <- & Hp). auto.
Qed.

(* the four lanes after the loop, for the general (3+ points) case *)
Lemma general_case ps0 rest mn r :
  (* ps0: the points loaded into the initial lanes; rest: the points consumed by the loop *)
  (forall p, In p ps0 -> (px p = l0 mn /\ py p = l1 mn) \/ (px p = l2 mn /\ py p = l3 mn)) ->
  (exists p, In p ps0 /\ px p = l0 mn /\ py p = l1 mn) ->
  (exists p, In p ps0 /\ px p = l2 mn /\ py p = l3 mn) ->
  match fp_loop rest (lanes_map2 F32.mul mn lanes_zero) mn mn with
  | None => None
  | Some (acc, mn', mx') =>
      if lanes_eq (lanes_map2 F32.mul acc lanes_zero) lanes_zero then
        from_ltrb (F32.min (l0 mn') (l2 mn')) (F32.min (l1 mn') (l3 mn'))
                  (F32.max (l0 mx') (l2 mx')) (F32.max (l1 mx') (l3 mx'))
      else None
  end = Some r ->
  Forall finite_pt (ps0 ++ rest) /\ BBoxS r (ps0 ++ rest).
Proof.
  intros Hinit (pa & Ipa & Pax & Pay) (pb & Ipb & Pbx & Pby) H.
  destruct (fp_loop rest _ mn mn) as [[[acc mn'] mx']|] eqn:L; [|discriminate].
  destruct (lanes_eq _ _) eqn:E; [|discriminate].
  apply from_ltrb_some in H. destruct H as (-> & _).
  destruct (fp_loop_lanes (fun x => l0 x) _ _ _ _ _ _ _ L)
    as (Cov & A0 & A1 & A2 & A3 & N0 & N1 & N2 & N3 & X0 & X1 & X2 & X3).
  simpl in A0, A1, A2, A3.
  (* accumulator lanes are all zero *)
  unfold lanes_eq, lanes_map2, lanes_zero in E. simpl in E.
  destruct (mul_zero_seed (l0 mn)) as (S0 & T0). destruct (mul_zero_seed (l1 mn)) as (S1 & T1).
  destruct (mul_zero_seed (l2 mn)) as (S2 & T2). destruct (mul_zero_seed (l3 mn)) as (S3 & T3).
  destruct (fold_mul_zn (map px (evens rest)) _ S0) as (Z0 & W0).
  destruct (fold_mul_zn (map py (evens rest)) _ S1) as (Z1 & W1).
  destruct (fold_mul_zn (map px (odds rest)) _ S2) as (Z2 & W2).
  destruct (fold_mul_zn (map py (odds rest)) _ S3) as (Z3 & W3).
  rewrite <- A0 in Z0, W0. rewrite <- A1 in Z1, W1. rewrite <- A2 in Z2, W2. rewrite <- A3 in Z3, W3.
  rewrite (eq_zero_iff _ Z0), (eq_zero_iff _ Z1), (eq_zero_iff _ Z2), (eq_zero_iff _ Z3) in E.
  apply andb_prop in E. destruct E as [E E3]. apply andb_prop in E. destruct E as [E E2].
  apply andb_prop in E. destruct E as [E0 E1].
  destruct (W0 E0) as (I0 & F0). destruct (W1 E1) as (I1 & F1).
  destruct (W2 E2) as (I2 & F2). destruct (W3 E3) as (I3 & F3).
  rewrite T0 in I0. rewrite T1 in I1. rewrite T2 in I2. rewrite T3 in I3.
  change (fin (l0 mn)) in I0. change (fin (l1 mn)) in I1.
  change (fin (l2 mn)) in I2. change (fin (l3 mn)) in I3.
  rewrite Forall_map_fin in F0, F1, F2, F3.
  assert (Fall : forall p, In p (ps0 ++ rest) -> finite_pt p).
  { intros p Hp. unfold finite_pt. apply in_app_or in Hp. destruct Hp as [Hp | Hp].
    - destruct (Hinit p Hp) as [[-> ->] | [-> ->]]; split; auto.
    - destruct (Cov p Hp) as [He | Ho]; split; auto. }
  split; [apply Forall_forall, Fall|].
  (* minima / maxima per lane *)
  destruct (fold_min_spec (map px (evens rest)) (l0 mn) I0 (proj2 (Forall_map_fin _ _) F0)) as (M0 & G0).
  destruct (fold_min_spec (map py (evens rest)) (l1 mn) I1 (proj2 (Forall_map_fin _ _) F1)) as (M1 & G1).
  destruct (fold_min_spec (map px (odds rest)) (l2 mn) I2 (proj2 (Forall_map_fin _ _) F2)) as (M2 & G2).
  destruct (fold_min_spec (map py (odds rest)) (l3 mn) I3 (proj2 (Forall_map_fin _ _) F3)) as (M3 & G3).
  destruct (fold_max_spec (map px (evens rest)) (l0 mn) I0 (proj2 (Forall_map_fin _ _) F0)) as (P0 & Q0).
  destruct (fold_max_spec (map py (evens rest)) (l1 mn) I1 (proj2 (Forall_map_fin _ _) F1)) as (P1 & Q1).
  destruct (fold_max_spec (map px (odds rest)) (l2 mn) I2 (proj2 (Forall_map_fin _ _) F2)) as (P2 & Q2).
  destruct (fold_max_spec (map py (odds rest)) (l3 mn) I3 (proj2 (Forall_map_fin _ _) F3)) as (P3 & Q3).
  rewrite <- N0 in M0, G0. rewrite <- N1 in M1, G1. rewrite <- N2 in M2, G2. rewrite <- N3 in M3, G3.
  rewrite <- X0 in P0, Q0. rewrite <- X1 in P1, Q1. rewrite <- X2 in P2, Q2. rewrite <- X3 in P3, Q3.
  (* covers: lane 0/1 see pa and evens, lane 2/3 see pb and odds *)
  set (e := pa :: evens rest). set (o := pb :: odds rest).
  assert (C : forall p, In p (ps0 ++ rest) -> In p e \/ In p o \/
              ((px p = l0 mn /\ py p = l1 mn) \/ (px p = l2 mn /\ py p = l3 mn))).
  { intros p Hp. apply in_app_or in Hp. destruct Hp as [Hp | Hp].
    - right. right. apply Hinit, Hp.
    - destruct (Cov p Hp); [left; right; auto | right; left; right; auto]. }
  assert (Ein : forall p, In p e -> In p (ps0 ++ rest)).
  { intros p [<- | Hp]; apply in_or_app; [left; auto | right; apply evens_in, Hp]. }
  assert (Oin : forall p, In p o -> In p (ps0 ++ rest)).
  { intros p [<- | Hp]; apply in_or_app; [left; auto | right; apply odds_in, Hp]. }
  unfold BBoxS. simpl.
  (* generic combination, stated on values to absorb the "initial lanes" case *)
  assert (KMIN : forall (f : pt -> f32) a b ma mb,
            f pa = a -> f pb = b ->
            (forall p, In p ps0 -> f p = a \/ f p = b) ->
            is_min ma (a :: map f (evens rest)) -> is_min mb (b :: map f (odds rest)) ->
            fin ma -> fin mb -> is_min (F32.min ma mb) (map f (ps0 ++ rest))).
  { intros f a b ma mb Ea Eb Hi (Ia & La) (Ib & Lb) Fa Fb.
    destruct (min_fin ma mb Fa Fb) as (Eq & A & B). split.
    - destruct Eq as [-> | ->].
      + destruct Ia as [<- | Ia]; [rewrite <- Ea; apply in_map, in_or_app; left; auto|].
        apply in_map_iff in Ia. destruct Ia as (p & <- & Hp). apply in_map, in_or_app. right. apply evens_in, Hp.
      + destruct Ib as [<- | Ib]; [rewrite <- Eb; apply in_map, in_or_app; left; auto|].
        apply in_map_iff in Ib. destruct Ib as (p & <- & Hp). apply in_map, in_or_app. right. apply odds_in, Hp.
    - intros v Hv. apply in_map_iff in Hv. destruct Hv as (p & <- & Hp).
      apply in_app_or in Hp. destruct Hp as [Hp | Hp].
      + destruct (Hi p Hp) as [-> | ->].
        * eapply Rle_trans; [exact A | apply La; left; reflexivity].
        * eapply Rle_trans; [exact B | apply Lb; left; reflexivity].
      + destruct (Cov p Hp) as [He | Ho].
        * eapply Rle_trans; [exact A | apply La; right; apply in_map, He].
        * eapply Rle_trans; [exact B | apply Lb; right; apply in_map, Ho]. }
  assert (KMAX : forall (f : pt -> f32) a b ma mb,
            f pa = a -> f pb = b ->
            (forall p, In p ps0 -> f p = a \/ f p = b) ->
            is_max ma (a :: map f (evens rest)) -> is_max mb (b :: map f (odds rest)) ->
            fin ma -> fin mb -> is_max (F32.max ma mb) (map f (ps0 ++ rest))).
  { intros f a b ma mb Ea Eb Hi (Ia & La) (Ib & Lb) Fa Fb.
    destruct (max_fin ma mb Fa Fb) as (Eq & A & B). split.
    - destruct Eq as [-> | ->].
      + destruct Ia as [<- | Ia]; [rewrite <- Ea; apply in_map, in_or_app; left; auto|].
        apply in_map_iff in Ia. destruct Ia as (p & <- & Hp). apply in_map, in_or_app. right. apply evens_in, Hp.
      + destruct Ib as [<- | Ib]; [rewrite <- Eb; apply in_map, in_or_app; left; auto|].
        apply in_map_iff in Ib. destruct Ib as (p & <- & Hp). apply in_map, in_or_app. right. apply odds_in, Hp.
    - intros v Hv. apply in_map_iff in Hv. destruct Hv as (p & <- & Hp).
      apply in_app_or in Hp. destruct Hp as [Hp | Hp].
      + destruct (Hi p Hp) as [-> | ->].
        * eapply Rle_trans; [apply La; left; reflexivity | exact A].
        * eapply Rle_trans; [apply Lb; left; reflexivity | exact B].
      + destruct (Cov p Hp) as [He | Ho].
        * eapply Rle_trans; [apply La; right; apply in_map, He | exact A].
        * eapply Rle_trans; [apply Lb; right; apply in_map, Ho | exact B]. }
  assert (HX : forall p, In p ps0 -> px p = l0 mn \/ px p = l2 mn).
  { intros p Hp. destruct (Hinit p Hp) as [[? ?] | [? ?]]; auto. }
  assert (HY : forall p, In p ps0 -> py p = l1 mn \/ py p = l3 mn).
  { intros p Hp. destruct (Hinit p Hp) as [[? ?] | [? ?]]; auto. }
  repeat split.
  - apply (KMIN px (l0 mn) (l2 mn)); auto.
  - apply (KMIN px (l0 mn) (l2 mn)); auto.
  - apply (KMIN py (l1 mn) (l3 mn)); auto.
  - apply (KMIN py (l1 mn) (l3 mn)); auto.
  - apply (KMAX px (l0 mn) (l2 mn)); auto.
  - apply (KMAX px (l0 mn) (l2 mn)); auto.
  - apply (KMAX py (l1 mn) (l3 mn)); auto.
  - apply (KMAX py (l1 mn) (l3 mn)); auto.
Qed.

Theorem from_points_spec ps r :
  from_points ps = Some r -> Forall finite_pt ps /\ BBox r ps.
Proof.
  unfold from_points, from_points_gen.
  destruct ps as [|p0 [|p1 [|p2 rest]]].
  - discriminate.
  - (* one point *)
    unfold from_xywh. intros H. apply from_ltrb_some in H. destruct H as (-> & Fx & Fy & Fr & Fb).
    destruct (add_zero_fin _ Fr) as (_ & Er). destruct (add_zero_fin _ Fb) as (_ & Eb).
    split; [constructor; [split; auto|constructor]|].
    unfold BBox, is_minR, is_maxR. cbn [map rl rt rr rb In].
    repeat split; try (eexists; split; [left; reflexivity|]; auto; fail);
      try (intros v [<-|[]]; lra).
  - (* two points *)
    intros H. apply and_comm. split; [apply BBoxS_BBox|];
    destruct (F32.lt (px p0) (px p1)) eqn:Lx; destruct (F32.lt (py p0) (py p1)) eqn:Ly;
      apply from_ltrb_some in H; destruct H as (-> & Fl & Ft & Fr & Fb);
      try (repeat constructor; auto; fail);
      unfold BBoxS, is_min, is_max; simpl;
      unfold F32.lt in Lx, Ly;
      rewrite Bltb_correct in Lx by auto; rewrite Bltb_correct in Ly by auto;
      destruct (Rlt_bool_spec (R32 (px p0)) (R32 (px p1))); try discriminate;
      destruct (Rlt_bool_spec (R32 (py p0)) (R32 (py p1))); try discriminate;
      repeat split; auto; intros v [<-|[<-|[]]]; lra.
  - (* three or more points *)
    set (ps := p0 :: p1 :: p2 :: rest).
    destruct (Z.odd (Z.of_nat (length ps))) eqn:Odd.
    + intros H.
      change ps with ([p0] ++ (p1 :: p2 :: rest)).
      destruct (general_case [p0] (p1 :: p2 :: rest) (mklanes (px p0) (py p0) (px p0) (py p0)) r) as (A & B); auto.
      * intros p [<-|[]]. left. auto.
      * exists p0. simpl. auto.
      * exists p0. simpl. auto.
      * split; [exact A | apply BBoxS_BBox, B].
    + intros H.
      change ps with ([p0; p1] ++ (p2 :: rest)).
      destruct (general_case [p0; p1] (p2 :: rest) (mklanes (px p0) (py p0) (px p1) (py p1)) r) as (A & B); auto.
      * intros p [<-|[<-|[]]]; simpl; auto.
      * exists p0. simpl. auto.
      * exists p1. simpl. auto.
      * split; [exact A | apply BBoxS_BBox, B].
Qed.

From TS Require Import Model.PathBuilder Proofs.PathBuilderStruct.

Theorem finish_finite_bounds b p :
  finish b = Some p -> Forall finite_pt (ppoints p) /\ BBox (pbounds p) (ppoints p).
Proof.
  unfold finish, finish_gen. destruct (verbs b) as [|v1 [|v2 vs]]; try discriminate.
  destruct (from_points (points b)) eqn:E; try discriminate.
  intros H; inversion H; subst; simpl. apply from_points_spec, E.
Qed.

Lemma from_ltrb_le l t r b rc : from_ltrb l t r b = Some rc ->
  (R32 l <= R32 r)%R /\ (R32 t <= R32 b)%R.
Proof.
  intros H. destruct (from_ltrb_some _ _ _ _ _ H) as (_ & Fl & Ft & Fr & Fb).
  unfold from_ltrb in H. unfold fin in *. rewrite Fl, Ft, Fr, Fb in H. simpl in H.
  destruct (F32.le l r) eqn:A; [|discriminate]. destruct (F32.le t b) eqn:B; [|discriminate].
  unfold F32.le in A, B. rewrite Bleb_correct in A, B by auto.
  destruct (Rle_bool_spec (R32 l) (R32 r)); try discriminate.
  destruct (Rle_bool_spec (R32 t) (R32 b)); try discriminate. auto.
Qed.

Theorem from_rect_wf l t r b rc : from_ltrb l t r b = Some rc ->
  StructWF (pverbs (path_from_rect rc)) (ppoints (path_from_rect rc)) /\
  Forall finite_pt (ppoints (path_from_rect rc)) /\ BBox (pbounds (path_from_rect rc)) (ppoints (path_from_rect rc)).
Proof.
  intros H. destruct (from_ltrb_le _ _ _ _ _ H) as (Lx & Ly).
  destruct (from_ltrb_some _ _ _ _ _ H) as (-> & Fl & Ft & Fr & Fb).
  split; [|split].
  - unfold StructWF. simpl. intuition (try discriminate; try lia).
  - simpl. repeat constructor; auto.
  - unfold BBox, is_minR, is_maxR. simpl.
    repeat split; try (eexists; split; [left; reflexivity|reflexivity]);
      try (eexists; split; [right; left; reflexivity|reflexivity]);
      try (eexists; split; [right; right; left; reflexivity|reflexivity]);
      intros v [<-|[<-|[<-|[<-|[]]]]]; lra.
Qed.

From TS Require Import Model.Transform Model.PathOps.

(* Path::transform keeps the verbs and the point count, and re-establishes finite points and
   exact bounds (it recomputes them from the mapped points) *)
Theorem path_transform_wf t p p' :
  StructWF (pverbs p) (ppoints p) ->
  Forall finite_pt (ppoints p) -> BBox (pbounds p) (ppoints p) ->
  path_transform t p = Some p' ->
  StructWF (pverbs p') (ppoints p') /\ Forall finite_pt (ppoints p') /\ BBox (pbounds p') (ppoints p').
Proof.
  intros W F B. unfold path_transform.
  destruct (is_identity t); [intros H; inversion H; subst; auto|].
  destruct (from_points (map_points t (ppoints p))) eqn:E; [|discriminate].
  intros H; inversion H; subst; simpl.
  split; [|apply from_points_spec, E].
  destruct W as (A1 & A2 & A3 & A4 & A5 & A6). unfold StructWF. repeat split; auto.
  unfold map_points. rewrite map_length. exact A6.
Qed.
