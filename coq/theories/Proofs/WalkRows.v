(* C02: the whole walk.  At every row the active list of the scan converter is, up to order, exactly the set of edges whose
   row range contains that row, each advanced by its slope once per row since its first row, and it is sorted by x. *)
From Coq Require Import ZArith Bool List Lia Permutation.
From TS Require Import Base.F32 Model.Rect Model.PathBuilder Model.Edge Model.Walk Proofs.WalkProofs Proofs.WalkSorted.
Import ListNotations.
Local Open Scope Z_scope.

(* ---- the initial sort -------------------------------------------------------------------------------------------------------- *)
Fixpoint ysorted (l : list ledge) : Prop :=
  match l with [] => True | a :: r => (forall b, In b r -> edge_le a b = true) /\ ysorted r end.

Lemma edge_le_total a b : edge_le a b = false -> edge_le b a = true.
Proof.
  unfold edge_le. destruct (e_first_y a =? e_first_y b) eqn:E.
  - apply Z.eqb_eq in E. rewrite E, Z.eqb_refl. intros H. apply Z.leb_gt in H. apply Z.leb_le. lia.
  - apply Z.eqb_neq in E. intros H. apply Z.ltb_ge in H. destruct (e_first_y b =? e_first_y a) eqn:E2; [apply Z.eqb_eq in E2; lia|]. apply Z.ltb_lt. lia.
Qed.
Lemma edge_le_iff a b : edge_le a b = true <-> (e_first_y a < e_first_y b \/ (e_first_y a = e_first_y b /\ e_x a <= e_x b)).
Proof.
  unfold edge_le. destruct (e_first_y a =? e_first_y b) eqn:E.
  - apply Z.eqb_eq in E. rewrite Z.leb_le. lia.
  - apply Z.eqb_neq in E. rewrite Z.ltb_lt. lia.
Qed.
Lemma edge_le_trans a b c : edge_le a b = true -> edge_le b c = true -> edge_le a c = true.
Proof. rewrite !edge_le_iff. lia. Qed.

Lemma insert_sorted_perm e : forall l, Permutation (insert_sorted e l) (e :: l).
Proof.
  induction l as [|h t IH]; cbn [insert_sorted]; [reflexivity|]. destruct (edge_le h e); [|reflexivity].
  rewrite IH. apply perm_swap.
Qed.
Lemma insert_sorted_ysorted e : forall l, ysorted l -> ysorted (insert_sorted e l).
Proof.
  induction l as [|h t IH]; intros H; cbn [insert_sorted ysorted] in *; [split; [intros b []|exact I]|].
  destruct H as (H1 & H2). destruct (edge_le h e) eqn:E.
  - cbn [ysorted]. split; [|apply IH; exact H2]. intros b Hb. apply (Permutation_in _ (insert_sorted_perm e t)) in Hb.
    destruct Hb as [<- | Hb]; [exact E | apply H1; exact Hb].
  - cbn [ysorted]. split; [|split; assumption]. apply edge_le_total in E.
    intros b [<- | Hb]; [exact E | eapply edge_le_trans; [exact E | apply H1; exact Hb]].
Qed.
Lemma fold_insert_spec : forall l acc, ysorted acc ->
  ysorted (fold_left (fun a e => insert_sorted e a) l acc) /\ Permutation (fold_left (fun a e => insert_sorted e a) l acc) (acc ++ l).
Proof.
  induction l as [|e t IH]; intros acc Ha; cbn [fold_left]; [rewrite app_nil_r; split; [exact Ha | reflexivity]|].
  destruct (IH (insert_sorted e acc) (insert_sorted_ysorted e acc Ha)) as (A & B). split; [exact A|].
  rewrite B. rewrite (insert_sorted_perm e acc). cbn [app]. apply Permutation_middle.
Qed.
Lemma sort_edges_spec l : ysorted (sort_edges l) /\ Permutation (sort_edges l) l.
Proof. exact (fold_insert_spec l [] I). Qed.

(* ---- the edges that start on a given row are a contiguous block of the sorted list ----------------------------------------- *)
Lemma ysorted_first_y a r : ysorted (a :: r) -> forall b, In b r -> e_first_y a <= e_first_y b.
Proof. intros (H & _) b Hb. specialize (H b Hb). apply edge_le_iff in H. lia. Qed.

Lemma filter_all_false {A} (f : A -> bool) l : (forall x, In x l -> f x = false) -> filter f l = [].
Proof. induction l as [|h t IH]; intros H; cbn [filter]; [reflexivity|]. rewrite (H h (or_introl eq_refl)). apply IH. intros x Hx. apply H. right. exact Hx. Qed.
Lemma filter_ext_in' {A} (f g : A -> bool) l : (forall x, In x l -> f x = g x) -> filter f l = filter g l.
Proof. induction l as [|h t IH]; intros H; cbn [filter]; [reflexivity|]. rewrite (H h (or_introl eq_refl)), IH; [reflexivity|]. intros x Hx. apply H. right. exact Hx. Qed.

Lemma take_while_le S y : ysorted S ->
  take_while_y S (fun fy => fy <=? y) = (filter (fun e => e_first_y e <=? y) S, filter (fun e => y <? e_first_y e) S).
Proof.
  induction S as [|e t IH]; intros H; cbn [take_while_y filter]; [reflexivity|].
  destruct (e_first_y e <=? y) eqn:E.
  - apply Z.leb_le in E. assert ((y <? e_first_y e) = false) as -> by (apply Z.ltb_ge; lia).
    rewrite (IH (proj2 H)). reflexivity.
  - apply Z.leb_gt in E. assert ((y <? e_first_y e) = true) as -> by (apply Z.ltb_lt; lia).
    assert (A : forall b, In b t -> y < e_first_y b) by (intros b Hb; pose proof (ysorted_first_y e t H b Hb); lia).
    rewrite (filter_all_false (fun e0 => e_first_y e0 <=? y) t) by (intros x Hx; apply Z.leb_gt; apply A; exact Hx).
    f_equal. f_equal. symmetry. rewrite <- (filter_ext_in' (fun _ => true)) by (intros x Hx; symmetry; apply Z.ltb_lt; apply A; exact Hx).
    clear. induction t as [|h t IH]; cbn [filter]; [reflexivity | rewrite IH; reflexivity].
Qed.

Lemma ysorted_filter f : forall S, ysorted S -> ysorted (filter f S).
Proof.
  induction S as [|e t IH]; intros H; cbn [filter]; [exact I|]. destruct H as (H1 & H2). destruct (f e).
  - cbn [ysorted]. split; [|apply IH; exact H2]. intros b Hb. apply filter_In in Hb. apply H1. apply Hb.
  - apply IH. exact H2.
Qed.

Lemma take_while_next S y : ysorted S ->
  take_while_y (filter (fun e => y <? e_first_y e) S) (fun fy => fy =? y + 1) =
  (filter (fun e => e_first_y e =? y + 1) S, filter (fun e => y + 1 <? e_first_y e) S).
Proof.
  intros H. set (F := filter (fun e => y <? e_first_y e) S).
  assert (HF : ysorted F) by (apply ysorted_filter; exact H).
  assert (E1 : take_while_y F (fun fy => fy =? y + 1) = take_while_y F (fun fy => fy <=? y + 1)).
  { assert (G : forall l, (forall b, In b l -> y < e_first_y b) -> take_while_y l (fun fy => fy =? y + 1) = take_while_y l (fun fy => fy <=? y + 1)).
    { induction l as [|h t IH]; intros A; cbn [take_while_y]; [reflexivity|].
      pose proof (A h (or_introl eq_refl)) as Ah.
      destruct (Z.eq_dec (e_first_y h) (y + 1)) as [E | E].
      - rewrite E, Z.eqb_refl, Z.leb_refl. rewrite IH by (intros b Hb; apply A; right; exact Hb). reflexivity.
      - assert ((e_first_y h =? y + 1) = false) as -> by (apply Z.eqb_neq; exact E).
        assert ((e_first_y h <=? y + 1) = false) as -> by (apply Z.leb_gt; lia). reflexivity. }
    apply G. intros b Hb. apply filter_In in Hb. destruct Hb as (_ & Hb). apply Z.ltb_lt in Hb. exact Hb. }
  rewrite E1, (take_while_le F (y + 1) HF). unfold F. f_equal.
  - (* filter (<= y+1) (filter (y <) S) = filter (= y+1) S *)
    clear. induction S as [|e t IH]; cbn [filter]; [reflexivity|].
    destruct (Z_lt_le_dec y (e_first_y e)) as [A | A].
    + assert ((y <? e_first_y e) = true) as -> by (apply Z.ltb_lt; exact A). cbn [filter].
      destruct (Z.eq_dec (e_first_y e) (y + 1)) as [B | B].
      * rewrite B, Z.eqb_refl, Z.leb_refl. rewrite IH. reflexivity.
      * assert ((e_first_y e =? y + 1) = false) as -> by (apply Z.eqb_neq; exact B).
        assert ((e_first_y e <=? y + 1) = false) as -> by (apply Z.leb_gt; lia). exact IH.
    + assert ((y <? e_first_y e) = false) as -> by (apply Z.ltb_ge; exact A).
      assert ((e_first_y e =? y + 1) = false) as -> by (apply Z.eqb_neq; lia). exact IH.
  - clear. induction S as [|e t IH]; cbn [filter]; [reflexivity|].
    destruct (Z_lt_le_dec (y + 1) (e_first_y e)) as [A | A].
    + assert ((y <? e_first_y e) = true) as -> by (apply Z.ltb_lt; lia). cbn [filter].
      assert ((y + 1 <? e_first_y e) = true) as -> by (apply Z.ltb_lt; exact A). rewrite IH. reflexivity.
    + assert ((y + 1 <? e_first_y e) = false) as -> by (apply Z.ltb_ge; exact A).
      destruct (y <? e_first_y e); cbn [filter]; [|exact IH].
      assert ((y + 1 <? e_first_y e) = false) as -> by (apply Z.ltb_ge; exact A). exact IH.
Qed.

(* the block of edges starting on one row is sorted by x *)
Lemma same_row_asc S y : ysorted S -> asc (filter (fun e => e_first_y e =? y) S).
Proof.
  induction S as [|e t IH]; intros H; cbn [filter]; [exact I|]. destruct H as (H1 & H2).
  destruct (e_first_y e =? y) eqn:E; [|apply IH; exact H2]. apply Z.eqb_eq in E.
  cbn [asc]. split; [|apply IH; exact H2]. intros b Hb. apply filter_In in Hb. destruct Hb as (Hb & Eb). apply Z.eqb_eq in Eb.
  specialize (H1 b Hb). apply edge_le_iff in H1. lia.
Qed.

(* ---- which edges are active on a row ---------------------------------------------------------------------------------------- *)
Definition adv (e : ledge) (k : Z) : ledge := mkedge (e_x e + k * e_dx e) (e_dx e) (e_first_y e) (e_last_y e) (e_winding e).
Definition live (y : Z) (e : ledge) : bool := (e_first_y e <=? y) && (y <=? e_last_y e).
Definition active_at (S : list ledge) (y : Z) : list ledge := map (fun e => adv e (y - e_first_y e)) (filter (live y) S).
Definition wf_edges (S : list ledge) : Prop := forall e, In e S -> e_first_y e <= e_last_y e.

Lemma adv_0 e : adv e 0 = e.
Proof. destruct e. unfold adv. cbn. f_equal. lia. Qed.
Lemma advance_adv e k : advance (adv e k) = adv e (k + 1).
Proof. unfold advance, adv. cbn. f_equal. lia. Qed.

Lemma active_step S y : wf_edges S ->
  Permutation (active_at S (y + 1)) (survivors (active_at S y) y ++ filter (fun e => e_first_y e =? y + 1) S).
Proof.
  unfold active_at, survivors, live. induction S as [|e t IH]; intros W; [reflexivity|].
  assert (Wt : wf_edges t) by (intros x Hx; apply W; right; exact Hx).
  pose proof (W e (or_introl eq_refl)) as We. specialize (IH Wt).
  cbn [filter].
  destruct (Z_le_dec (e_first_y e) y) as [A | A].
  - (* started at or before y *)
    assert ((e_first_y e <=? y + 1) = true) as -> by (apply Z.leb_le; lia).
    assert ((e_first_y e <=? y) = true) as -> by (apply Z.leb_le; exact A).
    assert ((e_first_y e =? y + 1) = false) as -> by (apply Z.eqb_neq; lia). cbn [andb].
    destruct (Z_le_dec (y + 1) (e_last_y e)) as [B | B].
    + assert ((y + 1 <=? e_last_y e) = true) as -> by (apply Z.leb_le; exact B).
      assert ((y <=? e_last_y e) = true) as -> by (apply Z.leb_le; lia).
      cbn [map filter]. unfold adv at 3. cbn [e_last_y].
      assert ((e_last_y e =? y) = false) as -> by (apply Z.eqb_neq; lia). cbn [negb map app].
      rewrite advance_adv. replace (y - e_first_y e + 1) with (y + 1 - e_first_y e) by lia. apply perm_skip. exact IH.
    + assert ((y + 1 <=? e_last_y e) = false) as -> by (apply Z.leb_gt; lia).
      destruct (y <=? e_last_y e) eqn:C; cbn [map filter]; [|exact IH].
      apply Z.leb_le in C. unfold adv at 2. cbn [e_last_y].
      assert ((e_last_y e =? y) = true) as -> by (apply Z.eqb_eq; lia). cbn [negb]. exact IH.
  - assert ((e_first_y e <=? y) = false) as -> by (apply Z.leb_gt; lia). cbn [andb].
    destruct (Z.eq_dec (e_first_y e) (y + 1)) as [B | B].
    + assert ((e_first_y e <=? y + 1) = true) as -> by (apply Z.leb_le; lia).
      assert ((y + 1 <=? e_last_y e) = true) as -> by (apply Z.leb_le; lia).
      assert ((e_first_y e =? y + 1) = true) as -> by (apply Z.eqb_eq; exact B).
      cbn [andb map]. replace (y + 1 - e_first_y e) with 0 by lia. rewrite adv_0. rewrite IH. apply Permutation_middle.
    + assert ((e_first_y e <=? y + 1) = false) as -> by (apply Z.leb_gt; lia).
      assert ((e_first_y e =? y + 1) = false) as -> by (apply Z.eqb_neq; exact B). cbn [andb]. exact IH.
Qed.

(* ---- one row: the spans it adds ---------------------------------------------------------------------------------------------- *)
Lemma row_spans_acc eo : forall xs w lft acc,
  row_spans xs eo w lft acc = let '(w', l', n) := row_spans xs eo w lft [] in (w', l', n ++ acc).
Proof.
  induction xs as [|[x wd] r IH]; intros w lft acc; cbn [row_spans]; [reflexivity|].
  set (lft1 := if masked w eo then lft else x).
  destruct (masked (w + wd) eo).
  - apply IH.
  - destruct (x - lft1 =? 0); [apply IH|].
    rewrite (IH (w + wd) lft1 ((lft1, x - lft1) :: acc)), (IH (w + wd) lft1 [(lft1, x - lft1)]).
    destruct (row_spans r eo (w + wd) lft1 []) as [[w' l'] n]. rewrite <- app_assoc. reflexivity.
Qed.

Lemma walk_row_new act : forall y eo w lft prev_x rd spans w' lft' rd' spans',
  walk_row act y eo w lft prev_x rd spans = Some (w', lft', rd', spans') ->
  exists new, spans' = new ++ spans /\ Forall (fun s => s_y s = y) new /\
              row_spans (xs_of act) eo w lft [] = (w', lft', sp2 new).
Proof.
  induction act as [|e rest IH]; intros y eo w lft prev_x rd spans w' lft' rd' spans' H.
  - cbn in H. inversion H; subst. exists []. repeat split; constructor.
  - cbn [walk_row] in H. unfold bind in H.
    destruct (fdot16_round_to_i32 (e_x e)) as [x0|] eqn:RX; [|discriminate].
    set (x := x0 mod 4294967296) in *. set (lft1 := if masked w eo then lft else x) in *.
    assert (Hrx : rx e = x) by (unfold rx; rewrite RX; reflexivity).
    cbn [xs_of map row_spans]. rewrite Hrx. fold lft1. fold (xs_of rest).
    destruct (masked (w + e_winding e) eo) eqn:M1.
    + assert (K : exists new, spans' = new ++ spans /\ Forall (fun s => s_y s = y) new /\
                    row_spans (xs_of rest) eo (w + e_winding e) lft1 [] = (w', lft', sp2 new)).
      { destruct (e_last_y e =? y); [eapply IH; eauto|].
        destruct (ck (e_x e + e_dx e)) as [nx|]; [|discriminate]. destruct (nx <? prev_x); eapply IH; eauto. }
      exact K.
    + destruct (x <? lft1) eqn:U; [discriminate|].
      set (spans1 := if x - lft1 =? 0 then spans else mkspan lft1 y (x - lft1) :: spans) in *.
      assert (K : exists new, spans' = new ++ spans1 /\ Forall (fun s => s_y s = y) new /\
                    row_spans (xs_of rest) eo (w + e_winding e) lft1 [] = (w', lft', sp2 new)).
      { destruct (e_last_y e =? y); [eapply IH; eauto|].
        destruct (ck (e_x e + e_dx e)) as [nx|]; [|discriminate]. destruct (nx <? prev_x); eapply IH; eauto. }
      destruct K as (new & E1 & F1 & R1). unfold spans1 in E1. destruct (x - lft1 =? 0) eqn:Z0.
      * exists new. repeat split; assumption.
      * exists (new ++ [mkspan lft1 y (x - lft1)]). split; [rewrite E1, <- app_assoc; reflexivity|]. split.
        -- apply Forall_app. split; [exact F1 | constructor; [reflexivity | constructor]].
        -- rewrite row_spans_acc, R1. unfold sp2. rewrite map_app. reflexivity.
Qed.

(* ---- all rows ----------------------------------------------------------------------------------------------------------------- *)
Definition cov (l : list span) (yy c : Z) : Prop := exists s, In s l /\ s_y s = yy /\ s_x s <= c < s_x s + s_w s.
Definition rowspans (eo : bool) (rc : Z) (act : list ledge) : list (Z * Z) :=
  let '(w, lft, n) := row_spans (xs_of act) eo 0 0 [] in
  (if masked w eo then (if rc - lft =? 0 then [] else [(lft, rc - lft)]) else []) ++ n.
Definition Inv (S act fut : list ledge) (y : Z) : Prop :=
  asc act /\ Permutation act (active_at S y) /\ fut = filter (fun e => y <? e_first_y e) S.

Lemma perm_filter {A} (f : A -> bool) l l' : Permutation l l' -> Permutation (filter f l) (filter f l').
Proof.
  induction 1 as [|x l l' H IH|x y l|l l' l'' H1 IH1 H2 IH2]; cbn [filter].
  - reflexivity.
  - destruct (f x); [apply perm_skip|]; exact IH.
  - destruct (f x), (f y); try reflexivity. apply perm_swap.
  - etransitivity; eassumption.
Qed.

Lemma cov_rev l yy c : cov (rev l) yy c <-> cov l yy c.
Proof. unfold cov. split; intros (s & H & R); exists s; (split; [|exact R]); [apply in_rev; exact H | apply in_rev in H; exact H]. Qed.

Lemma cov_new new spans y yy c : Forall (fun s => s_y s = y) new ->
  cov (new ++ spans) yy c <-> cov spans yy c \/ (yy = y /\ covered (sp2 new) c).
Proof.
  intros F. rewrite Forall_forall in F. unfold cov, covered, sp2. split.
  - intros (s & H & Ey & R). apply in_app_or in H. destruct H as [H | H].
    + right. split; [rewrite <- Ey; apply F; exact H|]. exists (s_x s, s_w s). split; [apply in_map_iff; exists s; auto | exact R].
    + left. exists s. auto.
  - intros [(s & H & R) | (-> & (p & H & R))].
    + exists s. split; [apply in_or_app; right; exact H | exact R].
    + apply in_map_iff in H. destruct H as (s & <- & H). exists s. split; [apply in_or_app; left; exact H|]. split; [apply F; exact H | exact R].
Qed.

Lemma inv_step S act fut y eo w lft rd spans spans' :
  ysorted S -> wf_edges S -> Inv S act fut y ->
  walk_row act y eo 0 0 (-2147483648) [] spans = Some (w, lft, rd, spans') ->
  let '(news, fut') := take_while_y fut (fun fy => fy =? y + 1) in
  Inv S (insert_new_edges (rev rd) news) fut' (y + 1).
Proof.
  intros HS HW (A & P & F) H. subst fut. rewrite (take_while_next S y HS).
  destruct (walk_row_done act y eo 0 0 (-2147483648) [] spans w lft rd spans' H I ltac:(intros p [])) as (D & Pr).
  rewrite app_nil_r in Pr.
  assert (A' : asc (rev rd)) by (apply desc_rev; exact D).
  destruct (insert_new_edges_spec (rev rd) _ A' (same_row_asc S (y + 1) HS)) as (R1 & R2).
  split; [exact R1|]. split; [|reflexivity].
  rewrite R2. rewrite (active_step S y HW). apply Permutation_app_tail.
  rewrite <- (Permutation_rev rd). rewrite Pr. unfold survivors. apply Permutation_map. apply perm_filter. exact P.
Qed.

Theorem walk_rows_cov S eo rc : ysorted S -> wf_edges S ->
  forall fuel act fut y stop spans out,
  Inv S act fut y -> walk_rows fuel act fut y stop rc eo spans = Some out ->
  exists acts : Z -> list ledge,
    (forall yy, y <= yy -> (yy < stop \/ yy = y) -> asc (acts yy) /\ Permutation (acts yy) (active_at S yy)) /\
    forall yy c, cov out yy c <-> cov spans yy c \/ (y <= yy /\ (yy < stop \/ yy = y) /\ covered (rowspans eo rc (acts yy)) c).
Proof.
  intros HS HW. induction fuel as [|fuel IH]; intros act fut y stop spans out HI H; [discriminate|].
  cbn [walk_rows] in H. unfold bind in H.
  destruct (walk_row act y eo 0 0 (-2147483648) [] spans) as [[[[w lft] rd] spans1]|] eqn:WR; [|discriminate].
  destruct (walk_row_new act y eo 0 0 (-2147483648) [] spans w lft rd spans1 WR) as (new & E1 & F1 & R1).
  pose proof (inv_step S act fut y eo w lft rd spans spans1 HS HW HI WR) as HN.
  (* the spans of this row, with the optional span to the right clip *)
  set (clip := if masked w eo then (if rc - lft =? 0 then [] else [mkspan lft y (rc - lft)]) else []).
  assert (Hsp2 : forall spans2,
            (if masked w eo then if rc <? lft then None else Some (if rc - lft =? 0 then spans1 else mkspan lft y (rc - lft) :: spans1)
             else Some spans1) = Some spans2 -> spans2 = (clip ++ new) ++ spans).
  { intros spans2 E. unfold clip. destruct (masked w eo).
    - destruct (rc <? lft); [discriminate|]. injection E as <-. destruct (rc - lft =? 0); rewrite E1; reflexivity.
    - injection E as <-. rewrite E1. reflexivity. }
  destruct (if masked w eo then _ else _) as [spans2|] eqn:E2; [|discriminate].
  specialize (Hsp2 spans2 eq_refl).
  assert (Fcn : Forall (fun s => s_y s = y) (clip ++ new)).
  { apply Forall_app. split; [|exact F1]. unfold clip. destruct (masked w eo); [|constructor]. destruct (rc - lft =? 0); constructor; [reflexivity | constructor]. }
  assert (Rs : sp2 (clip ++ new) = rowspans eo rc act).
  { unfold rowspans. rewrite R1. unfold sp2, clip. rewrite map_app. f_equal. destruct (masked w eo); [|reflexivity]. destruct (rc - lft =? 0); reflexivity. }
  assert (C2 : forall yy c, cov spans2 yy c <-> cov spans yy c \/ (yy = y /\ covered (rowspans eo rc act) c)).
  { intros yy c. rewrite Hsp2, <- Rs. apply cov_new. exact Fcn. }
  destruct (stop <=? y + 1) eqn:ST.
  - apply Z.leb_le in ST. inversion H; subst out. exists (fun _ => act). split.
    + intros yy Hy Hr. destruct HI as (A & P & _). assert (yy = y) by lia. subst yy. split; assumption.
    + intros yy c. rewrite cov_rev, C2. split.
      * intros [A | (-> & A)]; [left; exact A | right; split; [lia | split; [right; reflexivity | exact A]]].
      * intros [A | (Hy & Hr & A)]; [left; exact A | right; split; [lia | exact A]].
  - apply Z.leb_gt in ST. destruct (take_while_y fut (fun fy => fy =? y + 1)) as [news fut'] eqn:TW.
    destruct (IH _ _ _ _ _ _ HN H) as (acts & Ha & Hc).
    exists (fun yy => if yy =? y then act else acts yy). split.
    + intros yy Hy Hr. destruct (yy =? y) eqn:E.
      * apply Z.eqb_eq in E. subst yy. destruct HI as (A & P & _). split; assumption.
      * apply Z.eqb_neq in E. apply Ha; lia.
    + intros yy c. rewrite Hc, C2. split.
      * intros [[A | (-> & A)] | (Hy & Hr & A)].
        -- left. exact A.
        -- right. rewrite Z.eqb_refl. split; [lia | split; [lia | exact A]].
        -- right. assert ((yy =? y) = false) as -> by (apply Z.eqb_neq; lia). split; [lia | split; [lia | exact A]].
      * intros [A | (Hy & Hr & A)]; [left; left; exact A|].
        destruct (yy =? y) eqn:E.
        -- apply Z.eqb_eq in E. left. right. split; [exact E | exact A].
        -- apply Z.eqb_neq in E. right. split; [lia | split; [lia | exact A]].
Qed.

(* ---- a row's spans cover exactly the columns the fill rule accepts ---------------------------------------------------------------- *)
Fixpoint sumw (l : list ledge) : Z := match l with [] => 0 | e :: r => e_winding e + sumw r end.
Definition x_ok (e : ledge) : Prop := -32768 <= e_x e <= 2147483647 - 32768.

Lemma wsum_perm xs xs' c : Permutation xs xs' -> wsum xs c = wsum xs' c.
Proof.
  induction 1 as [|[x wd] l l' H IH|[x wd] [y wd'] l|l l' l'' H1 IH1 H2 IH2]; cbn [wsum]; try lia.
Qed.
Lemma sumw_perm l l' : Permutation l l' -> sumw l = sumw l'.
Proof. induction 1; cbn [sumw]; lia. Qed.

Lemma rx_ok e : x_ok e -> rx e = (e_x e + 32768) / 65536 /\ 0 <= rx e.
Proof.
  intros (H1 & H2). unfold rx, fdot16_round_to_i32, bind, ck, in32.
  assert (((-2147483648 <=? e_x e + 32768) && (e_x e + 32768 <=? 2147483647)) = true) as ->
    by (apply andb_true_iff; split; apply Z.leb_le; lia).
  unfold sar. rewrite Z.shiftr_div_pow2 by lia. change (2 ^ 16) with 65536.
  assert (0 <= (e_x e + 32768) / 65536 < 4294967296).
  { split; [apply Z.div_pos; lia|]. apply Z.div_lt_upper_bound; lia. }
  rewrite Z.mod_small by lia. lia.
Qed.

Lemma asc_sorted_x act : asc act -> (forall e, In e act -> x_ok e) -> sorted_x (xs_of act).
Proof.
  induction act as [|a r IH]; intros A X; cbn [xs_of map sorted_x]; [exact I|].
  destruct A as (A1 & A2). split; [|apply IH; [exact A2 | intros e He; apply X; right; exact He]].
  destruct r as [|b r']; cbn [map]; [exact I|].
  destruct (rx_ok a (X a (or_introl eq_refl))) as (Ra & _). destruct (rx_ok b (X b (or_intror (or_introl eq_refl)))) as (Rb & _).
  rewrite Ra, Rb. apply Z.div_le_mono; [lia|]. specialize (A1 b (or_introl eq_refl)). lia.
Qed.

Lemma row_spans_w eo : forall act w lft acc, fst (fst (row_spans (xs_of act) eo w lft acc)) = w + sumw act.
Proof.
  induction act as [|e r IH]; intros w lft acc; cbn [xs_of map row_spans sumw]; [cbn; lia|].
  fold (xs_of r). rewrite IH. lia.
Qed.

Theorem row_cov_spec act Sy eo rc c :
  asc act -> Permutation act Sy -> (forall e, In e act -> x_ok e) -> masked (sumw Sy) eo = false ->
  covered (rowspans eo rc act) c <-> masked (wsum (xs_of Sy) c) eo = true.
Proof.
  intros A P X B. unfold rowspans.
  destruct (row_spans (xs_of act) eo 0 0 []) as [[w lft] n] eqn:R.
  assert (Ew : w = sumw act) by (pose proof (row_spans_w eo act 0 0 []) as W; rewrite R in W; cbn in W; lia).
  assert (Mw : masked w eo = false) by (rewrite Ew, (sumw_perm _ _ P); exact B).
  rewrite Mw. cbn [app].
  rewrite (row_spans_spec eo (xs_of act) w lft n (asc_sorted_x act A X) R Mw c).
  rewrite (wsum_perm (xs_of act) (xs_of Sy) c); [reflexivity|]. unfold xs_of. apply Permutation_map. exact P.
Qed.

(* ---- THE fill theorem for line-only paths inside the clip ----------------------------------------------------------------------- *)
Lemma active_at_perm S S' y : Permutation S S' -> Permutation (active_at S y) (active_at S' y).
Proof. intros P. unfold active_at. apply Permutation_map. apply perm_filter. exact P. Qed.

Lemma active_at_start S y : wf_edges S -> (forall e, In e S -> y <= e_first_y e) ->
  active_at S y = filter (fun e => e_first_y e <=? y) S.
Proof.
  unfold active_at, live. induction S as [|e t IH]; intros W H; cbn [filter map]; [reflexivity|].
  pose proof (H e (or_introl eq_refl)) as He. pose proof (W e (or_introl eq_refl)) as We.
  assert (It : map (fun e0 => adv e0 (y - e_first_y e0)) (filter (fun e0 => (e_first_y e0 <=? y) && (y <=? e_last_y e0)) t) = filter (fun e0 => e_first_y e0 <=? y) t)
    by (apply IH; [intros x Hx; apply W; right; exact Hx | intros x Hx; apply H; right; exact Hx]).
  destruct (e_first_y e <=? y) eqn:E; cbn [andb].
  - apply Z.leb_le in E. assert ((y <=? e_last_y e) = true) as -> by (apply Z.leb_le; lia). cbn [map].
    replace (y - e_first_y e) with 0 by lia. rewrite adv_0, It. reflexivity.
  - exact It.
Qed.

Theorem fill_spans_spec es start stop rc eo out :
  fill_spans es start stop rc eo 0 = Some out ->
  wf_edges es -> (forall e, In e es -> start <= e_first_y e) -> 0 <= start -> 0 <= stop ->
  exists acts : Z -> list ledge,
    (forall yy, start <= yy -> (yy < stop \/ yy = start) -> asc (acts yy) /\ Permutation (acts yy) (active_at es yy)) /\
    forall yy c, start <= yy -> (yy < stop \/ yy = start) ->
      (forall e, In e (acts yy) -> x_ok e) -> masked (sumw (active_at es yy)) eo = false ->
      (cov out yy c <-> masked (wsum (xs_of (active_at es yy)) c) eo = true).
Proof.
  intros H W Hs H0 H1. unfold fill_spans in H. change (2 ^ 0) with 1 in H. rewrite !Z.mul_1_r in H.
  assert ((start <? 0) || (stop <? 0) = false) as E0 by (apply orb_false_iff; split; apply Z.ltb_ge; lia). rewrite E0 in H.
  destruct (sort_edges_spec es) as (YS & PS). set (S := sort_edges es) in *.
  assert (WS : wf_edges S) by (intros e He; apply W; apply (Permutation_in _ PS); exact He).
  assert (HsS : forall e, In e S -> start <= e_first_y e) by (intros e He; apply Hs; apply (Permutation_in _ PS); exact He).
  rewrite (take_while_le S start YS) in H.
  assert (HI : Inv S (filter (fun e => e_first_y e <=? start) S) (filter (fun e => start <? e_first_y e) S) start).
  { split; [|split; [|reflexivity]].
    - rewrite (filter_ext_in' (fun e => e_first_y e <=? start) (fun e => e_first_y e =? start)).
      + apply same_row_asc. exact YS.
      + intros e He. specialize (HsS e He). destruct (e_first_y e <=? start) eqn:A; destruct (e_first_y e =? start) eqn:B; try reflexivity;
          [apply Z.leb_le in A; apply Z.eqb_neq in B; lia | apply Z.leb_gt in A; apply Z.eqb_eq in B; lia].
    - rewrite (active_at_start S start WS HsS). reflexivity. }
  destruct (walk_rows_cov S eo rc YS WS _ _ _ _ _ _ _ HI H) as (acts & Ha & Hc).
  exists acts. split.
  - intros yy Hy Hr. destruct (Ha yy Hy Hr) as (A & P). split; [exact A|]. rewrite P. apply active_at_perm. exact PS.
  - intros yy c Hy Hr X B. rewrite Hc. destruct (Ha yy Hy Hr) as (A & P).
    assert (P' : Permutation (acts yy) (active_at es yy)) by (rewrite P; apply active_at_perm; exact PS).
    rewrite <- (row_cov_spec (acts yy) (active_at es yy) eo rc c A P' X B). split.
    + intros [(s & [] & _) | (_ & _ & K)]. exact K.
    + intros K. right. split; [exact Hy | split; [exact Hr | exact K]].
Qed.
