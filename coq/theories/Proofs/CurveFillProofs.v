(* C02 (paths with quadratic segments): every row is balanced, hence the fill theorem holds without a balance hypothesis.
   A quadratic edge's lines run from the row of its first point to the row of its last point (no gap, no overlap, one winding):
   its contribution to a row is the same difference of "end point at or below the row centre" indicators as a line segment's,
   so the contributions telescope along every closed contour; chopping at the y extremum only inserts a shared point.
   Cubic edges pin every new ordinate to be no smaller than the previous one (`newy = max(newy, oldy)`), so their last line may
   end below the row of the last control point: for them the chained-rows theorem of CurveEdgeProofs.v is what is proved, and
   the balance of a row is a hypothesis (stated in C02_curved_fill_spans_spec through C02_fill_spans_spec). *)
From Coq Require Import ZArith Bool List Lia Permutation.
From TS Require Import Base.F32 Model.Rect Model.PathBuilder Model.Edge Model.CurveEdge Model.Walk Model.CurveFill
  Proofs.WalkProofs Proofs.EdgeAccuracy Proofs.WalkSorted Proofs.WalkRows Proofs.WalkBalanced Proofs.CurveEdgeProofs.
Import ListNotations.
Local Open Scope Z_scope.

(* ---- a line produced by LineEdge::update is never reversed ----------------------------------------------------------------- *)
Lemma line_update_ord w x0 y0 x1 y1 e : line_update w x0 y0 x1 y1 = Some (Some e) -> e_first_y e <= e_last_y e.
Proof.
  intros H. pose proof (line_update_rows _ _ _ _ _ _ H) as (top & bottom & Rt & Rb & F & L & _ & NE).
  unfold line_update in H. destruct (sar y1 10 <? sar y0 10) eqn:G; [discriminate|]. apply Z.ltb_ge in G.
  unfold row16 in Rt, Rb.
  pose proof (fdot6_round_spec _ _ Rt bottom) as (A & _). pose proof (fdot6_round_spec _ _ Rb bottom) as (B & _).
  assert (sar y1 10 < 64 * bottom + 32) by (apply B; lia). assert (top <= bottom) by (apply A; lia). lia.
Qed.

(* lines that tile the rows first .. stop - 1 *)
Fixpoint chained_to (w first : Z) (ls : list ledge) (stop : Z) : Prop :=
  match ls with
  | [] => first = stop
  | e :: rest => e_first_y e = first /\ e_winding e = w /\ e_first_y e <= e_last_y e /\ chained_to w (e_last_y e + 1) rest stop
  end.

(* ---- QuadraticEdge::update, all outcomes ----------------------------------------------------------------------------------- *)
Lemma quad_update_loop_full fuel : forall q count oldx oldy dx dy q' oe,
  quad_update_loop fuel q count oldx oldy dx dy = Some (q', oe) -> 1 <= count ->
  q_lasty q' = q_lasty q /\ q_wind q' = q_wind q /\ 0 <= q_count q' /\ (q_count q' = 0 -> q_y q' = q_lasty q) /\
  match oe with
  | Some e => row16 oldy = Some (e_first_y e) /\ row16 (q_y q') = Some (e_last_y e + 1) /\ e_winding e = q_wind q /\
              e_first_y e <= e_last_y e
  | None => exists r, row16 oldy = Some r /\ row16 (q_lasty q) = Some r
  end.
Proof.
  induction fuel as [|n IH]; intros q count oldx oldy dx dy q' oe H Hc; cbn [quad_update_loop] in H; [discriminate|].
  apply bind_some' in H. destruct H as (nxt & Enxt & H). destruct nxt as (((newx, newy), dx'), dy').
  apply bind_some' in H. destruct H as (r & Er & H).
  assert (Last : count - 1 = 0 -> newy = q_lasty q).
  { intros Z0. rewrite Z0 in Enxt. cbn in Enxt. injection Enxt as _ E _ _. symmetry. exact E. }
  destruct (line_update_rows _ _ _ _ _ _ Er) as (top & bottom & Rt & Rb & Hr).
  destruct r as [e0|].
  - pose proof (line_update_ord _ _ _ _ _ _ Er) as Ord.
    injection H as H1 H2. subst q' oe. cbn [q_y q_wind q_count q_lasty]. destruct Hr as (F & L & W & NE).
    refine (conj eq_refl (conj eq_refl (conj _ (conj Last (conj _ (conj _ (conj W Ord))))))); [lia | |].
    + rewrite F. exact Rt.
    + rewrite L. replace (bottom - 1 + 1) with bottom by lia. exact Rb.
  - destruct (Z.eqb_spec (count - 1) 0) as [Z0 | NZ].
    + injection H as H1 H2. subst q' oe. cbn [q_y q_wind q_count q_lasty].
      refine (conj eq_refl (conj eq_refl (conj _ (conj Last _)))); [lia|].
      exists top. split; [exact Rt|]. rewrite <- (Last Z0), Hr. exact Rb.
    + destruct (IH _ _ _ _ _ _ _ _ H ltac:(lia)) as (A & B & C & D & E).
      refine (conj A (conj B (conj C (conj D _)))).
      destruct oe as [e|].
      * destruct E as (E1 & E2 & E3 & E4). refine (conj _ (conj E2 (conj E3 E4))). rewrite Rt, Hr, <- Rb. exact E1.
      * destruct E as (r & E1 & E2). exists r. split; [|exact E2]. rewrite Rt, Hr, <- Rb. exact E1.
Qed.

Lemma quad_lines_loop_to fuel : forall q ls r0,
  quad_lines_loop fuel q = Some ls -> row16 (q_y q) = Some r0 -> 0 <= q_count q -> (q_count q = 0 -> q_y q = q_lasty q) ->
  exists stop, row16 (q_lasty q) = Some stop /\ chained_to (q_wind q) r0 ls stop.
Proof.
  induction fuel as [|n IH]; intros q ls r0 H R Hc Hl; cbn [quad_lines_loop] in H; [discriminate|].
  destruct (Z.leb_spec (q_count q) 0) as [Le | Gt].
  - injection H as H. subst ls. exists r0. split; [rewrite <- (Hl ltac:(lia)); exact R | reflexivity].
  - apply bind_some' in H. destruct H as (r & Er & H). destruct r as (q', oe). cbn [fst snd] in H.
    unfold quad_update in Er. destruct (Z.leb_spec (q_count q) 0) as [Le' | _]; [lia|].
    destruct (quad_update_loop_full _ _ _ _ _ _ _ _ _ Er ltac:(lia)) as (A & B & C & D & E).
    destruct oe as [e|].
    + apply bind_some' in H. destruct H as (rest & Erest & H). injection H as H. subst ls.
      destruct E as (E1 & E2 & E3 & E4).
      destruct (IH _ _ _ Erest E2 C ltac:(intros Z0; rewrite A; exact (D Z0))) as (stop & S1 & S2).
      exists stop. split; [rewrite <- A; exact S1|]. cbn [chained_to]. rewrite R in E1. injection E1 as E1.
      repeat split; try assumption; [symmetry; exact E1 | rewrite <- B; exact S2].
    + injection H as H. subst ls. destruct E as (r & E1 & E2). exists r0. rewrite R in E1. injection E1 as E1. subst r.
      split; [exact E2 | reflexivity].
Qed.

(* what QuadraticEdge::new2 sets up, as far as the rows are concerned *)
Lemma quad_new2_rows p0 p1 p2 sh q :
  quad_new2 p0 p1 p2 sh = Some (Some q) ->
  let y0 := fd6 (py p0) sh in let y2 := fd6 (py p2) sh in
  exists top bot, fdot6_round (Z.min y0 y2) = Some top /\ fdot6_round (Z.max y0 y2) = Some bot /\
    sar (q_y q) 10 = Z.min y0 y2 /\ sar (q_lasty q) 10 = Z.max y0 y2 /\ 1 <= q_count q /\
    q_wind q = (if y2 <? y0 then -1 else 1).
Proof.
  unfold quad_new2. cbv zeta. fold (fd6 (px p0) sh) (fd6 (py p0) sh) (fd6 (px p1) sh) (fd6 (py p1) sh) (fd6 (px p2) sh) (fd6 (py p2) sh).
  set (Y0 := fd6 (py p0) sh). set (Y2 := fd6 (py p2) sh). intros E0.
  assert (Pw : forall s, 0 <= s -> 1 <= 2 ^ s) by (intros s Hs; pose proof (Z.pow_pos_nonneg 2 s ltac:(lia) Hs); lia).
  destruct (Y2 <? Y0) eqn:Sw; cbv beta iota in E0;
    [apply Z.ltb_lt in Sw; rewrite Z.min_r, Z.max_l by lia | apply Z.ltb_ge in Sw; rewrite Z.min_l, Z.max_r by lia];
    (destruct (negb _) in E0; [discriminate|]);
    apply bind_some' in E0; destruct E0 as (top & Et & E0); apply bind_some' in E0; destruct E0 as (bot & Eb & E0);
    (destruct (top =? bot) in E0; [discriminate|]);
    exists top, bot; (split; [exact Et|]); (split; [exact Eb|]);
    repeat (first [ apply bind_some' in E0; destruct E0 as (? & ? & E0)
                  | match type of E0 with (if ?c then _ else _) = _ => destruct c eqn:?; try discriminate end ]);
    injection E0 as E0; subst q; cbn [q_y q_lasty q_count q_wind];
    repeat match goal with
           | H : fdot6_to_fdot16 ?v = Some ?r |- _ =>
               unfold fdot6_to_fdot16 in H; destruct (Z.eqb_spec (sar (left_shift v 10) 10) v); [injection H as H; subst r | discriminate]
           end;
    (split; [assumption|]); (split; [assumption|]); (split; [|reflexivity]);
    repeat match goal with H : (_ <? 0) = false |- _ => apply Z.ltb_ge in H end;
    unfold max_coeff_shift in *; repeat match goal with |- context [if ?c then _ else _] => destruct c end; apply Pw; lia.
Qed.

(* THE rows of a quadratic edge: its lines tile exactly the rows between the rounded FDot6 ordinates of its end points *)
Theorem quad_edge_lines_rows p0 p1 p2 sh ls :
  quad_edge_lines p0 p1 p2 sh = Some ls ->
  let y0 := fd6 (py p0) sh in let y2 := fd6 (py p2) sh in
  exists top bot, fdot6_round (Z.min y0 y2) = Some top /\ fdot6_round (Z.max y0 y2) = Some bot /\
    chained_to (if y2 <? y0 then -1 else 1) top ls bot.
Proof.
  unfold quad_edge_lines. intros H. apply bind_some' in H. destruct H as (q0 & E0 & H). cbv zeta.
  destruct q0 as [q|].
  - destruct (quad_new2_rows _ _ _ _ _ E0) as (top & bot & Et & Eb & Sy & Sl & Hc & Hw).
    exists top, bot. split; [exact Et|]. split; [exact Eb|].
    assert (R0 : row16 (q_y q) = Some top) by (unfold row16; rewrite Sy; exact Et).
    assert (RL : row16 (q_lasty q) = Some bot) by (unfold row16; rewrite Sl; exact Eb).
    apply bind_some' in H. destruct H as (r & Er & H). destruct r as (q', oe). cbn [fst snd] in H.
    unfold quad_update in Er. destruct (Z.leb_spec (q_count q) 0) as [Le' | _]; [lia|].
    destruct (quad_update_loop_full _ _ _ _ _ _ _ _ _ Er Hc) as (A & B & C & D & E).
    destruct oe as [e|].
    + apply bind_some' in H. destruct H as (rest & Erest & H). injection H as H. subst ls.
      destruct E as (E1 & E2 & E3 & E4).
      destruct (quad_lines_loop_to _ _ _ _ Erest E2 C ltac:(intros Z0; rewrite A; exact (D Z0))) as (stop & S1 & S2).
      rewrite A, RL in S1. injection S1 as S1. subst stop.
      cbn [chained_to]. rewrite R0 in E1. injection E1 as E1. rewrite <- Hw.
      repeat split; try assumption; [symmetry; exact E1 | rewrite <- B; exact S2].
    + injection H as H. subst ls. destruct E as (r & E1 & E2). rewrite R0 in E1. rewrite RL in E2. cbn [chained_to]. congruence.
  - injection H as H. subst ls. cbn [chained_to].
    (* zero height: both ordinates round to the same row *)
    revert E0. unfold quad_new2. cbv zeta.
    fold (fd6 (px p0) sh) (fd6 (py p0) sh) (fd6 (px p1) sh) (fd6 (py p1) sh) (fd6 (px p2) sh) (fd6 (py p2) sh).
    set (Y0 := fd6 (py p0) sh). set (Y2 := fd6 (py p2) sh). intros E0.
    destruct (Y2 <? Y0) eqn:Sw; cbv beta iota in E0;
      [apply Z.ltb_lt in Sw; rewrite Z.min_r, Z.max_l by lia | apply Z.ltb_ge in Sw; rewrite Z.min_l, Z.max_r by lia];
      (destruct (negb _) in E0; [discriminate|]);
      apply bind_some' in E0; destruct E0 as (top & Et & E0); apply bind_some' in E0; destruct E0 as (bot & Eb & E0);
      exists top, bot; (split; [exact Et|]); (split; [exact Eb|]);
      (destruct (Z.eqb_spec top bot) as [E | NE] in E0; [exact E|]);
      repeat (first [ apply bind_some' in E0; destruct E0 as (? & ? & E0)
                    | match type of E0 with (if ?c then _ else _) = _ => destruct c; try discriminate end ]);
      discriminate.
Qed.

(* ---- what a chain of lines contributes to a row ---------------------------------------------------------------------------- *)
Lemma chained_rowsum w y : forall ls first stop, chained_to w first ls stop ->
  first <= stop /\ rowsum ls y = (if (first <=? y) && (y <? stop) then w else 0) /\
  Forall (fun e => e_first_y e <= e_last_y e /\ e_winding e = w) ls.
Proof.
  induction ls as [|e rest IH]; intros first stop H; cbn [chained_to] in H.
  - subst stop. split; [lia|]. split; [|constructor]. change (rowsum [] y) with 0.
    destruct (first <=? y) eqn:A; destruct (y <? first) eqn:B; cbn; try reflexivity.
    apply Z.leb_le in A. apply Z.ltb_lt in B. lia.
  - destruct H as (F & W & O & R). destruct (IH _ _ R) as (I1 & I2 & I3).
    split; [lia|]. split; [|constructor; [split; assumption | exact I3]].
    rewrite rowsum_cons, I2, W. unfold live. rewrite F.
    destruct (first <=? y) eqn:A; destruct (y <=? e_last_y e) eqn:B; destruct (e_last_y e + 1 <=? y) eqn:C; destruct (y <? stop) eqn:D; cbn;
      try apply Z.leb_le in A; try apply Z.leb_gt in A; try apply Z.leb_le in B; try apply Z.leb_gt in B;
      try apply Z.leb_le in C; try apply Z.leb_gt in C; try apply Z.ltb_lt in D; try apply Z.ltb_ge in D; lia.
Qed.

(* a quadratic edge contributes to a row exactly what a line segment between its end points contributes *)
Lemma quad_contribution a b c shift ls y :
  quad_edge_lines a b c shift = Some ls ->
  Forall wf1 ls /\ rowsum ls y = below shift c y - below shift a y.
Proof.
  intros H. destruct (quad_edge_lines_rows _ _ _ _ _ H) as (top & bot & Et & Eb & Ch). cbv zeta in Et, Eb.
  destruct (chained_rowsum _ y _ _ _ Ch) as (_ & S & W). split.
  - rewrite Forall_forall in W. apply Forall_forall. intros e He. destruct (W e He) as (O & Wd). split; [exact O|].
    rewrite Wd. destruct (_ <? _); auto.
  - rewrite S. unfold below.
    set (Y0 := fd6 (py a) shift) in *. set (Y2 := fd6 (py c) shift) in *.
    pose proof (fdot6_round_spec _ _ Et y) as (T1 & _). pose proof (fdot6_round_spec _ _ Eb y) as (_ & B1).
    destruct (Y2 <? Y0) eqn:Sw; [apply Z.ltb_lt in Sw; rewrite Z.min_r in T1 by lia; rewrite Z.max_l in B1 by lia
                                | apply Z.ltb_ge in Sw; rewrite Z.min_l in T1 by lia; rewrite Z.max_r in B1 by lia];
      destruct (top <=? y) eqn:A; destruct (y <? bot) eqn:B; destruct (64 * y + 32 <=? Y2) eqn:C; destruct (64 * y + 32 <=? Y0) eqn:D; cbn;
      try apply Z.leb_le in A; try apply Z.leb_gt in A; try apply Z.ltb_lt in B; try apply Z.ltb_ge in B;
      try apply Z.leb_le in C; try apply Z.leb_gt in C; try apply Z.leb_le in D; try apply Z.leb_gt in D; lia.
Qed.

(* ---- the builder with curve items ------------------------------------------------------------------------------------------- *)
Definition lines_of (its : list item) : list ledge := flat_map item_lines its.

Lemma lines_of_app a b : lines_of (a ++ b) = lines_of a ++ lines_of b.
Proof. unfold lines_of. apply flat_map_app. Qed.

Lemma rowsum_lines_rev its y : rowsum (lines_of (rev its)) y = rowsum (lines_of its) y.
Proof.
  induction its as [|h t IH]; cbn [rev]; [reflexivity|]. rewrite lines_of_app, rowsum_app, IH.
  change (lines_of (h :: t)) with (item_lines h ++ lines_of t). rewrite rowsum_app.
  change (lines_of [h]) with (item_lines h ++ []). rewrite app_nil_r. lia.
Qed.

Lemma forall_lines_rev (P : ledge -> Prop) its : Forall P (lines_of its) -> Forall P (lines_of (rev its)).
Proof.
  intros H. apply Forall_forall. intros e He. rewrite Forall_forall in H. apply H.
  unfold lines_of in *. apply in_flat_map in He. destruct He as (i & Hi & He). apply in_flat_map. exists i. split; [|exact He].
  apply in_rev. exact Hi.
Qed.

Lemma push_line_item_lines acc e :
  lines_of (push_line_item acc e) =
  match acc with
  | ILine last :: rest => push_line [last] e ++ lines_of rest
  | _ => e :: lines_of acc
  end.
Proof.
  unfold push_line_item, push_line. destruct acc as [|[last|ls] rest]; try reflexivity.
  destruct (e_dx e =? 0); [|reflexivity]. destruct (combine_vertical e last); reflexivity.
Qed.

Lemma push_line_item_rowsum acc e y : wf1 e -> Forall wf1 (lines_of acc) ->
  rowsum (lines_of (push_line_item acc e)) y = rowsum (e :: lines_of acc) y /\ Forall wf1 (lines_of (push_line_item acc e)).
Proof.
  intros We Wa. rewrite push_line_item_lines. destruct acc as [|[last|ls] rest].
  - split; [reflexivity | constructor; [exact We | exact Wa]].
  - change (lines_of (ILine last :: rest)) with (last :: lines_of rest) in *. inversion Wa as [|? ? Wl Wr]; subst.
    destruct (push_line_rowsum [last] e y We ltac:(constructor; [exact Wl | constructor])) as (P1 & P2). split.
    + rewrite rowsum_app, P1, !rowsum_cons. change (rowsum [] y) with 0. lia.
    + apply Forall_app. split; assumption.
  - split; [reflexivity | constructor; [exact We | exact Wa]].
Qed.

Lemma push_curve_item_rowsum acc ls y : Forall wf1 ls -> Forall wf1 (lines_of acc) ->
  rowsum (lines_of (push_curve_item acc ls)) y = rowsum ls y + rowsum (lines_of acc) y /\ Forall wf1 (lines_of (push_curve_item acc ls)).
Proof.
  intros Wl Wa. unfold push_curve_item. destruct ls as [|e r].
  - split; [change (rowsum [] y) with 0; lia | exact Wa].
  - change (lines_of (ICurve (e :: r) :: acc)) with ((e :: r) ++ lines_of acc). rewrite rowsum_app. split; [reflexivity|].
    apply Forall_app. split; assumption.
Qed.

(* the pieces of a chopped quad share their junction: the contributions telescope *)
Definition quads_chain (a c : pt) (qs : list (pt * pt * pt)) : Prop :=
  match qs with
  | [(a', _, c')] => a' = a /\ c' = c
  | [(a', _, m); (m', _, c')] => a' = a /\ m' = m /\ c' = c
  | _ => False
  end.

Lemma chop_quad_chain a b c : quads_chain a c (chop_quad_at_y_extrema a b c).
Proof.
  unfold chop_quad_at_y_extrema. destruct (is_not_monotonic _ _ _); [|cbn; auto].
  destruct (valid_unit_divide _ _); cbn; auto.
Qed.

Lemma push_quads_rowsum shift y : forall qs acc acc',
  push_quads acc qs shift = Some acc' -> Forall wf1 (lines_of acc) ->
  rowsum (lines_of acc') y =
    rowsum (lines_of acc) y + fold_right (fun q s => below shift (snd q) y - below shift (fst (fst q)) y + s) 0 qs /\
  Forall wf1 (lines_of acc').
Proof.
  induction qs as [|[[a b] c] r IH]; intros acc acc' H W; cbn [push_quads] in H.
  - injection H as H. subst acc'. cbn [fold_right]. split; [lia | exact W].
  - destruct (quad_edge_lines a b c shift) as [ls|] eqn:Q; [|discriminate].
    destruct (quad_contribution _ _ _ _ _ y Q) as (Wl & C).
    destruct (push_curve_item_rowsum acc ls y Wl W) as (P1 & P2).
    destruct (IH _ _ H P2) as (A & B). split; [|exact B]. rewrite A, P1, C. cbn [fold_right fst snd]. lia.
Qed.

Definition seg_tele (shift : Z) (s : seg) (y : Z) : Z :=
  match s with
  | SLine a b => below shift b y - below shift a y
  | SQuad a _ c => below shift c y - below shift a y
  | SCubic a _ _ d => below shift d y - below shift a y
  end.
Definition tele_s (shift : Z) (segs : list seg) (y : Z) : Z := fold_right (fun s acc => seg_tele shift s y + acc) 0 segs.
Definition not_cubic (s : seg) : Prop := match s with SCubic _ _ _ _ => False | _ => True end.

Lemma build_items_rowsum shift y : forall segs acc its,
  build_items segs shift acc = Some its -> Forall not_cubic segs -> Forall wf1 (lines_of acc) ->
  rowsum (lines_of its) y = rowsum (lines_of acc) y + tele_s shift segs y /\ Forall wf1 (lines_of its).
Proof.
  induction segs as [|s r IH]; intros acc its H NC W; cbn [build_items] in H.
  - injection H as H. subst its. unfold tele_s. cbn [fold_right]. rewrite rowsum_lines_rev. split; [lia | apply forall_lines_rev; exact W].
  - inversion NC as [|? ? N1 N2]; subst. destruct s as [p0 p1 | a b c | a b c d]; [| |destruct N1].
    + destruct (line_edge_new p0 p1 shift) as [[e|]|] eqn:LE; [| |discriminate].
      * pose proof (segment_contribution p0 p1 shift (Some e) y LE) as (We & C).
        destruct (push_line_item_rowsum acc e y We W) as (P1 & P2).
        destruct (IH _ _ H N2 P2) as (A & B). split; [|exact B].
        rewrite A, P1, rowsum_cons, C. unfold tele_s. cbn [fold_right seg_tele]. lia.
      * pose proof (segment_contribution p0 p1 shift None y LE) as C. cbv beta iota in C.
        destruct (IH _ _ H N2 W) as (A & B). split; [|exact B]. rewrite A. unfold tele_s. cbn [fold_right seg_tele]. lia.
    + destruct (push_quads acc (chop_quad_at_y_extrema a b c) shift) as [acc'|] eqn:PQ; [|discriminate].
      destruct (push_quads_rowsum shift y _ _ _ PQ W) as (P1 & P2).
      destruct (IH _ _ H N2 P2) as (A & B). split; [|exact B]. rewrite A, P1. unfold tele_s. cbn [fold_right seg_tele].
      pose proof (chop_quad_chain a b c) as Ch. destruct (chop_quad_at_y_extrema a b c) as [|[[a1 b1] c1] [|[[a2 b2] c2] [|? ?]]]; cbn in Ch; try contradiction.
      * destruct Ch as (-> & ->). cbn [fold_right fst snd]. lia.
      * destruct Ch as (-> & -> & ->). cbn [fold_right fst snd]. lia.
Qed.

Lemma path_segs_tele shift y : forall vs ps last mv nc segs,
  path_segs_aux vs ps last mv nc = Some segs -> (nc = false -> last = mv) -> ~ In Cubic vs ->
  tele_s shift segs y = below shift mv y - below shift last y /\ Forall not_cubic segs.
Proof.
  induction vs as [|v vs IH]; intros ps last mv nc segs H Hn NC; cbn [path_segs_aux] in H.
  - injection H as H. subst segs. destruct nc.
    + unfold tele_s. cbn [fold_right seg_tele]. split; [lia | constructor; [exact I | constructor]].
    + rewrite (Hn eq_refl). unfold tele_s. cbn. split; [lia | constructor].
  - assert (NC' : ~ In Cubic vs) by (intros X; apply NC; right; exact X).
    destruct v.
    + (* Move *)
      destruct ps as [|p ps']; [discriminate|].
      destruct (path_segs_aux vs ps' p p false) as [r|] eqn:R; [|discriminate]. cbn [option_map] in H. injection H as H. subst segs.
      destruct (IH _ _ _ _ _ R ltac:(reflexivity) NC') as (T & F).
      unfold tele_s in *. rewrite fold_right_app. destruct nc.
      * cbn [fold_right seg_tele]. split; [rewrite T; lia | constructor; [exact I | exact F]].
      * cbn [fold_right app]. rewrite (Hn eq_refl). split; [rewrite T; lia | exact F].
    + (* Line *)
      destruct ps as [|p ps']; [discriminate|].
      destruct (path_segs_aux vs ps' p mv true) as [r|] eqn:R; [|discriminate]. cbn [option_map] in H. injection H as H. subst segs.
      destruct (IH _ _ _ _ _ R ltac:(discriminate) NC') as (T & F).
      unfold tele_s in *. cbn [fold_right seg_tele]. split; [rewrite T; lia | constructor; [exact I | exact F]].
    + (* Quad *)
      destruct ps as [|p1 [|p2 ps']]; try discriminate.
      destruct (path_segs_aux vs ps' p2 mv true) as [r|] eqn:R; [|discriminate]. cbn [option_map] in H. injection H as H. subst segs.
      destruct (IH _ _ _ _ _ R ltac:(discriminate) NC') as (T & F).
      unfold tele_s in *. cbn [fold_right seg_tele]. split; [rewrite T; lia | constructor; [exact I | exact F]].
    + exfalso. apply NC. left. reflexivity.
    + (* Close *)
      destruct (path_segs_aux vs ps mv mv false) as [r|] eqn:R; [|discriminate]. cbn [option_map] in H. injection H as H. subst segs.
      destruct (IH _ _ _ _ _ R ltac:(reflexivity) NC') as (T & F).
      unfold tele_s in *. rewrite fold_right_app. destruct nc.
      * cbn [fold_right seg_tele]. split; [rewrite T; lia | constructor; [exact I | exact F]].
      * cbn [fold_right app]. rewrite (Hn eq_refl). split; [rewrite T; lia | exact F].
Qed.

(* EVERY ROW IS BALANCED for every path made of lines and quadratic segments *)
Theorem build_edges_curves_balanced p shift es :
  build_edges_curves p shift = Some (Some es) -> ~ In Cubic (pverbs p) -> (forall y, rowsum es y = 0) /\ Forall wf1 es.
Proof.
  unfold build_edges_curves. destruct (path_segs p) as [segs|] eqn:PS; [|discriminate].
  destruct (build_items segs shift []) as [its|] eqn:BI; [|discriminate].
  destruct (length its <? 2)%nat; [discriminate|]. intros H NC. injection H as H. subst es. fold (lines_of its).
  unfold path_segs in PS.
  split.
  - intros y. destruct (path_segs_tele shift y _ _ _ _ _ _ PS ltac:(reflexivity) NC) as (T & F).
    destruct (build_items_rowsum shift y _ _ _ BI F ltac:(constructor)) as (A & _). rewrite A, T.
    change (lines_of []) with (@nil ledge). change (rowsum [] y) with 0. lia.
  - destruct (path_segs_tele shift 0 _ _ _ _ _ _ PS ltac:(reflexivity) NC) as (_ & F).
    exact (proj2 (build_items_rowsum shift 0 _ _ _ BI F ltac:(constructor))).
Qed.

(* the fill theorem for every path of lines and quadratic segments inside the clip: no balance hypothesis *)
Theorem quad_path_fill_spec p es start stop rc eo out :
  build_edges_curves p 0 = Some (Some es) -> ~ In Cubic (pverbs p) -> fill_spans es start stop rc eo 0 = Some out ->
  (forall e, In e es -> start <= e_first_y e) -> 0 <= start -> 0 <= stop ->
  exists acts : Z -> list ledge,
    (forall yy, start <= yy -> (yy < stop \/ yy = start) -> asc (acts yy) /\ Permutation (acts yy) (active_at es yy)) /\
    forall yy c, start <= yy -> (yy < stop \/ yy = start) -> (forall e, In e (acts yy) -> x_ok e) ->
      (cov out yy c <-> masked (wsum (xs_of (active_at es yy)) c) eo = true).
Proof.
  intros HB NC HF Hs H0 H1. destruct (build_edges_curves_balanced p 0 es HB NC) as (Bal & W).
  assert (WF : wf_edges es) by (intros e He; rewrite Forall_forall in W; exact (proj1 (W e He))).
  destruct (fill_spans_spec es start stop rc eo out HF WF Hs H0 H1) as (acts & Ha & Hc).
  exists acts. split; [exact Ha|]. intros yy c Hy Hr X. apply Hc; try assumption.
  rewrite sumw_active, Bal. destruct eo; reflexivity.
Qed.

(* on a path without curves the curve-aware builder is the line builder *)
Lemma path_segs_lines : forall vs ps last mv nc segs,
  path_lines_aux vs ps last mv nc = Some segs ->
  path_segs_aux vs ps last mv nc = Some (map (fun s => SLine (fst s) (snd s)) segs).
Proof.
  induction vs as [|v vs IH]; intros ps last mv nc segs H; cbn [path_lines_aux path_segs_aux] in *.
  - injection H as H. subst segs. destruct nc; reflexivity.
  - destruct v; try discriminate.
    + destruct ps as [|p ps']; [discriminate|].
      destruct (path_lines_aux vs ps' p p false) as [r|] eqn:R; [|discriminate]. cbn [option_map] in H. injection H as H. subst segs.
      rewrite (IH _ _ _ _ _ R). cbn [option_map]. rewrite map_app. destruct nc; reflexivity.
    + destruct ps as [|p ps']; [discriminate|].
      destruct (path_lines_aux vs ps' p mv true) as [r|] eqn:R; [|discriminate]. cbn [option_map] in H. injection H as H. subst segs.
      rewrite (IH _ _ _ _ _ R). reflexivity.
    + destruct (path_lines_aux vs ps mv mv false) as [r|] eqn:R; [|discriminate]. cbn [option_map] in H. injection H as H. subst segs.
      rewrite (IH _ _ _ _ _ R). cbn [option_map]. rewrite map_app. destruct nc; reflexivity.
Qed.

Lemma push_line_item_line acc e : push_line_item (map ILine acc) e = map ILine (push_line acc e).
Proof.
  unfold push_line_item, push_line. destruct acc as [|last rest]; [reflexivity|]. cbn [map].
  destruct (e_dx e =? 0); [|reflexivity]. destruct (combine_vertical e last); reflexivity.
Qed.

Lemma build_items_lines shift : forall segs acc,
  build_items (map (fun s => SLine (fst s) (snd s)) segs) shift (map ILine acc) = option_map (map ILine) (build_edges_aux segs shift acc).
Proof.
  induction segs as [|[p0 p1] r IH]; intros acc; cbn [map build_items build_edges_aux fst snd].
  - cbn [option_map]. rewrite map_rev. reflexivity.
  - destruct (line_edge_new p0 p1 shift) as [[e|]|]; [| |reflexivity].
    + rewrite push_line_item_line. apply IH.
    + apply IH.
Qed.

Lemma lines_of_lines es : flat_map item_lines (map ILine es) = es.
Proof. induction es as [|e t IHt]; [reflexivity|]. cbn [map flat_map item_lines app]. rewrite IHt. reflexivity. Qed.

Theorem build_edges_curves_lines p shift r : build_edges p shift = Some r -> build_edges_curves p shift = Some r.
Proof.
  unfold build_edges, build_edges_curves, path_lines, path_segs.
  destruct (path_lines_aux _ _ _ _ _) as [segs|] eqn:PL; [|discriminate]. rewrite (path_segs_lines _ _ _ _ _ _ PL).
  pose proof (build_items_lines shift segs []) as B. cbn [map] in B. rewrite B.
  destruct (build_edges_aux segs shift []) as [es|]; [|discriminate]. cbn [option_map]. rewrite map_length, lines_of_lines.
  intros H. exact H.
Qed.

(* footprint for paths with quadratic segments: a covered column lies between the rounded abscissas of two active edges *)
Theorem quad_fill_footprint p es start stop rc eo out :
  build_edges_curves p 0 = Some (Some es) -> ~ In Cubic (pverbs p) -> fill_spans es start stop rc eo 0 = Some out ->
  (forall e, In e es -> start <= e_first_y e) -> 0 <= start -> 0 <= stop ->
  forall yy c, start <= yy -> (yy < stop \/ yy = start) -> (forall e, In e (active_at es yy) -> x_ok e) ->
  cov out yy c ->
  (exists e, In e (active_at es yy) /\ rx e <= c) /\ (exists e, In e (active_at es yy) /\ c < rx e).
Proof.
  intros HB NC HF Hs H0 H1 yy c Hy Hr X HC.
  destruct (quad_path_fill_spec p es start stop rc eo out HB NC HF Hs H0 H1) as (acts & Ha & Hc).
  destruct (Ha yy Hy Hr) as (A & P).
  assert (X' : forall e, In e (acts yy) -> x_ok e) by (intros e He; apply X; apply (Permutation_in _ P); exact He).
  apply (Hc yy c Hy Hr X') in HC.
  assert (M0 : masked 0 eo = false) by (destruct eo; reflexivity).
  split.
  - destruct (existsb (fun e => rx e <=? c) (active_at es yy)) eqn:E.
    + apply existsb_exists in E. destruct E as (e & He & Le). apply Z.leb_le in Le. eauto.
    + exfalso. rewrite wsum_before in HC; [congruence|]. intros x wd Hi. unfold xs_of in Hi. apply in_map_iff in Hi.
      destruct Hi as (e & Ee & He). inversion Ee; subst.
      destruct (Z_lt_le_dec c (rx e)) as [L | L]; [exact L|]. exfalso.
      assert (existsb (fun e0 => rx e0 <=? c) (active_at es yy) = true) by (apply existsb_exists; exists e; split; [exact He | apply Z.leb_le; exact L]). congruence.
  - destruct (existsb (fun e => c <? rx e) (active_at es yy)) eqn:E.
    + apply existsb_exists in E. destruct E as (e & He & Le). apply Z.ltb_lt in Le. eauto.
    + exfalso. rewrite wsum_all in HC.
      * rewrite sum_xs_of in HC. rewrite sumw_active, (proj1 (build_edges_curves_balanced p 0 es HB NC)) in HC. congruence.
      * intros x wd Hi. unfold xs_of in Hi. apply in_map_iff in Hi. destruct Hi as (e & Ee & He). inversion Ee; subst.
        destruct (Z_lt_le_dec c (rx e)) as [L | L]; [|exact L]. exfalso.
        assert (existsb (fun e0 => c <? rx e0) (active_at es yy) = true) by (apply existsb_exists; exists e; split; [exact He | apply Z.ltb_lt; exact L]). congruence.
Qed.

(* ---- cubic edges: where the pin `newy = max(newy, oldy)` can leave the rows unbalanced ----------------------------------- *)
Lemma row16_mono y y' r r' : row16 y = Some r -> row16 y' = Some r' -> y <= y' -> r <= r'.
Proof.
  unfold row16. intros A B L.
  assert (S : sar y 10 <= sar y' 10) by (unfold sar; rewrite !Z.shiftr_div_pow2 by lia; apply Z.div_le_mono; lia).
  pose proof (fdot6_round_spec _ _ A r') as (A1 & _). pose proof (fdot6_round_spec _ _ B r') as (B1 & _).
  apply A1. assert (sar y' 10 < 64 * r' + 32) by (apply B1; lia). lia.
Qed.

Lemma cubic_update_loop_full fuel : forall c count oldx oldy c' oe,
  cubic_update_loop fuel c count oldx oldy = Some (c', oe) -> count <= -1 ->
  c_lasty c' = c_lasty c /\ c_wind c' = c_wind c /\ c_count c' <= 0 /\ (c_count c' = 0 -> c_lasty c <= c_y c') /\ oldy <= c_y c' /\
  match oe with
  | Some e => row16 oldy = Some (e_first_y e) /\ row16 (c_y c') = Some (e_last_y e + 1) /\ e_winding e = c_wind c /\
              e_first_y e <= e_last_y e
  | None => c_count c' = 0 /\ exists r, row16 oldy = Some r /\ row16 (c_y c') = Some r
  end.
Proof.
  induction fuel as [|n IH]; intros c count oldx oldy c' oe H Hc; cbn [cubic_update_loop] in H; [discriminate|].
  apply bind_some' in H. destruct H as (nxt & Enxt & H). destruct nxt as (((((newx, newy0), dx), dy), ddx), ddy).
  assert (Last : count + 1 = 0 -> newy0 = c_lasty c).
  { intros Z0. rewrite Z0 in Enxt. cbn in Enxt. injection Enxt as _ E _ _ _ _. symmetry. exact E. }
  set (newy := if newy0 <? oldy then oldy else newy0) in *.
  assert (Pin : oldy <= newy /\ newy0 <= newy) by (unfold newy; destruct (Z.ltb_spec newy0 oldy); lia).
  apply bind_some' in H. destruct H as (r & Er & H).
  destruct (line_update_rows _ _ _ _ _ _ Er) as (top & bottom & Rt & Rb & Hr).
  destruct r as [e0|].
  - pose proof (line_update_ord _ _ _ _ _ _ Er) as Ord.
    injection H as H1 H2. subst c' oe. cbn [c_y c_wind c_count c_lasty]. destruct Hr as (F & L & W & NE).
    refine (conj eq_refl (conj eq_refl (conj _ (conj _ (conj (proj1 Pin) (conj _ (conj _ (conj W Ord)))))))); [lia | | |].
    + intros Z0. rewrite <- (Last Z0). exact (proj2 Pin).
    + rewrite F. exact Rt.
    + rewrite L. replace (bottom - 1 + 1) with bottom by lia. exact Rb.
  - destruct (Z.eqb_spec (count + 1) 0) as [Z0 | NZ].
    + injection H as H1 H2. subst c' oe. cbn [c_y c_wind c_count c_lasty].
      refine (conj eq_refl (conj eq_refl (conj _ (conj _ (conj (proj1 Pin) (conj Z0 _)))))); [lia | |].
      * intros _. rewrite <- (Last Z0). exact (proj2 Pin).
      * exists top. split; [exact Rt|]. rewrite Hr. exact Rb.
    + destruct (IH _ _ _ _ _ _ H ltac:(lia)) as (A & B & C & D & E & F). cbn [c_lasty c_wind] in A, B, D, F.
      refine (conj A (conj B (conj C (conj D (conj _ _))))); [lia|].
      destruct oe as [e|].
      * destruct F as (F1 & F2 & F3 & F4). refine (conj _ (conj F2 (conj F3 F4))). rewrite Rt, Hr, <- Rb. exact F1.
      * destruct F as (F0 & r & F1 & F2). split; [exact F0|]. exists r. split; [|exact F2]. rewrite Rt, Hr, <- Rb. exact F1.
Qed.

(* the lines of a cubic edge tile the rows from its top row down to [stop], which is never above the row of its last point *)
Lemma cubic_lines_loop_to fuel : forall c ls r0,
  cubic_lines_loop fuel c = Some ls -> row16 (c_y c) = Some r0 -> c_count c <= 0 -> (c_count c = 0 -> c_lasty c <= c_y c) ->
  exists ystop stop, row16 ystop = Some stop /\ c_lasty c <= ystop /\ c_y c <= ystop /\ chained_to (c_wind c) r0 ls stop.
Proof.
  induction fuel as [|n IH]; intros c ls r0 H R Hc Hl; cbn [cubic_lines_loop] in H; [discriminate|].
  destruct (Z.leb_spec 0 (c_count c)) as [Ge | Lt].
  - injection H as H. subst ls. exists (c_y c), r0. split; [exact R|]. split; [apply Hl; lia|]. split; [lia | reflexivity].
  - apply bind_some' in H. destruct H as (r & Er & H). destruct r as (c', oe). cbn [fst snd] in H.
    unfold cubic_update in Er. destruct (Z.leb_spec 0 (c_count c)) as [Ge' | _]; [lia|].
    destruct (cubic_update_loop_full _ _ _ _ _ _ _ Er ltac:(lia)) as (A & B & C & D & Mo & E).
    destruct oe as [e|].
    + apply bind_some' in H. destruct H as (rest & Erest & H). injection H as H. subst ls.
      destruct E as (E1 & E2 & E3 & E4).
      destruct (IH _ _ _ Erest E2 C ltac:(intros Z0; rewrite A; exact (D Z0))) as (ystop & stop & S1 & S2 & S3 & S4).
      exists ystop, stop. split; [exact S1|]. split; [rewrite <- A; exact S2|]. split; [lia|].
      cbn [chained_to]. rewrite R in E1. injection E1 as E1.
      repeat split; try assumption; [symmetry; exact E1 | rewrite <- B; exact S4].
    + injection H as H. subst ls. destruct E as (E0 & r & E1 & E2). rewrite R in E1. injection E1 as E1. subst r.
      exists (c_y c'), r0. split; [exact E2|]. split; [exact (D E0)|]. split; [exact Mo | reflexivity].
Qed.

Lemma cubic_new2_rows p0 p1 p2 p3 sh c :
  cubic_new2 p0 p1 p2 p3 sh = Some (Some c) ->
  let y0 := fd6 (py p0) sh in let y3 := fd6 (py p3) sh in
  exists top bot, fdot6_round (Z.min y0 y3) = Some top /\ fdot6_round (Z.max y0 y3) = Some bot /\
    sar (c_y c) 10 = Z.min y0 y3 /\ sar (c_lasty c) 10 = Z.max y0 y3 /\ c_count c <= -1 /\
    c_wind c = (if y3 <? y0 then -1 else 1).
Proof.
  unfold cubic_new2. cbv zeta.
  fold (fd6 (px p0) sh) (fd6 (py p0) sh) (fd6 (px p1) sh) (fd6 (py p1) sh) (fd6 (px p2) sh) (fd6 (py p2) sh) (fd6 (px p3) sh) (fd6 (py p3) sh).
  set (Y0 := fd6 (py p0) sh). set (Y3 := fd6 (py p3) sh). intros E0.
  assert (Pw : forall s, 0 <= s -> 1 <= 2 ^ s) by (intros s Hs; pose proof (Z.pow_pos_nonneg 2 s ltac:(lia) Hs); lia).
  destruct (Y3 <? Y0) eqn:Sw; cbv beta iota in E0;
    [apply Z.ltb_lt in Sw; rewrite Z.min_r, Z.max_l by lia | apply Z.ltb_ge in Sw; rewrite Z.min_l, Z.max_r by lia];
    apply bind_some' in E0; destruct E0 as (top & Et & E0); apply bind_some' in E0; destruct E0 as (bot & Eb & E0);
    (destruct (top =? bot) in E0; [discriminate|]);
    exists top, bot; (split; [exact Et|]); (split; [exact Eb|]);
    repeat (first [ apply bind_some' in E0; destruct E0 as (? & ? & E0)
                  | match type of E0 with context [match ?x with pair _ _ => _ end] => is_var x; destruct x end
                  | match type of E0 with context [if ?c then _ else _] => destruct c eqn:?; try discriminate end ]);
    cbv beta iota in E0; injection E0 as E0; subst c; cbn [c_y c_lasty c_count c_wind];
    repeat match goal with
           | H : fdot6_to_fdot16 ?v = Some ?r |- _ =>
               unfold fdot6_to_fdot16 in H; destruct (Z.eqb_spec (sar (left_shift v 10) 10) v); [injection H as H; subst r | discriminate]
           end;
    (split; [assumption|]); (split; [assumption|]); (split; [|reflexivity]);
    repeat match goal with H : (_ <=? 0) = false |- _ => apply Z.leb_gt in H end;
    unfold max_coeff_shift in *;
    first [ lia | match goal with |- - 2 ^ ?s <= -1 => assert (1 <= 2 ^ s) by (apply Pw; lia); lia end ].
Qed.

(* THE rows of a cubic edge: contiguous from the rounded ordinate of the upper end point down to a row [stop] that is never
   above the rounded ordinate of the lower end point -- the pin can only make the edge longer *)
Theorem cubic_edge_lines_rows p0 p1 p2 p3 sh ls :
  cubic_edge_lines p0 p1 p2 p3 sh = Some ls ->
  let y0 := fd6 (py p0) sh in let y3 := fd6 (py p3) sh in
  exists top bot stop, fdot6_round (Z.min y0 y3) = Some top /\ fdot6_round (Z.max y0 y3) = Some bot /\ bot <= stop /\
    chained_to (if y3 <? y0 then -1 else 1) top ls stop.
Proof.
  unfold cubic_edge_lines. intros H. apply bind_some' in H. destruct H as (c0 & E0 & H). cbv zeta.
  destruct c0 as [c|].
  - destruct (cubic_new2_rows _ _ _ _ _ _ E0) as (top & bot & Et & Eb & Sy & Sl & Hc & Hw).
    assert (R0 : row16 (c_y c) = Some top) by (unfold row16; rewrite Sy; exact Et).
    assert (RL : row16 (c_lasty c) = Some bot) by (unfold row16; rewrite Sl; exact Eb).
    apply bind_some' in H. destruct H as (r & Er & H). destruct r as (c', oe). cbn [fst snd] in H.
    unfold cubic_update in Er. destruct (Z.leb_spec 0 (c_count c)) as [Ge' | _]; [lia|].
    destruct (cubic_update_loop_full _ _ _ _ _ _ _ Er Hc) as (A & B & C & D & Mo & E).
    destruct oe as [e|].
    + apply bind_some' in H. destruct H as (rest & Erest & H). injection H as H. subst ls.
      destruct E as (E1 & E2 & E3 & E4).
      destruct (cubic_lines_loop_to _ _ _ _ Erest E2 C ltac:(intros Z0; rewrite A; exact (D Z0))) as (ystop & stop & S1 & S2 & S3 & S4).
      exists top, bot, stop. split; [exact Et|]. split; [exact Eb|].
      split; [apply (row16_mono (c_lasty c) ystop); [exact RL | exact S1 | rewrite <- A; exact S2]|].
      cbn [chained_to]. rewrite R0 in E1. injection E1 as E1. rewrite <- Hw.
      repeat split; try assumption; [symmetry; exact E1 | rewrite <- B; exact S4].
    + injection H as H. subst ls. destruct E as (E0' & r & E1 & E2). rewrite R0 in E1. injection E1 as E1. subst r.
      exists top, bot, top. split; [exact Et|]. split; [exact Eb|].
      split; [apply (row16_mono (c_lasty c) (c_y c')); [exact RL | exact E2 | exact (D E0')] | reflexivity].
  - injection H as H. subst ls. cbn [chained_to].
    revert E0. unfold cubic_new2. cbv zeta.
    fold (fd6 (px p0) sh) (fd6 (py p0) sh) (fd6 (px p1) sh) (fd6 (py p1) sh) (fd6 (px p2) sh) (fd6 (py p2) sh) (fd6 (px p3) sh) (fd6 (py p3) sh).
    set (Y0 := fd6 (py p0) sh). set (Y3 := fd6 (py p3) sh). intros E0.
    destruct (Y3 <? Y0) eqn:Sw; cbv beta iota in E0;
      [apply Z.ltb_lt in Sw; rewrite Z.min_r, Z.max_l by lia | apply Z.ltb_ge in Sw; rewrite Z.min_l, Z.max_r by lia];
      apply bind_some' in E0; destruct E0 as (top & Et & E0); apply bind_some' in E0; destruct E0 as (bot & Eb & E0);
      exists top, bot, top; (split; [exact Et|]); (split; [exact Eb|]);
      (destruct (Z.eqb_spec top bot) as [E | NE] in E0; [split; [lia | reflexivity]|]);
      repeat (first [ apply bind_some' in E0; destruct E0 as (? & ? & E0)
                    | match type of E0 with context [match ?x with pair _ _ => _ end] => is_var x; destruct x end
                    | match type of E0 with context [if ?c then _ else _] => destruct c; try discriminate end ]);
      cbv beta iota in E0; discriminate.
Qed.

(* ---- paths with cubic segments whose edges end on the row of their last point ------------------------------------------ *)
(* the executable test [cubic_exact] is defined in Model/CurveFill.v *)
Lemma fd6m_fd6 v sh : fd6m v sh = fd6 v sh.
Proof. reflexivity. Qed.

Lemma chained_to_last w : forall ls first stop, chained_to w first ls stop ->
  match rev ls with [] => first = stop | e :: _ => e_last_y e + 1 = stop end.
Proof.
  induction ls as [|e rest IH]; intros first stop H; cbn [chained_to] in H; [exact H|].
  destruct H as (_ & _ & _ & R). specialize (IH _ _ R). cbn [rev].
  destruct (rev rest) as [|l t] eqn:E; cbn [app]; [exact IH | exact IH].
Qed.

Lemma cubic_contribution a b c d shift ls y :
  cubic_edge_lines a b c d shift = Some ls -> cubic_exact (a, b, c, d) shift = true ->
  Forall wf1 ls /\ rowsum ls y = below shift d y - below shift a y.
Proof.
  intros H X. destruct (cubic_edge_lines_rows _ _ _ _ _ _ H) as (top & bot & stop & Et & Eb & Le & Ch). cbv zeta in Et, Eb.
  unfold cubic_exact in X. cbv beta iota in X. rewrite (fd6m_fd6 (py a)), (fd6m_fd6 (py d)) in X. rewrite H, Eb in X.
  pose proof (chained_to_last _ _ _ _ Ch) as L.
  assert (ES : stop = bot \/ ls = []).
  { destruct (rev ls) as [|e t] eqn:E.
    - right. apply (f_equal (@rev _)) in E. rewrite rev_involutive in E. exact E.
    - left. apply Z.eqb_eq in X. lia. }
  assert (Ch' : chained_to (if fd6 (py d) shift <? fd6 (py a) shift then -1 else 1) top ls bot).
  { destruct ES as [-> | ->]; [exact Ch|]. cbn [chained_to] in *.
    (* no line at all: top = stop >= bot >= top *)
    pose proof (fdot6_round_spec _ _ Et bot) as (A1 & _). pose proof (fdot6_round_spec _ _ Eb bot) as (B1 & _).
    assert (Z.max (fd6 (py a) shift) (fd6 (py d) shift) < 64 * bot + 32) by (apply B1; lia).
    assert (top <= bot) by (apply A1; lia). lia. }
  destruct (chained_rowsum _ y _ _ _ Ch') as (_ & S & W). split.
  - rewrite Forall_forall in W. apply Forall_forall. intros e He. destruct (W e He) as (O & Wd). split; [exact O|].
    rewrite Wd. destruct (_ <? _); auto.
  - rewrite S. unfold below.
    set (Y0 := fd6 (py a) shift) in *. set (Y3 := fd6 (py d) shift) in *.
    pose proof (fdot6_round_spec _ _ Et y) as (T1 & _). pose proof (fdot6_round_spec _ _ Eb y) as (_ & B1).
    destruct (Y3 <? Y0) eqn:Sw; [apply Z.ltb_lt in Sw; rewrite Z.min_r in T1 by lia; rewrite Z.max_l in B1 by lia
                                | apply Z.ltb_ge in Sw; rewrite Z.min_l in T1 by lia; rewrite Z.max_r in B1 by lia];
      destruct (top <=? y) eqn:A; destruct (y <? bot) eqn:B; destruct (64 * y + 32 <=? Y3) eqn:C; destruct (64 * y + 32 <=? Y0) eqn:D; cbn;
      try apply Z.leb_le in A; try apply Z.leb_gt in A; try apply Z.ltb_lt in B; try apply Z.ltb_ge in B;
      try apply Z.leb_le in C; try apply Z.leb_gt in C; try apply Z.leb_le in D; try apply Z.leb_gt in D; lia.
Qed.

Definition cubs_chain (a d : pt) (cs : list cub) : Prop :=
  match cs with
  | [(a', _, _, d')] => a' = a /\ d' = d
  | [(a', _, _, m); (m', _, _, d')] => a' = a /\ m' = m /\ d' = d
  | [(a', _, _, m); (m', _, _, n); (n', _, _, d')] => a' = a /\ m' = m /\ n' = n /\ d' = d
  | _ => False
  end.

Lemma chop_cubic_chain a b c d : cubs_chain a d (chop_cubic_at_y_extrema (a, b, c, d)).
Proof.
  unfold chop_cubic_at_y_extrema. destruct (find_cubic_extrema _ _ _ _) as [|t0 [|t1 rest]]; [cbn; auto | cbn; auto|].
  unfold chop_cubic_at2 at 1. cbv beta iota zeta.
  destruct (valid_unit_divide _ _) as [n|]; cbn; auto.
Qed.

Definition cub_tele (shift : Z) (q : cub) (y : Z) : Z :=
  let '(a, _, _, d) := q in below shift d y - below shift a y.

Lemma push_cubics_rowsum shift y : forall cs acc acc',
  push_cubics acc cs shift = Some acc' -> Forall wf1 (lines_of acc) -> (forall q, In q cs -> cubic_exact q shift = true) ->
  rowsum (lines_of acc') y = rowsum (lines_of acc) y + fold_right (fun q s => cub_tele shift q y + s) 0 cs /\
  Forall wf1 (lines_of acc').
Proof.
  induction cs as [|[[[a b] c] d] r IH]; intros acc acc' H W X; cbn [push_cubics] in H.
  - injection H as H. subst acc'. cbn [fold_right]. split; [lia | exact W].
  - destruct (cubic_edge_lines a b c d shift) as [ls|] eqn:Q; [|discriminate].
    destruct (cubic_contribution _ _ _ _ _ _ y Q (X _ (or_introl eq_refl))) as (Wl & C).
    destruct (push_curve_item_rowsum acc ls y Wl W) as (P1 & P2).
    destruct (IH _ _ H P2 ltac:(intros q Hq; apply X; right; exact Hq)) as (A & B). split; [|exact B].
    rewrite A, P1, C. cbn [fold_right cub_tele]. lia.
Qed.

Definition cubics_exact (segs : list seg) (shift : Z) : Prop :=
  forall a b c d q, In (SCubic a b c d) segs -> In q (chop_cubic_at_y_extrema (a, b, c, d)) -> cubic_exact q shift = true.

Lemma build_items_rowsum_all shift y : forall segs acc its,
  build_items segs shift acc = Some its -> cubics_exact segs shift -> Forall wf1 (lines_of acc) ->
  rowsum (lines_of its) y = rowsum (lines_of acc) y + tele_s shift segs y /\ Forall wf1 (lines_of its).
Proof.
  induction segs as [|s r IH]; intros acc its H CE W; cbn [build_items] in H.
  - injection H as H. subst its. unfold tele_s. cbn [fold_right]. rewrite rowsum_lines_rev. split; [lia | apply forall_lines_rev; exact W].
  - assert (CE' : cubics_exact r shift) by (intros a b c d q Hi Hq; apply (CE a b c d q); [right; exact Hi | exact Hq]).
    destruct s as [p0 p1 | a b c | a b c d].
    + destruct (line_edge_new p0 p1 shift) as [[e|]|] eqn:LE; [| |discriminate].
      * pose proof (segment_contribution p0 p1 shift (Some e) y LE) as (We & C).
        destruct (push_line_item_rowsum acc e y We W) as (P1 & P2).
        destruct (IH _ _ H CE' P2) as (A & B). split; [|exact B].
        rewrite A, P1, rowsum_cons, C. unfold tele_s. cbn [fold_right seg_tele]. lia.
      * pose proof (segment_contribution p0 p1 shift None y LE) as C. cbv beta iota in C.
        destruct (IH _ _ H CE' W) as (A & B). split; [|exact B]. rewrite A. unfold tele_s. cbn [fold_right seg_tele]. lia.
    + destruct (push_quads acc (chop_quad_at_y_extrema a b c) shift) as [acc'|] eqn:PQ; [|discriminate].
      destruct (push_quads_rowsum shift y _ _ _ PQ W) as (P1 & P2).
      destruct (IH _ _ H CE' P2) as (A & B). split; [|exact B]. rewrite A, P1. unfold tele_s. cbn [fold_right seg_tele].
      pose proof (chop_quad_chain a b c) as Ch. destruct (chop_quad_at_y_extrema a b c) as [|[[a1 b1] c1] [|[[a2 b2] c2] [|? ?]]]; cbn in Ch; try contradiction.
      * destruct Ch as (-> & ->). cbn [fold_right fst snd]. lia.
      * destruct Ch as (-> & -> & ->). cbn [fold_right fst snd]. lia.
    + destruct (push_cubics acc (chop_cubic_at_y_extrema (a, b, c, d)) shift) as [acc'|] eqn:PC; [|discriminate].
      destruct (push_cubics_rowsum shift y _ _ _ PC W ltac:(intros q Hq; apply (CE a b c d q); [left; reflexivity | exact Hq])) as (P1 & P2).
      destruct (IH _ _ H CE' P2) as (A & B). split; [|exact B]. rewrite A, P1. unfold tele_s. cbn [fold_right seg_tele].
      pose proof (chop_cubic_chain a b c d) as Ch.
      destruct (chop_cubic_at_y_extrema (a, b, c, d)) as [|[[[a1 ?] ?] d1] [|[[[a2 ?] ?] d2] [|[[[a3 ?] ?] d3] [|? ?]]]]; cbn in Ch; try contradiction.
      * destruct Ch as (-> & ->). cbn [fold_right cub_tele]. lia.
      * destruct Ch as (-> & -> & ->). cbn [fold_right cub_tele]. lia.
      * destruct Ch as (-> & -> & -> & ->). cbn [fold_right cub_tele]. lia.
Qed.

Lemma path_segs_tele_all shift y : forall vs ps last mv nc segs,
  path_segs_aux vs ps last mv nc = Some segs -> (nc = false -> last = mv) ->
  tele_s shift segs y = below shift mv y - below shift last y.
Proof.
  induction vs as [|v vs IH]; intros ps last mv nc segs H Hn; cbn [path_segs_aux] in H.
  - injection H as H. subst segs. destruct nc.
    + unfold tele_s. cbn [fold_right seg_tele]. lia.
    + rewrite (Hn eq_refl). unfold tele_s. cbn. lia.
  - destruct v.
    + destruct ps as [|p ps']; [discriminate|].
      destruct (path_segs_aux vs ps' p p false) as [r|] eqn:R; [|discriminate]. cbn [option_map] in H. injection H as H. subst segs.
      pose proof (IH _ _ _ _ _ R ltac:(reflexivity)) as T.
      unfold tele_s in *. rewrite fold_right_app. destruct nc.
      * cbn [fold_right seg_tele]. rewrite T. lia.
      * cbn [fold_right app]. rewrite (Hn eq_refl), T. lia.
    + destruct ps as [|p ps']; [discriminate|].
      destruct (path_segs_aux vs ps' p mv true) as [r|] eqn:R; [|discriminate]. cbn [option_map] in H. injection H as H. subst segs.
      pose proof (IH _ _ _ _ _ R ltac:(discriminate)) as T. unfold tele_s in *. cbn [fold_right seg_tele]. rewrite T. lia.
    + destruct ps as [|p1 [|p2 ps']]; try discriminate.
      destruct (path_segs_aux vs ps' p2 mv true) as [r|] eqn:R; [|discriminate]. cbn [option_map] in H. injection H as H. subst segs.
      pose proof (IH _ _ _ _ _ R ltac:(discriminate)) as T. unfold tele_s in *. cbn [fold_right seg_tele]. rewrite T. lia.
    + destruct ps as [|p1 [|p2 [|p3 ps']]]; try discriminate.
      destruct (path_segs_aux vs ps' p3 mv true) as [r|] eqn:R; [|discriminate]. cbn [option_map] in H. injection H as H. subst segs.
      pose proof (IH _ _ _ _ _ R ltac:(discriminate)) as T. unfold tele_s in *. cbn [fold_right seg_tele]. rewrite T. lia.
    + destruct (path_segs_aux vs ps mv mv false) as [r|] eqn:R; [|discriminate]. cbn [option_map] in H. injection H as H. subst segs.
      pose proof (IH _ _ _ _ _ R ltac:(reflexivity)) as T.
      unfold tele_s in *. rewrite fold_right_app. destruct nc.
      * cbn [fold_right seg_tele]. rewrite T. lia.
      * cbn [fold_right app]. rewrite (Hn eq_refl), T. lia.
Qed.

(* every row is balanced for every path whose cubic edges end on the row of their last point *)
Theorem build_edges_curves_balanced_exact p shift es segs :
  build_edges_curves p shift = Some (Some es) -> path_segs p = Some segs -> cubics_exact segs shift ->
  (forall y, rowsum es y = 0) /\ Forall wf1 es.
Proof.
  unfold build_edges_curves. intros H PS CE. rewrite PS in H.
  destruct (build_items segs shift []) as [its|] eqn:BI; [|discriminate].
  destruct (length its <? 2)%nat; [discriminate|]. injection H as H. subst es. fold (lines_of its).
  unfold path_segs in PS. split.
  - intros y. destruct (build_items_rowsum_all shift y _ _ _ BI CE ltac:(constructor)) as (A & _).
    rewrite A, (path_segs_tele_all shift y _ _ _ _ _ _ PS ltac:(reflexivity)).
    change (lines_of []) with (@nil ledge). change (rowsum [] y) with 0. lia.
  - exact (proj2 (build_items_rowsum_all shift 0 _ _ _ BI CE ltac:(constructor))).
Qed.

Theorem exact_path_fill_spec p segs es start stop rc eo out :
  build_edges_curves p 0 = Some (Some es) -> path_segs p = Some segs -> cubics_exact segs 0 ->
  fill_spans es start stop rc eo 0 = Some out ->
  (forall e, In e es -> start <= e_first_y e) -> 0 <= start -> 0 <= stop ->
  exists acts : Z -> list ledge,
    (forall yy, start <= yy -> (yy < stop \/ yy = start) -> asc (acts yy) /\ Permutation (acts yy) (active_at es yy)) /\
    forall yy c, start <= yy -> (yy < stop \/ yy = start) -> (forall e, In e (acts yy) -> x_ok e) ->
      (cov out yy c <-> masked (wsum (xs_of (active_at es yy)) c) eo = true).
Proof.
  intros HB PS CE HF Hs H0 H1. destruct (build_edges_curves_balanced_exact p 0 es segs HB PS CE) as (Bal & W).
  assert (WF : wf_edges es) by (intros e He; rewrite Forall_forall in W; exact (proj1 (W e He))).
  destruct (fill_spans_spec es start stop rc eo out HF WF Hs H0 H1) as (acts & Ha & Hc).
  exists acts. split; [exact Ha|]. intros yy c Hy Hr X. apply Hc; try assumption.
  rewrite sumw_active, Bal. destruct eo; reflexivity.
Qed.

(* the boolean test on a segment list implies the hypothesis of the theorem *)
Lemma segs_exact_spec segs shift : forallb (seg_exact shift) segs = true -> cubics_exact segs shift.
Proof.
  intros H a b c d q Hi Hq. rewrite forallb_forall in H. specialize (H _ Hi). cbn [seg_exact] in H.
  rewrite forallb_forall in H. exact (H q Hq).
Qed.

Corollary path_cubics_exact_fill_spec p es start stop rc eo out :
  build_edges_curves p 0 = Some (Some es) -> path_cubics_exact p 0 = 1 ->
  fill_spans es start stop rc eo 0 = Some out ->
  (forall e, In e es -> start <= e_first_y e) -> 0 <= start -> 0 <= stop ->
  exists acts : Z -> list ledge,
    (forall yy, start <= yy -> (yy < stop \/ yy = start) -> asc (acts yy) /\ Permutation (acts yy) (active_at es yy)) /\
    forall yy c, start <= yy -> (yy < stop \/ yy = start) -> (forall e, In e (acts yy) -> x_ok e) ->
      (cov out yy c <-> masked (wsum (xs_of (active_at es yy)) c) eo = true).
Proof.
  intros HB PE. unfold path_cubics_exact in PE. destruct (path_segs p) as [segs|] eqn:PS; [|discriminate].
  destruct (forallb _ segs); [discriminate|]. destruct (forallb (seg_exact 0) segs) eqn:SE; [|discriminate].
  exact (exact_path_fill_spec p segs es start stop rc eo out HB PS (segs_exact_spec segs 0 SE)).
Qed.
