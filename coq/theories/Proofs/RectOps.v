(* Float Rect operations: validity of every result, intersect is contained in both operands,
   join contains both.  Uses B2R (classical real axioms of the standard library). *)
From Coq Require Import ZArith Bool List Lia Reals Lra.
From Flocq Require Import Core.Raux IEEE754.BinarySingleNaN.
From TS Require Import Base.F32 Model.Rect Proofs.RectPoints.
Import ListNotations.

Definition RValid (r : rect) : Prop :=
  fin (rl r) /\ fin (rt r) /\ fin (rr r) /\ fin (rb r) /\
  (R32 (rl r) <= R32 (rr r))%R /\ (R32 (rt r) <= R32 (rb r))%R.

Lemma from_ltrb_valid l t r b rc : from_ltrb l t r b = Some rc -> RValid rc /\ rc = mkrect l t r b.
Proof.
  intros H. destruct (from_ltrb_le _ _ _ _ _ H) as (A & B).
  destruct (from_ltrb_some _ _ _ _ _ H) as (-> & Fl & Ft & Fr & Fb).
  split; [|reflexivity]. unfold RValid. simpl. repeat split; auto.
Qed.

(* from_ltrb accepts exactly: finite, ordered, extent below f32::MAX (checked in binary64) *)
Theorem from_ltrb_some_iff l t r b :
  (exists rc, from_ltrb l t r b = Some rc) <->
  (fin l /\ fin t /\ fin r /\ fin b /\ F32.le l r = true /\ F32.le t b = true /\
   checked_f32_sub r l <> None /\ checked_f32_sub b t <> None).
Proof.
  unfold from_ltrb, fin. split.
  - intros (rc & H).
    destruct (F32.is_finite l), (F32.is_finite t), (F32.is_finite r), (F32.is_finite b); simpl in H; try discriminate.
    destruct (F32.le l r), (F32.le t b); simpl in H; try discriminate.
    destruct (checked_f32_sub r l), (checked_f32_sub b t); try discriminate.
    repeat split; auto; discriminate.
  - intros (-> & -> & -> & -> & -> & -> & A & B). simpl.
    destruct (checked_f32_sub r l); [|congruence]. destruct (checked_f32_sub b t); [|congruence]. eauto.
Qed.

Theorem rect_ops_valid :
  (forall a b c, rect_intersect a b = Some c -> RValid c) /\
  (forall a b c, RValid a -> RValid b -> rect_join a b = Some c -> RValid c) /\
  (forall a dx dy c, rect_inset a dx dy = Some c -> RValid c) /\
  (forall a dx dy c, rect_outset a dx dy = Some c -> RValid c) /\
  (forall x y w h c, from_xywh x y w h = Some c -> RValid c) /\
  (forall ps c, from_points ps = Some c -> RValid c).
Proof.
  refine (conj _ (conj _ (conj _ (conj _ (conj _ _))))).
  - intros a b c H. apply from_ltrb_valid in H. tauto.
  - intros a b c Va Vb H. unfold rect_join in H.
    destruct (rect_is_empty b); [inversion H; subst; auto|].
    destruct (rect_is_empty a); [inversion H; subst; auto|].
    apply from_ltrb_valid in H. tauto.
  - intros a dx dy c H. apply from_ltrb_valid in H. tauto.
  - intros a dx dy c H. apply from_ltrb_valid in H. tauto.
  - intros x y w h c H. apply from_ltrb_valid in H. tauto.
  - intros ps c H. unfold from_points, from_points_gen in H.
    destruct ps as [|p0 [|p1 [|p2 rest]]]; try discriminate.
    + apply from_ltrb_valid in H. tauto.
    + destruct (F32.lt (px p0) (px p1)), (F32.lt (py p0) (py p1)); apply from_ltrb_valid in H; tauto.
    + destruct (Z.odd _);
      match type of H with context [fp_loop ?a ?b ?c ?d] => destruct (fp_loop a b c d) as [[[? ?] ?]|] end;
      try discriminate; destruct (lanes_eq _ _); try discriminate; apply from_ltrb_valid in H; tauto.
Qed.

Definition RInside (i u : rect) : Prop :=
  (R32 (rl u) <= R32 (rl i))%R /\ (R32 (rt u) <= R32 (rt i))%R /\
  (R32 (rr i) <= R32 (rr u))%R /\ (R32 (rb i) <= R32 (rb u))%R.

Theorem intersect_sub a b c :
  RValid a -> RValid b -> rect_intersect a b = Some c -> RInside c a /\ RInside c b.
Proof.
  intros (Al & At & Ar & Ab & _) (Bl & Bt & Br & Bb & _) H.
  apply from_ltrb_valid in H. destruct H as (_ & ->). unfold RInside. simpl.
  destruct (max_fin (rl a) (rl b) Al Bl) as (_ & L1 & L2).
  destruct (max_fin (rt a) (rt b) At Bt) as (_ & T1 & T2).
  destruct (min_fin (rr a) (rr b) Ar Br) as (_ & R1 & R2).
  destruct (min_fin (rb a) (rb b) Ab Bb) as (_ & B1 & B2).
  repeat split; assumption.
Qed.

Theorem join_sup a b c :
  RValid a -> RValid b -> rect_join a b = Some c ->
  (rect_is_empty b = false -> rect_is_empty a = false -> RInside a c /\ RInside b c) /\
  (rect_is_empty b = true -> c = a) /\ (rect_is_empty b = false -> rect_is_empty a = true -> c = b).
Proof.
  intros (Al & At & Ar & Ab & _) (Bl & Bt & Br & Bb & _) H. unfold rect_join in H.
  destruct (rect_is_empty b) eqn:Eb.
  { inversion H; subst. repeat split; try discriminate; auto. }
  destruct (rect_is_empty a) eqn:Ea.
  { inversion H; subst. repeat split; try discriminate; auto. }
  apply from_ltrb_valid in H. destruct H as (_ & ->).
  split; [|split; discriminate]. intros _ _. unfold RInside. simpl.
  destruct (min_fin (rl a) (rl b) Al Bl) as (_ & L1 & L2).
  destruct (min_fin (rt a) (rt b) At Bt) as (_ & T1 & T2).
  destruct (max_fin (rr a) (rr b) Ar Br) as (_ & R1 & R2).
  destruct (max_fin (rb a) (rb b) Ab Bb) as (_ & B1 & B2).
  repeat split; assumption.
Qed.

(* NonZeroRect / Size acceptance *)
Theorem nz_from_ltrb_some l t r b rc : nz_from_ltrb l t r b = Some rc ->
  rc = mkrect l t r b /\ fin l /\ fin t /\ fin r /\ fin b /\ (R32 l < R32 r)%R /\ (R32 t < R32 b)%R.
Proof.
  unfold nz_from_ltrb, fin.
  destruct (F32.is_finite l) eqn:Fl, (F32.is_finite t) eqn:Ft, (F32.is_finite r) eqn:Fr,
           (F32.is_finite b) eqn:Fb; simpl; try discriminate.
  destruct (F32.lt l r) eqn:A; simpl; [|discriminate]. destruct (F32.lt t b) eqn:B; simpl; [|discriminate].
  destruct (checked_f32_sub r l); try discriminate. destruct (checked_f32_sub b t); try discriminate.
  intros H; inversion H; subst.
  unfold F32.lt in A, B. rewrite Bltb_correct in A, B by auto.
  destruct (Rlt_bool_spec (R32 l) (R32 r)); try discriminate.
  destruct (Rlt_bool_spec (R32 t) (R32 b)); try discriminate. repeat split; auto.
Qed.

Theorem size_from_wh_iff w h :
  (exists s, size_from_wh w h = Some s) <->
  (fin w /\ fin h /\ (0 < R32 w)%R /\ (0 < R32 h)%R).
Proof.
  unfold size_from_wh, fin, F32.gt, F32.lt. split.
  - intros (s & H).
    destruct (F32.is_finite w) eqn:Fw; simpl in H; [|discriminate].
    destruct (Bltb F32.zero w) eqn:A; simpl in H; [|discriminate].
    destruct (F32.is_finite h) eqn:Fh; simpl in H; [|discriminate].
    destruct (Bltb F32.zero h) eqn:B; simpl in H; [|discriminate].
    rewrite Bltb_correct in A, B by auto.
    destruct (Rlt_bool_spec (R32 F32.zero) (R32 w)); try discriminate.
    destruct (Rlt_bool_spec (R32 F32.zero) (R32 h)); try discriminate.
    simpl in *. auto.
  - intros (Fw & Fh & A & B). rewrite Fw, Fh. simpl.
    rewrite !Bltb_correct by auto. simpl.
    rewrite !Rlt_bool_true by auto. simpl. eauto.
Qed.
