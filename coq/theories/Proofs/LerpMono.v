(* C11 (highp, binary32): the coverage interpolation lerp(from, to, t) = (to - from) * t + from of the highp pipeline is exact
   at t = 0 and monotone in t, so for every coverage in [0, 1] the result lies between the previous value and the
   full-coverage value. *)
From Coq Require Import ZArith Bool List Lia Reals Lra.
From Flocq Require Import Core.Zaux Core.Raux Core.Defs Core.Generic_fmt Core.FLT Core.Round_NE IEEE754.BinarySingleNaN.
From TS Require Import Base.F32 Base.Wide Gen.HighpGen Proofs.RectPoints Proofs.LineClipFinite Proofs.HighpError.
Local Open Scope R_scope.

Notation fexp32 := (SpecFloat.fexp 24 128).
Notation rnd32 := (round radix2 fexp32 (round_mode mode_NE)).

Lemma rnd32_mono x y : x <= y -> rnd32 x <= rnd32 y.
Proof. intros H. apply round_le; [apply (fexp_correct 24 128); reflexivity | apply valid_rnd_N | exact H]. Qed.

Lemma small_lt_emax x : Rabs x <= 4 -> Rabs (rnd32 x) < bpow radix2 128.
Proof.
  intros H. apply lt_emax_of_le100. eapply Rle_trans; [exact H|]. change 4 with (bpow radix2 2). apply bpow_le. lia.
Qed.

Lemma sub_R a b : fin a -> fin b -> Rabs (R32 a - R32 b) <= 4 -> fin (F32.sub a b) /\ R32 (F32.sub a b) = rnd32 (R32 a - R32 b).
Proof.
  intros Fa Fb H. pose proof (Bminus_correct 24 128 _ _ mode_NE a b Fa Fb) as C.
  rewrite (Rlt_bool_true _ _ (small_lt_emax _ H)) in C. destruct C as (C1 & C2 & _). split; [exact C2 | exact C1].
Qed.
Lemma add_R a b : fin a -> fin b -> Rabs (R32 a + R32 b) <= 4 -> fin (F32.add a b) /\ R32 (F32.add a b) = rnd32 (R32 a + R32 b).
Proof.
  intros Fa Fb H. pose proof (Bplus_correct 24 128 _ _ mode_NE a b Fa Fb) as C.
  rewrite (Rlt_bool_true _ _ (small_lt_emax _ H)) in C. destruct C as (C1 & C2 & _). split; [exact C2 | exact C1].
Qed.
Lemma mul_R a b : fin a -> fin b -> Rabs (R32 a * R32 b) <= 4 -> fin (F32.mul a b) /\ R32 (F32.mul a b) = rnd32 (R32 a * R32 b).
Proof.
  intros Fa Fb H. pose proof (Bmult_correct 24 128 _ _ mode_NE a b) as C.
  rewrite (Rlt_bool_true _ _ (small_lt_emax _ H)) in C. destruct C as (C1 & C2 & _).
  unfold fin, F32.is_finite in *. rewrite Fa, Fb in C2. split; [exact C2 | exact C1].
Qed.

Lemma rnd32_abs_le1 x : Rabs x <= 1 -> Rabs (rnd32 x) <= 1.
Proof. intros H. change 1 with (bpow radix2 0). apply rnd32_abs_le; [lia | exact H]. Qed.
Lemma rnd32_abs_le2 x : Rabs x <= 2 -> Rabs (rnd32 x) <= 2.
Proof. intros H. change 2 with (bpow radix2 1). apply rnd32_abs_le; [lia | exact H]. Qed.
Lemma rnd32_0 : rnd32 0 = 0.
Proof. apply round_0. apply valid_rnd_N. Qed.

Section Lerp.
  Variables (from to : f32).
  Hypotheses (Ff : fin from) (Ft : fin to) (Bf : 0 <= R32 from <= 1) (Bt : 0 <= R32 to <= 1).

  Let D := F32.sub to from.
  Lemma D_spec : fin D /\ R32 D = rnd32 (R32 to - R32 from) /\ Rabs (R32 D) <= 1.
  Proof.
    unfold D. assert (H : Rabs (R32 to - R32 from) <= 1) by (apply Rabs_le; lra).
    destruct (sub_R to from Ft Ff ltac:(lra)) as (A & B). split; [exact A|]. split; [exact B|]. rewrite B. apply rnd32_abs_le1. exact H.
  Qed.

  Lemma lerp_value t : fin t -> 0 <= R32 t <= 1 ->
    fin (highp_lerp from to t) /\ R32 (highp_lerp from to t) = rnd32 (rnd32 (R32 D * R32 t) + R32 from).
  Proof.
    intros Ftt Btt. destruct D_spec as (FD & RD & BD). unfold highp_lerp, highp_mad. fold D.
    assert (H1 : Rabs (R32 D * R32 t) <= 1).
    { rewrite Rabs_mult. rewrite (Rabs_pos_eq (R32 t)) by lra. pose proof (Rabs_pos (R32 D)). nra. }
    destruct (mul_R D t FD Ftt ltac:(lra)) as (Fm & Rm).
    assert (H2 : Rabs (R32 (F32.mul D t) + R32 from) <= 4).
    { rewrite Rm. pose proof (rnd32_abs_le1 _ H1) as H3. apply Rabs_le_inv in H3. apply Rabs_le. lra. }
    destruct (add_R _ from Fm Ff H2) as (Fa & Ra). split; [exact Fa|]. rewrite Ra, Rm. reflexivity.
  Qed.

  (* zero coverage changes nothing *)
  Theorem lerp_zero t : fin t -> R32 t = 0 -> R32 (highp_lerp from to t) = R32 from.
  Proof.
    intros Ftt Zt. destruct (lerp_value t Ftt ltac:(lra)) as (_ & V). rewrite V, Zt, Rmult_0_r, rnd32_0, Rplus_0_l.
    apply round_generic; [apply valid_rnd_N | apply generic_format_B2R].
  Qed.

  (* monotone in the coverage, in the direction of to - from *)
  Theorem lerp_monotone t1 t2 : fin t1 -> fin t2 -> 0 <= R32 t1 -> R32 t1 <= R32 t2 -> R32 t2 <= 1 ->
    (0 <= R32 D -> R32 (highp_lerp from to t1) <= R32 (highp_lerp from to t2)) /\
    (R32 D <= 0 -> R32 (highp_lerp from to t2) <= R32 (highp_lerp from to t1)).
  Proof.
    intros F1 F2 B0 B12 B1.
    destruct (lerp_value t1 F1 ltac:(lra)) as (_ & V1). destruct (lerp_value t2 F2 ltac:(lra)) as (_ & V2). rewrite V1, V2. split; intros HD.
    - apply rnd32_mono. apply Rplus_le_compat_r. apply rnd32_mono. nra.
    - apply rnd32_mono. apply Rplus_le_compat_r. apply rnd32_mono. nra.
  Qed.

  (* hence: for every coverage in [0, 1] the result lies between the old value and the full-coverage value *)
  Corollary lerp_between t one : fin t -> fin one -> 0 <= R32 t <= 1 -> R32 one = 1 ->
    (Rmin (R32 from) (R32 (highp_lerp from to one)) <= R32 (highp_lerp from to t) <= Rmax (R32 from) (R32 (highp_lerp from to one))).
  Proof.
    intros Ftt Fo Btt Ro.
    assert (Z0 : R32 (highp_lerp from to F32.zero) = R32 from) by (apply lerp_zero; [reflexivity | reflexivity]).
    destruct (lerp_monotone F32.zero t eq_refl Ftt ltac:(cbn; lra) ltac:(change (R32 F32.zero) with 0; lra) ltac:(lra)) as (M1 & M2).
    destruct (lerp_monotone t one Ftt Fo ltac:(lra) ltac:(lra) ltac:(lra)) as (M3 & M4).
    rewrite Z0 in M1, M2.
    destruct (Rle_or_lt 0 (R32 D)) as [HD | HD].
    - specialize (M1 HD). specialize (M3 HD). unfold Rmin, Rmax. destruct (Rle_dec _ _); lra.
    - specialize (M2 ltac:(lra)). specialize (M4 ltac:(lra)). unfold Rmin, Rmax. destruct (Rle_dec _ _); lra.
  Qed.
End Lerp.
