(* C02: the fixed-point scan converter.
   (1) edge_rows: a line edge is active exactly on the rows whose pixel-centre ordinate lies in the
       half-open interval (y_top, y_bottom] of the edge (in 1/64 px units): the pixel-centre rule.
   (2) row_spans_spec: on one scanline with edges sorted by x, a pixel column is covered by the emitted
       spans exactly when the fill rule accepts the sum of the windings of the edges at or left of it.
   (3) walk_row emits exactly row_spans of the rounded edge abscissas (the re-sorting of the active
       list does not influence the spans of the current row).
   Integer / list reasoning: closed under the global context. *)
From Coq Require Import ZArith Bool List Lia.
From TS Require Import Base.F32 Model.Rect Model.PathBuilder Model.Edge Model.Walk.
Import ListNotations.
Local Open Scope Z_scope.

(* ---- (1) rows of an edge ------------------------------------------------------------------- *)
Lemma sar6 n : sar n 6 = n / 64.
Proof. unfold sar. rewrite Z.shiftr_div_pow2 by lia. reflexivity. Qed.

Lemma fdot6_round_spec n t : fdot6_round n = Some t ->
  forall k, (t <= k <-> n < 64 * k + 32) /\ (k <= t - 1 <-> 64 * k + 32 <= n).
Proof.
  unfold fdot6_round, bind, ck. destruct (in32 (n + 32)); [|discriminate].
  intros H. inversion H; subst. rewrite sar6. intros k.
  pose proof (Z.div_mod (n + 32) 64 ltac:(lia)). pose proof (Z.mod_pos_bound (n + 32) 64 ltac:(lia)).
  lia.
Qed.

(* FDot6 ordinate of a float coordinate at a given supersampling shift *)
Definition fd6 (v : f32) (shift : Z) : Z := F32.to_i32 (F32.mul v (F32.of_Z (2 ^ (shift + 6)))).

Theorem edge_rows p0 p1 shift e :
  line_edge_new p0 p1 shift = Some (Some e) ->
  forall k, e_first_y e <= k <= e_last_y e <->
            Z.min (fd6 (py p0) shift) (fd6 (py p1) shift) < 64 * k + 32 <= Z.max (fd6 (py p0) shift) (fd6 (py p1) shift).
Proof.
  unfold line_edge_new. fold (fd6 (px p0) shift) (fd6 (py p0) shift) (fd6 (px p1) shift) (fd6 (py p1) shift).
  set (X0 := fd6 (px p0) shift). set (Y0 := fd6 (py p0) shift).
  set (X1 := fd6 (px p1) shift). set (Y1 := fd6 (py p1) shift).
  destruct (Y1 <? Y0) eqn:Sw.
  - apply Z.ltb_lt in Sw. unfold bind.
    destruct (fdot6_round Y1) as [top|] eqn:T; [|discriminate].
    destruct (fdot6_round Y0) as [bot|] eqn:B; [|discriminate].
    destruct (top =? bot); [discriminate|].
    destruct (ck (X0 - X1)); [|discriminate]. destruct (ck (Y0 - Y1)); [|discriminate].
    destruct (fdot6_div _ _); [|discriminate]. destruct (compute_dy _ _); [|discriminate].
    destruct (ck (X1 + _)); [|discriminate]. destruct (ck (bot - 1)) as [l|] eqn:L; [|discriminate].
    destruct (fdot6_to_fdot16 _); [|discriminate].
    intros H. inversion H; subst. cbn [e_first_y e_last_y]. intros k.
    unfold ck in L. destruct (in32 (bot - 1)); inversion L; subst.
    pose proof (fdot6_round_spec _ _ T k) as (A & _). pose proof (fdot6_round_spec _ _ B k) as (_ & C). lia.
  - apply Z.ltb_ge in Sw. unfold bind.
    destruct (fdot6_round Y0) as [top|] eqn:T; [|discriminate].
    destruct (fdot6_round Y1) as [bot|] eqn:B; [|discriminate].
    destruct (top =? bot); [discriminate|].
    destruct (ck (X1 - X0)); [|discriminate]. destruct (ck (Y1 - Y0)); [|discriminate].
    destruct (fdot6_div _ _); [|discriminate]. destruct (compute_dy _ _); [|discriminate].
    destruct (ck (X0 + _)); [|discriminate]. destruct (ck (bot - 1)) as [l|] eqn:L; [|discriminate].
    destruct (fdot6_to_fdot16 _); [|discriminate].
    intros H. inversion H; subst. cbn [e_first_y e_last_y]. intros k.
    unfold ck in L. destruct (in32 (bot - 1)); inversion L; subst.
    pose proof (fdot6_round_spec _ _ T k) as (A & _). pose proof (fdot6_round_spec _ _ B k) as (_ & C). lia.
Qed.

(* ---- (2) spans of one scanline --------------------------------------------------------------- *)
(* the span logic of walk_row, on (rounded x, winding) pairs *)
Fixpoint row_spans (xs : list (Z * Z)) (evenodd : bool) (w lft : Z) (spans : list (Z * Z)) : Z * Z * list (Z * Z) :=
  match xs with
  | [] => (w, lft, spans)
  | (x, wd) :: r =>
      let lft := if masked w evenodd then lft else x in
      let w' := w + wd in
      let spans := if masked w' evenodd then spans else if x - lft =? 0 then spans else (lft, x - lft) :: spans in
      row_spans r evenodd w' lft spans
  end.

Definition covered (spans : list (Z * Z)) (c : Z) : Prop := exists s, In s spans /\ fst s <= c < fst s + snd s.

Fixpoint wsum (xs : list (Z * Z)) (c : Z) : Z :=
  match xs with
  | [] => 0
  | (x, wd) :: r => (if x <=? c then wd else 0) + wsum r c
  end.

Fixpoint sorted_x (xs : list (Z * Z)) : Prop :=
  match xs with
  | [] => True
  | (x, _) :: r => (match r with (y, _) :: _ => x <= y | [] => True end) /\ sorted_x r
  end.

Lemma sorted_x_tail a r : sorted_x (a :: r) -> sorted_x r.
Proof. destruct a. simpl. tauto. Qed.

Lemma sorted_x_ge x wd r : sorted_x ((x, wd) :: r) -> forall y wd', In (y, wd') r -> x <= y.
Proof.
  revert x wd. induction r as [|[y0 w0] r IH]; intros x wd H y wd' Hi; [destruct Hi|].
  simpl in H. destruct H as (H1 & H2). destruct Hi as [E | Hi].
  - inversion E; subst. exact H1.
  - specialize (IH y0 w0 H2 y wd' Hi). lia.
Qed.

Lemma wsum_before xs c : (forall y wd, In (y, wd) xs -> c < y) -> wsum xs c = 0.
Proof.
  induction xs as [|[x wd] r IH]; intros H; simpl; [reflexivity|].
  assert (c < x) by (apply (H x wd); left; reflexivity).
  destruct (x <=? c) eqn:E; [apply Z.leb_le in E; lia|]. rewrite IH; [reflexivity|].
  intros y wd' Hi. apply (H y wd'). right. exact Hi.
Qed.

(* generalised statement: from state (w, lft) over a sorted tail whose x are >= the open left edge *)
Lemma row_spans_gen evenodd xs : forall w lft spans w' lft' spans',
  sorted_x xs ->
  (masked w evenodd = true -> forall y wd, In (y, wd) xs -> lft <= y) ->
  row_spans xs evenodd w lft spans = (w', lft', spans') ->
  masked w' evenodd = false ->
  forall c, covered spans' c <->
            (covered spans c \/ ((masked w evenodd = true -> lft <= c) /\ masked (w + wsum xs c) evenodd = true)).
Proof.
  induction xs as [|[x wd] r IH]; intros w lft spans w' lft' spans' Hs Hl H Hfin c.
  - simpl in H. inversion H; subst. simpl. rewrite Z.add_0_r. split; [tauto|].
    intros [A | (_ & A)]; [exact A | congruence].
  - simpl in H.
    set (lft1 := if masked w evenodd then lft else x) in *.
    set (sp1 := if masked (w + wd) evenodd then spans else if x - lft1 =? 0 then spans else (lft1, x - lft1) :: spans) in *.
    assert (Hl1 : masked (w + wd) evenodd = true -> forall y wd0, In (y, wd0) r -> lft1 <= y).
    { intros _ y wd0 Hi. pose proof (sorted_x_ge _ _ _ Hs y wd0 Hi).
      unfold lft1. destruct (masked w evenodd) eqn:M; [|lia].
      assert (lft <= x) by (apply (Hl eq_refl x wd); left; reflexivity). lia. }
    specialize (IH (w + wd) lft1 sp1 w' lft' spans' (sorted_x_tail _ _ Hs) Hl1 H Hfin c).
    rewrite IH. clear IH. simpl wsum.
    assert (Hlx : masked w evenodd = true -> lft <= x) by (intros M; apply (Hl M x wd); left; reflexivity).
    assert (Hr : forall y wd0, In (y, wd0) r -> x <= y) by (apply (sorted_x_ge _ _ _ Hs)).
    (* covered sp1 c <-> covered spans c \/ (w masked, w+wd unmasked, lft1 <= c < x) *)
    assert (Csp : covered sp1 c <-> covered spans c \/ (masked (w + wd) evenodd = false /\ lft1 <= c < x)).
    { unfold sp1. destruct (masked (w + wd) evenodd) eqn:M1.
      - split; [tauto|]. intros [A | (A & _)]; [exact A | discriminate].
      - destruct (x - lft1 =? 0) eqn:Z0.
        + apply Z.eqb_eq in Z0. split; [tauto|]. intros [A | (_ & A)]; [exact A | lia].
        + unfold covered. split.
          * intros (s & [<- | Hi] & Hc); [right; simpl in Hc; split; [reflexivity | lia] | left; eauto].
          * intros [(s & Hi & Hc) | (_ & Hc)]; [exists s; split; [right; exact Hi | exact Hc]|].
            exists (lft1, x - lft1). split; [left; reflexivity | simpl; lia]. }
    rewrite Csp. clear Csp.
    destruct (x <=? c) eqn:Ex.
    + apply Z.leb_le in Ex. replace (w + (wd + wsum r c)) with (w + wd + wsum r c) by lia.
      split.
      * intros [[A | (M1 & B)] | (C1 & C2)]; [left; exact A | lia | right].
        split; [intros M; specialize (Hlx M); lia | exact C2].
      * intros [A | (C1 & C2)]; [left; left; exact A | right].
        split; [|exact C2]. intros _. unfold lft1. destruct (masked w evenodd) eqn:M; [specialize (C1 eq_refl); lia | lia].
    + apply Z.leb_gt in Ex.
      assert (W0 : wsum r c = 0) by (apply wsum_before; intros y wd0 Hi; specialize (Hr y wd0 Hi); lia).
      replace (w + (0 + wsum r c)) with w by lia. replace (w + wd + wsum r c) with (w + wd) by lia.
      split.
      * intros [[A | (M1 & B)] | (C1 & C2)].
        -- left; exact A.
        -- right. unfold lft1 in B. destruct (masked w evenodd) eqn:M; [split; [intros _; lia | reflexivity] | lia].
        -- (* w+wd masked and lft1 <= c < x: then w must be masked too, else lft1 = x > c *)
           specialize (C1 C2). unfold lft1 in C1. destruct (masked w evenodd) eqn:M; [right; split; [intros _; lia | reflexivity] | lia].
      * intros [A | (C1 & C2)]; [left; left; exact A|].
        specialize (C1 C2). unfold lft1. rewrite C2.
        destruct (masked (w + wd) evenodd) eqn:M1; [right; split; [intros _; lia | reflexivity] | left; right; split; [reflexivity | lia]].
Qed.

(* THE row theorem: balanced row (winding returns to an unmasked value), edges sorted by rounded x *)
Theorem row_spans_spec evenodd xs w' lft' spans' :
  sorted_x xs -> row_spans xs evenodd 0 0 [] = (w', lft', spans') -> masked w' evenodd = false ->
  forall c, covered spans' c <-> masked (wsum xs c) evenodd = true.
Proof.
  intros Hs H Hfin c.
  assert (M0 : masked 0 evenodd = false) by (destruct evenodd; reflexivity).
  rewrite (row_spans_gen evenodd xs 0 0 [] w' lft' spans' Hs ltac:(rewrite M0; discriminate) H Hfin c).
  simpl. split.
  - intros [(s & [] & _) | (_ & A)]. exact A.
  - intros A. right. split; [rewrite M0; discriminate | exact A].
Qed.

(* ---- (3) walk_row emits row_spans of the rounded abscissas ------------------------------------ *)
Definition rx (e : ledge) : Z :=
  match fdot16_round_to_i32 (e_x e) with Some x => x mod 4294967296 | None => 0 end.
Definition xs_of (act : list ledge) : list (Z * Z) := map (fun e => (rx e, e_winding e)) act.
Definition sp2 (l : list span) : list (Z * Z) := map (fun s => (s_x s, s_w s)) l.

Theorem walk_row_is_row_spans act : forall y evenodd w lft prev_x rev_done spans w' lft' rd' spans',
  walk_row act y evenodd w lft prev_x rev_done spans = Some (w', lft', rd', spans') ->
  row_spans (xs_of act) evenodd w lft (sp2 spans) = (w', lft', sp2 spans') /\
  Forall (fun s => s_y s = y) spans' \/ ~ Forall (fun s => s_y s = y) spans.
Proof.
  induction act as [|e rest IH]; intros y evenodd w lft prev_x rev_done spans w' lft' rd' spans' H.
  - simpl in H. inversion H; subst. destruct (Forall_dec (fun s => s_y s = y) (fun s => Z.eq_dec (s_y s) y) spans'); [left|right; auto].
    split; [reflexivity | assumption].
  - cbn [walk_row] in H. unfold bind in H.
    destruct (fdot16_round_to_i32 (e_x e)) as [x0|] eqn:RX; [|discriminate].
    set (x := x0 mod 4294967296) in *.
    set (lft1 := if masked w evenodd then lft else x) in *.
    destruct (masked (w + e_winding e) evenodd) eqn:M1.
    + (* no span emitted *)
      assert (Step : row_spans (xs_of (e :: rest)) evenodd w lft (sp2 spans)
                   = row_spans (xs_of rest) evenodd (w + e_winding e) lft1 (sp2 spans)).
      { cbn [xs_of map row_spans]. unfold rx. rewrite RX. fold x. fold lft1. rewrite M1. reflexivity. }
      rewrite Step.
      destruct (e_last_y e =? y).
      * eapply IH; eauto.
      * destruct (ck (e_x e + e_dx e)) as [nx|]; [|discriminate].
        destruct (nx <? prev_x); eapply IH; eauto.
    + destruct (x <? lft1) eqn:U; [discriminate|].
      set (spans1 := if x - lft1 =? 0 then spans else mkspan lft1 y (x - lft1) :: spans) in *.
      assert (Step : row_spans (xs_of (e :: rest)) evenodd w lft (sp2 spans)
                   = row_spans (xs_of rest) evenodd (w + e_winding e) lft1 (sp2 spans1)).
      { cbn [xs_of map row_spans]. unfold rx. rewrite RX. fold x. fold lft1. rewrite M1.
        unfold spans1. destruct (x - lft1 =? 0); reflexivity. }
      rewrite Step.
      assert (K : forall a b c,
                 (row_spans (xs_of rest) evenodd (w + e_winding e) lft1 (sp2 spans1) = (a, b, sp2 c) /\
                  Forall (fun s => s_y s = y) c \/ ~ Forall (fun s => s_y s = y) spans1) ->
                 (row_spans (xs_of rest) evenodd (w + e_winding e) lft1 (sp2 spans1) = (a, b, sp2 c) /\
                  Forall (fun s => s_y s = y) c \/ ~ Forall (fun s => s_y s = y) spans)).
      { intros a b c [A | A]; [left; exact A|]. right. intros F. apply A. unfold spans1.
        destruct (x - lft1 =? 0); [exact F | constructor; [reflexivity | exact F]]. }
      destruct (e_last_y e =? y).
      * apply (K w' lft' spans'). eapply IH; eauto.
      * destruct (ck (e_x e + e_dx e)) as [nx|]; [|discriminate].
        destruct (nx <? prev_x); apply (K w' lft' spans'); eapply IH; eauto.
Qed.
