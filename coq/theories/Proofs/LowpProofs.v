(* Low-precision pipeline: every GENERATED blend closure (Gen/LowpGen.v) is within k/255 of
   the compositing formula (Spec/BlendSpec.v), never wraps a u16 lane on the selected path,
   and keeps the result premultiplied.  lia/nia on integers: closed under the global context. *)
From Coq Require Import ZArith Bool List Lia String.
From TS Require Import Base.U16 Gen.LowpGen Spec.BlendSpec.
Local Open Scope Z_scope.

Lemma shiftr8 x : Z.shiftr x 8 = x / 256.
Proof. rewrite Z.shiftr_div_pow2 by lia. reflexivity. Qed.

Lemma div255_eq v : 0 <= v <= 65280 -> lowp_div255 v = (v + 255) / 256.
Proof.
  intros H. unfold lowp_div255, u16shr, u16add, u16wrap.
  rewrite Z.mod_small by lia. apply shiftr8.
Qed.

(* |div255 v - v/255| <= 1, in integers *)
Lemma div255_close v : 0 <= v <= 65025 ->
  -255 <= 255 * lowp_div255 v - v <= 255 /\ 0 <= lowp_div255 v <= 255.
Proof.
  intros H. rewrite div255_eq by lia.
  pose proof (Z.div_mod (v + 255) 256 ltac:(lia)).
  pose proof (Z.mod_pos_bound (v + 255) 256 ltac:(lia)). lia.
Qed.

Lemma div255_mono a b : 0 <= a <= b -> b <= 65280 -> lowp_div255 a <= lowp_div255 b.
Proof.
  intros H1 H2. rewrite !div255_eq by lia. apply Z.div_le_mono; lia.
Qed.

Lemma div255_mul255 a : 0 <= a <= 255 -> lowp_div255 (255 * a) = a.
Proof.
  intros H. rewrite div255_eq by lia.
  replace (255 * a + 255) with (a * 256 + (255 - a)) by lia.
  rewrite Z.div_add_l by lia. rewrite Z.div_small by lia. lia.
Qed.

Lemma div255_zero : lowp_div255 0 = 0.
Proof. reflexivity. Qed.

Lemma inv_eq v : 0 <= v <= 255 -> lowp_inv v = 255 - v.
Proof. intros H. unfold lowp_inv, u16sub, u16wrap. rewrite Z.mod_small; lia. Qed.

(* no-wrap helpers *)
Lemma u16add_small a b : 0 <= a + b < 65536 -> u16add a b = a + b.
Proof. intros H. unfold u16add, u16wrap. apply Z.mod_small; lia. Qed.
Lemma u16sub_small a b : 0 <= a - b < 65536 -> u16sub a b = a - b.
Proof. intros H. unfold u16sub, u16wrap. apply Z.mod_small; lia. Qed.
Lemma u16mul_small a b : 0 <= a * b < 65536 -> u16mul a b = a * b.
Proof. intros H. unfold u16mul, u16wrap. apply Z.mod_small; lia. Qed.

Lemma mul_bound a b : 0 <= a <= 255 -> 0 <= b <= 255 -> 0 <= a * b <= 65025.
Proof. intros. nia. Qed.

Lemma div255_le_left a b : 0 <= a <= 255 -> 0 <= b <= 255 -> lowp_div255 (a * b) <= a.
Proof.
  intros Ha Hb. apply Z.le_trans with (lowp_div255 (255 * a)); [apply div255_mono; nia | rewrite div255_mul255; lia].
Qed.

Lemma div255_ge_sum a b : 0 <= a <= 255 -> 0 <= b <= 255 -> a + b - 255 <= lowp_div255 (a * b).
Proof.
  intros Ha Hb. rewrite div255_eq by nia. apply Z.div_le_lower_bound; [lia|]. nia.
Qed.

Lemma div255_max a b : 0 <= a <= 65025 -> 0 <= b <= 65025 ->
  lowp_div255 (Z.max a b) = Z.max (lowp_div255 a) (lowp_div255 b).
Proof.
  intros Ha Hb. destruct (Z.max_spec a b) as [[L ->] | [L ->]].
  - pose proof (div255_mono a b ltac:(lia) ltac:(lia)). lia.
  - pose proof (div255_mono b a ltac:(lia) ltac:(lia)). lia.
Qed.

Lemma div255_min a b : 0 <= a <= 65025 -> 0 <= b <= 65025 ->
  lowp_div255 (Z.min a b) = Z.min (lowp_div255 a) (lowp_div255 b).
Proof.
  intros Ha Hb. destruct (Z.min_spec a b) as [[L ->] | [L ->]].
  - pose proof (div255_mono a b ltac:(lia) ltac:(lia)). lia.
  - pose proof (div255_mono b a ltac:(lia) ltac:(lia)). lia.
Qed.


Ltac prem := unfold premul in *.

(* rewrite the innermost wrapping operation whose operands are already plain integers,
   proving that it does not wrap *)
Ltac no_u16 t :=
  lazymatch t with
  | context [u16add _ _] => fail
  | context [u16sub _ _] => fail
  | context [u16mul _ _] => fail
  | context [lowp_div255 _] => fail
  | _ => idtac
  end.
Ltac inner_op tac :=
  match goal with
  | |- context [u16mul ?a ?b] => no_u16 a; no_u16 b; rewrite (u16mul_small a b) by tac
  | |- context [u16add ?a ?b] => no_u16 a; no_u16 b; rewrite (u16add_small a b) by tac
  | |- context [u16sub ?a ?b] => no_u16 a; no_u16 b; rewrite (u16sub_small a b) by tac
  end.
Ltac nowrap := repeat inner_op ltac:(lia).

(* result record of one channel *)
Definition close (k : Z) (res N : Z) : Prop := - (255 * k) <= 255 * res - N <= 255 * k /\ 0 <= res <= 255.

Section Modes.
  Variables s d sa da : Z.
  Hypothesis Hs : premul s sa.
  Hypothesis Hd : premul d da.

  Let Bsd : 0 <= s * d <= 65025. Proof. prem; nia. Qed.
  Let Bsda : 0 <= s * da <= 65025. Proof. prem; nia. Qed.
  Let Bdsa : 0 <= d * sa <= 65025. Proof. prem; nia. Qed.
  Let Bsada : 0 <= sa * da <= 65025. Proof. prem; nia. Qed.
  Let Bsi : 0 <= s * (255 - da) <= 65025. Proof. prem; nia. Qed.
  Let Bdi : 0 <= d * (255 - sa) <= 65025. Proof. prem; nia. Qed.

  Lemma clear_close : close 0 (lowp_clear s d sa da) (N_clear s d sa da).
  Proof. unfold close, lowp_clear, N_clear. lia. Qed.

  Lemma source_in_close : close 1 (lowp_source_in s d sa da) (N_source_in s d sa da).
  Proof.
    unfold close, lowp_source_in, N_source_in. rewrite u16mul_small by lia.
    pose proof (div255_close (s * da)). lia.
  Qed.

  Lemma destination_in_close : close 1 (lowp_destination_in s d sa da) (N_destination_in s d sa da).
  Proof.
    unfold close, lowp_destination_in, N_destination_in. rewrite u16mul_small by lia.
    pose proof (div255_close (d * sa)). lia.
  Qed.

  Lemma source_out_close : close 1 (lowp_source_out s d sa da) (N_source_out s d sa da).
  Proof.
    unfold close, lowp_source_out, N_source_out. prem. rewrite inv_eq by lia. rewrite u16mul_small by lia.
    pose proof (div255_close (s * (255 - da))). lia.
  Qed.

  Lemma destination_out_close : close 1 (lowp_destination_out s d sa da) (N_destination_out s d sa da).
  Proof.
    unfold close, lowp_destination_out, N_destination_out. prem. rewrite inv_eq by lia. rewrite u16mul_small by lia.
    pose proof (div255_close (d * (255 - sa))). lia.
  Qed.

  Lemma modulate_close : close 1 (lowp_modulate s d sa da) (N_modulate s d sa da).
  Proof.
    unfold close, lowp_modulate, N_modulate. rewrite u16mul_small by lia.
    pose proof (div255_close (s * d)). lia.
  Qed.

  (* s*da + d*(255-sa) <= 255*da <= 65025 : the two-term sums fit *)
  Lemma atop_bound : 0 <= s * da + d * (255 - sa) <= 65025.
  Proof. prem. nia. Qed.
  Lemma datop_bound : 0 <= d * sa + s * (255 - da) <= 65025.
  Proof. prem. nia. Qed.
  Lemma xor_bound : 0 <= s * (255 - da) + d * (255 - sa) <= 65025.
  Proof. prem. nia. Qed.
  Lemma multiply_bound : 0 <= s * (255 - da) + d * (255 - sa) + s * d <= 65025.
  Proof. prem. nia. Qed.

  Lemma source_atop_close : close 1 (lowp_source_atop s d sa da) (N_source_atop s d sa da).
  Proof.
    unfold close, lowp_source_atop, N_source_atop. prem. rewrite inv_eq by lia.
    pose proof atop_bound. rewrite !u16mul_small by lia. rewrite u16add_small by lia.
    pose proof (div255_close (s * da + d * (255 - sa))). lia.
  Qed.

  Lemma destination_atop_close : close 1 (lowp_destination_atop s d sa da) (N_destination_atop s d sa da).
  Proof.
    unfold close, lowp_destination_atop, N_destination_atop. prem. rewrite inv_eq by lia.
    pose proof datop_bound. rewrite !u16mul_small by lia. rewrite u16add_small by lia.
    pose proof (div255_close (d * sa + s * (255 - da))). lia.
  Qed.

  Lemma xor_close : close 1 (lowp_xor s d sa da) (N_xor s d sa da).
  Proof.
    unfold close, lowp_xor, N_xor. prem. rewrite !inv_eq by lia.
    pose proof xor_bound. rewrite !u16mul_small by lia. rewrite u16add_small by lia.
    pose proof (div255_close (s * (255 - da) + d * (255 - sa))). lia.
  Qed.

  Lemma multiply_close : close 1 (lowp_multiply s d sa da) (N_multiply s d sa da).
  Proof.
    unfold close, lowp_multiply, N_multiply. prem. rewrite !inv_eq by lia.
    pose proof multiply_bound. pose proof xor_bound. nowrap.
    pose proof (div255_close (s * (255 - da) + d * (255 - sa) + s * d)). lia.
  Qed.

  Lemma source_over_close : close 1 (lowp_source_over s d sa da) (N_source_over s d sa da).
  Proof.
    unfold close, lowp_source_over, N_source_over. prem. rewrite inv_eq by lia. rewrite u16mul_small by lia.
    pose proof (div255_close (d * (255 - sa)) ltac:(lia)) as (A & B).
    assert (lowp_div255 (d * (255 - sa)) <= 255 - sa).
    { apply Z.le_trans with (lowp_div255 (255 * (255 - sa))); [apply div255_mono; nia | rewrite div255_mul255; lia]. }
    rewrite u16add_small by lia. lia.
  Qed.

  Lemma destination_over_close : close 1 (lowp_destination_over s d sa da) (N_destination_over s d sa da).
  Proof.
    unfold close, lowp_destination_over, N_destination_over. prem. rewrite inv_eq by lia. rewrite u16mul_small by lia.
    pose proof (div255_close (s * (255 - da)) ltac:(lia)) as (A & B).
    assert (lowp_div255 (s * (255 - da)) <= 255 - da).
    { apply Z.le_trans with (lowp_div255 (255 * (255 - da))); [apply div255_mono; nia | rewrite div255_mul255; lia]. }
    rewrite u16add_small by lia. lia.
  Qed.

  Lemma plus_close : close 0 (lowp_plus s d sa da) (N_plus s d sa da).
  Proof. unfold close, lowp_plus, N_plus. prem. rewrite u16add_small by lia. lia. Qed.

  (* s + d - div255(s*d) : div255(s*d) <= min s d, so no wrap *)


  Lemma screen_close : close 1 (lowp_screen s d sa da) (N_screen s d sa da).
  Proof.
    unfold close, lowp_screen, N_screen. prem. rewrite u16mul_small by lia.
    pose proof (div255_close (s * d) ltac:(lia)) as (A & B).
    pose proof (div255_le_left s d ltac:(lia) ltac:(lia)).
    pose proof (div255_ge_sum s d ltac:(lia) ltac:(lia)).
    rewrite u16add_small by lia. rewrite u16sub_small by lia. lia.
  Qed.
End Modes.

(* ---- second batch: modes with a min/max or a doubled term, and the two-branch modes ------- *)
Ltac Zify.zify_post_hook ::= Z.div_mod_to_equations.

Section Modes2.
  Variables s d sa da : Z.
  Hypothesis Hs : premul s sa.
  Hypothesis Hd : premul d da.
  Let Bsd : 0 <= s * d <= 65025. Proof. prem; nia. Qed.
  Let Bsda : 0 <= s * da <= 65025. Proof. prem; nia. Qed.
  Let Bdsa : 0 <= d * sa <= 65025. Proof. prem; nia. Qed.
  Let Bsada : 0 <= sa * da <= 65025. Proof. prem; nia. Qed.
  Let Bsi : 0 <= s * (255 - da) <= 65025. Proof. prem; nia. Qed.
  Let Bdi : 0 <= d * (255 - sa) <= 65025. Proof. prem; nia. Qed.


  Lemma darken_close : close 1 (lowp_darken s d sa da) (N_darken s d sa da).
  Proof.
    unfold close, lowp_darken, N_darken. prem. rewrite !u16mul_small by lia.
    pose proof (div255_close (Z.max (s * da) (d * sa)) ltac:(lia)) as (A & B).
    pose proof (div255_le_left s da ltac:(lia) ltac:(lia)).
    pose proof (div255_le_left d sa ltac:(lia) ltac:(lia)).
    pose proof (div255_ge_sum s da ltac:(lia) ltac:(lia)).
    pose proof (div255_ge_sum d sa ltac:(lia) ltac:(lia)).
    rewrite div255_max in * by lia.
    rewrite u16add_small by lia. rewrite u16sub_small by lia. lia.
  Qed.

  Lemma lighten_close : close 1 (lowp_lighten s d sa da) (N_lighten s d sa da).
  Proof.
    unfold close, lowp_lighten, N_lighten. prem. rewrite !u16mul_small by lia.
    pose proof (div255_close (Z.min (s * da) (d * sa)) ltac:(lia)) as (A & B).
    pose proof (div255_le_left s da ltac:(lia) ltac:(lia)).
    pose proof (div255_le_left d sa ltac:(lia) ltac:(lia)).
    pose proof (div255_ge_sum s da ltac:(lia) ltac:(lia)).
    pose proof (div255_ge_sum d sa ltac:(lia) ltac:(lia)).
    rewrite div255_min in * by lia.
    rewrite u16add_small by lia. rewrite u16sub_small by lia. lia.
  Qed.

  Lemma exclusion_close : close 2 (lowp_exclusion s d sa da) (N_exclusion s d sa da).
  Proof.
    unfold close, lowp_exclusion, N_exclusion. prem. rewrite (u16mul_small s d) by lia.
    pose proof (div255_close (s * d) ltac:(lia)) as (A & B).
    pose proof (div255_le_left s d ltac:(lia) ltac:(lia)).
    pose proof (div255_le_left d s ltac:(lia) ltac:(lia)).
    replace (d * s) with (s * d) in * by lia.
    pose proof (div255_ge_sum s d ltac:(lia) ltac:(lia)).
    rewrite (u16mul_small 2) by lia. rewrite u16add_small by lia. rewrite u16sub_small by lia.
    (* upper bound 255: s + d - 2q <= 255 needs q >= (s + d - 255) / 2, from q >= s + d - 255 when s+d >= 255 *)
    lia.
  Qed.

  Lemma difference_close : close 2 (lowp_difference s d sa da) (N_difference s d sa da).
  Proof.
    unfold close, lowp_difference, N_difference. prem. rewrite (u16mul_small s da), (u16mul_small d sa) by lia.
    pose proof (div255_close (Z.min (s * da) (d * sa)) ltac:(lia)) as (A & B).
    pose proof (div255_le_left s da ltac:(lia) ltac:(lia)).
    pose proof (div255_le_left d sa ltac:(lia) ltac:(lia)).
    pose proof (div255_ge_sum s da ltac:(lia) ltac:(lia)).
    pose proof (div255_ge_sum d sa ltac:(lia) ltac:(lia)).
    rewrite div255_min in * by lia.
    rewrite (u16mul_small 2) by lia. rewrite u16add_small by lia. rewrite u16sub_small by lia. lia.
  Qed.

  (* the selected branch of hard_light / overlay fits in u16 and the total is <= 255*255 *)
  Lemma hl_dark_bound : 2 * s <= sa -> 0 <= s * (255 - da) + d * (255 - sa) + 2 * s * d <= 65025.
  Proof.
    prem. intros H.
    assert (E1 : d * (255 - sa) <= d * (255 - 2 * s)) by (apply Z.mul_le_mono_nonneg_l; lia).
    assert (E2 : d * (255 - 2 * s) + 2 * s * d = 255 * d) by ring.
    assert (E3 : s * (255 - da) <= s * (255 - d)) by (apply Z.mul_le_mono_nonneg_l; lia).
    assert (E4 : s * (255 - d) + 255 * d = 255 * s + d * (255 - s)) by ring.
    assert (E5 : d * (255 - s) <= 255 * (255 - s)) by (apply Z.mul_le_mono_nonneg_r; lia).
    assert (E6 : 0 <= 2 * s * d) by nia.
    lia.
  Qed.
  Lemma ov_dark_bound : 2 * d <= da -> 0 <= s * (255 - da) + d * (255 - sa) + 2 * s * d <= 65025.
  Proof.
    prem. intros H.
    assert (E1 : s * (255 - da) <= s * (255 - 2 * d)) by (apply Z.mul_le_mono_nonneg_l; lia).
    assert (E2 : s * (255 - 2 * d) + 2 * s * d = 255 * s) by ring.
    assert (E3 : d * (255 - sa) <= d * (255 - s)) by (apply Z.mul_le_mono_nonneg_l; lia).
    assert (E4 : d * (255 - s) + 255 * s = 255 * d + s * (255 - d)) by ring.
    assert (E5 : s * (255 - d) <= 255 * (255 - d)) by (apply Z.mul_le_mono_nonneg_r; lia).
    assert (E6 : 0 <= 2 * s * d) by nia.
    lia.
  Qed.
  (* light branch: sa*da - 2(sa-s)(da-d) in [0, sa*da]; total = N <= 255*255.
     total = s(255-da) + d(255-sa) + sa da - 2(sa-s)(da-d); with u = sa - s >= 0, v = da - d >= 0:
     = 255(s+d) - s da - d sa + sa da - 2uv = 255(s+d) - sa da + ... bounded by 255*255 via
     (255 - s)(255 - d) >= 0 style arguments *)
  Lemma lite_inner_bound : 0 <= 2 * (sa - s) * (da - d) -> 2 * (sa - s) <= sa \/ 2 * (da - d) <= da ->
    2 * (sa - s) * (da - d) <= sa * da.
  Proof.
    prem. intros H0 [H | H].
    - assert (2 * (sa - s) * (da - d) <= sa * (da - d)) by (apply Z.mul_le_mono_nonneg_r; lia).
      assert (sa * (da - d) <= sa * da) by (apply Z.mul_le_mono_nonneg_l; lia). lia.
    - assert (E : 2 * (sa - s) * (da - d) = (sa - s) * (2 * (da - d))) by ring. rewrite E.
      assert ((sa - s) * (2 * (da - d)) <= (sa - s) * da) by (apply Z.mul_le_mono_nonneg_l; lia).
      assert ((sa - s) * da <= sa * da) by (apply Z.mul_le_mono_nonneg_r; lia). lia.
  Qed.
  Lemma lite_total_bound :
    0 <= s * (255 - da) + d * (255 - sa) + (sa * da - 2 * (sa - s) * (da - d)) <= 65025
    \/ 2 * (sa - s) * (da - d) > sa * da.
  Proof.
    prem.
    destruct (Z_le_gt_dec (2 * (sa - s) * (da - d)) (sa * da)) as [L | G]; [left | right; lia].
    split; [assert (0 <= s * (255 - da)) by (apply Z.mul_nonneg_nonneg; lia); assert (0 <= d * (255 - sa)) by (apply Z.mul_nonneg_nonneg; lia); lia|].
    (* N = 255 s + 255 d - s da - d sa + sa da - 2 (sa-s)(da-d)
         = 255 s + 255 d - sa da + ... ; use  N <= 255 s + 255 d - s d  (i.e. screen) <= 65025 *)
    assert (K : s * (255 - da) + d * (255 - sa) + (sa * da - 2 * (sa - s) * (da - d))
                = 255 * s + 255 * d - s * d - (sa - s) * (da - d)) by ring.
    assert (K3 : 0 <= (sa - s) * (da - d)) by (apply Z.mul_nonneg_nonneg; lia).
    assert (K4 : 0 <= (255 - s) * (255 - d)) by (apply Z.mul_nonneg_nonneg; lia).
    assert (K5 : (255 - s) * (255 - d) = 65025 - 255 * s - 255 * d + s * d) by ring.
    lia.
  Qed.

  Lemma two_branch_close (c : bool) :
    (c = true -> 0 <= 2 * s * d <= 65025 /\ 0 <= s * (255 - da) + d * (255 - sa) + 2 * s * d <= 65025) ->
    (c = false -> 2 * (sa - s) <= sa \/ 2 * (da - d) <= da) ->
    close 1
      (lowp_div255 (u16add (u16add (u16mul s (lowp_inv da)) (u16mul d (lowp_inv sa)))
         (if c then u16mul (u16mul 2 s) d
          else u16sub (u16mul sa da) (u16mul (u16mul 2 (u16sub sa s)) (u16sub da d)))))
      (s * (255 - da) + d * (255 - sa) + (if c then 2 * s * d else sa * da - 2 * (sa - s) * (da - d))).
  Proof.
    intros Hdark Hlite. unfold close. pose proof Hs as Hs'. pose proof Hd as Hd'. prem.
    rewrite !inv_eq by lia. pose proof xor_bound s d sa da Hs' Hd' as X.
    destruct c.
    - destruct (Hdark eq_refl) as (D1 & D2).
      rewrite (u16mul_small 2 s) by lia. rewrite (u16mul_small (2 * s) d) by lia.
      rewrite (u16mul_small s (255 - da)), (u16mul_small d (255 - sa)) by lia.
      rewrite (u16add_small (s * (255 - da))) by lia. rewrite u16add_small by lia.
      pose proof (div255_close (s * (255 - da) + d * (255 - sa) + 2 * s * d) ltac:(lia)). lia.
    - specialize (Hlite eq_refl).
      assert (U : 0 <= 2 * (sa - s) * (da - d)) by (apply Z.mul_nonneg_nonneg; lia).
      pose proof (lite_inner_bound U Hlite) as L.
      destruct lite_total_bound as [T | T]; [|lia].
      rewrite (u16sub_small sa s), (u16sub_small da d) by lia.
      rewrite (u16mul_small 2 (sa - s)) by lia. rewrite (u16mul_small (2 * (sa - s)) (da - d)) by lia.
      rewrite (u16mul_small sa da) by lia. rewrite (u16sub_small (sa * da)) by lia.
      rewrite (u16mul_small s (255 - da)), (u16mul_small d (255 - sa)) by lia.
      rewrite (u16add_small (s * (255 - da))) by lia. rewrite u16add_small by lia.
      pose proof (div255_close (s * (255 - da) + d * (255 - sa) + (sa * da - 2 * (sa - s) * (da - d))) ltac:(lia)). lia.
  Qed.

  Lemma hard_light_close : close 1 (lowp_hard_light s d sa da) (N_hard_light s d sa da).
  Proof.
    unfold lowp_hard_light, N_hard_light. pose proof Hs as Hs'. pose proof Hd as Hd'. prem.
    rewrite (u16add_small s s) by lia. replace (s + s) with (2 * s) by lia.
    apply two_branch_close.
    - intros H. apply Z.leb_le in H. split; [|apply hl_dark_bound; lia].
      assert (2 * s * d <= sa * d) by (apply Z.mul_le_mono_nonneg_r; lia).
      assert (0 <= 2 * s * d) by (apply Z.mul_nonneg_nonneg; lia). nia.
    - intros H. apply Z.leb_gt in H. left. lia.
  Qed.

  Lemma overlay_close : close 1 (lowp_overlay s d sa da) (N_overlay s d sa da).
  Proof.
    unfold lowp_overlay, N_overlay. pose proof Hs as Hs'. pose proof Hd as Hd'. prem.
    rewrite (u16add_small d d) by lia. replace (d + d) with (2 * d) by lia.
    apply two_branch_close.
    - intros H. apply Z.leb_le in H. split; [|apply ov_dark_bound; lia].
      assert (E : 2 * s * d = s * (2 * d)) by ring. rewrite E.
      assert (s * (2 * d) <= s * da) by (apply Z.mul_le_mono_nonneg_l; lia).
      assert (0 <= s * (2 * d)) by (apply Z.mul_nonneg_nonneg; lia). nia.
    - intros H. apply Z.leb_gt in H. right. lia.
  Qed.
End Modes2.

(* ---- premultiplied results: colour <= alpha, alpha <= 255 ----------------------------------- *)
Lemma div255_step v k : 0 <= v -> 0 <= k <= 256 -> v + k <= 65280 ->
  lowp_div255 (v + k) <= lowp_div255 v + 1.
Proof.
  intros Hv Hk Hb. rewrite !div255_eq by lia.
  replace (v + k + 255) with (v + 255 + k) by lia.
  assert ((v + 255 + k) / 256 <= (v + 255 + 256) / 256) by (apply Z.div_le_mono; lia).
  replace (v + 255 + 256) with (v + 255 + 1 * 256) in H by lia.
  rewrite Z.div_add in H by lia. lia.
Qed.

Section Premul.
  Variables s d sa da : Z.
  Hypothesis Hs : premul s sa.
  Hypothesis Hd : premul d da.

  Ltac start := pose proof Hs as Hs'; pose proof Hd as Hd'; prem.
  Ltac mono2 := apply div255_mono; [split; [nia|]|]; nia.

  (* Porter-Duff modes: the alpha channel goes through the same closure with (s,d) := (sa,da) *)
  Lemma source_in_premul : lowp_source_in s d sa da <= lowp_source_in sa da sa da.
  Proof. start. unfold lowp_source_in. rewrite !u16mul_small by nia. mono2. Qed.
  Lemma destination_in_premul : lowp_destination_in s d sa da <= lowp_destination_in sa da sa da.
  Proof. start. unfold lowp_destination_in. rewrite !u16mul_small by nia. mono2. Qed.
  Lemma source_out_premul : lowp_source_out s d sa da <= lowp_source_out sa da sa da.
  Proof. start. unfold lowp_source_out. rewrite !inv_eq by lia. rewrite !u16mul_small by nia. mono2. Qed.
  Lemma destination_out_premul : lowp_destination_out s d sa da <= lowp_destination_out sa da sa da.
  Proof. start. unfold lowp_destination_out. rewrite !inv_eq by lia. rewrite !u16mul_small by nia. mono2. Qed.
  Lemma modulate_premul : lowp_modulate s d sa da <= lowp_modulate sa da sa da.
  Proof. start. unfold lowp_modulate. rewrite !u16mul_small by nia. mono2. Qed.
  Lemma clear_premul : lowp_clear s d sa da <= lowp_clear sa da sa da.
  Proof. unfold lowp_clear. lia. Qed.
  Lemma plus_premul : lowp_plus s d sa da <= lowp_plus sa da sa da.
  Proof. start. unfold lowp_plus. rewrite !u16add_small by lia. lia. Qed.

  Lemma source_atop_premul : lowp_source_atop s d sa da <= lowp_source_atop sa da sa da.
  Proof.
    start. unfold lowp_source_atop. rewrite !inv_eq by lia.
    pose proof (atop_bound s d sa da Hs' Hd'). pose proof (atop_bound sa da sa da ltac:(unfold premul; lia) ltac:(unfold premul; lia)).
    rewrite !u16mul_small by nia. rewrite !u16add_small by lia. mono2.
  Qed.
  Lemma destination_atop_premul : lowp_destination_atop s d sa da <= lowp_destination_atop sa da sa da.
  Proof.
    start. unfold lowp_destination_atop. rewrite !inv_eq by lia.
    pose proof (datop_bound s d sa da Hs' Hd'). pose proof (datop_bound sa da sa da ltac:(unfold premul; lia) ltac:(unfold premul; lia)).
    rewrite !u16mul_small by nia. rewrite !u16add_small by lia. mono2.
  Qed.
  Lemma xor_premul : lowp_xor s d sa da <= lowp_xor sa da sa da.
  Proof.
    start. unfold lowp_xor. rewrite !inv_eq by lia.
    pose proof (xor_bound s d sa da Hs' Hd'). pose proof (xor_bound sa da sa da ltac:(unfold premul; lia) ltac:(unfold premul; lia)).
    rewrite !u16mul_small by nia. rewrite !u16add_small by lia. mono2.
  Qed.
  Lemma source_over_premul : lowp_source_over s d sa da <= lowp_source_over sa da sa da.
  Proof.
    start. unfold lowp_source_over. rewrite !inv_eq by lia. rewrite !u16mul_small by nia.
    assert (lowp_div255 (d * (255 - sa)) <= lowp_div255 (da * (255 - sa))) by mono2.
    assert (lowp_div255 (da * (255 - sa)) <= 255 - sa).
    { apply Z.le_trans with (lowp_div255 (255 * (255 - sa))); [apply div255_mono; nia | rewrite div255_mul255; lia]. }
    pose proof (div255_close (d * (255 - sa)) ltac:(nia)). pose proof (div255_close (da * (255 - sa)) ltac:(nia)).
    rewrite !u16add_small by lia. lia.
  Qed.
  Lemma destination_over_premul : lowp_destination_over s d sa da <= lowp_destination_over sa da sa da.
  Proof.
    start. unfold lowp_destination_over. rewrite !inv_eq by lia. rewrite !u16mul_small by nia.
    assert (lowp_div255 (s * (255 - da)) <= lowp_div255 (sa * (255 - da))) by mono2.
    assert (lowp_div255 (sa * (255 - da)) <= 255 - da).
    { apply Z.le_trans with (lowp_div255 (255 * (255 - da))); [apply div255_mono; nia | rewrite div255_mul255; lia]. }
    pose proof (div255_close (s * (255 - da)) ltac:(nia)). pose proof (div255_close (sa * (255 - da)) ltac:(nia)).
    rewrite !u16add_small by lia. lia.
  Qed.
End Premul.

(* ---- remaining premultiplied-result lemmas: multiply, screen and the blend_fn2! modes ----- *)
Section Premul2.
  Variables s d sa da : Z.
  Hypothesis Hs : premul s sa.
  Hypothesis Hd : premul d da.
  Ltac start := pose proof Hs as Hs'; pose proof Hd as Hd'; prem.

  Lemma multiply_premul : lowp_multiply s d sa da <= lowp_multiply sa da sa da.
  Proof.
    start. unfold lowp_multiply. rewrite !inv_eq by lia.
    pose proof (multiply_bound s d sa da Hs' Hd').
    pose proof (multiply_bound sa da sa da ltac:(unfold premul; lia) ltac:(unfold premul; lia)).
    pose proof (xor_bound s d sa da Hs' Hd').
    pose proof (xor_bound sa da sa da ltac:(unfold premul; lia) ltac:(unfold premul; lia)).
    rewrite !u16mul_small by nia. nowrap.
    apply div255_mono; [split; [lia|]|lia].
    (* monotone in s and d: the coefficient of s is (255 - da) + d >= 0 etc. *)
    assert (E1 : s * (255 - da + d) <= sa * (255 - da + d)) by (apply Z.mul_le_mono_nonneg_r; lia).
    assert (E2 : d * (255 - sa + sa) <= da * (255 - sa + sa)) by (apply Z.mul_le_mono_nonneg_r; lia).
    assert (E3 : s * (255 - da) + d * (255 - sa) + s * d = s * (255 - da + d) + d * (255 - sa)) by ring.
    assert (E4 : sa * (255 - da + d) + d * (255 - sa) = sa * (255 - da) + d * (255 - sa + sa)) by ring.
    assert (E5 : sa * (255 - da) + da * (255 - sa) + sa * da = sa * (255 - da) + da * (255 - sa + sa)) by ring.
    lia.
  Qed.

  (* x - div255(x*y) is non-decreasing in x: the rounded product grows by at most 1 per step *)
  Lemma sub_div_mono x x' y : 0 <= x <= x' -> x' <= 255 -> 0 <= y <= 255 ->
    x - lowp_div255 (x * y) <= x' - lowp_div255 (x' * y).
  Proof.
    intros Hx Hx' Hy. rewrite !div255_eq by nia.
    assert (E : x' * y + 255 = (x * y + 255) + (x' - x) * y) by ring. rewrite E.
    assert ((x * y + 255 + (x' - x) * y) / 256 <= (x * y + 255 + (x' - x) * 256) / 256).
    { apply Z.div_le_mono; [lia|]. nia. }
    rewrite Z.div_add in H by lia. lia.
  Qed.

  Lemma screen_premul : lowp_screen s d sa da <= lowp_screen sa da sa da.
  Proof.
    start. unfold lowp_screen.
    pose proof (div255_le_left s d ltac:(lia) ltac:(lia)). pose proof (div255_le_left sa da ltac:(lia) ltac:(lia)).
    pose proof (div255_close (s * d) ltac:(nia)). pose proof (div255_close (sa * da) ltac:(nia)).
    rewrite !u16mul_small by nia. rewrite !u16add_small by lia. rewrite !u16sub_small by lia.
    (* s + d - q(s d) <= sa + d - q(sa d) <= sa + da - q(sa da) *)
    pose proof (sub_div_mono s sa d ltac:(lia) ltac:(lia) ltac:(lia)).
    pose proof (sub_div_mono d da sa ltac:(lia) ltac:(lia) ltac:(lia)).
    replace (d * sa) with (sa * d) in * by lia. replace (da * sa) with (sa * da) in * by lia. lia.
  Qed.
End Premul2.

Lemma div255_split a b n : 0 <= a -> 0 <= b -> a + b = 255 * n -> 0 <= n <= 255 ->
  n <= lowp_div255 a + lowp_div255 b.
Proof.
  intros Ha Hb E Hn. rewrite !div255_eq by lia.
  pose proof (Z.div_mod (a + 255) 256 ltac:(lia)). pose proof (Z.mod_pos_bound (a + 255) 256 ltac:(lia)).
  pose proof (Z.div_mod (b + 255) 256 ltac:(lia)). pose proof (Z.mod_pos_bound (b + 255) 256 ltac:(lia)).
  lia.
Qed.

Lemma div255_add255 x k : 0 <= x -> 0 <= k <= 255 -> 255 * k + x <= 65025 ->
  lowp_div255 (255 * k + x) <= k + lowp_div255 x.
Proof.
  intros Hx Hk Hb. rewrite !div255_eq by lia.
  replace (k + (x + 255) / 256) with ((x + 255 + k * 256) / 256) by (rewrite Z.div_add by lia; lia).
  apply Z.div_le_mono; lia.
Qed.

Section Premul3.
  Variables s d sa da : Z.
  Hypothesis Hs : premul s sa.
  Hypothesis Hd : premul d da.
  Ltac start := pose proof Hs as Hs'; pose proof Hd as Hd'; prem.

  (* alpha of the blend_fn2! modes *)
  Definition alpha2 := u16add sa (lowp_div255 (u16mul da (lowp_inv sa))).

  Lemma alpha2_eq : alpha2 = sa + lowp_div255 (da * (255 - sa)) /\ 0 <= alpha2 <= 255.
  Proof.
    start. unfold alpha2. rewrite inv_eq by lia. rewrite u16mul_small by nia.
    assert (lowp_div255 (da * (255 - sa)) <= 255 - sa).
    { apply Z.le_trans with (lowp_div255 (255 * (255 - sa))); [apply div255_mono; nia | rewrite div255_mul255; lia]. }
    pose proof (div255_close (da * (255 - sa)) ltac:(nia)).
    rewrite u16add_small by lia. lia.
  Qed.

  (* the two chains used by every blend_fn2! mode *)
  Lemma chain_s : s - lowp_div255 (s * da) + d <= sa + lowp_div255 (da * (255 - sa)).
  Proof.
    start.
    pose proof (sub_div_mono s sa da ltac:(lia) ltac:(lia) ltac:(lia)).
    pose proof (div255_split (sa * da) (da * (255 - sa)) da ltac:(nia) ltac:(nia) ltac:(ring) ltac:(lia)).
    lia.
  Qed.
  Lemma chain_d : d - lowp_div255 (d * sa) + s <= sa + lowp_div255 (da * (255 - sa)).
  Proof.
    start.
    pose proof (sub_div_mono d da sa ltac:(lia) ltac:(lia) ltac:(lia)).
    pose proof (div255_split (da * sa) (da * (255 - sa)) da ltac:(nia) ltac:(nia) ltac:(ring) ltac:(lia)).
    lia.
  Qed.

  Lemma darken_premul : lowp_darken s d sa da <= alpha2.
  Proof.
    start. destruct alpha2_eq as (-> & _). unfold lowp_darken. rewrite !u16mul_small by nia.
    rewrite div255_max by nia.
    pose proof (div255_le_left s da ltac:(lia) ltac:(lia)). pose proof (div255_le_left d sa ltac:(lia) ltac:(lia)).
    pose proof (div255_close (s * da) ltac:(nia)). pose proof (div255_close (d * sa) ltac:(nia)).
    rewrite u16add_small by lia. rewrite u16sub_small by lia.
    pose proof chain_s. lia.
  Qed.

  Lemma lighten_premul : lowp_lighten s d sa da <= alpha2.
  Proof.
    start. destruct alpha2_eq as (-> & _). unfold lowp_lighten. rewrite !u16mul_small by nia.
    rewrite div255_min by nia.
    pose proof (div255_le_left s da ltac:(lia) ltac:(lia)). pose proof (div255_le_left d sa ltac:(lia) ltac:(lia)).
    pose proof (div255_close (s * da) ltac:(nia)). pose proof (div255_close (d * sa) ltac:(nia)).
    rewrite u16add_small by lia. rewrite u16sub_small by lia.
    pose proof chain_s. pose proof chain_d. lia.
  Qed.

  Lemma difference_premul : lowp_difference s d sa da <= alpha2.
  Proof.
    start. destruct alpha2_eq as (-> & _). unfold lowp_difference.
    rewrite (u16mul_small s da), (u16mul_small d sa) by nia.
    rewrite div255_min by nia.
    pose proof (div255_le_left s da ltac:(lia) ltac:(lia)). pose proof (div255_le_left d sa ltac:(lia) ltac:(lia)).
    pose proof (div255_close (s * da) ltac:(nia)). pose proof (div255_close (d * sa) ltac:(nia)).
    rewrite (u16mul_small 2) by lia. rewrite u16add_small by lia. rewrite u16sub_small by lia.
    pose proof chain_s. pose proof chain_d. lia.
  Qed.

  Lemma exclusion_premul : lowp_exclusion s d sa da <= alpha2.
  Proof.
    start. destruct alpha2_eq as (-> & _). unfold lowp_exclusion.
    rewrite (u16mul_small s d) by nia.
    pose proof (div255_le_left s d ltac:(lia) ltac:(lia)).
    pose proof (div255_le_left d s ltac:(lia) ltac:(lia)). replace (d * s) with (s * d) in * by lia.
    pose proof (div255_close (s * d) ltac:(nia)).
    rewrite (u16mul_small 2) by lia. rewrite u16add_small by lia. rewrite u16sub_small by lia.
    (* s + d - 2q(sd) <= s + d - q(sd) <= sa + da - q(sa da) <= alpha *)
    pose proof (sub_div_mono s sa d ltac:(lia) ltac:(lia) ltac:(lia)).
    pose proof (sub_div_mono d da sa ltac:(lia) ltac:(lia) ltac:(lia)).
    replace (d * sa) with (sa * d) in * by lia. replace (da * sa) with (sa * da) in * by lia.
    pose proof (div255_split (sa * da) (da * (255 - sa)) da ltac:(nia) ltac:(nia) ltac:(ring) ltac:(lia)).
    lia.
  Qed.

  (* hard_light / overlay: one div255 of N with N <= 255 sa + da (255 - sa) *)
  Lemma two_branch_premul (c : bool) :
    (c = true -> 0 <= 2 * s * d <= sa * da /\ 0 <= s * (255 - da) + d * (255 - sa) + 2 * s * d <= 65025) ->
    (c = false -> 2 * (sa - s) <= sa \/ 2 * (da - d) <= da) ->
    lowp_div255 (u16add (u16add (u16mul s (lowp_inv da)) (u16mul d (lowp_inv sa)))
         (if c then u16mul (u16mul 2 s) d
          else u16sub (u16mul sa da) (u16mul (u16mul 2 (u16sub sa s)) (u16sub da d)))) <= alpha2.
  Proof.
    intros Hdark Hlite. start. destruct alpha2_eq as (-> & _).
    rewrite !inv_eq by lia. pose proof (xor_bound s d sa da Hs' Hd') as X.
    assert (S1 : s * (255 - da) <= sa * (255 - da)) by (apply Z.mul_le_mono_nonneg_r; lia).
    assert (S2 : d * (255 - sa) <= da * (255 - sa)) by (apply Z.mul_le_mono_nonneg_r; lia).
    assert (S3 : sa * (255 - da) + da * (255 - sa) + sa * da = 255 * sa + da * (255 - sa)) by ring.
    assert (S4 : 0 <= da * (255 - sa)) by (apply Z.mul_nonneg_nonneg; lia).
    assert (S5 : 255 * sa + da * (255 - sa) <= 65025) by nia.
    assert (S6 : 0 <= s * (255 - da) <= 65025) by nia.
    assert (S7 : 0 <= d * (255 - sa) <= 65025) by nia.
    destruct c.
    - destruct (Hdark eq_refl) as (D1 & D2).
      assert (0 <= sa * da <= 65025) by nia.
      rewrite (u16mul_small 2 s) by lia. rewrite (u16mul_small (2 * s) d) by lia.
      rewrite (u16mul_small s (255 - da)), (u16mul_small d (255 - sa)) by lia.
      rewrite (u16add_small (s * (255 - da))) by lia. rewrite u16add_small by lia.
      apply Z.le_trans with (lowp_div255 (255 * sa + da * (255 - sa))); [apply div255_mono; lia|].
      apply div255_add255; lia.
    - specialize (Hlite eq_refl).
      assert (U : 0 <= 2 * (sa - s) * (da - d)) by (apply Z.mul_nonneg_nonneg; lia).
      pose proof (lite_inner_bound s d sa da Hs' Hd' U Hlite) as L.
      destruct (lite_total_bound s d sa da Hs' Hd') as [T | T]; [|lia].
      assert (0 <= sa * da <= 65025) by nia.
      rewrite (u16sub_small sa s), (u16sub_small da d) by lia.
      rewrite (u16mul_small 2 (sa - s)) by lia. rewrite (u16mul_small (2 * (sa - s)) (da - d)) by lia.
      rewrite (u16mul_small sa da) by lia. rewrite (u16sub_small (sa * da)) by lia.
      rewrite (u16mul_small s (255 - da)), (u16mul_small d (255 - sa)) by lia.
      rewrite (u16add_small (s * (255 - da))) by lia. rewrite u16add_small by lia.
      apply Z.le_trans with (lowp_div255 (255 * sa + da * (255 - sa))); [apply div255_mono; lia|].
      apply div255_add255; lia.
  Qed.

  Lemma hard_light_premul : lowp_hard_light s d sa da <= alpha2.
  Proof.
    unfold lowp_hard_light. start.
    rewrite (u16add_small s s) by lia. replace (s + s) with (2 * s) by lia.
    apply two_branch_premul.
    - intros H. apply Z.leb_le in H. split; [|apply hl_dark_bound; auto].
      assert (2 * s * d <= sa * d) by (apply Z.mul_le_mono_nonneg_r; lia).
      assert (sa * d <= sa * da) by (apply Z.mul_le_mono_nonneg_l; lia).
      assert (0 <= 2 * s * d) by (apply Z.mul_nonneg_nonneg; lia). lia.
    - intros H. apply Z.leb_gt in H. left. lia.
  Qed.

  Lemma overlay_premul : lowp_overlay s d sa da <= alpha2.
  Proof.
    unfold lowp_overlay. start.
    rewrite (u16add_small d d) by lia. replace (d + d) with (2 * d) by lia.
    apply two_branch_premul.
    - intros H. apply Z.leb_le in H. split; [|apply ov_dark_bound; auto].
      assert (E : 2 * s * d = s * (2 * d)) by ring. rewrite E.
      assert (s * (2 * d) <= s * da) by (apply Z.mul_le_mono_nonneg_l; lia).
      assert (s * da <= sa * da) by (apply Z.mul_le_mono_nonneg_r; lia).
      assert (0 <= s * (2 * d)) by (apply Z.mul_nonneg_nonneg; lia). lia.
    - intros H. apply Z.leb_gt in H. right. lia.
  Qed.
End Premul3.
