(* C15: the interval search of the `gradient` stage.  Every lane counts the stops t_values[1..] that its comparison accepts;
   with the comparison of the source (">=", re-extracted into Gen/GradientStage.v on every run) and sorted stops the count k
   is the index of the half-open interval that contains t:  every one of the first k stops is <= t and every later one is > t.
   In particular at a hard stop (two equal positions p, t = p) both are counted: the colour to the right of the stop. *)
From Coq Require Import QArith List String Bool Lia.
From TS Require Import Gen.GradientStage.
Import ListNotations.
Local Open Scope Q_scope.

Definition lane_cmp (op : string) (t tt : Q) : bool :=
  if String.eqb op ">=" then Qle_bool tt t
  else if String.eqb op ">" then negb (Qle_bool t tt)
  else if String.eqb op "<=" then Qle_bool t tt
  else if String.eqb op "<" then negb (Qle_bool tt t)
  else false.

(* idx of one lane: the number of accepted stops among t_values[1..] *)
Definition lane_index (op : string) (tail : list Q) (t : Q) : nat := List.length (filter (lane_cmp op t) tail).

Fixpoint sortedQ (l : list Q) : Prop :=
  match l with
  | [] => True
  | a :: r => (match r with [] => True | b :: _ => a <= b end) /\ sortedQ r
  end.

Lemma sortedQ_head_le a l x : sortedQ (a :: l) -> In x l -> a <= x.
Proof.
  revert a. induction l as [|b l IH]; intros a S Hin; [destruct Hin|].
  destruct S as (Hab & S'). destruct Hin as [E | Hin]; [subst; exact Hab|].
  apply Qle_trans with b; [exact Hab | apply IH; assumption].
Qed.

Lemma filter_all_false {A} (p : A -> bool) (l : list A) : (forall x, In x l -> p x = false) -> filter p l = [].
Proof.
  induction l as [|a l IH]; intros H; [reflexivity|]. cbn [filter]. rewrite (H a (or_introl eq_refl)). apply IH.
  intros x Hx. apply H. right. exact Hx.
Qed.

(* on sorted stops the accepted ones form a prefix *)
Lemma ge_prefix tail t : sortedQ tail ->
  let k := lane_index ">=" tail t in
  (forall x, In x (firstn k tail) -> x <= t) /\ (forall x, In x (skipn k tail) -> t < x).
Proof.
  unfold lane_index. change (lane_cmp ">=" t) with (fun tt => Qle_bool tt t).
  induction tail as [|a l IH]; intros S; cbn [filter List.length firstn skipn].
  - split; intros x [].
  - pose proof S as (Hh & S'). destruct (Qle_bool a t) eqn:E.
    + cbn [List.length firstn skipn]. destruct (IH S') as (I1 & I2). split.
      * intros x [Hx | Hx]; [subst; apply Qle_bool_iff; exact E | apply I1; exact Hx].
      * exact I2.
    + (* a > t: nothing later is accepted either *)
      assert (At : t < a) by (apply Qnot_le_lt; intros C; apply Qle_bool_iff in C; rewrite C in E; discriminate).
      assert (Z : filter (fun tt => Qle_bool tt t) l = []).
      { apply filter_all_false. intros x Hx. destruct (Qle_bool x t) eqn:Ex; [|reflexivity].
        exfalso. apply Qle_bool_iff in Ex. pose proof (sortedQ_head_le a l x S Hx) as Hax.
        apply (Qlt_irrefl t). apply Qlt_le_trans with a; [exact At | apply Qle_trans with x; assumption]. }
      rewrite Z. cbn [List.length firstn skipn]. split; [intros x []|].
      intros x [Hx | Hx]; [subst; exact At|].
      apply Qlt_le_trans with a; [exact At | apply (sortedQ_head_le a l x S Hx)].
Qed.

(* THE statement about the source: every lane of both pipelines searches with ">=", hence (ge_prefix) returns the half-open
   interval [t_k, t_k+1) that contains t, the same in both pipelines *)
Theorem gradient_search_right_continuous :
  List.length lowp_gradient_cmps = 16%nat /\ List.length highp_gradient_cmps = 8%nat /\
  (forall op, In op (lowp_gradient_cmps ++ highp_gradient_cmps) -> op = ">="%string) /\
  (forall op tail t, In op (lowp_gradient_cmps ++ highp_gradient_cmps) -> sortedQ tail ->
     let k := lane_index op tail t in
     (forall x, In x (firstn k tail) -> x <= t) /\ (forall x, In x (skipn k tail) -> t < x)).
Proof.
  assert (A : forall op, In op (lowp_gradient_cmps ++ highp_gradient_cmps) -> op = ">="%string).
  { assert (F : forallb (fun op => String.eqb op ">=") (lowp_gradient_cmps ++ highp_gradient_cmps) = true) by (vm_compute; reflexivity).
    intros op Hin. rewrite forallb_forall in F. apply String.eqb_eq. apply F. exact Hin. }
  split; [vm_compute; reflexivity|]. split; [vm_compute; reflexivity|]. split; [exact A|].
  intros op tail t Hin S. rewrite (A op Hin). apply ge_prefix. exact S.
Qed.

Example search_at_hard_stop : lane_index ">=" [1 # 4; 1 # 2; 1 # 2; 1] (1 # 2) = 3%nat /\ lane_index ">" [1 # 4; 1 # 2; 1 # 2; 1] (1 # 2) = 1%nat.
Proof. vm_compute. split; reflexivity. Qed.
