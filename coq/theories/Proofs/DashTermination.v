(* The dash loop of Model/Dash.v terminates (exact instance): with any fuel above
   n * (L / sum + 3) + 1 the loop has left `while distance < length` - every full turn through the pattern
   advances the distance by the (positive) sum of the intervals. *)
From Coq Require Import ZArith Bool List Lia.
From TS Require Import Model.Dash Proofs.DashProofs.
Import ListNotations.
Local Open Scope Z_scope.

(* ---- iter_until is plain iteration ---------------------------------------------------------------------- *)
Section Run.
  Context {St R : Type} (f : St -> St + R).
  Fixpoint run_steps (m : nat) (s : St) : St + R :=
    match m with
    | O => inl s
    | S m' => match f s with inl s' => run_steps m' s' | inr r => inr r end
    end.

  Lemma run_steps_add a : forall b s,
    run_steps (a + b) s = match run_steps a s with inl s' => run_steps b s' | inr r => inr r end.
  Proof.
    induction a as [|a IH]; intros b s; cbn [run_steps Nat.add]; [reflexivity|].
    destruct (f s) as [s' | r]; [apply IH | reflexivity].
  Qed.

  Lemma iter_until_run : forall p s, iter_until f p s = run_steps (Pos.to_nat p) s.
  Proof.
    induction p as [p IH | p IH |]; intros s; cbn [iter_until].
    - rewrite Pos2Nat.inj_xI. change (S (2 * Pos.to_nat p)) with (1 + (2 * Pos.to_nat p))%nat.
      cbn [run_steps Nat.add]. destruct (f s) as [s1 | r]; [|reflexivity].
      replace (2 * Pos.to_nat p)%nat with (Pos.to_nat p + Pos.to_nat p)%nat by lia.
      rewrite run_steps_add, <- IH. destruct (iter_until f p s1); [apply IH | reflexivity].
    - rewrite Pos2Nat.inj_xO. replace (2 * Pos.to_nat p)%nat with (Pos.to_nat p + Pos.to_nat p)%nat by lia.
      rewrite run_steps_add, <- IH. destruct (iter_until f p s); [apply IH | reflexivity].
    - change (Pos.to_nat 1) with 1%nat. cbn [run_steps]. destruct (f s); reflexivity.
  Qed.

  Lemma run_steps_inr_mono a b s r : run_steps a s = inr r -> run_steps (a + b) s = inr r.
  Proof. intros H. now rewrite run_steps_add, H. Qed.
End Run.

(* ---- progress of the dash loop ------------------------------------------------------------------------------ *)
Section Progress.
  Variables (arr : list Z) (off L : Z) (c0 : Z).
  Hypothesis Hn : nonneg arr.
  Hypothesis Hs : 0 < zsum arr.
  Hypothesis Hoff : 0 <= off < zsum arr.

  Let n := Z.of_nat (length arr).

  (* after m steps: the phase equation of DashProofs.Inv plus a step counter k * n + index = c0 + m *)
  Definition P (m : Z) (s : dstate Z) : Prop :=
    (ds_index s < length arr)%nat /\ 0 <= ds_distance s /\ 0 <= ds_dlen s <= nth (ds_index s) arr 0 /\
    exists k, 0 <= k /\ off + ds_distance s + ds_dlen s = k * zsum arr + prefix arr (S (ds_index s)) /\
              k * n + Z.of_nat (ds_index s) = c0 + m.

  Lemma P_step m s s' : P m s -> z_dash_step arr L s = inl s' -> P (m + 1) s'.
  Proof.
    intros (Hi & Hd & Hl & (k & Hk & Hph & Hc)) H.
    unfold z_dash_step, dash_step in H. destruct (Z.ltb (ds_distance s) L) eqn:EL; [|discriminate].
    injection H as <-. unfold P. cbn [ds_index ds_distance ds_dlen].
    set (idx := next_index (length arr) (ds_index s)).
    assert (Hidx : (idx < length arr)%nat) by (unfold idx, next_index; destruct (Nat.eqb_spec (S (ds_index s)) (length arr)); lia).
    pose proof (nth_nonneg arr idx Hn) as Hnn.
    split; [exact Hidx|]. split; [lia|]. split; [lia|].
    unfold idx, next_index, n in *. destruct (Nat.eqb_spec (S (ds_index s)) (length arr)) as [E | E].
    - exists (k + 1). split; [lia|]. rewrite E, prefix_all in Hph. rewrite (prefix_S arr 0) by lia. rewrite prefix_0. split; lia.
    - exists k. split; [lia|]. rewrite (prefix_S arr (S (ds_index s))) by lia. split; lia.
  Qed.

  Lemma P_run : forall m s0 s, P 0 s0 -> run_steps (z_dash_step arr L) m s0 = inl s -> P (Z.of_nat m) s.
  Proof.
    assert (G : forall m j s0 s, P j s0 -> run_steps (z_dash_step arr L) m s0 = inl s -> P (j + Z.of_nat m) s).
    { induction m as [|m IH]; intros j s0 s H0 H; cbn [run_steps] in H.
      - injection H as <-. now rewrite Z.add_0_r.
      - destruct (z_dash_step arr L s0) as [s1 | r] eqn:E; [|discriminate].
        replace (j + Z.of_nat (S m)) with ((j + 1) + Z.of_nat m) by lia.
        apply (IH (j + 1) s1 s); [eapply P_step; eauto | exact H]. }
    intros m s0 s H0 H. exact (G m 0 s0 s H0 H).
  Qed.

  (* the distance after m steps is at least (k - 1) * sum where k * n + index = c0 + m *)
  Lemma P_distance m s : P m s -> 0 <= c0 -> (c0 + m - n + 1) <= n * (ds_distance s / zsum arr + 2).
  Proof.
    intros (Hi & Hd & Hl & (k & Hk & Hph & Hc)) Hc0.
    pose proof (prefix_mono arr Hn 0 (S (ds_index s)) ltac:(lia)) as Pm. rewrite prefix_0 in Pm.
    pose proof (prefix_S arr (ds_index s) Hi) as PS.
    pose proof (prefix_mono arr Hn 0 (ds_index s) ltac:(lia)) as Pm2. rewrite prefix_0 in Pm2.
    (* distance >= (k - 1) * sum *)
    assert (D : (k - 1) * zsum arr <= ds_distance s) by nia.
    assert (Q : k - 1 <= ds_distance s / zsum arr) by (apply Z.div_le_lower_bound; lia).
    assert (Hn1 : 1 <= n) by (unfold n; lia).
    nia.
  Qed.
End Progress.

(* Termination of the loop for any pattern, phase and contour length, open or closed: enough fuel always ends it *)
Theorem dash_contour_terminates fuel arr off L closed b :
  nonneg arr -> 0 < zsum arr -> 0 <= off < zsum arr -> 0 <= L ->
  Z.of_nat (length arr) * (L / zsum arr + 4) < Z.pos fuel ->
  let '(fl, fi) := z_find_first arr off in
  z_dash_contour fuel arr fl fi L closed b <> None.
Proof.
  intros Hn Hs Ho HL Hf. destruct (z_find_first arr off) as [fl fi] eqn:EF.
  destruct (find_first_spec _ _ _ _ Hn Ho EF) as (Hfi & Hfl & Hph).
  unfold z_dash_contour, dash_contour. rewrite iter_until_run.
  set (s0 := mkds 0 fl fi closed false ([] : list (piece Z))).
  set (n := Z.of_nat (length arr)) in *.
  set (M := Z.to_nat (n * (L / zsum arr + 3))).
  assert (Hn1 : 1 <= n) by (unfold n; lia).
  assert (Hq : 0 <= L / zsum arr) by (apply Z.div_pos; lia).
  assert (P0 : P arr off (Z.of_nat fi) 0 s0).
  { unfold P, s0. cbn [ds_index ds_distance ds_dlen]. split; [exact Hfi|]. split; [lia|]. split; [exact Hfl|].
    exists 0. split; [lia|]. split; lia. }
  assert (E : exists r, run_steps (dash_step Z Z.add Z.ltb 0 arr L) (S M) s0 = inr r).
  { replace (S M) with (M + 1)%nat by lia. rewrite run_steps_add.
    destruct (run_steps (dash_step Z Z.add Z.ltb 0 arr L) M s0) as [s | r] eqn:ER; [|eauto].
    pose proof (P_run arr off L (Z.of_nat fi) Hn M s0 s P0 ER) as PM.
    pose proof (P_distance arr off (Z.of_nat fi) Hn Hs Ho (Z.of_nat M) s PM ltac:(lia)) as D.
    fold n in D. unfold M in D. rewrite Z2Nat.id in D by nia.
    (* so distance / sum >= L / sum + 1, hence distance >= L and the next step stops *)
    assert (Q : L / zsum arr + 1 <= ds_distance s / zsum arr) by nia.
    assert (G : L <= ds_distance s).
    { destruct (Z_lt_le_dec (ds_distance s) L) as [C | C]; [|exact C].
      assert (ds_distance s / zsum arr <= L / zsum arr) by (apply Z.div_le_mono; lia). lia. }
    cbn [run_steps]. unfold dash_step. destruct (Z.ltb (ds_distance s) L) eqn:EL; [apply Z.ltb_lt in EL; lia | eauto]. }
  destruct E as (r & E).
  assert (Pos.to_nat fuel = (S M + (Pos.to_nat fuel - S M))%nat) as -> by (unfold M; lia).
  rewrite (run_steps_inr_mono _ _ _ _ _ E). destruct r as [ps added]. discriminate.
Qed.
