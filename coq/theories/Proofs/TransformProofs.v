(* C18: Transform::invert returns only finite matrices (bit-exact model); the formulas of
   concat / invert (all fast paths) are composition / inversion of affine maps (exact rationals). *)
From Coq Require Import ZArith Bool List QArith Qfield Lia SpecFloat.
From Flocq Require Import IEEE754.BinarySingleNaN.
From TS Require Import Base.F32 Model.Rect Model.Transform Model.TransformQ.

(* ---- bit-exact: Some => finite -------------------------------------------------------- *)
Lemma eq_finite x y : F32.eq x y = true -> F32.is_finite y = true -> F32.is_finite x = true.
Proof.
  unfold F32.eq, F32.is_finite, Beqb, SFeqb.
  destruct x as [s|s| |s m e H]; try reflexivity.
  - (* x infinite: equal only to an infinity, which is not finite *)
    destruct y as [s'|s'| |s' m' e' H']; cbn [B2SF SFcompare is_finite]; try discriminate;
      destruct s, s'; discriminate.
  - destruct y; cbn [B2SF SFcompare]; discriminate.
Qed.

Lemma identity_finite t : is_identity t = true -> ts_is_finite t = true.
Proof.
  unfold is_identity, ts_is_finite. rewrite !andb_true_iff.
  intros (((((A & B) & C) & D) & E) & F).
  repeat split; eapply eq_finite; eauto; reflexivity.
Qed.

Lemma some_if_finite (r : ts) t' : (if ts_is_finite r then Some r else None) = Some t' -> ts_is_finite t' = true.
Proof. destruct (ts_is_finite r) eqn:F; [|discriminate]. intros H. injection H as <-. exact F. Qed.

Theorem invert_some_finite t t' : invert t = Some t' -> ts_is_finite t' = true /\ ts_is_finite t = true.
Proof.
  unfold invert, invert_gen.
  destruct (is_identity t) eqn:I.
  - intros H. injection H as <-. split; apply identity_finite, I.
  - destruct (ts_is_finite t) eqn:Fin; [|discriminate]. cbn [andb negb].
    destruct (is_scale_translate t).
    + change (negb true || ?x) with x. intros H. split; [eapply some_if_finite, H | reflexivity].
    + destruct (inv_determinant t); [|discriminate]. intros H. split; [eapply some_if_finite, H | reflexivity].
Qed.

(* the pinned scale/translate route returned Some(inf ... NaN) for a zero scale *)
Definition zero_scale : ts := mkts F32.zero F32.zero F32.zero F32.one F32.zero F32.zero.
Lemma invert_pinned_refuted :
  match invert_pinned zero_scale with Some t' => ts_is_finite t' = false | None => False end.
Proof. vm_compute. reflexivity. Qed.
Lemma invert_zero_scale_none : invert zero_scale = None.
Proof. vm_compute. reflexivity. Qed.

(* ---- ideal: concat is composition, invert is the inverse ------------------------------- *)
Local Open Scope Q_scope.

Definition peq (p q : Q * Q) : Prop := fst p == fst q /\ snd p == snd q.

Theorem concat_is_composition a b p : peq (mapq (concatq a b) p) (mapq a (mapq b p)).
Proof. destruct p as [x y]. unfold peq, mapq, concatq. simpl. split; ring. Qed.

(* the scale+translate fast path computes the same matrix as the general formula *)
Theorem concat_fast_path_agrees a b :
  qkx a == 0 -> qky a == 0 -> qkx b == 0 -> qky b == 0 ->
  forall p, peq (mapq (concatq_fast a b) p) (mapq (concatq a b) p).
Proof.
  intros A1 A2 B1 B2 [x y]. unfold peq, mapq, concatq_fast, concatq. simpl.
  split; rewrite ?A1, ?A2, ?B1, ?B2; ring.
Qed.

(* pre_concat / post_concat order: pre_concat(t, o) = concat(t, o) applies o first *)
Theorem pre_post_concat_order t o p :
  peq (mapq (concatq t o) p) (mapq t (mapq o p)) /\ peq (mapq (concatq o t) p) (mapq o (mapq t p)).
Proof. split; apply concat_is_composition. Qed.

Theorem invert_correct t p : ~ detq t == 0 -> peq (mapq (invq t) (mapq t p)) p /\ peq (mapq t (mapq (invq t) p)) p.
Proof.
  intros D. destruct p as [x y]. unfold peq, mapq, invq, detq in *. cbn [fst snd qsx qkx qky qsy qtx qty].
  repeat split; field; exact D.
Qed.

Theorem invert_fast_correct t p : qkx t == 0 -> qky t == 0 -> ~ qsx t == 0 -> ~ qsy t == 0 ->
  peq (mapq (invq_fast t) (mapq t p)) p.
Proof.
  intros K1 K2 S1 S2. destruct p as [x y]. unfold peq, mapq, invq_fast. simpl.
  split; rewrite ?K1, ?K2; field; auto.
Qed.

(* a singular matrix has no inverse at all: None is the only right answer *)
Theorem singular_not_injective t : detq t == 0 ->
  exists p q, ~ peq p q /\ peq (mapq t p) (mapq t q).
Proof.
  intros D. unfold detq in D.
  (* kernel vector (sy, -ky) or (kx, -sx) or, if the matrix is zero, (1, 0) *)
  destruct (Qeq_dec (qsy t) 0) as [S|S]; destruct (Qeq_dec (qky t) 0) as [K|K].
  - destruct (Qeq_dec (qkx t) 0) as [KX|KX]; destruct (Qeq_dec (qsx t) 0) as [SX|SX].
    + exists (1, 0), (0, 0). split; [intros [A _]; simpl in A; discriminate A|]. unfold peq, mapq. simpl. rewrite SX, K. split; ring.
    + exists (0, 1), (0, 0). split; [intros [_ A]; simpl in A; discriminate A|]. unfold peq, mapq. simpl. rewrite KX, S. split; ring.
    + exists (1, 0), (0, 0). split; [intros [A _]; simpl in A; discriminate A|]. unfold peq, mapq. simpl. rewrite SX, K. split; ring.
    + exists (qkx t, - qsx t), (0, 0). split; [intros [A _]; simpl in A; contradiction|].
      unfold peq, mapq. simpl. rewrite S, K. split; ring.
  - exists (qsy t, - qky t), (0, 0). split; [intros [_ A]; simpl in A; apply K; rewrite <- (Qopp_involutive (qky t)), A; reflexivity|].
    unfold peq, mapq. simpl. split; [|ring]. setoid_replace (qsy t * qsx t + - qky t * qkx t + qtx t) with (qsx t * qsy t - qkx t * qky t + qtx t) by ring. rewrite D. ring.
  - exists (qsy t, - qky t), (0, 0). split; [intros [A _]; simpl in A; contradiction|].
    unfold peq, mapq. simpl. split; [|ring]. setoid_replace (qsy t * qsx t + - qky t * qkx t + qtx t) with (qsx t * qsy t - qkx t * qky t + qtx t) by ring. rewrite D. ring.
  - exists (qsy t, - qky t), (0, 0). split; [intros [A _]; simpl in A; contradiction|].
    unfold peq, mapq. simpl. split; [|ring]. setoid_replace (qsy t * qsx t + - qky t * qkx t + qtx t) with (qsx t * qsy t - qkx t * qky t + qtx t) by ring. rewrite D. ring.
Qed.
