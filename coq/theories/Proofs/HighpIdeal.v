(* The GENERATED high-precision closures, read over exact rationals (Gen/HighpGen.v, the highpq_ definitions),
   are the compositing formulas of Spec/BlendSpecQ.v.  (The float rounding of the f32 version
   is not covered here: it is bounded by the exhaustive sweep and the correspondence.) *)
From Coq Require Import ZArith QArith Qminmax Qfield.
From TS Require Import Gen.HighpGen Spec.BlendSpecQ.
Local Open Scope Q_scope.

Ltac hq := intros; unfold highpq_inv, highpq_two, highpq_mad; ring.

Lemma q_clear s d sa da : highpq_clear s d sa da == F_clear s d sa da.
Proof. unfold highpq_clear, F_clear. reflexivity. Qed.
Lemma q_source_over s d sa da : highpq_source_over s d sa da == F_source_over s d sa da.
Proof. unfold highpq_source_over, F_source_over. hq. Qed.
Lemma q_destination_over s d sa da : highpq_destination_over s d sa da == F_destination_over s d sa da.
Proof. unfold highpq_destination_over, F_destination_over. hq. Qed.
Lemma q_source_in s d sa da : highpq_source_in s d sa da == F_source_in s d sa da.
Proof. unfold highpq_source_in, F_source_in. hq. Qed.
Lemma q_destination_in s d sa da : highpq_destination_in s d sa da == F_destination_in s d sa da.
Proof. unfold highpq_destination_in, F_destination_in. hq. Qed.
Lemma q_source_out s d sa da : highpq_source_out s d sa da == F_source_out s d sa da.
Proof. unfold highpq_source_out, F_source_out. hq. Qed.
Lemma q_destination_out s d sa da : highpq_destination_out s d sa da == F_destination_out s d sa da.
Proof. unfold highpq_destination_out, F_destination_out. hq. Qed.
Lemma q_source_atop s d sa da : highpq_source_atop s d sa da == F_source_atop s d sa da.
Proof. unfold highpq_source_atop, F_source_atop. hq. Qed.
Lemma q_destination_atop s d sa da : highpq_destination_atop s d sa da == F_destination_atop s d sa da.
Proof. unfold highpq_destination_atop, F_destination_atop. hq. Qed.
Lemma q_xor s d sa da : highpq_xor s d sa da == F_xor s d sa da.
Proof. unfold highpq_xor, F_xor. hq. Qed.
Lemma q_modulate s d sa da : highpq_modulate s d sa da == F_modulate s d sa da.
Proof. unfold highpq_modulate, F_modulate. hq. Qed.
Lemma q_screen s d sa da : highpq_screen s d sa da == F_screen s d sa da.
Proof. unfold highpq_screen, F_screen. hq. Qed.
Lemma q_multiply s d sa da : highpq_multiply s d sa da == F_multiply s d sa da.
Proof. unfold highpq_multiply, F_multiply. hq. Qed.
Lemma q_exclusion s d sa da : highpq_exclusion s d sa da == F_exclusion s d sa da.
Proof. unfold highpq_exclusion, F_exclusion. hq. Qed.
Lemma q_plus s d sa da : highpq_plus s d sa da == F_plus s d sa da.
Proof. unfold highpq_plus, F_plus. apply Q.min_compat; reflexivity. Qed.
Lemma q_darken s d sa da : highpq_darken s d sa da == F_darken s d sa da.
Proof. unfold highpq_darken, F_darken. reflexivity. Qed.
Lemma q_lighten s d sa da : highpq_lighten s d sa da == F_lighten s d sa da.
Proof. unfold highpq_lighten, F_lighten. reflexivity. Qed.
Lemma q_difference s d sa da : highpq_difference s d sa da == F_difference s d sa da.
Proof. unfold highpq_difference, F_difference, highpq_two. ring. Qed.
Lemma q_hard_light s d sa da : highpq_hard_light s d sa da == F_hard_light s d sa da.
Proof.
  unfold highpq_hard_light, F_hard_light, highpq_two.
  assert (E : Qle_bool (s + s) sa = Qle_bool (2 * s) sa).
  { destruct (Qle_bool (s + s) sa) eqn:A, (Qle_bool (2 * s) sa) eqn:B; auto.
    - rewrite Qle_bool_iff in A. assert (2 * s <= sa) by (setoid_replace (2 * s) with (s + s) by ring; exact A).
      rewrite <- Qle_bool_iff in H. congruence.
    - rewrite Qle_bool_iff in B. assert (s + s <= sa) by (setoid_replace (s + s) with (2 * s) by ring; exact B).
      rewrite <- Qle_bool_iff in H. congruence. }
  rewrite E. destruct (Qle_bool (2 * s) sa); unfold highpq_inv; ring.
Qed.
Lemma q_overlay s d sa da : highpq_overlay s d sa da == F_overlay s d sa da.
Proof.
  unfold highpq_overlay, F_overlay, highpq_two.
  assert (E : Qle_bool (d + d) da = Qle_bool (2 * d) da).
  { destruct (Qle_bool (d + d) da) eqn:A, (Qle_bool (2 * d) da) eqn:B; auto.
    - rewrite Qle_bool_iff in A. assert (2 * d <= da) by (setoid_replace (2 * d) with (d + d) by ring; exact A).
      rewrite <- Qle_bool_iff in H. congruence.
    - rewrite Qle_bool_iff in B. assert (d + d <= da) by (setoid_replace (d + d) with (2 * d) by ring; exact B).
      rewrite <- Qle_bool_iff in H. congruence. }
  rewrite E. destruct (Qle_bool (2 * d) da); unfold highpq_inv; ring.
Qed.

(* blend_fn2! alpha: mad(da, inv(a), a) is source-over alpha *)
Lemma q_alpha2 sa da : highpq_mad da (highpq_inv sa) sa == sa + da - sa * da.
Proof. hq. Qed.
