(* C02 (curve edges): the line edges a QuadraticEdge walks through tile its rows.  Each sub-segment covers the rows
   round(y_k) .. round(y_k+1) - 1; zero-height sub-segments are skipped; consecutive edges are contiguous
   (first_y of the next = last_y of the previous + 1), have the winding of the quad and non-empty row ranges are never reversed. *)
From Coq Require Import ZArith Bool List Lia.
From TS Require Import Base.F32 Model.Rect Model.PathBuilder Model.Edge Model.CurveEdge.
Import ListNotations.
Local Open Scope Z_scope.

Lemma bind_some' {A B} (o : option A) (f : A -> option B) r : Edge.bind o f = Some r -> exists a, o = Some a /\ f a = Some r.
Proof. destruct o as [a|]; cbn; [intros H; exists a; auto | discriminate]. Qed.

(* the row a 16.16 ordinate rounds to *)
Definition row16 (y : Z) : option Z := fdot6_round (sar y 10).

Lemma line_update_rows w x0 y0 x1 y1 r :
  line_update w x0 y0 x1 y1 = Some r ->
  exists top bottom, row16 y0 = Some top /\ row16 y1 = Some bottom /\
    match r with
    | None => top = bottom
    | Some e => e_first_y e = top /\ e_last_y e = bottom - 1 /\ e_winding e = w /\ top <> bottom
    end.
Proof.
  unfold line_update, row16. intros H. destruct (sar y1 10 <? sar y0 10); [discriminate|].
  apply bind_some' in H. destruct H as (top & Et & H). apply bind_some' in H. destruct H as (bottom & Eb & H).
  exists top, bottom. split; [exact Et|]. split; [exact Eb|].
  destruct (Z.eqb_spec top bottom) as [E | E].
  - injection H as H. subst r. exact E.
  - repeat (apply bind_some' in H; destruct H as (? & ? & H)). injection H as H. subst r. cbn.
    match goal with H : ck (bottom - 1) = Some ?l |- _ => unfold ck in H; destruct (in32 (bottom - 1)); [injection H as H; subst|discriminate] end.
    auto.
Qed.

(* one call of QuadraticEdge::update that yields an edge: it starts at the row of the current point and ends just above the row
   of the point the state moves to; the winding is kept *)
Lemma quad_update_loop_rows fuel : forall q count oldx oldy dx dy q' e,
  quad_update_loop fuel q count oldx oldy dx dy = Some (q', Some e) ->
  row16 oldy = Some (e_first_y e) /\ row16 (q_y q') = Some (e_last_y e + 1) /\ e_winding e = q_wind q /\ q_wind q' = q_wind q /\
  e_first_y e <> e_last_y e + 1 /\
  q_shift q' = q_shift q /\ q_ddx q' = q_ddx q /\ q_ddy q' = q_ddy q /\ q_lastx q' = q_lastx q /\ q_lasty q' = q_lasty q.
Proof.
  induction fuel as [|n IH]; intros q count oldx oldy dx dy q' e H; cbn [quad_update_loop] in H; [discriminate|].
  apply bind_some' in H. destruct H as (nxt & Enxt & H). destruct nxt as (((newx, newy), dx'), dy').
  apply bind_some' in H. destruct H as (r & Er & H).
  destruct (line_update_rows _ _ _ _ _ _ Er) as (top & bottom & Rt & Rb & Hr).
  destruct r as [e0|].
  - injection H as H1 H2. subst q' e0. cbn [q_y q_wind q_shift q_ddx q_ddy q_lastx q_lasty]. destruct Hr as (F & L & W & NE).
    rewrite F, L. replace (bottom - 1 + 1) with bottom by lia. repeat split; try assumption; try reflexivity; try lia.
  - destruct (count - 1 =? 0); [discriminate|].
    destruct (IH _ _ _ _ _ _ _ _ H) as (A & B & C). rewrite Rt, Hr, <- Rb. auto.
Qed.

Lemma quad_update_rows q q' e :
  quad_update q = Some (q', Some e) ->
  row16 (q_y q) = Some (e_first_y e) /\ row16 (q_y q') = Some (e_last_y e + 1) /\ e_winding e = q_wind q /\ q_wind q' = q_wind q /\
  e_first_y e <> e_last_y e + 1.
Proof.
  unfold quad_update. destruct (q_count q <=? 0); [discriminate|]. intros H.
  destruct (quad_update_loop_rows _ _ _ _ _ _ _ _ _ H) as (A & B & C & D & E & _). auto.
Qed.

(* consecutive edges are contiguous and share the winding *)
Fixpoint chained (w : Z) (first : Z) (ls : list ledge) : Prop :=
  match ls with
  | [] => True
  | e :: rest => e_first_y e = first /\ e_winding e = w /\ e_first_y e <> e_last_y e + 1 /\ chained w (e_last_y e + 1) rest
  end.

Lemma quad_lines_loop_chained fuel : forall q ls r0,
  quad_lines_loop fuel q = Some ls -> row16 (q_y q) = Some r0 -> chained (q_wind q) r0 ls.
Proof.
  induction fuel as [|n IH]; intros q ls r0 H R; cbn [quad_lines_loop] in H; [discriminate|].
  destruct (q_count q <=? 0); [injection H as H; subst ls; exact I|].
  apply bind_some' in H. destruct H as (r & Er & H). destruct r as (q', oe). cbn [fst snd] in H.
  destruct oe as [e|]; [|injection H as H; subst ls; exact I].
  apply bind_some' in H. destruct H as (rest & Erest & H). injection H as H. subst ls.
  destruct (quad_update_rows _ _ _ Er) as (A & B & C & D & E).
  cbn [chained]. rewrite R in A. injection A as A. split; [auto|]. split; [exact C|]. split; [exact E|].
  rewrite <- D. eapply IH; eassumption.
Qed.

Lemma quad_new2_wind p0 p1 p2 sh q : quad_new2 p0 p1 p2 sh = Some (Some q) -> q_wind q = 1 \/ q_wind q = -1.
Proof.
  unfold quad_new2. cbv zeta. intros E0.
  destruct (_ <? _) in E0; cbv beta iota in E0;
    repeat (first [ apply bind_some' in E0; destruct E0 as (? & ? & E0)
                  | match type of E0 with (if ?c then _ else _) = _ => destruct c; try discriminate end ]);
    injection E0 as E0; subst q; cbn [q_wind]; auto.
Qed.

(* THE statement: the line edges of a quadratic edge tile a contiguous range of rows, top to bottom, with one winding *)
Theorem quad_edge_lines_chained p0 p1 p2 sh ls :
  quad_edge_lines p0 p1 p2 sh = Some ls ->
  match ls with
  | [] => True
  | e :: _ => exists w, (w = 1 \/ w = -1) /\ chained w (e_first_y e) ls
  end.
Proof.
  unfold quad_edge_lines. intros H. apply bind_some' in H. destruct H as (q0 & E0 & H).
  destruct q0 as [q|]; [|injection H as H; subst ls; exact I].
  apply bind_some' in H. destruct H as (r & Er & H). destruct r as (q', oe). cbn [fst snd] in H.
  destruct oe as [e|]; [|injection H as H; subst ls; exact I].
  apply bind_some' in H. destruct H as (rest & Erest & H). injection H as H. subst ls.
  destruct (quad_update_rows _ _ _ Er) as (A & B & C & D & E).
  exists (q_wind q). split.
  - exact (quad_new2_wind _ _ _ _ _ E0).
  - cbn [chained]. split; [reflexivity|]. split; [exact C|]. split; [exact E|].
    rewrite <- D. eapply quad_lines_loop_chained; eassumption.
Qed.

(* ---- CubicEdge: the same tiling ------------------------------------------------------------------------------------------------------ *)
Lemma cubic_update_loop_rows fuel : forall c count oldx oldy c' e,
  cubic_update_loop fuel c count oldx oldy = Some (c', Some e) ->
  row16 oldy = Some (e_first_y e) /\ row16 (c_y c') = Some (e_last_y e + 1) /\ e_winding e = c_wind c /\ c_wind c' = c_wind c /\
  e_first_y e <> e_last_y e + 1.
Proof.
  induction fuel as [|n IH]; intros c count oldx oldy c' e H; cbn [cubic_update_loop] in H; [discriminate|].
  apply bind_some' in H. destruct H as (nxt & Enxt & H). destruct nxt as (((((newx, newy0), dx), dy), ddx), ddy).
  apply bind_some' in H. destruct H as (r & Er & H).
  destruct (line_update_rows _ _ _ _ _ _ Er) as (top & bottom & Rt & Rb & Hr).
  destruct r as [e0|].
  - injection H as H1 H2. subst c' e0. cbn [c_y c_wind]. destruct Hr as (F & L & W & NE).
    rewrite F, L. replace (bottom - 1 + 1) with bottom by lia. repeat split; try assumption; try reflexivity; try lia.
  - destruct (count + 1 =? 0); [discriminate|].
    destruct (IH _ _ _ _ _ _ H) as (A & B & C & D & E). cbn [c_wind] in C, D. rewrite Rt, Hr, <- Rb. auto.
Qed.

Lemma cubic_update_rows c c' e :
  cubic_update c = Some (c', Some e) ->
  row16 (c_y c) = Some (e_first_y e) /\ row16 (c_y c') = Some (e_last_y e + 1) /\ e_winding e = c_wind c /\ c_wind c' = c_wind c /\
  e_first_y e <> e_last_y e + 1.
Proof. unfold cubic_update. destruct (0 <=? c_count c); [discriminate|]. apply cubic_update_loop_rows. Qed.

Lemma cubic_lines_loop_chained fuel : forall c ls r0,
  cubic_lines_loop fuel c = Some ls -> row16 (c_y c) = Some r0 -> chained (c_wind c) r0 ls.
Proof.
  induction fuel as [|n IH]; intros c ls r0 H R; cbn [cubic_lines_loop] in H; [discriminate|].
  destruct (0 <=? c_count c); [injection H as H; subst ls; exact I|].
  apply bind_some' in H. destruct H as (r & Er & H). destruct r as (c', oe). cbn [fst snd] in H.
  destruct oe as [e|]; [|injection H as H; subst ls; exact I].
  apply bind_some' in H. destruct H as (rest & Erest & H). injection H as H. subst ls.
  destruct (cubic_update_rows _ _ _ Er) as (A & B & C & D & E).
  cbn [chained]. rewrite R in A. injection A as A. split; [auto|]. split; [exact C|]. split; [exact E|].
  rewrite <- D. eapply IH; eassumption.
Qed.

Lemma cubic_new2_wind p0 p1 p2 p3 sh c : cubic_new2 p0 p1 p2 p3 sh = Some (Some c) -> c_wind c = 1 \/ c_wind c = -1.
Proof.
  unfold cubic_new2. cbv zeta. intros E0.
  destruct (_ <? _) in E0; cbv beta iota in E0;
    repeat (first [ apply bind_some' in E0; destruct E0 as (? & ? & E0)
                  | match type of E0 with context [match ?x with pair _ _ => _ end] => is_var x; destruct x end
                  | match type of E0 with context [if ?c then _ else _] => destruct c; try discriminate end ]);
    cbv beta iota in E0; injection E0 as E0; subst c; cbn [c_wind]; auto.
Qed.

Theorem cubic_edge_lines_chained p0 p1 p2 p3 sh ls :
  cubic_edge_lines p0 p1 p2 p3 sh = Some ls ->
  match ls with
  | [] => True
  | e :: _ => exists w, (w = 1 \/ w = -1) /\ chained w (e_first_y e) ls
  end.
Proof.
  unfold cubic_edge_lines. intros H. apply bind_some' in H. destruct H as (c0 & E0 & H).
  destruct c0 as [c|]; [|injection H as H; subst ls; exact I].
  apply bind_some' in H. destruct H as (r & Er & H). destruct r as (c', oe). cbn [fst snd] in H.
  destruct oe as [e|]; [|injection H as H; subst ls; exact I].
  apply bind_some' in H. destruct H as (rest & Erest & H). injection H as H. subst ls.
  destruct (cubic_update_rows _ _ _ Er) as (A & B & C & D & E).
  exists (c_wind c). split; [exact (cubic_new2_wind _ _ _ _ _ _ E0)|].
  cbn [chained]. split; [reflexivity|]. split; [exact C|]. split; [exact E|].
  rewrite <- D. eapply cubic_lines_loop_chained; eassumption.
Qed.
