(* C16 "repeat wraps": with a whole-pixel translation the nearest sampler under SpreadMode::Repeat reads source pixel
   ((c - tx) mod w, (r - ty) mod h), in bit-exact binary32: the tiling stage v - floor(v * (1/w)) * w is exact on pixel
   centres although 1/w is rounded, because a pixel centre is at least 1/(2w) away from a multiple of w and the error of
   v * rnd(1/w) is below that for |v| < 2^21. *)
From Coq Require Import ZArith Bool List Lia Reals Lra.
From Flocq Require Import Core.Zaux Core.Raux Core.Defs Core.Generic_fmt Core.FLT Core.FIX Core.Float_prop IEEE754.BinarySingleNaN.
From TS Require Import Base.F32 Base.Wide Model.Rect Model.WideBackends Model.Sampler Model.Nearest
  Proofs.RectPoints Proofs.SamplerProofs Proofs.WideProofs Proofs.NearestCopy Proofs.LineClipFinite Proofs.HighpError.
Import ListNotations.
Local Open Scope Z_scope.

Lemma val_sub x y n m : val x n -> val y m -> Z.abs (n - m) < 16777216 -> val (F32.sub x y) (n - m).
Proof.
  intros (Fx & Rx) (Fy & Ry) H. unfold val, F32.sub.
  pose proof (Bminus_correct 24 128 eq_refl eq_refl mode_NE x y Fx Fy) as C.
  assert (E : (R32 x - R32 y = IZR (n - m) / 2)%R) by (rewrite Rx, Ry, minus_IZR; lra).
  rewrite E in C. rewrite rnd_half in C by exact H. rewrite (Rlt_bool_true _ _ (half_lt_emax _ H)) in C.
  destruct C as (C1 & C2 & _). split; [exact C2 | exact C1].
Qed.

Lemma Ztrunc_abs_le r : (Rabs (IZR (Ztrunc r)) <= Rabs r)%R.
Proof.
  unfold Ztrunc. destruct (Rlt_bool_spec r 0) as [N | P].
  - pose proof (Zceil_ub r). pose proof (Zceil_lb r).
    assert (IZR (Zceil r) <= 0)%R by (change 0%R with (IZR 0); apply IZR_le; apply Zceil_glb; simpl; lra).
    rewrite !Rabs_left1 by lra. lra.
  - pose proof (Zfloor_lb r). assert (0 <= IZR (Zfloor r))%R by (change 0%R with (IZR 0); apply IZR_le; apply Zfloor_lub; simpl; lra).
    rewrite !Rabs_pos_eq by lra. lra.
Qed.

Lemma Btrunc_Ztrunc x : Btrunc x = Ztrunc (R32 x).
Proof.
  apply eq_IZR. rewrite Btrunc_correct by exact prec32_lt_emax.
  unfold round, F2R, scaled_mantissa, cexp, FIX_exp. cbn [Fnum Fexp bpow Z.opp]. rewrite !Rmult_1_r. reflexivity.
Qed.

Lemma trunc_int4_val b x : fin x -> (Rabs (R32 x) < 1073741824)%R -> trunc_int4 b x = Ztrunc (R32 x).
Proof.
  intros F B.
  assert (T : Z.abs (Ztrunc (R32 x)) < 1073741824).
  { apply lt_IZR. rewrite abs_IZR. eapply Rle_lt_trans; [apply Ztrunc_abs_le | exact B]. }
  assert (Rg : in_i32_range x).
  { destruct x as [s | s | | s m e H]; try discriminate F; cbn [in_i32_range]; [exact I|]. rewrite Btrunc_Ztrunc. lia. }
  assert (C : cvtt x = Ztrunc (R32 x)).
  { destruct x as [s | s | | s m e H]; try discriminate F.
    - cbn [cvtt]. change (R32 (B754_zero s)) with 0%R. change 0%R with (IZR 0). rewrite Ztrunc_IZR. reflexivity.
    - unfold cvtt. rewrite Btrunc_Ztrunc.
      destruct (Z.ltb_spec (Ztrunc (R32 (B754_finite s m e H))) (-2147483648)); [lia|].
      destruct (Z.ltb_spec 2147483647 (Ztrunc (R32 (B754_finite s m e H)))); [lia|]. reflexivity. }
  unfold trunc_int4. destruct (b4 b); try exact C. rewrite (to_i32_in_range x Rg). exact C.
Qed.

(* floor of a finite value below 2^22: exact, on every backend *)
Lemma floor4_val b x : fin x -> (Rabs (R32 x) < 4194304)%R -> val (floor4 b x) (2 * Zfloor (R32 x)).
Proof.
  intros F B. unfold floor4, i32_to_f32. rewrite (trunc_int4_val b x F) by lra.
  set (r := R32 x) in *. set (t := Ztrunc r).
  assert (T : Z.abs t < 4194304).
  { apply lt_IZR. rewrite abs_IZR. eapply Rle_lt_trans; [apply Ztrunc_abs_le | exact B]. }
  pose proof (val_of_Z t ltac:(lia)) as Vt. pose proof Vt as (Ft & Rt).
  unfold cmp_gt4, F32.lt. rewrite Bltb_correct by assumption. fold r. rewrite Rt.
  replace (IZR (2 * t) / 2)%R with (IZR t) by (rewrite mult_IZR; lra).
  pose proof (Zfloor_lb r) as FL. pose proof (Zfloor_ub r) as FU. pose proof (Zceil_ub r) as CU. pose proof (Zceil_lb r) as CL.
  destruct (Rlt_bool_spec r (IZR t)) as [Lt | Ge].
  - (* t = ceil > r: floor = t - 1 *)
    assert (E : Zfloor r = t - 1).
    { apply Zfloor_imp. rewrite plus_IZR, !minus_IZR. simpl (IZR 1).
      assert (t = Zceil r).
      { unfold t, Ztrunc. destruct (Rlt_bool_spec r 0); [reflexivity|]. exfalso. unfold t, Ztrunc in Lt. rewrite Rlt_bool_false in Lt by lra. lra. }
      rewrite H in *. lra. }
    rewrite E. replace (2 * (t - 1)) with (2 * t - 2) by lia. apply val_sub; [exact Vt | exact val_one | lia].
  - assert (E : Zfloor r = t).
    { unfold t in *. unfold Ztrunc in *. destruct (Rlt_bool_spec r 0) as [N | P]; [|reflexivity].
      assert (r = IZR (Zceil r)) by lra. rewrite H at 1. apply Zfloor_IZR. }
    rewrite E. replace (2 * t) with (2 * t - 0) by lia. apply val_sub; [exact Vt | exact val_zero | lia].
Qed.

From TS Require Import Proofs.LerpMono.
Local Open Scope R_scope.

(* the product of a pixel centre with the rounded reciprocal of the size: within 1/(2w) of the exact quotient *)
Lemma centre_times_inv v i w :
  (1 <= w <= 16384)%Z -> (Z.abs i < 2097152)%Z -> val v (2 * i + 1) ->
  let inv := F32.div F32.one (F32.of_Z w) in
  fin (F32.mul v inv) /\ Rabs (R32 (F32.mul v inv) - (IZR (2 * i + 1) / 2) / IZR w) < / IZR w / 2.
Proof.
  intros Hw Hi (Fv & Rv) inv.
  pose proof (val_of_Z w ltac:(lia)) as (Fw & Rw). replace (IZR (2 * w) / 2) with (IZR w) in Rw by (rewrite mult_IZR; lra).
  assert (W1 : 1 <= IZR w) by (apply IZR_le; lia). assert (W2 : IZR w <= 16384) by (apply IZR_le; lia).
  set (W := IZR w) in *. set (iw := / W).
  assert (IW : 0 < iw <= 1) by (unfold iw; split; [apply Rinv_0_lt_compat; lra | rewrite <- Rinv_1; apply Rinv_le_contravar; lra]).
  assert (IWlo : / 16384 <= iw) by (unfold iw; apply Rinv_le_contravar; lra).
  (* inv = rnd (1 / W) *)
  assert (Finv : fin inv /\ R32 inv = rnd32 iw).
  { pose proof (Bdiv_correct 24 128 eq_refl eq_refl mode_NE F32.one (F32.of_Z w)) as C.
    rewrite Rw, R_one in C. specialize (C ltac:(lra)). replace (1 / W) with iw in C by (unfold iw; lra).
    assert (B : Rabs (rnd32 iw) < bpow radix2 128).
    { eapply Rle_lt_trans; [apply rnd32_abs_le1; rewrite Rabs_pos_eq; lra|]. change 1 with (bpow radix2 0). apply bpow_lt. lia. }
    rewrite (Rlt_bool_true _ _ B) in C. destruct C as (C1 & C2 & _). split; [exact C2 | exact C1]. }
  destruct Finv as (Finv & Rinv).
  pose proof (rnd_err iw) as D1. rewrite <- Rinv in D1. rewrite (Rabs_pos_eq iw) in D1 by lra.
  set (V := IZR (2 * i + 1) / 2) in *.
  assert (A : Rabs V <= 2097151.5).
  { unfold V. unfold Rdiv. rewrite Rabs_mult, (Rabs_pos_eq (/ 2)) by lra. rewrite <- abs_IZR.
    assert (IZR (Z.abs (2 * i + 1)) <= IZR 4194303) by (apply IZR_le; lia). lra. }
  set (a := Rabs V) in *. assert (A0 : 0 <= a) by apply Rabs_pos.
  assert (U : u = / 16777216) by apply u_val.
  assert (E : 0 <= eta0 <= iw * / 1000000000000000000000000000000).
  { rewrite eta0_val. split; [lra|]. lra. }
  set (e := eta0) in *.
  assert (Binv : Rabs (R32 inv) <= iw + (u * iw + e)).
  { replace (R32 inv) with (iw + (R32 inv - iw)) by ring. eapply Rle_trans; [apply Rabs_triang|]. rewrite (Rabs_pos_eq iw) by lra. lra. }
  (* the product *)
  assert (X : Rabs (V * R32 inv) <= bpow radix2 100).
  { rewrite Rabs_mult. fold a. rewrite pow100.
    assert (Rabs (R32 inv) <= 2) by (rewrite U in Binv; lra).
    assert (a * Rabs (R32 inv) <= 2097151.5 * 2) by (apply Rmult_le_compat; [lra | apply Rabs_pos | lra | lra]). lra. }
  pose proof (Bmult_correct 24 128 eq_refl eq_refl mode_NE v inv) as C. rewrite Rv in C. fold V in C.
  rewrite (Rlt_bool_true _ _ (lt_emax_of_le100 _ X)) in C. destruct C as (C1 & C2 & _).
  unfold fin, F32.is_finite in *. rewrite Fv, Finv in C2. split; [exact C2|].
  assert (C1' : R32 (F32.mul v inv) = rnd32 (V * R32 inv)) by exact C1. rewrite C1'.
  pose proof (rnd_err (V * R32 inv)) as D2. rewrite Rabs_mult in D2. fold a in D2. fold e in D2.
  replace (rnd32 (V * R32 inv) - V / W) with ((rnd32 (V * R32 inv) - V * R32 inv) + V * (R32 inv - iw)) by (unfold iw; field; lra).
  eapply Rle_lt_trans; [apply Rabs_triang|]. rewrite (Rabs_mult V). fold a.
  (* bound every product by a multiple of iw *)
  assert (P1 : a * Rabs (R32 inv - iw) <= a * (u * iw + e)) by (apply Rmult_le_compat_l; lra).
  assert (P2 : a * Rabs (R32 inv) <= a * (iw + (u * iw + e))) by (apply Rmult_le_compat_l; lra).
  assert (S1 : a * iw <= 2097151.5 * iw) by (apply Rmult_le_compat_r; lra).
  assert (S2 : a * e <= 2097151.5 * (iw * / 1000000000000000000000000000000)) by (apply Rmult_le_compat; lra).
  assert (Hu : 0 <= u) by lra.
  assert (P3 : u * (a * Rabs (R32 inv)) <= u * (a * (iw + (u * iw + e)))) by (apply Rmult_le_compat_l; lra).
  replace (a * (iw + (u * iw + e))) with (a * iw + u * (a * iw) + a * e) in P3 by ring.
  replace (a * (u * iw + e)) with (u * (a * iw) + a * e) in P1 by ring.
  rewrite U in *. unfold iw in *. lra.
Qed.

(* the tiling stage on a pixel centre: exactly (i mod w) + 1/2 *)
Lemma excl_repeat_centre b v i w :
  (1 <= w <= 16384)%Z -> (Z.abs i < 2097152)%Z -> val v (2 * i + 1) ->
  val (excl_repeat b v (F32.of_Z w) (F32.div F32.one (F32.of_Z w))) (2 * (i mod w) + 1).
Proof.
  intros Hw Hi Hv. destruct (centre_times_inv v i w Hw Hi Hv) as (Fp & Ep). cbv zeta in Ep.
  set (p := F32.mul v (F32.div F32.one (F32.of_Z w))) in *.
  assert (W1 : 1 <= IZR w) by (apply IZR_le; lia). assert (W2 : IZR w <= 16384) by (apply IZR_le; lia).
  set (W := IZR w) in *.
  pose proof (Z.div_mod i w ltac:(lia)) as DM. pose proof (Z.mod_pos_bound i w ltac:(lia)) as MB.
  set (q := (i / w)%Z) in *. set (r := (i mod w)%Z) in *.
  (* the exact quotient lies between q + 1/(2w) and q + 1 - 1/(2w) *)
  assert (IW : 0 < / W) by (apply Rinv_0_lt_compat; lra).
  assert (Q : IZR (2 * i + 1) / 2 / W = IZR q + (IZR r + / 2) * / W).
  { rewrite DM. rewrite plus_IZR, mult_IZR, plus_IZR, mult_IZR. fold W. field. lra. }
  assert (R0 : 0 <= IZR r) by (apply IZR_le; lia).
  assert (R1 : IZR r + 1 <= W) by (unfold W; rewrite <- (plus_IZR r 1); apply IZR_le; lia).
  assert (Lo : IZR q + / 2 * / W <= IZR (2 * i + 1) / 2 / W).
  { rewrite Q. assert (0 <= IZR r * / W) by (apply Rmult_le_pos; lra). lra. }
  assert (Hi' : IZR (2 * i + 1) / 2 / W <= IZR q + 1 - / 2 * / W).
  { rewrite Q. assert ((IZR r + 1) * / W <= W * / W) by (apply Rmult_le_compat_r; lra). rewrite Rinv_r in H by lra. lra. }
  apply Rabs_lt_inv in Ep. 
  assert (Fl : Zfloor (R32 p) = q).
  { apply Zfloor_imp. rewrite plus_IZR. simpl (IZR 1). lra. }
  assert (Bq : (Z.abs q <= 2097152)%Z).
  { assert (Z.abs q <= Z.abs i)%Z; [|lia]. unfold q. 
    destruct (Z_le_gt_dec 0 i) as [P | N].
    - rewrite !Z.abs_eq by (try apply Z.div_pos; lia). apply Z.div_le_upper_bound; nia.
    - assert (i / w < 0)%Z by (apply Z.div_lt_upper_bound; lia). assert (i <= i / w)%Z; [|lia].
      apply Z.div_le_lower_bound; nia. }
  assert (Bp : Rabs (R32 p) < 4194304).
  { apply Rabs_lt. assert (-2097152 <= IZR q <= 2097152) by (split; [change (-2097152) with (IZR (-2097152)) | change 2097152 with (IZR 2097152)]; apply IZR_le; lia).
    assert (/ W <= 1) by (rewrite <- Rinv_1; apply Rinv_le_contravar; lra). lra. }
  pose proof (floor4_val b p Fp Bp) as Vf. rewrite Fl in Vf.
  pose proof (val_of_Z w ltac:(lia)) as Vw.
  assert (Bqw : (Z.abs (q * w) < 4194304)%Z) by nia.
  pose proof (val_mul _ _ (2 * q) (2 * w) (2 * (q * w)) Vf Vw ltac:(lia) ltac:(lia)) as Vm.
  unfold excl_repeat. fold p.
  replace (2 * r + 1)%Z with ((2 * i + 1) - 2 * (q * w))%Z by lia.
  apply val_sub; [exact Hv | exact Vm | lia].
Qed.

Local Open Scope Z_scope.
(* THE repeat statement *)
Theorem nearest_translate_repeat b w h tx ty dx lane dy :
  1 <= w <= 16384 -> 1 <= h <= 16384 -> Z.abs tx < 1000000 -> Z.abs ty < 1000000 ->
  0 <= dx < 1000000 -> 0 <= lane <= 7 -> 0 <= dy < 1000000 ->
  nearest_ix b 2 w h (F32.of_Z tx) (F32.of_Z ty) dx lane dy = ((dy - ty) mod h) * w + ((dx + lane - tx) mod w).
Proof.
  intros Hw Hh Htx Hty Hdx Hl Hdy. unfold nearest_ix.
  pose proof (val_of_Z tx ltac:(lia)) as Vtx. pose proof (val_of_Z ty ltac:(lia)) as Vty.
  pose proof (val_seed_x dx lane ltac:(lia) Hl) as Vx. pose proof (val_seed_y dy ltac:(lia)) as Vy.
  rewrite (eq_zero_val _ _ Vtx), (eq_zero_val _ _ Vty).
  assert (G : forall x y, val x (2 * (dx + lane - tx) + 1) -> val y (2 * (dy - ty) + 1) ->
              gather_ix (excl_repeat b x (F32.of_Z w) (F32.div F32.one (F32.of_Z w)))
                        (excl_repeat b y (F32.of_Z h) (F32.div F32.one (F32.of_Z h))) w h
              = ((dy - ty) mod h) * w + ((dx + lane - tx) mod w)).
  { intros x y Ax Ay. unfold gather_ix.
    pose proof (excl_repeat_centre b x (dx + lane - tx) w Hw ltac:(lia) Ax) as Rx.
    pose proof (excl_repeat_centre b y (dy - ty) h Hh ltac:(lia) Ay) as Ry.
    rewrite (gather_coord_centre _ _ w Hw (Z.mod_pos_bound _ w ltac:(lia)) Rx), (gather_coord_centre _ _ h Hh (Z.mod_pos_bound _ h ltac:(lia)) Ry). reflexivity. }
  destruct ((2 * tx =? 0) && (2 * ty =? 0)) eqn:Z0.
  - apply andb_true_iff in Z0. destruct Z0 as (Z1 & Z2). apply Z.eqb_eq in Z1, Z2.
    replace (dx + lane - tx) with (dx + lane) in * by lia. replace (dy - ty) with dy in * by lia. apply G; assumption.
  - unfold stage_transform, inv_translate. cbn [t_sx t_ky t_kx t_sy t_tx t_ty].
    pose proof (val_neg _ _ Vtx) as Ntx. pose proof (val_neg _ _ Vty) as Nty.
    apply G.
    + pose proof (val_mad (seed_y dy) F32.zero (F32.neg (F32.of_Z tx)) (2 * dy + 1) 0 (- (2 * tx)) Vy val_zero Ntx ltac:(lia) ltac:(lia)) as M1.
      pose proof (val_mad (seed_x dx lane) F32.one _ (2 * (dx + lane) + 1) 1 _ Vx val_one M1 ltac:(lia) ltac:(lia)) as M2.
      replace (2 * (dx + lane - tx) + 1) with ((2 * (dx + lane) + 1) * 1 + ((2 * dy + 1) * 0 + - (2 * tx))) by lia. exact M2.
    + pose proof (val_mad (seed_y dy) F32.one (F32.neg (F32.of_Z ty)) (2 * dy + 1) 1 (- (2 * ty)) Vy val_one Nty ltac:(lia) ltac:(lia)) as M1.
      pose proof (val_mad (seed_x dx lane) F32.zero _ (2 * (dx + lane) + 1) 0 _ Vx val_zero M1 ltac:(lia) ltac:(lia)) as M2.
      replace (2 * (dy - ty) + 1) with ((2 * (dx + lane) + 1) * 0 + ((2 * dy + 1) * 1 + - (2 * ty))) by lia. exact M2.
Qed.
