(* shard 5 of the finite checks of Proofs/PngProofs.v: alpha in [160, 192) *)
From Coq Require Import ZArith Bool List.
From TS Require Import Base.F32 Model.Pixel Model.Png Proofs.PngDefs.
Local Open Scope Z_scope.
Lemma png_shard5_ok : forallb alpha_ok (zrange 160 32) = true.
Proof. vm_compute. reflexivity. Qed.
