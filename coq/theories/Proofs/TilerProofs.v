(* DrawTiler: the tiles are the row-major grid of 8191-pixel cells clipped to the image: every pixel lies in exactly
   one tile, every tile is inside the image and at most 8191 pixels wide and high. *)
From Coq Require Import ZArith Bool List Lia.
From TS Require Import Model.Tiler.
Import ListNotations.
Local Open Scope Z_scope.

Definition M := max_dim.
(* number of cells along an extent n >= 1 *)
Definition cellsZ (n : Z) : Z := (n + M - 1) / M.

Lemma cells_spec n i : 1 <= n -> 0 <= i -> (i < cellsZ n <-> i * M < n).
Proof.
  intros Hn Hi. unfold cellsZ, M, max_dim. split; intros H.
  - assert (i + 1 <= (n + 8191 - 1) / 8191) by lia.
    assert (8191 * ((n + 8191 - 1) / 8191) <= n + 8191 - 1) by (apply Z.mul_div_le; lia). lia.
  - assert (i + 1 <= (n + 8191 - 1) / 8191) by (apply Z.div_le_lower_bound; lia). lia.
Qed.
Lemma cells_pos n : 1 <= n -> 1 <= cellsZ n.
Proof. intros H. pose proof (proj2 (cells_spec n 0 H ltac:(lia)) ltac:(lia)). lia. Qed.

Section Grid.
  Variables (w h : Z).
  Hypothesis Hw : 1 <= w.
  Hypothesis Hh : 1 <= h.
  Let nx := cellsZ w.
  Let ny := cellsZ h.

  Definition tile_k (k : Z) : Z * Z * Z * Z :=
    let i := k mod nx in let j := k / nx in
    (i * M, j * M, Z.min (w - i * M) M, Z.min (h - j * M) M).
  Definition state_k (k : Z) : Z * Z := ((k mod nx) * M, (k / nx) * M).

  Lemma nx_pos : 1 <= nx. Proof. apply cells_pos; assumption. Qed.
  Lemma ny_pos : 1 <= ny. Proof. apply cells_pos; assumption. Qed.

  Lemma next_k k : 0 <= k < nx * ny -> tiler_next w h (state_k k) = Some (tile_k k, state_k (k + 1)).
  Proof.
    intros Hk. pose proof nx_pos as Hnx. unfold state_k, tile_k, tiler_next.
    pose proof (Z.mod_pos_bound k nx ltac:(lia)) as Hm. pose proof (Z.div_mod k nx ltac:(lia)) as Hdm.
    set (i := k mod nx) in *. set (j := k / nx) in *.
    assert (Hj : 0 <= j < ny) by (split; [apply Z.div_pos; lia | apply Z.div_lt_upper_bound; lia]).
    pose proof (proj1 (cells_spec w i Hw ltac:(lia)) ltac:(fold nx; lia)) as Hiw.
    pose proof (proj1 (cells_spec h j Hh ltac:(lia)) ltac:(fold ny; lia)) as Hjh.
    destruct (Z.ltb_spec (i * M) w); [|lia]. destruct (Z.ltb_spec (j * M) h); [|lia]. cbn [andb].
    f_equal. f_equal.
    destruct (Z_lt_le_dec (i + 1) nx) as [L | L].
    - (* same row *)
      assert (E1 : (k + 1) mod nx = i + 1) by (symmetry; apply (Z.mod_unique_pos (k + 1) nx j (i + 1)); lia).
      assert (E2 : (k + 1) / nx = j) by (symmetry; apply (Z.div_unique_pos (k + 1) nx j (i + 1)); lia).
      rewrite E1, E2.
      pose proof (proj1 (cells_spec w (i + 1) Hw ltac:(lia)) ltac:(fold nx; lia)).
      destruct (Z.leb_spec w (i * M + max_dim)); [unfold M in *; lia|]. f_equal. unfold M. lia.
    - (* wrap to the next row *)
      assert (E1 : (k + 1) mod nx = 0) by (symmetry; apply (Z.mod_unique_pos (k + 1) nx (j + 1) 0); lia).
      assert (E2 : (k + 1) / nx = j + 1) by (symmetry; apply (Z.div_unique_pos (k + 1) nx (j + 1) 0); lia).
      rewrite E1, E2.
      assert (~ (i + 1) * M < w) by (intros C; apply (cells_spec w (i + 1) Hw ltac:(lia)) in C; fold nx in C; lia).
      destruct (Z.leb_spec w (i * M + max_dim)); [|unfold M in *; lia]. f_equal; unfold M; lia.
  Qed.

  Lemma done_k : tiler_next w h (state_k (nx * ny)) = None.
  Proof.
    pose proof nx_pos as Hnx. unfold state_k, tiler_next.
    rewrite (Z.mul_comm nx ny), Z.mod_mul, Z.div_mul by lia.
    assert (~ ny * M < h) by (intros C; apply (cells_spec h ny Hh ltac:(pose proof ny_pos; lia)) in C; fold ny in C; lia).
    destruct (Z.ltb_spec (0 * M) w); [|lia]. destruct (Z.ltb_spec (ny * M) h); [lia|]. reflexivity.
  Qed.

  Lemma run_k : forall n k extra, 0 <= k -> k + Z.of_nat n <= nx * ny ->
    tiler_run (n + extra) w h (state_k k) =
    map (fun t => tile_k (k + Z.of_nat t)) (seq 0 n) ++ tiler_run extra w h (state_k (k + Z.of_nat n)).
  Proof.
    induction n as [|n IH]; intros k extra Hk Hn.
    - cbn [seq map app Nat.add]. now rewrite Z.add_0_r.
    - cbn [Nat.add tiler_run]. rewrite (next_k k) by lia. cbn [seq map app]. rewrite Z.add_0_r. f_equal.
      rewrite (IH (k + 1) extra) by lia. f_equal.
      + rewrite <- seq_shift, map_map. apply map_ext. intros t. f_equal. lia.
      + f_equal. f_equal. lia.
  Qed.

  (* the whole tile list *)
  Theorem tiles_are_grid : tiles w h = map (fun t => tile_k (Z.of_nat t)) (seq 0 (Z.to_nat (nx * ny))).
  Proof.
    pose proof nx_pos. pose proof ny_pos. unfold tiles.
    set (N := Z.to_nat (nx * ny)).
    assert (HN : (N < Z.to_nat ((w / max_dim + 1) * (h / max_dim + 1) + 1))%nat).
    { unfold N. assert (nx <= w / max_dim + 1 /\ ny <= h / max_dim + 1).
      { unfold nx, ny, cellsZ, M, max_dim. split.
        - replace (w + 8191 - 1) with (w - 1 + 1 * 8191) by lia. rewrite Z.div_add by lia.
          assert ((w - 1) / 8191 <= w / 8191) by (apply Z.div_le_mono; lia). lia.
        - replace (h + 8191 - 1) with (h - 1 + 1 * 8191) by lia. rewrite Z.div_add by lia.
          assert ((h - 1) / 8191 <= h / 8191) by (apply Z.div_le_mono; lia). lia. }
      assert (0 <= w / max_dim) by (apply Z.div_pos; unfold max_dim; lia).
      assert (0 <= h / max_dim) by (apply Z.div_pos; unfold max_dim; lia). nia. }
    set (F := Z.to_nat ((w / max_dim + 1) * (h / max_dim + 1) + 1)) in *.
    replace F with (N + (F - N))%nat by lia.
    change (0, 0) with (state_k 0) at 1.
    - rewrite (run_k N 0 (F - N)) by (unfold N; lia). cbn [Z.add].
      replace (Z.of_nat N) with (nx * ny) by (unfold N; lia).
      destruct (F - N)%nat as [|e] eqn:EE; [lia|]. cbn [tiler_run]. rewrite done_k. now rewrite app_nil_r.
  Qed.
End Grid.

Definition inside (t : Z * Z * Z * Z) (x y : Z) : Prop :=
  let '(tx, ty, tw, th) := t in tx <= x < tx + tw /\ ty <= y < ty + th.

(* every tile is a non-empty rectangle inside the image, at most 8191 x 8191 *)
Theorem tiles_bounded w h t : 1 <= w -> 1 <= h -> In t (tiles w h) ->
  let '(tx, ty, tw, th) := t in
  0 <= tx /\ 0 <= ty /\ 1 <= tw <= 8191 /\ 1 <= th <= 8191 /\ tx + tw <= w /\ ty + th <= h.
Proof.
  intros Hw Hh Hin. rewrite (tiles_are_grid w h Hw Hh) in Hin. apply in_map_iff in Hin.
  destruct Hin as (k & <- & Hk). apply in_seq in Hk. unfold tile_k.
  pose proof (nx_pos w Hw) as Hnx. pose proof (ny_pos h Hh) as Hny.
  set (nx := cellsZ w) in *. set (ny := cellsZ h) in *.
  pose proof (Z.mod_pos_bound (Z.of_nat k) nx ltac:(lia)) as Hm.
  assert (Hj : 0 <= Z.of_nat k / nx < ny) by (split; [apply Z.div_pos; lia | apply Z.div_lt_upper_bound; lia]).
  pose proof (proj1 (cells_spec w (Z.of_nat k mod nx) Hw (proj1 Hm)) (proj2 Hm)) as Hiw.
  pose proof (proj1 (cells_spec h (Z.of_nat k / nx) Hh (proj1 Hj)) (proj2 Hj)) as Hjh.
  unfold M, max_dim in *. repeat split; lia.
Qed.

(* every pixel of the image lies in exactly one tile (position k of the list, no other) *)
Theorem tiles_partition w h x y : 1 <= w -> 1 <= h -> 0 <= x < w -> 0 <= y < h ->
  exists l1 t l2, tiles w h = l1 ++ t :: l2 /\ inside t x y /\ (forall t', In t' (l1 ++ l2) -> ~ inside t' x y).
Proof.
  intros Hw Hh Hx Hy. rewrite (tiles_are_grid w h Hw Hh).
  pose proof (nx_pos w Hw) as Hnx. pose proof (ny_pos h Hh) as Hny.
  set (nx := cellsZ w) in *. set (ny := cellsZ h) in *.
  set (i := x / M). set (j := y / M).
  assert (HM : M = 8191) by reflexivity.
  assert (Hi : 0 <= i /\ i * M <= x < (i + 1) * M).
  { unfold i. pose proof (Z.div_mod x M ltac:(lia)). pose proof (Z.mod_pos_bound x M ltac:(lia)). split; [apply Z.div_pos; lia | lia]. }
  assert (Hj : 0 <= j /\ j * M <= y < (j + 1) * M).
  { unfold j. pose proof (Z.div_mod y M ltac:(lia)). pose proof (Z.mod_pos_bound y M ltac:(lia)). split; [apply Z.div_pos; lia | lia]. }
  assert (Hin : i < nx) by (apply (cells_spec w i Hw (proj1 Hi)); lia).
  assert (Hjn : j < ny) by (apply (cells_spec h j Hh (proj1 Hj)); lia).
  set (k := j * nx + i).
  assert (Hk : 0 <= k < nx * ny) by (unfold k; nia).
  assert (Ek1 : k mod nx = i) by (symmetry; apply (Z.mod_unique_pos k nx j i); unfold k; lia).
  assert (Ek2 : k / nx = j) by (symmetry; apply (Z.div_unique_pos k nx j i); unfold k; lia).
  (* split the list at k *)
  set (N := Z.to_nat (nx * ny)). set (kn := Z.to_nat k).
  assert (Es : seq 0 N = seq 0 kn ++ kn :: seq (S kn) (N - S kn)).
  { replace N with (kn + S (N - S kn))%nat by (unfold N, kn; lia). rewrite seq_app. cbn [seq Nat.add].
    replace (kn + S (N - S kn) - S kn)%nat with (N - S kn)%nat by (unfold N, kn; lia). reflexivity. }
  rewrite Es, map_app. cbn [map].
  eexists _, _, _. split; [reflexivity|]. split.
  - unfold inside, tile_k. fold nx. replace (Z.of_nat kn) with k by (unfold kn; lia). rewrite Ek1, Ek2. lia.
  - intros t' Hin' Hins. apply in_app_or in Hin'.
    assert (G : forall k', In k' (seq 0 kn ++ seq (S kn) (N - S kn)) -> inside (tile_k w h (Z.of_nat k')) x y -> False).
    { intros k' Hk' Hc. assert (Hk'N : (k' < N)%nat /\ k' <> kn).
      { apply in_app_or in Hk'. destruct Hk' as [A | A]; apply in_seq in A; lia. }
      unfold inside, tile_k in Hc. fold nx in Hc.
      pose proof (Z.mod_pos_bound (Z.of_nat k') nx ltac:(lia)) as Hm'. pose proof (Z.div_mod (Z.of_nat k') nx ltac:(lia)) as Hdm'.
      set (i' := Z.of_nat k' mod nx) in *. set (j' := Z.of_nat k' / nx) in *.
      assert (i' = i) by nia. assert (0 <= j') by (apply Z.div_pos; lia). assert (j' = j) by nia.
      assert (Z.of_nat k' = k) by (unfold k; lia). unfold kn in Hk'N. lia. }
    destruct Hin' as [A | A]; apply in_map_iff in A; destruct A as (k' & <- & Hk'); apply (G k'); auto; apply in_or_app; auto.
Qed.
