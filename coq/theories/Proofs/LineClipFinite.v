(* The scalar line clipper never produces a NaN: for a finite segment whose bounding box is a valid Rect, every coordinate
   of line_clipper::intersect's result is finite (binary64 intersection arithmetic cannot overflow on binary32 inputs, the
   divisor is at least 2^-13 in magnitude, results are pinned).  This discharges the side condition of the end-to-end
   hairline theorem. *)
From Coq Require Import ZArith Bool List Lia Reals Lra.
From Flocq Require Import Core.Zaux Core.Raux Core.Defs Core.Generic_fmt Core.FLT Core.Float_prop Core.Round_NE IEEE754.BinarySingleNaN.
From TS Require Import Base.F32 Model.Rect Model.LineClip Proofs.RectPoints Proofs.LineClipProofs.
Import ListNotations.
Local Open Scope Z_scope.

Notation R64 := (@B2R 53 1024).
Notation fexp64 := (SpecFloat.fexp 53 1024).
Notation rnd64 := (round radix2 fexp64 (round_mode mode_NE)).
Notation fexp32 := (SpecFloat.fexp 24 128).
Notation rnd32 := (round radix2 fexp32 (round_mode mode_NE)).
Definition fin64 (x : f64) : Prop := F64.is_finite x = true.


(* a binary32 value is a binary64 value *)
Lemma format32_in_64 r : generic_format radix2 fexp32 r -> generic_format radix2 fexp64 r.
Proof.
  intros H. destruct (@FLT_format_generic radix2 (-149) 24 eq_refl r H) as [f Hf Hn He].
  apply (generic_format_FLT radix2 (-1074) 53). apply (FLT_spec radix2 (-1074) 53 r f); [exact Hf| |lia].
  eapply Z.lt_trans; [exact Hn|]. reflexivity.
Qed.

Lemma rnd64_id r : generic_format radix2 fexp64 r -> rnd64 r = r.
Proof. intros H. apply round_generic; [apply valid_rnd_N | exact H]. Qed.

Lemma bpow_format64 e : (-1074 <= e)%Z -> generic_format radix2 fexp64 (bpow radix2 e).
Proof. intros H. apply (@generic_format_FLT_bpow radix2 (-1074) 53 eq_refl). exact H. Qed.

(* rounding keeps a power-of-two bound *)
Lemma rnd64_abs_le r e : (-1074 <= e)%Z -> (Rabs r <= bpow radix2 e)%R -> (Rabs (rnd64 r) <= bpow radix2 e)%R.
Proof.
  intros He H. apply Rabs_le. apply Rabs_le_inv in H. destruct H as (H1 & H2).
  assert (V : Valid_exp fexp64) by (apply (fexp_correct 53 1024); reflexivity).
  split.
  - rewrite <- (rnd64_id (- bpow radix2 e)) by (apply generic_format_opp; apply bpow_format64; exact He).
    apply round_le; [exact V | apply valid_rnd_N | exact H1].
  - rewrite <- (rnd64_id (bpow radix2 e)) by (apply bpow_format64; exact He).
    apply round_le; [exact V | apply valid_rnd_N | exact H2].
Qed.
Lemma rnd64_abs_ge r e : (-1074 <= e)%Z -> (bpow radix2 e <= Rabs r)%R -> (bpow radix2 e <= Rabs (rnd64 r))%R.
Proof.
  intros He H. assert (V : Valid_exp fexp64) by (apply (fexp_correct 53 1024); reflexivity).
  pose proof (bpow_gt_0 radix2 e) as P.
  destruct (Rle_or_lt 0 r) as [Hr | Hr].
  - rewrite Rabs_pos_eq in H by exact Hr.
    assert (bpow radix2 e <= rnd64 r)%R.
    { rewrite <- (rnd64_id (bpow radix2 e)) by (apply bpow_format64; exact He). apply round_le; [exact V | apply valid_rnd_N | exact H]. }
    rewrite Rabs_pos_eq by lra. exact H0.
  - rewrite Rabs_left in H by exact Hr.
    assert (rnd64 r <= - bpow radix2 e)%R.
    { rewrite <- (rnd64_id (- bpow radix2 e)) by (apply generic_format_opp; apply bpow_format64; exact He).
      apply round_le; [exact V | apply valid_rnd_N | lra]. }
    rewrite Rabs_left by lra. lra.
Qed.

(* f32 -> f64 *)
Lemma of_f32_exact (a : f32) : fin a -> fin64 (F64.of_f32 a) /\ R64 (F64.of_f32 a) = R32 a /\ (Rabs (R32 a) <= bpow radix2 128)%R.
Proof.
  intros Fa. assert (B : (Rabs (R32 a) <= bpow radix2 128)%R) by (apply Rlt_le; apply abs_B2R_lt_emax).
  destruct a as [s | s | | s m e Hb]; try discriminate Fa.
  - cbn. repeat split; try reflexivity. exact B.
  - unfold F64.of_f32.
    pose proof (binary_normalize_correct 53 1024 _ _ mode_NE (cond_Zopp s (Zpos m)) e s) as C. cbv zeta in C.
    assert (E : F2R (Float radix2 (cond_Zopp s (Zpos m)) e) = R32 (B754_finite s m e Hb)) by reflexivity.
    rewrite E in C.
    assert (G : generic_format radix2 fexp64 (R32 (B754_finite s m e Hb))) by (apply format32_in_64; apply generic_format_B2R).
    rewrite (rnd64_id _ G) in C.
    assert (L : (Rabs (R32 (B754_finite s m e Hb)) < bpow radix2 1024)%R).
    { eapply Rle_lt_trans; [exact B|]. apply bpow_lt. lia. }
    rewrite (Rlt_bool_true _ _ L) in C. destruct C as (C1 & C2 & _).
    split; [exact C2|]. split; [exact C1 | exact B].
Qed.

(* ---- binary64 operations with a power-of-two bound on the magnitude ----------------------------------------------------- *)
Definition B64 (x : f64) (e : Z) : Prop := fin64 x /\ (Rabs (R64 x) <= bpow radix2 e)%R.

Lemma bpow_lt_emax64 e : (e < 1024)%Z -> (bpow radix2 e < bpow radix2 1024)%R.
Proof. intros H. apply bpow_lt. exact H. Qed.

Lemma sub64 x y e : B64 x e -> B64 y e -> (0 <= e)%Z -> (e + 1 < 1024)%Z ->
  B64 (F64.sub x y) (e + 1) /\ R64 (F64.sub x y) = rnd64 (R64 x - R64 y).
Proof.
  intros (Fx & Bx) (Fy & By) He Hlt. unfold F64.sub.
  pose proof (Bminus_correct 53 1024 _ _ mode_NE x y Fx Fy) as C.
  assert (A : (Rabs (R64 x - R64 y) <= bpow radix2 (e + 1))%R).
  { rewrite bpow_plus_1. change (IZR radix2) with 2%R. unfold Rminus. eapply Rle_trans; [apply Rabs_triang|]. rewrite Rabs_Ropp. lra. }
  pose proof (rnd64_abs_le _ (e + 1) ltac:(lia) A) as R.
  rewrite (Rlt_bool_true _ _ (Rle_lt_trans _ _ _ R (bpow_lt_emax64 _ Hlt))) in C. destruct C as (C1 & C2 & _).
  split; [split; [exact C2 | rewrite C1; exact R] | exact C1].
Qed.

Lemma add64 x y e : B64 x e -> B64 y e -> (0 <= e)%Z -> (e + 1 < 1024)%Z ->
  B64 (F64.add x y) (e + 1) /\ R64 (F64.add x y) = rnd64 (R64 x + R64 y).
Proof.
  intros (Fx & Bx) (Fy & By) He Hlt. unfold F64.add.
  pose proof (Bplus_correct 53 1024 _ _ mode_NE x y Fx Fy) as C.
  assert (A : (Rabs (R64 x + R64 y) <= bpow radix2 (e + 1))%R).
  { rewrite bpow_plus_1. change (IZR radix2) with 2%R. eapply Rle_trans; [apply Rabs_triang|]. lra. }
  pose proof (rnd64_abs_le _ (e + 1) ltac:(lia) A) as R.
  rewrite (Rlt_bool_true _ _ (Rle_lt_trans _ _ _ R (bpow_lt_emax64 _ Hlt))) in C. destruct C as (C1 & C2 & _).
  split; [split; [exact C2 | rewrite C1; exact R] | exact C1].
Qed.

Lemma mul64 x y e1 e2 : B64 x e1 -> B64 y e2 -> (0 <= e1 + e2)%Z -> (e1 + e2 < 1024)%Z ->
  B64 (F64.mul x y) (e1 + e2) /\ R64 (F64.mul x y) = rnd64 (R64 x * R64 y).
Proof.
  intros (Fx & Bx) (Fy & By) He Hlt. unfold F64.mul.
  pose proof (Bmult_correct 53 1024 _ _ mode_NE x y) as C.
  assert (A : (Rabs (R64 x * R64 y) <= bpow radix2 (e1 + e2))%R).
  { rewrite Rabs_mult, bpow_plus. apply Rmult_le_compat; try apply Rabs_pos; assumption. }
  pose proof (rnd64_abs_le _ (e1 + e2) ltac:(lia) A) as R.
  rewrite (Rlt_bool_true _ _ (Rle_lt_trans _ _ _ R (bpow_lt_emax64 _ Hlt))) in C. destruct C as (C1 & C2 & _).
  unfold fin64, F64.is_finite in *. rewrite Fx, Fy in C2.
  split; [split; [exact C2 | rewrite C1; exact R] | exact C1].
Qed.

Lemma div64 x y e1 k : B64 x e1 -> fin64 y -> (bpow radix2 (- k) <= Rabs (R64 y))%R -> (0 <= e1 + k)%Z -> (e1 + k < 1024)%Z ->
  B64 (F64.div x y) (e1 + k) /\ R64 (F64.div x y) = rnd64 (R64 x / R64 y).
Proof.
  intros (Fx & Bx) Fy Ly He Hlt. unfold F64.div.
  assert (Ny : R64 y <> 0%R).
  { intros E. rewrite E, Rabs_R0 in Ly. pose proof (bpow_gt_0 radix2 (- k)). lra. }
  pose proof (Bdiv_correct 53 1024 _ _ mode_NE x y Ny) as C.
  assert (A : (Rabs (R64 x / R64 y) <= bpow radix2 (e1 + k))%R).
  { unfold Rdiv. rewrite Rabs_mult, Rabs_inv. rewrite bpow_plus.
    apply Rmult_le_compat; try apply Rabs_pos; [left; apply Rinv_0_lt_compat; apply Rabs_pos_lt; exact Ny | exact Bx |].
    replace (bpow radix2 k) with (/ bpow radix2 (- k))%R by (rewrite bpow_opp, Rinv_inv; reflexivity).
    apply Rinv_le_contravar; [apply bpow_gt_0 | exact Ly]. }
  pose proof (rnd64_abs_le _ (e1 + k) ltac:(lia) A) as R.
  rewrite (Rlt_bool_true _ _ (Rle_lt_trans _ _ _ R (bpow_lt_emax64 _ Hlt))) in C. destruct C as (C1 & C2 & _).
  unfold fin64, F64.is_finite in *. rewrite Fx in C2.
  split; [split; [exact C2 | rewrite C1; exact R] | exact C1].
Qed.

(* ---- no NaN ------------------------------------------------------------------------------------------------------------- *)
Definition nn (x : f32) : Prop := F32.is_nan x = false.
Lemma fin_nn x : fin x -> nn x.
Proof. unfold fin, nn, F32.is_finite, F32.is_nan. destruct x; try discriminate; reflexivity. Qed.

Lemma overflow_not_nan32 (z : f32) m s : B2SF z = binary_overflow 24 128 m s -> is_nan z = false.
Proof. unfold binary_overflow. destruct (overflow_to_inf m s); destruct z; try reflexivity; discriminate. Qed.

Lemma to_f32_nn x : fin64 x -> nn (F64.to_f32 x).
Proof.
  intros Fx. unfold nn, F64.to_f32, F32.is_nan. destruct x as [s | s | | s m e Hb]; try discriminate Fx; try reflexivity.
  pose proof (binary_normalize_correct 24 128 _ _ mode_NE (cond_Zopp s (Zpos m)) e s) as C. cbv zeta in C.
  destruct (Rlt_bool _ _) in C.
  - destruct C as (_ & C & _). destruct (binary_normalize 24 128 _ _ mode_NE (cond_Zopp s (Z.pos m)) e s); try discriminate C; reflexivity.
  - eapply overflow_not_nan32; exact C.
Qed.

Lemma pin64_fin r a b : fin64 r -> fin64 a -> fin64 b -> fin64 (pin_unsorted_f64 r a b).
Proof.
  intros Fr Fa Fb. unfold pin_unsorted_f64. destruct (F64.lt b a); destruct (F64.lt r _); try assumption; destruct (F64.gt r _); assumption.
Qed.

Lemma pin32_nn v a b : nn v -> nn a -> nn b -> nn (pin_unsorted_f32 v a b).
Proof.
  intros Fr Fa Fb. unfold pin_unsorted_f32. destruct (F32.lt b a); destruct (F32.lt v _); try assumption; destruct (F32.gt v _); assumption.
Qed.

Lemma add32_nn a b : fin a -> fin b -> nn (F32.add a b).
Proof.
  intros Fa Fb. unfold nn, F32.add, F32.is_nan. pose proof (Bplus_correct 24 128 _ _ mode_NE a b Fa Fb) as C.
  destruct (Rlt_bool _ _) in C.
  - destruct C as (_ & C & _). destruct (Bplus mode_NE a b); try discriminate C; reflexivity.
  - destruct C as (C & _). eapply overflow_not_nan32; exact C.
Qed.

Lemma mul_half_nn x : nn x -> nn (F32.mul x F32.half).
Proof.
  intros Nx. unfold nn, F32.mul, F32.is_nan in *.
  pose proof (Bmult_correct 24 128 _ _ mode_NE x F32.half) as C.
  destruct x as [s | s | | s m e Hb]; try discriminate Nx; try reflexivity.
  destruct (Rlt_bool _ _) in C.
  - destruct C as (_ & C & _). destruct (Bmult mode_NE (B754_finite s m e Hb) F32.half); try discriminate C; reflexivity.
  - eapply overflow_not_nan32; exact C.
Qed.

Lemma ave_nn a b : fin a -> fin b -> nn (ave a b).
Proof. intros Fa Fb. unfold ave. apply mul_half_nn. apply add32_nn; assumption. Qed.

(* ---- a difference that is not "nearly zero" is at least 2^-13 ------------------------------------------------------------- *)
Lemma rnd32_id r : generic_format radix2 fexp32 r -> rnd32 r = r.
Proof. intros H. apply round_generic; [apply valid_rnd_N | exact H]. Qed.
Lemma bpow_format32 e : (-149 <= e)%Z -> generic_format radix2 fexp32 (bpow radix2 e).
Proof. intros H. apply (@generic_format_FLT_bpow radix2 (-149) 24 eq_refl). exact H. Qed.
Lemma rnd32_abs_le r e : (-149 <= e)%Z -> (Rabs r <= bpow radix2 e)%R -> (Rabs (rnd32 r) <= bpow radix2 e)%R.
Proof.
  intros He H. apply Rabs_le. apply Rabs_le_inv in H. destruct H as (H1 & H2).
  assert (V : Valid_exp fexp32) by (apply (fexp_correct 24 128); reflexivity).
  split.
  - rewrite <- (rnd32_id (- bpow radix2 e)) by (apply generic_format_opp; apply bpow_format32; exact He).
    apply round_le; [exact V | apply valid_rnd_N | exact H1].
  - rewrite <- (rnd32_id (bpow radix2 e)) by (apply bpow_format32; exact He).
    apply round_le; [exact V | apply valid_rnd_N | exact H2].
Qed.

Lemma R_snz : R32 scalar_nearly_zero = bpow radix2 (-12).
Proof.
  unfold scalar_nearly_zero. set (x := F32.of_bits 964689920). vm_compute in x. subst x.
  unfold B2R, F2R. cbn [Fnum Fexp cond_Zopp]. change (IZR (Z.pos 8388608)) with (bpow radix2 23). rewrite <- bpow_plus. reflexivity.
Qed.

Lemma not_nearly_zero_bound (y0 y1 : f32) : fin y0 -> fin y1 -> is_nearly_zero (F32.sub y1 y0) = false ->
  (bpow radix2 (-13) <= Rabs (R32 y1 - R32 y0))%R.
Proof.
  intros F0 F1 H. destruct (Rle_or_lt (bpow radix2 (-13)) (Rabs (R32 y1 - R32 y0))) as [A | A]; [exact A|]. exfalso.
  unfold is_nearly_zero, F32.sub, F32.abs, F32.le in H.
  pose proof (Bminus_correct 24 128 _ _ mode_NE y1 y0 F1 F0) as C.
  pose proof (rnd32_abs_le _ (-13) ltac:(lia) (Rlt_le _ _ A)) as B.
  assert (L : (Rabs (rnd32 (R32 y1 - R32 y0)) < bpow radix2 128)%R).
  { eapply Rle_lt_trans; [exact B|]. apply bpow_lt. lia. }
  rewrite (Rlt_bool_true _ _ L) in C. destruct C as (C1 & C2 & _).
  rewrite Bleb_correct in H by (try (rewrite is_finite_Babs; exact C2); reflexivity).
  rewrite B2R_Babs, C1, R_snz in H.
  assert ((bpow radix2 (-13) <= bpow radix2 (-12))%R) by (apply bpow_le; lia).
  rewrite Rle_bool_true in H by lra. discriminate.
Qed.

(* ---- the binary64 interpolation  b0 + (t - a0) * (b1 - b0) / (a1 - a0)  is finite --------------------------------------------- *)
Lemma B64_weaken x e e' : B64 x e -> (e <= e')%Z -> B64 x e'.
Proof. intros (F & B) H. split; [exact F|]. eapply Rle_trans; [exact B|]. apply bpow_le. exact H. Qed.

Lemma of_f32_B64 a : fin a -> B64 (F64.of_f32 a) 128 /\ R64 (F64.of_f32 a) = R32 a.
Proof. intros Fa. destruct (of_f32_exact a Fa) as (A & B & C). split; [split; [exact A | rewrite B; exact C] | exact B]. Qed.

Lemma interp_fin (a0 b0 a1 b1 t : f32) :
  fin a0 -> fin b0 -> fin a1 -> fin b1 -> fin t -> is_nearly_zero (F32.sub a1 a0) = false ->
  fin64 (F64.add (F64.of_f32 b0)
           (F64.div (F64.mul (F64.sub (F64.of_f32 t) (F64.of_f32 a0)) (F64.sub (F64.of_f32 b1) (F64.of_f32 b0)))
                    (F64.sub (F64.of_f32 a1) (F64.of_f32 a0)))).
Proof.
  intros Fa0 Fb0 Fa1 Fb1 Ft NZ.
  destruct (of_f32_B64 a0 Fa0) as (Ba0 & Ra0). destruct (of_f32_B64 b0 Fb0) as (Bb0 & Rb0).
  destruct (of_f32_B64 a1 Fa1) as (Ba1 & Ra1). destruct (of_f32_B64 b1 Fb1) as (Bb1 & Rb1).
  destruct (of_f32_B64 t Ft) as (Bt & Rt).
  destruct (sub64 _ _ 128 Bt Ba0 ltac:(lia) ltac:(lia)) as (Bu & _).
  destruct (sub64 _ _ 128 Bb1 Bb0 ltac:(lia) ltac:(lia)) as (Bv & _).
  destruct (mul64 _ _ (128 + 1) (128 + 1) Bu Bv ltac:(lia) ltac:(lia)) as (Bw & _).
  destruct (sub64 _ _ 128 Ba1 Ba0 ltac:(lia) ltac:(lia)) as (Bd & Rd).
  assert (Ld : (bpow radix2 (- (13)) <= Rabs (R64 (F64.sub (F64.of_f32 a1) (F64.of_f32 a0))))%R).
  { rewrite Rd, Ra1, Ra0. apply rnd64_abs_ge; [lia|]. apply not_nearly_zero_bound; assumption. }
  destruct (div64 _ _ (128 + 1 + (128 + 1)) 13 Bw (proj1 Bd) Ld ltac:(lia) ltac:(lia)) as (Bq & _).
  destruct (add64 _ _ (128 + 1 + (128 + 1) + 13) (B64_weaken _ 128 (128 + 1 + (128 + 1) + 13) Bb0 ltac:(lia)) Bq ltac:(lia) ltac:(lia)) as (Br & _).
  exact (proj1 Br).
Qed.

Lemma sect_h_nn s0 s1 y : fin (px s0) -> fin (py s0) -> fin (px s1) -> fin (py s1) -> fin y -> nn (sect_with_horizontal s0 s1 y).
Proof.
  intros Fx0 Fy0 Fx1 Fy1 Fy. unfold sect_with_horizontal. destruct (is_nearly_zero _) eqn:E; [apply ave_nn; assumption|].
  apply to_f32_nn. apply pin64_fin; [apply interp_fin; assumption | |]; apply (of_f32_exact _); assumption.
Qed.
Lemma sect_v_nn s0 s1 x : fin (px s0) -> fin (py s0) -> fin (px s1) -> fin (py s1) -> fin x -> nn (sect_with_vertical s0 s1 x).
Proof.
  intros Fx0 Fy0 Fx1 Fy1 Fx. unfold sect_with_vertical. destruct (is_nearly_zero _) eqn:E; [apply ave_nn; assumption|].
  apply to_f32_nn. apply interp_fin; assumption.
Qed.

(* ---- no coordinate of the clipper's result is a NaN ------------------------------------------------------------------------- *)
Section Structure.
  Variables (sh sv : pt -> pt -> f32 -> f32).

  Lemma intersect_gen_nn s0 s1 clip p q :
    nn (px s0) -> nn (py s0) -> nn (px s1) -> nn (py s1) ->
    nn (rl clip) -> nn (rt clip) -> nn (rr clip) -> nn (rb clip) ->
    nn (sh s0 s1 (rt clip)) -> nn (sh s0 s1 (rb clip)) -> nn (sv s0 s1 (rl clip)) -> nn (sv s0 s1 (rr clip)) ->
    intersect_gen sh sv s0 s1 clip = Some (p, q) -> nn (px p) /\ nn (py p) /\ nn (px q) /\ nn (py q).
  Proof.
    intros N0x N0y N1x N1y Nl Nt Nr Nb Nht Nhb Nvl Nvr H.
    unfold intersect_gen in H.
    destruct (from_ltrb _ _ _ _) as [bnd|]; cbv beta iota zeta in H.
    - destruct (contains_no_empty_check clip bnd).
      + injection H as <- <-. repeat split; assumption.
      + destruct (nested_lt _ _ _ || nested_lt _ _ _ || nested_lt _ _ _ || nested_lt _ _ _); [discriminate H|].
        repeat match type of H with
               | context [if ?c then _ else _] => destruct c; cbv beta iota zeta in H; cbn [px py] in H
               end;
          try discriminate H; injection H as <- <-; cbn [px py];
          repeat split; try assumption; apply pin32_nn; assumption.
    - repeat match type of H with
             | context [if ?c then _ else _] => destruct c; cbv beta iota zeta in H; cbn [px py] in H
             end;
        try discriminate H; injection H as <- <-; cbn [px py];
        repeat split; try assumption; apply pin32_nn; assumption.
  Qed.
End Structure.

(* a coordinate that is not outside a finite interval and is not a NaN is finite *)
Lemma nn_between_fin x l r : nn x -> fin l -> fin r -> F32.lt x l = false -> F32.lt r x = false -> fin x.
Proof.
  unfold nn, fin, F32.is_nan, F32.is_finite, F32.lt. intros Nx Fl Fr H1 H2.
  destruct x as [s | s | | s m e Hb]; try reflexivity; try discriminate Nx.
  destruct s.
  - destruct l; try discriminate Fl; discriminate H1.
  - destruct r as [sr | sr | | sr mr er Hr]; try discriminate Fr; discriminate H2.
Qed.

Theorem intersect_finite s0 s1 clip bnd p q :
  fin (px s0) -> fin (py s0) -> fin (px s1) -> fin (py s1) -> clip_ok clip ->
  from_ltrb (F32.min (px s0) (px s1)) (F32.min (py s0) (py s1)) (F32.max (px s0) (px s1)) (F32.max (py s0) (py s1)) = Some bnd ->
  intersect s0 s1 clip = Some (p, q) ->
  (fin (px p) /\ fin (py p) /\ fin (px q) /\ fin (py q)) /\ nout clip p /\ nout clip q.
Proof.
  intros Fx0 Fy0 Fx1 Fy1 Hc Hb H.
  destruct (intersect_not_outside s0 s1 clip bnd p q Fx0 Fy0 Fx1 Fy1 Hc Hb H) as (Np & Nq).
  pose proof Hc as (Fl & Ft & Fr & Fb & _).
  destruct (intersect_gen_nn sect_with_horizontal sect_with_vertical s0 s1 clip p q) as (A & B & C & D);
    try (apply fin_nn; assumption); try (apply sect_h_nn; assumption); try (apply sect_v_nn; assumption); [exact H|].
  destruct Np as ((P1 & P2) & (P3 & P4)). destruct Nq as ((Q1 & Q2) & (Q3 & Q4)).
  split; [|split; [split; split; assumption | split; split; assumption]].
  split; [apply (nn_between_fin _ (rl clip) (rr clip)); assumption|].
  split; [apply (nn_between_fin _ (rt clip) (rb clip)); assumption|].
  split; [apply (nn_between_fin _ (rl clip) (rr clip)); assumption | apply (nn_between_fin _ (rt clip) (rb clip)); assumption].
Qed.

(* ---- the bounding box of two points inside +-32767 is a valid Rect ---------------------------------------------------------- *)
Lemma R_f32_max_ge : (bpow radix2 16 <= R32 f32_max)%R.
Proof.
  unfold f32_max. set (x := F32.of_bits 2139095039). vm_compute in x. subst x.
  unfold B2R, F2R. cbn [Fnum Fexp cond_Zopp].
  assert (bpow radix2 16 <= bpow radix2 104)%R by (apply bpow_le; lia).
  pose proof (bpow_gt_0 radix2 104).
  assert (1 <= IZR (Z.pos 16777215))%R by (apply IZR_le; lia). nra.
Qed.
Lemma fin_f32_max : fin f32_max. Proof. reflexivity. Qed.

Lemma checked_sub_small a b : fin a -> fin b -> (Rabs (R32 a) <= bpow radix2 15)%R -> (Rabs (R32 b) <= bpow radix2 15)%R ->
  exists d, checked_f32_sub a b = Some d.
Proof.
  intros Fa Fb Ba Bb. unfold checked_f32_sub.
  destruct (of_f32_B64 a Fa) as ((Fa64 & _) & Ra). destruct (of_f32_B64 b Fb) as ((Fb64 & _) & Rb).
  assert (A64 : B64 (F64.of_f32 a) 15) by (split; [exact Fa64 | rewrite Ra; exact Ba]).
  assert (B64b : B64 (F64.of_f32 b) 15) by (split; [exact Fb64 | rewrite Rb; exact Bb]).
  destruct (sub64 _ _ 15 A64 B64b ltac:(lia) ltac:(lia)) as ((Fn & Bn) & _).
  set (n := F64.sub (F64.of_f32 a) (F64.of_f32 b)) in *.
  assert (Fmax : fin64 f64_f32_max /\ R64 f64_f32_max = R32 f32_max) by (destruct (of_f32_exact f32_max fin_f32_max) as (X & Y & _); split; assumption).
  assert (Fneg : fin (F32.neg f32_max)) by reflexivity.
  assert (Fmin : fin64 f64_f32_min /\ R64 f64_f32_min = (- R32 f32_max)%R).
  { destruct (of_f32_exact (F32.neg f32_max) Fneg) as (X & Y & _). split; [exact X|]. unfold f64_f32_min. rewrite Y. unfold F32.neg. apply B2R_Bopp. }
  destruct Fmax as (Fmx & Rmx). destruct Fmin as (Fmn & Rmn).
  pose proof R_f32_max_ge as G. apply Rabs_le_inv in Bn. change (15 + 1)%Z with 16%Z in Bn.
  unfold F64.le. rewrite (Bleb_correct _ _ f64_f32_min n Fmn Fn), (Bleb_correct _ _ n f64_f32_max Fn Fmx).
  rewrite Rmn, Rmx. rewrite !Rle_bool_true by lra. eexists. reflexivity.
Qed.

Lemma bbox_valid a b c d :
  fin a -> fin b -> fin c -> fin d ->
  (Rabs (R32 a) <= bpow radix2 15)%R -> (Rabs (R32 b) <= bpow radix2 15)%R -> (Rabs (R32 c) <= bpow radix2 15)%R -> (Rabs (R32 d) <= bpow radix2 15)%R ->
  exists r, from_ltrb (F32.min a c) (F32.min b d) (F32.max a c) (F32.max b d) = Some r.
Proof.
  intros Fa Fb Fc Fd Ba Bb Bc Bd.
  destruct (min_fin a c Fa Fc) as (M1 & M1a & M1c). destruct (max_fin a c Fa Fc) as (X1 & X1a & X1c).
  destruct (min_fin b d Fb Fd) as (M2 & M2b & M2d). destruct (max_fin b d Fb Fd) as (X2 & X2b & X2d).
  assert (F1 : fin (F32.min a c)) by (destruct M1 as [-> | ->]; assumption).
  assert (F2 : fin (F32.min b d)) by (destruct M2 as [-> | ->]; assumption).
  assert (F3 : fin (F32.max a c)) by (destruct X1 as [-> | ->]; assumption).
  assert (F4 : fin (F32.max b d)) by (destruct X2 as [-> | ->]; assumption).
  assert (B1 : (Rabs (R32 (F32.min a c)) <= bpow radix2 15)%R) by (destruct M1 as [-> | ->]; assumption).
  assert (B2 : (Rabs (R32 (F32.min b d)) <= bpow radix2 15)%R) by (destruct M2 as [-> | ->]; assumption).
  assert (B3 : (Rabs (R32 (F32.max a c)) <= bpow radix2 15)%R) by (destruct X1 as [-> | ->]; assumption).
  assert (B4 : (Rabs (R32 (F32.max b d)) <= bpow radix2 15)%R) by (destruct X2 as [-> | ->]; assumption).
  unfold from_ltrb. unfold fin in F1, F2, F3, F4. rewrite F1, F2, F3, F4. cbn [andb negb].
  assert (L1 : F32.le (F32.min a c) (F32.max a c) = true) by (apply le_fin; [exact F1 | exact F3 | lra]).
  assert (L2 : F32.le (F32.min b d) (F32.max b d) = true) by (apply le_fin; [exact F2 | exact F4 | lra]).
  rewrite L1, L2. cbn [andb].
  destruct (checked_sub_small _ _ F3 F1 B3 B1) as (d1 & E1). destruct (checked_sub_small _ _ F4 F2 B4 B2) as (d2 & E2).
  rewrite E1, E2. eexists. reflexivity.
Qed.
