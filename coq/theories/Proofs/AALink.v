(* C03 <- C02: the spans the walker emits on one (sub-)scanline are sorted, disjoint and inside the clip, so they are what
   AlphaSpans.row_alpha needs; and the sub-pixels they cover in a destination pixel are exactly the sample columns the fill
   rule accepts.  Hence: alpha(q) is within 255/16 of 255/16 x (number of the 16 sample points of pixel q that are inside). *)
From Coq Require Import ZArith Bool List Lia.
From TS Require Import Model.AlphaRuns Model.Edge Model.Walk Proofs.WalkProofs Proofs.WalkRows Proofs.AlphaRefine2 Proofs.AlphaSpans.
Import ListNotations.
Local Open Scope Z_scope.

Lemma spans_ok_mono W4 : forall l lo lo', lo' <= lo -> spans_ok lo W4 l -> spans_ok lo' W4 l.
Proof. destruct l as [|[x w] r]; intros lo lo' H S; [exact I|]. cbn [spans_ok] in *. intuition lia. Qed.

(* the spans of a row, in emission order reversed = ascending *)
Lemma row_spans_ok eo hi : forall xs w lft lo,
  sorted_x xs -> (forall x wd, In (x, wd) xs -> lo <= x <= hi) ->
  (masked w eo = true -> lo <= lft /\ forall x wd, In (x, wd) xs -> lft <= x) ->
  spans_ok lo hi (rev (snd (row_spans xs eo w lft []))).
Proof.
  induction xs as [|[x wd] r IH]; intros w lft lo Hs Hb Hm; [exact I|].
  cbn [row_spans]. set (lft1 := if masked w eo then lft else x).
  assert (Bx : lo <= x <= hi) by (apply (Hb x wd); left; reflexivity).
  assert (Hr : forall y wd0, In (y, wd0) r -> x <= y) by (apply (sorted_x_ge _ _ _ Hs)).
  assert (L1 : lo <= lft1 <= x).
  { unfold lft1. destruct (masked w eo) eqn:M; [|lia]. destruct (Hm eq_refl) as (A & B). specialize (B x wd (or_introl eq_refl)). lia. }
  destruct (masked (w + wd) eo) eqn:M1.
  - apply (IH (w + wd) lft1 lo (sorted_x_tail _ _ Hs)).
    + intros y wd0 Hi. specialize (Hb y wd0 (or_intror Hi)). lia.
    + intros _. split; [lia|]. intros y wd0 Hi. specialize (Hr y wd0 Hi). lia.
  - destruct (x - lft1 =? 0) eqn:Z0.
    + apply (IH (w + wd) lft1 lo (sorted_x_tail _ _ Hs)).
      * intros y wd0 Hi. specialize (Hb y wd0 (or_intror Hi)). lia.
      * rewrite M1. discriminate.
    + apply Z.eqb_neq in Z0. rewrite row_spans_acc.
      pose proof (IH (w + wd) lft1 x (sorted_x_tail _ _ Hs)) as I1.
      destruct (row_spans r eo (w + wd) lft1 []) as [[w' l'] n] eqn:R. cbn [snd] in *.
      rewrite rev_app_distr. cbn [rev app]. cbn [spans_ok]. split; [lia|]. split; [lia|]. split; [lia|].
      replace (lft1 + (x - lft1)) with x by lia. apply I1.
      * intros y wd0 Hi. specialize (Hb y wd0 (or_intror Hi)). specialize (Hr y wd0 Hi). lia.
      * rewrite M1. discriminate.
Qed.

(* covered sub-pixels of a pixel = sample columns inside some span *)
Fixpoint count4 (P : Z -> bool) (c : Z) (n : nat) : Z :=
  match n with O => 0 | S n' => (if P c then 1 else 0) + count4 P (c + 1) n' end.
Definition in_spans (l : list span) (c : Z) : bool := existsb (fun s => (fst s <=? c) && (c <? fst s + snd s)) l.

Lemma ind_spec x w c : let i := (if (x <=? c) && (c <? x + w) then 1 else 0) in
  (i = 1 /\ x <= c < x + w) \/ (i = 0 /\ ~ (x <= c < x + w)).
Proof.
  cbv zeta. destruct ((x <=? c) && (c <? x + w)) eqn:E.
  - apply andb_true_iff in E. destruct E as (A & B). apply Z.leb_le in A. apply Z.ltb_lt in B. left. lia.
  - apply andb_false_iff in E. right. destruct E as [E | E]; [apply Z.leb_gt in E | apply Z.ltb_ge in E]; lia.
Qed.

Lemma cov_count x w q : 1 <= w ->
  AlphaSpans.cov x w q = count4 (fun c => (x <=? c) && (c <? x + w)) (4 * q) 4.
Proof.
  intros Hw. unfold AlphaSpans.cov, count4.
  pose proof (ind_spec x w (4 * q)) as I0. pose proof (ind_spec x w (4 * q + 1)) as I1.
  pose proof (ind_spec x w (4 * q + 1 + 1)) as I2. pose proof (ind_spec x w (4 * q + 1 + 1 + 1)) as I3. cbv zeta in *.
  lia.
Qed.

Lemma covs_count W4 : forall l lo q, spans_ok lo W4 l -> covs l q = count4 (in_spans l) (4 * q) 4.
Proof.
  induction l as [|[x w] r IH]; intros lo q S; cbn [covs]; [reflexivity|].
  cbn [spans_ok] in S. destruct S as (S1 & S2 & S3 & S4). rewrite (IH (x + w) q S4), (cov_count x w q S2).
  (* the first span and the later ones are disjoint: per column at most one of the two indicators is 1 *)
  assert (D : forall c, (x <=? c) && (c <? x + w) = true -> in_spans r c = false).
  { intros c Hc. apply andb_true_iff in Hc. destruct Hc as (D0 & Hc). apply Z.ltb_lt in Hc.
    clear IH D0. assert (Hlt : c < x + w) by exact Hc. revert S4 Hlt. generalize (x + w) as lo'. induction r as [|[x2 w2] r2 IH2]; intros lo' S Hlt; [reflexivity|].
    cbn [spans_ok] in S. destruct S as (T1 & T2 & T3 & T4). cbn [in_spans existsb fst snd].
    assert ((x2 <=? c) = false) as -> by (apply Z.leb_gt; lia). cbn [andb orb]. apply (IH2 (x2 + w2) T4). lia. }
  assert (Step : forall c, (if in_spans ((x, w) :: r) c then 1 else 0) =
                            (if (x <=? c) && (c <? x + w) then 1 else 0) + (if in_spans r c then 1 else 0)).
  { intros c. cbn [in_spans existsb fst snd]. destruct ((x <=? c) && (c <? x + w)) eqn:E; cbn [orb]; [rewrite (D c E); reflexivity | fold (in_spans r c); lia]. }
  unfold count4. rewrite !Step. lia.
Qed.

Lemma count4_ext P Q : forall n c, (forall x, P x = Q x) -> count4 P c n = count4 Q c n.
Proof. induction n as [|n IH]; intros c H; cbn [count4]; [reflexivity|]. rewrite H, (IH (c + 1) H). reflexivity. Qed.

Lemma in_spans_covered n c : in_spans (rev n) c = true <-> covered n c.
Proof.
  unfold in_spans, covered. rewrite existsb_exists. split.
  - intros (s & Hs & Hc). apply in_rev in Hs. apply andb_true_iff in Hc. destruct Hc as (A & B). apply Z.leb_le in A. apply Z.ltb_lt in B. exists s. split; [exact Hs | lia].
  - intros (s & Hs & Hc). exists s. split; [apply in_rev in Hs; exact Hs|]. apply andb_true_iff. split; [apply Z.leb_le | apply Z.ltb_lt]; lia.
Qed.

(* the spans of a balanced row of sorted edges, as the accumulator wants them, and what they cover *)
Definition sub_spans (eo : bool) (xs : list (Z * Z)) : list span := rev (snd (row_spans xs eo 0 0 [])).
Definition row_good (eo : bool) (W : Z) (xs : list (Z * Z)) : Prop :=
  sorted_x xs /\ (forall x wd, In (x, wd) xs -> 0 <= x <= 4 * W) /\ masked (fst (fst (row_spans xs eo 0 0 []))) eo = false.

Lemma sub_spans_good eo W xs : row_good eo W xs ->
  spans_ok 0 (4 * W) (sub_spans eo xs) /\ forall c, in_spans (sub_spans eo xs) c = masked (wsum xs c) eo.
Proof.
  intros (S & B & M). split.
  - apply row_spans_ok; [exact S | exact B|]. assert (masked 0 eo = false) as -> by (destruct eo; reflexivity). discriminate.
  - intros c. unfold sub_spans. destruct (row_spans xs eo 0 0 []) as [[w l] n] eqn:R. cbn [fst snd] in *.
    pose proof (row_spans_spec eo xs w l n S R M c) as SP. pose proof (in_spans_covered n c) as IC.
    apply Bool.eq_true_iff_eq. split; intros H.
    + apply SP. apply IC. exact H.
    + apply IC. apply SP. exact H.
Qed.

(* C03, from edges to alpha: a destination row of width W whose four sub-scanlines carry balanced, sorted edge lists inside the
   clip.  AlphaRuns does not panic, and every pixel q ends within 1/16 of 255/16 x K, where K is the number of its 16 sample
   columns (4 per sub-scanline) that the fill rule accepts for the rounded edge abscissas. *)
Theorem aa_row_alpha eo W Y xs0 xs1 xs2 xs3 :
  0 < W -> 0 <= Y -> row_good eo W xs0 -> row_good eo W xs1 -> row_good eo W xs2 -> row_good eo W xs3 ->
  exists s' d, run_subrows (ar_new W) (row_calls Y (sub_spans eo xs0) (sub_spans eo xs1) (sub_spans eo xs2) (sub_spans eo xs3)) = Some s' /\
    dense s' = Some d /\
    forall q, 0 <= q < W -> exists a, getz d q = Some a /\
      let inside xs := count4 (fun c => masked (wsum xs c) eo) (4 * q) 4 in
      let K := inside xs0 + inside xs1 + inside xs2 + inside xs3 in
      0 <= K <= 16 /\ 0 <= a <= 255 /\ Z.abs (16 * a - 255 * K) <= 16 /\ (K = 0 -> a = 0) /\ (K = 16 -> a = 255).
Proof.
  intros HW HY G0 G1 G2 G3.
  destruct (sub_spans_good eo W xs0 G0) as (S0 & I0). destruct (sub_spans_good eo W xs1 G1) as (S1 & I1).
  destruct (sub_spans_good eo W xs2 G2) as (S2 & I2). destruct (sub_spans_good eo W xs3 G3) as (S3 & I3).
  destruct (row_alpha_runs W Y _ _ _ _ HW HY S0 S1 S2 S3) as (s' & d & E & D & P).
  exists s', d. split; [exact E|]. split; [exact D|]. intros q Hq. destruct (P q Hq) as (a & Ga & Pa). exists a. split; [exact Ga|].
  cbv zeta in *.
  rewrite (covs_count (4 * W) _ 0 q S0), (covs_count (4 * W) _ 0 q S1), (covs_count (4 * W) _ 0 q S2), (covs_count (4 * W) _ 0 q S3) in Pa.
  rewrite (count4_ext _ _ 4 (4 * q) I0), (count4_ext _ _ 4 (4 * q) I1), (count4_ext _ _ 4 (4 * q) I2), (count4_ext _ _ 4 (4 * q) I3) in Pa.
  exact Pa.
Qed.
