(* C06 (anti-aliased hairline, the route with NO clipping blitter at all): the rows (columns) written by the walk of one segment
   stay within floor(min) - 1 .. ceil(max) of the segment's own cross coordinates, so a segment whose integer bounds
   [floor(min) - 1, ceil(max) + 1) are inside the pixmap writes only inside the pixmap.  The 16.16 accumulator is extrapolated
   to the centres of the first and last column (up to 31/64 px beyond the end points) and its slope is truncated; the margin
   that keeps it inside the next integer row is 1/64 px. *)
From Coq Require Import ZArith Bool List Lia.
From TS Require Import Base.F32 Base.Checked Gen.FixedGen Model.Rect Model.IntRect Model.PathBuilder Model.HairlineAA Proofs.HairlineAAProofs.
From TS Require Model.LineClip.
Import ListNotations.
Local Open Scope Z_scope.
Ltac Zify.zify_post_hook ::= Z.div_mod_to_equations.

(* the arithmetic core, in coordinates along (u) and across (v) the walking axis, FDot6 *)
Lemma accumulator_bounds u0 v0 u1 v1 x :
  let du := u1 - u0 in let dv := v1 - v0 in
  let S := Z.quot (dv * 65536) du in
  let r0 := u0 mod 64 in
  let istart := u0 / 64 in let istop := (u1 + 63) / 64 in
  let fstart := 1024 * v0 + (S * (32 - r0) + 32) / 64 in
  0 < du -> Z.abs dv <= du -> istart <= x < istop ->
  65536 * (Z.min v0 v1 / 64) <= fstart + 32768 + (x - istart) * S < 65536 * ((Z.max v0 v1 + 63) / 64 + 1).
Proof.
  intros du dv S r0 istart istop fstart Hdu Hdv Hx.
  set (m := x - istart).
  assert (Hm0 : 0 <= m) by (unfold m; lia).
  assert (Hr : 0 <= r0 < 64) by (unfold r0; apply Z.mod_pos_bound; lia).
  assert (Hm : 64 * m <= du - 1 + r0).
  { unfold m, istart, istop, du, r0 in *. lia. }
  (* floor((a)/64) + m*S = floor((a + 64 m S)/64) *)
  assert (Fold : (S * (32 - r0) + 32) / 64 + m * S = (S * (32 - r0 + 64 * m) + 32) / 64).
  { replace (S * (32 - r0 + 64 * m) + 32) with (S * (32 - r0) + 32 + (m * S) * 64) by ring. rewrite Z.div_add by lia. reflexivity. }
  replace (fstart + 32768 + m * S) with (1024 * v0 + ((S * (32 - r0) + 32) / 64 + m * S) + 32768) by (unfold fstart; ring).
  rewrite Fold. set (t := 32 - r0 + 64 * m). assert (Ht : -31 <= t <= du + 31) by (unfold t; lia).
  destruct (Z_le_gt_dec 0 dv) as [P | N].
  - (* ascending *)
    assert (S0 : 0 <= S) by (unfold S; apply Z.quot_pos; lia).
    assert (S1 : S * du <= dv * 65536) by (unfold S; rewrite Z.quot_div_nonneg by lia; pose proof (Z.mul_div_le (dv * 65536) du Hdu); lia).
    assert (S2 : S <= 65536) by (unfold S; rewrite Z.quot_div_nonneg by lia; apply Z.div_le_upper_bound; nia).
    assert (Lo : -31 * 65536 <= S * t) by nia.
    assert (Hi : S * t <= dv * 65536 + 31 * 65536) by nia.
    rewrite Z.min_l, Z.max_r by lia. unfold dv in *. split; lia.
  - (* descending *)
    assert (Sq : S = - ((- dv * 65536) / du)).
    { unfold S. replace (dv * 65536) with (- (- dv * 65536)) by ring. rewrite Z.quot_opp_l by lia. rewrite Z.quot_div_nonneg by lia. reflexivity. }
    assert (S0 : S <= 0) by (rewrite Sq; assert (0 <= (- dv * 65536) / du) by (apply Z.div_pos; lia); lia).
    assert (S1 : dv * 65536 <= S * du) by (rewrite Sq; pose proof (Z.mul_div_le (- dv * 65536) du Hdu); nia).
    assert (S2 : -65536 <= S) by (rewrite Sq; assert ((- dv * 65536) / du <= 65536) by (apply Z.div_le_upper_bound; nia); lia).
    assert (Lo : dv * 65536 - 31 * 65536 <= S * t) by nia.
    assert (Hi : S * t <= 31 * 65536) by nia.
    rewrite Z.min_r, Z.max_l by lia. unfold dv in *. split; lia.
Qed.

(* ---- the generated helpers, when they do not panic ---------------------------------------------------------------------------- *)
Lemma to_fdot16_some n r : fdot6_to_fdot16 n = Some r -> r = 1024 * n.
Proof.
  unfold fdot6_to_fdot16. destruct (shr (left_shift n 10) 10 =? n) eqn:E; [|discriminate]. intros H. injection H as H. subst r.
  apply Z.eqb_eq in E. unfold shr in E. rewrite Z.shiftr_div_pow2 in E by lia. change (2 ^ 10) with 1024 in *.
  unfold left_shift, wrap_i, wrap_u in *. change (2 ^ (32 - 1)) with 2147483648 in *. change (2 ^ 32) with 4294967296 in *. lia.
Qed.
Lemma fast_div_some a b s : fdot16_fast_div a b = Some s -> b <> 0 /\ s = Z.quot (a * 65536) b.
Proof.
  unfold fdot16_fast_div. destruct (shr (left_shift a 16) 16 =? a) eqn:E; [|discriminate].
  destruct (negb (b =? 0)) eqn:B; [|discriminate]. apply negb_true_iff, Z.eqb_neq in B.
  assert (L : left_shift a 16 = a * 65536).
  { apply Z.eqb_eq in E. unfold shr in E. rewrite Z.shiftr_div_pow2 in E by lia. change (2 ^ 16) with 65536 in *.
    unfold left_shift, wrap_i, wrap_u in *. change (2 ^ (32 - 1)) with 2147483648 in *. change (2 ^ 32) with 4294967296 in *. lia. }
  rewrite L. unfold div_i. destruct (b =? 0) eqn:B0; [apply Z.eqb_eq in B0; contradiction|].
  destruct ((a * 65536 =? - 2 ^ (32 - 1)) && (b =? -1)); [discriminate|]. intros H. injection H as H. auto.
Qed.
Lemma fdot6_ceil_some n r : fdot6_ceil n = Some r -> r = (n + 63) / 64.
Proof.
  unfold fdot6_ceil. intros H. apply obind_some in H. destruct H as (t & H0 & H). apply ck_i_some in H0. injection H as H. subst.
  unfold shr. rewrite Z.shiftr_div_pow2 by lia. reflexivity.
Qed.
Lemma fdot6_floor_eq n : fdot6_floor n = n / 64.
Proof. unfold fdot6_floor, shr. rewrite Z.shiftr_div_pow2 by lia. reflexivity. Qed.
Lemma land63 n : Z.land n 63 = n mod 64.
Proof. change 63 with (Z.ones 6). rewrite Z.land_ones by lia. reflexivity. Qed.

(* ---- rows of an unclipped mostly-horizontal walk from bounds on its accumulator ----------------------------------------------- *)
Lemma walk_hline_rows istart istop fstart slope s0 s1 out :
  walk HLine None istart istop fstart slope s0 s1 = Some out -> 65536 <= fstart + half16 ->
  forall x y a, In (x, y, a) out -> istart <= x < istop /\ (y = (fstart + half16) / 65536 \/ y = (fstart + half16) / 65536 - 1) /\ 0 < a.
Proof.
  unfold walk. intros H Hf.
  destruct ((istart <? 0) || (istop <? 0)); [discriminate|].
  apply bind_some in H. destruct H as (r1 & C1 & H).
  destruct (istop - (istart + 1) - (if 0 <? s1 then 1 else 0) <? 0) eqn:Ef; [discriminate|]. apply Z.ltb_ge in Ef.
  apply bind_some in H. destruct H as (r2 & C2 & H). apply bind_some in H. destruct H as (r3 & C3 & H).
  injection H as H. subst out.
  destruct (hline_cap _ _ _ _ _ _ C1 Hf) as (S1 & P1).
  assert (R2 : snd r2 = fstart /\ forall x y a, In (x, y, a) (fst r2) -> istart + 1 <= x < istop /\ (y = (fstart + half16) / 65536 \/ y = (fstart + half16) / 65536 - 1) /\ 0 < a).
  { destruct (0 <? istop - (istart + 1) - (if 0 <? s1 then 1 else 0)).
    - rewrite S1 in C2. destruct (hline_line _ _ _ _ _ _ C2 Hf) as (S2 & P2). split; [exact S2|]. intros x y a Hin.
      destruct (P2 x y a Hin) as (A & B & C). split; [destruct (0 <? s1); lia | auto].
    - injection C2 as C2. subst r2. cbn [fst snd]. split; [exact S1 | intros x y a []]. }
  destruct R2 as (S2 & P2).
  intros x y a Hin. apply in_app_or in Hin. destruct Hin as [Hin | Hin].
  - destruct (P1 x y a Hin) as (A & B & C). subst x. split; [destruct (0 <? s1); lia | auto].
  - apply in_app_or in Hin. destruct Hin as [Hin | Hin].
    + destruct (P2 x y a Hin) as (A & B & C). split; [lia | auto].
    + destruct (0 <? s1) eqn:Es.
      * rewrite S2 in C3. destruct (hline_cap _ _ _ _ _ _ C3 Hf) as (_ & P3). destruct (P3 x y a Hin) as (A & B & C). subst x. split; [lia | auto].
      * injection C3 as C3. subst r3. destruct Hin.
Qed.

Lemma walk_h_rows k istart istop fstart slope s0 s1 out A B :
  (k = HLine /\ slope = 0) \/ k = Horish ->
  walk k None istart istop fstart slope s0 s1 = Some out ->
  (forall x, istart <= x < istop -> 65536 * A <= fstart + 32768 + (x - istart) * slope < 65536 * (B + 1)) -> 1 <= A ->
  forall x y a, In (x, y, a) out -> istart <= x < istop /\ A - 1 <= y <= B /\ 0 < a.
Proof.
  intros K H HF HA x y a Hin. destruct K as [(-> & ->) | ->].
  - assert (Hn : istart < istop).
    { unfold walk in H. destruct ((istart <? 0) || (istop <? 0)); [discriminate|]. apply bind_some in H. destruct H as (r1 & _ & H).
      destruct (istop - (istart + 1) - (if 0 <? s1 then 1 else 0) <? 0) eqn:Ef; [discriminate|]. apply Z.ltb_ge in Ef. destruct (0 <? s1); lia. }
    specialize (HF istart ltac:(lia)). replace ((istart - istart) * 0) with 0 in HF by ring.
    assert (Hf : 65536 <= fstart + half16) by (unfold half16; lia).
    destruct (walk_hline_rows _ _ _ _ _ _ _ H Hf x y a Hin) as (X & Y & Z). split; [exact X|]. split; [|exact Z]. unfold half16 in *. lia.
  - assert (NN : forall i, 0 <= i < istop - istart -> 0 <= fstart + half16 + i * slope).
    { intros i Hi. specialize (HF (istart + i) ltac:(lia)). replace (istart + i - istart) with i in HF by lia. unfold half16. lia. }
    destruct (walk_horish_within None istart istop fstart slope s0 s1 out H NN x y a Hin) as (X & Y & Z). split; [exact X|]. split; [|exact Z].
    unfold rows_of in Y. cbv zeta in Y. specialize (HF x X). unfold dec1, half16 in *. lia.
Qed.

(* THE statement, mostly-horizontal segments: without any clipping blitter, the pixels of one (unsubdivided) segment lie in the
   columns floor(min x) .. ceil(max x) - 1 and in the rows floor(min y) - 1 .. ceil(max y) *)
Theorem short_unclipped_horizontal x0 y0 x1 y1 out :
  anti_hairline_short x0 y0 x1 y1 None = Some out ->
  Z.abs (y1 - y0) < Z.abs (x1 - x0) -> 64 <= Z.min y0 y1 ->
  forall x y a, In (x, y, a) out ->
    Z.min x0 x1 / 64 <= x < (Z.max x0 x1 + 63) / 64 /\ Z.min y0 y1 / 64 - 1 <= y <= (Z.max y0 y1 + 63) / 64 /\ 0 < a.
Proof.
  intros H Hd Hy. unfold anti_hairline_short in H.
  apply bind_some in H. destruct H as (dxa & E1 & H). apply ck_some in E1. destruct E1 as (E1 & _).
  apply bind_some in H. destruct H as (dya & E2 & H). apply ck_some in E2. destruct E2 as (E2 & _). subst dxa dya.
  destruct (Z.ltb_spec (Z.abs (y1 - y0)) (Z.abs (x1 - x0))) as [_ | C]; [|lia].
  (* the swap *)
  assert (SW : exists xa ya xb yb, (if x1 <? x0 then (x1, y1, x0, y0) else (x0, y0, x1, y1)) = (xa, ya, xb, yb) /\
               xa < xb /\ Z.abs (yb - ya) <= xb - xa /\ xa = Z.min x0 x1 /\ xb = Z.max x0 x1 /\ Z.min ya yb = Z.min y0 y1 /\ Z.max ya yb = Z.max y0 y1).
  { destruct (Z.ltb_spec x1 x0); [exists x1, y1, x0, y0 | exists x0, y0, x1, y1]; (split; [reflexivity|]); lia. }
  destruct SW as (xa & ya & xb & yb & Esw & Hlt & Hab & Hxa & Hxb & Hmin & Hmax). rewrite Esw in H. clear Esw.
  apply bind_some in H. destruct H as (istop & Ec & H). apply fdot6_ceil_some in Ec.
  apply bind_some in H. destruct H as (f0 & Ef & H). apply to_fdot16_some in Ef.
  apply bind_some in H. destruct H as (slf & Eslf & H). destruct slf as ((slope, fstart), k).
  rewrite fdot6_floor_eq in H.
  destruct (istop <=? xa / 64); [discriminate|].
  apply bind_some in H. destruct H as (sc & _ & H). destruct sc as (s0, s1).
  (* the accumulator of the set-up is the one of accumulator_bounds *)
  assert (K : ((k = HLine /\ slope = 0) \/ k = Horish) /\ slope = Z.quot ((yb - ya) * 65536) (xb - xa) /\
              fstart = 1024 * ya + (slope * (32 - xa mod 64) + 32) / 64).
  { destruct (Z.eqb_spec ya yb) as [Ey | Ey].
    - injection Eslf as ? ? ?. subst. split; [left; auto|]. replace (yb - yb) with 0 by lia. cbn [Z.mul]. rewrite Z.quot_0_l by lia. split; [reflexivity|].
      cbn [Z.mul]. change ((0 + 32) / 64) with 0. lia.
    - apply bind_some in Eslf. destruct Eslf as (dy & Edy & Eslf). apply ck_some in Edy. destruct Edy as (Edy & _).
      apply bind_some in Eslf. destruct Eslf as (dx & Edx & Eslf). apply ck_some in Edx. destruct Edx as (Edx & _).
      apply bind_some in Eslf. destruct Eslf as (sl & Esl & Eslf). apply fast_div_some in Esl. destruct Esl as (_ & Esl).
      destruct ((sl <? -65536) || (65536 <? sl)); [discriminate|].
      apply bind_some in Eslf. destruct Eslf as (t1 & Et1 & Eslf). apply ck_some in Et1. destruct Et1 as (Et1 & _).
      apply bind_some in Eslf. destruct Eslf as (t2 & Et2 & Eslf). apply ck_some in Et2. destruct Et2 as (Et2 & _).
      apply bind_some in Eslf. destruct Eslf as (ff & Eff & Eslf). apply ck_some in Eff. destruct Eff as (Eff & _).
      injection Eslf as ? ? ?. subst. split; [right; reflexivity|]. split; [reflexivity|].
      rewrite land63. unfold shr. rewrite Z.shiftr_div_pow2 by lia. change (2 ^ 6) with 64. lia. }
  destruct K as (Kk & Ks & Kf).
  intros x y a Hin.
  assert (HB : forall x, xa / 64 <= x < istop -> 65536 * (Z.min ya yb / 64) <= fstart + 32768 + (x - xa / 64) * slope < 65536 * ((Z.max ya yb + 63) / 64 + 1)).
  { intros x' Hx'. subst istop slope fstart. apply accumulator_bounds; lia. }
  assert (HA : 1 <= Z.min ya yb / 64) by (rewrite Hmin; apply Z.div_le_lower_bound; lia).
  destruct (walk_h_rows k (xa / 64) istop fstart slope s0 s1 out _ _ Kk H HB HA x y a Hin) as (X & Y & Z).
  rewrite Hmin, Hmax in Y. subst. auto.
Qed.

(* ---- mostly-vertical segments ----------------------------------------------------------------------------------------------------- *)
Lemma walk_vline_cols istart istop fstart s0 s1 out :
  walk VLine None istart istop fstart 0 s0 s1 = Some out -> 65536 <= fstart + half16 ->
  forall x y a, In (x, y, a) out -> istart <= y < istop /\ (x = (fstart + half16) / 65536 \/ x = (fstart + half16) / 65536 - 1) /\ 0 < a.
Proof.
  unfold walk. intros H Hf.
  destruct ((istart <? 0) || (istop <? 0)); [discriminate|].
  apply bind_some in H. destruct H as (r1 & C1 & H).
  destruct (istop - (istart + 1) - (if 0 <? s1 then 1 else 0) <? 0) eqn:Ef; [discriminate|]. apply Z.ltb_ge in Ef.
  apply bind_some in H. destruct H as (r2 & C2 & H). apply bind_some in H. destruct H as (r3 & C3 & H).
  injection H as H. subst out.
  destruct (vline_cap _ _ _ _ _ C1 Hf) as (S1 & P1).
  assert (R2 : snd r2 = fstart /\ forall x y a, In (x, y, a) (fst r2) -> istart + 1 <= y < istop /\ (x = (fstart + half16) / 65536 \/ x = (fstart + half16) / 65536 - 1) /\ 0 < a).
  { destruct (0 <? istop - (istart + 1) - (if 0 <? s1 then 1 else 0)).
    - rewrite S1 in C2. destruct (vline_line _ _ _ _ _ C2 Hf) as (S2 & P2). split; [exact S2|]. intros x y a Hin.
      destruct (P2 x y a Hin) as (A & B & C). split; [destruct (0 <? s1); lia | auto].
    - injection C2 as C2. subst r2. cbn [fst snd]. split; [exact S1 | intros x y a []]. }
  destruct R2 as (S2 & P2).
  intros x y a Hin. apply in_app_or in Hin. destruct Hin as [Hin | Hin].
  - destruct (P1 x y a Hin) as (A & B & C). subst y. split; [destruct (0 <? s1); lia | auto].
  - apply in_app_or in Hin. destruct Hin as [Hin | Hin].
    + destruct (P2 x y a Hin) as (A & B & C). split; [lia | auto].
    + destruct (0 <? s1) eqn:Es.
      * rewrite S2 in C3. destruct (vline_cap _ _ _ _ _ C3 Hf) as (_ & P3). destruct (P3 x y a Hin) as (A & B & C). subst y. split; [lia | auto].
      * injection C3 as C3. subst r3. destruct Hin.
Qed.

Lemma walk_v_cols k istart istop fstart slope s0 s1 out A B :
  (k = VLine /\ slope = 0) \/ k = Vertish ->
  walk k None istart istop fstart slope s0 s1 = Some out ->
  (forall y, istart <= y < istop -> 65536 * A <= fstart + 32768 + (y - istart) * slope < 65536 * (B + 1)) -> 1 <= A ->
  forall x y a, In (x, y, a) out -> istart <= y < istop /\ A - 1 <= x <= B /\ 0 < a.
Proof.
  intros K H HF HA x y a Hin. destruct K as [(-> & ->) | ->].
  - assert (Hn : istart < istop).
    { unfold walk in H. destruct ((istart <? 0) || (istop <? 0)); [discriminate|]. apply bind_some in H. destruct H as (r1 & _ & H).
      destruct (istop - (istart + 1) - (if 0 <? s1 then 1 else 0) <? 0) eqn:Ef; [discriminate|]. apply Z.ltb_ge in Ef. destruct (0 <? s1); lia. }
    specialize (HF istart ltac:(lia)). replace ((istart - istart) * 0) with 0 in HF by ring.
    assert (Hf : 65536 <= fstart + half16) by (unfold half16; lia).
    destruct (walk_vline_cols _ _ _ _ _ _ H Hf x y a Hin) as (X & Y & Z). split; [exact X|]. split; [|exact Z]. unfold half16 in *. lia.
  - rewrite walk_tr in H. cbn [swapc] in H.
    destruct (walk Horish None istart istop fstart slope s0 s1) as [o|] eqn:W; [|discriminate]. injection H as H. subst out.
    apply in_map_iff in Hin. destruct Hin as (((x', y'), a') & E & Hin). cbn in E. inversion E. subst.
    destruct (walk_h_rows Horish istart istop fstart slope s0 s1 o A B (or_intror eq_refl) W HF HA y x a Hin) as (X & Y & Z). auto.
Qed.

Theorem short_unclipped_vertical x0 y0 x1 y1 out :
  anti_hairline_short x0 y0 x1 y1 None = Some out ->
  Z.abs (x1 - x0) <= Z.abs (y1 - y0) -> 64 <= Z.min x0 x1 ->
  forall x y a, In (x, y, a) out ->
    Z.min y0 y1 / 64 <= y < (Z.max y0 y1 + 63) / 64 /\ Z.min x0 x1 / 64 - 1 <= x <= (Z.max x0 x1 + 63) / 64 /\ 0 < a.
Proof.
  intros H Hd Hx. unfold anti_hairline_short in H.
  apply bind_some in H. destruct H as (dxa & E1 & H). apply ck_some in E1. destruct E1 as (E1 & _).
  apply bind_some in H. destruct H as (dya & E2 & H). apply ck_some in E2. destruct E2 as (E2 & _). subst dxa dya.
  destruct (Z.ltb_spec (Z.abs (y1 - y0)) (Z.abs (x1 - x0))) as [C | _]; [lia|].
  assert (SW : exists xa ya xb yb, (if y1 <? y0 then (x1, y1, x0, y0) else (x0, y0, x1, y1)) = (xa, ya, xb, yb) /\
               ya <= yb /\ Z.abs (xb - xa) <= yb - ya /\ ya = Z.min y0 y1 /\ yb = Z.max y0 y1 /\ Z.min xa xb = Z.min x0 x1 /\ Z.max xa xb = Z.max x0 x1).
  { destruct (Z.ltb_spec y1 y0); [exists x1, y1, x0, y0 | exists x0, y0, x1, y1]; (split; [reflexivity|]); lia. }
  destruct SW as (xa & ya & xb & yb & Esw & Hle & Hab & Hya & Hyb & Hmin & Hmax). rewrite Esw in H. clear Esw.
  apply bind_some in H. destruct H as (istop & Ec & H). apply fdot6_ceil_some in Ec.
  apply bind_some in H. destruct H as (f0 & Ef & H). apply to_fdot16_some in Ef.
  destruct ((xa =? xb) && (ya =? yb)) eqn:Z0; [injection H as H; subst out; intros x y a []|].
  assert (Hlt : ya < yb).
  { apply andb_false_iff in Z0. destruct Z0 as [Z0 | Z0]; apply Z.eqb_neq in Z0; lia. }
  apply bind_some in H. destruct H as (slf & Eslf & H). destruct slf as ((slope, fstart), k).
  rewrite fdot6_floor_eq in H.
  destruct (istop <=? ya / 64); [discriminate|].
  apply bind_some in H. destruct H as (sc & _ & H). destruct sc as (s0, s1).
  assert (K : ((k = VLine /\ slope = 0) \/ k = Vertish) /\ slope = Z.quot ((xb - xa) * 65536) (yb - ya) /\
              fstart = 1024 * xa + (slope * (32 - ya mod 64) + 32) / 64).
  { destruct (Z.eqb_spec xa xb) as [Ey | Ey].
    - injection Eslf as ? ? ?. subst. split; [left; auto|]. replace (xb - xb) with 0 by lia. cbn [Z.mul]. rewrite Z.quot_0_l by lia. split; [reflexivity|].
      cbn [Z.mul]. change ((0 + 32) / 64) with 0. lia.
    - apply bind_some in Eslf. destruct Eslf as (dx & Edx & Eslf). apply ck_some in Edx. destruct Edx as (Edx & _).
      apply bind_some in Eslf. destruct Eslf as (dy & Edy & Eslf). apply ck_some in Edy. destruct Edy as (Edy & _).
      apply bind_some in Eslf. destruct Eslf as (sl & Esl & Eslf). apply fast_div_some in Esl. destruct Esl as (_ & Esl).
      destruct ((sl <? -65536) || (65536 <? sl)); [discriminate|].
      apply bind_some in Eslf. destruct Eslf as (t1 & Et1 & Eslf). apply ck_some in Et1. destruct Et1 as (Et1 & _).
      apply bind_some in Eslf. destruct Eslf as (t2 & Et2 & Eslf). apply ck_some in Et2. destruct Et2 as (Et2 & _).
      apply bind_some in Eslf. destruct Eslf as (ff & Eff & Eslf). apply ck_some in Eff. destruct Eff as (Eff & _).
      injection Eslf as ? ? ?. subst. split; [right; reflexivity|]. split; [reflexivity|].
      rewrite land63. unfold shr. rewrite Z.shiftr_div_pow2 by lia. change (2 ^ 6) with 64. lia. }
  destruct K as (Kk & Ks & Kf).
  intros x y a Hin.
  assert (HB : forall y, ya / 64 <= y < istop -> 65536 * (Z.min xa xb / 64) <= fstart + 32768 + (y - ya / 64) * slope < 65536 * ((Z.max xa xb + 63) / 64 + 1)).
  { intros y' Hy'. subst istop slope fstart. apply accumulator_bounds; lia. }
  assert (HA : 1 <= Z.min xa xb / 64) by (rewrite Hmin; apply Z.div_le_lower_bound; lia).
  destruct (walk_v_cols k (ya / 64) istop fstart slope s0 s1 out _ _ Kk H HB HA x y a Hin) as (X & Y & Z).
  rewrite Hmin, Hmax in Y. subst. auto.
Qed.

(* THE statement for the route without any clipping blitter: every pixel of an (unsubdivided) segment lies inside the integer
   rectangle ir = [floor(min x) - 1, ceil(max x) + 1) x [floor(min y) - 1, ceil(max y) + 1) that anti_hair_line_rgn tests
   against the clip before it takes this route (FDot6 coordinates; the route is only taken when ir is inside the pixmap,
   hence floor(min) - 1 >= 0, i.e. min >= 64) *)
Theorem short_unclipped_inside_ir x0 y0 x1 y1 out :
  anti_hairline_short x0 y0 x1 y1 None = Some out ->
  64 <= Z.min x0 x1 -> 64 <= Z.min y0 y1 ->
  forall x y a, In (x, y, a) out ->
    Z.min x0 x1 / 64 - 1 <= x < (Z.max x0 x1 + 63) / 64 + 1 /\ Z.min y0 y1 / 64 - 1 <= y < (Z.max y0 y1 + 63) / 64 + 1 /\ 0 < a.
Proof.
  intros H Hx Hy x y a Hin.
  destruct (Z_lt_le_dec (Z.abs (y1 - y0)) (Z.abs (x1 - x0))) as [C | C].
  - destruct (short_unclipped_horizontal x0 y0 x1 y1 out H C Hy x y a Hin) as (X & Y & A). lia.
  - destruct (short_unclipped_vertical x0 y0 x1 y1 out H C Hx x y a Hin) as (Y & X & A). lia.
Qed.

(* ---- subdivision of long segments ------------------------------------------------------------------------------------------------ *)
Lemma half_sum_bounds a b : Z.min a b - (if Z.odd (Z.min a b) then 1 else 0) <= shr a 1 + shr b 1 <= Z.max a b.
Proof.
  unfold shr. rewrite !Z.shiftr_div_pow2 by lia. change (2 ^ 1) with 2.
  destruct (Z.odd (Z.min a b)) eqn:O.
  - lia.
  - assert (E : Z.even (Z.min a b) = true) by (rewrite <- Z.negb_odd, O; reflexivity). apply Z.even_spec in E. destruct E as (k & E).
    destruct (Z.min_spec a b) as [(L & M) | (L & M)]; rewrite M in *; lia.
Qed.

Lemma floor64_half_lo m h : m - (if Z.odd m then 1 else 0) <= h -> m / 64 <= h / 64.
Proof.
  intros H. destruct (Z.odd m) eqn:O.
  - (* m odd: m - 1 and m have the same floor *)
    assert ((m - 1) / 64 = m / 64).
    { apply Z.odd_spec in O. destruct O as (k & O). lia. }
    rewrite <- H0. apply Z.div_le_mono; lia.
  - apply Z.div_le_mono; lia.
Qed.

Lemma min_div_le m a b : m / 64 <= a / 64 -> m / 64 <= b / 64 -> m / 64 <= Z.min a b / 64.
Proof. intros Ha Hb. destruct (Z.min_spec a b) as [(_ & ->) | (_ & ->)]; assumption. Qed.

(* THE statement for the route without any clipping blitter, subdivision included *)
Theorem do_anti_hairline_unclipped_inside fuel : forall x0 y0 x1 y1 out,
  do_anti_hairline fuel x0 y0 x1 y1 None = Some out ->
  64 <= Z.min x0 x1 -> 64 <= Z.min y0 y1 ->
  forall x y a, In (x, y, a) out ->
    Z.min x0 x1 / 64 - 1 <= x < (Z.max x0 x1 + 63) / 64 + 1 /\ Z.min y0 y1 / 64 - 1 <= y < (Z.max y0 y1 + 63) / 64 + 1 /\ 0 < a.
Proof.
  induction fuel as [|n IH]; intros x0 y0 x1 y1 out H Hx Hy x y a Hin; cbn [do_anti_hairline] in H.
  - destruct (_ || _); [discriminate|]. destruct (negb _); [discriminate|].
    apply bind_some in H. destruct H as (dx & _ & H). apply bind_some in H. destruct H as (dy & _ & H).
    destruct ((32704 <? Z.abs dx) || (32704 <? Z.abs dy)); [discriminate|].
    exact (short_unclipped_inside_ir _ _ _ _ _ H Hx Hy x y a Hin).
  - destruct (_ || _); [discriminate|]. destruct (negb _); [discriminate|].
    apply bind_some in H. destruct H as (dx & _ & H). apply bind_some in H. destruct H as (dy & _ & H).
    destruct ((32704 <? Z.abs dx) || (32704 <? Z.abs dy)).
    + apply bind_some in H. destruct H as (hx & Ehx & H). apply ck_some in Ehx. destruct Ehx as (Ehx & _).
      apply bind_some in H. destruct H as (hy & Ehy & H). apply ck_some in Ehy. destruct Ehy as (Ehy & _).
      apply bind_some in H. destruct H as (o1 & E1 & H). apply bind_some in H. destruct H as (o2 & E2 & H).
      injection H as H. subst out.
      pose proof (half_sum_bounds x0 x1) as Bx. pose proof (half_sum_bounds y0 y1) as By. rewrite <- Ehx in Bx. rewrite <- Ehy in By.
      assert (Lx : Z.min x0 x1 / 64 <= hx / 64) by (apply floor64_half_lo; lia).
      assert (Ly : Z.min y0 y1 / 64 <= hy / 64) by (apply floor64_half_lo; lia).
      assert (Gx : 64 <= hx) by (destruct (Z.odd (Z.min x0 x1)) eqn:O; [apply Z.odd_spec in O; destruct O as (k & O); lia | lia]).
      assert (Gy : 64 <= hy) by (destruct (Z.odd (Z.min y0 y1)) eqn:O; [apply Z.odd_spec in O; destruct O as (k & O); lia | lia]).
      assert (Ux : (hx + 63) / 64 <= (Z.max x0 x1 + 63) / 64) by (apply Z.div_le_mono; lia).
      assert (Uy : (hy + 63) / 64 <= (Z.max y0 y1 + 63) / 64) by (apply Z.div_le_mono; lia).
      apply in_app_or in Hin. destruct Hin as [Hin | Hin].
      * destruct (IH _ _ _ _ _ E1 ltac:(lia) ltac:(lia) x y a Hin) as (X & Y & A).
        assert (Z.min x0 x1 / 64 <= Z.min x0 hx / 64) by (apply min_div_le; [apply Z.div_le_mono; lia | exact Lx]).
        assert (Z.min y0 y1 / 64 <= Z.min y0 hy / 64) by (apply min_div_le; [apply Z.div_le_mono; lia | exact Ly]).
        assert ((Z.max x0 hx + 63) / 64 <= (Z.max x0 x1 + 63) / 64) by (apply Z.div_le_mono; lia).
        assert ((Z.max y0 hy + 63) / 64 <= (Z.max y0 y1 + 63) / 64) by (apply Z.div_le_mono; lia).
        lia.
      * destruct (IH _ _ _ _ _ E2 ltac:(lia) ltac:(lia) x y a Hin) as (X & Y & A).
        assert (Z.min x0 x1 / 64 <= Z.min hx x1 / 64) by (apply min_div_le; [exact Lx | apply Z.div_le_mono; lia]).
        assert (Z.min y0 y1 / 64 <= Z.min hy y1 / 64) by (apply min_div_le; [exact Ly | apply Z.div_le_mono; lia]).
        assert ((Z.max hx x1 + 63) / 64 <= (Z.max x0 x1 + 63) / 64) by (apply Z.div_le_mono; lia).
        assert ((Z.max hy y1 + 63) / 64 <= (Z.max y0 y1 + 63) / 64) by (apply Z.div_le_mono; lia).
        lia.
    + exact (short_unclipped_inside_ir _ _ _ _ _ H Hx Hy x y a Hin).
Qed.


(* ---- anti_hair_line_rgn for one segment: every pixel is inside the w x h pixmap ---------------------------------------------------- *)
Ltac ir_binds H := repeat (let a := fresh "v" in let E := fresh "E" in apply bind_some in H; destruct H as (a & E & H)).

Lemma ir_from_xywh_fields x y w h r : ir_from_xywh x y w h = Some r -> ix r = x /\ iy r = y /\ iw r = w /\ ih r = h /\ w <> 0 /\ h <> 0.
Proof.
  unfold ir_from_xywh. intros H. ir_binds H. destruct ((w =? 0) || (h =? 0)) eqn:Ez; [discriminate|]. injection H as H. subst r. cbn.
  apply orb_false_iff in Ez. destruct Ez as (Z1 & Z2). apply Z.eqb_neq in Z1, Z2. repeat split; auto.
Qed.

Lemma ir_from_ltrb_fields l t r b ir : ir_from_ltrb l t r b = Some ir ->
  ix ir = l /\ iy ir = t /\ ir_right ir = r /\ ir_bottom ir = b /\ l < r /\ t < b.
Proof.
  unfold ir_from_ltrb. intros H. ir_binds H.
  unfold checked_sub, checked_i32 in *. unfold u32_of_i32 in *.
  repeat match goal with E : (if ?c then _ else _) = Some _ |- _ => destruct c eqn:?; [let N := fresh "N" in injection E as N | discriminate E] end. subst.
  match type of H with (if ?c then _ else _) = _ => destruct c eqn:Ez; [discriminate|] end. injection H as H. subst ir.
  apply orb_false_iff in Ez. destruct Ez as (Z1 & Z2). apply Z.eqb_neq in Z1, Z2.
  unfold ir_right, ir_bottom. cbn [ix iy iw ih].
  repeat match goal with E : (0 <=? _) = true |- _ => apply Z.leb_le in E end. lia.
Qed.

Lemma ir_intersect_fields a b s : ir_intersect a b = Some s ->
  ix s = Z.max (ix a) (ix b) /\ iy s = Z.max (iy a) (iy b) /\
  ir_right s = Z.min (ir_right a) (ir_right b) /\ ir_bottom s = Z.min (ir_bottom a) (ir_bottom b).
Proof.
  unfold ir_intersect. cbv zeta. intros H. ir_binds H.
  unfold checked_sub, checked_i32 in *. unfold u32_of_i32 in *.
  repeat match goal with E : (if ?c then _ else _) = Some _ |- _ => destruct c eqn:?; [let N := fresh "N" in injection E as N | discriminate E] end. subst.
  match type of H with (if ?c then _ else _) = _ => destruct c eqn:Ez; [discriminate|] end. injection H as H. subst s.
  unfold ir_right, ir_bottom in *. cbn [ix iy iw ih]. lia.
Qed.

Theorem anti_hair_line_rgn_seg_inside w h p0 p1 out :
  0 < w -> 0 < h ->
  anti_hair_line_rgn_seg w h p0 p1 = Some out ->
  forall x y a, In (x, y, a) out -> 0 <= x < w /\ 0 <= y < h /\ 0 < a.
Proof.
  intros Hw Hh H. unfold anti_hair_line_rgn_seg in H.
  destruct fixed_bounds as [fb|]; [|discriminate].
  destruct (Rect.from_ltrb _ _ _ _) as [cb|]; [|discriminate].
  destruct (ir_from_xywh 0 0 w h) as [clip|] eqn:Ec; [|discriminate].
  destruct (ir_from_xywh_fields _ _ _ _ _ Ec) as (Cx & Cy & Cw & Ch & _).
  destruct (LineClip.intersect p0 p1 fb) as [(a0, b0)|]; [|injection H as H; subst out; intros x y a []].
  destruct (LineClip.intersect a0 b0 cb) as [(c, d)|]; [|injection H as H; subst out; intros x y a []].
  set (x0 := fdot6_of (px c)) in *. set (y0 := fdot6_of (py c)) in *. set (x1 := fdot6_of (px d)) in *. set (y1 := fdot6_of (py d)) in *.
  cbv zeta in H.
  apply bind_some in H. destruct H as (r & Er & H). apply fdot6_ceil_some in Er.
  apply bind_some in H. destruct H as (b' & Eb & H). apply fdot6_ceil_some in Eb.
  apply bind_some in H. destruct H as (l' & El & H). apply ck_some in El. destruct El as (El & _).
  apply bind_some in H. destruct H as (t' & Et & H). apply ck_some in Et. destruct Et as (Et & _).
  apply bind_some in H. destruct H as (r' & Er' & H). apply ck_some in Er'. destruct Er' as (Er' & _).
  apply bind_some in H. destruct H as (b'' & Eb' & H). apply ck_some in Eb'. destruct Eb' as (Eb' & _).
  rewrite !fdot6_floor_eq in *.
  destruct (ir_from_ltrb l' t' r' b'') as [ir|] eqn:Eir; [|injection H as H; subst out; intros x y a []].
  destruct (ir_from_ltrb_fields _ _ _ _ _ Eir) as (Ix & Iy & Ir & Ib & _ & _).
  destruct (ir_intersect clip ir) as [sub|] eqn:Es; [|injection H as H; subst out; intros x y a []].
  destruct (ir_intersect_fields _ _ _ Es) as (Sx & Sy & Sr & Sb).
  unfold ir_right, ir_bottom in *. 
  destruct (ir_contains clip ir) eqn:Ect.
  - (* no clipping blitter at all *)
    unfold ir_contains, ir_right, ir_bottom in Ect. repeat (apply andb_true_iff in Ect; destruct Ect as (Ect & ?)).
    repeat match goal with E : (_ <=? _) = true |- _ => apply Z.leb_le in E end.
    intros x y a Hin.
    assert (Hx : 64 <= Z.min x0 x1) by lia. assert (Hy : 64 <= Z.min y0 y1) by lia.
    destruct (do_anti_hairline_unclipped_inside _ _ _ _ _ _ H Hx Hy x y a Hin) as (X & Y & A). lia.
  - destruct ((ix sub <? 0) || (iy sub <? 0)) eqn:Eneg; [injection H as H; subst out; intros x y a []|].
    apply orb_false_iff in Eneg. destruct Eneg as (N1 & N2). apply Z.ltb_ge in N1, N2.
    intros x y a Hin.
    destruct (do_anti_hairline_clipped_inside _ _ _ _ _ _ _ _ _ _ N1 N2 H x y a Hin) as (X & Y & A). lia.
Qed.
