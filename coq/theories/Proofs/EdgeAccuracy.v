(* C02: how far the fixed-point abscissa of a line edge is from the true line.
   LineEdge::new turns the end points into FDot6 (1/64 px), takes slope = trunc(65536 dx / dy), starts at
   x0 + (slope * dy0 >> 16) where dy0 is the distance from y0 to the centre of the first row, and the walker adds the slope
   once per row.  On row first_y + k the FDot16 abscissa differs from the exact line through the FDot6 end points, taken at
   the row centre, by at most (1025 + k) / 65536 px: 1/64 px from the truncated start plus one unit of slope error per row. *)
From Coq Require Import ZArith Bool List Lia.
From TS Require Import Base.F32 Model.Rect Model.PathBuilder Model.Edge Proofs.WalkProofs.
Import ListNotations.
Local Open Scope Z_scope.

(* the arithmetic core: q = trunc(65536 dx / dy), m = floor(q dy0 / 65536), X_k = 1024 (x0 + m) + k q *)
Lemma x_error_core x0 dx dy dy0 k q m :
  0 < dy -> 0 < dy0 <= 64 -> 0 <= k -> q = Z.quot (dx * 65536) dy -> m = (q * dy0) / 65536 ->
  let X := 1024 * (x0 + m) + k * q in
  Z.abs (64 * (dy * X - 1024 * x0 * dy) - 65536 * dx * (dy0 + 64 * k)) <= 64 * dy * (1025 + k).
Proof.
  intros Hdy Hdy0 Hk Hq Hm X.
  pose proof (Z.quot_rem' (dx * 65536) dy) as QR. rewrite <- Hq in QR.
  pose proof (Z.rem_bound_abs (dx * 65536) dy ltac:(lia)) as RB.
  set (rm := Z.rem (dx * 65536) dy) in *.
  pose proof (Z.div_mod (q * dy0) 65536 ltac:(lia)) as DM. rewrite <- Hm in DM.
  pose proof (Z.mod_pos_bound (q * dy0) 65536 ltac:(lia)) as MB.
  set (r2 := (q * dy0) mod 65536) in *.
  assert (E : 64 * (dy * X - 1024 * x0 * dy) - 65536 * dx * (dy0 + 64 * k) = - (dy * r2) - rm * (dy0 + 64 * k)).
  { unfold X. nia. }
  rewrite E.
  assert (A1 : 0 <= dy * r2 <= dy * 65535) by nia.
  assert (A2 : Z.abs (rm * (dy0 + 64 * k)) <= (dy - 1) * (64 + 64 * k)).
  { rewrite Z.abs_mul. rewrite (Z.abs_eq (dy0 + 64 * k)) by lia. rewrite (Z.abs_eq dy) in RB by lia.
    assert (Z.abs rm <= dy - 1) by lia. nia. }
  lia.
Qed.

(* the set-up block of LineEdge::new on end points already ordered top to bottom *)
Definition edge_setup (x0 y0 x1 y1 winding : Z) : option (option ledge) :=
  do top <- fdot6_round y0;
  do bottom <- fdot6_round y1;
  if top =? bottom then Some None
  else
    do ddx <- ck (x1 - x0);
    do ddy <- ck (y1 - y0);
    do slope <- fdot6_div ddx ddy;
    do dy <- compute_dy top y0;
    do xx <- ck (x0 + fdot16_mul slope dy);
    do last <- ck (bottom - 1);
    do x16 <- fdot6_to_fdot16 xx;
    Some (Some (mkedge x16 slope top last winding)).

Lemma line_edge_new_setup p0 p1 shift :
  line_edge_new p0 p1 shift =
  (if fd6 (py p1) shift <? fd6 (py p0) shift
   then edge_setup (fd6 (px p1) shift) (fd6 (py p1) shift) (fd6 (px p0) shift) (fd6 (py p0) shift) (-1)
   else edge_setup (fd6 (px p0) shift) (fd6 (py p0) shift) (fd6 (px p1) shift) (fd6 (py p1) shift) 1).
Proof.
  unfold line_edge_new. fold (fd6 (px p0) shift) (fd6 (py p0) shift) (fd6 (px p1) shift) (fd6 (py p1) shift).
  destruct (fd6 (py p1) shift <? fd6 (py p0) shift); reflexivity.
Qed.

Lemma wrap32_id z : -2147483648 <= z <= 2147483647 -> wrap32 z = z.
Proof. intros H. unfold wrap32. rewrite Z.mod_small by lia. lia. Qed.
Lemma sar16 n : sar n 16 = n / 65536.
Proof. unfold sar. rewrite Z.shiftr_div_pow2 by lia. reflexivity. Qed.
Lemma sar10 n : sar n 10 = n / 1024.
Proof. unfold sar. rewrite Z.shiftr_div_pow2 by lia. reflexivity. Qed.

Lemma edge_setup_spec x0 y0 x1 y1 w e :
  edge_setup x0 y0 x1 y1 w = Some (Some e) ->
  Z.abs y0 <= 16777216 -> y0 <= y1 -> Z.abs (x1 - x0) < 32768 * (y1 - y0) ->
  let dy0 := 64 * e_first_y e + 32 - y0 in
  0 < y1 - y0 /\ 0 < dy0 <= 64 /\
  e_dx e = Z.quot ((x1 - x0) * 65536) (y1 - y0) /\
  e_x e = 1024 * (x0 + (e_dx e * dy0) / 65536).
Proof.
  unfold edge_setup, bind. intros H Hy0 Hord Hsl.
  destruct (fdot6_round y0) as [top|] eqn:T; [|discriminate].
  destruct (fdot6_round y1) as [bot|] eqn:B; [|discriminate].
  destruct (top =? bot) eqn:TB; [discriminate|]. apply Z.eqb_neq in TB.
  destruct (ck (x1 - x0)) as [ddx|] eqn:CX; [|discriminate]. destruct (ck (y1 - y0)) as [ddy|] eqn:CY; [|discriminate].
  unfold ck in CX, CY. destruct (in32 (x1 - x0)) eqn:IX; inversion CX; subst ddx. destruct (in32 (y1 - y0)) eqn:IY; inversion CY; subst ddy.
  clear CX CY.
  (* rows *)
  assert (Ttop : top = (y0 + 32) / 64).
  { unfold fdot6_round, bind, ck in T. destruct (in32 (y0 + 32)); [|discriminate]. inversion T. apply sar6. }
  assert (Tbot : bot = (y1 + 32) / 64).
  { unfold fdot6_round, bind, ck in B. destruct (in32 (y1 + 32)); [|discriminate]. inversion B. apply sar6. }
  assert (Hdy : 0 < y1 - y0).
  { destruct (Z.eq_dec y0 y1) as [E|N]; [subst; congruence | lia]. }
  destruct (fdot6_div (x1 - x0) (y1 - y0)) as [slope|] eqn:SD; [|discriminate].
  assert (Hslope : slope = Z.quot ((x1 - x0) * 65536) (y1 - y0) /\ Z.abs slope <= 2147483647).
  { assert (Q : Z.abs (Z.quot ((x1 - x0) * 65536) (y1 - y0)) <= 2147483647).
    { assert (Z.abs ((x1 - x0) * 65536) < 2147483648 * (y1 - y0)) by (rewrite Z.abs_mul; change (Z.abs 65536) with 65536; lia).
      pose proof (Z.quot_abs ((x1 - x0) * 65536) (y1 - y0) ltac:(lia)) as QA. rewrite (Z.abs_eq (y1 - y0)) in QA by lia.
      rewrite <- QA. assert (Z.abs ((x1 - x0) * 65536) ÷ (y1 - y0) < 2147483648) by (apply Z.quot_lt_upper_bound; lia). lia. }
    unfold fdot6_div in SD. destruct (y1 - y0 =? 0) eqn:Z0; [apply Z.eqb_eq in Z0; lia|].
    destruct ((-32768 <=? x1 - x0) && (x1 - x0 <=? 32767)) eqn:Small.
    - apply andb_true_iff in Small. destruct Small as (S1 & S2). apply Z.leb_le in S1, S2.
      unfold left_shift in SD. rewrite wrap32_id in SD by (change (2 ^ 16) with 65536; lia). change (2 ^ 16) with 65536 in SD.
      destruct (((x1 - x0) * 65536 =? -2147483648) && (y1 - y0 =? -1)) eqn:OV.
      + apply andb_true_iff in OV. destruct OV as (_ & O2). apply Z.eqb_eq in O2. lia.
      + inversion SD. split; [reflexivity | exact Q].
    - unfold fdot16_div in SD. rewrite Z0 in SD. inversion SD. split; [|lia]. lia. }
  destruct Hslope as (Es & Bs).
  destruct (compute_dy top y0) as [dy|] eqn:CD; [|discriminate].
  assert (Edy : dy = 64 * top + 32 - y0 /\ 0 < dy <= 64).
  { pose proof (Z.div_mod (y0 + 32) 64 ltac:(lia)) as DM. pose proof (Z.mod_pos_bound (y0 + 32) 64 ltac:(lia)) as MB. rewrite <- Ttop in DM.
    unfold compute_dy, bind, ck, left_shift in CD. rewrite wrap32_id in CD by (change (2 ^ 6) with 64; lia). change (2 ^ 6) with 64 in CD.
    destruct (in32 (top * 64 + 32)); [|discriminate]. destruct (in32 (top * 64 + 32 - y0)); [|discriminate]. inversion CD. lia. }
  destruct Edy as (Edy & Bdy).
  destruct (ck (x0 + fdot16_mul slope dy)) as [xx|] eqn:CXX; [|discriminate].
  destruct (ck (bot - 1)) as [l|]; [|discriminate].
  destruct (fdot6_to_fdot16 xx) as [x16|] eqn:F16; [|discriminate].
  inversion H; subst e. cbn [e_first_y e_dx e_x]. cbv zeta.
  split; [exact Hdy|]. split; [lia|]. split; [exact Es|].
  (* x16 = 1024 xx *)
  assert (Ex16 : x16 = 1024 * xx).
  { unfold fdot6_to_fdot16, left_shift in F16. change (2 ^ 10) with 1024 in F16.
    destruct (sar (wrap32 (xx * 1024)) 10 =? xx) eqn:CK; [|discriminate]. inversion F16. apply Z.eqb_eq in CK. rewrite sar10 in CK.
    unfold wrap32 in *. pose proof (Z.div_mod (xx * 1024 + 2147483648) 4294967296 ltac:(lia)) as DM.
    pose proof (Z.mod_pos_bound (xx * 1024 + 2147483648) 4294967296 ltac:(lia)) as MB.
    set (j := (xx * 1024 + 2147483648) / 4294967296) in *. set (r := (xx * 1024 + 2147483648) mod 4294967296) in *.
    assert (r - 2147483648 = 1024 * (xx - j * 4194304)) by lia.
    rewrite H0 in CK. rewrite Z.mul_comm, Z.div_mul in CK by lia. lia. }
  assert (Exx : xx = x0 + (slope * dy) / 65536).
  { unfold ck in CXX. destruct (in32 (x0 + fdot16_mul slope dy)); [|discriminate CXX]. injection CXX as CXX. rewrite <- CXX. f_equal. unfold fdot16_mul. rewrite sar16.
    apply wrap32_id. assert (Z.abs (slope * dy / 65536) <= 2097152).
    { assert (Z.abs (slope * dy) <= 2147483647 * 64) by (rewrite Z.abs_mul; rewrite (Z.abs_eq dy) by lia; nia).
      pose proof (Z.div_mod (slope * dy) 65536 ltac:(lia)). pose proof (Z.mod_pos_bound (slope * dy) 65536 ltac:(lia)). lia. }
    lia. }
  rewrite Ex16, Exx, Edy. reflexivity.
Qed.

(* ordered FDot6 end points of an edge: (xa, ya) is the upper one *)
Definition edge_ends (p0 p1 : pt) (shift : Z) : Z * Z * Z * Z :=
  if fd6 (py p1) shift <? fd6 (py p0) shift
  then (fd6 (px p1) shift, fd6 (py p1) shift, fd6 (px p0) shift, fd6 (py p0) shift)
  else (fd6 (px p0) shift, fd6 (py p0) shift, fd6 (px p1) shift, fd6 (py p1) shift).

Theorem line_edge_x_accuracy p0 p1 shift e :
  line_edge_new p0 p1 shift = Some (Some e) ->
  let '(xa, ya, xb, yb) := edge_ends p0 p1 shift in
  Z.abs ya <= 16777216 -> Z.abs (xb - xa) < 32768 * (yb - ya) ->
  forall k, 0 <= k ->
  (* X = FDot16 abscissa on row first_y + k; the exact line at that row's centre is xa + (xb - xa) * (64 row + 32 - ya) / (yb - ya) *)
  let X := e_x e + k * e_dx e in
  Z.abs (64 * ((yb - ya) * X - 1024 * xa * (yb - ya)) - 65536 * (xb - xa) * (64 * (e_first_y e + k) + 32 - ya))
    <= 64 * (yb - ya) * (1025 + k).
Proof.
  rewrite line_edge_new_setup. unfold edge_ends.
  destruct (fd6 (py p1) shift <? fd6 (py p0) shift) eqn:Sw; cbv beta iota; intros H Hy Hs k Hk; cbv zeta.
  - apply Z.ltb_lt in Sw.
    destruct (edge_setup_spec _ _ _ _ _ _ H Hy ltac:(lia) Hs) as (D & D0 & Edx & Ex).
    pose proof (x_error_core (fd6 (px p1) shift) (fd6 (px p0) shift - fd6 (px p1) shift) (fd6 (py p0) shift - fd6 (py p1) shift)
                  (64 * e_first_y e + 32 - fd6 (py p1) shift) k (e_dx e) _ D D0 Hk Edx eq_refl) as C. cbv zeta in C.
    rewrite Ex.
    replace (64 * (e_first_y e + k) + 32 - fd6 (py p1) shift) with (64 * e_first_y e + 32 - fd6 (py p1) shift + 64 * k) by lia. exact C.
  - apply Z.ltb_ge in Sw.
    destruct (edge_setup_spec _ _ _ _ _ _ H Hy ltac:(lia) Hs) as (D & D0 & Edx & Ex).
    pose proof (x_error_core (fd6 (px p0) shift) (fd6 (px p1) shift - fd6 (px p0) shift) (fd6 (py p1) shift - fd6 (py p0) shift)
                  (64 * e_first_y e + 32 - fd6 (py p0) shift) k (e_dx e) _ D D0 Hk Edx eq_refl) as C. cbv zeta in C.
    rewrite Ex.
    replace (64 * (e_first_y e + k) + 32 - fd6 (py p0) shift) with (64 * e_first_y e + 32 - fd6 (py p0) shift + 64 * k) by lia. exact C.
Qed.

(* non-vacuity: the edge from (1.5, 0.25) to (9.25, 7.75): rows 0..7, slope 67720 / 65536 *)
Example accuracy_example :
  exists e, line_edge_new (mkpt (F32.of_bits 1069547520) (F32.of_bits 1048576000)) (mkpt (F32.of_bits 1091829760) (F32.of_bits 1089994752)) 0 = Some (Some e) /\
            e_first_y e = 0 /\ e_last_y e = 7 /\ e_dx e = 67720 /\ e_x e = 114688 /\
            edge_ends (mkpt (F32.of_bits 1069547520) (F32.of_bits 1048576000)) (mkpt (F32.of_bits 1091829760) (F32.of_bits 1089994752)) 0 = (96, 16, 592, 496).
Proof. eexists. split; [vm_compute; reflexivity|]. repeat split. Qed.
