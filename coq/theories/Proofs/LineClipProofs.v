(* line_clipper::intersect (bit-exact model, Model/LineClip.v) never returns a point strictly outside the clip:
   for ANY results of the two intersection helpers (NaN included), any finite end points and any valid clip. *)
From Coq Require Import ZArith Bool List Lia Reals Lra.
From Flocq Require Import Core.Raux IEEE754.BinarySingleNaN.
From TS Require Import Base.F32 Model.Rect Model.LineClip Proofs.RectPoints.
Import ListNotations.

(* ---- comparisons ---------------------------------------------------------------------------------------- *)
Lemma lt_le a b : F32.lt a b = true -> F32.le a b = true.
Proof.
  unfold F32.lt, F32.le, Bltb, Bleb, SpecFloat.SFltb, SpecFloat.SFleb.
  destruct (SpecFloat.SFcompare (B2SF a) (B2SF b)) as [[]|]; auto; discriminate.
Qed.

Lemma lt_fin a b : fin a -> fin b -> (F32.lt a b = true <-> (R32 a < R32 b)%R).
Proof.
  intros Ha Hb. unfold F32.lt. rewrite Bltb_correct by auto. destruct (Rlt_bool_spec (R32 a) (R32 b)); split; auto; try lra; discriminate.
Qed.
Lemma le_fin a b : fin a -> fin b -> (F32.le a b = true <-> (R32 a <= R32 b)%R).
Proof.
  intros Ha Hb. unfold F32.le. rewrite Bleb_correct by auto. destruct (Rle_bool_spec (R32 a) (R32 b)); split; auto; try lra; discriminate.
Qed.
Lemma lt_fin_false a b : fin a -> fin b -> (F32.lt a b = false <-> (R32 b <= R32 a)%R).
Proof.
  intros Ha Hb. pose proof (lt_fin a b Ha Hb) as H. destruct (F32.lt a b).
  - split; [discriminate|]. intros. assert (R32 a < R32 b)%R by (apply H; reflexivity). lra.
  - split; auto. intros _. destruct (Rle_or_lt (R32 b) (R32 a)); auto. assert (false = true) by (apply H; auto). discriminate.
Qed.

(* v < a, a <= b (finite) -> v < b, for any v *)
Lemma lt_trans_r v a b : F32.lt v a = true -> fin a -> fin b -> (R32 a <= R32 b)%R -> F32.lt v b = true.
Proof.
  intros H Ha Hb Hab. destruct (F32.is_finite v) eqn:Fv.
  - apply (lt_fin v b Fv Hb). apply (lt_fin v a Fv Ha) in H. lra.
  - destruct v as [s | s | | s m e Hbd]; try discriminate.
    + destruct s.
      * destruct b as [sb | sb | | sb mb eb Hbb]; try discriminate; reflexivity.
      * destruct a as [sa | sa | | sa ma ea Hba]; try discriminate.
Qed.
(* a < v, b <= a (finite) -> b < v *)
Lemma lt_trans_l v a b : F32.lt a v = true -> fin a -> fin b -> (R32 b <= R32 a)%R -> F32.lt b v = true.
Proof.
  intros H Ha Hb Hab. destruct (F32.is_finite v) eqn:Fv.
  - apply (lt_fin b v Hb Fv). apply (lt_fin a v Ha Fv) in H. lra.
  - destruct v as [s | s | | s m e Hbd]; try discriminate.
    + destruct s.
      * destruct a as [sa | sa | | sa ma ea Hba]; try discriminate.
      * destruct b as [sb | sb | | sb mb eb Hbb]; try discriminate; reflexivity.
    + destruct a as [sa | sa | | sa ma ea Hba]; discriminate.
Qed.

(* ---- "not outside" ----------------------------------------------------------------------------------------- *)
Definition xin (clip : rect) (x : f32) : Prop := F32.lt x (rl clip) = false /\ F32.lt (rr clip) x = false.
Definition yin (clip : rect) (y : f32) : Prop := F32.lt y (rt clip) = false /\ F32.lt (rb clip) y = false.
Definition nout (clip : rect) (p : pt) : Prop := xin clip (px p) /\ yin clip (py p).

Definition clip_ok (clip : rect) : Prop :=
  fin (rl clip) /\ fin (rt clip) /\ fin (rr clip) /\ fin (rb clip) /\
  (R32 (rl clip) <= R32 (rr clip))%R /\ (R32 (rt clip) <= R32 (rb clip))%R.

(* a finite y between top and bottom *)
Definition yfin (clip : rect) (y : f32) : Prop := fin y /\ (R32 (rt clip) <= R32 y <= R32 (rb clip))%R.

Lemma yfin_yin clip y : clip_ok clip -> yfin clip y -> yin clip y.
Proof.
  intros (Fl & Ft & Fr & Fb & _ & _) (Fy & Hy). split.
  - apply (lt_fin_false y (rt clip) Fy Ft). lra.
  - apply (lt_fin_false (rb clip) y Fb Fy). lra.
Qed.

(* pin_unsorted_f32 of anything between two in-range finite limits is not outside *)
Lemma pin_yin clip v y0 y1 : clip_ok clip -> yfin clip y0 -> yfin clip y1 -> yin clip (pin_unsorted_f32 v y0 y1).
Proof.
  intros Hc H0 H1. pose proof Hc as (Fl & Ft & Fr & Fb & _ & _).
  unfold pin_unsorted_f32.
  assert (G : forall lo hi, yfin clip lo -> yfin clip hi ->
              yin clip (if F32.lt v lo then lo else if F32.gt v hi then hi else v)).
  { intros lo hi (Flo & Hlo) (Fhi & Hhi).
    destruct (F32.lt v lo) eqn:E1; [apply yfin_yin; [exact Hc | exact (conj Flo Hlo)]|].
    unfold F32.gt. change (Bltb hi v) with (F32.lt hi v). destruct (F32.lt hi v) eqn:E2; [apply yfin_yin; [exact Hc | exact (conj Fhi Hhi)]|].
    split.
    - destruct (F32.lt v (rt clip)) eqn:E; [|reflexivity].
      rewrite (lt_trans_r v (rt clip) lo E Ft Flo ltac:(lra)) in E1. discriminate.
    - destruct (F32.lt (rb clip) v) eqn:E; [|reflexivity].
      rewrite (lt_trans_l v (rb clip) hi E Fb Fhi ltac:(lra)) in E2. discriminate. }
  destruct (F32.lt y1 y0); apply G; assumption.
Qed.

(* ---- more comparison facts ---------------------------------------------------------------------------------- *)
Lemma le_false_lt_false a b : F32.le a b = false -> F32.lt a b = false.
Proof. intros H. destruct (F32.lt a b) eqn:E; [|reflexivity]. rewrite (lt_le _ _ E) in H. discriminate. Qed.

Lemma eq_lt_compat x y c : F32.eq x y = true -> fin c -> F32.lt x c = F32.lt y c /\ F32.lt c x = F32.lt c y.
Proof.
  intros H Hc. destruct (F32.is_finite x) eqn:Fx, (F32.is_finite y) eqn:Fy.
  - assert (E : R32 x = R32 y).
    { unfold F32.eq in H. rewrite Beqb_correct in H by auto. unfold Req_bool in H.
      destruct (Rcompare_spec (R32 x) (R32 y)); try discriminate. assumption. }
    split.
    + destruct (F32.lt x c) eqn:A; symmetry.
      * apply (lt_fin y c Fy Hc). apply (lt_fin x c Fx Hc) in A. lra.
      * apply (lt_fin_false y c Fy Hc). apply (lt_fin_false x c Fx Hc) in A. lra.
    + destruct (F32.lt c x) eqn:A; symmetry.
      * apply (lt_fin c y Hc Fy). apply (lt_fin c x Hc Fx) in A. lra.
      * apply (lt_fin_false c y Hc Fy). apply (lt_fin_false c x Hc Fx) in A. lra.
  - destruct x as [sx | sx | | sx mx ex Hx], y as [sy | sy | | sy my ey Hy]; try discriminate; destruct sx, sy; discriminate.
  - destruct x as [sx | sx | | sx mx ex Hx], y as [sy | sy | | sy my ey Hy]; try discriminate; destruct sx, sy; discriminate.
  - destruct x as [sx | sx | | sx mx ex Hx], y as [sy | sy | | sy my ey Hy]; try discriminate.
    destruct sx, sy; try discriminate; split; reflexivity.
Qed.

Lemma not_nested a b dim : fin a -> fin b -> nested_lt a b dim = false -> (R32 b <= R32 a)%R.
Proof.
  intros Ha Hb H. unfold nested_lt in H. destruct (F32.le a b) eqn:E.
  - cbn [andb] in H. apply orb_false_iff in H. destruct H as (H & _). apply (lt_fin_false a b Ha Hb). exact H.
  - destruct (Rle_or_lt (R32 b) (R32 a)) as [C | C]; [exact C|].
    assert (F32.le a b = true) by (apply (le_fin a b Ha Hb); lra). congruence.
Qed.

Lemma xin_left clip : clip_ok clip -> xin clip (rl clip).
Proof.
  intros (Fl & Ft & Fr & Fb & Hlr & _). split; [apply (lt_fin_false _ _ Fl Fl); lra | apply (lt_fin_false _ _ Fr Fl); lra].
Qed.
Lemma xin_right clip : clip_ok clip -> xin clip (rr clip).
Proof.
  intros (Fl & Ft & Fr & Fb & Hlr & _). split; [apply (lt_fin_false _ _ Fr Fl); lra | apply (lt_fin_false _ _ Fr Fr); lra].
Qed.

(* ---- the X stage, for two points whose y is already in range ---------------------------------------------------- *)
Section XStage.
  Variables (clip : rect) (a b : pt) (va vb : f32).
  Hypothesis Hc : clip_ok clip.
  Hypothesis Ha : yfin clip (py a).
  Hypothesis Hb : yfin clip (py b).

  Definition xstage : option (pt * pt) :=
    let a_is_left := F32.lt (px a) (px b) in
    let '(l, r) := if a_is_left then (a, b) else (b, a) in
    let reject :=
      if F32.le (px r) (rl clip) || F32.ge (px l) (rr clip) then
        F32.ne (px a) (px b) || F32.lt (px a) (rl clip) || F32.gt (px a) (rr clip)
      else false in
    if reject then None
    else
      let y0 := py a in let y1 := py b in
      let l := if F32.lt (px l) (rl clip) then mkpt (rl clip) (pin_unsorted_f32 va y0 y1) else l in
      let r := if F32.gt (px r) (rr clip) then mkpt (rr clip) (pin_unsorted_f32 vb y0 y1) else r in
      Some (if a_is_left then (l, r) else (r, l)).

  Lemma xstage_not_outside p q : xstage = Some (p, q) -> nout clip p /\ nout clip q.
  Proof.
    pose proof Hc as (Fl & Ft & Fr & Fb & Hlr & Htb).
    assert (G : forall l r : pt, yfin clip (py l) -> yfin clip (py r) -> (l = a /\ r = b \/ l = b /\ r = a) ->
      forall l' r',
      (if (if F32.le (px r) (rl clip) || F32.ge (px l) (rr clip)
           then F32.ne (px a) (px b) || F32.lt (px a) (rl clip) || F32.gt (px a) (rr clip) else false)
       then None
       else Some (if F32.lt (px l) (rl clip) then mkpt (rl clip) (pin_unsorted_f32 va (py a) (py b)) else l,
                  if F32.gt (px r) (rr clip) then mkpt (rr clip) (pin_unsorted_f32 vb (py a) (py b)) else r)) = Some (l', r') ->
      nout clip l' /\ nout clip r').
    { intros l r Hl Hr Hab l' r' H.
      destruct (F32.le (px r) (rl clip) || F32.ge (px l) (rr clip)) eqn:EQ.
      - (* the vertical-coincident exception: both x equal and inside *)
        destruct (F32.ne (px a) (px b) || F32.lt (px a) (rl clip) || F32.gt (px a) (rr clip)) eqn:EI; [discriminate|].
        apply orb_false_iff in EI. destruct EI as (EI & E3). apply orb_false_iff in EI. destruct EI as (E1 & E2).
        unfold F32.ne in E1. apply negb_false_iff in E1. change (F32.gt (px a) (rr clip)) with (F32.lt (rr clip) (px a)) in E3.
        change (Beqb (px a) (px b)) with (F32.eq (px a) (px b)) in E1.
        destruct (eq_lt_compat _ _ (rl clip) E1 Fl) as (C1 & _). destruct (eq_lt_compat _ _ (rr clip) E1 Fr) as (_ & C2).
        assert (XA : xin clip (px a)) by (split; assumption).
        assert (XB : xin clip (px b)) by (split; [rewrite <- C1 | rewrite <- C2]; assumption).
        assert (XL : xin clip (px l)) by (destruct Hab as [(-> & _) | (-> & _)]; assumption).
        assert (XR : xin clip (px r)) by (destruct Hab as [(_ & ->) | (_ & ->)]; assumption).
        destruct XL as (XL1 & XL2), XR as (XR1 & XR2).
        change (F32.gt (px r) (rr clip)) with (F32.lt (rr clip) (px r)) in H. rewrite XL1, XR2 in H.
        injection H as <- <-. split; (split; [split; assumption | apply yfin_yin; assumption]).
      - apply orb_false_iff in EQ. destruct EQ as (Q1 & Q2). change (F32.ge (px l) (rr clip)) with (F32.le (rr clip) (px l)) in Q2.
        injection H as <- <-. split.
        + destruct (F32.lt (px l) (rl clip)) eqn:EL.
          * split; [apply xin_left; exact Hc | apply pin_yin; assumption].
          * split; [split; [exact EL | apply le_false_lt_false; exact Q2] | apply yfin_yin; assumption].
        + change (F32.gt (px r) (rr clip)) with (F32.lt (rr clip) (px r)). destruct (F32.lt (rr clip) (px r)) eqn:ER.
          * split; [apply xin_right; exact Hc | apply pin_yin; assumption].
          * split; [split; [apply le_false_lt_false; exact Q1 | exact ER] | apply yfin_yin; assumption]. }
    unfold xstage. destruct (F32.lt (px a) (px b)); cbv beta iota zeta; intros H.
    - exact (G a b Ha Hb (or_introl (conj eq_refl eq_refl)) p q H).
    - destruct (if (if F32.le (px a) (rl clip) || F32.ge (px b) (rr clip)
                    then F32.ne (px a) (px b) || F32.lt (px a) (rl clip) || F32.gt (px a) (rr clip) else false) then true else false) eqn:ER.
      + destruct (if F32.le (px a) (rl clip) || F32.ge (px b) (rr clip)
                  then F32.ne (px a) (px b) || F32.lt (px a) (rl clip) || F32.gt (px a) (rr clip) else false); discriminate.
      + destruct (if F32.le (px a) (rl clip) || F32.ge (px b) (rr clip)
                  then F32.ne (px a) (px b) || F32.lt (px a) (rl clip) || F32.gt (px a) (rr clip) else false) eqn:ER2; [discriminate|].
        injection H as <- <-.
        assert (K : nout clip (if F32.lt (px b) (rl clip) then mkpt (rl clip) (pin_unsorted_f32 va (py a) (py b)) else b) /\
                    nout clip (if F32.gt (px a) (rr clip) then mkpt (rr clip) (pin_unsorted_f32 vb (py a) (py b)) else a)).
        { apply (G b a Hb Ha (or_intror (conj eq_refl eq_refl))). rewrite ER2. reflexivity. }
        destruct K. split; assumption.
  Qed.
End XStage.

(* ---- the whole function ---------------------------------------------------------------------------------------- *)
Section Whole.
  Variables (sh sv : pt -> pt -> f32 -> f32).

  Theorem intersect_gen_not_outside s0 s1 clip bnd p q :
    fin (px s0) -> fin (py s0) -> fin (px s1) -> fin (py s1) -> clip_ok clip ->
    from_ltrb (F32.min (px s0) (px s1)) (F32.min (py s0) (py s1)) (F32.max (px s0) (px s1)) (F32.max (py s0) (py s1)) = Some bnd ->
    intersect_gen sh sv s0 s1 clip = Some (p, q) -> nout clip p /\ nout clip q.
  Proof.
    intros Fx0 Fy0 Fx1 Fy1 Hc Hb H.
    pose proof Hc as (Fl & Ft & Fr & Fb & Hlr & Htb).
    destruct (from_ltrb_some _ _ _ _ _ Hb) as (-> & Fb1 & Fb2 & Fb3 & Fb4).
    destruct (min_fin _ _ Fx0 Fx1) as (_ & MX0 & MX1). destruct (max_fin _ _ Fx0 Fx1) as (_ & XX0 & XX1).
    destruct (min_fin _ _ Fy0 Fy1) as (MYe & MY0 & MY1). destruct (max_fin _ _ Fy0 Fy1) as (XYe & XY0 & XY1).
    unfold intersect_gen in H. rewrite Hb in H.
    destruct (contains_no_empty_check clip _) eqn:EC.
    - (* the segment is inside: returned unchanged *)
      injection H as <- <-. unfold contains_no_empty_check in EC. cbn [rl rt rr rb] in EC.
      apply andb_true_iff in EC. destruct EC as (EC & E4). apply andb_true_iff in EC. destruct EC as (EC & E3).
      apply andb_true_iff in EC. destruct EC as (E1 & E2). unfold F32.ge in E3, E4.
      apply (le_fin _ _ Fl Fb1) in E1. apply (le_fin _ _ Ft Fb2) in E2.
      change (Bleb ?a ?b) with (F32.le a b) in E3, E4.
      apply (le_fin _ _ Fb3 Fr) in E3. apply (le_fin _ _ Fb4 Fb) in E4.
      split; (split; split; apply lt_fin_false; auto; lra).
    - destruct (nested_lt _ _ _ || nested_lt _ _ _ || nested_lt _ _ _ || nested_lt _ _ _) eqn:EN; [discriminate|].
      apply orb_false_iff in EN. destruct EN as (EN & N4). apply orb_false_iff in EN. destruct EN as (_ & N3).
      cbn [rl rt rr rb] in N3, N4.
      apply (not_nested _ _ _ Fb4 Ft) in N3. apply (not_nested _ _ _ Fb Fb2) in N4.
      (* N3 : top <= max y     N4 : min y <= bottom *)
      set (first_is_top := F32.lt (py s0) (py s1)) in *.
      assert (Y : exists a b, yfin clip (py a) /\ yfin clip (py b) /\
                  xstage clip a b (sv s0 s1 (rl clip)) (sv s0 s1 (rr clip)) = Some (p, q)).
      { (* the y of the lower-y end point after the top chop, of the higher-y one after the bottom chop *)
        assert (CH : forall t0 t1 : pt, fin (py t0) -> fin (py t1) -> (R32 (py t0) <= R32 (py t1))%R ->
                  (R32 (py t0) <= R32 (rb clip))%R -> (R32 (rt clip) <= R32 (py t1))%R ->
                  yfin clip (py (if F32.lt (py t0) (rt clip) then mkpt (sh s0 s1 (rt clip)) (rt clip) else t0)) /\
                  yfin clip (py (if F32.gt (py t1) (rb clip) then mkpt (sh s0 s1 (rb clip)) (rb clip) else t1))).
        { intros t0 t1 F0 F1 H01 H0b H1t. split.
          - destruct (F32.lt (py t0) (rt clip)) eqn:E; cbn [py].
            + split; [exact Ft | lra].
            + apply (lt_fin_false _ _ F0 Ft) in E. split; [exact F0 | lra].
          - change (F32.gt (py t1) (rb clip)) with (F32.lt (rb clip) (py t1)).
            destruct (F32.lt (rb clip) (py t1)) eqn:E; cbn [py].
            + split; [exact Fb | lra].
            + apply (lt_fin_false _ _ Fb F1) in E. split; [exact F1 | lra]. }
        destruct first_is_top eqn:ET; cbv beta iota zeta in H.
        - apply (lt_fin _ _ Fy0 Fy1) in ET.
          assert (A1 : (R32 (py s0) <= R32 (rb clip))%R) by (destruct MYe as [E | E]; rewrite E in *; lra).
          assert (A2 : (R32 (rt clip) <= R32 (py s1))%R) by (destruct XYe as [E | E]; rewrite E in *; lra).
          destruct (CH s0 s1 Fy0 Fy1 ltac:(lra) A1 A2) as (C0 & C1).
          eexists _, _. split; [exact C0|]. split; [exact C1|]. exact H.
        - apply (lt_fin_false _ _ Fy0 Fy1) in ET.
          assert (A1 : (R32 (py s1) <= R32 (rb clip))%R) by (destruct MYe as [E | E]; rewrite E in *; lra).
          assert (A2 : (R32 (rt clip) <= R32 (py s0))%R) by (destruct XYe as [E | E]; rewrite E in *; lra).
          destruct (CH s1 s0 Fy1 Fy0 ET A1 A2) as (C0 & C1).
          eexists _, _. split; [exact C1|]. split; [exact C0|]. exact H. }
      destruct Y as (a & b & Ya & Yb & HX).
      exact (xstage_not_outside clip a b _ _ Hc Ya Yb p q HX).
  Qed.
End Whole.

(* the instance that runs against the code *)
Theorem intersect_not_outside s0 s1 clip bnd p q :
  fin (px s0) -> fin (py s0) -> fin (px s1) -> fin (py s1) -> clip_ok clip ->
  from_ltrb (F32.min (px s0) (px s1)) (F32.min (py s0) (py s1)) (F32.max (px s0) (px s1)) (F32.max (py s0) (py s1)) = Some bnd ->
  intersect s0 s1 clip = Some (p, q) -> nout clip p /\ nout clip q.
Proof. apply intersect_gen_not_outside. Qed.

(* a clip rectangle produced by Rect::from_ltrb is ok *)
Lemma from_ltrb_clip_ok l t r b clip : from_ltrb l t r b = Some clip -> clip_ok clip.
Proof.
  intros H. destruct (from_ltrb_some _ _ _ _ _ H) as (-> & Fl & Ft & Fr & Fb). destruct (from_ltrb_le _ _ _ _ _ H) as (A & B).
  repeat split; assumption.
Qed.
