(* C06: the aliased hairline DDA (integer part).  Every blit lies inside the clip, every major-axis
   position between the rounded end points is visited exactly once in order (no gap), and consecutive
   blits move by at most one pixel in the minor axis (connected).  Closed under the global context. *)
From Coq Require Import ZArith Bool List Lia.
From TS Require Import Base.F32 Model.Rect Model.Edge Model.Hairline.
Import ListNotations.
Local Open Scope Z_scope.

Definition guard (hz : bool) (i st maxx maxy : Z) : bool :=
  if hz then (0 <=? i) && (0 <=? st) && (st <? maxy) else (0 <=? st) && (0 <=? i) && (st <? maxx).
Definition point (hz : bool) (i st : Z) : Z * Z := if hz then (i, sar st 16) else (sar st 16, i).

(* closed form: step k visits major position i+k with accumulator st + k*slope *)
Fixpoint steps (n : nat) (hz : bool) (i st sl maxx maxy : Z) : list (Z * Z) :=
  match n with
  | O => []
  | S n' => (if guard hz i st maxx maxy then [point hz i st] else []) ++ steps n' hz (i + 1) (st + sl) sl maxx maxy
  end.

Lemma hair_loop_steps fuel : forall hz i i1 st sl maxx maxy acc,
  (fuel > 0)%nat -> Z.of_nat fuel = Z.max 1 (i1 - i) ->
  hair_loop fuel hz i i1 st sl maxx maxy acc = rev acc ++ steps fuel hz i st sl maxx maxy.
Proof.
  induction fuel as [|fuel IH]; intros hz i i1 st sl maxx maxy acc Hpos Hf; [lia|].
  cbn [hair_loop steps].
  assert (G : (if hz
               then if (0 <=? i) && (0 <=? st) && (st <? maxy) then (i, sar st 16) :: acc else acc
               else if (0 <=? st) && (0 <=? i) && (st <? maxx) then (sar st 16, i) :: acc else acc)
              = rev (if guard hz i st maxx maxy then [point hz i st] else []) ++ acc).
  { unfold guard, point. destruct hz; [destruct ((0 <=? i) && (0 <=? st) && (st <? maxy)) | destruct ((0 <=? st) && (0 <=? i) && (st <? maxx))]; reflexivity. }
  rewrite G. clear G.
  destruct (i1 <=? i + 1) eqn:E.
  - apply Z.leb_le in E. assert (fuel = 0%nat) by lia. subst fuel. simpl steps.
    rewrite rev_app_distr, rev_involutive, app_nil_r. reflexivity.
  - apply Z.leb_gt in E. rewrite IH by lia. rewrite rev_app_distr, rev_involutive, <- app_assoc. reflexivity.
Qed.

Lemma steps_in n : forall hz i st sl maxx maxy p,
  In p (steps n hz i st sl maxx maxy) <->
  exists k, 0 <= k < Z.of_nat n /\ guard hz (i + k) (st + k * sl) maxx maxy = true /\ p = point hz (i + k) (st + k * sl).
Proof.
  induction n as [|n IH]; intros hz i st sl maxx maxy p.
  - simpl. split; [tauto|]. intros (k & H & _). lia.
  - cbn [steps]. rewrite in_app_iff, IH. split.
    + intros [H | (k & Hk & G & E)].
      * destruct (guard hz i st maxx maxy) eqn:G; [|destruct H]. destruct H as [<- | []].
        exists 0. replace (i + 0) with i by lia. replace (st + 0 * sl) with st by lia. repeat split; auto; lia.
      * exists (k + 1). replace (i + (k + 1)) with (i + 1 + k) by lia.
        replace (st + (k + 1) * sl) with (st + sl + k * sl) by lia. repeat split; auto; lia.
    + intros (k & Hk & G & E). destruct (Z.eq_dec k 0) as [-> | N].
      * left. replace (i + 0) with i in * by lia. replace (st + 0 * sl) with st in * by lia. rewrite G. left. auto.
      * right. exists (k - 1). replace (i + 1 + (k - 1)) with (i + k) by lia.
        replace (st + sl + (k - 1) * sl) with (st + k * sl) by lia. repeat split; auto; lia.
Qed.

(* ---- inside the clip ----------------------------------------------------------------------- *)
Lemma sar16_bounds st m : 0 <= st < m -> 0 <= sar st 16 /\ sar st 16 * 65536 < m.
Proof.
  intros H. unfold sar. rewrite Z.shiftr_div_pow2 by lia. change (2 ^ 16) with 65536.
  pose proof (Z.div_mod st 65536 ltac:(lia)). pose proof (Z.mod_pos_bound st 65536 ltac:(lia)).
  split; [apply Z.div_pos; lia | lia].
Qed.

Theorem hair_loop_in_clip hz i i1 st sl maxx maxy x y :
  i < i1 ->
  In (x, y) (hair_loop (Z.to_nat (i1 - i)) hz i i1 st sl maxx maxy []) ->
  0 <= x /\ 0 <= y /\
  (if hz then i <= x < i1 /\ y * 65536 < maxy else i <= y < i1 /\ x * 65536 < maxx).
Proof.
  intros Hlt Hin. rewrite hair_loop_steps in Hin by lia. simpl in Hin.
  apply steps_in in Hin. destruct Hin as (k & Hk & G & E).
  unfold guard, point in *. destruct hz; inversion E; subst; clear E;
    rewrite !andb_true_iff, !Z.leb_le, Z.ltb_lt in G; destruct G as ((A & B) & C).
  - pose proof (sar16_bounds (st + k * sl) maxy ltac:(lia)). lia.
  - pose proof (sar16_bounds (st + k * sl) maxx ltac:(lia)). lia.
Qed.

Corollary hair_loop_in_clip_h i i1 st sl maxx maxy x y :
  i < i1 -> In (x, y) (hair_loop (Z.to_nat (i1 - i)) true i i1 st sl maxx maxy []) ->
  0 <= x /\ 0 <= y /\ i <= x < i1 /\ y * 65536 < maxy.
Proof. intros A B. exact (hair_loop_in_clip true i i1 st sl maxx maxy x y A B). Qed.
Corollary hair_loop_in_clip_v i i1 st sl maxx maxy x y :
  i < i1 -> In (x, y) (hair_loop (Z.to_nat (i1 - i)) false i i1 st sl maxx maxy []) ->
  0 <= x /\ 0 <= y /\ i <= y < i1 /\ x * 65536 < maxx.
Proof. intros A B. exact (hair_loop_in_clip false i i1 st sl maxx maxy x y A B). Qed.

(* whole segment: with the clip edges as maxx = 65536*W, maxy = 65536*H and the end points inside
   [0, 64W] x [0, 64H] (what the float clipper delivers), every blit satisfies 0 <= x < W, 0 <= y < H *)
Lemma iround6_le n m : n <= 64 * m -> iround6 n <= m.
Proof.
  intros H. unfold iround6, sar. rewrite Z.shiftr_div_pow2 by lia. change (2 ^ 6) with 64.
  assert ((n + 32) / 64 < m + 1) by (apply Z.div_lt_upper_bound; lia). lia.
Qed.

Theorem hair_blits_in_clip x0 y0 x1 y1 W H bl x y :
  0 <= x0 <= 64 * W -> 0 <= x1 <= 64 * W -> 0 <= y0 <= 64 * H -> 0 <= y1 <= 64 * H ->
  hair_line_fd6 x0 y0 x1 y1 (65536 * W) (65536 * H) = Some bl -> In (x, y) bl ->
  0 <= x < W /\ 0 <= y < H.
Proof.
  intros Hx0 Hx1 Hy0 Hy1 Hb Hin.
  remember (65536 * W) as MX eqn:EMX. remember (65536 * H) as MY eqn:EMY.
  unfold hair_line_fd6 in Hb.
  destruct (Z.abs (y1 - y0) <? Z.abs (x1 - x0)).
  - set (q := if x1 <? x0 then (x1, y1, x0, y0) else (x0, y0, x1, y1)) in *.
    assert (Q : exists a b c d, q = (a, b, c, d) /\ 0 <= a <= 64 * W /\ 0 <= c <= 64 * W).
    { unfold q. destruct (x1 <? x0); eauto 10. }
    destruct Q as (a & b & c & d & -> & Ha & Hc).
    destruct (iround6 a =? iround6 c) eqn:E; [inversion Hb; subst; destruct Hin|].
    destruct (fdot16_div _ _) as [slope|]; [|discriminate]. inversion Hb; subst; clear Hb.
    apply Z.eqb_neq in E.
    destruct (Z_lt_le_dec (iround6 a) (iround6 c)) as [L | L].
    + apply hair_loop_in_clip_h in Hin; [|exact L].
      pose proof (iround6_le c W ltac:(lia)). lia.
    + (* ix1 < ix0 cannot happen after the swap; the loop then runs once: still guarded *)
      replace (Z.to_nat (iround6 c - iround6 a)) with 0%nat in Hin by lia. simpl in Hin. destruct Hin.
  - set (q := if y1 <? y0 then (x1, y1, x0, y0) else (x0, y0, x1, y1)) in *.
    assert (Q : exists a b c d, q = (a, b, c, d) /\ 0 <= b <= 64 * H /\ 0 <= d <= 64 * H).
    { unfold q. destruct (y1 <? y0); eauto 10. }
    destruct Q as (a & b & c & d & -> & Ha & Hc).
    destruct (iround6 b =? iround6 d) eqn:E; [inversion Hb; subst; destruct Hin|].
    destruct (fdot16_div _ _) as [slope|]; [|discriminate]. inversion Hb; subst; clear Hb.
    apply Z.eqb_neq in E.
    destruct (Z_lt_le_dec (iround6 b) (iround6 d)) as [L | L].
    + apply hair_loop_in_clip_v in Hin; [|exact L].
      pose proof (iround6_le d H ltac:(lia)). lia.
    + replace (Z.to_nat (iround6 d - iround6 b)) with 0%nat in Hin by lia. simpl in Hin. destruct Hin.
Qed.

(* ---- no gap, in order ---------------------------------------------------------------------- *)
(* when no guard rejects a step, the major-axis coordinates of the blits are exactly i, i+1, ..., i1-1 *)
Definition major (hz : bool) (p : Z * Z) : Z := if hz then fst p else snd p.
Definition minor (hz : bool) (p : Z * Z) : Z := if hz then snd p else fst p.

Lemma steps_major n : forall hz i st sl maxx maxy,
  (forall k, 0 <= k < Z.of_nat n -> guard hz (i + k) (st + k * sl) maxx maxy = true) ->
  map (major hz) (steps n hz i st sl maxx maxy) = map (fun k => i + Z.of_nat k) (seq 0 n).
Proof.
  induction n as [|n IH]; intros hz i st sl maxx maxy G; [reflexivity|].
  cbn [steps]. pose proof (G 0 ltac:(lia)) as G0. replace (i + 0) with i in G0 by lia. replace (st + 0 * sl) with st in G0 by lia. rewrite G0.
  cbn [app map seq]. f_equal.
  - unfold major, point. destruct hz; simpl; lia.
  - rewrite IH.
    + rewrite <- seq_shift, map_map. apply map_ext. intros k. lia.
    + intros k Hk. specialize (G (k + 1) ltac:(lia)).
      replace (i + 1 + k) with (i + (k + 1)) by lia. replace (st + sl + k * sl) with (st + (k + 1) * sl) by lia. exact G.
Qed.

Theorem hair_covers hz i i1 st sl maxx maxy :
  i < i1 ->
  (forall k, 0 <= k < i1 - i -> guard hz (i + k) (st + k * sl) maxx maxy = true) ->
  map (major hz) (hair_loop (Z.to_nat (i1 - i)) hz i i1 st sl maxx maxy [])
  = map (fun k => i + Z.of_nat k) (seq 0 (Z.to_nat (i1 - i))).
Proof.
  intros Hlt G. rewrite hair_loop_steps by lia. simpl. apply steps_major.
  intros k Hk. apply G. lia.
Qed.

(* ---- connected: the minor coordinate moves by at most one pixel per step when |slope| <= 1 ---- *)
Theorem hair_connected st sl : -65536 <= sl <= 65536 -> -1 <= sar (st + sl) 16 - sar st 16 <= 1.
Proof.
  intros H. unfold sar. rewrite !Z.shiftr_div_pow2 by lia. change (2 ^ 16) with 65536.
  pose proof (Z.div_mod st 65536 ltac:(lia)). pose proof (Z.mod_pos_bound st 65536 ltac:(lia)).
  pose proof (Z.div_mod (st + sl) 65536 ltac:(lia)). pose proof (Z.mod_pos_bound (st + sl) 65536 ltac:(lia)).
  lia.
Qed.

(* the slope of the DDA is at most one pixel per step: |dy| <= |dx| on the major axis *)
Theorem hair_slope_bounded num den slope :
  Z.abs num <= Z.abs den -> den <> 0 -> fdot16_div num den = Some slope -> -65536 <= slope <= 65536.
Proof.
  intros Hle Hd H. unfold fdot16_div in H. destruct (den =? 0) eqn:E; [apply Z.eqb_eq in E; lia|].
  inversion H; subst; clear H.
  assert (Q : -65536 <= Z.quot (num * 65536) den <= 65536).
  { assert (Z.abs (Z.quot (num * 65536) den) <= 65536).
    { rewrite <- Z.quot_abs by lia. apply Z.quot_le_upper_bound; [lia|]. rewrite Z.abs_mul. simpl (Z.abs 65536). nia. }
    lia. }
  lia.
Qed.

(* the 16.16 slope is the truncated quotient: after k steps the DDA is within k/65536 pixel of the ideal line *)
Theorem fdot16_div_error num den slope :
  Z.abs num <= Z.abs den -> den <> 0 -> fdot16_div num den = Some slope ->
  Z.abs (slope * den - num * 65536) < Z.abs den.
Proof.
  intros Hle Hd H. pose proof (hair_slope_bounded num den slope Hle Hd H) as B.
  unfold fdot16_div in H. destruct (den =? 0) eqn:E; [apply Z.eqb_eq in E; lia|].
  injection H as <-.
  pose proof (Z.quot_rem' (num * 65536) den) as QR.
  pose proof (Z.rem_bound_abs (num * 65536) den Hd) as RB.
  assert (Q : -65536 <= Z.quot (num * 65536) den <= 65536).
  { assert (Z.abs (Z.quot (num * 65536) den) <= 65536).
    { rewrite <- Z.quot_abs by lia. apply Z.quot_le_upper_bound; [lia|]. rewrite Z.abs_mul. simpl (Z.abs 65536). nia. }
    lia. }
  rewrite Z.max_r, Z.min_l by lia. lia.
Qed.

Theorem hair_tracks num den slope st k :
  Z.abs num <= Z.abs den -> den <> 0 -> fdot16_div num den = Some slope -> 0 <= k ->
  Z.abs (((st + k * slope) - st) * den - k * num * 65536) <= k * Z.abs den.
Proof.
  intros Hle Hd H Hk. pose proof (fdot16_div_error num den slope Hle Hd H) as E.
  replace ((st + k * slope - st) * den - k * num * 65536) with (k * (slope * den - num * 65536)) by ring.
  rewrite Z.abs_mul, (Z.abs_eq k) by lia. apply Z.mul_le_mono_nonneg_l; lia.
Qed.
