(* Proofs about the dash bookkeeping of Model/Dash.v in its exact (Z) instance, and about the acceptance
   test of StrokeDash::new in its binary32 instance. *)
From Coq Require Import ZArith Bool List Lia.
From Flocq Require Import IEEE754.BinarySingleNaN.
From TS Require Import Base.F32 Model.Dash.
Import ListNotations.
Local Open Scope Z_scope.

(* ---- iter_until ------------------------------------------------------------------------------------ *)
Section IterInv.
  Context {S R : Type} (f : S -> S + R) (Inv : S -> Prop).
  Hypothesis step : forall s s', Inv s -> f s = inl s' -> Inv s'.
  Lemma iter_until_inv : forall p s, Inv s ->
    match iter_until f p s with
    | inl s' => Inv s'
    | inr r => exists s', Inv s' /\ f s' = inr r
    end.
  Proof.
    induction p as [p IH | p IH |]; intros s Hs; cbn [iter_until].
    - destruct (f s) as [s1 | r] eqn:E1; [|eauto].
      pose proof (IH s1 (step _ _ Hs E1)) as H1. destruct (iter_until f p s1) as [s2 | r]; [|exact H1].
      exact (IH s2 H1).
    - pose proof (IH s Hs) as H1. destruct (iter_until f p s) as [s2 | r]; [|exact H1].
      exact (IH s2 H1).
    - destruct (f s) as [s1 | r] eqn:E1; eauto.
  Qed.
End IterInv.

(* ---- the exact instance ---------------------------------------------------------------------------- *)
Definition z_find_first := find_first_interval Z Z.sub Z.ltb Z.eqb 0.
Definition z_dash_step := dash_step Z Z.add Z.ltb 0.
Definition z_dash_contour := dash_contour Z Z.add Z.ltb 0.

Definition zsum (l : list Z) : Z := fold_right Z.add 0 l.
Definition prefix (arr : list Z) (i : nat) : Z := zsum (firstn i arr).
Definition nonneg (l : list Z) : Prop := Forall (fun a => 0 <= a) l.

Lemma zsum_nonneg l : nonneg l -> 0 <= zsum l.
Proof. induction 1; simpl; lia. Qed.

Lemma nonneg_firstn l : nonneg l -> forall j, nonneg (firstn j l).
Proof.
  induction 1 as [|a r Ha Hr IH]; intros j; destruct j as [|j]; simpl; try constructor; auto.
  apply IH.
Qed.

Lemma prefix_S arr : forall i, (i < length arr)%nat -> prefix arr (S i) = prefix arr i + nth i arr 0.
Proof.
  unfold prefix. induction arr as [|a r IH]; intros i Hi; simpl in Hi; [lia|].
  destruct i as [|i]; simpl; [lia|]. specialize (IH i ltac:(lia)). simpl in IH. lia.
Qed.

Lemma prefix_all arr : prefix arr (length arr) = zsum arr.
Proof. unfold prefix. now rewrite firstn_all. Qed.

Lemma prefix_mono arr : nonneg arr -> forall i j, (i <= j)%nat -> prefix arr i <= prefix arr j.
Proof.
  unfold prefix. induction 1 as [|a r Ha Hr IH]; intros i j Hij.
  - now rewrite !firstn_nil.
  - destruct i as [|i], j as [|j]; simpl; try lia.
    + pose proof (zsum_nonneg (firstn j r) (nonneg_firstn r Hr j)). lia.
    + specialize (IH i j ltac:(lia)). lia.
Qed.

Lemma prefix_le_sum arr i : nonneg arr -> prefix arr i <= zsum arr.
Proof.
  intros H. rewrite <- prefix_all. destruct (Nat.le_gt_cases i (length arr)) as [L | L].
  - now apply prefix_mono.
  - unfold prefix. rewrite !firstn_all2 by lia. lia.
Qed.

Lemma prefix_0 arr : prefix arr 0 = 0.
Proof. reflexivity. Qed.

Lemma nth_nonneg arr i : nonneg arr -> 0 <= nth i arr 0.
Proof.
  intros H. destruct (Nat.lt_ge_cases i (length arr)) as [L | L].
  - apply (proj1 (Forall_forall _ _) H). now apply nth_In.
  - rewrite nth_overflow by lia. lia.
Qed.

(* position q (an absolute phase, q >= 0) lies in the [i]-th interval of the [k]-th repetition *)
Definition tile (arr : list Z) (k : Z) (i : nat) (q : Z) : Prop :=
  0 <= k /\ (i < length arr)%nat /\ k * zsum arr + prefix arr i <= q < k * zsum arr + prefix arr (S i).

(* the dash pattern is "on" at absolute phase q: q lies in an even-numbered interval *)
Definition on_abs (arr : list Z) (q : Z) : Prop := exists k i, tile arr k i q /\ Nat.even i = true.

Lemma tile_unique arr k i k' i' q :
  nonneg arr -> tile arr k i q -> tile arr k' i' q -> k = k' /\ i = i'.
Proof.
  intros Hn (Hk & Hi & Hq) (Hk' & Hi' & Hq').
  pose proof (prefix_mono arr Hn) as M.
  pose proof (prefix_le_sum arr (S i) Hn). pose proof (prefix_le_sum arr (S i') Hn).
  pose proof (M 0%nat i ltac:(lia)). pose proof (M 0%nat i' ltac:(lia)). rewrite prefix_0 in *.
  assert (k = k') by nia. subst k'. split; [reflexivity|].
  destruct (Nat.lt_trichotomy i i') as [L | [L | L]]; [|assumption|].
  - pose proof (M (S i) i' ltac:(lia)). lia.
  - pose proof (M (S i') i ltac:(lia)). lia.
Qed.

Lemma on_abs_tile arr k i q : nonneg arr -> tile arr k i q -> (on_abs arr q <-> Nat.even i = true).
Proof.
  intros Hn Ht. split.
  - intros (k' & i' & Ht' & He). destruct (tile_unique _ _ _ _ _ _ Hn Ht Ht') as (_ & ->). exact He.
  - intros He. exists k, i. split; assumption.
Qed.

(* ---- find_first_interval ------------------------------------------------------------------------------ *)
Lemma ff_aux_spec : forall l i off fl fi,
  nonneg l -> 0 <= off ->
  find_first_aux Z Z.sub Z.ltb Z.eqb 0 l i off = Some (fl, fi) ->
  exists j, fi = (i + j)%nat /\ (j < length l)%nat /\ 0 <= fl <= nth j l 0 /\ off + fl = prefix l (S j).
Proof.
  induction l as [|g r IH]; intros i off fl fi Hn Ho H; cbn [find_first_aux] in H; [discriminate|].
  inversion Hn as [|? ? Hg Hr]; subst.
  destruct (Z.ltb g off || (Z.eqb off g && negb (Z.eqb g 0))) eqn:E.
  - assert (0 <= off - g).
    { apply orb_true_iff in E. destruct E as [E | E]; [apply Z.ltb_lt in E; lia|].
      apply andb_true_iff in E. destruct E as (E & _). apply Z.eqb_eq in E. lia. }
    destruct (IH (S i) (off - g) fl fi Hr ltac:(lia) H) as (j & -> & Hj & Hfl & Hp).
    exists (S j). split; [lia|]. split; [simpl; lia|]. split; [exact Hfl|].
    change (prefix (g :: r) (S (S j))) with (g + prefix r (S j)). lia.
  - injection H as <- <-. apply orb_false_iff in E. destruct E as (E1 & E2). apply Z.ltb_ge in E1.
    exists 0%nat. split; [lia|]. split; [simpl; lia|]. cbn [nth]. split; [lia|].
    change (prefix (g :: r) 1) with (g + 0). lia.
Qed.

Lemma ff_aux_none : forall l i off, 0 <= off ->
  find_first_aux Z Z.sub Z.ltb Z.eqb 0 l i off = None -> zsum l <= off.
Proof.
  induction l as [|g r IH]; intros i off Ho H; cbn [find_first_aux] in H; [simpl; lia|].
  destruct (Z.ltb g off || (Z.eqb off g && negb (Z.eqb g 0))) eqn:E; [|discriminate].
  assert (0 <= off - g).
  { apply orb_true_iff in E. destruct E as [E | E]; [apply Z.ltb_lt in E; lia|].
    apply andb_true_iff in E. destruct E as (E & _). apply Z.eqb_eq in E. lia. }
  pose proof (IH (S i) (off - g) H0 H). simpl. lia.
Qed.

(* the first interval: with 0 <= off < sum, (first_len, first_index) names the interval containing phase off
   and what is left of it *)
Theorem find_first_spec arr off fl fi :
  nonneg arr -> 0 <= off < zsum arr -> z_find_first arr off = (fl, fi) ->
  (fi < length arr)%nat /\ 0 <= fl <= nth fi arr 0 /\ off + fl = prefix arr (S fi).
Proof.
  intros Hn Ho H. unfold z_find_first, find_first_interval in H.
  destruct (find_first_aux Z Z.sub Z.ltb Z.eqb 0 arr 0 off) as [[a b]|] eqn:E.
  - injection H as -> ->. destruct (ff_aux_spec arr 0 off fl fi Hn (proj1 Ho) E) as (j & -> & Hj & Hfl & Hp).
    simpl. auto.
  - apply ff_aux_none in E; lia.
Qed.

(* ---- the dash loop --------------------------------------------------------------------------------------- *)
Definition covered (ps : list (piece Z)) (x : Z) : Prop := exists a b m, In (a, b, m) ps /\ a <= x < b.

Section Loop.
  Variables (arr : list Z) (off L lo : Z).
  Hypothesis Hn : nonneg arr.
  Hypothesis Hs : 0 < zsum arr.

  Definition Inv (s : dstate Z) : Prop :=
    (ds_index s < length arr)%nat /\ 0 <= ds_distance s /\
    0 <= ds_dlen s <= nth (ds_index s) arr 0 /\
    (exists k, 0 <= k /\ off + ds_distance s + ds_dlen s = k * zsum arr + prefix arr (S (ds_index s))) /\
    (if ds_skip s then ds_distance s = 0 /\ ds_dlen s = lo else lo <= ds_distance s) /\
    (forall a b m, In (a, b, m) (ds_acc s) -> b <= ds_distance s) /\
    (forall x, 0 <= x < ds_distance s -> (covered (ds_acc s) x <-> lo <= x /\ on_abs arr (off + x))).

  Lemma step_inv s s' : 0 <= off -> 0 <= lo -> Inv s -> z_dash_step arr L s = inl s' -> Inv s'.
  Proof.
    intros Hoff Hlo (Hi & Hd & Hl & (k & Hk & Hph) & Hsk & Hb & Hc) H.
    unfold z_dash_step, dash_step in H. destruct (Z.ltb (ds_distance s) L) eqn:EL; [|discriminate].
    injection H as <-. unfold Inv. cbn [ds_index ds_distance ds_dlen ds_skip ds_acc].
    set (idx := next_index (length arr) (ds_index s)).
    assert (Hidx : (idx < length arr)%nat).
    { unfold idx, next_index. destruct (Nat.eqb_spec (S (ds_index s)) (length arr)); lia. }
    pose proof (nth_nonneg arr idx Hn) as Hnn.
    (* the piece [distance, distance + dlen) lies in tile (k, index) *)
    assert (Htile : forall x, ds_distance s <= x < ds_distance s + ds_dlen s -> tile arr k (ds_index s) (off + x)).
    { intros x Hx. split; [exact Hk|]. split; [exact Hi|]. rewrite prefix_S in * by exact Hi. lia. }
    split; [exact Hidx|]. split; [lia|]. split; [lia|]. split.
    { (* phase of the next interval *)
      unfold idx, next_index. destruct (Nat.eqb_spec (S (ds_index s)) (length arr)) as [E | E].
      - exists (k + 1). split; [lia|]. rewrite E, prefix_all in Hph. rewrite (prefix_S arr 0) by lia. rewrite prefix_0. lia.
      - exists k. split; [lia|]. rewrite (prefix_S arr (S (ds_index s))) by lia. lia. }
    split; [destruct (ds_skip s); lia|]. split.
    { intros a b m Hin. destruct (Nat.even (ds_index s) && negb (ds_skip s)).
      - destruct Hin as [Hin | Hin]; [injection Hin as <- <- <-; lia|]. specialize (Hb _ _ _ Hin). lia.
      - specialize (Hb _ _ _ Hin). lia. }
    intros x Hx.
    destruct (Z_lt_le_dec x (ds_distance s)) as [Lx | Lx].
    - (* already classified; the new piece starts at distance *)
      rewrite <- (Hc x ltac:(lia)). unfold covered. split; intros (a & b & m & Hin & Hab); exists a, b, m.
      + destruct (Nat.even (ds_index s) && negb (ds_skip s)); [|auto].
        destruct Hin as [Hin | Hin]; [injection Hin as <- <- <-; lia|auto].
      + destruct (Nat.even (ds_index s) && negb (ds_skip s)); [|auto]. split; [right; tauto|tauto].
    - pose proof (on_abs_tile arr k (ds_index s) (off + x) Hn (Htile x ltac:(lia))) as Hon.
      rewrite Hon. unfold covered.
      destruct (ds_skip s) eqn:Esk.
      + (* the skipped first piece of a closed contour: nothing is added, and x < lo *)
        rewrite andb_false_r. destruct Hsk as (Hd0 & Hdl). split.
        * intros (a & b & m & Hin & Hab). specialize (Hb _ _ _ Hin). lia.
        * lia.
      + rewrite andb_true_r. destruct (Nat.even (ds_index s)) eqn:Ee.
        * split; [intros _; split; [lia|reflexivity]|].
          intros _. exists (ds_distance s), (ds_distance s + ds_dlen s), true. split; [left; reflexivity|lia].
        * split; [|intros (_ & Hf); discriminate].
          intros (a & b & m & Hin & Hab). specialize (Hb _ _ _ Hin). lia.
  Qed.
End Loop.

(* The property for one contour of length L, pattern [arr], phase [off] in [0, sum): the pieces handed to
   push_segment cover exactly the positions x in [0, L) whose phase off + x is "on". For a closed contour the
   first piece is skipped by the loop and appended at the end (joined to the last piece when that one was
   "on": start_with_move_to = false), so it is emitted once. *)
Theorem dash_contour_on_set fuel arr off L closed ps :
  nonneg arr -> 0 < zsum arr -> 0 <= off < zsum arr ->
  let '(fl, fi) := z_find_first arr off in
  z_dash_contour fuel arr fl fi L closed (0 <=? fl) = Some ps ->
  forall x, 0 <= x < L -> (covered ps x <-> on_abs arr (off + x)).
Proof.
  intros Hn Hs Ho. destruct (z_find_first arr off) as [fl fi] eqn:EF.
  destruct (find_first_spec _ _ _ _ Hn Ho EF) as (Hfi & Hfl & Hph).
  unfold z_dash_contour, dash_contour. intros H x Hx.
  set (lo := if closed then fl else 0).
  set (s0 := mkds 0 fl fi closed false ([] : list (piece Z))).
  assert (I0 : Inv arr off lo s0).
  { unfold Inv, s0, lo. cbn [ds_index ds_distance ds_dlen ds_skip ds_acc].
    split; [exact Hfi|]. split; [lia|]. split; [exact Hfl|]. split; [exists 0; lia|].
    split; [destruct closed; lia|]. split; [intros ? ? ? []|]. intros y Hy. lia. }
  assert (STEP : forall s s', Inv arr off lo s -> dash_step Z Z.add Z.ltb 0 arr L s = inl s' -> Inv arr off lo s').
  { intros s s' Is Es. eapply step_inv; eauto; [lia | unfold lo; destruct closed; lia]. }
  pose proof (iter_until_inv (dash_step Z Z.add Z.ltb 0 arr L) (Inv arr off lo) STEP fuel s0 I0) as HI.
  fold s0 in H. destruct (iter_until (dash_step Z Z.add Z.ltb 0 arr L) fuel s0) as [s1 | [ps0 added]]; [discriminate|].
  destruct HI as (s' & (Hi & Hd & Hl & _ & Hsk & Hb & Hc) & Hend).
  unfold dash_step in Hend. destruct (Z.ltb (ds_distance s') L) eqn:EL; [discriminate|].
  injection Hend as <- <-. apply Z.ltb_ge in EL.
  assert (Hrev : forall y, covered (rev (ds_acc s')) y <-> covered (ds_acc s') y).
  { intros y. unfold covered. split; intros (a & b & m & Hin & Hab); exists a, b, m; (split; [|exact Hab]).
    - apply in_rev. exact Hin.
    - apply -> in_rev. exact Hin. }
  specialize (Hc x ltac:(lia)).
  (* the tile of the first interval *)
  assert (Hfirst : forall y, 0 <= y < fl -> (on_abs arr (off + y) <-> Nat.even fi = true)).
  { intros y Hy. apply (on_abs_tile arr 0 fi); [exact Hn|]. split; [lia|]. split; [exact Hfi|].
    rewrite prefix_S in * by exact Hfi. lia. }
  destruct closed; cbn [andb] in H.
  - replace (0 <=? fl) with true in H by (symmetry; apply Z.leb_le; lia). rewrite andb_true_r in H.
    unfold lo in Hc. destruct (Nat.even fi) eqn:Ee; injection H as <-.
    + (* the first piece is appended *)
      split.
      * intros (a & b & m & Hin & Hab). apply in_app_or in Hin. destruct Hin as [Hin | Hin].
        -- apply (proj1 (Hrev x)) in Hc0 || idtac.
           assert (C : covered (ds_acc s') x) by (apply Hrev; exists a, b, m; auto). apply Hc in C. tauto.
        -- destruct Hin as [Hin | []]. injection Hin as <- <- <-. apply Hfirst; [lia|reflexivity].
      * intros Hon. destruct (Z_lt_le_dec x fl) as [Lx | Lx].
        -- exists 0, fl, (negb (ds_added s')). split; [apply in_or_app; right; left; reflexivity|lia].
        -- assert (C : covered (ds_acc s') x) by (apply Hc; split; [lia|exact Hon]).
           apply Hrev in C. destruct C as (a & b & m & Hin & Hab). exists a, b, m. split; [apply in_or_app; left; exact Hin|lia].
    + (* an "off" first interval: nothing appended, and nothing to cover below fl *)
      rewrite Hrev, Hc. split; [tauto|]. intros Hon. split; [|exact Hon].
      destruct (Z_lt_le_dec x fl) as [Lx | Lx]; [|lia].
      apply Hfirst in Hon; [discriminate|lia].
  - injection H as <-. unfold lo in Hc. rewrite Hrev, Hc. split; [tauto|]. intros Hon. split; [lia|exact Hon].
Qed.

(* ---- StrokeDash::new accepts exactly the documented arrays (binary32 instance) ------------------------- *)
Definition documented (arr : list f32) (offset : f32) : Prop :=
  F32.is_finite offset = true /\ (2 <= length arr)%nat /\ Nat.even (length arr) = true /\
  Forall (fun x => F32.is_finite x = true /\ F32.lt x F32.zero = false) arr /\
  F32.is_finite (f32_sum arr) = true /\ F32.gt (f32_sum arr) F32.zero = true.

Lemma plus_finite (a b : f32) : F32.is_finite (F32.add a b) = true -> F32.is_finite a = true /\ F32.is_finite b = true.
Proof.
  unfold F32.is_finite, F32.add. destruct a as [sa| sa| |sa ma ea Ha], b as [sb| sb| |sb mb eb Hb]; cbn; auto;
    try discriminate.
  all: try (destruct sa, sb; cbn; auto; discriminate).
Qed.

Lemma sum_finite : forall l acc, F32.is_finite (fold_left F32.add l acc) = true ->
  F32.is_finite acc = true /\ Forall (fun x => F32.is_finite x = true) l.
Proof.
  induction l as [|x l IH]; intros acc H; cbn [fold_left] in H; [auto|].
  destruct (IH _ H) as (H1 & H2). destruct (plus_finite _ _ H1). auto.
Qed.

Theorem strokedash_new_rejects_exactly arr offset :
  strokedash_new arr offset = Some None <-> ~ documented arr offset.
Proof.
  unfold strokedash_new, documented, nonzero_positive.
  destruct (F32.is_finite offset) eqn:E1; cbn [negb]; [|split; [intros _ (H & _); discriminate|reflexivity]].
  destruct ((length arr <? 2)%nat) eqn:E2; cbn [orb].
  { apply Nat.ltb_lt in E2. split; [intros _ (_ & H & _); lia|reflexivity]. }
  apply Nat.ltb_ge in E2.
  destruct (Nat.even (length arr)) eqn:E3; cbn [negb]; [|split; [intros _ (_ & _ & H & _); discriminate|reflexivity]].
  destruct (existsb (fun n => F32.lt n F32.zero) arr) eqn:E4.
  { split; [|reflexivity]. intros _ (_ & _ & _ & H & _). apply existsb_exists in E4. destruct E4 as (x & Hx & Hl).
    apply (proj1 (Forall_forall _ _) H) in Hx. destruct Hx as (_ & Hx). congruence. }
  destruct (F32.is_finite (f32_sum arr)) eqn:E5; cbn [andb negb]; [|split; [intros _ (_ & _ & _ & _ & H & _); discriminate|reflexivity]].
  destruct (F32.gt (f32_sum arr) F32.zero) eqn:E6; cbn [negb]; [|split; [intros _ (_ & _ & _ & _ & _ & H); discriminate|reflexivity]].
  (* all tests passed: the array is documented, and the result is not a rejection *)
  assert (D : Forall (fun x => F32.is_finite x = true /\ F32.lt x F32.zero = false) arr).
  { destruct (sum_finite arr F32.zero E5) as (_ & Hf). apply Forall_forall. intros x Hx. split.
    - apply (proj1 (Forall_forall _ _) Hf x Hx).
    - destruct (F32.lt x F32.zero) eqn:El; [|reflexivity].
      assert (existsb (fun n => F32.lt n F32.zero) arr = true) by (apply existsb_exists; eauto). congruence. }
  split.
  - intros H. exfalso.
    destruct (adjust_dash_offset offset (f32_sum arr)) as [o|]; [|discriminate].
    destruct (negb (F32.ge o F32.zero) || negb (F32.lt o (f32_sum arr))); [discriminate|].
    destruct (f32_find_first arr o) as [fl fi]. destruct (negb (F32.ge fl F32.zero)); discriminate.
  - intros H. exfalso. apply H. repeat split; auto.
Qed.

(* None rather than a partial result: as soon as the accumulated dash count exceeds one million the whole
   call returns None, whatever was built so far *)
Theorem dash_none_when_too_many f d segs count b c rest :
  measure_next segs = Some (MContour c rest) ->
  F32.gt (F32.add count (F32.div (F32.mul (ct_len c) (F32.of_Z (Z.shiftr (Z.of_nat (length (sd_array d))) 1))) (sd_interval_len d)))
         max_dash_count = true ->
  dash_contours (S f) d segs count b = DNone.
Proof. intros H1 H2. cbn [dash_contours]. rewrite H1. cbv zeta. rewrite H2. reflexivity. Qed.
