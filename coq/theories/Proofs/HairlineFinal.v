(* C06, end to end without a side condition: a hairline segment between finite points whose bounding box is a valid Rect
   (every segment of a Path: C14) blits only inside the w x h target, whatever the coordinates. *)
From Coq Require Import ZArith Bool List Lia Reals Lra.
From Flocq Require Import Core.Zaux Core.Raux Core.Defs IEEE754.BinarySingleNaN.
From TS Require Import Base.F32 Model.Rect Model.LineClip Model.RunC06 Proofs.RectPoints Proofs.LineClipProofs
  Proofs.HairlineChain Proofs.LineClipFinite Proofs.NearestCopy.
Import ListNotations.
Local Open Scope Z_scope.

Lemma R_of_Z_32767 : fin (F32.of_Z 32767) /\ R32 (F32.of_Z 32767) = 32767%R.
Proof. destruct (val_of_Z 32767 ltac:(lia)) as (A & B). split; [exact A|]. rewrite B. change (2 * 32767)%Z with 65534%Z. lra. Qed.
Lemma R_of_Z_m32767 : fin (F32.of_Z (-32767)) /\ R32 (F32.of_Z (-32767)) = (-32767)%R.
Proof. destruct (val_of_Z (-32767) ltac:(lia)) as (A & B). split; [exact A|]. rewrite B. change (2 * -32767)%Z with (-65534)%Z. lra. Qed.

Lemma within_fixed fb p : fixed_bounds = Some fb -> fin (px p) -> fin (py p) -> nout fb p ->
  (Rabs (R32 (px p)) <= bpow radix2 15)%R /\ (Rabs (R32 (py p)) <= bpow radix2 15)%R.
Proof.
  intros EF Fx Fy ((X1 & X2) & (Y1 & Y2)). unfold fixed_bounds in EF.
  destruct (from_ltrb_some _ _ _ _ _ EF) as (-> & _). cbn [rl rt rr rb] in *.
  destruct R_of_Z_32767 as (Fp & Rp). destruct R_of_Z_m32767 as (Fm & Rm).
  apply (lt_fin_false _ _ Fx Fm) in X1. apply (lt_fin_false _ _ Fp Fx) in X2.
  apply (lt_fin_false _ _ Fy Fm) in Y1. apply (lt_fin_false _ _ Fp Fy) in Y2.
  rewrite Rp, Rm in *. change (bpow radix2 15) with 32768%R.
  split; apply Rabs_le; lra.
Qed.

Theorem hair_line_segment_in_clip w h p0 p1 bnd bl x y :
  1 <= w <= 32767 -> 1 <= h <= 32767 ->
  fin (px p0) -> fin (py p0) -> fin (px p1) -> fin (py p1) ->
  from_ltrb (F32.min (px p0) (px p1)) (F32.min (py p0) (py p1)) (F32.max (px p0) (px p1)) (F32.max (py p0) (py p1)) = Some bnd ->
  hair_line_rgn_seg w h p0 p1 = Some bl -> In (x, y) bl -> 0 <= x < w /\ 0 <= y < h.
Proof.
  intros Hw Hh Fx0 Fy0 Fx1 Fy1 Hb H Hin.
  apply (hair_line_rgn_seg_in_clip w h p0 p1 bl x y Hw Hh); [|exact H|exact Hin].
  intros fb a b EF E1.
  assert (Hc : clip_ok fb) by (unfold fixed_bounds in EF; exact (from_ltrb_clip_ok _ _ _ _ _ EF)).
  destruct (intersect_finite p0 p1 fb bnd a b Fx0 Fy0 Fx1 Fy1 Hc Hb E1) as ((Fa1 & Fa2 & Fb1 & Fb2) & Na & Nb).
  repeat (split; [assumption|]).
  destruct (within_fixed fb a EF Fa1 Fa2 Na) as (A1 & A2). destruct (within_fixed fb b EF Fb1 Fb2 Nb) as (B1 & B2).
  exact (bbox_valid (px a) (py a) (px b) (py b) Fa1 Fa2 Fb1 Fb2 A1 A2 B1 B2).
Qed.
