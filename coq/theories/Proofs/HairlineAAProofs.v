(* C06 (anti-aliased hairline, bit-exact model Model/HairlineAA.v): where the pixels of one walked segment fall.
   Every contribution of the mostly-horizontal walk lies in a column of [istart, istop) and in one of the two rows around the
   16.16 ordinate of its column; consequently, when do_anti_hairline drops the clipping blitter because its own bound
   computation says the segment is inside, every pixel it writes IS inside the clip (memory safety of the unclipped route). *)
From Coq Require Import ZArith Bool List Lia.
From TS Require Import Base.F32 Base.Checked Gen.FixedGen Model.IntRect Model.HairlineAA.
Import ListNotations.
Local Open Scope Z_scope.
Ltac Zify.zify_post_hook ::= Z.div_mod_to_equations.

Lemma ck_some z v : ck z = Some v -> v = z /\ -2147483648 <= z <= 2147483647.
Proof.
  unfold ck, ck_i. destruct (in_i 32 z) eqn:E; [|discriminate]. intros H. injection H as H.
  unfold in_i in E. change (2 ^ (32 - 1)) with 2147483648 in E. apply andb_true_iff in E. destruct E as (E1 & E2).
  apply Z.leb_le in E1, E2. lia.
Qed.

Lemma shr16 v : shr v 16 = v / 65536.
Proof. unfold shr. rewrite Z.shiftr_div_pow2 by lia. reflexivity. Qed.

Lemma in_px1 c x y a p : In p (px1 c x y a) -> p = (x, y, a) /\ 0 < a /\ in_clip c x y = true.
Proof.
  unfold px1. destruct ((0 <? a) && in_clip c x y) eqn:E; [|intros []]. intros [H | []]. apply andb_true_iff in E. destruct E as (E1 & E2).
  apply Z.ltb_lt in E1. auto.
Qed.

(* where a contribution may be: column range [x0, x1) and the rows admitted by [rows] *)
Definition within (x0 x1 : Z) (rows : Z -> Z -> Prop) (l : list (Z * Z * Z)) : Prop :=
  forall x y a, In (x, y, a) l -> x0 <= x < x1 /\ rows x y /\ 0 < a.

Lemma within_app x0 x1 rows l1 l2 : within x0 x1 rows l1 -> within x0 x1 rows l2 -> within x0 x1 rows (l1 ++ l2).
Proof. intros H1 H2 x y a Hin. apply in_app_or in Hin. destruct Hin; [apply H1 | apply H2]; assumption. Qed.
Lemma within_nil x0 x1 rows : within x0 x1 rows [].
Proof. intros x y a []. Qed.
Lemma within_mono x0 x1 x0' x1' rows l : within x0 x1 rows l -> x0' <= x0 -> x1 <= x1' -> within x0' x1' rows l.
Proof. intros H A B x y a Hin. destruct (H x y a Hin) as (H1 & H2 & H3). repeat split; try assumption; lia. Qed.

(* the rows of column x under the ideal accumulator F x (which already contains the +1/2): the two rows dec1 q, dec1 q + 1 *)
Definition rows_of (F : Z -> Z) (x y : Z) : Prop :=
  let q := (Z.max (F x) 0) / 65536 in y = dec1 q \/ y = dec1 q + 1.

(* the per-column loop of Horish::draw_line *)
Lemma slanted_loop_horish fuel : forall c pos f slope acc res F,
  slanted_loop fuel Horish c pos f slope acc = Some res ->
  (forall i, 0 <= i < Z.of_nat fuel -> 0 <= f + i * slope) ->
  (forall i, 0 <= i < Z.of_nat fuel -> F (pos + i) = f + i * slope) ->
  exists out, fst res = acc ++ out /\ within pos (pos + Z.of_nat fuel) (rows_of F) out /\
              (0 < Z.of_nat fuel -> snd res = f + Z.of_nat fuel * slope).
Proof.
  induction fuel as [|n IH]; intros c pos f slope acc res F H Hpos HF.
  - cbn [slanted_loop] in H. inversion H. exists []. rewrite app_nil_r. split; [reflexivity|]. split; [apply within_nil | intros; lia].
  - cbn [slanted_loop] in H.
    assert (F0 : 0 <= f) by (specialize (Hpos 0 ltac:(lia)); lia).
    rewrite (Z.max_l f 0) in H by lia.
    destruct (ck (f + slope)) as [f3|] eqn:E; [|discriminate]. cbn [IntRect.bind] in H. apply ck_some in E. destruct E as (E & _). subst f3.
    set (out0 := px1 c pos (dec1 (shr f 16)) (255 - alpha_of (shr f 8)) ++ px1 c pos (dec1 (shr f 16) + 1) (alpha_of (shr f 8))) in *.
    destruct (Nat.eq_dec n 0) as [N0 | N0].
    + subst n. cbn [slanted_loop] in H. inversion H. exists out0. split; [reflexivity|]. split.
      * intros x y a Hin. unfold out0 in Hin. apply in_app_or in Hin.
        assert (Q : (Z.max (F pos) 0) / 65536 = shr f 16).
        { specialize (HF 0 ltac:(lia)). rewrite Z.add_0_r, Z.mul_0_l, Z.add_0_r in HF. rewrite HF, Z.max_l by lia. symmetry. apply shr16. }
        destruct Hin as [Hin | Hin]; apply in_px1 in Hin; destruct Hin as (P & A & _); inversion P; subst;
          (split; [lia|]; split; [unfold rows_of; cbv zeta; rewrite Q; auto | exact A]).
      * intros _. cbn [snd]. lia.
    + destruct (IH c (pos + 1) (f + slope) slope (acc ++ out0) res F H) as (out & R1 & R2 & R3).
      * intros i Hi. specialize (Hpos (i + 1) ltac:(lia)). lia.
      * intros i Hi. specialize (HF (i + 1) ltac:(lia)). replace (pos + 1 + i) with (pos + (i + 1)) by lia. lia.
      * exists (out0 ++ out). split; [rewrite R1, app_assoc; reflexivity|]. split.
        -- apply within_app.
           ++ intros x y a Hin. unfold out0 in Hin. apply in_app_or in Hin.
              assert (Q : (Z.max (F pos) 0) / 65536 = shr f 16).
              { specialize (HF 0 ltac:(lia)). rewrite Z.add_0_r, Z.mul_0_l, Z.add_0_r in HF. rewrite HF, Z.max_l by lia. symmetry. apply shr16. }
              destruct Hin as [Hin | Hin]; apply in_px1 in Hin; destruct Hin as (P & A & _); inversion P; subst;
                (split; [lia|]; split; [unfold rows_of; cbv zeta; rewrite Q; auto | exact A]).
           ++ eapply within_mono; [exact R2 | lia | lia].
        -- intros _. rewrite R3 by lia. lia.
Qed.

Lemma bind_some {A B} (o : option A) (f : A -> option B) r : IntRect.bind o f = Some r -> exists a, o = Some a /\ f a = Some r.
Proof. destruct o as [a|]; cbn; [intros H; exists a; auto | discriminate]. Qed.

Lemma draw_cap_horish c pos f slope m res F :
  draw_cap Horish c pos f slope m = Some res -> 0 <= f + half16 -> F pos = f + half16 ->
  within pos (pos + 1) (rows_of F) (fst res) /\ snd res = f + slope.
Proof.
  unfold draw_cap. intros H Hp HF.
  apply bind_some in H. destruct H as (f1 & E1 & H). apply ck_some in E1. destruct E1 as (E1 & _). subst f1.
  rewrite (Z.max_l (f + half16) 0) in H by lia.
  apply bind_some in H. destruct H as (mlo & _ & H). apply bind_some in H. destruct H as (mhi & _ & H).
  apply bind_some in H. destruct H as (r0 & E2 & H). apply ck_some in E2. destruct E2 as (E2 & _).
  apply bind_some in H. destruct H as (r & E3 & H). apply ck_some in E3. destruct E3 as (E3 & _).
  injection H as H. subst res. cbn [fst snd]. split; [|unfold half16 in *; lia].
  assert (Q : (Z.max (F pos) 0) / 65536 = shr (f + half16) 16) by (rewrite HF, Z.max_l by lia; symmetry; apply shr16).
  intros x y a Hin. apply in_app_or in Hin.
  destruct Hin as [Hin | Hin]; apply in_px1 in Hin; destruct Hin as (P & A & _); inversion P; subst;
    (split; [lia|]; split; [unfold rows_of; cbv zeta; rewrite Q; auto | exact A]).
Qed.

(* THE walk statement (mostly-horizontal, slanted): with an accumulator that never goes negative, every contribution is in a column
   of [istart, istop) and in one of the two rows around F(x) = fstart + 1/2 + (x - istart) * slope *)
Theorem walk_horish_within c istart istop fstart slope s0 s1 out :
  walk Horish c istart istop fstart slope s0 s1 = Some out ->
  (forall i, 0 <= i < istop - istart -> 0 <= fstart + half16 + i * slope) ->
  within istart istop (rows_of (fun x => fstart + half16 + (x - istart) * slope)) out.
Proof.
  unfold walk. intros H Hpos. set (F := fun x => fstart + half16 + (x - istart) * slope).
  destruct ((istart <? 0) || (istop <? 0)) eqn:E0; [discriminate|].
  apply bind_some in H. destruct H as (r1 & C1 & H).
  destruct (istop - (istart + 1) - (if 0 <? s1 then 1 else 0) <? 0) eqn:Ef; [discriminate|]. apply Z.ltb_ge in Ef.
  set (full := istop - (istart + 1) - (if 0 <? s1 then 1 else 0)) in *.
  assert (Hn : 1 <= istop - istart) by (unfold full in Ef; destruct (0 <? s1); lia).
  destruct (draw_cap_horish c istart fstart slope s0 r1 F C1) as (W1 & S1).
  { specialize (Hpos 0 ltac:(lia)). lia. }
  { unfold F. lia. }
  apply bind_some in H. destruct H as (r2 & C2 & H). apply bind_some in H. destruct H as (r3 & C3 & H).
  injection H as H. subst out.
  (* the full spans *)
  assert (W2 : within istart istop (rows_of F) (fst r2) /\ snd r2 = fstart + (1 + full) * slope).
  { destruct (0 <? full) eqn:Efull.
    - apply Z.ltb_lt in Efull. unfold draw_line in C2.
      destruct (istart + 1 + full <=? istart + 1) eqn:El; [apply Z.leb_le in El; lia|].
      apply bind_some in C2. destruct C2 as (f1 & E1 & C2). apply ck_some in E1. destruct E1 as (E1 & _).
      apply bind_some in C2. destruct C2 as (res & L & C2). apply bind_some in C2. destruct C2 as (r & E3 & C2).
      apply ck_some in E3. destruct E3 as (E3 & _). injection C2 as C2. subst r2. cbn [fst snd].
      replace (istart + 1 + full - (istart + 1)) with full in L by lia.
      destruct (slanted_loop_horish (Z.to_nat full) c (istart + 1) f1 slope [] res F L) as (o & R1 & R2 & R3).
      + intros i Hi. rewrite Z2Nat.id in Hi by lia. subst f1. rewrite S1. specialize (Hpos (i + 1) ltac:(unfold full in *; destruct (0 <? s1); lia)). lia.
      + intros i Hi. subst f1. rewrite S1. unfold F. lia.
      + rewrite Z2Nat.id in * by lia. split.
        * rewrite R1. cbn [app]. eapply within_mono; [exact R2 | lia | unfold full; destruct (0 <? s1); lia].
        * rewrite E3, R3 by lia. subst f1. rewrite S1. unfold half16 in *. lia.
    - injection C2 as C2. subst r2. cbn [fst snd]. split; [apply within_nil|]. apply Z.ltb_ge in Efull. rewrite S1. assert (full = 0) by lia. lia. }
  destruct W2 as (W2 & S2).
  apply within_app; [eapply within_mono; [exact W1 | lia | lia]|]. apply within_app; [exact W2|].
  destruct (0 <? s1) eqn:Es.
  - destruct (draw_cap_horish c (istop - 1) (snd r2) slope s1 r3 F C3) as (W3 & _).
    + rewrite S2. specialize (Hpos (1 + full) ltac:(unfold full; lia)). lia.
    + rewrite S2. unfold F, full. lia.
    + eapply within_mono; [exact W3 | unfold full in Ef; lia | lia].
  - injection C3 as C3. subst r3. apply within_nil.
Qed.

(* do_anti_hairline's own bound computation (mostly-horizontal branch): rows top .. bottom, exclusive of the -1 / +1 margins *)
Definition ceil16 (v : Z) : Z := (v + 65535) / 65536.
Definition y_top (fstart slope n : Z) : Z :=
  (if 0 <=? slope then fstart - half16 else fstart + (n - 1) * slope - half16) / 65536 - 1.
Definition y_bottom (fstart slope n : Z) : Z :=
  ceil16 (if 0 <=? slope then fstart + (n - 1) * slope + half16 else fstart + half16) + 1.

(* THE safety statement of the route without the clipping blitter: if the segment's columns are inside the clip and the rows
   the code computes (y_top, y_bottom) are inside it, every pixel the walk writes is inside the clip *)
Theorem walk_horish_inside_clip istart istop fstart slope s0 s1 out cl ct cr cb :
  walk Horish None istart istop fstart slope s0 s1 = Some out ->
  cl <= istart -> istop <= cr -> 0 <= ct ->
  ct <= y_top fstart slope (istop - istart) -> y_bottom fstart slope (istop - istart) <= cb ->
  forall x y a, In (x, y, a) out -> cl <= x < cr /\ ct <= y < cb /\ 0 < a.
Proof.
  intros H Hl Hr Ht Htop Hbot x y a Hin.
  set (n := istop - istart) in *.
  assert (NN : forall i, 0 <= i < n -> 0 <= fstart + half16 + i * slope).
  { intros i Hi. unfold y_top, half16 in *. destruct (Z.leb_spec 0 slope).
    - assert (0 <= i * slope) by nia. lia.
    - assert ((n - 1) * slope <= i * slope) by nia. lia. }
  destruct (walk_horish_within None istart istop fstart slope s0 s1 out H NN x y a Hin) as (Hx & Hrow & Ha).
  split; [lia|]. split; [|exact Ha].
  unfold rows_of in Hrow. cbv zeta in Hrow. set (Fx := fstart + half16 + (x - istart) * slope) in *.
  unfold y_top, y_bottom, ceil16, dec1, half16 in *.
  destruct (Z.leb_spec 0 slope).
  - assert (0 <= (x - istart) * slope <= (n - 1) * slope) by (unfold n; nia).
    destruct Hrow as [-> | ->]; unfold Fx; lia.
  - assert ((n - 1) * slope <= (x - istart) * slope <= 0) by (unfold n; nia).
    destruct Hrow as [-> | ->]; unfold Fx; lia.
Qed.

(* ---- the mostly-vertical walk is the transposed mostly-horizontal one ------------------------------------------------------ *)
Definition tr (p : Z * Z * Z) : Z * Z * Z := let '(x, y, a) := p in (y, x, a).
Definition swapc (c : iclip) : iclip := match c with None => None | Some (l, t, r, b) => Some (t, l, b, r) end.

Lemma tr_tr l : map tr (map tr l) = l.
Proof. rewrite map_map. rewrite <- (map_id l) at 2. apply map_ext. intros ((x, y), a). reflexivity. Qed.

Lemma in_clip_swap c x y : in_clip (swapc c) y x = in_clip c x y.
Proof. destruct c as [(((l, t), r), b)|]; [|reflexivity]. cbn. destruct (l <=? x), (x <? r), (t <=? y), (y <? b); reflexivity. Qed.

Lemma px1_swap c x y a : px1 (swapc c) y x a = map tr (px1 c x y a).
Proof. unfold px1. rewrite in_clip_swap. destruct ((0 <? a) && in_clip c x y); reflexivity. Qed.

Definition trr (r : list (Z * Z * Z) * Z) : list (Z * Z * Z) * Z := (map tr (fst r), snd r).

Lemma slanted_loop_tr fuel : forall c pos f slope acc,
  slanted_loop fuel Vertish c pos f slope acc = option_map trr (slanted_loop fuel Horish (swapc c) pos f slope (map tr acc)).
Proof.
  induction fuel as [|n IH]; intros c pos f slope acc; cbn [slanted_loop].
  - cbn. unfold trr. cbn [fst snd]. rewrite tr_tr. reflexivity.
  - destruct (ck (Z.max f 0 + slope)) as [f3|]; [|reflexivity]. cbn [IntRect.bind].
    rewrite IH. f_equal. f_equal. rewrite !map_app. rewrite <- !px1_swap. reflexivity.
Qed.

Lemma swapc_invol c : swapc (swapc c) = c.
Proof. destruct c as [(((l, t), r), b)|]; reflexivity. Qed.

Lemma bind_map_trr (o : option (list (Z * Z * Z) * Z)) : forall (k : list (Z * Z * Z) * Z -> option (list (Z * Z * Z) * Z)) k',
  (forall r, k (trr r) = option_map trr (k' r)) ->
  IntRect.bind (option_map trr o) k = option_map trr (IntRect.bind o k').
Proof. intros k k' H. destruct o as [r|]; cbn; [apply H | reflexivity]. Qed.

Lemma draw_cap_tr c pos f slope m :
  draw_cap Vertish c pos f slope m = option_map trr (draw_cap Horish (swapc c) pos f slope m).
Proof.
  unfold draw_cap. destruct (ck (f + half16)) as [f1|]; [|reflexivity]. cbn [IntRect.bind].
  destruct (fdot6_small_scale _ m) as [mlo|]; [|reflexivity]. cbn [IntRect.bind].
  destruct (fdot6_small_scale (255 - _) m) as [mhi|]; [|reflexivity]. cbn [IntRect.bind].
  destruct (ck (Z.max f1 0 + slope)) as [r0|]; [|reflexivity]. cbn [IntRect.bind].
  destruct (ck (r0 - half16)) as [r|]; [|reflexivity]. cbn [IntRect.bind option_map]. unfold trr. cbn [fst snd].
  rewrite map_app, <- !px1_swap, swapc_invol. reflexivity.
Qed.

Lemma draw_line_tr c pos stop f slope :
  draw_line Vertish c pos stop f slope = option_map trr (draw_line Horish (swapc c) pos stop f slope).
Proof.
  unfold draw_line. destruct (stop <=? pos); [reflexivity|].
  destruct (ck (f + half16)) as [f1|]; [|reflexivity]. cbn [IntRect.bind].
  rewrite slanted_loop_tr. cbn [map].
  destruct (slanted_loop (Z.to_nat (stop - pos)) Horish (swapc c) pos f1 slope []) as [res|]; [|reflexivity]. cbn [option_map IntRect.bind].
  unfold trr at 1. cbn [snd fst].
  destruct (ck (snd res - half16)) as [r|]; [|reflexivity]. cbn [IntRect.bind option_map]. reflexivity.
Qed.

Theorem walk_tr c istart istop fstart slope s0 s1 :
  walk Vertish c istart istop fstart slope s0 s1 = option_map (map tr) (walk Horish (swapc c) istart istop fstart slope s0 s1).
Proof.
  unfold walk. destruct ((istart <? 0) || (istop <? 0)); [reflexivity|].
  rewrite draw_cap_tr. destruct (draw_cap Horish (swapc c) istart fstart slope s0) as [r1|]; [|reflexivity]. cbn [option_map IntRect.bind].
  unfold trr at 1 2 3. cbn [fst snd].
  destruct (istop - (istart + 1) - (if 0 <? s1 then 1 else 0) <? 0); [reflexivity|].
  assert (E2 : (if 0 <? istop - (istart + 1) - (if 0 <? s1 then 1 else 0)
                then draw_line Vertish c (istart + 1) (istart + 1 + (istop - (istart + 1) - (if 0 <? s1 then 1 else 0))) (snd r1) slope
                else Some ([], snd r1)) =
               option_map trr (if 0 <? istop - (istart + 1) - (if 0 <? s1 then 1 else 0)
                then draw_line Horish (swapc c) (istart + 1) (istart + 1 + (istop - (istart + 1) - (if 0 <? s1 then 1 else 0))) (snd r1) slope
                else Some ([], snd r1))).
  { destruct (0 <? _); [apply draw_line_tr | reflexivity]. }
  rewrite E2. clear E2.
  destruct (if 0 <? istop - (istart + 1) - (if 0 <? s1 then 1 else 0) then _ else _) as [r2|]; [|reflexivity]. cbn [option_map IntRect.bind].
  unfold trr at 1 2. cbn [fst snd].
  assert (E3 : (if 0 <? s1 then draw_cap Vertish c (istop - 1) (snd r2) slope s1 else Some ([], snd r2)) =
               option_map trr (if 0 <? s1 then draw_cap Horish (swapc c) (istop - 1) (snd r2) slope s1 else Some ([], snd r2))).
  { destruct (0 <? s1); [apply draw_cap_tr | reflexivity]. }
  rewrite E3. clear E3.
  destruct (if 0 <? s1 then _ else _) as [r3|]; [|reflexivity]. cbn [option_map IntRect.bind]. unfold trr. cbn [fst].
  rewrite !map_app. reflexivity.
Qed.

(* the mostly-vertical statements, by transposition *)
Theorem walk_vertish_inside_clip istart istop fstart slope s0 s1 out cl ct cr cb :
  walk Vertish None istart istop fstart slope s0 s1 = Some out ->
  ct <= istart -> istop <= cb -> 0 <= cl ->
  cl <= y_top fstart slope (istop - istart) -> y_bottom fstart slope (istop - istart) <= cr ->
  forall x y a, In (x, y, a) out -> cl <= x < cr /\ ct <= y < cb /\ 0 < a.
Proof.
  intros H Ht Hb Hl Hlo Hhi x y a Hin. rewrite walk_tr in H. cbn [swapc] in H.
  destruct (walk Horish None istart istop fstart slope s0 s1) as [o|] eqn:W; [|discriminate]. injection H as H. subst out.
  apply in_map_iff in Hin. destruct Hin as (((x', y'), a') & E & Hin). cbn in E. inversion E. subst.
  destruct (walk_horish_inside_clip istart istop fstart slope s0 s1 o ct cl cb cr W Ht Hb Hl Hlo Hhi y x a Hin) as (A & B & C).
  auto.
Qed.

(* ---- the known finding C06-aa-hairline-top-left-fold, as a statement about the model -------------------------------------- *)
(* without the hypothesis "the accumulator never goes negative" the rows statement is false: a segment that starts above the
   pixmap (fstart + 1/2 < 0) is clamped at its first column and every later column is drawn below its ideal rows *)
Theorem walk_rows_refuted_when_clamped :
  exists istart istop fstart slope s0 s1 out x y a,
    walk Horish None istart istop fstart slope s0 s1 = Some out /\ In (x, y, a) out /\
    ~ rows_of (fun x => fstart + half16 + (x - istart) * slope) x y.
Proof.
  exists 0, 6, (-81920), 32768, 64, 0.
  eexists. exists 5, 2, 128. split; [vm_compute; reflexivity|]. split; [cbn; tauto|].
  unfold rows_of, dec1, half16. cbv zeta. vm_compute. intros [H | H]; discriminate.
Qed.

(* ---- everything a clipped walk emits is inside its clip (RectClipBlitter) --------------------------------------------------- *)
Definition allin (c : iclip) (l : list (Z * Z * Z)) : Prop := forall x y a, In (x, y, a) l -> in_clip c x y = true /\ 0 < a.
Lemma allin_nil c : allin c [].
Proof. intros x y a []. Qed.
Lemma allin_app c l1 l2 : allin c l1 -> allin c l2 -> allin c (l1 ++ l2).
Proof. intros H1 H2 x y a Hin. apply in_app_or in Hin. destruct Hin; [apply H1 | apply H2]; assumption. Qed.
Lemma allin_px1 c x y a : allin c (px1 c x y a).
Proof. intros x' y' a' Hin. apply in_px1 in Hin. destruct Hin as (P & A & I). inversion P; subst. auto. Qed.
Lemma allin_flat_map {A} c (f : A -> list (Z * Z * Z)) l : (forall i, allin c (f i)) -> allin c (flat_map f l).
Proof. intros H x y a Hin. apply in_flat_map in Hin. destruct Hin as (i & _ & Hin). exact (H i x y a Hin). Qed.
Lemma allin_row_px c x y n a : allin c (row_px c x y n a).
Proof. apply allin_flat_map. intros i. apply allin_px1. Qed.
Lemma allin_col_px c x y n a : allin c (col_px c x y n a).
Proof. apply allin_flat_map. intros i. apply allin_px1. Qed.

Ltac binds H := repeat (let a := fresh "v" in let E := fresh "E" in apply bind_some in H; destruct H as (a & E & H)).

Lemma draw_cap_allin k c pos f slope m res : draw_cap k c pos f slope m = Some res -> allin c (fst res).
Proof.
  unfold draw_cap. intros H. binds H. destruct k.
  - binds H. injection H as H. subst res. cbn [fst]. apply allin_app; [apply allin_px1|]. destruct (1 <=? _); [apply allin_px1 | apply allin_nil].
  - binds H. injection H as H. subst res. cbn [fst]. apply allin_app; apply allin_px1.
  - destruct (negb (slope =? 0)); [discriminate|]. binds H. injection H as H. subst res. cbn [fst]. apply allin_app; apply allin_px1.
  - binds H. injection H as H. subst res. cbn [fst]. apply allin_app; apply allin_px1.
Qed.

Lemma slanted_loop_allin fuel : forall k c pos f slope acc res,
  slanted_loop fuel k c pos f slope acc = Some res -> allin c acc -> allin c (fst res).
Proof.
  induction fuel as [|n IH]; intros k c pos f slope acc res H Ha; cbn [slanted_loop] in H.
  - injection H as H. subst res. exact Ha.
  - binds H. eapply IH; [exact H|]. apply allin_app; [exact Ha|]. destruct k; apply allin_app; apply allin_px1.
Qed.

Lemma draw_line_allin k c pos stop f slope res : draw_line k c pos stop f slope = Some res -> allin c (fst res).
Proof.
  unfold draw_line. intros H. destruct k.
  - destruct (stop - pos <=? 0); [injection H as H; subst res; apply allin_nil|]. binds H. injection H as H. subst res. cbn [fst].
    apply allin_app; [apply allin_row_px|]. destruct (1 <=? _); [apply allin_row_px | apply allin_nil].
  - destruct (stop <=? pos); [discriminate|]. binds H. injection H as H. subst res. cbn [fst].
    eapply slanted_loop_allin; [eassumption | apply allin_nil].
  - destruct (stop - pos <=? 0); [injection H as H; subst res; apply allin_nil|]. destruct (negb (slope =? 0)); [discriminate|].
    binds H. injection H as H. subst res. cbn [fst]. apply allin_app; apply allin_col_px.
  - destruct (stop <=? pos); [discriminate|]. binds H. injection H as H. subst res. cbn [fst].
    eapply slanted_loop_allin; [eassumption | apply allin_nil].
Qed.

Theorem walk_allin k c istart istop fstart slope s0 s1 out :
  walk k c istart istop fstart slope s0 s1 = Some out -> allin c out.
Proof.
  unfold walk. intros H. destruct ((istart <? 0) || (istop <? 0)); [discriminate|].
  apply bind_some in H. destruct H as (r1 & C1 & H).
  destruct (istop - (istart + 1) - (if 0 <? s1 then 1 else 0) <? 0); [discriminate|].
  apply bind_some in H. destruct H as (r2 & C2 & H). apply bind_some in H. destruct H as (r3 & C3 & H).
  injection H as H. subst out.
  apply allin_app; [eapply draw_cap_allin; eassumption|]. apply allin_app.
  - destruct (0 <? _); [eapply draw_line_allin; eassumption | injection C2 as C2; subst r2; apply allin_nil].
  - destruct (0 <? s1); [eapply draw_cap_allin; eassumption | injection C3 as C3; subst r3; apply allin_nil].
Qed.

(* ---- exactly horizontal / vertical segments without the clipping blitter ---------------------------------------------------- *)
Lemma in_row_px c x y n a p : In p (row_px c x y n a) -> exists i, 0 <= i < n /\ p = (x + i, y, a) /\ 0 < a.
Proof.
  unfold row_px. intros H. apply in_flat_map in H. destruct H as (i & Hi & H). apply in_seq in Hi. apply in_px1 in H.
  destruct H as (P & A & _). exists (Z.of_nat i). split; [lia|]. auto.
Qed.
Lemma in_col_px c x y n a p : In p (col_px c x y n a) -> exists i, 0 <= i < n /\ p = (x, y + i, a) /\ 0 < a.
Proof.
  unfold col_px. intros H. apply in_flat_map in H. destruct H as (i & Hi & H). apply in_seq in Hi. apply in_px1 in H.
  destruct H as (P & A & _). exists (Z.of_nat i). split; [lia|]. auto.
Qed.

(* with f + 1/2 >= 65536 the accumulator is returned unchanged and the two rows are q - 1 and q *)
Lemma hline_cap c pos f slope m res : draw_cap HLine c pos f slope m = Some res -> 65536 <= f + half16 ->
  snd res = f /\ forall x y a, In (x, y, a) (fst res) -> x = pos /\ (y = (f + half16) / 65536 \/ y = (f + half16) / 65536 - 1) /\ 0 < a.
Proof.
  unfold draw_cap. intros H Hf. binds H. apply ck_some in E. destruct E as (E & _). subst v.
  rewrite (Z.max_l (f + half16) 0) in * by lia. apply ck_some in E2. destruct E2 as (E2 & _).
  injection H as H. subst res. cbn [fst snd]. split; [lia|]. rewrite shr16.
  assert (Q : 1 <= (f + half16) / 65536) by (apply Z.div_le_lower_bound; lia).
  destruct (Z.leb_spec 1 ((f + half16) / 65536)); [|lia].
  intros x y a Hin. apply in_app_or in Hin. destruct Hin as [Hin | Hin]; apply in_px1 in Hin; destruct Hin as (P & A & _); inversion P; subst; auto.
Qed.
Lemma hline_line c pos stop f slope res : draw_line HLine c pos stop f slope = Some res -> 65536 <= f + half16 ->
  snd res = f /\ forall x y a, In (x, y, a) (fst res) -> pos <= x < stop /\ (y = (f + half16) / 65536 \/ y = (f + half16) / 65536 - 1) /\ 0 < a.
Proof.
  unfold draw_line. intros H Hf. destruct (Z.leb_spec (stop - pos) 0).
  - injection H as H. subst res. cbn [fst snd]. split; [reflexivity|]. intros x y a [].
  - binds H. apply ck_some in E. destruct E as (E & _). subst v. rewrite (Z.max_l (f + half16) 0) in * by lia.
    apply ck_some in E0. destruct E0 as (E0 & _). injection H as H. subst res. cbn [fst snd]. split; [lia|]. rewrite shr16.
    assert (Q : 1 <= (f + half16) / 65536) by (apply Z.div_le_lower_bound; lia).
    destruct (Z.leb_spec 1 ((f + half16) / 65536)); [|lia].
    intros x y a Hin. apply in_app_or in Hin. destruct Hin as [Hin | Hin]; apply in_row_px in Hin; destruct Hin as (i & Hi & P & A); inversion P; subst;
      (split; [lia|]; auto).
Qed.

Theorem walk_hline_inside_clip istart istop fstart slope s0 s1 out cl ct cr cb :
  walk HLine None istart istop fstart slope s0 s1 = Some out ->
  cl <= istart -> istop <= cr -> 0 <= ct ->
  ct <= y_top fstart 0 (istop - istart) -> y_bottom fstart 0 (istop - istart) <= cb ->
  forall x y a, In (x, y, a) out -> cl <= x < cr /\ ct <= y < cb /\ 0 < a.
Proof.
  unfold walk. intros H Hl Hr Ht Htop Hbot. unfold y_top, y_bottom, ceil16 in *. cbn [Z.leb] in *. change (0 <=? 0) with true in *. cbv iota in *.
  assert (Hf : 65536 <= fstart + half16) by (unfold half16 in *; lia).
  destruct ((istart <? 0) || (istop <? 0)); [discriminate|].
  apply bind_some in H. destruct H as (r1 & C1 & H).
  destruct (istop - (istart + 1) - (if 0 <? s1 then 1 else 0) <? 0) eqn:Ef; [discriminate|]. apply Z.ltb_ge in Ef.
  apply bind_some in H. destruct H as (r2 & C2 & H). apply bind_some in H. destruct H as (r3 & C3 & H).
  injection H as H. subst out.
  destruct (hline_cap _ _ _ _ _ _ C1 Hf) as (S1 & P1).
  assert (R2 : snd r2 = fstart /\ forall x y a, In (x, y, a) (fst r2) -> istart + 1 <= x < istop /\ (y = (fstart + half16) / 65536 \/ y = (fstart + half16) / 65536 - 1) /\ 0 < a).
  { destruct (0 <? istop - (istart + 1) - (if 0 <? s1 then 1 else 0)).
    - rewrite S1 in C2. destruct (hline_line _ _ _ _ _ _ C2 Hf) as (S2 & P2). split; [exact S2|]. intros x y a Hin.
      destruct (P2 x y a Hin) as (A & B & C). split; [destruct (0 <? s1); lia | auto].
    - injection C2 as C2. subst r2. cbn [fst snd]. split; [exact S1 | intros x y a []]. }
  destruct R2 as (S2 & P2).
  assert (Hrow : forall y, y = (fstart + half16) / 65536 \/ y = (fstart + half16) / 65536 - 1 -> ct <= y < cb) by (intros y; unfold half16 in *; lia).
  intros x y a Hin. apply in_app_or in Hin. destruct Hin as [Hin | Hin].
  - destruct (P1 x y a Hin) as (A & B & C). subst x. split; [destruct (0 <? s1); lia|]. split; [apply Hrow; exact B | exact C].
  - apply in_app_or in Hin. destruct Hin as [Hin | Hin].
    + destruct (P2 x y a Hin) as (A & B & C). split; [lia|]. split; [apply Hrow; exact B | exact C].
    + destruct (0 <? s1) eqn:Es.
      * rewrite S2 in C3. destruct (hline_cap _ _ _ _ _ _ C3 Hf) as (_ & P3). destruct (P3 x y a Hin) as (A & B & C). subst x.
        split; [lia|]. split; [apply Hrow; exact B | exact C].
      * injection C3 as C3. subst r3. destruct Hin.
Qed.

Lemma vline_cap c pos f m res : draw_cap VLine c pos f 0 m = Some res -> 65536 <= f + half16 ->
  snd res = f /\ forall x y a, In (x, y, a) (fst res) -> y = pos /\ (x = (f + half16) / 65536 \/ x = (f + half16) / 65536 - 1) /\ 0 < a.
Proof.
  unfold draw_cap. intros H Hf. binds H. apply ck_some in E. destruct E as (E & _). subst v.
  rewrite (Z.max_l (f + half16) 0) in * by lia. cbn [Z.eqb negb] in H. binds H. apply ck_some in E2. destruct E2 as (E2 & _).
  injection H as H. subst res. cbn [fst snd]. split; [lia|]. rewrite shr16.
  assert (Q : 1 <= (f + half16) / 65536) by (apply Z.div_le_lower_bound; lia).
  assert (D : dec1 ((f + half16) / 65536) = (f + half16) / 65536 - 1) by (unfold dec1; lia). rewrite D.
  intros x y a Hin. apply in_app_or in Hin. destruct Hin as [Hin | Hin]; apply in_px1 in Hin; destruct Hin as (P & A & _); inversion P; subst; auto.
Qed.
Lemma vline_line c pos stop f res : draw_line VLine c pos stop f 0 = Some res -> 65536 <= f + half16 ->
  snd res = f /\ forall x y a, In (x, y, a) (fst res) -> pos <= y < stop /\ (x = (f + half16) / 65536 \/ x = (f + half16) / 65536 - 1) /\ 0 < a.
Proof.
  unfold draw_line. intros H Hf. destruct (Z.leb_spec (stop - pos) 0).
  - injection H as H. subst res. cbn [fst snd]. split; [reflexivity|]. intros x y a [].
  - cbn [Z.eqb negb] in H. binds H. apply ck_some in E. destruct E as (E & _). subst v. rewrite (Z.max_l (f + half16) 0) in * by lia.
    apply ck_some in E0. destruct E0 as (E0 & _). injection H as H. subst res. cbn [fst snd]. split; [lia|]. rewrite shr16.
    assert (Q : 1 <= (f + half16) / 65536) by (apply Z.div_le_lower_bound; lia).
    assert (D : dec1 ((f + half16) / 65536) = (f + half16) / 65536 - 1) by (unfold dec1; lia). rewrite D.
    intros x y a Hin. apply in_app_or in Hin. destruct Hin as [Hin | Hin]; apply in_col_px in Hin; destruct Hin as (i & Hi & P & A); inversion P; subst;
      (split; [lia|]; auto).
Qed.

Theorem walk_vline_inside_clip istart istop fstart s0 s1 out cl ct cr cb :
  walk VLine None istart istop fstart 0 s0 s1 = Some out ->
  ct <= istart -> istop <= cb -> 0 <= cl ->
  cl <= y_top fstart 0 (istop - istart) -> y_bottom fstart 0 (istop - istart) <= cr ->
  forall x y a, In (x, y, a) out -> cl <= x < cr /\ ct <= y < cb /\ 0 < a.
Proof.
  unfold walk. intros H Hl Hr Ht Htop Hbot. unfold y_top, y_bottom, ceil16 in *. change (0 <=? 0) with true in *. cbv iota in *.
  assert (Hf : 65536 <= fstart + half16) by (unfold half16 in *; lia).
  destruct ((istart <? 0) || (istop <? 0)); [discriminate|].
  apply bind_some in H. destruct H as (r1 & C1 & H).
  destruct (istop - (istart + 1) - (if 0 <? s1 then 1 else 0) <? 0) eqn:Ef; [discriminate|]. apply Z.ltb_ge in Ef.
  apply bind_some in H. destruct H as (r2 & C2 & H). apply bind_some in H. destruct H as (r3 & C3 & H).
  injection H as H. subst out.
  destruct (vline_cap _ _ _ _ _ C1 Hf) as (S1 & P1).
  assert (R2 : snd r2 = fstart /\ forall x y a, In (x, y, a) (fst r2) -> istart + 1 <= y < istop /\ (x = (fstart + half16) / 65536 \/ x = (fstart + half16) / 65536 - 1) /\ 0 < a).
  { destruct (0 <? istop - (istart + 1) - (if 0 <? s1 then 1 else 0)).
    - rewrite S1 in C2. destruct (vline_line _ _ _ _ _ C2 Hf) as (S2 & P2). split; [exact S2|]. intros x y a Hin.
      destruct (P2 x y a Hin) as (A & B & C). split; [destruct (0 <? s1); lia | auto].
    - injection C2 as C2. subst r2. cbn [fst snd]. split; [exact S1 | intros x y a []]. }
  destruct R2 as (S2 & P2).
  assert (Hcol : forall x, x = (fstart + half16) / 65536 \/ x = (fstart + half16) / 65536 - 1 -> cl <= x < cr) by (intros x; unfold half16 in *; lia).
  intros x y a Hin. apply in_app_or in Hin. destruct Hin as [Hin | Hin].
  - destruct (P1 x y a Hin) as (A & B & C). subst y. split; [apply Hcol; exact B|]. split; [destruct (0 <? s1); lia | exact C].
  - apply in_app_or in Hin. destruct Hin as [Hin | Hin].
    + destruct (P2 x y a Hin) as (A & B & C). split; [apply Hcol; exact B|]. split; [lia | exact C].
    + destruct (0 <? s1) eqn:Es.
      * rewrite S2 in C3. destruct (vline_cap _ _ _ _ _ C3 Hf) as (_ & P3). destruct (P3 x y a Hin) as (A & B & C). subst y.
        split; [apply Hcol; exact B|]. split; [lia | exact C].
      * injection C3 as C3. subst r3. destruct Hin.
Qed.

(* ---- do_anti_hairline with a clip: every pixel is inside the clip, whichever blitter route is chosen ------------------------ *)
Lemma obind_some {A B} (o : option A) (f : A -> option B) r : obind o f = Some r -> exists a, o = Some a /\ f a = Some r.
Proof. destruct o as [a|]; cbn; [intros H; exists a; auto | discriminate]. Qed.
Lemma ck_i_some z v : ck_i 32 z = Some v -> v = z.
Proof. intros H. apply (ck_some z v) in H. tauto. Qed.

Lemma ceil_some x b : fdot16_ceil_to_i32 x = Some b -> b = (x + 65535) / 65536.
Proof.
  unfold fdot16_ceil_to_i32. intros H. apply obind_some in H. destruct H as (t2 & H1 & H2).
  apply obind_some in H1. destruct H1 as (t1 & H0 & H1). apply ck_i_some in H0, H1. injection H2 as H2. subst.
  rewrite shr16. f_equal. lia.
Qed.
Lemma floor16 x : fdot16_floor_to_i32 x = x / 65536.
Proof. unfold fdot16_floor_to_i32. apply shr16. Qed.

Definition clip_of (k : kind) (al ar cl ch : Z) : Z * Z * Z * Z :=
  match k with HLine | Horish => (al, cl, ar, ch) | _ => (cl, al, ch, ar) end.

Theorem clipped_walk_inside k al ar cl ch istart istop fstart slope s0 s1 last out :
  0 <= al -> 0 <= cl -> (k = HLine \/ k = VLine -> slope = 0) ->
  clipped_walk k (clip_of k al ar cl ch) al ar cl ch istart istop fstart slope s0 s1 last = Some out ->
  forall x y a, In (x, y, a) out -> in_clip (Some (clip_of k al ar cl ch)) x y = true /\ 0 < a.
Proof.
  intros Hal Hcl Hs H. unfold clipped_walk in H.
  destruct ((ar <=? istart) || (istop <=? al)); [injection H as H; subst out; intros x y a []|].
  apply bind_some in H. destruct H as (adj & Eadj & H). destruct adj as (((ist, fs), sc0), sc1).
  assert (A1 : al <= ist).
  { destruct (Z.ltb_spec istart al).
    - binds Eadj. destruct (istop - al =? 1); injection Eadj as ? ? ? ?; lia.
    - injection Eadj as ? ? ? ?. lia. }
  destruct (if ar <? istop then (ar, 0) else (istop, sc1)) as (isp, sc1') eqn:Esp.
  assert (A2 : isp <= ar) by (destruct (Z.ltb_spec ar istop); injection Esp as ? ?; lia).
  destruct (isp <? ist) eqn:E1; [discriminate|]. apply Z.ltb_ge in E1.
  destruct (ist =? isp) eqn:E2; [injection H as H; subst out; intros x y a []|]. apply Z.eqb_neq in E2.
  apply bind_some in H. destruct H as (span & Espan & H). apply ck_some in Espan. destruct Espan as (Espan & _).
  apply bind_some in H. destruct H as (tb & Etb & H).
  destruct ((ch <=? fst tb - 1) || (snd tb + 1 <=? cl)); [injection H as H; subst out; intros x y a []|].
  destruct ((cl <=? fst tb - 1) && (snd tb + 1 <=? ch)) eqn:Ein.
  2: { (* the clipping blitter stays *) intros x y a Hin. exact (walk_allin _ _ _ _ _ _ _ _ _ H x y a Hin). }
  (* the clipping blitter is dropped *)
  apply andb_true_iff in Ein. destruct Ein as (I1 & I2). apply Z.leb_le in I1, I2.
  assert (T : fst tb - 1 = y_top fs slope (isp - ist) /\ snd tb + 1 = y_bottom fs slope (isp - ist)).
  { unfold y_top, y_bottom, ceil16. destruct (0 <=? slope).
    - binds Etb. apply ck_some in E, E0, E3. destruct E as (E & _), E0 as (E0 & _), E3 as (E3 & _). apply ceil_some in E4.
      injection Etb as Etb. subst tb. cbn [fst snd]. rewrite floor16. subst. unfold half16. split; [reflexivity | f_equal; f_equal; lia].
    - binds Etb. apply ck_some in E, E3, E4. destruct E as (E & _), E3 as (E3 & _), E4 as (E4 & _). apply ceil_some in E0.
      injection Etb as Etb. subst tb. cbn [fst snd]. rewrite floor16. subst. unfold half16. split; [f_equal; f_equal; lia | reflexivity]. }
  destruct T as (T1 & T2). rewrite T1 in I1. rewrite T2 in I2.
  intros x y a Hin. destruct k; cbn [clip_of in_clip].
  - rewrite (Hs (or_introl eq_refl)) in *.
    destruct (walk_hline_inside_clip ist isp fs 0 sc0 sc1' out al cl ar ch H A1 A2 Hcl I1 I2 x y a Hin) as (X & Y & Z).
    split; [|exact Z]. repeat (apply andb_true_iff; split); try apply Z.leb_le; try apply Z.ltb_lt; lia.
  - destruct (walk_horish_inside_clip ist isp fs slope sc0 sc1' out al cl ar ch H A1 A2 Hcl I1 I2 x y a Hin) as (X & Y & Z).
    split; [|exact Z]. repeat (apply andb_true_iff; split); try apply Z.leb_le; try apply Z.ltb_lt; lia.
  - rewrite (Hs (or_intror eq_refl)) in *.
    destruct (walk_vline_inside_clip ist isp fs sc0 sc1' out cl al ch ar H A1 A2 Hcl I1 I2 x y a Hin) as (X & Y & Z).
    split; [|exact Z]. repeat (apply andb_true_iff; split); try apply Z.leb_le; try apply Z.ltb_lt; lia.
  - destruct (walk_vertish_inside_clip ist isp fs slope sc0 sc1' out cl al ch ar H A1 A2 Hcl I1 I2 x y a Hin) as (X & Y & Z).
    split; [|exact Z]. repeat (apply andb_true_iff; split); try apply Z.leb_le; try apply Z.ltb_lt; lia.
Qed.

Theorem anti_hairline_short_inside x0 y0 x1 y1 cl ct cr cb out :
  0 <= cl -> 0 <= ct ->
  anti_hairline_short x0 y0 x1 y1 (Some (cl, ct, cr, cb)) = Some out ->
  forall x y a, In (x, y, a) out -> in_clip (Some (cl, ct, cr, cb)) x y = true /\ 0 < a.
Proof.
  intros Hl Ht H. unfold anti_hairline_short in H.
  apply bind_some in H. destruct H as (dxa & _ & H). apply bind_some in H. destruct H as (dya & _ & H).
  destruct (Z.abs dya <? Z.abs dxa).
  - (* mostly horizontal *)
    destruct (if x1 <? x0 then (x1, y1, x0, y0) else (x0, y0, x1, y1)) as (((xa, ya), xb), yb).
    apply bind_some in H. destruct H as (istop & _ & H). apply bind_some in H. destruct H as (f0 & _ & H).
    apply bind_some in H. destruct H as (slf & Eslf & H). destruct slf as ((slope, fstart), k).
    assert (K : (k = HLine /\ slope = 0) \/ k = Horish).
    { destruct (ya =? yb); [injection Eslf as ? ? ?; subst; left; auto|]. binds Eslf.
      destruct ((v1 <? -65536) || (65536 <? v1)); [discriminate|]. binds Eslf. injection Eslf as ? ? ?. subst. right. reflexivity. }
    destruct (istop <=? fdot6_floor xa); [discriminate|].
    apply bind_some in H. destruct H as (sc & _ & H). destruct sc as (s0, s1).
    destruct K as [(Kk & Ks) | Kk]; subst.
    { change (cl, ct, cr, cb) with (clip_of HLine cl cr ct cb) in H |- *. eapply clipped_walk_inside; [exact Hl | exact Ht | auto | exact H]. }
    { change (cl, ct, cr, cb) with (clip_of Horish cl cr ct cb) in H |- *. eapply clipped_walk_inside; [exact Hl | exact Ht | intros [K | K]; discriminate K | exact H]. }
  - (* mostly vertical *)
    destruct (if y1 <? y0 then (x1, y1, x0, y0) else (x0, y0, x1, y1)) as (((xa, ya), xb), yb).
    apply bind_some in H. destruct H as (istop & _ & H). apply bind_some in H. destruct H as (f0 & _ & H).
    destruct ((xa =? xb) && (ya =? yb)); [injection H as H; subst out; intros x y a []|].
    apply bind_some in H. destruct H as (slf & Eslf & H). destruct slf as ((slope, fstart), k).
    assert (K : (k = VLine /\ slope = 0) \/ k = Vertish).
    { destruct (xa =? xb); [injection Eslf as ? ? ?; subst; left; auto|]. binds Eslf.
      destruct ((v1 <? -65536) || (65536 <? v1)); [discriminate|]. binds Eslf. injection Eslf as ? ? ?. subst. right. reflexivity. }
    destruct (istop <=? fdot6_floor ya); [discriminate|].
    apply bind_some in H. destruct H as (sc & _ & H). destruct sc as (s0, s1).
    destruct K as [(Kk & Ks) | Kk]; subst.
    { change (cl, ct, cr, cb) with (clip_of VLine ct cb cl cr) in H |- *. eapply clipped_walk_inside; [exact Ht | exact Hl | auto | exact H]. }
    { change (cl, ct, cr, cb) with (clip_of Vertish ct cb cl cr) in H |- *. eapply clipped_walk_inside; [exact Ht | exact Hl | intros [K | K]; discriminate K | exact H]. }
Qed.

(* THE statement for the clipped route of do_anti_hairline, subdivision included *)
Theorem do_anti_hairline_clipped_inside fuel : forall x0 y0 x1 y1 cl ct cr cb out,
  0 <= cl -> 0 <= ct ->
  do_anti_hairline fuel x0 y0 x1 y1 (Some (cl, ct, cr, cb)) = Some out ->
  forall x y a, In (x, y, a) out -> cl <= x < cr /\ ct <= y < cb /\ 0 < a.
Proof.
  assert (Conv : forall cl ct cr cb x y, in_clip (Some (cl, ct, cr, cb)) x y = true -> cl <= x < cr /\ ct <= y < cb).
  { intros cl ct cr cb x y H. cbn in H. repeat (apply andb_true_iff in H; destruct H as (H & ?)).
    apply Z.leb_le in H. repeat match goal with H : (_ <=? _) = true |- _ => apply Z.leb_le in H | H : (_ <? _) = true |- _ => apply Z.ltb_lt in H end. lia. }
  induction fuel as [|n IH]; intros x0 y0 x1 y1 cl ct cr cb out Hl Ht H x y a Hin; cbn [do_anti_hairline] in H.
  - destruct (_ || _); [discriminate|]. destruct (negb _); [discriminate|]. binds H.
    destruct ((32704 <? Z.abs v) || (32704 <? Z.abs v0)); [discriminate|].
    destruct (anti_hairline_short_inside _ _ _ _ _ _ _ _ _ Hl Ht H x y a Hin) as (I & A). destruct (Conv _ _ _ _ _ _ I). auto.
  - destruct (_ || _); [discriminate|]. destruct (negb _); [discriminate|]. binds H.
    destruct ((32704 <? Z.abs v) || (32704 <? Z.abs v0)).
    + binds H. injection H as H. subst out. apply in_app_or in Hin.
      destruct Hin as [Hin | Hin];
        match goal with E : do_anti_hairline n _ _ _ _ _ = Some ?l, Hi : In _ ?l |- _ => exact (IH _ _ _ _ _ _ _ _ _ Hl Ht E x y a Hi) end.
    + destruct (anti_hairline_short_inside _ _ _ _ _ _ _ _ _ Hl Ht H x y a Hin) as (I & A). destruct (Conv _ _ _ _ _ _ I). auto.
Qed.
