(* C06 (anti-aliased hairline, bit-exact model Model/HairlineAA.v): where the pixels of one walked segment fall.
   Every contribution of the mostly-horizontal walk lies in a column of [istart, istop) and in one of the two rows around the
   16.16 ordinate of its column; consequently, when do_anti_hairline drops the clipping blitter because its own bound
   computation says the segment is inside, every pixel it writes IS inside the clip (memory safety of the unclipped route). *)
From Coq Require Import ZArith Bool List Lia.
From TS Require Import Base.F32 Base.Checked Gen.FixedGen Model.IntRect Model.HairlineAA.
Import ListNotations.
Local Open Scope Z_scope.
Ltac Zify.zify_post_hook ::= Z.div_mod_to_equations.

Lemma ck_some z v : ck z = Some v -> v = z /\ -2147483648 <= z <= 2147483647.
Proof.
  unfold ck, ck_i. destruct (in_i 32 z) eqn:E; [|discriminate]. intros H. injection H as H.
  unfold in_i in E. change (2 ^ (32 - 1)) with 2147483648 in E. apply andb_true_iff in E. destruct E as (E1 & E2).
  apply Z.leb_le in E1, E2. lia.
Qed.

Lemma shr16 v : shr v 16 = v / 65536.
Proof. unfold shr. rewrite Z.shiftr_div_pow2 by lia. reflexivity. Qed.

Lemma in_px1 c x y a p : In p (px1 c x y a) -> p = (x, y, a) /\ 0 < a /\ in_clip c x y = true.
Proof.
  unfold px1. destruct ((0 <? a) && in_clip c x y) eqn:E; [|intros []]. intros [H | []]. apply andb_true_iff in E. destruct E as (E1 & E2).
  apply Z.ltb_lt in E1. auto.
Qed.

(* where a contribution may be: column range [x0, x1) and the rows admitted by [rows] *)
Definition within (x0 x1 : Z) (rows : Z -> Z -> Prop) (l : list (Z * Z * Z)) : Prop :=
  forall x y a, In (x, y, a) l -> x0 <= x < x1 /\ rows x y /\ 0 < a.

Lemma within_app x0 x1 rows l1 l2 : within x0 x1 rows l1 -> within x0 x1 rows l2 -> within x0 x1 rows (l1 ++ l2).
Proof. intros H1 H2 x y a Hin. apply in_app_or in Hin. destruct Hin; [apply H1 | apply H2]; assumption. Qed.
Lemma within_nil x0 x1 rows : within x0 x1 rows [].
Proof. intros x y a []. Qed.
Lemma within_mono x0 x1 x0' x1' rows l : within x0 x1 rows l -> x0' <= x0 -> x1 <= x1' -> within x0' x1' rows l.
Proof. intros H A B x y a Hin. destruct (H x y a Hin) as (H1 & H2 & H3). repeat split; try assumption; lia. Qed.

(* the rows of column x under the ideal accumulator F x (which already contains the +1/2): the two rows dec1 q, dec1 q + 1 *)
Definition rows_of (F : Z -> Z) (x y : Z) : Prop :=
  let q := (Z.max (F x) 0) / 65536 in y = dec1 q \/ y = dec1 q + 1.

(* the per-column loop of Horish::draw_line *)
Lemma slanted_loop_horish fuel : forall c pos f slope acc res F,
  slanted_loop fuel Horish c pos f slope acc = Some res ->
  (forall i, 0 <= i < Z.of_nat fuel -> 0 <= f + i * slope) ->
  (forall i, 0 <= i < Z.of_nat fuel -> F (pos + i) = f + i * slope) ->
  exists out, fst res = acc ++ out /\ within pos (pos + Z.of_nat fuel) (rows_of F) out /\
              (0 < Z.of_nat fuel -> snd res = f + Z.of_nat fuel * slope).
Proof.
  induction fuel as [|n IH]; intros c pos f slope acc res F H Hpos HF.
  - cbn [slanted_loop] in H. inversion H. exists []. rewrite app_nil_r. split; [reflexivity|]. split; [apply within_nil | intros; lia].
  - cbn [slanted_loop] in H.
    assert (F0 : 0 <= f) by (specialize (Hpos 0 ltac:(lia)); lia).
    rewrite (Z.max_l f 0) in H by lia.
    destruct (ck (f + slope)) as [f3|] eqn:E; [|discriminate]. cbn [IntRect.bind] in H. apply ck_some in E. destruct E as (E & _). subst f3.
    set (out0 := px1 c pos (dec1 (shr f 16)) (255 - alpha_of (shr f 8)) ++ px1 c pos (dec1 (shr f 16) + 1) (alpha_of (shr f 8))) in *.
    destruct (Nat.eq_dec n 0) as [N0 | N0].
    + subst n. cbn [slanted_loop] in H. inversion H. exists out0. split; [reflexivity|]. split.
      * intros x y a Hin. unfold out0 in Hin. apply in_app_or in Hin.
        assert (Q : (Z.max (F pos) 0) / 65536 = shr f 16).
        { specialize (HF 0 ltac:(lia)). rewrite Z.add_0_r, Z.mul_0_l, Z.add_0_r in HF. rewrite HF, Z.max_l by lia. symmetry. apply shr16. }
        destruct Hin as [Hin | Hin]; apply in_px1 in Hin; destruct Hin as (P & A & _); inversion P; subst;
          (split; [lia|]; split; [unfold rows_of; cbv zeta; rewrite Q; auto | exact A]).
      * intros _. cbn [snd]. lia.
    + destruct (IH c (pos + 1) (f + slope) slope (acc ++ out0) res F H) as (out & R1 & R2 & R3).
      * intros i Hi. specialize (Hpos (i + 1) ltac:(lia)). lia.
      * intros i Hi. specialize (HF (i + 1) ltac:(lia)). replace (pos + 1 + i) with (pos + (i + 1)) by lia. lia.
      * exists (out0 ++ out). split; [rewrite R1, app_assoc; reflexivity|]. split.
        -- apply within_app.
           ++ intros x y a Hin. unfold out0 in Hin. apply in_app_or in Hin.
              assert (Q : (Z.max (F pos) 0) / 65536 = shr f 16).
              { specialize (HF 0 ltac:(lia)). rewrite Z.add_0_r, Z.mul_0_l, Z.add_0_r in HF. rewrite HF, Z.max_l by lia. symmetry. apply shr16. }
              destruct Hin as [Hin | Hin]; apply in_px1 in Hin; destruct Hin as (P & A & _); inversion P; subst;
                (split; [lia|]; split; [unfold rows_of; cbv zeta; rewrite Q; auto | exact A]).
           ++ eapply within_mono; [exact R2 | lia | lia].
        -- intros _. rewrite R3 by lia. lia.
Qed.

Lemma bind_some {A B} (o : option A) (f : A -> option B) r : IntRect.bind o f = Some r -> exists a, o = Some a /\ f a = Some r.
Proof. destruct o as [a|]; cbn; [intros H; exists a; auto | discriminate]. Qed.

Lemma draw_cap_horish c pos f slope m res F :
  draw_cap Horish c pos f slope m = Some res -> 0 <= f + half16 -> F pos = f + half16 ->
  within pos (pos + 1) (rows_of F) (fst res) /\ snd res = f + slope.
Proof.
  unfold draw_cap. intros H Hp HF.
  apply bind_some in H. destruct H as (f1 & E1 & H). apply ck_some in E1. destruct E1 as (E1 & _). subst f1.
  rewrite (Z.max_l (f + half16) 0) in H by lia.
  apply bind_some in H. destruct H as (mlo & _ & H). apply bind_some in H. destruct H as (mhi & _ & H).
  apply bind_some in H. destruct H as (r0 & E2 & H). apply ck_some in E2. destruct E2 as (E2 & _).
  apply bind_some in H. destruct H as (r & E3 & H). apply ck_some in E3. destruct E3 as (E3 & _).
  injection H as H. subst res. cbn [fst snd]. split; [|unfold half16 in *; lia].
  assert (Q : (Z.max (F pos) 0) / 65536 = shr (f + half16) 16) by (rewrite HF, Z.max_l by lia; symmetry; apply shr16).
  intros x y a Hin. apply in_app_or in Hin.
  destruct Hin as [Hin | Hin]; apply in_px1 in Hin; destruct Hin as (P & A & _); inversion P; subst;
    (split; [lia|]; split; [unfold rows_of; cbv zeta; rewrite Q; auto | exact A]).
Qed.

(* THE walk statement (mostly-horizontal, slanted): with an accumulator that never goes negative, every contribution is in a column
   of [istart, istop) and in one of the two rows around F(x) = fstart + 1/2 + (x - istart) * slope *)
Theorem walk_horish_within c istart istop fstart slope s0 s1 out :
  walk Horish c istart istop fstart slope s0 s1 = Some out ->
  (forall i, 0 <= i < istop - istart -> 0 <= fstart + half16 + i * slope) ->
  within istart istop (rows_of (fun x => fstart + half16 + (x - istart) * slope)) out.
Proof.
  unfold walk. intros H Hpos. set (F := fun x => fstart + half16 + (x - istart) * slope).
  destruct ((istart <? 0) || (istop <? 0)) eqn:E0; [discriminate|].
  apply bind_some in H. destruct H as (r1 & C1 & H).
  destruct (istop - (istart + 1) - (if 0 <? s1 then 1 else 0) <? 0) eqn:Ef; [discriminate|]. apply Z.ltb_ge in Ef.
  set (full := istop - (istart + 1) - (if 0 <? s1 then 1 else 0)) in *.
  assert (Hn : 1 <= istop - istart) by (unfold full in Ef; destruct (0 <? s1); lia).
  destruct (draw_cap_horish c istart fstart slope s0 r1 F C1) as (W1 & S1).
  { specialize (Hpos 0 ltac:(lia)). lia. }
  { unfold F. lia. }
  apply bind_some in H. destruct H as (r2 & C2 & H). apply bind_some in H. destruct H as (r3 & C3 & H).
  injection H as H. subst out.
  (* the full spans *)
  assert (W2 : within istart istop (rows_of F) (fst r2) /\ snd r2 = fstart + (1 + full) * slope).
  { destruct (0 <? full) eqn:Efull.
    - apply Z.ltb_lt in Efull. unfold draw_line in C2.
      destruct (istart + 1 + full <=? istart + 1) eqn:El; [apply Z.leb_le in El; lia|].
      apply bind_some in C2. destruct C2 as (f1 & E1 & C2). apply ck_some in E1. destruct E1 as (E1 & _).
      apply bind_some in C2. destruct C2 as (res & L & C2). apply bind_some in C2. destruct C2 as (r & E3 & C2).
      apply ck_some in E3. destruct E3 as (E3 & _). injection C2 as C2. subst r2. cbn [fst snd].
      replace (istart + 1 + full - (istart + 1)) with full in L by lia.
      destruct (slanted_loop_horish (Z.to_nat full) c (istart + 1) f1 slope [] res F L) as (o & R1 & R2 & R3).
      + intros i Hi. rewrite Z2Nat.id in Hi by lia. subst f1. rewrite S1. specialize (Hpos (i + 1) ltac:(unfold full in *; destruct (0 <? s1); lia)). lia.
      + intros i Hi. subst f1. rewrite S1. unfold F. lia.
      + rewrite Z2Nat.id in * by lia. split.
        * rewrite R1. cbn [app]. eapply within_mono; [exact R2 | lia | unfold full; destruct (0 <? s1); lia].
        * rewrite E3, R3 by lia. subst f1. rewrite S1. unfold half16 in *. lia.
    - injection C2 as C2. subst r2. cbn [fst snd]. split; [apply within_nil|]. apply Z.ltb_ge in Efull. rewrite S1. assert (full = 0) by lia. lia. }
  destruct W2 as (W2 & S2).
  apply within_app; [eapply within_mono; [exact W1 | lia | lia]|]. apply within_app; [exact W2|].
  destruct (0 <? s1) eqn:Es.
  - destruct (draw_cap_horish c (istop - 1) (snd r2) slope s1 r3 F C3) as (W3 & _).
    + rewrite S2. specialize (Hpos (1 + full) ltac:(unfold full; lia)). lia.
    + rewrite S2. unfold F, full. lia.
    + eapply within_mono; [exact W3 | unfold full in Ef; lia | lia].
  - injection C3 as C3. subst r3. apply within_nil.
Qed.

(* do_anti_hairline's own bound computation (mostly-horizontal branch): rows top .. bottom, exclusive of the -1 / +1 margins *)
Definition ceil16 (v : Z) : Z := (v + 65535) / 65536.
Definition y_top (fstart slope n : Z) : Z :=
  (if 0 <=? slope then fstart - half16 else fstart + (n - 1) * slope - half16) / 65536 - 1.
Definition y_bottom (fstart slope n : Z) : Z :=
  ceil16 (if 0 <=? slope then fstart + (n - 1) * slope + half16 else fstart + half16) + 1.

(* THE safety statement of the route without the clipping blitter: if the segment's columns are inside the clip and the rows
   the code computes (y_top, y_bottom) are inside it, every pixel the walk writes is inside the clip *)
Theorem walk_horish_inside_clip istart istop fstart slope s0 s1 out cl ct cr cb :
  walk Horish None istart istop fstart slope s0 s1 = Some out ->
  cl <= istart -> istop <= cr -> 0 <= ct ->
  ct <= y_top fstart slope (istop - istart) -> y_bottom fstart slope (istop - istart) <= cb ->
  forall x y a, In (x, y, a) out -> cl <= x < cr /\ ct <= y < cb /\ 0 < a.
Proof.
  intros H Hl Hr Ht Htop Hbot x y a Hin.
  set (n := istop - istart) in *.
  assert (NN : forall i, 0 <= i < n -> 0 <= fstart + half16 + i * slope).
  { intros i Hi. unfold y_top, half16 in *. destruct (Z.leb_spec 0 slope).
    - assert (0 <= i * slope) by nia. lia.
    - assert ((n - 1) * slope <= i * slope) by nia. lia. }
  destruct (walk_horish_within None istart istop fstart slope s0 s1 out H NN x y a Hin) as (Hx & Hrow & Ha).
  split; [lia|]. split; [|exact Ha].
  unfold rows_of in Hrow. cbv zeta in Hrow. set (Fx := fstart + half16 + (x - istart) * slope) in *.
  unfold y_top, y_bottom, ceil16, dec1, half16 in *.
  destruct (Z.leb_spec 0 slope).
  - assert (0 <= (x - istart) * slope <= (n - 1) * slope) by (unfold n; nia).
    destruct Hrow as [-> | ->]; unfold Fx; lia.
  - assert ((n - 1) * slope <= (x - istart) * slope <= 0) by (unfold n; nia).
    destruct Hrow as [-> | ->]; unfold Fx; lia.
Qed.

(* ---- the mostly-vertical walk is the transposed mostly-horizontal one ------------------------------------------------------ *)
Definition tr (p : Z * Z * Z) : Z * Z * Z := let '(x, y, a) := p in (y, x, a).
Definition swapc (c : iclip) : iclip := match c with None => None | Some (l, t, r, b) => Some (t, l, b, r) end.

Lemma tr_tr l : map tr (map tr l) = l.
Proof. rewrite map_map. rewrite <- (map_id l) at 2. apply map_ext. intros ((x, y), a). reflexivity. Qed.

Lemma in_clip_swap c x y : in_clip (swapc c) y x = in_clip c x y.
Proof. destruct c as [(((l, t), r), b)|]; [|reflexivity]. cbn. destruct (l <=? x), (x <? r), (t <=? y), (y <? b); reflexivity. Qed.

Lemma px1_swap c x y a : px1 (swapc c) y x a = map tr (px1 c x y a).
Proof. unfold px1. rewrite in_clip_swap. destruct ((0 <? a) && in_clip c x y); reflexivity. Qed.

Definition trr (r : list (Z * Z * Z) * Z) : list (Z * Z * Z) * Z := (map tr (fst r), snd r).

Lemma slanted_loop_tr fuel : forall c pos f slope acc,
  slanted_loop fuel Vertish c pos f slope acc = option_map trr (slanted_loop fuel Horish (swapc c) pos f slope (map tr acc)).
Proof.
  induction fuel as [|n IH]; intros c pos f slope acc; cbn [slanted_loop].
  - cbn. unfold trr. cbn [fst snd]. rewrite tr_tr. reflexivity.
  - destruct (ck (Z.max f 0 + slope)) as [f3|]; [|reflexivity]. cbn [IntRect.bind].
    rewrite IH. f_equal. f_equal. rewrite !map_app. rewrite <- !px1_swap. reflexivity.
Qed.

Lemma swapc_invol c : swapc (swapc c) = c.
Proof. destruct c as [(((l, t), r), b)|]; reflexivity. Qed.

Lemma bind_map_trr (o : option (list (Z * Z * Z) * Z)) : forall (k : list (Z * Z * Z) * Z -> option (list (Z * Z * Z) * Z)) k',
  (forall r, k (trr r) = option_map trr (k' r)) ->
  IntRect.bind (option_map trr o) k = option_map trr (IntRect.bind o k').
Proof. intros k k' H. destruct o as [r|]; cbn; [apply H | reflexivity]. Qed.

Lemma draw_cap_tr c pos f slope m :
  draw_cap Vertish c pos f slope m = option_map trr (draw_cap Horish (swapc c) pos f slope m).
Proof.
  unfold draw_cap. destruct (ck (f + half16)) as [f1|]; [|reflexivity]. cbn [IntRect.bind].
  destruct (fdot6_small_scale _ m) as [mlo|]; [|reflexivity]. cbn [IntRect.bind].
  destruct (fdot6_small_scale (255 - _) m) as [mhi|]; [|reflexivity]. cbn [IntRect.bind].
  destruct (ck (Z.max f1 0 + slope)) as [r0|]; [|reflexivity]. cbn [IntRect.bind].
  destruct (ck (r0 - half16)) as [r|]; [|reflexivity]. cbn [IntRect.bind option_map]. unfold trr. cbn [fst snd].
  rewrite map_app, <- !px1_swap, swapc_invol. reflexivity.
Qed.

Lemma draw_line_tr c pos stop f slope :
  draw_line Vertish c pos stop f slope = option_map trr (draw_line Horish (swapc c) pos stop f slope).
Proof.
  unfold draw_line. destruct (stop <=? pos); [reflexivity|].
  destruct (ck (f + half16)) as [f1|]; [|reflexivity]. cbn [IntRect.bind].
  rewrite slanted_loop_tr. cbn [map].
  destruct (slanted_loop (Z.to_nat (stop - pos)) Horish (swapc c) pos f1 slope []) as [res|]; [|reflexivity]. cbn [option_map IntRect.bind].
  unfold trr at 1. cbn [snd fst].
  destruct (ck (snd res - half16)) as [r|]; [|reflexivity]. cbn [IntRect.bind option_map]. reflexivity.
Qed.

Theorem walk_tr c istart istop fstart slope s0 s1 :
  walk Vertish c istart istop fstart slope s0 s1 = option_map (map tr) (walk Horish (swapc c) istart istop fstart slope s0 s1).
Proof.
  unfold walk. destruct ((istart <? 0) || (istop <? 0)); [reflexivity|].
  rewrite draw_cap_tr. destruct (draw_cap Horish (swapc c) istart fstart slope s0) as [r1|]; [|reflexivity]. cbn [option_map IntRect.bind].
  unfold trr at 1 2 3. cbn [fst snd].
  destruct (istop - (istart + 1) - (if 0 <? s1 then 1 else 0) <? 0); [reflexivity|].
  assert (E2 : (if 0 <? istop - (istart + 1) - (if 0 <? s1 then 1 else 0)
                then draw_line Vertish c (istart + 1) (istart + 1 + (istop - (istart + 1) - (if 0 <? s1 then 1 else 0))) (snd r1) slope
                else Some ([], snd r1)) =
               option_map trr (if 0 <? istop - (istart + 1) - (if 0 <? s1 then 1 else 0)
                then draw_line Horish (swapc c) (istart + 1) (istart + 1 + (istop - (istart + 1) - (if 0 <? s1 then 1 else 0))) (snd r1) slope
                else Some ([], snd r1))).
  { destruct (0 <? _); [apply draw_line_tr | reflexivity]. }
  rewrite E2. clear E2.
  destruct (if 0 <? istop - (istart + 1) - (if 0 <? s1 then 1 else 0) then _ else _) as [r2|]; [|reflexivity]. cbn [option_map IntRect.bind].
  unfold trr at 1 2. cbn [fst snd].
  assert (E3 : (if 0 <? s1 then draw_cap Vertish c (istop - 1) (snd r2) slope s1 else Some ([], snd r2)) =
               option_map trr (if 0 <? s1 then draw_cap Horish (swapc c) (istop - 1) (snd r2) slope s1 else Some ([], snd r2))).
  { destruct (0 <? s1); [apply draw_cap_tr | reflexivity]. }
  rewrite E3. clear E3.
  destruct (if 0 <? s1 then _ else _) as [r3|]; [|reflexivity]. cbn [option_map IntRect.bind]. unfold trr. cbn [fst].
  rewrite !map_app. reflexivity.
Qed.

(* the mostly-vertical statements, by transposition *)
Theorem walk_vertish_inside_clip istart istop fstart slope s0 s1 out cl ct cr cb :
  walk Vertish None istart istop fstart slope s0 s1 = Some out ->
  ct <= istart -> istop <= cb -> 0 <= cl ->
  cl <= y_top fstart slope (istop - istart) -> y_bottom fstart slope (istop - istart) <= cr ->
  forall x y a, In (x, y, a) out -> cl <= x < cr /\ ct <= y < cb /\ 0 < a.
Proof.
  intros H Ht Hb Hl Hlo Hhi x y a Hin. rewrite walk_tr in H. cbn [swapc] in H.
  destruct (walk Horish None istart istop fstart slope s0 s1) as [o|] eqn:W; [|discriminate]. injection H as H. subst out.
  apply in_map_iff in Hin. destruct Hin as (((x', y'), a') & E & Hin). cbn in E. inversion E. subst.
  destruct (walk_horish_inside_clip istart istop fstart slope s0 s1 o ct cl cb cr W Ht Hb Hl Hlo Hhi y x a Hin) as (A & B & C).
  auto.
Qed.

(* ---- the known finding C06-aa-hairline-top-left-fold, as a statement about the model -------------------------------------- *)
(* without the hypothesis "the accumulator never goes negative" the rows statement is false: a segment that starts above the
   pixmap (fstart + 1/2 < 0) is clamped at its first column and every later column is drawn below its ideal rows *)
Theorem walk_rows_refuted_when_clamped :
  exists istart istop fstart slope s0 s1 out x y a,
    walk Horish None istart istop fstart slope s0 s1 = Some out /\ In (x, y, a) out /\
    ~ rows_of (fun x => fstart + half16 + (x - istart) * slope) x y.
Proof.
  exists 0, 6, (-81920), 32768, 64, 0.
  eexists. exists 5, 2, 128. split; [vm_compute; reflexivity|]. split; [cbn; tauto|].
  unfold rows_of, dec1, half16. cbv zeta. vm_compute. intros [H | H]; discriminate.
Qed.
