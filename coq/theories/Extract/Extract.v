(* Extraction of the runnable models to OCaml.  Only ExtrOcamlBasic's directives are used:
   no Extract Constant / Extract Inductive of our own; Z, positive, nat stay inductive. *)
Require Extraction.
Require Import ExtrOcamlBasic.
From Coq Require Import ZArith List.
From TS Require Import Base.F32 Model.RunC14 Model.RunC19 Model.RunPx Model.RunC18 Model.RunC17 Model.RunC02 Model.RunC03 Model.RunC06 Model.RunC07 Model.WideBackends Model.RunC15 Model.RunC16 Model.Tiler.
Extraction Language OCaml.
Extraction "model.ml" run_c14_builder run_c14_builder_pinned run_from_points run_c14_transform run_c19 run_px run_c18 run_c17 run_fill_spans run_line_edge run_quad_edge run_cubic_edge run_cubic_pin run_cubics_exact run_fill_px run_aruns run_aa_spans run_hair_spans run_hair_aa run_line_clip run_dash_new run_dash run_wide run_grad_new run_gather run_nearest_map run_tiles Z.add Z.mul Z.div_eucl Z.opp Z.compare.
