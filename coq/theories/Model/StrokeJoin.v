(* Ideal (exact rational) geometry of the join and cap constructions of path/src/stroker.rs
   (miter_joiner_inner: do_miter, do_blunt_or_clipped; bevel_joiner; square_capper), relative to the pivot.
   Unit normals are pairs (a, b) with a^2 + b^2 = 1; distances are kept squared so that everything stays in Q.
   Definitions only. *)
From Coq Require Import QArith.
Local Open Scope Q_scope.

Definition dot (ax ay bx by_ : Q) : Q := ax * bx + ay * by_.
Definition cross (ax ay bx by_ : Q) : Q := ax * by_ - ay * bx.
Definition norm2 (x y : Q) : Q := x * x + y * y.

(* do_miter: mid = (before + after) set to length radius / sin_half_angle, i.e. scaled by r / (1 + dot) *)
Definition miter_tip_x (r n1x n1y n2x n2y : Q) : Q := (n1x + n2x) * (r / (1 + dot n1x n1y n2x n2y)).
Definition miter_tip_y (r n1x n1y n2x n2y : Q) : Q := (n1y + n2y) * (r / (1 + dot n1x n1y n2x n2y)).

(* the miter is used iff sin_half_angle >= inv_miter_limit, with sin_half_angle^2 = (1 + dot) / 2 *)
Definition miter_allowed (inv_limit dotp : Q) : Prop := inv_limit * inv_limit <= (1 + dotp) / 2.

(* a point of the bevel edge between the two offset points *)
Definition bevel_x (r n1x n2x t : Q) : Q := r * ((1 - t) * n1x + t * n2x).
Definition bevel_y (r n1y n2y t : Q) : Q := r * ((1 - t) * n1y + t * n2y).

(* do_blunt_or_clipped (miter-clip): c = cos beta = before . mid, s = sin beta = before x mid for the unit bisector mid;
   x = (limit - c) / s;  c1 = before * r + before_tangent * x, before_tangent = before rotated clockwise, scaled by r *)
Definition clip_x (limit c s : Q) : Q := (limit - c) / s.
Definition clip_corner_x (r nx ny x : Q) : Q := r * nx + (r * (- ny)) * x.
Definition clip_corner_y (r nx ny x : Q) : Q := r * ny + (r * nx) * x.

(* square_capper: the two corners are pivot + normal + tangent and pivot - normal + tangent *)
Definition square_corner_x (r nx ny : Q) : Q := r * nx + r * (- ny).
Definition square_corner_y (r nx ny : Q) : Q := r * ny + r * nx.
