(* Bit-exact (integer) model of tiny_skia_path::IntRect, IntSize and of the Pixmap size
   computations (src/pixmap.rs).  Values are Z; every operation that is checked in Rust
   (`checked_add`, `try_from`, `NonZeroU32::new`) returns an option here, and the plain
   `+`/`-` of the accessors `right()`/`bottom()` are shown not to overflow by the validity
   invariant.  Definitions only. *)
From Coq Require Import ZArith Bool List.
Import ListNotations.
Local Open Scope Z_scope.

Definition i32_min : Z := -2147483648.
Definition i32_max : Z := 2147483647.
Definition u32_max : Z := 4294967295.
Definition usize_max : Z := 18446744073709551615.

Definition in_i32 (z : Z) : bool := (i32_min <=? z) && (z <=? i32_max).
Definition in_u32 (z : Z) : bool := (0 <=? z) && (z <=? u32_max).

Definition checked_i32 (z : Z) : option Z := if in_i32 z then Some z else None.
Definition checked_add (a b : Z) : option Z := checked_i32 (a + b).
Definition checked_sub (a b : Z) : option Z := checked_i32 (a - b).
Definition sat_i32 (z : Z) : Z := if z <? i32_min then i32_min else if i32_max <? z then i32_max else z.
(* u32::try_from(i32) *)
Definition u32_of_i32 (z : Z) : option Z := if 0 <=? z then Some z else None.
(* i32::try_from(u32) *)
Definition i32_of_u32 (z : Z) : option Z := if z <=? i32_max then Some z else None.

Definition bind {A B} (o : option A) (f : A -> option B) : option B :=
  match o with Some a => f a | None => None end.
Notation "'do' x <- e ; k" := (bind e (fun x => k)) (at level 200, x name, e at level 100, k at level 200).

Record irect := mkir { ix : Z; iy : Z; iw : Z; ih : Z }.

(* IntRect::from_xywh(x: i32, y: i32, width: u32, height: u32) *)
Definition ir_from_xywh (x y w h : Z) : option irect :=
  do w' <- i32_of_u32 w;
  do _ <- checked_add x w';
  do h' <- i32_of_u32 h;
  do _ <- checked_add y h';
  if (w =? 0) || (h =? 0) then None else Some (mkir x y w h).

Definition ir_from_ltrb (l t r b : Z) : option irect :=
  do w <- checked_sub r l;
  do w <- u32_of_i32 w;
  do h <- checked_sub b t;
  do h <- u32_of_i32 h;
  ir_from_xywh l t w h.

Definition ir_right (r : irect) : Z := ix r + iw r.
Definition ir_bottom (r : irect) : Z := iy r + ih r.

Definition ir_contains (a b : irect) : bool :=
  (ix a <=? ix b) && (iy a <=? iy b) && (ir_right b <=? ir_right a) && (ir_bottom b <=? ir_bottom a).

Definition ir_intersect (a b : irect) : option irect :=
  let left := Z.max (ix a) (ix b) in
  let top := Z.max (iy a) (iy b) in
  let right := Z.min (ir_right a) (ir_right b) in
  let bottom := Z.min (ir_bottom a) (ir_bottom b) in
  do w <- checked_sub right left;
  do w <- u32_of_i32 w;
  do h <- checked_sub bottom top;
  do h <- u32_of_i32 h;
  ir_from_xywh left top w h.

(* after the fix: checked arithmetic.  [ir_inset_pinned] is the unchecked pinned code: a debug
   build panics (None of the outer option), a release build wraps. *)
Definition ir_inset (r : irect) (dx dy : Z) : option irect :=
  do l <- checked_add (ix r) dx;
  do t <- checked_add (iy r) dy;
  do rr <- checked_sub (ir_right r) dx;
  do bb <- checked_sub (ir_bottom r) dy;
  ir_from_ltrb l t rr bb.

Definition ir_make_outset (r : irect) (dx dy : Z) : option irect :=
  ir_from_ltrb (sat_i32 (ix r - dx)) (sat_i32 (iy r - dy)) (sat_i32 (ir_right r + dx)) (sat_i32 (ir_bottom r + dy)).

Definition ir_translate (r : irect) (tx ty : Z) : option irect :=
  do x <- checked_add (ix r) tx;
  do y <- checked_add (iy r) ty;
  ir_from_xywh x y (iw r) (ih r).

Definition ir_translate_to (r : irect) (x y : Z) : option irect := ir_from_xywh x y (iw r) (ih r).

(* IntSize::from_wh *)
Definition isize_from_wh (w h : Z) : option (Z * Z) :=
  if (w =? 0) || (h =? 0) then None else Some (w, h).

(* ---- pixmap byte sizes (usize = u64) ------------------------------------------------- *)
Definition bytes_per_pixel : Z := 4.

Definition min_row_bytes (w : Z) : option Z :=
  do w' <- i32_of_u32 w;
  do rb <- checked_i32 (w' * bytes_per_pixel);
  if rb =? 0 then None else Some rb.

Definition checked_usize (z : Z) : option Z := if (0 <=? z) && (z <=? usize_max) then Some z else None.

Definition compute_data_len (w h row_bytes : Z) : option Z :=
  do h1 <- (if 1 <=? h then Some (h - 1) else None);
  do hh <- checked_usize (h1 * row_bytes);
  do ww <- checked_usize (w * bytes_per_pixel);
  checked_usize (hh + ww).

Definition data_len_for_size (w h : Z) : option Z :=
  do rb <- min_row_bytes w;
  compute_data_len w h rb.

(* Pixmap::new / from_vec / PixmapRef::from_bytes acceptance, as functions of the buffer length *)
Definition pixmap_new_ok (w h : Z) : option Z :=
  do _ <- isize_from_wh w h; data_len_for_size w h.
Definition from_vec_ok (len w h : Z) : bool :=
  match pixmap_new_ok w h with Some n => len =? n | None => false end.
Definition from_bytes_ok (len w h : Z) : option Z :=
  match pixmap_new_ok w h with Some n => if n <=? len then Some n else None | None => None end.

(* pixel(x, y) as an index into the pixel array of a w*h pixmap (after the fix) *)
Definition pixel_index (w h x y : Z) : option Z :=
  if (w <=? x) || (h <=? y) then None
  else
    do m <- (if w * y <=? u32_max then Some (w * y) else None);
    do i <- (if m + x <=? u32_max then Some (m + x) else None);
    if i <? w * h then Some i else None.
(* the pinned tree: only the linear index was checked *)
Definition pixel_index_pinned (w h x y : Z) : option Z :=
  do m <- (if w * y <=? u32_max then Some (w * y) else None);
  do i <- (if m + x <=? u32_max then Some (m + x) else None);
  if i <? w * h then Some i else None.

(* clone_rect: for each (x,y) of the intersection, the source index read; None = rejected.
   The u32 index arithmetic of the loop body is checked (debug build). *)
Definition clone_rect_indices (w h : Z) (r : irect) : option (irect * list (Z * Z)) :=
  do whole <- ir_from_xywh 0 0 w h;
  do c <- ir_intersect whole r;
  do _ <- pixmap_new_ok (iw c) (ih c);
  let idx y x := ((y + iy c) * w + (x + ix c), y * iw c + x) in
  Some (c, flat_map (fun y => map (idx y) (map Z.of_nat (seq 0 (Z.to_nat (iw c))))) (map Z.of_nat (seq 0 (Z.to_nat (ih c))))).
