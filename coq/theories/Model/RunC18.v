(* Executable entry point for the C18 correspondence. *)
From Coq Require Import ZArith Bool List.
From TS Require Import Base.F32 Model.Rect Model.Transform Model.RunC14.
Import ListNotations.
Local Open Scope Z_scope.

Definition dec_ts (a b c d e f : Z) : ts := mkts (fz a) (fz b) (fz c) (fz d) (fz e) (fz f).
Definition enc_ts (t : ts) : list Z :=
  [F32.to_bits (sx t); F32.to_bits (kx t); F32.to_bits (ky t); F32.to_bits (sy t); F32.to_bits (tx t); F32.to_bits (ty t)].
Definition b2z (b : bool) : Z := if b then 1 else 0.

Definition run_c18 (l : list Z) : list Z :=
  match l with
  | [1; a; b; c; d; e; f] =>
      match invert (dec_ts a b c d e f) with Some t => enc_ts t | None => [-1] end
  | [2; a; b; c; d; e; f; a'; b'; c'; d'; e'; f'] => enc_ts (concat (dec_ts a b c d e f) (dec_ts a' b' c' d' e' f'))
  | [3; a; b; c; d; e; f; x; y] => enc_pt (map_point (dec_ts a b c d e f) (pz x y))
  | [4; a; b; c; d; e; f] =>
      let t := dec_ts a b c d e f in
      [b2z (is_identity t); b2z (is_translate t); b2z (is_scale_translate t); b2z (has_skew t); b2z (ts_is_finite t)]
  | 6 :: _ => [-9]
  | 7 :: _ => [-9]
  | 8 :: _ => [-9]
  | 9 :: _ => [-9]
  | 10 :: _ => [-9]
  | _ => [-3]
  end.
