(* Aliased / supersampled fill of paths with curves that lie inside the clip: the edge builder's unclipped route
   (src/edge_builder.rs: PathEdgeIter, chop_quad_at_y_extrema / chop_cubic_at_y_extrema in binary32, QuadraticEdge /
   CubicEdge set-up) followed by the edge walker.  A curve edge is represented by the list of the line edges its
   `update` calls produce (Model/CurveEdge.v, tied bit-exactly through the quad_edge / cubic_edge suites): the walker
   replaces the line of a curve edge in place when it ends, the model walks the flattened list, in which the next line
   of a curve is a new edge starting on the following row (CurveEdgeProofs.v: the rows are chained).  Both keep the
   active list sorted by x on every row, so they emit the same spans; the fill_spans correspondence checks exactly
   that on every run.  Definitions only. *)
From Coq Require Import ZArith Bool List.
From TS Require Import Base.F32 Model.Rect Model.PathBuilder Model.Edge Model.CurveEdge Model.Walk.
Import ListNotations.
Local Open Scope Z_scope.

(* ---- path_geometry.rs (binary32) ------------------------------------------------------------------------------- *)
Definition is_not_monotonic (a b c : f32) : bool :=
  let ab := F32.sub a b in
  let bc := F32.sub b c in
  let bc := if F32.lt ab F32.zero then F32.neg bc else bc in
  F32.eq ab F32.zero || F32.lt bc F32.zero.

(* valid_unit_divide + NormalizedF32Exclusive::new: a quotient strictly between 0 and 1 *)
Definition valid_unit_divide (numer denom : f32) : option f32 :=
  let neg := F32.lt numer F32.zero in
  let numer := if neg then F32.neg numer else numer in
  let denom := if neg then F32.neg denom else denom in
  if F32.eq denom F32.zero || F32.eq numer F32.zero || F32.ge numer denom then None
  else
    let r := F32.div numer denom in
    if F32.gt r F32.zero && F32.lt r F32.one then Some r else None.

Definition interp (v0 v1 t : f32) : f32 := F32.add v0 (F32.mul (F32.sub v1 v0) t).
Definition interp_pt (p q : pt) (t : f32) : pt := mkpt (interp (px p) (px q) t) (interp (py p) (py q) t).

(* chop_quad_at_y_extrema: one or two y-monotone quads *)
Definition chop_quad_at_y_extrema (p0 p1 p2 : pt) : list (pt * pt * pt) :=
  let a := py p0 in let b := py p1 in let c := py p2 in
  if is_not_monotonic a b c then
    match valid_unit_divide (F32.sub a b) (F32.add (F32.sub (F32.sub a b) b) c) with
    | Some t =>
        let p01 := interp_pt p0 p1 t in
        let p12 := interp_pt p1 p2 t in
        let m := interp_pt p01 p12 t in
        [(p0, mkpt (px p01) (py m), m); (m, mkpt (px p12) (py m), p2)]
    | None =>
        let b' := if F32.lt (F32.abs (F32.sub a b)) (F32.abs (F32.sub b c)) then a else c in
        [(p0, mkpt (px p1) b', p2)]
    end
  else [(p0, p1, p2)].

(* ---- cubics ------------------------------------------------------------------------------------------------------ *)
Definition two : f32 := F32.of_Z 2.
Definition three : f32 := F32.of_Z 3.

(* find_unit_quad_roots: the discriminant in binary64, its root converted back to binary32 *)
Definition find_unit_quad_roots (a b c : f32) : list f32 :=
  if F32.eq a F32.zero then
    match valid_unit_divide (F32.neg c) b with Some r => [r] | None => [] end
  else
    let b64 := F64.of_f32 b in
    let dr := F64.sub (F64.mul b64 b64) (F64.mul (F64.mul (F64.of_Z 4) (F64.of_f32 a)) (F64.of_f32 c)) in
    if F64.lt dr F64.zero then []
    else
      let r := F64.to_f32 (F64.sqrt dr) in
      if negb (F32.is_finite r) then []
      else
        let q := if F32.lt b F32.zero then F32.div (F32.neg (F32.sub b r)) two else F32.div (F32.neg (F32.add b r)) two in
        let r1 := valid_unit_divide q a in
        let r2 := valid_unit_divide c q in
        match r1, r2 with
        | Some x, Some y => if F32.gt x y then [y; x] else if F32.eq x y then [x] else [x; y]
        | Some x, None => [x]
        | None, Some y => [y]
        | None, None => []
        end.

Definition find_cubic_extrema (a b c d : f32) : list f32 :=
  let na := F32.add (F32.sub d a) (F32.mul three (F32.sub b c)) in
  let nb := F32.mul two (F32.add (F32.sub (F32.sub a b) b) c) in
  let nc := F32.sub b a in
  find_unit_quad_roots na nb nc.

Definition cub := (pt * pt * pt * pt)%type.

(* chop_cubic_at2: the seven points of the two halves *)
Definition chop_cubic_at2 (c : cub) (t : f32) : cub * cub :=
  let '(p0, p1, p2, p3) := c in
  let ab := interp_pt p0 p1 t in
  let bc := interp_pt p1 p2 t in
  let cd := interp_pt p2 p3 t in
  let abc := interp_pt ab bc t in
  let bcd := interp_pt bc cd t in
  let abcd := interp_pt abc bcd t in
  ((p0, ab, abc, abcd), (abcd, bcd, cd, p3)).

Definition sety (p q : pt) : pt := mkpt (px p) (py q).

(* chop_cubic_at_y_extrema: one, two or three y-monotone cubics (chop_cubic_at with the renormalised second parameter,
   then the extrema flattened) *)
Definition chop_cubic_at_y_extrema (c : cub) : list cub :=
  let '(p0, p1, p2, p3) := c in
  match find_cubic_extrema (py p0) (py p1) (py p2) (py p3) with
  | [] => [c]
  | [t] =>
      let '((a0, a1, a2, a3), (_, b1, b2, b3)) := chop_cubic_at2 c t in
      [(a0, a1, sety a2 a3, a3); (a3, sety b1 a3, b2, b3)]
  | t0 :: t1 :: _ =>
      let '((a0, a1, a2, a3), r) := chop_cubic_at2 c t0 in
      let '(_, _, _, r3) := r in
      let '((_, b1, b2, b3), (_, c1, c2, c3)) :=
        match valid_unit_divide (F32.sub t1 t0) (F32.sub F32.one t0) with
        | Some n => chop_cubic_at2 r n
        | None => (r, (r3, r3, r3, r3))
        end in
      [(a0, a1, sety a2 a3, a3); (a3, sety b1 a3, sety b2 b3, b3); (b3, sety c1 b3, c2, c3)]
  end.

(* ---- PathEdgeIter with curves ------------------------------------------------------------------------------------ *)
Inductive seg := SLine (a b : pt) | SQuad (a b c : pt) | SCubic (a b c d : pt).

Fixpoint path_segs_aux (vs : list verb) (ps : list pt) (last mv : pt) (needs_close : bool) : option (list seg) :=
  match vs with
  | [] => Some (if needs_close then [SLine last mv] else [])
  | Move :: vs' =>
      match ps with
      | p :: ps' =>
          option_map (fun r => (if needs_close then [SLine last mv] else []) ++ r) (path_segs_aux vs' ps' p p false)
      | [] => None
      end
  | Line :: vs' =>
      match ps with
      | p :: ps' => option_map (cons (SLine last p)) (path_segs_aux vs' ps' p mv true)
      | [] => None
      end
  | Quad :: vs' =>
      match ps with
      | p1 :: p2 :: ps' => option_map (cons (SQuad last p1 p2)) (path_segs_aux vs' ps' p2 mv true)
      | _ => None
      end
  | Cubic :: vs' =>
      match ps with
      | p1 :: p2 :: p3 :: ps' => option_map (cons (SCubic last p1 p2 p3)) (path_segs_aux vs' ps' p3 mv true)
      | _ => None
      end
  | Close :: vs' =>
      option_map (fun r => (if needs_close then [SLine last mv] else []) ++ r) (path_segs_aux vs' ps mv mv false)
  end.
Definition path_segs (p : path) : option (list seg) :=
  path_segs_aux (pverbs p) (ppoints p) zero_pt zero_pt false.

(* ---- BasicEdgeBuilder: a list of edges, newest first; a curve edge is the list of its lines ------------------ *)
Inductive item := ILine (e : ledge) | ICurve (ls : list ledge).

Definition push_line_item (acc : list item) (e : ledge) : list item :=
  match acc with
  | ILine last :: rest =>
      if e_dx e =? 0 then
        match combine_vertical e last with
        | CTotal => rest
        | CPartial l' => ILine l' :: rest
        | CNo => ILine e :: acc
        end
      else ILine e :: acc
  | _ => ILine e :: acc
  end.

Definition push_curve_item (acc : list item) (ls : list ledge) : list item :=
  match ls with [] => acc | _ => ICurve ls :: acc end.

Fixpoint push_quads (acc : list item) (qs : list (pt * pt * pt)) (shift : Z) : option (list item) :=
  match qs with
  | [] => Some acc
  | (a, b, c) :: r =>
      match quad_edge_lines a b c shift with
      | None => None
      | Some ls => push_quads (push_curve_item acc ls) r shift
      end
  end.

Fixpoint push_cubics (acc : list item) (cs : list cub) (shift : Z) : option (list item) :=
  match cs with
  | [] => Some acc
  | (a, b, c, d) :: r =>
      match cubic_edge_lines a b c d shift with
      | None => None
      | Some ls => push_cubics (push_curve_item acc ls) r shift
      end
  end.

Fixpoint build_items (segs : list seg) (shift : Z) (acc : list item) : option (list item) :=
  match segs with
  | [] => Some (rev acc)
  | SLine p0 p1 :: r =>
      match line_edge_new p0 p1 shift with
      | None => None
      | Some None => build_items r shift acc
      | Some (Some e) => build_items r shift (push_line_item acc e)
      end
  | SQuad a b c :: r =>
      match push_quads acc (chop_quad_at_y_extrema a b c) shift with
      | None => None
      | Some acc' => build_items r shift acc'
      end
  | SCubic a b c d :: r =>
      match push_cubics acc (chop_cubic_at_y_extrema (a, b, c, d)) shift with
      | None => None
      | Some acc' => build_items r shift acc'
      end
  end.

Definition item_lines (i : item) : list ledge := match i with ILine e => [e] | ICurve ls => ls end.

(* build_edges without a clip: None (panic) / Some None (fewer than 2 edges) / the line edges of all edges *)
Definition build_edges_curves (p : path) (shift : Z) : option (option (list ledge)) :=
  match path_segs p with
  | None => None
  | Some segs =>
      match build_items segs shift [] with
      | None => None
      | Some its => Some (if (length its <? 2)%nat then None else Some (flat_map item_lines its))
      end
  end.

(* ---- an executable test used by the fill theorem for paths with cubics (Proofs/CurveFillProofs.v) ------------------------ *)
Definition fd6m (v : f32) (shift : Z) : Z := F32.to_i32 (F32.mul v (F32.of_Z (2 ^ (shift + 6)))).

(* the lines of the cubic edge stop exactly on the rounded ordinate of its lower end point: the pin did not lengthen it *)
Definition cubic_exact (c : cub) (shift : Z) : bool :=
  let '(a, b, c2, d) := c in
  match cubic_edge_lines a b c2 d shift, fdot6_round (Z.max (fd6m (py a) shift) (fd6m (py d) shift)) with
  | Some ls, Some bot => match rev ls with [] => true | e :: _ => e_last_y e + 1 =? bot end
  | _, _ => false
  end.

Definition seg_exact (shift : Z) (s : seg) : bool :=
  match s with
  | SCubic a b c d => forallb (fun q => cubic_exact q shift) (chop_cubic_at_y_extrema (a, b, c, d))
  | _ => true
  end.

(* -1: the path has no segments list; 2: no cubic segment; 1: every cubic piece is exact; 0: some piece overshoots *)
Definition path_cubics_exact (p : path) (shift : Z) : Z :=
  match path_segs p with
  | None => -1
  | Some segs =>
      if forallb (fun s => match s with SCubic _ _ _ _ => false | _ => true end) segs then 2
      else if forallb (seg_exact shift) segs then 1 else 0
  end.
