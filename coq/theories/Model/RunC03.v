(* Executable entry points for the C03 correspondence. *)
From Coq Require Import ZArith Bool List.
From TS Require Model.CurveFill.
From TS Require Import Base.F32 Model.Rect Model.PathBuilder Model.Conic Model.RunC14 Model.IntRect Model.Edge Model.Walk
  Model.AlphaRuns Model.SuperBlit Model.RectRound.
Import ListNotations.
Local Open Scope Z_scope.

(* AlphaRuns script: width, then ops  1 x sa mid ea maxv (offset = the one returned by the previous add,
   0 after a reset) | 2 (reset) .  Output: returned offsets, -5, runs, -5, alpha, -5, dense view, -5, dense spec.
   -1 = panic. *)
Fixpoint ar_script (fuel : nat) (s : aruns) (width off : Z) (d : option (list Z)) (l : list Z) (offs : list Z)
  : option (aruns * list Z * option (list Z)) :=
  match fuel with
  | O => Some (s, rev offs, d)
  | S fuel' =>
      match l with
      | 1 :: x :: sa :: mid :: ea :: mv :: r =>
          match ar_add s x sa mid ea mv off with
          | None => None
          | Some (s', off') =>
              let d' := match d with Some dd => dense_add dd x sa mid ea mv | None => None end in
              ar_script fuel' s' width off' d' r (off' :: offs)
          end
      | 3 :: x :: sa :: mid :: ea :: mv :: r =>   (* first span of a new sub-scanline: offset_x = 0 *)
          match ar_add s x sa mid ea mv 0 with
          | None => None
          | Some (s', off') =>
              let d' := match d with Some dd => dense_add dd x sa mid ea mv | None => None end in
              ar_script fuel' s' width off' d' r (off' :: offs)
          end
      | 2 :: r =>
          match ar_reset s width with
          | None => None
          | Some s' => ar_script fuel' s' width 0 (Some (repeat 0 (Z.to_nat width))) r offs
          end
      | _ => Some (s, rev offs, d)
      end
  end.

Definition run_aruns (l : list Z) : list Z :=
  match l with
  | width :: ops =>
      if (width <=? 0) || (4096 <? width) then [-3]
      else
      match ar_script (S (length ops)) (ar_new width) width 0 (Some (repeat 0 (Z.to_nat width))) ops [] with
      | None => [-1]
      | Some (s, offs, d) =>
          offs ++ [-5] ++ ar_runs s ++ [-5] ++ ar_alpha s ++ [-5]
          ++ (match dense s with Some dd => dd | None => [-1] end) ++ [-5]
          ++ (match d with Some dd => dd | None => [-1] end)
      end
  | _ => [-3]
  end.

(* scan::path_aa::fill_path for a polygon whose rounded-out bounds lie inside the clip: the blit_anti_h
   calls (x y, then the meaningful prefix of runs and alpha).  -9 = outside this model. *)
Fixpoint runs_len (fuel : nat) (runs : list Z) (i : Z) : Z :=
  match fuel with
  | O => i
  | S f => match nth_error runs (Z.to_nat i) with
           | Some n => if n =? 0 then i else runs_len f runs (i + n)
           | None => i
           end
  end.
Definition enc_anti (a : anti_h) : list Z :=
  let n := runs_len (S (length (ah_runs a))) (ah_runs a) 0 in
  [ah_x a; ah_y a; n] ++ firstn (Z.to_nat n + 1) (ah_runs a) ++ firstn (Z.to_nat n) (ah_alpha a).

Definition run_aa_spans (l : list Z) : list Z :=
  match l with
  | eo :: w :: h :: ops =>
      match finish (run_ops push_path from_points (S (length ops)) new_builder ops) with
      | None => [-8]
      | Some p =>
          let b := pbounds p in
          match from_ltrb (F32.floor (rl b)) (F32.floor (rt b)) (F32.ceil (rr b)) (F32.ceil (rb b)) with
          | None => []
          | Some fb =>
              match rect_round_out fb with
              | None => []
              | Some ir =>
                  let contained := (0 <=? ix ir) && (0 <=? iy ir) && (ir_right ir <=? w) && (ir_bottom ir <=? h) in
                  if negb contained || (8191 <? w) || (8191 <? h) then [-9]
                  else
                    match CurveFill.build_edges_curves p 2 with
                    | None => [-1]
                    | Some None => []
                    | Some (Some es) =>
                        match fill_spans es (iy ir) (ir_bottom ir) (w * 4) (negb (eo =? 0)) 2 with
                        | None => [-1]
                        | Some sp =>
                            match sb_run (sb_new (ix ir) (iy ir) (iw ir)) [] sp with
                            | None => [-1]
                            | Some ahs => flat_map enc_anti ahs
                            end
                        end
                    end
              end
          end
      end
  | _ => [-3]
  end.
