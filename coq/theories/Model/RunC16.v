(* Executable entry point for the C16 correspondence: the gather index. *)
From Coq Require Import ZArith Bool List.
From TS Require Import Base.F32 Model.Sampler.
Import ListNotations.
Local Open Scope Z_scope.

(* args: w h x y (bit patterns) -> index *)
Definition run_gather (l : list Z) : list Z :=
  match l with
  | [w; h; x; y] => [gather_ix (F32.of_bits x) (F32.of_bits y) w h]
  | _ => [-3]
  end.

(* args: kind sw sh ox oy spread w h.  kind 0 = draw_pixmap(ox, oy) (the source rectangle clipped to the w x h
   destination, Pad); kind 1 = Pattern(spread, translate(ox, oy)) filled over the whole destination.
   Result: for every destination pixel, row-major, the source index read, or -1 where nothing is drawn. *)
From TS Require Import Model.WideBackends Model.Nearest.
Definition run_nearest_map (l : list Z) : list Z :=
  match l with
  | [kind; sw; sh; ox; oy; spread; w; h] =>
      (* kind 2: the translation is (ox / 2, oy / 2): odd values put every pixel centre on a source pixel boundary *)
      let tx := if kind =? 2 then F32.mul (F32.of_Z ox) F32.half else F32.of_Z ox in
      let ty := if kind =? 2 then F32.mul (F32.of_Z oy) F32.half else F32.of_Z oy in
      let '(lft, rgt, top, bottom, spread) :=
        if kind =? 0 then (Z.max ox 0, Z.min (ox + sw) w, Z.max oy 0, Z.min (oy + sh) h, 0)
        else (0, w, 0, h, spread) in
      concat (map (fun r =>
        let dy := Z.of_nat r in
        if (top <=? dy) && (dy <? bottom) && (lft <? rgt) then
          repeat (-1) (Z.to_nat lft) ++ row_ix SSE2 spread sw sh tx ty lft rgt dy ++ repeat (-1) (Z.to_nat (w - rgt))
        else repeat (-1) (Z.to_nat w)) (seq 0 (Z.to_nat h)))
  | _ => [-3]
  end.
