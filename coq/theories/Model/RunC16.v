(* Executable entry point for the C16 correspondence: the gather index. *)
From Coq Require Import ZArith List.
From TS Require Import Base.F32 Model.Sampler.
Import ListNotations.
Local Open Scope Z_scope.

(* args: w h x y (bit patterns) -> index *)
Definition run_gather (l : list Z) : list Z :=
  match l with
  | [w; h; x; y] => [gather_ix (F32.of_bits x) (F32.of_bits y) w h]
  | _ => [-3]
  end.
