(* Model of painter.rs DrawTiler: the tiles a large target is split into so that every scan conversion stays within
   8191 pixels.  Definitions only. *)
From Coq Require Import ZArith Bool List.
Import ListNotations.
Local Open Scope Z_scope.

Definition max_dim : Z := 8191.
Definition tiler_required (w h : Z) : bool := (max_dim <? w) || (max_dim <? h).

(* Iterator::next: state (x_offset, y_offset); the `finished` flag is never set *)
Definition tiler_next (w h : Z) (st : Z * Z) : option ((Z * Z * Z * Z) * (Z * Z)) :=
  let '(xo, yo) := st in
  if (xo <? w) && (yo <? h) then
    let tile := (xo, yo, Z.min (w - xo) max_dim, Z.min (h - yo) max_dim) in
    let xo' := xo + max_dim in
    Some (tile, if w <=? xo' then (0, yo + max_dim) else (xo', yo))
  else None.

Fixpoint tiler_run (fuel : nat) (w h : Z) (st : Z * Z) : list (Z * Z * Z * Z) :=
  match fuel with
  | O => []
  | S f => match tiler_next w h st with
           | Some (t, st') => t :: tiler_run f w h st'
           | None => []
           end
  end.

(* enough fuel for every tile *)
Definition tiles (w h : Z) : list (Z * Z * Z * Z) :=
  tiler_run (Z.to_nat ((w / max_dim + 1) * (h / max_dim + 1) + 1)) w h (0, 0).

(* args: w h -> -1 (no tiling) | x y w h ... *)
Definition run_tiles (l : list Z) : list Z :=
  match l with
  | [w; h] => if tiler_required w h then flat_map (fun t => let '(x, y, tw, th) := t in [x; y; tw; th]) (tiles w h) else [-1]
  | _ => [-3]
  end.
