(* Bit-exact model of the anti-aliased hairline of src/scan/hairline_aa.rs for line segments:
   anti_hair_line_rgn (scalar pre-clips, FDot6 conversion, per-segment integer clip decision), do_anti_hairline (subdivision of
   long segments, set-up of the 16.16 walk, clip adjustments), the four AntiHairBlitters and RectClipBlitter.
   The integer helpers are the GENERATED ones (Gen/FixedGen.v).  What is observed is the sequence of per-pixel contributions
   (x, y, alpha) with alpha > 0, in emission order (blit_anti_h runs, blit_v columns, blit_anti_h2 / v2 pairs expanded).
   None = a panic of an overflow-checked build (arithmetic overflow or a failed debug assertion).  Definitions only. *)
From Coq Require Import ZArith Bool List.
From TS Require Import Base.F32 Base.Checked Gen.FixedGen Model.Rect Model.IntRect Model.PathBuilder Model.LineClip.
From TS Require Model.Edge.
Import ListNotations.
Local Open Scope Z_scope.

Definition ck (z : Z) : option Z := ck_i 32 z.
Definition half16 : Z := 32768.

(* an optional integer clip (left, top, right, bottom): RectClipBlitter keeps exactly the pixels inside it *)
Definition iclip := option (Z * Z * Z * Z).
Definition in_clip (c : iclip) (x y : Z) : bool :=
  match c with
  | None => true
  | Some (l, t, r, b) => (l <=? x) && (x <? r) && (t <=? y) && (y <? b)
  end.
Definition px1 (c : iclip) (x y a : Z) : list (Z * Z * Z) := if (0 <? a) && in_clip c x y then [(x, y, a)] else [].
(* `n` pixels of a row / of a column *)
Definition row_px (c : iclip) (x y n a : Z) : list (Z * Z * Z) :=
  flat_map (fun i => px1 c (x + Z.of_nat i) y a) (seq 0 (Z.to_nat n)).
Definition col_px (c : iclip) (x y n a : Z) : list (Z * Z * Z) :=
  flat_map (fun i => px1 c x (y + Z.of_nat i) a) (seq 0 (Z.to_nat n)).

Definition alpha_of (v : Z) : Z := v mod 256.          (* i32_to_alpha: (a & 0xFF) as u8 *)
Definition dec1 (v : Z) : Z := Z.max v 1 - 1.           (* v.max(1) - 1 *)

Inductive kind := HLine | Horish | VLine | Vertish.

(* draw_cap: (contributions, returned accumulator) *)
Definition draw_cap (k : kind) (c : iclip) (pos f slope mod64 : Z) : option (list (Z * Z * Z) * Z) :=
  do f1 <- ck (f + half16);
  let f2 := Z.max f1 0 in
  let q := shr f2 16 in
  let a := alpha_of (shr f2 8) in
  do m_lo <- fdot6_small_scale a mod64;
  do m_hi <- fdot6_small_scale (255 - a) mod64;
  match k with
  | HLine =>
      (* lower line at y = q, upper line at y - 1 when it exists (checked_sub) *)
      do r <- ck (f2 - half16);
      Some (px1 c pos q m_lo ++ (if 1 <=? q then px1 c pos (q - 1) m_hi else []), r)
  | Horish =>
      do r0 <- ck (f2 + slope); do r <- ck (r0 - half16);
      Some (px1 c pos (dec1 q) m_hi ++ px1 c pos (dec1 q + 1) m_lo, r)
  | VLine =>
      if negb (slope =? 0) then None else
      do r <- ck (f2 - half16);
      Some (px1 c q pos m_lo ++ px1 c (dec1 q) pos m_hi, r)
  | Vertish =>
      do r0 <- ck (f2 + slope); do r <- ck (r0 - half16);
      Some (px1 c (dec1 q) pos m_hi ++ px1 c (dec1 q + 1) pos m_lo, r)
  end.

(* the per-step loops of Horish / Vertish::draw_line; [f] already includes the +1/2 *)
Fixpoint slanted_loop (fuel : nat) (k : kind) (c : iclip) (pos f slope : Z) (acc : list (Z * Z * Z)) : option (list (Z * Z * Z) * Z) :=
  match fuel with
  | O => Some (acc, f)
  | S fuel' =>
      let f2 := Z.max f 0 in
      let q := shr f2 16 in
      let a := alpha_of (shr f2 8) in
      let out := match k with
                 | Horish => px1 c pos (dec1 q) (255 - a) ++ px1 c pos (dec1 q + 1) a
                 | _ => px1 c (dec1 q) pos (255 - a) ++ px1 c (dec1 q + 1) pos a
                 end in
      do f3 <- ck (f2 + slope);
      slanted_loop fuel' k c (pos + 1) f3 slope (acc ++ out)
  end.

Definition draw_line (k : kind) (c : iclip) (pos stop f slope : Z) : option (list (Z * Z * Z) * Z) :=
  match k with
  | HLine | VLine =>
      let n := stop - pos in
      if n <=? 0 then Some ([], f) else
      if (match k with VLine => negb (slope =? 0) | _ => false end) then None else
      do f1 <- ck (f + half16);
      let f2 := Z.max f1 0 in
      let q := shr f2 16 in
      let a := alpha_of (shr f2 8) in
      do r <- ck (f2 - half16);
      match k with
      | HLine => Some (row_px c pos q n a ++ (if 1 <=? q then row_px c pos (q - 1) n (255 - a) else []), r)
      | _ => Some (col_px c q pos n a ++ col_px c (dec1 q) pos n (255 - a), r)
      end
  | _ =>
      if stop <=? pos then None else     (* debug_assert!(x < stop_x) *)
      do f1 <- ck (f + half16);
      do res <- slanted_loop (Z.to_nat (stop - pos)) k c pos f1 slope [];
      do r <- ck (snd res - half16);
      Some (fst res, r)
  end.

Definition contribution_64 (o : Z) : Z := Z.land (o - 1) 63 + 1.
Definition can_fdot16 (n : Z) : bool := Z.abs n <=? 2097151.

(* the walk after the set-up: cap, full spans, end cap *)
Definition walk (k : kind) (c : iclip) (istart istop fstart slope scale_start scale_stop : Z) : option (list (Z * Z * Z)) :=
  if (istart <? 0) || (istop <? 0) then None else
  do r1 <- draw_cap k c istart fstart slope scale_start;
  let i1 := istart + 1 in
  let full := istop - i1 - (if 0 <? scale_stop then 1 else 0) in
  if full <? 0 then None else
  do r2 <- (if 0 <? full then draw_line k c i1 (i1 + full) (snd r1) slope else Some ([], snd r1));
  do r3 <- (if 0 <? scale_stop then draw_cap k c (istop - 1) (snd r2) slope scale_stop else Some ([], snd r2));
  Some (fst r1 ++ fst r2 ++ fst r3).

(* the clip handling of do_anti_hairline after the set-up, the same code for both orientations: [al, ar) is the clip along the
   walking axis (columns for the mostly-horizontal case, rows for the mostly-vertical one), [cl, ch) across it; [last] is the
   far end point's coordinate along the axis (for contribution_64) *)
Definition clipped_walk (k : kind) (clip : Z * Z * Z * Z) (al ar cl ch : Z) (istart istop fstart slope scale_start scale_stop last : Z)
  : option (list (Z * Z * Z)) :=
  if (ar <=? istart) || (istop <=? al) then Some [] else
  do adj <- (if istart <? al then
               do d <- ck (slope * (al - istart)); do f <- ck (fstart + d);
               if istop - al =? 1 then Some (al, f, contribution_64 last, 0) else Some (al, f, 64, scale_stop)
             else Some (istart, fstart, scale_start, scale_stop));
  let '(istart, fstart, scale_start, scale_stop) := adj in
  let '(istop, scale_stop) := if ar <? istop then (ar, 0) else (istop, scale_stop) in
  if istop <? istart then None else
  if istart =? istop then Some [] else
  (* are the values across the axis completely inside the clip? *)
  do span <- ck ((istop - istart - 1) * slope);
  do tb <- (if 0 <=? slope then
              do a <- ck (fstart - half16); do b0 <- ck (fstart + span); do b1 <- ck (b0 + half16);
              do b <- fdot16_ceil_to_i32 b1; Some (fdot16_floor_to_i32 a, b)
            else
              do b1 <- ck (fstart + half16); do b <- fdot16_ceil_to_i32 b1;
              do a0 <- ck (fstart + span); do a <- ck (a0 - half16); Some (fdot16_floor_to_i32 a, b));
  let lo := fst tb - 1 in let hi := snd tb + 1 in
  if (ch <=? lo) || (hi <=? cl) then Some [] else
  let c' := if (cl <=? lo) && (hi <=? ch) then None else Some clip in
  walk k c' istart istop fstart slope scale_start scale_stop.

(* one segment short enough not to be subdivided; clip = (left, top, right, bottom) of the sub-clip, if any *)
Definition anti_hairline_short (x0 y0 x1 y1 : Z) (clip : iclip) : option (list (Z * Z * Z)) :=
  do dxa <- ck (x1 - x0); do dya <- ck (y1 - y0);
  if Z.abs dya <? Z.abs dxa then
    (* mostly horizontal: left to right *)
    let '(x0, y0, x1, y1) := if x1 <? x0 then (x1, y1, x0, y0) else (x0, y0, x1, y1) in
    let istart := fdot6_floor x0 in
    do istop <- fdot6_ceil x1;
    do f0 <- fdot6_to_fdot16 y0;
    do sl_f <- (if y0 =? y1 then Some (0, f0, HLine)
                else
                  do dy <- ck (y1 - y0); do dx <- ck (x1 - x0);
                  do slope <- fdot16_fast_div dy dx;
                  if (slope <? -65536) || (65536 <? slope) then None else
                  do t <- ck (slope * (32 - Z.land x0 63)); do t <- ck (t + 32);
                  do f <- ck (f0 + shr t 6);
                  Some (slope, f, Horish));
    let '(slope, fstart, k) := sl_f in
    if istop <=? istart then None else
    do sc <- (if istop - istart =? 1 then
                do s <- ck (x1 - x0); if (s <? 0) || (64 <? s) then None else Some (s, 0)
              else Some (64 - Z.land x0 63, Z.land x1 63));
    let '(scale_start, scale_stop) := sc in
    match clip with
    | None => walk k None istart istop fstart slope scale_start scale_stop
    | Some (cl, ct, cr, cb) => clipped_walk k (cl, ct, cr, cb) cl cr ct cb istart istop fstart slope scale_start scale_stop x1
    end
  else
    (* mostly vertical: top to bottom *)
    let '(x0, y0, x1, y1) := if y1 <? y0 then (x1, y1, x0, y0) else (x0, y0, x1, y1) in
    let istart := fdot6_floor y0 in
    do istop <- fdot6_ceil y1;
    do f0 <- fdot6_to_fdot16 x0;
    if (x0 =? x1) && (y0 =? y1) then Some [] else
    do sl_f <- (if x0 =? x1 then Some (0, f0, VLine)
                else
                  do dx <- ck (x1 - x0); do dy <- ck (y1 - y0);
                  do slope <- fdot16_fast_div dx dy;
                  if (slope <? -65536) || (65536 <? slope) then None else
                  do t <- ck (slope * (32 - Z.land y0 63)); do t <- ck (t + 32);
                  do f <- ck (f0 + shr t 6);
                  Some (slope, f, Vertish));
    let '(slope, fstart, k) := sl_f in
    if istop <=? istart then None else
    do sc <- (if istop - istart =? 1 then
                do s <- ck (y1 - y0); if (s <? 0) || (64 <? s) then None else Some (s, 0)
              else Some (64 - Z.land y0 63, Z.land y1 63));
    let '(scale_start, scale_stop) := sc in
    match clip with
    | None => walk k None istart istop fstart slope scale_start scale_stop
    | Some (cl, ct, cr, cb) => clipped_walk k (cl, ct, cr, cb) ct cb cl cr istart istop fstart slope scale_start scale_stop y1
    end.

(* do_anti_hairline: segments longer than 511 px in x or y are halved first *)
Fixpoint do_anti_hairline (fuel : nat) (x0 y0 x1 y1 : Z) (clip : iclip) : option (list (Z * Z * Z)) :=
  if (x0 =? -2147483648) || (y0 =? -2147483648) || (x1 =? -2147483648) || (y1 =? -2147483648) then None   (* `-x` in bad_int *)
  else if negb (can_fdot16 x0 && can_fdot16 y0 && can_fdot16 x1 && can_fdot16 y1) then None
  else
    do dx <- ck (x1 - x0); do dy <- ck (y1 - y0);
    if (32704 <? Z.abs dx) || (32704 <? Z.abs dy) then        (* fdot6::from_i32(511) = 511 << 6 *)
      match fuel with
      | O => None
      | S fuel' =>
          do hx <- ck (shr x0 1 + shr x1 1); do hy <- ck (shr y0 1 + shr y1 1);
          do a <- do_anti_hairline fuel' x0 y0 hx hy clip;
          do b <- do_anti_hairline fuel' hx hy x1 y1 clip;
          Some (a ++ b)
      end
    else anti_hairline_short x0 y0 x1 y1 clip.

(* anti_hair_line_rgn for one segment, clip = the w x h pixmap *)
Definition fixed_bounds : option rect := from_ltrb (F32.of_Z (-32767)) (F32.of_Z (-32767)) (F32.of_Z 32767) (F32.of_Z 32767).
Definition fdot6_of (v : f32) : Z := FixedGen.fdot6_from_f32 v.

Definition anti_hair_line_rgn_seg (w h : Z) (p0 p1 : pt) : option (list (Z * Z * Z)) :=
  match fixed_bounds, from_ltrb (F32.of_Z (-1)) (F32.of_Z (-1)) (F32.of_Z (w + 1)) (F32.of_Z (h + 1)), ir_from_xywh 0 0 w h with
  | Some fb, Some cb, Some clip =>
      match intersect p0 p1 fb with
      | None => Some []
      | Some (a, b) =>
          match intersect a b cb with
          | None => Some []
          | Some (c, d) =>
              let x0 := fdot6_of (px c) in let y0 := fdot6_of (py c) in
              let x1 := fdot6_of (px d) in let y1 := fdot6_of (py d) in
              do r <- fdot6_ceil (Z.max x0 x1); do b' <- fdot6_ceil (Z.max y0 y1);
              do l' <- ck (fdot6_floor (Z.min x0 x1) - 1); do t' <- ck (fdot6_floor (Z.min y0 y1) - 1);
              do r' <- ck (r + 1); do b'' <- ck (b' + 1);
              match ir_from_ltrb l' t' r' b'' with
              | None => Some []
              | Some ir =>
                  match ir_intersect clip ir with
                  | None => Some []
                  | Some sub =>
                      if ir_contains clip ir then do_anti_hairline 12 x0 y0 x1 y1 None
                      else if (ix sub <? 0) || (iy sub <? 0) then Some []     (* to_screen_int_rect *)
                      else do_anti_hairline 12 x0 y0 x1 y1 (Some (ix sub, iy sub, ir_right sub, ir_bottom sub))
                  end
              end
          end
      end
  | _, _, _ => None
  end.

Fixpoint anti_hair_all (w h : Z) (segs : list (pt * pt)) : option (list (Z * Z * Z)) :=
  match segs with
  | [] => Some []
  | (p0, p1) :: r =>
      match anti_hair_line_rgn_seg w h p0 p1, anti_hair_all w h r with
      | Some a, Some b => Some (a ++ b)
      | _, _ => None
      end
  end.
