(* Executable entry points for the C07 correspondence. *)
From Coq Require Import ZArith Bool List.
From TS Require Import Base.F32 Model.Rect Model.PathBuilder Model.Conic Model.RunC14 Model.Dash.
Import ListNotations.
Local Open Scope Z_scope.

(* args: offset n a_1 .. a_n  ->  -2 (panic) | -1 (None) | offset interval_len first_len first_index *)
Definition run_dash_new (l : list Z) : list Z :=
  match l with
  | off :: n :: r =>
      match strokedash_new (map fz (firstn (Z.to_nat n) r)) (fz off) with
      | None => [-2]
      | Some None => [-1]
      | Some (Some d) => [F32.to_bits (sd_offset d); F32.to_bits (sd_interval_len d); F32.to_bits (sd_first_len d);
                          Z.of_nat (sd_first_index d)]
      end
  | _ => [-3]
  end.

(* args: offset n a_1 .. a_n res_scale <builder ops>  ->  -2 panic / -9 not modelled (curves) | -3 dash rejected |
   -4 source path rejected | -1 dash returned None | the encoded path *)
Definition run_dash (l : list Z) : list Z :=
  match l with
  | off :: n :: r =>
      let arr := map fz (firstn (Z.to_nat n) r) in
      match skipn (Z.to_nat n) r with
      | _res :: ops =>
          match strokedash_new arr (fz off) with
          | None => [-2]
          | Some None => [-3]
          | Some (Some d) =>
              match finish_gen from_points (run_ops push_path from_points (S (length ops)) new_builder ops) with
              | None => [-4]
              | Some p =>
                  if existsb (fun v => match v with Quad | Cubic => true | _ => false end) (pverbs p) then [-9]
                  else
                    match path_dash p d with
                    | None => [-2]
                    | Some r => enc_path r
                    end
              end
          end
      | [] => [-3]
      end
  | _ => [-3]
  end.
