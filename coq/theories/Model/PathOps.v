(* Path::transform (path/src/path.rs).  Definitions only. *)
From Coq Require Import ZArith Bool List.
From TS Require Import Base.F32 Model.Rect Model.PathBuilder Model.Transform.
Import ListNotations.

Definition path_transform (t : ts) (p : path) : option path :=
  if is_identity t then Some p
  else
    let ps := map_points t (ppoints p) in
    match from_points ps with
    | Some r => Some (mkpath (pverbs p) ps r)
    | None => None
    end.
