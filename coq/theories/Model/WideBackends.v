(* Lane semantics of the `wide` float operations for each backend the crate can be compiled for on
   x86-64 (src/wide/f32x4_t.rs, f32x8_t.rs).  The scalar fallback is written from the Rust source; the
   intrinsics from the Intel SDM (MINPS/MAXPS return the second operand when the comparison is false,
   CMPNEQPS is unordered, CVTPS2DQ/CVTTPS2DQ give the "integer indefinite" 0x80000000 for NaN and out-of-range
   inputs, ROUNDPS rounds to nearest even).  These instruction semantics are trusted modelling; the
   per-configuration correspondence runs them against the compiled code.  Definitions only. *)
From Coq Require Import ZArith Bool List.
From Flocq Require Import IEEE754.BinarySingleNaN.
From TS Require Import Base.F32.
Import ListNotations.
Local Open Scope Z_scope.

Inductive backend := Scalar | SSE2 | SSE41 | AVX.
(* f32x4 under an AVX build uses the SSE4.1 code paths *)
Definition b4 (b : backend) : backend := match b with AVX => SSE41 | _ => b end.

Definition ones : Z := 4294967295.
Definition mask (c : bool) : Z := if c then ones else 0.
Definition int_indefinite : Z := -2147483648.
Definition as_u32 (z : Z) : Z := z mod 4294967296.

(* ---- f32x4 lanes ---------------------------------------------------------------------------------- *)
(* MINPS / MAXPS return the second operand when the comparison is false; the scalar fallback
   (faster_min / faster_max) does the same since fix 86cbfae *)
Definition min4 (b : backend) (x y : f32) : f32 := if F32.lt x y then x else y.
Definition max4 (b : backend) (x y : f32) : f32 := if F32.lt y x then x else y.
(* faster_min / faster_max of the pinned tree: the first operand is returned when the comparison is false *)
Definition min_scalar_pinned (x y : f32) : f32 := if F32.lt y x then y else x.
Definition max_scalar_pinned (x y : f32) : f32 := if F32.lt x y then y else x.

(* comparisons: every backend uses the ordered predicates for eq/lt/le/gt/ge and the unordered one for ne *)
Definition cmp_eq4 (b : backend) (x y : f32) : bool := F32.eq x y.
Definition cmp_ne4 (b : backend) (x y : f32) : bool := negb (F32.eq x y).
Definition cmp_lt4 (b : backend) (x y : f32) : bool := F32.lt x y.
Definition cmp_le4 (b : backend) (x y : f32) : bool := F32.le x y.
Definition cmp_gt4 (b : backend) (x y : f32) : bool := F32.lt y x.
Definition cmp_ge4 (b : backend) (x y : f32) : bool := F32.le y x.

(* CVTTPS2DQ *)
Definition cvtt (x : f32) : Z :=
  match x with
  | B754_nan => int_indefinite
  | B754_infinity _ => int_indefinite
  | B754_zero _ => 0
  | B754_finite _ _ _ _ =>
      let z := Btrunc x in if (z <? -2147483648) || (2147483647 <? z) then int_indefinite else z
  end.
(* CVTPS2DQ (round to nearest even under the default MXCSR) *)
Definition cvt (x : f32) : Z :=
  match x with
  | B754_nan => int_indefinite
  | B754_infinity _ => int_indefinite
  | B754_zero _ => 0
  | B754_finite _ _ _ _ =>
      let z := Btrunc (Bnearbyint mode_NE x) in
      if (z <? -2147483648) || (2147483647 <? z) then int_indefinite else z
  end.

Definition trunc_int4 (b : backend) (x : f32) : Z :=
  match b4 b with Scalar => F32.to_i32 x | _ => cvtt x end.

(* ROUNDPS, nearest *)
Definition roundps (x : f32) : f32 := Bnearbyint mode_NE x.

(* the portable rounding of f32x4::round (used by the scalar fallback and by SSE2) *)
Definition sign_bit (x : f32) : bool := (2147483648 <=? F32.to_bits x).
Definition exp_bits (x : f32) : Z := Z.land (Z.shiftr (F32.to_bits x) 23) 255.
Definition two23 : f32 := F32.of_Z 8388608.
Definition generic_round (x : f32) : f32 :=
  let e := exp_bits x in
  if 150 <=? e then x
  else if e <? 126 then F32.mul x F32.zero
  else
    let neg := sign_bit x in
    (* `-v` on a wide vector is `0.0 - v` *)
    let x' := if neg then F32.sub F32.zero x else x in
    let y := F32.sub (F32.sub (F32.add x' two23) two23) x' in
    let y := if F32.lt F32.half y then F32.sub (F32.add y x') (F32.neg F32.one)
             else if F32.lt y (F32.neg F32.half) then F32.add (F32.add y x') F32.one
             else F32.add y x' in
    if neg then F32.sub F32.zero y else y.

Definition round4 (b : backend) (x : f32) : f32 :=
  match b4 b with Scalar | SSE2 => generic_round x | _ => roundps x end.

Definition round_int4 (b : backend) (x : f32) : Z :=
  match b4 b with Scalar => F32.to_i32 (generic_round x) | _ => cvt x end.

(* i32 -> f32 (CVTDQ2PS / `as f32`): round to nearest even *)
Definition i32_to_f32 (z : Z) : f32 := F32.of_Z z.

Definition floor4 (b : backend) (x : f32) : f32 :=
  let r := i32_to_f32 (trunc_int4 b x) in
  F32.sub r (if cmp_gt4 b r x then F32.one else F32.zero).

(* ---- f32x8 lanes: two f32x4 halves, except under AVX ------------------------------------------------ *)
(* [ne_ordered]: the predicate used by the AVX cmp_ne (true = _CMP_NEQ_OQ as on the pinned tree) *)
Definition cmp_ne8 (ne_ordered : bool) (b : backend) (x y : f32) : bool :=
  match b with
  | AVX => if ne_ordered then negb (F32.is_nan x) && negb (F32.is_nan y) && negb (F32.eq x y) else negb (F32.eq x y)
  | _ => cmp_ne4 b x y
  end.
Definition min8 := min4.
Definition max8 := max4.
Definition round8 := round4.
Definition round_int8 := round_int4.
Definition trunc_int8 := trunc_int4.
Definition floor8 := floor4.

Definition normalize4 (b : backend) (x : f32) : f32 := min4 b (max4 b x F32.zero) F32.one.

(* ---- executable entry point for the per-configuration correspondence ---------------------------------- *)
Definition backend_of (z : Z) : backend :=
  match z with 0 => Scalar | 1 => SSE2 | 2 => SSE41 | _ => AVX end.

(* args: backend width op a b (bit patterns) -> result bit pattern; ne_ordered = the tree's AVX cmp_ne predicate *)
Definition run_wide_gen (ne_ordered : bool) (l : list Z) : list Z :=
  match l with
  | [bk; w; op; a; b] =>
      let bk := backend_of bk in
      let x := F32.of_bits a in let y := F32.of_bits b in
      let fb (v : f32) := [F32.to_bits v] in
      match op with
      | 0 => fb (min4 bk x y)
      | 1 => fb (max4 bk x y)
      | 2 => [mask (cmp_eq4 bk x y)]
      | 3 => [mask (if w =? 8 then cmp_ne8 ne_ordered bk x y else cmp_ne4 bk x y)]
      | 4 => [mask (cmp_lt4 bk x y)]
      | 5 => [mask (cmp_le4 bk x y)]
      | 6 => [mask (cmp_gt4 bk x y)]
      | 7 => [mask (cmp_ge4 bk x y)]
      | 8 => fb (floor4 bk x)
      | 9 => fb (round4 bk x)
      | 10 => [as_u32 (round_int4 bk x)]
      | 11 => [as_u32 (trunc_int4 bk x)]
      | 12 => fb (F32.div F32.one x)                       (* exact; RCPPS is compared under a tolerance *)
      | 13 => fb (F32.div F32.one (F32.sqrt x))            (* exact; RSQRTPS likewise *)
      | 14 => fb (F32.sqrt x)
      | 15 => fb (F32.abs x)
      | 16 => fb (F32.add x y)
      | 17 => fb (F32.sub x y)
      | 18 => fb (F32.mul x y)
      | 19 => fb (F32.div x y)
      | 20 => fb (if cmp_lt4 bk x y then x else y)
      | 21 => fb (normalize4 bk x)
      | 22 => fb (F32.sub x (floor4 bk x))
      | 23 => fb (i32_to_f32 (if a <? 2147483648 then a else a - 4294967296))
      | _ => [-3]
      end
  | _ => [-3]
  end.
(* the current tree (after fix: the AVX cmp_ne uses the unordered predicate like every other backend) *)
Definition run_wide : list Z -> list Z := run_wide_gen false.
Definition run_wide_pinned : list Z -> list Z := run_wide_gen true.
