(* Pixel pipeline model for solid-colour paints: colour conversion, the lane semantics of the
   lowp (u16) and highp (f32) stages built from the GENERATED closures (Gen/LowpGen.v,
   Gen/HighpGen.v, Gen/BlendTable.v), the three stage programs RasterPipelineBlitter::new
   builds, and the row runner (full batches + tail, mask early-out).  Definitions only. *)
From Coq Require Import ZArith Bool List String.
From TS Require Import Base.F32 Base.U16 Base.Wide Gen.LowpGen Gen.HighpGen Gen.BlendTable.
Import ListNotations.
Local Open Scope Z_scope.

(* ---- colours -------------------------------------------------------------------------- *)
Definition f255 : f32 := F32.of_bits 1132396544.
Definition inv255 : f32 := F32.div F32.one f255.           (* the constant 1.0 / 255.0 *)

(* NormalizedF32::new_u8 *)
Definition norm_u8 (n : Z) : f32 := F32.div (F32.of_Z n) f255.
(* NormalizedF32::new_clamped *)
Definition new_clamped (x : f32) : f32 :=
  if F32.is_finite x then F32.max (F32.min F32.one x) F32.zero else F32.zero.

Record colorf := mkcf { cr : f32; cg : f32; cb : f32; ca : f32 }.
Definition color_from_rgba8 (r g b a : Z) : colorf := mkcf (norm_u8 r) (norm_u8 g) (norm_u8 b) (norm_u8 a).
Definition color_is_opaque (c : colorf) : bool := F32.eq (ca c) F32.one.
(* Color::premultiply *)
Definition color_premultiply (c : colorf) : colorf :=
  if color_is_opaque c then c
  else mkcf (new_clamped (F32.mul (cr c) (ca c))) (new_clamped (F32.mul (cg c) (ca c)))
            (new_clamped (F32.mul (cb c) (ca c))) (ca c).
(* (x * 255.0 + 0.5) as u8 / as u16 *)
Definition f_to_u8 (x : f32) : Z := F32.to_u8 (F32.add (F32.mul x f255) F32.half).
Definition f_to_u16 (x : f32) : Z := F32.to_u16 (F32.add (F32.mul x f255) F32.half).

Record px := mkpx { pr : Z; pg : Z; pb : Z; pa : Z }.
Definition premul_px (p : px) : Prop := 0 <= pr p <= pa p /\ 0 <= pg p <= pa p /\ 0 <= pb p <= pa p /\ pa p <= 255.
Definition color_to_px (c : colorf) : px := mkpx (f_to_u8 (cr c)) (f_to_u8 (cg c)) (f_to_u8 (cb c)) (f_to_u8 (ca c)).
Definition color_to_u16 (c : colorf) : px := mkpx (f_to_u16 (cr c)) (f_to_u16 (cg c)) (f_to_u16 (cb c)) (f_to_u16 (ca c)).

(* color::premultiply_u8 *)
Definition premultiply_u8 (c a : Z) : Z :=
  let prod := c * a + 128 in Z.shiftr (prod + Z.shiftr prod 8) 8 mod 256.

(* ---- table lookups (generated tables) ------------------------------------------------------ *)
Fixpoint assoc {A} (k : string) (l : list (string * A)) : option A :=
  match l with
  | [] => None
  | (k', v) :: r => if String.eqb k k' then Some v else assoc k r
  end.

Definition mode_name (id : Z) : string := nth (Z.to_nat id) blend_modes "?"%string.
Definition mode_stage (m : string) : option string :=
  match assoc m to_stage_table with Some s => s | None => None end.
Definition prescales (m : string) : bool := existsb (String.eqb m) prescale_modes.
Definition lowp_fn_of_stage (s : string) : string :=
  match assoc s lowp_stage_fn with Some f => f | None => "null_fn"%string end.
Definition highp_fn_of_stage (s : string) : string :=
  match assoc s highp_stage_fn with Some f => f | None => "?"%string end.

(* ---- lane state ----------------------------------------------------------------------------- *)
Section Lanes.
  Variable T : Type.
  Record lst := mklst { sr : T; sg : T; sb : T; sa : T; dr : T; dg : T; db : T; da : T }.
End Lanes.
Arguments mklst {T}. Arguments sr {T}. Arguments sg {T}. Arguments sb {T}. Arguments sa {T}.
Arguments dr {T}. Arguments dg {T}. Arguments db {T}. Arguments da {T}.

(* per-lane inputs: destination pixel, clip-mask byte, aa-mask byte, coverage (as the byte the
   blitter converts to f32) *)
Record lin := mklin { in_dst : px; in_mask : Z; in_aa : Z }.

(* result of a lane program: the pixel to store, if a Store / SourceOverRgba stage was reached *)

(* -- lowp -- *)
Definition lowp_from_float (f : f32) : Z := F32.to_u16 (F32.add (F32.mul f f255) F32.half).

Definition lowp_blend (fname : string) (s : lst Z) : option (lst Z) :=
  match assoc fname lowp_blend_table with
  | None => None
  | Some (f, kind) =>
      let a' := if kind =? 1 then f (sa s) (da s) (sa s) (da s)
                else u16add (sa s) (lowp_div255 (u16mul (da s) (lowp_inv (sa s)))) in
      Some (mklst (f (sr s) (dr s) (sa s) (da s)) (f (sg s) (dg s) (sa s) (da s))
                  (f (sb s) (db s) (sa s) (da s)) a' (dr s) (dg s) (db s) (da s))
  end.

Definition lowp_scale (s : lst Z) (c : Z) : lst Z :=
  mklst (lowp_div255 (u16mul (sr s) c)) (lowp_div255 (u16mul (sg s) c))
        (lowp_div255 (u16mul (sb s) c)) (lowp_div255 (u16mul (sa s) c)) (dr s) (dg s) (db s) (da s).
Definition lowp_lerp_st (s : lst Z) (c : Z) : lst Z :=
  mklst (lowp_lerp (dr s) (sr s) c) (lowp_lerp (dg s) (sg s) c)
        (lowp_lerp (db s) (sb s) c) (lowp_lerp (da s) (sa s) c) (dr s) (dg s) (db s) (da s).
Definition load_dst_z (s : lst Z) (d : px) : lst Z :=
  mklst (sr s) (sg s) (sb s) (sa s) (pr d) (pg d) (pb d) (pa d).
Definition store_z (s : lst Z) : px := mkpx (sr s mod 256) (sg s mod 256) (sb s mod 256) (sa s mod 256).

(* one lowp stage on one lane; [cov]: current_coverage (f32); uniform colour as u16 px.
   Returns the new state and, for storing stages, the stored pixel. *)
Definition lowp_stage (stage : string) (uni : px) (cov : f32) (i : lin) (s : lst Z)
  : option (lst Z * option px) :=
  let fn := lowp_fn_of_stage stage in
  if String.eqb fn "uniform_color"%string then
    Some (mklst (pr uni) (pg uni) (pb uni) (pa uni) (dr s) (dg s) (db s) (da s), None)
  else if String.eqb fn "mask_u8"%string then Some (lowp_scale s (in_mask i), None)
  else if String.eqb fn "scale_u8"%string then Some (lowp_scale s (in_aa i), None)
  else if String.eqb fn "lerp_u8"%string then Some (lowp_lerp_st s (in_aa i), None)
  else if String.eqb fn "scale_1_float"%string then Some (lowp_scale s (lowp_from_float cov), None)
  else if String.eqb fn "lerp_1_float"%string then Some (lowp_lerp_st s (lowp_from_float cov), None)
  else if String.eqb fn "load_dst"%string then Some (load_dst_z s (in_dst i), None)
  else if String.eqb fn "store"%string then Some (s, Some (store_z s))
  else if String.eqb fn "move_destination_to_source"%string then
    Some (mklst (dr s) (dg s) (db s) (da s) (dr s) (dg s) (db s) (da s), None)
  else if String.eqb fn "source_over_rgba"%string then
    let s := load_dst_z s (in_dst i) in
    match lowp_blend "source_over"%string s with
    | Some s' => Some (s', Some (store_z s'))
    | None => None
    end
  else match lowp_blend fn s with
       | Some s' => Some (s', None)
       | None => None
       end.

(* -- highp -- *)
Definition highp_blend (fname : string) (s : lst f32) : option (lst f32) :=
  match assoc fname highp_blend_table with
  | None => None
  | Some (f, kind) =>
      let a' := if kind =? 1 then f (sa s) (da s) (sa s) (da s)
                else highp_mad (da s) (highp_inv (sa s)) (sa s) in
      Some (mklst (f (sr s) (dr s) (sa s) (da s)) (f (sg s) (dg s) (sa s) (da s))
                  (f (sb s) (db s) (sa s) (da s)) a' (dr s) (dg s) (db s) (da s))
  end.
Definition highp_scale (s : lst f32) (c : f32) : lst f32 :=
  mklst (F32.mul (sr s) c) (F32.mul (sg s) c) (F32.mul (sb s) c) (F32.mul (sa s) c) (dr s) (dg s) (db s) (da s).
Definition highp_lerp_st (s : lst f32) (c : f32) : lst f32 :=
  mklst (highp_lerp (dr s) (sr s) c) (highp_lerp (dg s) (sg s) c)
        (highp_lerp (db s) (sb s) c) (highp_lerp (da s) (sa s) c) (dr s) (dg s) (db s) (da s).
(* load_8888: u8 as f32 * (1.0/255.0) *)
Definition load_f (v : Z) : f32 := F32.mul (F32.of_Z v) inv255.
Definition load_dst_f (s : lst f32) (d : px) : lst f32 :=
  mklst (sr s) (sg s) (sb s) (sa s) (load_f (pr d)) (load_f (pg d)) (load_f (pb d)) (load_f (pa d)).
(* unnorm: (v.max(0).min(1) * 255).round_int(), then `as u8` *)
Definition unnorm (v : f32) : Z :=
  wide_round_int (F32.mul (wide_min (wide_max v F32.zero) F32.one) f255).
Definition store_f (s : lst f32) : px :=
  mkpx (unnorm (sr s) mod 256) (unnorm (sg s) mod 256) (unnorm (sb s) mod 256) (unnorm (sa s) mod 256).
Definition byte_f (v : Z) : f32 := F32.div (F32.of_Z v) f255.

Definition highp_stage (stage : string) (uni : colorf) (cov : f32) (i : lin) (s : lst f32)
  : option (lst f32 * option px) :=
  let fn := highp_fn_of_stage stage in
  if String.eqb fn "uniform_color"%string then
    Some (mklst (cr uni) (cg uni) (cb uni) (ca uni) (dr s) (dg s) (db s) (da s), None)
  else if String.eqb fn "mask_u8"%string then Some (highp_scale s (byte_f (in_mask i)), None)
  else if String.eqb fn "scale_u8"%string then Some (highp_scale s (byte_f (in_aa i)), None)
  else if String.eqb fn "lerp_u8"%string then Some (highp_lerp_st s (byte_f (in_aa i)), None)
  else if String.eqb fn "scale_1_float"%string then Some (highp_scale s cov, None)
  else if String.eqb fn "lerp_1_float"%string then Some (highp_lerp_st s cov, None)
  else if String.eqb fn "load_dst"%string then Some (load_dst_f s (in_dst i), None)
  else if String.eqb fn "store"%string then Some (s, Some (store_f s))
  else if String.eqb fn "move_destination_to_source"%string then
    Some (mklst (dr s) (dg s) (db s) (da s) (dr s) (dg s) (db s) (da s), None)
  else if String.eqb fn "source_over_rgba"%string then
    let s := load_dst_f s (in_dst i) in
    match highp_blend "source_over"%string s with
    | Some s' => Some (s', Some (store_f s'))
    | None => None
    end
  else match highp_blend fn s with
       | Some s' => Some (s', None)
       | None => None
       end.

(* run a whole program on one lane: None = a stage the model does not cover *)
Fixpoint run_lane {T} (stagef : string -> lin -> lst T -> option (lst T * option px))
         (prog : list string) (i : lin) (s : lst T) (out : option px) : option (option px) :=
  match prog with
  | [] => Some out
  | st :: rest =>
      match stagef st i s with
      | None => None
      | Some (s', o) => run_lane stagef rest i s' (match o with Some p => Some p | None => out end)
      end
  end.

(* ---- RasterPipelineBlitter::new for a solid colour in the linear colour space ---------------- *)
Record paintm := mkpaint { p_mode : string; p_color : colorf; p_aa : bool; p_hq : bool }.

Record blitterm := mkblitter {
  b_memset : option px;
  b_rect : list string;
  b_anti_h : list string;
  b_mask : list string }.

Definition opt_stage (m : string) : list string :=
  match mode_stage m with Some s => [s] | None => [] end.

Definition blitter_new (p : paintm) (has_mask : bool) : option blitterm :=
  let m := p_mode p in
  let opaque := color_is_opaque (p_color p) in
  if String.eqb m "Destination"%string then None
  else if String.eqb m "DestinationIn"%string && opaque then None
  else
    let blend := if opaque && String.eqb m "SourceOver"%string && negb has_mask then "Source"%string else m in
    let memset := if String.eqb blend "Source"%string && negb has_mask
                  then Some (color_to_px (color_premultiply (p_color p))) else None in
    let '(blend, memset) :=
      if String.eqb blend "Clear"%string && negb (p_aa p) && negb has_mask
      then ("Source"%string, Some (mkpx 0 0 0 0)) else (blend, memset) in
    let shader := ["UniformColor"%string] in
    let maskst := if has_mask then ["MaskU8"%string] else [] in
    let cover (scale lerp : string) :=
      shader ++ maskst ++
      (if prescales blend then [scale; "LoadDestination"%string] ++ opt_stage blend
       else ["LoadDestination"%string] ++ opt_stage blend ++ [lerp]) ++ ["Store"%string] in
    let rect :=
      shader ++ maskst ++
      (if String.eqb blend "SourceOver"%string && negb has_mask then ["SourceOverRgba"%string]
       else (if negb (String.eqb blend "Source"%string) then ["LoadDestination"%string] ++ opt_stage blend else [])
            ++ ["Store"%string]) in
    Some (mkblitter memset rect (cover "Scale1Float"%string "Lerp1Float"%string) (cover "ScaleU8"%string "LerpU8"%string)).

Definition is_lowp (p : paintm) (prog : list string) : bool :=
  negb (p_hq p) && forallb (fun s => negb (String.eqb (lowp_fn_of_stage s) "null_fn"%string)) prog.

(* ---- the row runner ----------------------------------------------------------------------------
   One row of a pixmap as a list of lane inputs; the rect covers columns [x0, x0+len).
   Batches of [w] lanes, then one tail batch; a batch whose clip-mask bytes are all zero stops at
   the MaskU8 stage (nothing is stored). *)
Definition lane_fn := lin -> option (option px).

Fixpoint update_batch (f : lane_fn) (batch : list lin) : option (list px) :=
  match batch with
  | [] => Some []
  | i :: r =>
      match f i, update_batch f r with
      | Some o, Some r' => Some ((match o with Some p => p | None => in_dst i end) :: r')
      | _, _ => None
      end
  end.

Definition run_batch (f : lane_fn) (has_mask_stage : bool) (batch : list lin) : option (list px) :=
  if has_mask_stage && forallb (fun i => in_mask i =? 0) batch then Some (map in_dst batch)
  else update_batch f batch.

Fixpoint run_batches (fuel : nat) (f : lane_fn) (hm : bool) (w : nat) (l : list lin) : option (list px) :=
  match fuel with
  | O => Some (map in_dst l)
  | S fuel' =>
      match l with
      | [] => Some []
      | _ =>
          match run_batch f hm (firstn w l), run_batches fuel' f hm w (skipn w l) with
          | Some a, Some b => Some (a ++ b)
          | _, _ => None
          end
      end
  end.

Definition run_row (f : lane_fn) (hm : bool) (w : nat) (x0 len : nat) (row : list lin) : option (list px) :=
  let pre := firstn x0 row in
  let mid := firstn len (skipn x0 row) in
  let post := skipn (x0 + len) row in
  match run_batches (S (List.length mid)) f hm w mid with
  | Some m => Some (map in_dst pre ++ m ++ map in_dst post)
  | None => None
  end.

Definition has_mask_stage (prog : list string) : bool := existsb (String.eqb "MaskU8"%string) prog.

Definition run_program (p : paintm) (prog : list string) (cov : f32) (x0 len : nat) (row : list lin)
  : option (list px) :=
  let c := color_premultiply (p_color p) in
  if is_lowp p prog then
    let f := fun i => run_lane (fun st => lowp_stage st (color_to_u16 c) cov)
                               prog i (mklst 0 0 0 0 0 0 0 0) None in
    run_row f (has_mask_stage prog) 16 x0 len row
  else
    let z := F32.zero in
    let f := fun i => run_lane (fun st => highp_stage st c cov)
                               prog i (mklst z z z z z z z z) None in
    run_row f (has_mask_stage prog) 8 x0 len row.

(* Blitter::blit_rect on a 1-row rect *)
Definition blit_rect_row (p : paintm) (b : blitterm) (x0 len : nat) (row : list lin) : option (list px) :=
  match b_memset b with
  | Some c => Some (map in_dst (firstn x0 row) ++ map (fun _ => c) (firstn len (skipn x0 row))
                    ++ map in_dst (skipn (x0 + len) row))
  | None => run_program p (b_rect b) F32.zero x0 len row
  end.

(* Blitter::blit_anti_h with one run of [len] pixels of coverage [alpha] *)
Definition blit_anti_h_row (p : paintm) (b : blitterm) (alpha : Z) (x0 len : nat) (row : list lin)
  : option (list px) :=
  if alpha =? 0 then Some (map in_dst row)
  else if alpha =? 255 then blit_rect_row p b x0 len row
  else run_program p (b_anti_h b) (F32.mul (F32.of_Z alpha) inv255) x0 len row.

(* Blitter::blit_v (height 1) / blit_anti_h2: the aa-mask program on 1 or 2 pixels *)
Definition set_aa (row : list lin) (x0 : nat) (vals : list Z) : list lin :=
  firstn x0 row ++
  map (fun iv => mklin (in_dst (fst iv)) (in_mask (fst iv)) (snd iv)) (combine (firstn (List.length vals) (skipn x0 row)) vals)
  ++ skipn (x0 + List.length vals) row.
Definition blit_aa_row (p : paintm) (b : blitterm) (vals : list Z) (x0 : nat) (row : list lin) : option (list px) :=
  run_program p (b_mask b) F32.zero x0 (List.length vals) (set_aa row x0 vals).
