(* Bit-exact model of path_geometry::AutoConicToQuads::compute (conic -> quads), used by
   PathBuilder::conic_to (ovals, circles, round joins/caps).  Definitions only. *)
From Coq Require Import ZArith Bool List.
From TS Require Import Base.F32 Model.Rect.
Import ListNotations.

Definition c_quarter : f32 := F32.of_bits 1048576000. (* 0.25 *)
Definition c_two : f32 := F32.of_bits 1073741824.
Definition c_four : f32 := F32.of_bits 1082130432.
Definition d_one : f64 := F64.of_f32 F32.one.
Definition d_two : f64 := F64.of_f32 c_two.
Definition d_half : f64 := F64.of_f32 F32.half.

(* Point::is_finite: (x * y).is_finite() *)
Definition pt_is_finite (p : pt) : bool := F32.is_finite (F32.mul (px p) (py p)).

Record conic := mkconic { c0 : pt; c1 : pt; c2 : pt; cw : f32 }.

(* Conic::compute_quad_pow2(0.25) *)
Definition compute_quad_pow2 (c : conic) (tol : f32) : option nat :=
  if F32.lt tol F32.zero || negb (F32.is_finite tol) then None
  else if negb (pt_is_finite (c0 c) && pt_is_finite (c1 c) && pt_is_finite (c2 c)) then None
  else
    let a := F32.sub (cw c) F32.one in
    let k := F32.div a (F32.mul c_four (F32.add c_two a)) in
    let x := F32.mul k (F32.add (F32.sub (px (c0 c)) (F32.mul c_two (px (c1 c)))) (px (c2 c))) in
    let y := F32.mul k (F32.add (F32.sub (py (c0 c)) (F32.mul c_two (py (c1 c)))) (py (c2 c))) in
    let error := F32.sqrt (F32.add (F32.mul x x) (F32.mul y y)) in
    let fix loop (n : nat) (error : f32) (pow2 : nat) : nat :=
      match n with
      | O => pow2
      | S n' => if F32.le error tol then pow2 else loop n' (F32.mul error c_quarter) (S pow2)
      end in
    Some (Nat.max (loop 4%nat error 0%nat) 1).

Definition subdivide_weight_value (w : f32) : f32 :=
  F32.sqrt (F32.add F32.half (F32.mul w F32.half)).

Definition between (a b c : f32) : bool :=
  F32.le (F32.mul (F32.sub a b) (F32.sub c b)) F32.zero.

(* Conic::chop *)
Definition conic_chop (c : conic) : conic * conic :=
  let scale := F32.div F32.one (F32.add F32.one (cw c)) in
  let new_w := subdivide_weight_value (cw c) in
  let p0 := c0 c in let p1 := c1 c in let p2 := c2 c in
  let ww := cw c in
  let wp1x := F32.mul ww (px p1) in let wp1y := F32.mul ww (py p1) in
  let mx := F32.mul (F32.mul (F32.add (F32.add (px p0) (F32.add wp1x wp1x)) (px p2)) scale) F32.half in
  let my := F32.mul (F32.mul (F32.add (F32.add (py p0) (F32.add wp1y wp1y)) (py p2)) scale) F32.half in
  let m :=
    if pt_is_finite (mkpt mx my) then mkpt mx my
    else
      let w_d := F64.of_f32 ww in
      let w_2 := F64.mul w_d d_two in
      let scale_half := F64.mul (F64.div d_one (F64.add d_one w_d)) d_half in
      let f (a b c : f32) :=
        F64.to_f32 (F64.mul (F64.add (F64.add (F64.of_f32 a) (F64.mul w_2 (F64.of_f32 b))) (F64.of_f32 c))
                            scale_half) in
      mkpt (f (px p0) (px p1) (px p2)) (f (py p0) (py p1) (py p2)) in
  (mkconic p0 (mkpt (F32.mul (F32.add (px p0) wp1x) scale) (F32.mul (F32.add (py p0) wp1y) scale)) m new_w,
   mkconic m (mkpt (F32.mul (F32.add wp1x (px p2)) scale) (F32.mul (F32.add wp1y (py p2)) scale)) p2 new_w).

Definition set_y (p : pt) (y : f32) : pt := mkpt (px p) y.

(* subdivide: appends 2 points per leaf *)
Fixpoint subdivide (src : conic) (level : nat) : list pt :=
  match level with
  | O => [c1 src; c2 src]
  | S level' =>
      let '(d0, d1) := conic_chop src in
      let start_y := py (c0 src) in
      let end_y := py (c2 src) in
      let '(d0, d1) :=
        if between start_y (py (c1 src)) end_y then
          let mid_y := py (c2 d0) in
          let '(d0, d1) :=
            if negb (between start_y mid_y end_y) then
              let closer_y :=
                if F32.lt (F32.abs (F32.sub mid_y start_y)) (F32.abs (F32.sub mid_y end_y))
                then start_y else end_y in
              (mkconic (c0 d0) (c1 d0) (set_y (c2 d0) closer_y) (cw d0),
               mkconic (set_y (c0 d1) closer_y) (c1 d1) (c2 d1) (cw d1))
            else (d0, d1) in
          let d0 :=
            if negb (between start_y (py (c1 d0)) (py (c2 d0)))
            then mkconic (c0 d0) (set_y (c1 d0) start_y) (c2 d0) (cw d0) else d0 in
          let d1 :=
            if negb (between (py (c0 d1)) (py (c1 d1)) end_y)
            then mkconic (c0 d1) (set_y (c1 d1) end_y) (c2 d1) (cw d1) else d1 in
          (d0, d1)
        else (d0, d1) in
      subdivide d0 level' ++ subdivide d1 level'
  end.

(* chop_into_quads_pow2: points[0] = p0, then the subdivision; non-finite => pin to c1 *)
Definition chop_into_quads_pow2 (c : conic) (pow2 : nat) : list pt :=
  let pts := c0 c :: subdivide c pow2 in
  if forallb pt_is_finite pts then pts
  else
    (* all but the first and last become c1 *)
    match pts with
    | [] => []
    | first :: rest =>
        first :: (map (fun _ => c1 c) (removelast rest)) ++ [last rest first]
    end.

Fixpoint pairs_of (l : list pt) : list (pt * pt) :=
  match l with
  | a :: b :: r => (a, b) :: pairs_of r
  | _ => []
  end.

(* AutoConicToQuads::compute: the (ctrl, end) pairs of the quads *)
Definition conic_quads (p0 p1 p2 : pt) (w : f32) : option (list (pt * pt)) :=
  let c := mkconic p0 p1 p2 w in
  match compute_quad_pow2 c c_quarter with
  | None => None
  | Some pow2 => Some (pairs_of (tl (chop_into_quads_pow2 c pow2)))
  end.
