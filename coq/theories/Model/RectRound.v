(* Rect::round / Rect::round_out (path/src/rect.rs), combining the float and integer models. *)
From Coq Require Import ZArith Bool List.
From TS Require Import Base.F32 Model.Rect Model.IntRect.
Local Open Scope Z_scope.

Definition rect_round (a : rect) : option irect :=
  ir_from_xywh (saturate_round (rl a)) (saturate_round (rt a))
               (Z.max 1 (i32_as_u32 (saturate_round (rect_width a))))
               (Z.max 1 (i32_as_u32 (saturate_round (rect_height a)))).

(* after the fix: round the four edges, reject saturated edges *)
Definition rect_round_out (a : rect) : option irect :=
  let left := saturate_floor (rl a) in
  let top := saturate_floor (rt a) in
  let right := saturate_ceil (rr a) in
  let bottom := saturate_ceil (rb a) in
  if F32.gt (F32.of_Z left) (rl a) || F32.gt (F32.of_Z top) (rt a) ||
     F32.lt (F32.of_Z right) (rr a) || F32.lt (F32.of_Z bottom) (rb a) then None
  else
    match checked_sub right left with
    | None => None
    | Some w =>
        match u32_of_i32 w with
        | None => None
        | Some w =>
            match checked_sub bottom top with
            | None => None
            | Some h =>
                match u32_of_i32 h with
                | None => None
                | Some h => ir_from_xywh left top (Z.max 1 w) (Z.max 1 h)
                end
            end
        end
    end.

(* the pinned tree: floor(x), ceil(width) *)
Definition rect_round_out_pinned (a : rect) : option irect :=
  ir_from_xywh (saturate_floor (rl a)) (saturate_floor (rt a))
               (Z.max 1 (i32_as_u32 (saturate_ceil (rect_width a))))
               (Z.max 1 (i32_as_u32 (saturate_ceil (rect_height a)))).
