(* Bit-exact model of QuadraticEdge (src/edge.rs): set-up of the forward differences (new2), LineEdge::update and the
   update loop, in the semantics of an overflow-checked build (None = panic).  Definitions only. *)
From Coq Require Import ZArith Bool List.
From TS Require Import Base.F32 Model.Rect Model.PathBuilder Model.Edge.
Import ListNotations.
Local Open Scope Z_scope.

Definition max_coeff_shift : Z := 6.

(* cheap_distance: max + min / 2 of the absolute values (abs of i32::MIN panics) *)
Definition cheap_distance (dx dy : Z) : option Z :=
  do ax <- ck (Z.abs dx);
  do ay <- ck (Z.abs dy);
  if ay <? ax then ck (ax + sar ay 1) else ck (ay + sar ax 1).

(* 32 - leading_zeros of a non-negative i32 = its bit length *)
Definition bit_length (z : Z) : Z := if z <=? 0 then 0 else Z.log2 z + 1.

Definition diff_to_shift (dx dy shift_aa : Z) : option Z :=
  do dist <- cheap_distance dx dy;
  do d1 <- ck (dist + 2 ^ (2 + shift_aa));
  let d2 := sar d1 (3 + shift_aa) in
  Some (sar (bit_length d2) 1).

(* fdot6_to_fixed_div2: left_shift(value, 16 - 6 - 1) *)
Definition fdot6_to_fixed_div2 (v : Z) : Z := left_shift v 9.

(* LineEdge::update(x0, y0, x1, y1) on 16.16 inputs: None = panic, Some None = zero height, Some (Some edge) *)
Definition line_update (winding : Z) (x0 y0 x1 y1 : Z) : option (option ledge) :=
  let y0 := sar y0 10 in let y1 := sar y1 10 in
  if y1 <? y0 then None else
  do top <- fdot6_round y0;
  do bottom <- fdot6_round y1;
  if top =? bottom then Some None else
  let x0 := sar x0 10 in let x1 := sar x1 10 in
  do ddx <- ck (x1 - x0);
  do ddy <- ck (y1 - y0);
  do slope <- fdot6_div ddx ddy;
  do dy <- compute_dy top y0;
  do xx <- ck (x0 + fdot16_mul slope dy);
  do last <- ck (bottom - 1);
  do x16 <- fdot6_to_fdot16 xx;
  Some (Some (mkedge x16 slope top last winding)).

Record quad := mkquad {
  q_count : Z; q_shift : Z;
  q_x : Z; q_y : Z; q_dx : Z; q_dy : Z; q_ddx : Z; q_ddy : Z; q_lastx : Z; q_lasty : Z; q_wind : Z }.

(* QuadraticEdge::new2: None = panic, Some None = zero height *)
Definition quad_new2 (p0 p1 p2 : pt) (shift : Z) : option (option quad) :=
  let scale := F32.of_Z (2 ^ (shift + 6)) in
  let cv := fun v => F32.to_i32 (F32.mul v scale) in
  let x0 := cv (px p0) in let y0 := cv (py p0) in
  let x1 := cv (px p1) in let y1 := cv (py p1) in
  let x2 := cv (px p2) in let y2 := cv (py p2) in
  let '(x0, y0, x2, y2, winding) := if y2 <? y0 then (x2, y2, x0, y0, -1) else (x0, y0, x2, y2, 1) in
  if negb ((y0 <=? y1) && (y1 <=? y2)) then None else
  do top <- fdot6_round y0;
  do bottom <- fdot6_round y2;
  if top =? bottom then Some None else
  do ax <- ck (left_shift x1 1 - x0); do ax <- ck (ax - x2);
  do ay <- ck (left_shift y1 1 - y0); do ay <- ck (ay - y2);
  do sh <- diff_to_shift (sar ax 2) (sar ay 2) shift;
  if sh <? 0 then None else
  let sh := if sh =? 0 then 1 else if max_coeff_shift <? sh then max_coeff_shift else sh in
  let count := 2 ^ sh in
  (* x *)
  do a0 <- ck (x0 - x1); do a1 <- ck (a0 - x1); do a2 <- ck (a1 + x2);
  let a := fdot6_to_fixed_div2 a2 in
  do bx0 <- ck (x1 - x0); do b <- fdot6_to_fdot16 bx0;
  do qx <- fdot6_to_fdot16 x0;
  do qdx <- ck (b + sar a sh);
  let qddx := sar a (sh - 1) in
  (* y *)
  do c0 <- ck (y0 - y1); do c1 <- ck (c0 - y1); do c2 <- ck (c1 + y2);
  let a' := fdot6_to_fixed_div2 c2 in
  do by0 <- ck (y1 - y0); do b' <- fdot6_to_fdot16 by0;
  do qy <- fdot6_to_fdot16 y0;
  do qdy <- ck (b' + sar a' sh);
  let qddy := sar a' (sh - 1) in
  do lx <- fdot6_to_fdot16 x2;
  do ly <- fdot6_to_fdot16 y2;
  Some (Some (mkquad count (sh - 1) qx qy qdx qdy qddx qddy lx ly winding)).

(* QuadraticEdge::update: (new state, the line edge if one with non-zero height was found) *)
Fixpoint quad_update_loop (fuel : nat) (q : quad) (count oldx oldy dx dy : Z) : option (quad * option ledge) :=
  match fuel with
  | O => None
  | S fuel' =>
      let count := count - 1 in
      do nxt <- (if 0 <? count then
                   do nx <- ck (oldx + sar dx (q_shift q)); do dx' <- ck (dx + q_ddx q);
                   do ny <- ck (oldy + sar dy (q_shift q)); do dy' <- ck (dy + q_ddy q);
                   Some (nx, ny, dx', dy')
                 else Some (q_lastx q, q_lasty q, dx, dy));
      let '(newx, newy, dx, dy) := nxt in
      do r <- line_update (q_wind q) oldx oldy newx newy;
      match r with
      | Some e => Some (mkquad count (q_shift q) newx newy dx dy (q_ddx q) (q_ddy q) (q_lastx q) (q_lasty q) (q_wind q), Some e)
      | None =>
          if count =? 0 then Some (mkquad count (q_shift q) newx newy dx dy (q_ddx q) (q_ddy q) (q_lastx q) (q_lasty q) (q_wind q), None)
          else quad_update_loop fuel' q count newx newy dx dy
      end
  end.
Definition quad_update (q : quad) : option (quad * option ledge) :=
  if q_count q <=? 0 then None   (* debug_assert!(count > 0) *)
  else quad_update_loop 70 q (q_count q) (q_x q) (q_y q) (q_dx q) (q_dy q).

(* the line edges the scan converter walks through: new (= new2 + update), then update while curve_count > 0 *)
Fixpoint quad_lines_loop (fuel : nat) (q : quad) : option (list ledge) :=
  match fuel with
  | O => None
  | S fuel' =>
      if q_count q <=? 0 then Some []
      else
        do r <- quad_update q;
        match snd r with
        | None => Some []
        | Some e => do rest <- quad_lines_loop fuel' (fst r); Some (e :: rest)
        end
  end.
Definition quad_edge_lines (p0 p1 p2 : pt) (shift : Z) : option (list ledge) :=
  do q0 <- quad_new2 p0 p1 p2 shift;
  match q0 with
  | None => Some []
  | Some q =>
      do r <- quad_update q;
      match snd r with
      | None => Some []
      | Some e => do rest <- quad_lines_loop 70 (fst r); Some (e :: rest)
      end
  end.

(* ---- CubicEdge ----------------------------------------------------------------------------------------------------------------------- *)
(* cubic_delta_from_line: |(8a - 15b + 6c + d) * 19 >> 9| and |(a + 6b - 15c + 8d) * 19 >> 9|, the larger *)
Definition cubic_delta_from_line (a b c d : Z) : option Z :=
  do t1 <- ck (a * 8); do t2 <- ck (b * 15); do t3 <- ck (t1 - t2); do t4 <- ck (6 * c); do t5 <- ck (t3 + t4); do t6 <- ck (t5 + d);
  do t7 <- ck (t6 * 19);
  let one_third := sar t7 9 in
  do u1 <- ck (6 * b); do u2 <- ck (a + u1); do u3 <- ck (c * 15); do u4 <- ck (u2 - u3); do u5 <- ck (d * 8); do u6 <- ck (u4 + u5);
  do u7 <- ck (u6 * 19);
  let two_third := sar u7 9 in
  do a1 <- ck (Z.abs one_third); do a2 <- ck (Z.abs two_third);
  Some (Z.max a1 a2).

(* fdot6_up_shift: debug_assert!((left_shift(x, s) >> s) == x) *)
Definition fdot6_up_shift (x s : Z) : option Z :=
  let r := left_shift x s in if sar r s =? x then Some r else None.

Record cubic := mkcubic {
  c_count : Z; c_shift : Z; c_dshift : Z;
  c_x : Z; c_y : Z; c_dx : Z; c_dy : Z; c_ddx : Z; c_ddy : Z; c_dddx : Z; c_dddy : Z; c_lastx : Z; c_lasty : Z; c_wind : Z }.

(* the coefficients of one axis: (cdx, cddx, cdddx) *)
Definition cubic_coeffs (v0 v1 v2 v3 shift up_shift : Z) : option (Z * Z * Z) :=
  do b0 <- ck (v1 - v0); do b1 <- ck (3 * b0); do b <- fdot6_up_shift b1 up_shift;
  do c0 <- ck (v0 - v1); do c1 <- ck (c0 - v1); do c2 <- ck (c1 + v2); do c3 <- ck (3 * c2); do c <- fdot6_up_shift c3 up_shift;
  do d0 <- ck (v1 - v2); do d1 <- ck (3 * d0); do d2 <- ck (v3 + d1); do d3 <- ck (d2 - v0); do d <- fdot6_up_shift d3 up_shift;
  do e0 <- ck (b + sar c shift); do cdx <- ck (e0 + sar d (2 * shift));
  do d3x <- ck (3 * d);
  do f0 <- ck (2 * c); do cddx <- ck (f0 + sar d3x (shift - 1));
  Some (cdx, cddx, sar d3x (shift - 1)).

(* CubicEdge::new2(points, shift, sort_y = true): None = panic, Some None = zero height *)
Definition cubic_new2 (p0 p1 p2 p3 : pt) (shift : Z) : option (option cubic) :=
  let scale := F32.of_Z (2 ^ (shift + 6)) in
  let cv := fun v => F32.to_i32 (F32.mul v scale) in
  let x0 := cv (px p0) in let y0 := cv (py p0) in
  let x1 := cv (px p1) in let y1 := cv (py p1) in
  let x2 := cv (px p2) in let y2 := cv (py p2) in
  let x3 := cv (px p3) in let y3 := cv (py p3) in
  let '(x0, y0, x1, y1, x2, y2, x3, y3, winding) :=
    if y3 <? y0 then (x3, y3, x2, y2, x1, y1, x0, y0, -1) else (x0, y0, x1, y1, x2, y2, x3, y3, 1) in
  do top <- fdot6_round y0;
  do bot <- fdot6_round y3;
  if top =? bot then Some None else
  do dx <- cubic_delta_from_line x0 x1 x2 x3;
  do dy <- cubic_delta_from_line y0 y1 y2 y3;
  do sh0 <- diff_to_shift dx dy 2;
  do sh1 <- ck (sh0 + 1);
  if sh1 <=? 0 then None else
  let sh := if max_coeff_shift <? sh1 then max_coeff_shift else sh1 in
  let down0 := sh + 6 - 10 in
  let '(up_shift, down_shift) := if down0 <? 0 then (10 - sh, 0) else (6, down0) in
  let count := - 2 ^ sh in          (* left_shift(-1, shift) as i8 *)
  do kx <- cubic_coeffs x0 x1 x2 x3 sh up_shift;
  do cx <- fdot6_to_fdot16 x0;
  do ky <- cubic_coeffs y0 y1 y2 y3 sh up_shift;
  do cy <- fdot6_to_fdot16 y0;
  do lx <- fdot6_to_fdot16 x3;
  do ly <- fdot6_to_fdot16 y3;
  let '(cdx, cddx, cdddx) := kx in let '(cdy, cddy, cdddy) := ky in
  Some (Some (mkcubic count sh down_shift cx cy cdx cdy cddx cddy cdddx cdddy lx ly winding)).

Fixpoint cubic_update_loop (fuel : nat) (c : cubic) (count oldx oldy : Z) : option (cubic * option ledge) :=
  match fuel with
  | O => None
  | S fuel' =>
      let count := count + 1 in
      do nxt <- (if count <? 0 then
                   do nx <- ck (oldx + sar (c_dx c) (c_dshift c));
                   do dx' <- ck (c_dx c + sar (c_ddx c) (c_shift c)); do ddx' <- ck (c_ddx c + c_dddx c);
                   do ny <- ck (oldy + sar (c_dy c) (c_dshift c));
                   do dy' <- ck (c_dy c + sar (c_ddy c) (c_shift c)); do ddy' <- ck (c_ddy c + c_dddy c);
                   Some (nx, ny, dx', dy', ddx', ddy')
                 else Some (c_lastx c, c_lasty c, c_dx c, c_dy c, c_ddx c, c_ddy c));
      let '(newx, newy0, dx, dy, ddx, ddy) := nxt in
      let newy := if newy0 <? oldy then oldy else newy0 in
      let c' := mkcubic count (c_shift c) (c_dshift c) newx newy dx dy ddx ddy (c_dddx c) (c_dddy c) (c_lastx c) (c_lasty c) (c_wind c) in
      do r <- line_update (c_wind c) oldx oldy newx newy;
      match r with
      | Some e => Some (c', Some e)
      | None => if count =? 0 then Some (c', None) else cubic_update_loop fuel' c' count newx newy
      end
  end.
Definition cubic_update (c : cubic) : option (cubic * option ledge) :=
  if 0 <=? c_count c then None   (* debug_assert!(count < 0) *)
  else cubic_update_loop 70 c (c_count c) (c_x c) (c_y c).

Fixpoint cubic_lines_loop (fuel : nat) (c : cubic) : option (list ledge) :=
  match fuel with
  | O => None
  | S fuel' =>
      if 0 <=? c_count c then Some []
      else
        do r <- cubic_update c;
        match snd r with
        | None => Some []
        | Some e => do rest <- cubic_lines_loop fuel' (fst r); Some (e :: rest)
        end
  end.
Definition cubic_edge_lines (p0 p1 p2 p3 : pt) (shift : Z) : option (list ledge) :=
  do c0 <- cubic_new2 p0 p1 p2 p3 shift;
  match c0 with
  | None => Some []
  | Some c =>
      do r <- cubic_update c;
      match snd r with
      | None => Some []
      | Some e => do rest <- cubic_lines_loop 70 (fst r); Some (e :: rest)
      end
  end.
